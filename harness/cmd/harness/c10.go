package main

import (
	"fmt"
	"reflect"
	"strings"

	"github.com/sergeymakinen/go-crypt/argon2"
	"github.com/sergeymakinen/go-crypt/bcrypt"
	"github.com/sergeymakinen/go-crypt/des"
	"github.com/sergeymakinen/go-crypt/desext"
	"github.com/sergeymakinen/go-crypt/md5"
	"github.com/sergeymakinen/go-crypt/nthash"
	"github.com/sergeymakinen/go-crypt/sha1"
	"github.com/sergeymakinen/go-crypt/sha256"
	"github.com/sergeymakinen/go-crypt/sha512"
	"github.com/sergeymakinen/go-crypt/sunmd5"
)

func init() { corrs["C10"] = corrC10 }

// hand-written shapes: pointers, embedding, text marshalers
type EmbInner struct {
	X string `hash:"param:x"`
	Y uint16 `hash:"param:y,omitempty"`
}
type ShapeEmbVal struct {
	HashPrefix string
	EmbInner
	S string
}
type ShapeEmbPtr struct {
	*EmbInner
	S string
}
type ShapeShadow struct {
	X string `hash:"param:x"`
	EmbInner
	Z []byte
}
type ShapeText struct {
	HashPrefix string
	H          Hex16
	R          RevStr `hash:"param:r"`
	P          *Picky `hash:"omitempty"`
	Tail       [3]byte
}
type ShapePtrs struct {
	A *string
	B *uint32 `hash:"param:b,omitempty"`
	C *[]byte
}
type ShapeConflict struct {
	A string `hash:"param:k"`
	B string `hash:"param:k"`
}
type shapeUnexp struct {
	Q string
}
type ShapeUnexpEmb struct {
	shapeUnexp
	hidden int
	Skip   string `hash:"-"`
	W      uint8
}

// the same struct embedded at different positions (and together with other embedded structs) by several outer types
type ShapeEmbFirst struct {
	EmbInner
	S string
}
type ShapeEmbLast struct {
	A string
	B uint8 `hash:"param:b"`
	EmbInner
}
type EmbInner2 struct {
	Q []byte `hash:"param:q"`
}
type ShapeEmbTwo struct {
	HashPrefix string
	EmbInner2
	M string
	EmbInner
	Z string
}
type ShapeEmbDeep struct {
	ShapeEmbFirst
	T uint16 `hash:"param:t"`
}

// several parameter names that each conflict at one depth; byte arrays whose length tag is shorter / equal / longer
type ShapeConflict2 struct {
	A string `hash:"param:k"`
	B string `hash:"param:k"`
	C uint8  `hash:"param:j"`
	D uint8  `hash:"param:j"`
	E []byte `hash:"param:m"`
	F []byte `hash:"param:m"`
}
type ShapeArrLen struct {
	S string
	A [4]byte `hash:"length:2"`
	B [2]byte `hash:"length:2"`
	C [3]byte `hash:"length:5"`
}

// a group member that is consumed inline (valid, unusual)
type ShapeGroupInline struct {
	HashPrefix string
	A          uint8  `hash:"param:a,group"`
	V          string `hash:"param:v,group,length:2,inline"`
	S          string
}

// the first member of a group is consumed inline from a single value: the text it leaves in the (shared) node is
// what the next member of the group sees ("b=//m=29" is accepted as b="//", m=29)
type ShapeGroupInlineFirst struct {
	B string `hash:"param:b,group,length:2,inline"`
	M int8   `hash:"param:m,group"`
	S string `hash:"length:2"`
}

// strings given to Unmarshal for particular hand shapes (besides the ones Marshal writes)
var handInputs = map[reflect.Type][]string{
	reflect.TypeOf(ShapeGroupInlineFirst{}): {"b=//m=29$zB", "b=//,m=29$zB", "b=//$zB", "m=29,b=//$zB", "b=//m=29,m=3$zB", "b=/$zB", "b=//m=29", "b=//m=$zB", "b=//b=//$zB", "b=//m=29x$zB"},
	reflect.TypeOf(ShapeGroupInline{}):      {"$1$a=3,v=xy$s", "$1$v=xya=3$s", "$1$v=xy,a=3$s", "$1$a=3v=xy$s", "$1$v=xyz,a=3$s", "$1$v=xy$s"},
}

var handShapes = []reflect.Type{
	reflect.TypeOf(ShapeGroupInline{}), reflect.TypeOf(ShapeGroupInlineFirst{}),
	reflect.TypeOf(ShapeArrLen{}),
	reflect.TypeOf(ShapeEmbFirst{}), reflect.TypeOf(ShapeEmbLast{}), reflect.TypeOf(ShapeEmbTwo{}), reflect.TypeOf(ShapeEmbDeep{}),
	reflect.TypeOf(ShapeEmbVal{}), reflect.TypeOf(ShapeEmbPtr{}), reflect.TypeOf(ShapeShadow{}), reflect.TypeOf(ShapeText{}),
	reflect.TypeOf(ShapePtrs{}), reflect.TypeOf(ShapeConflict{}), reflect.TypeOf(ShapeUnexpEmb{}),
}

// fillAny sets exported leaf fields of an arbitrary struct value (hand shapes, shipped schemes).
func fillAny(r *rng, v reflect.Value, wild bool) {
	t := v.Type()
	for i := 0; i < t.NumField(); i++ {
		sf := t.Field(i)
		fv := v.Field(i)
		if !fv.CanSet() {
			continue
		}
		bt := sf.Type
		if sf.Anonymous {
			if bt.Kind() == reflect.Ptr && bt.Elem().Kind() == reflect.Struct {
				if r.intn(3) != 0 {
					fv.Set(reflect.New(bt.Elem()))
					fillAny(r, fv.Elem(), wild)
				}
				continue
			}
			if bt.Kind() == reflect.Struct {
				fillAny(r, fv, wild)
				continue
			}
		}
		f := &gField{name: sf.Name, typ: sf.Type, length: -1}
		if i := strings.Index(sf.Tag.Get("hash"), "length:"); i >= 0 && !wild {
			fmt.Sscanf(sf.Tag.Get("hash")[i+len("length:"):], "%d", &f.length)
		}
		if sf.Name == "HashPrefix" && fv.Kind() == reflect.String {
			fv.SetString(lexPrefixes[r.intn(len(lexPrefixes))])
			continue
		}
		fillScalar(r, f, fv, wild)
	}
}

func deepEq(a, b reflect.Value) bool {
	// equality of struct values up to nil/empty []byte
	switch a.Kind() {
	case reflect.Ptr:
		if a.IsNil() || b.IsNil() {
			return a.IsNil() == b.IsNil()
		}
		return deepEq(a.Elem(), b.Elem())
	case reflect.Struct:
		for i := 0; i < a.NumField(); i++ {
			if !deepEq(a.Field(i), b.Field(i)) {
				return false
			}
		}
		return true
	case reflect.Slice:
		if a.Type().Elem().Kind() == reflect.Uint8 {
			return string(a.Bytes()) == string(b.Bytes())
		}
		return a.Len() == b.Len()
	case reflect.Array:
		for i := 0; i < a.Len(); i++ {
			if a.Index(i).Uint() != b.Index(i).Uint() {
				return false
			}
		}
		return true
	case reflect.String:
		return a.String() == b.String()
	case reflect.Int, reflect.Int8, reflect.Int16, reflect.Int32, reflect.Int64:
		return a.Int() == b.Int()
	case reflect.Uint, reflect.Uint8, reflect.Uint16, reflect.Uint32, reflect.Uint64:
		return a.Uint() == b.Uint()
	case reflect.Bool:
		return a.Bool() == b.Bool()
	case reflect.Float64:
		return a.Float() == b.Float()
	}
	return true
}

var shippedHashes = map[string][]string{}

func shippedTypes() []reflect.Type {
	return []reflect.Type{argon2.VerifSchemeType(), bcrypt.VerifSchemeType(), des.VerifSchemeType(), desext.VerifSchemeType(),
		md5.VerifSchemeType(), nthash.VerifSchemeType(), sha1.VerifSchemeType(), sha256.VerifSchemeType(), sha512.VerifSchemeType(),
		sunmd5.VerifSchemeType(), sunmd5.VerifSaltSchemeType()}
}

var referenceHashes = []string{
	"$argon2id$v=19$m=65536,t=2,p=1$c29tZXNhbHQ$CTFhFdXPJO1aFaMaO6Mm5c8y7cJHAph8ArZWb2GRPPc",
	"$argon2i$m=65536,t=2,p=4$c29tZXNhbHQAAAAAAAAAAA$QWLzI4TY9HkL2ZTLc8g6SinwdhZewYrzz9zxCo0bkGY",
	"$2b$10$aaaaaaaaaaaaaaaaaaaaa.1Bx7.YgIFrRP5EQeMrjVPZ9VfOJzLvu",
	"$2a$05$CCCCCCCCCCCCCCCCCCCCC.E5YPO9kmyuRGyh0XouQYb4YMJKvyOeW",
	"aajfMKNH1hTm2", "_6C/.yaiu.qYIjNR7X.s",
	"$1$ip0xp41O$7DHwMihQRmDjn2tiJ17mw.",
	"$3$$8846f7eaee8fb117ad06bdd830b7586c",
	"$sha1$48000$mHh0IIOQ$YS/Lw0PKCThSEBBYqP37zXySQ3cC",
	"$5$rounds=505000$.HnFpd3anFzRwVj5$EdcK/Q9wfmq1XsG5OTKP0Ns.ZlN9DRHslblcgCLtXY5",
	"$5$aaa$KzSJfmMb9SO88yzOh42fPm3ckBI944gGvTRvr.psx20",
	"$6$rounds=6000$aaa$aQGFJ.RGgUKrm8.ppuLyHU7aDfTgsmYaZNmk72xLl8JsKSBzhHai2gwD/m5d.R52wwn6eQ7Qoj6fxY3fpvnbw/",
	"$md5,rounds=5000$aaa$$abAU9NFKS6nog0MbB4WmM.", "$md5$rounds=5000$aaa$NaTj.65AER50nLcHV9aKI/", "$md5,rounds=5000$z3L69cPJTnwjRDTAFtqGE.",
	"$md5$rounds=5000$aaa$", "$md5,rounds=0$", "$md5,rounds=77$abc",
}

// lastCaseMeta: the description of the unmarshal case added last; a search result ("property_fails") may be
// attached to it before the case set is flushed (used by bin/check when the correspondence breaks at that case)
var lastCaseMeta map[string]interface{}

type codecCase struct {
	tname string
	gt    *gType // nil for hand/shipped shapes
	t     reflect.Type
	class bool
	noC20 bool // in the class but outside the C20 theorem's side conditions (plain integer right after an inline field)
}

func corrCodec(prop string, outDir string, seed uint64, tier string, withEdits bool) *report {
	rep := newReport(prop, seed, tier)
	r := newRng(seed)
	imports := []string{"GC.Codec.Types", "GC.Codec.Codec"}
	csM := newCaseSet(outDir, prop+"_marshal", imports, "list sfield * sval * obs bytes", "ok_marshal", 1500)
	csU := newCaseSet(outDir, prop+"_unmarshal", imports, "list sfield * bytes * obs (list (list nat * fval))", "ok_unmarshal", 1500)
	// the class round-trip statement, evaluated by the model on every generated (layout, value)
	csK := newCaseSet(outDir, prop+"_class", append(imports, "GC.Codec.Class"), "list sfield * sval * obs bytes", "test_class_rt", 1500)
	var csR *caseSet
	if withEdits {
		// the C20 statement, evaluated by the model on every string of the run (accepted ones are what matters)
		csR = newCaseSet(outDir, prop+"_respell", append(imports, "GC.Codec.C20Test", "GC.Codec.C20PShipped"), "list sfield * bytes * obs (list (list nat * fval))", "test_c20_side", 1500)
	}
	var types []codecCase
	nWild, nClass, nVals := 120, 160, 6
	if tier == "thorough" {
		nWild, nClass, nVals = 800, 1200, 10
	}
	for i := 0; i < nWild; i++ {
		gt := genWild(r)
		types = append(types, codecCase{fmt.Sprintf("W%d", i), gt, gt.t, inClass(gt), false})
	}
	for i := 0; i < nClass; i++ {
		gt := genClass(r)
		types = append(types, codecCase{fmt.Sprintf("K%d", i), gt, gt.t, true, false})
	}
	// the same layouts with runs of fields moved into embedded structs (depth 1..4): embedding is a documented field
	// kind, and the flattened layout is unchanged
	nNest := len(types) / 3
	for i, k := 0, 0; k < nNest && i < len(types); i++ {
		base := types[(i*7)%len(types)]
		if base.gt == nil {
			continue
		}
		if ngt, ok := nestType(r, base.gt, 1+k%4); ok {
			types = append(types, codecCase{fmt.Sprintf("N%d", k), ngt, ngt.t, base.class, false})
			k++
		}
	}
	rep.Distribution["types_nested"] = nNest
	for i, t := range handShapes {
		types = append(types, codecCase{fmt.Sprintf("H%d", i), nil, t, false, false})
	}
	for i, t := range shippedTypes() {
		types = append(types, codecCase{fmt.Sprintf("S%d", i), nil, t, false, false})
	}
	for i := range types {
		types[i].noC20 = types[i].gt != nil && intAfterInline(types[i].gt)
	}
	for _, tc := range types {
		def := fmt.Sprintf("Definition %s : list sfield := %s.", tc.tname, structDesc(tc.t))
		csM.prelude = append(csM.prelude, def)
		csU.prelude = append(csU.prelude, def)
		csK.prelude = append(csK.prelude, def)
		if csR != nil {
			csR.prelude = append(csR.prelude, def)
		}
	}
	rep.Distribution["types_wild"] = nWild
	rep.Distribution["types_class"] = nClass
	rep.Distribution["types_hand"] = len(handShapes)
	rep.Distribution["types_shipped"] = len(shippedTypes())
	rep.Distribution["edit_budget"] = map[bool]int{false: 80, true: 600}[tier == "thorough"]

	unmarshalCase := func(tc codecCase, h string, kind string) (reflect.Value, error, interface{}) {
		p := reflect.New(tc.t)
		err, pan := unmarshalObs(h, p.Interface())
		lastCaseMeta = map[string]interface{}{"type": tc.t.String(), "hash": h, "kind": kind}
		csU.add("("+tc.tname+", "+coqStr(h)+", "+obsUnmarshalCoq(p, err, pan)+")", lastCaseMeta)
		if csR != nil && err == nil && pan == nil {
			csR.add("("+tc.tname+", "+coqStr(h)+", "+obsUnmarshalCoq(p, err, pan)+")", map[string]interface{}{"type": tc.t.String(), "hash": h, "kind": "C20 statement"})
		}
		// the same call again (another fresh target): Unmarshal's outcome is a function of the string and the type, not
		// of an earlier parse of the same string
		if len(csU.terms)%3 == 0 {
			p2 := reflect.New(tc.t)
			err2, pan2 := unmarshalObs(h, p2.Interface())
			if a, b := obsUnmarshalCoq(p, err, pan), obsUnmarshalCoq(p2, err2, pan2); a != b {
				rep.fail(map[string]interface{}{"type": tc.t.String(), "hash": h}, a, b, "a second Unmarshal of the same string into a fresh value of the same type has another outcome")
			}
			rep.bump("unmarshal_repeated")
		}
		rep.count("u:"+tc.tname+h, true)
		rep.bump("unmarshal_" + kind)
		if err == nil && pan == nil {
			rep.bump("unmarshal_accepted")
		}
		return p, err, pan
	}
	knownPanic := func(pan interface{}) bool {
		return pan != nil && strings.Contains(fmt.Sprint(pan), "indirection through nil pointer to embedded struct")
	}
	doValue := func(tc codecCase, p reflect.Value, kind string) {
		svd, _ := svalDesc(p)
		s, err, pan := marshalObs(p.Interface())
		mMeta := map[string]interface{}{"type": tc.t.String(), "value": fmt.Sprintf("%+v", p.Elem().Interface()), "kind": kind}
		if err == nil && pan == nil {
			// search support: if the model disagrees with Marshal on this very value and the string Marshal wrote does not
			// come back as the value, that is the concrete failing input (also outside the unambiguous class)
			q0 := reflect.New(tc.t)
			if e0, p0 := unmarshalObs(s, q0.Interface()); p0 == nil && (e0 != nil || !deepEq(p, q0)) {
				mMeta["property_fails"] = fmt.Sprintf("Marshal(%+v) = %q; Unmarshal of it: %v %+v", p.Elem().Interface(), s, e0, q0.Elem().Interface())
			}
		}
		csM.add("("+tc.tname+", "+svd+", "+obsMarshalCoq(s, err, pan)+")", mMeta)
		csK.add("("+tc.tname+", "+svd+", "+obsMarshalCoq(s, err, pan)+")", map[string]interface{}{"type": tc.t.String(), "value": fmt.Sprintf("%+v", p.Elem().Interface()), "kind": "class statement"})
		rep.count("m:"+tc.tname+svd, true)
		rep.bump("marshal_" + kind)
		if pan != nil {
			if knownPanic(pan) {
				rep.OracleFailures = append(rep.OracleFailures, oracleFailure{Input: tc.t.String(), Expected: "no panic", Observed: fmt.Sprint(pan), Note: "Marshal panics on a nil embedded pointer-to-struct", Sig: "D10-embedded-nil-pointer"})
			} else {
				rep.fail(map[string]interface{}{"type": tc.t.String(), "value": fmt.Sprintf("%+v", p.Elem().Interface())}, "no panic", fmt.Sprint(pan), "Marshal panics")
			}
			return
		}
		if err != nil {
			rep.bump("marshal_rejected")
			return
		}
		rep.bump("marshal_accepted")
		if len(rep.Samples) < 8 && tc.class {
			rep.sample(map[string]interface{}{"type": tc.t.String(), "marshalled": s})
		}
		q, uerr, upan := unmarshalCase(tc, s, "of_marshal")
		if upan != nil {
			if knownPanic(upan) {
				rep.OracleFailures = append(rep.OracleFailures, oracleFailure{Input: tc.t.String(), Expected: "no panic", Observed: fmt.Sprint(upan), Note: "Unmarshal panics on a nil embedded pointer-to-struct", Sig: "D10-embedded-nil-pointer"})
			} else {
				rep.fail(map[string]interface{}{"type": tc.t.String(), "hash": s}, "no panic", fmt.Sprint(upan), "Unmarshal panics")
			}
			return
		}
		inScope := tc.class && tc.gt != nil && presentable(tc.gt, p)
		if !inScope && (uerr != nil || !deepEq(p, q)) && lastCaseMeta != nil && lastCaseMeta["hash"] == s {
			// search support (hand-written and out-of-class shapes): the round trip fails here; it is reported as
			// the failing input if, and only if, the implementation disagrees with the model on this very string
			lastCaseMeta["property_fails"] = fmt.Sprintf("Marshal(%+v) = %q; Unmarshal of it: %v %+v", p.Elem().Interface(), s, uerr, q.Elem().Interface())
		}
		if inScope {
			rep.bump("roundtrip_in_class")
			if uerr != nil || !deepEq(p, q) {
				rep.fail(map[string]interface{}{"type": tc.t.String(), "value": fmt.Sprintf("%+v", p.Elem().Interface()), "marshalled": s},
					"Unmarshal(Marshal(v)) = v", fmt.Sprintf("%v %+v", uerr, q.Elem().Interface()), "round trip fails on an unambiguous layout")
			}
		}
		if uerr == nil {
			// re-marshalling an unmarshalled value yields a string that unmarshals to the same value
			s2, err2, pan2 := marshalObs(q.Interface())
			if pan2 == nil && err2 == nil {
				q2 := reflect.New(tc.t)
				e3, p3 := unmarshalObs(s2, q2.Interface())
				if inScope && (p3 != nil || e3 != nil || !deepEq(q, q2)) {
					rep.fail(map[string]interface{}{"type": tc.t.String(), "hash": s, "remarshalled": s2}, "stable after one round", fmt.Sprintf("%v %v", e3, p3), "re-marshalled string does not unmarshal to the same value")
				}
			} else if inScope {
				rep.fail(map[string]interface{}{"type": tc.t.String(), "hash": s}, "re-marshal succeeds", fmt.Sprint(err2, pan2), "unmarshalled value cannot be marshalled")
			}
		}
		if withEdits && uerr == nil {
			editCases(rep, r, tc, s, unmarshalCase)
		}
	}
	for _, tc := range types {
		switch {
		case tc.gt != nil:
			for k := 0; k < nVals; k++ {
				doValue(tc, genValue(r, tc.gt, !tc.class && k%2 == 0), "generated")
			}
			// inputs written from the layout, independently of Marshal
			for k := 0; k < nVals; k++ {
				h := genString(r, tc.gt)
				if withEdits {
					editCasesOf(rep, r, tc, h, unmarshalCase, false)
				} else {
					unmarshalCase(tc, h, "layout_driven")
				}
			}
		case strings.HasPrefix(tc.tname, "H"):
			for k := 0; k < 2*nVals; k++ {
				p := reflect.New(tc.t)
				fillAny(r, p.Elem(), k%3 == 0)
				doValue(tc, p, "hand")
			}
			for _, h := range handInputs[tc.t] {
				if withEdits {
					editCasesOf(rep, r, tc, h, unmarshalCase, false)
				} else {
					unmarshalCase(tc, h, "hand_input")
				}
			}
		default:
			// shipped layouts: values obtained from real hashes, plus random field contents
			for _, h := range referenceHashes {
				p, err, pan := unmarshalCase(tc, h, "reference")
				if err == nil && pan == nil {
					doValue(tc, p, "shipped")
				}
			}
			for k := 0; k < nVals; k++ {
				p := reflect.New(tc.t)
				fillAny(r, p.Elem(), k%3 == 0)
				doValue(tc, p, "shipped_random")
			}
		}
	}
	must(csM.flush())
	must(csU.flush())
	must(csK.flush())
	rep.CaseSets = []string{prop + "_marshal", prop + "_unmarshal", prop + "_class"}
	if csR != nil {
		must(csR.flush())
		rep.CaseSets = append(rep.CaseSets, prop+"_respell")
	}
	rep.Rule = "struct types generated with reflect.StructOf over the grammar of kinds x tag options (wild: anything; class: built inside the unambiguous class), hand-written shapes (pointers, embedding, shadowing, text marshalers, unexported/ignored fields) and the shipped scheme structs; per value: Marshal outcome (string or projected error) and Unmarshal outcome of the produced string (all leaf values or projected error) are compared with the Coq model; the property oracle (round trip and stability) is applied to in-class layouts with presentable values. Every case counts as non-trivial; distinct by (type, value) / (type, string)."
	return rep
}

func corrC10(outDir string, seed uint64, tier string, replay string) *report {
	return corrCodec("C10", outDir, seed, tier, false)
}

// intAfterInline: a plain integer field directly after an inline field shares its fragment; "abc007" is then accepted
// and written back as "abc7", a digit respelling that no fragment-level comparison can see (C20's inline_next_exact)
func intAfterInline(gt *gType) bool {
	var fs []*gField
	for _, f := range gt.fields {
		if !f.isPrefix() {
			fs = append(fs, f)
		}
	}
	for i := 0; i+1 < len(fs); i++ {
		if fs[i].inline && isIntLike(fs[i+1].typ) {
			return true
		}
	}
	return false
}
