package main

import (
	"fmt"
	"go/ast"
	"go/parser"
	"go/token"
	"path/filepath"
	"strings"
)

// genCheckIR translates the body of every scheme's Check function into the IR of coq/CT/IR.v.
// Anything the translator does not understand becomes EUnknown / SUnknown, which the analysis rejects.

func irExpr(e ast.Expr) string {
	switch x := e.(type) {
	case nil:
		return "ELit"
	case *ast.Ident:
		if x.Name == "nil" || x.Name == "true" || x.Name == "false" {
			return "ELit"
		}
		return "EId " + coqStr(x.Name)
	case *ast.BasicLit:
		return "ELit"
	case *ast.ParenExpr:
		return irExpr(x.X)
	case *ast.SelectorExpr:
		return "ESel (" + irExpr(x.X) + ") " + coqStr(x.Sel.Name)
	case *ast.CallExpr:
		var args []string
		for _, a := range x.Args {
			args = append(args, "("+irExpr(a)+")")
		}
		return "ECall (" + irExpr(x.Fun) + ") " + coqList(stripParens(args))
	case *ast.ArrayType:
		return "EId " + coqStr("[]"+typeName(x.Elt))
	case *ast.SliceExpr:
		var bs []string
		for _, b := range []ast.Expr{x.Low, x.High, x.Max} {
			if b != nil {
				bs = append(bs, irExpr(b))
			}
		}
		return "ESlice (" + irExpr(x.X) + ") " + coqList(bs)
	case *ast.IndexExpr:
		return "EIndex (" + irExpr(x.X) + ") (" + irExpr(x.Index) + ")"
	case *ast.UnaryExpr:
		return "EUnary " + coqStr(x.Op.String()) + " (" + irExpr(x.X) + ")"
	case *ast.StarExpr:
		return "EUnary " + coqStr("*") + " (" + irExpr(x.X) + ")"
	case *ast.BinaryExpr:
		return "EBinary " + coqStr(x.Op.String()) + " (" + irExpr(x.X) + ") (" + irExpr(x.Y) + ")"
	case *ast.CompositeLit:
		var es []string
		for _, el := range x.Elts {
			if kv, ok := el.(*ast.KeyValueExpr); ok {
				es = append(es, irExpr(kv.Value))
			} else {
				es = append(es, irExpr(el))
			}
		}
		return "EComposite " + coqList(es)
	case *ast.KeyValueExpr:
		return irExpr(x.Value)
	}
	return "EUnknown"
}

func stripParens(xs []string) []string {
	out := make([]string, len(xs))
	for i, x := range xs {
		out[i] = strings.TrimSuffix(strings.TrimPrefix(x, "("), ")")
	}
	return out
}

func typeName(e ast.Expr) string {
	if id, ok := e.(*ast.Ident); ok {
		return id.Name
	}
	return "?"
}

func irStmts(list []ast.Stmt) string {
	var out []string
	for _, s := range list {
		out = append(out, irStmt(s)...)
	}
	return coqList(out)
}

func irStmt(s ast.Stmt) []string {
	switch x := s.(type) {
	case *ast.DeclStmt:
		gd, ok := x.Decl.(*ast.GenDecl)
		if !ok || gd.Tok != token.VAR {
			return []string{"SUnknown"}
		}
		var out []string
		for _, sp := range gd.Specs {
			vs := sp.(*ast.ValueSpec)
			for i, n := range vs.Names {
				if i < len(vs.Values) {
					out = append(out, "SDecl "+coqStr(n.Name)+" (Some ("+irExpr(vs.Values[i])+"))")
				} else {
					out = append(out, "SDecl "+coqStr(n.Name)+" None")
				}
			}
		}
		return out
	case *ast.AssignStmt:
		allIdent := true
		var names []string
		for _, l := range x.Lhs {
			id, ok := l.(*ast.Ident)
			if !ok {
				allIdent = false
				break
			}
			names = append(names, coqStr(id.Name))
		}
		if (x.Tok == token.DEFINE || x.Tok == token.ASSIGN) && allIdent && len(x.Rhs) == 1 {
			return []string{"SDefine " + coqList(names) + " (" + irExpr(x.Rhs[0]) + ")"}
		}
		if (x.Tok == token.DEFINE || x.Tok == token.ASSIGN) && allIdent && len(x.Rhs) == len(x.Lhs) {
			var out []string
			for i := range x.Lhs {
				out = append(out, "SDefine ["+names[i]+"] ("+irExpr(x.Rhs[i])+")")
			}
			return out
		}
		if x.Tok == token.ASSIGN && len(x.Lhs) == 1 && len(x.Rhs) == 1 {
			return []string{"SAssign (" + irExpr(x.Lhs[0]) + ") (" + irExpr(x.Rhs[0]) + ")"}
		}
		return []string{"SUnknown"}
	case *ast.ExprStmt:
		return []string{"SExpr (" + irExpr(x.X) + ")"}
	case *ast.IfStmt:
		init := "None"
		if x.Init != nil {
			is := irStmt(x.Init)
			if len(is) != 1 {
				return []string{"SUnknown"}
			}
			init = "(Some (" + is[0] + "))"
		}
		els := "[]"
		switch e := x.Else.(type) {
		case nil:
		case *ast.BlockStmt:
			els = irStmts(e.List)
		case *ast.IfStmt:
			els = coqList(irStmt(e))
		default:
			els = "[SUnknown]"
		}
		return []string{"SIf " + init + " (" + irExpr(x.Cond) + ") " + irStmts(x.Body.List) + " " + els}
	case *ast.ReturnStmt:
		var es []string
		for _, r := range x.Results {
			es = append(es, irExpr(r))
		}
		return []string{"SReturn " + coqList(es)}
	case *ast.ForStmt:
		var parts []string
		if x.Cond != nil {
			parts = append(parts, irExpr(x.Cond))
		}
		body := x.Body.List
		var pre []string
		if x.Init != nil {
			pre = irStmt(x.Init)
		}
		if x.Post != nil {
			body = append(append([]ast.Stmt(nil), body...), x.Post)
		}
		return append(pre, "SFor "+coqList(parts)+" "+irStmts(body))
	case *ast.RangeStmt:
		return []string{"SFor " + coqList([]string{irExpr(x.X)}) + " " + irStmts(x.Body.List)}
	case *ast.BlockStmt:
		var out []string
		for _, y := range x.List {
			out = append(out, irStmt(y)...)
		}
		return out
	case *ast.IncDecStmt:
		return []string{"SAssign (" + irExpr(x.X) + ") (EBinary " + coqStr(x.Tok.String()) + " (" + irExpr(x.X) + ") ELit)"}
	case *ast.EmptyStmt:
		return nil
	}
	return []string{"SUnknown"}
}

func genCheckIR(repo string) string {
	var sb strings.Builder
	sb.WriteString("(* generated from /repo on every run: the body of every scheme's Check function (go/ast) *)\n")
	sb.WriteString("Require Import GC.Base.Bytes GC.CT.IR.\nOpen Scope Z_scope.\n")
	for _, name := range []string{"argon2", "bcrypt", "des", "desext", "md5", "nthash", "sha1", "sha256", "sha512", "sunmd5"} {
		body := "[SUnknown]"
		files, _ := filepath.Glob(filepath.Join(repo, name, "*.go"))
		for _, fn := range files {
			if strings.HasSuffix(fn, "_test.go") {
				continue
			}
			f, err := parser.ParseFile(token.NewFileSet(), fn, nil, 0)
			if err != nil {
				continue
			}
			for _, d := range f.Decls {
				fd, ok := d.(*ast.FuncDecl)
				if ok && fd.Recv == nil && fd.Name.Name == "Check" && fd.Body != nil {
					body = irStmts(fd.Body.List)
				}
			}
		}
		fmt.Fprintf(&sb, "Definition check_ir_%s : list stmt := %s.\n", name, body)
	}
	return sb.String()
}
