package main

import (
	"fmt"
	"os"
	"os/exec"
	"runtime"
	"runtime/debug"
	"strings"
	"sync"
	"time"

	"github.com/sergeymakinen/go-crypt/hash/parse"
)

func init() { corrs["C11"] = corrC11 }

var ttNames = []string{"TError", "TPrefix", "TDollar", "TComma", "TValue", "TEOF"}

func coqVnode(v *parse.ValueNode) string {
	return "(" + coqNat(int(v.Pos())) + ", " + coqStr(v.Value) + ")"
}

// coqTree renders the observed tree as a model [pres]; spans are checked by the direct oracle because
// the model derives End from Pos and the text.
func coqPres(t *parse.Tree, err error) string {
	if err != nil {
		se, ok := err.(*parse.SyntaxError)
		if !ok {
			return "PStuck"
		}
		msg := "[99]"
		switch se.Msg {
		case "missing prefix identifier":
			msg = "[0]"
		case "missing prefix end":
			msg = "[1]"
		}
		return "(PErr " + coqNat(se.Offset) + " " + msg + ")"
	}
	pre := "None"
	if t.Prefix != nil {
		pre = "(Some " + coqStr(t.Prefix.Text) + ")"
	}
	var fs []string
	for _, f := range t.Fragments {
		switch n := f.(type) {
		case *parse.ValueNode:
			fs = append(fs, "FV "+coqVnode(n))
		case *parse.GroupNode:
			var vs []string
			for _, v := range n.Values {
				vs = append(vs, coqVnode(v))
			}
			fs = append(fs, "FG "+coqList(vs))
		}
	}
	return "(POk {| prefix := " + pre + "; frags := " + coqList(fs) + " |})"
}

// parseWatch runs Parse under recover and a watchdog.
func parseWatch(s string) (t *parse.Tree, err error, panicked interface{}, hung bool) {
	done := make(chan struct{})
	go func() {
		defer func() {
			if r := recover(); r != nil {
				panicked = r
			}
			close(done)
		}()
		t, err = parse.Parse(s)
	}()
	select {
	case <-done:
	case <-time.After(10 * time.Second):
		hung = true
	}
	return
}

func corrC11(out string, seed uint64, tier string, replay string) *report {
	rep := newReport("C11", seed, tier)
	r := newRng(seed)
	csLex := newCaseSet(out, "C11_lex", []string{"GC.Parse.ParseModel", "GC.Parse.ParseCases"}, "bytes * list token", "ok_lex", 6000)
	csParse := newCaseSet(out, "C11_parse", []string{"GC.Parse.ParseModel", "GC.Parse.ParseCases"}, "bytes * pres", "ok_parse", 6000)

	check := func(s string, toCoq bool) {
		// implementation: token stream
		toks := parse.VerifLex(s)
		t, err, pan, hung := parseWatch(s)
		if hung {
			rep.fail(s, "Parse returns", "no return within 10s", "parser does not terminate")
			return
		}
		if pan != nil {
			rep.fail(s, "Parse returns", fmt.Sprint("panic: ", pan), "parser panics")
			return
		}
		// direct oracle on the implementation (the property itself)
		if err != nil {
			ok := len(s) > 0 && s[0] == '$' && (!strings.ContainsAny(s[1:], "$,") || (len(s) > 1 && (s[1] == '$' || s[1] == ',')))
			if !ok {
				rep.fail(s, "success", err.Error(), "Parse fails on a string whose identifier is neither empty nor unterminated")
			}
		} else {
			if len(s) > 0 && s[0] == '$' && (!strings.ContainsAny(s[1:], "$,") || s[1] == '$' || s[1] == ',') {
				rep.fail(s, "syntax error", "success", "Parse accepts an empty or unterminated identifier")
			}
			var sb strings.Builder
			if t.Prefix != nil {
				sb.WriteString(t.Prefix.Text)
				if int(t.Prefix.Pos()) != 0 || int(t.Prefix.End()) != len(t.Prefix.Text) || !strings.HasPrefix(s, t.Prefix.Text) {
					rep.fail(s, "prefix span = its text", fmt.Sprint(t.Prefix.Pos(), t.Prefix.End()), "prefix span wrong")
				}
			}
			// the offset at which the next node's text must start: nodes are laid out in order, one delimiter apart
			at := 0
			if t.Prefix != nil {
				at = len(t.Prefix.Text)
			}
			span := func(v *parse.ValueNode) {
				if int(v.Pos()) < 0 || int(v.End()) > len(s) || v.Pos() > v.End() || s[v.Pos():v.End()] != v.Value {
					rep.fail(s, "node span is the substring holding its text", fmt.Sprintf("%q [%d,%d)", v.Value, v.Pos(), v.End()), "span wrong")
				} else if int(v.Pos()) != at || int(v.End()) != at+len(v.Value) {
					rep.fail(s, fmt.Sprintf("node %q spans [%d,%d): the place of its text in the input", v.Value, at, at+len(v.Value)), fmt.Sprintf("[%d,%d)", v.Pos(), v.End()), "span is not where the node's text stands (empty texts included)")
				}
				at += len(v.Value) + 1
			}
			for i, f := range t.Fragments {
				if i > 0 {
					sb.WriteByte('$')
				}
				switch n := f.(type) {
				case *parse.ValueNode:
					sb.WriteString(n.Value)
					span(n)
					if strings.ContainsAny(n.Value, "$,") {
						rep.fail(s, "no delimiter inside a value", n.Value, "value contains a delimiter")
					}
					if int(n.End()) < len(s) && s[n.End()] == ',' {
						rep.fail(s, "comma-joined values surface as one group", fmt.Sprintf("lone value %q followed by a comma", n.Value), "group lost")
					}
				case *parse.GroupNode:
					if len(n.Values) == 0 {
						rep.fail(s, "non-empty group", "empty group", "empty group")
					} else if gp, ge := int(n.Pos()), int(n.End()); gp != at || ge < gp || ge > len(s) {
						rep.fail(s, fmt.Sprintf("group starts at %d", at), fmt.Sprintf("[%d,%d)", gp, ge), "group span is not where its text stands")
					}
					for j, v := range n.Values {
						if j > 0 {
							sb.WriteByte(',')
						}
						sb.WriteString(v.Value)
						span(v)
					}
				}
			}
			rt := sb.String()
			if !(rt == s || rt+"$" == s || rt+"," == s) {
				rep.fail(s, "render(tree) + at most one trailing delimiter = input", rt, "input lost or altered")
			}
		}
		if toCoq {
			var ts []string
			for _, tk := range toks {
				val := coqStr(tk.Value)
				if tk.Type == 0 {
					switch tk.Value {
					case "missing prefix identifier":
						val = "[0]"
					case "missing prefix end":
						val = "[1]"
					default:
						val = "[99]"
					}
				}
				tt := "TError"
				if tk.Type >= 0 && tk.Type < len(ttNames) {
					tt = ttNames[tk.Type]
				}
				ts = append(ts, "{| t_type := "+tt+"; t_pos := "+coqNat(tk.Pos)+"; t_val := "+val+" |}")
			}
			csLex.add("("+coqStr(s)+", "+coqList(ts)+")", map[string]interface{}{"input": s})
			csParse.add("("+coqStr(s)+", "+coqPres(t, err)+")", map[string]interface{}{"input": s})
		}
		rep.count(s, strings.ContainsAny(s, "$,_"))
		if len(s) >= 5 && strings.Contains(s, ",") {
			rep.sample(map[string]interface{}{"input": s, "tokens": len(toks), "error": fmt.Sprint(err)})
		}
	}

	g0 := runtime.NumGoroutine()
	maxLen := 6
	if tier == "thorough" {
		maxLen = 8
	}
	allStrings("$,_=a", maxLen, func(s string) { check(s, true) })
	rep.ExhaustiveSpaces = append(rep.ExhaustiveSpaces, fmt.Sprintf("all strings of length <= %d over {$ , _ = a}: lexer tokens and tree compared with the Coq model; property oracle on the implementation", maxLen))
	// beyond the Coq-evaluated bound, the property oracle alone (implementation side), exhaustive
	deep := 8
	if tier == "thorough" {
		deep = 10
	}
	cnt := 0
	allStrings("$,_=a", deep, func(s string) {
		if len(s) > maxLen {
			check(s, false)
			cnt++
		}
	})
	rep.ExhaustiveSpaces = append(rep.ExhaustiveSpaces, fmt.Sprintf("all strings of length %d..%d over the same alphabet: property oracle on the implementation (%d strings)", maxLen+1, deep, cnt))
	n := 2000
	if tier == "thorough" {
		n = 40000
	}
	for i := 0; i < n; i++ {
		var s string
		switch r.intn(4) {
		case 0:
			s = string(r.bytes(r.intn(64)))
		case 1:
			s = r.str(r.intn(4096), "$,_=ab./0")
		case 2:
			s = "$" + r.str(1+r.intn(5), "ab2") + string("$,"[r.intn(2)]) + r.str(r.intn(200), "$,=abcdefgh0123456789")
		default:
			s = string(r.bytes(r.intn(4096)))
		}
		check(s, len(s) <= 300)
	}
	// hash-shaped inputs: the reference hashes of the ten schemes, every truncation, every single-symbol edit with a
	// delimiter, underscore or letter; and delimiter-free texts of every length 0..80 with and without a leading '_'
	// (the DES-based hashes are exactly such texts)
	for _, h := range referenceHashes {
		check(h, true)
		for i := 0; i <= len(h); i++ {
			check(h[:i], i%4 == 0)
			for _, c := range "$,_=a" {
				check(h[:i]+string(c)+h[i:], false)
				if i < len(h) {
					check(h[:i]+string(c)+h[i+1:], false)
				}
			}
		}
	}
	for n := 0; n <= 80; n++ {
		body := r.str(n, "abcXYZ019./")
		check(body, true)
		check("_"+body, true)
		if n > 0 {
			check(body[:n-1]+"_", false)
			check(body[:n/2]+"_"+body[n/2:], false)
		}
	}
	// the same calls made concurrently: every call still returns the tree (or error) it returns alone
	{
		var pool []string
		allStrings("$,_=a", 4, func(s string) { pool = append(pool, s) })
		pool = append(pool, referenceHashes...)
		for i := 0; i < 60; i++ {
			pool = append(pool, "$"+r.str(1+r.intn(5), "ab2")+string("$,"[r.intn(2)])+r.str(r.intn(120), "$,=abcdefgh0123456789"))
		}
		alone := make([]string, len(pool))
		for i, s := range pool {
			t, err := parse.Parse(s)
			alone[i] = coqPres(t, err)
		}
		workers, each := 8, 3000
		if tier == "thorough" {
			workers, each = 16, 20000
		}
		type bad struct{ s, got, want string }
		var mu sync.Mutex
		var bads []bad
		var wg sync.WaitGroup
		for w := 0; w < workers; w++ {
			wg.Add(1)
			wr := newRng(seed*977 + uint64(w))
			go func() {
				defer wg.Done()
				for k := 0; k < each; k++ {
					i := wr.intn(len(pool))
					got := func() (d string) {
						defer func() {
							if x := recover(); x != nil {
								d = fmt.Sprint("panic: ", x)
							}
						}()
						t, err := parse.Parse(pool[i])
						return coqPres(t, err)
					}()
					if got != alone[i] {
						mu.Lock()
						if len(bads) < 5 {
							bads = append(bads, bad{pool[i], got, alone[i]})
						}
						mu.Unlock()
					}
				}
			}()
		}
		done := make(chan struct{})
		go func() { wg.Wait(); close(done) }()
		select {
		case <-done:
		case <-time.After(120 * time.Second):
			rep.fail("(concurrent batch)", "all concurrent Parse calls return", "some call did not return within 120 s", "parser hangs under concurrent use")
		}
		mu.Lock()
		for _, b := range bads {
			rep.fail(map[string]interface{}{"input": b.s, "concurrency": fmt.Sprintf("%d goroutines parsing strings of a pool of %d", workers, len(pool))},
				b.want, b.got, "a Parse call running concurrently with others returns a different tree than the same call alone")
		}
		mu.Unlock()
		rep.Distribution["concurrent_parses"] = workers * each
	}
	// a cheap but very long input (a million delimiters), parsed in a child process whose goroutine stacks are limited
	// to 32 MB: the work per delimiter is constant, so stack use must not grow with the input
	{
		out, err := exec.Command(os.Args[0], "c11deep").CombinedOutput()
		if err != nil || !strings.Contains(string(out), "c11deep-ok") {
			msg := string(out)
			if i := strings.Index(msg, "fatal error"); i >= 0 {
				msg = msg[i:]
			}
			if len(msg) > 300 {
				msg = msg[:300]
			}
			rep.fail(map[string]interface{}{"input": "\"$a\" + strings.Repeat(\"$b\", 500000) and strings.Repeat(\"x,\", 500000), stack limit 32 MB"}, "Parse returns a tree", fmt.Sprint(err, " ", msg),
				"Parse does not return for a long input (stack use grows with the number of delimiters)")
		}
		rep.count("deep input", true)
	}
	// goroutine leak: the lexer goroutine must have exited after every call
	leak := -1
	for i := 0; i < 2500; i++ { // up to five seconds on a loaded machine
		runtime.Gosched()
		time.Sleep(2 * time.Millisecond)
		if g := runtime.NumGoroutine(); g <= g0 {
			leak = 0
			break
		} else {
			leak = g - g0
		}
	}
	rep.Distribution["goroutines_before"] = g0
	rep.Distribution["goroutines_leaked_after_all_calls"] = leak
	if leak > 0 {
		rep.fail("(whole batch)", "no lexer goroutine alive after Parse returned", fmt.Sprintf("%d goroutines still alive", leak), "goroutine leak")
	}
	must(csLex.flush())
	must(csParse.flush())
	rep.CaseSets = []string{"C11_lex", "C11_parse"}
	rep.Exhaustive = true
	rep.Rule = "each string: VerifLex token stream and Parse result (tree with positions, or error offset/message) are compared with the Coq model; the property oracle (error iff bad identifier, render+tail = input, spans, grouping, no panic/hang, goroutine count) is evaluated on the implementation. Non-trivial = contains a delimiter or underscore; distinct by input."
	return rep
}

// c11Deep is the body of the child process: long inputs under a lowered stack limit.
func c11Deep() {
	debug.SetMaxStack(32 << 20)
	for _, in := range []string{"$a" + strings.Repeat("$b", 500000), strings.Repeat("x,", 500000), "_" + strings.Repeat("$", 300000)} {
		t, err := parse.Parse(in)
		if err != nil || t == nil {
			fmt.Println("parse failed:", err)
			os.Exit(1)
		}
	}
	fmt.Println("c11deep-ok")
}
