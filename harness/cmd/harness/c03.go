package main

import (
	"bufio"
	"crypto/hmac"
	gomd5 "crypto/md5"
	gosha1 "crypto/sha1"
	gosha256 "crypto/sha256"
	gosha512 "crypto/sha512"
	"encoding/hex"
	"fmt"
	"io"
	"os"
	"os/exec"
	"reflect"
	"strconv"
	"strings"

	"github.com/sergeymakinen/go-crypt/bcrypt"
	"github.com/sergeymakinen/go-crypt/des"
	"github.com/sergeymakinen/go-crypt/desext"
	crypthash "github.com/sergeymakinen/go-crypt/hash"
	"github.com/sergeymakinen/go-crypt/md5"
	"github.com/sergeymakinen/go-crypt/nthash"
	"github.com/sergeymakinen/go-crypt/sha1"
	"github.com/sergeymakinen/go-crypt/sha256"
	"github.com/sergeymakinen/go-crypt/sha512"
	"github.com/sergeymakinen/go-crypt/sunmd5"
	"golang.org/x/crypto/blake2b"
	"golang.org/x/crypto/blowfish"
	"golang.org/x/crypto/md4"
)

func init() { corrs["C03"] = corrC03 }

func hx(b []byte) string {
	if len(b) == 0 {
		return "-"
	}
	return hex.EncodeToString(b)
}
func unhx(s string) []byte {
	if s == "-" {
		return nil
	}
	b, _ := hex.DecodeString(s)
	return b
}

// modelProc talks to the extracted Coq model (build/extract/kdfdriver) and serves its primitive calls.
type modelProc struct {
	cmd     *exec.Cmd
	in      io.WriteCloser
	out     *bufio.Reader
	ciphers []*blowfish.Cipher
	calls   int
	extra   func(p []string) (string, bool) // further primitives
}

func startModel() (*modelProc, error) {
	path := os.Getenv("VERIF_KDFDRIVER")
	if path == "" {
		path = buildPath("extract/kdfdriver")
	}
	cmd := exec.Command(path)
	in, _ := cmd.StdinPipe()
	out, _ := cmd.StdoutPipe()
	if err := cmd.Start(); err != nil {
		return nil, err
	}
	return &modelProc{cmd: cmd, in: in, out: bufio.NewReaderSize(out, 1<<20)}, nil
}

func (m *modelProc) run(req string) (string, error) {
	m.ciphers = m.ciphers[:0]
	fmt.Fprintln(m.in, req)
	for {
		line, err := m.out.ReadString('\n')
		if err != nil {
			return "", err
		}
		line = strings.TrimSpace(line)
		if strings.HasPrefix(line, "RESULT ") {
			return strings.TrimPrefix(line, "RESULT "), nil
		}
		p := strings.Split(line, " ")
		if p[0] != "CALL" {
			return "", fmt.Errorf("protocol: %q", line)
		}
		m.calls++
		var reply string
		switch p[1] {
		case "md5":
			s := gomd5.Sum(unhx(p[2]))
			reply = hx(s[:])
		case "md4":
			h := md4.New()
			h.Write(unhx(p[2]))
			reply = hx(h.Sum(nil))
		case "blake2b":
			var n int
			fmt.Sscan(p[2], &n)
			if h, err := blake2b.New(n, nil); err != nil {
				reply = "-"
			} else {
				h.Write(unhx(p[3]))
				reply = hx(h.Sum(nil))
			}
		case "sha256":
			s := gosha256.Sum256(unhx(p[2]))
			reply = hx(s[:])
		case "sha512":
			s := gosha512.Sum512(unhx(p[2]))
			reply = hx(s[:])
		case "hmacsha1":
			h := hmac.New(gosha1.New, unhx(p[2]))
			h.Write(unhx(p[3]))
			reply = hx(h.Sum(nil))
		case "bfnew":
			c, err := blowfish.NewSaltedCipher(unhx(p[2]), unhx(p[3]))
			if err != nil {
				reply = "ERR"
			} else {
				m.ciphers = append(m.ciphers, c)
				reply = strconv.Itoa(len(m.ciphers) - 1)
			}
		case "bfexpand":
			i, _ := strconv.Atoi(p[3])
			c := *m.ciphers[i]
			blowfish.ExpandKey(unhx(p[2]), &c)
			m.ciphers = append(m.ciphers, &c)
			if len(m.ciphers) > 4 { // keep the handle table small: only the newest state is ever used again
				m.ciphers[len(m.ciphers)-3] = nil
			}
			reply = strconv.Itoa(len(m.ciphers) - 1)
		case "bfencrypt":
			i, _ := strconv.Atoi(p[2])
			src := unhx(p[3])
			dst := make([]byte, len(src))
			m.ciphers[i].Encrypt(dst, src)
			reply = hx(dst)
		default:
			reply = "-"
			if m.extra != nil {
				if x, ok := m.extra(p); ok {
					reply = x
				}
			}
		}
		fmt.Fprintln(m.in, reply)
	}
}

func (m *modelProc) close() { m.in.Close(); m.cmd.Wait() }

// xcrypt: libxcrypt through bin/xcrypt.py
type xcrypt struct {
	cmd *exec.Cmd
	in  io.WriteCloser
	out *bufio.Reader
}

func startXcrypt() *xcrypt {
	cmd := exec.Command("python3", "-u", buildPath("../bin/xcrypt.py"))
	in, _ := cmd.StdinPipe()
	out, _ := cmd.StdoutPipe()
	if cmd.Start() != nil {
		return nil
	}
	return &xcrypt{cmd, in, bufio.NewReader(out)}
}
func (x *xcrypt) crypt(setting, pw string) string {
	fmt.Fprintf(x.in, "%s %s\n", hx([]byte(setting)), hx([]byte(pw)))
	l, err := x.out.ReadString('\n')
	if err != nil {
		return "FAIL"
	}
	return strings.TrimSpace(l)
}

func corrC03(outDir string, seed uint64, tier string, replay string) *report {
	rep := newReport("C03", seed, tier)
	r := newRng(seed)
	m, err := startModel()
	if err != nil {
		rep.Notes = append(rep.Notes, "cannot start the extracted model: "+err.Error())
		rep.ModelBroken = "the extracted model driver cannot be started: " + err.Error()
		return rep
	}
	defer m.close()
	xc := startXcrypt()
	nPer := 40
	if tier == "thorough" {
		nPer = 400
	}
	pwOf := func(i int) string {
		var n int
		switch {
		case i < 20:
			n = i // 0..19
		case i%4 == 0:
			n = []int{31, 32, 33, 63, 64, 65, 127, 128, 129, 200, 253}[r.intn(11)]
		default:
			n = r.intn(80)
		}
		b := r.bytes(n)
		for k := range b { // NUL-free, 8-bit
			if b[k] == 0 {
				b[k] = 0x80
			}
		}
		if i%3 == 0 {
			return r.str(n, "abcXYZ019 !")
		}
		return string(b)
	}
	cmp := func(scheme, what string, args map[string]interface{}, impl []byte, req string) {
		got, err := m.run(req)
		if err != nil {
			rep.ModelBroken = "extracted model protocol error: " + err.Error()
			return
		}
		if got != hx(impl) {
			rep.ModelMismatches = append(rep.ModelMismatches, map[string]interface{}{"scheme": scheme, "what": what, "args": args, "implementation": hx(impl), "model": got})
			// the model is the reference written from the algorithm's specification (and agrees with libxcrypt wherever
			// libxcrypt speaks): a key that differs from it on a concrete input is a failing input, in particular for the
			// legacy behaviour no libcrypt decides (bcrypt $2$ / long passwords, Sun MD5 salt-string forms, UTF-16)
			rep.fail(map[string]interface{}{"scheme": scheme, "args": args, "request_to_the_extracted_model": req}, "key "+got+" (Coq "+what+" model of the published algorithm, real primitives)",
				"key "+hx(impl), "the derived key differs from the reference written from the algorithm specification")
		}
		rep.bump(scheme + "_" + what)
	}
	ref := func(scheme string, args map[string]interface{}, pw, ours string) {
		if xc == nil || strings.ContainsRune(pw, 0) {
			return
		}
		theirs := xc.crypt(ours, pw)
		rep.bump(scheme + "_libxcrypt")
		if theirs == "FAIL" {
			// libxcrypt rejects the setting (e.g. sha1 with an empty salt, Sun MD5 "rounds=0"): outside the shared domain
			rep.bump(scheme + "_libxcrypt_rejects_setting")
			return
		}
		if theirs != ours {
			rep.fail(map[string]interface{}{"scheme": scheme, "args": args, "password_hex": hx([]byte(pw))}, theirs, ours, "hash differs from libxcrypt's for the same password, salt and cost")
		}
	}
	for i := 0; i < nPer; i++ {
		pw := pwOf(i)
		func() {
			// a panic of the library inside this iteration is a failing input of its own
			defer func() {
				if r := recover(); r != nil {
					notePanic("Key/NewHash of a classic scheme (C03 iteration)", "password_hex="+hx([]byte(pw))+"; "+firstLibFrame(), r)
				}
			}()
			// ---- md5 ----
			{
				salt := r.str(i%9, alphaCrypt)
				key, err := md5.Key([]byte(pw), []byte(salt))
				if err == nil {
					a := map[string]interface{}{"password_len": len(pw), "salt": salt}
					cmp("md5", "impl", a, key, "md5crypt "+hx([]byte(pw))+" "+hx([]byte(salt)))
					if i%2 == 0 {
						cmp("md5", "spec", a, key, "md5crypt_spec "+hx([]byte(pw))+" "+hx([]byte(salt)))
					}
					ref("md5", a, pw, "$1$"+salt+"$"+crypthash.LittleEndianEncoding.EncodeToString(key))
					rep.count("md5"+pw+salt, len(pw) > 0)
				}
			}
			// ---- sha256 / sha512 ----
			for _, w := range []int{256, 512} {
				salt := r.str(i%17, alphaCrypt)
				rounds := uint32(1000 + i%4)
				var key []byte
				var err error
				name := "sha256"
				if w == 256 {
					key, err = sha256.Key([]byte(pw), []byte(salt), rounds)
				} else {
					name = "sha512"
					key, err = sha512.Key([]byte(pw), []byte(salt), rounds)
				}
				if err != nil || (w == 512 && i%2 == 1 && tier != "thorough") {
					continue
				}
				a := map[string]interface{}{"password_len": len(pw), "salt": salt, "rounds": rounds}
				cmp(name, "impl", a, key, fmt.Sprintf("%scrypt %s %s %d", name, hx([]byte(pw)), hx([]byte(salt)), rounds))
				if i%2 == 0 {
					cmp(name, "spec", a, key, fmt.Sprintf("%scrypt_spec %s %s %d", name, hx([]byte(pw)), hx([]byte(salt)), rounds))
				}
				ref(name, a, pw, fmt.Sprintf("$%d$rounds=%d$%s$%s", map[int]int{256: 5, 512: 6}[w], rounds, salt, crypthash.LittleEndianEncoding.EncodeToString(key)))
				rep.count(name+pw+salt, len(pw) > 0)
			}
			// ---- sha1 ----
			{
				salt := r.str(i%20, alphaCrypt)
				if i%7 == 0 {
					salt = r.str(64, alphaCrypt)
				}
				rounds := uint32(1 + i%40)
				key, err := sha1.Key([]byte(pw), []byte(salt), rounds)
				if err == nil {
					a := map[string]interface{}{"password_len": len(pw), "salt": salt, "rounds": rounds}
					cmp("sha1", "impl", a, key, fmt.Sprintf("sha1crypt %s %s %d", hx([]byte(pw)), hx([]byte(salt)), rounds))
					ref("sha1", a, pw, fmt.Sprintf("$sha1$%d$%s$%s", rounds, salt, crypthash.LittleEndianEncoding.EncodeToString(key)))
					rep.count("sha1"+pw+salt, len(pw) > 0)
				}
			}
			// ---- sunmd5 ----
			if (i%8 == 0 || tier == "thorough") && len(pw) <= 255 {
				salt := r.str(i%9, alphaCrypt)
				rounds := uint32(i % 3)
				for _, o := range []*sunmd5.CompatibilityOptions{nil, {Prefix: "$md5$", DisableSaltSeparator: true}, {Prefix: "$md5,", DisableSaltSeparator: false}} {
					key, err := sunmd5.Key([]byte(pw), []byte(salt), rounds, o)
					if err != nil {
						continue
					}
					// the salt string the implementation hashes: the codec's marshalling of saltScheme (the codec is C10's
					// subject; here it only supplies the input of the modelled derivation)
					prefix, nosep := "$md5,", false
					if o == nil {
						if rounds == 0 {
							prefix = "$md5$"
						}
					} else {
						prefix, nosep = o.Prefix, o.DisableSaltSeparator
					}
					sv := reflect.New(sunmd5.VerifSaltSchemeType()).Elem()
					sv.FieldByName("HashPrefix").SetString(prefix)
					sv.FieldByName("Rounds").SetUint(uint64(rounds))
					sv.FieldByName("Salt").SetBytes([]byte(salt))
					if !nosep {
						empty := ""
						sv.FieldByName("Separator").Set(reflect.ValueOf(&empty))
					}
					ss, _ := crypthash.Marshal(sv.Interface())
					a := map[string]interface{}{"password_len": len(pw), "salt": salt, "rounds": rounds, "saltstring": ss}
					cmp("sunmd5", "impl", a, key, fmt.Sprintf("sunmd5 %s %s %d", hx([]byte(pw)), hx([]byte(ss)), rounds))
					if o != nil && !nosep && salt != "" {
						ref("sunmd5", a, pw, ss+"$"+crypthash.LittleEndianEncoding.EncodeToString(key))
					}
					rep.count("sunmd5"+pw+ss, true)
				}
			}
			// ---- des / desext ----
			{
				p8 := pw
				if len(p8) > 8 {
					p8 = p8[:8]
				}
				salt := r.str(2, alphaCrypt)
				if key, err := des.Key([]byte(p8), []byte(salt)); err == nil {
					a := map[string]interface{}{"password_hex": hx([]byte(p8)), "salt": salt}
					cmp("des", "impl", a, key, "des "+hx([]byte(p8))+" "+hx([]byte(salt)))
					ref("des", a, p8, salt+crypthash.BigEndianEncoding.EncodeToString(key))
					rep.count("des"+p8+salt, true)
				}
				salt4 := r.str(4, alphaCrypt)
				rounds := uint32(1 + i%30)
				if key, err := desext.Key([]byte(pw), []byte(salt4), rounds); err == nil {
					a := map[string]interface{}{"password_len": len(pw), "salt": salt4, "rounds": rounds}
					cmp("desext", "impl", a, key, fmt.Sprintf("desext %s %s %d", hx([]byte(pw)), hx([]byte(salt4)), rounds))
					rb := make([]byte, 4)
					for k := 0; k < 4; k++ {
						rb[k] = alphaCrypt[(rounds>>uint(6*k))&63]
					}
					ref("desext", a, pw, "_"+string(rb)+salt4+crypthash.BigEndianEncoding.EncodeToString(key))
					rep.count("desext"+pw+salt4, len(pw) > 8)
				}
			}
			// ---- bcrypt ----
			if i%2 == 0 {
				raw := r.bytes(16)
				salt := bcrypt.Encoding.EncodeToString(raw)
				for _, prefix := range []string{"$2b$", "$2a$", "$2$"} {
					if prefix == "$2$" && len(pw) == 0 {
						continue
					}
					key, err := bcrypt.Key([]byte(pw), []byte(salt), 4, &bcrypt.CompatibilityOptions{Prefix: prefix})
					if err != nil {
						continue
					}
					kb := bcryptKeyBytes(pw, prefix)
					a := map[string]interface{}{"password_len": len(pw), "salt": salt, "prefix": prefix}
					cmp("bcrypt", "impl", a, key, fmt.Sprintf("bcrypt %s %s 4", hx(kb), hx([]byte(salt))))
					if i%4 == 0 {
						cmp("bcrypt", "spec", a, key, fmt.Sprintf("bcrypt_spec %s %s 4", hx(kb), hx([]byte(salt))))
					}
					if prefix != "$2$" && len(pw) <= 72 {
						ref("bcrypt", a, pw, prefix+"04$"+salt+bcrypt.Encoding.EncodeToString(key))
					}
					rep.count("bcrypt"+pw+salt+prefix, true)
				}
			}
			// ---- bcrypt at the length rules: 72-byte truncation, NUL terminator, the >= 254-byte rule of the pre-2b variants
			if i < 9 {
				n := []int{71, 72, 73, 74, 252, 253, 254, 255, 256}[i]
				lp := r.str(n, "abcXYZ019\xe9")
				raw := r.bytes(16)
				salt := bcrypt.Encoding.EncodeToString(raw)
				for _, prefix := range []string{"$2b$", "$2a$", "$2$"} {
					key, err := bcrypt.Key([]byte(lp), []byte(salt), 4, &bcrypt.CompatibilityOptions{Prefix: prefix})
					if err != nil {
						continue
					}
					kb := bcryptKeyBytes(lp, prefix)
					a := map[string]interface{}{"password_len": len(lp), "password_hex": hx([]byte(lp)), "salt": salt, "prefix": prefix}
					cmp("bcrypt", "spec", a, key, fmt.Sprintf("bcrypt_spec %s %s 4", hx(kb), hx([]byte(salt))))
					rep.count("bcryptlen"+lp+salt+prefix, true)
				}
			}
			// ---- nthash: the UTF-16 encoding is the modelled part ----
			{
				s := pw
				switch i % 5 {
				case 0:
					s = "héllo € \U0001F600" + pw
				case 1: // the edges of the planes and of the surrogate range, and invalid UTF-8
					s = pw + "\uFFFF\uFFFE\uD7FF\uE000\U00010000\U0010FFFF\u0080\u07FF\u0800"
				case 2:
					s = "\xff\xfe" + pw + "\xc3\x28\xed\xa0\x80"
				}
				enc := ntEncode(s)
				cmp("nthash", "encode", map[string]interface{}{"password_hex": hx([]byte(s))}, enc, "ntencode "+hx([]byte(s)))
				if h, err := nthash.NewHash(s); err == nil {
					// the library's own encoder: the digest NewHash wrote must be MD4 of the model's UTF-16LE text (the
					// documented reference outside libxcrypt's domain); checked for every string, ASCII or not
					if mt, merr := m.run("ntencode " + hx([]byte(s))); merr == nil {
						d := md4.New()
						d.Write(unhx(mt))
						if want := "$3$$" + hex.EncodeToString(d.Sum(nil)); want != h {
							rep.fail(map[string]interface{}{"scheme": "nthash", "password_hex": hx([]byte(s))}, want+" (MD4 of the UTF-16LE text of the Coq encoder model)", h,
								"the NT hash differs from MD4 over the UTF-16LE encoding of the password")
						}
						rep.bump("nthash_newhash_vs_model")
					}
					ascii := true
					for k := 0; k < len(s); k++ {
						if s[k] >= 0x80 {
							ascii = false
						}
					}
					if ascii {
						ref("nthash", map[string]interface{}{"password_hex": hx([]byte(s))}, s, h)
					}
				}
				rep.count("nthash"+s, len(s) > 0)
			}
			if i == 5 {
				rep.sample(map[string]interface{}{"password_hex": hx([]byte(pw)), "model_primitive_calls_so_far": m.calls})
			}
		}()
	}
	// ---- every password length of the shared domain (libxcrypt accepts up to 511 bytes) against libxcrypt ----
	// one fixed salt and the cheapest cost per scheme; the step is 1: buffering, batching and block-boundary
	// mistakes live at single lengths
	if xc != nil {
		maxLen, step := 511, 1
		lr := newRng(seed ^ 0x1e9)
		for n := 0; n <= maxLen; n += step {
			b := lr.bytes(n)
			for k := range b {
				if b[k] == 0 {
					b[k] = 0x81
				}
			}
			pw := string(b)
			a := map[string]interface{}{"password_len": n, "password_hex": hx(b)}
			func() {
				defer func() {
					if r := recover(); r != nil {
						notePanic("Key of a classic scheme (C03 length sweep)", "password_hex="+hx(b)+"; "+firstLibFrame(), r)
					}
				}()
				if k, err := md5.Key(b, []byte("saltsalt")); err == nil {
					ref("md5", a, pw, "$1$saltsalt$"+crypthash.LittleEndianEncoding.EncodeToString(k))
				}
				if k, err := sha256.Key(b, []byte("saltsaltsaltsalt"), 1000); err == nil {
					ref("sha256", a, pw, "$5$rounds=1000$saltsaltsaltsalt$"+crypthash.LittleEndianEncoding.EncodeToString(k))
				}
				if k, err := sha512.Key(b, []byte("saltsaltsaltsalt"), 1000); err == nil && (n%2 == 0 || n > 100 || tier == "thorough") {
					ref("sha512", a, pw, "$6$rounds=1000$saltsaltsaltsalt$"+crypthash.LittleEndianEncoding.EncodeToString(k))
				}
				if k, err := sha1.Key(b, []byte("saltsalt"), 3); err == nil {
					ref("sha1", a, pw, "$sha1$3$saltsalt$"+crypthash.LittleEndianEncoding.EncodeToString(k))
				}
				if k, err := desext.Key(b, []byte("salt"), 1); err == nil {
					ref("desext", a, pw, "_/...salt"+crypthash.BigEndianEncoding.EncodeToString(k))
				}
				if n <= 72 {
					salt := "abcdefghijklmnopqrstuu"
					for _, prefix := range []string{"$2b$", "$2a$"} {
						if k, err := bcrypt.Key(b, []byte(salt), 4, &bcrypt.CompatibilityOptions{Prefix: prefix}); err == nil {
							ref("bcrypt", a, pw, prefix+"04$"+salt+bcrypt.Encoding.EncodeToString(k))
						}
					}
				}
			}()
			rep.count(fmt.Sprint("lensweep", n), n > 0)
			rep.bump("length_sweep_lengths")
		}
	}
	// ---- passwords that differ in ONE bit, derived right after each other (a memo keyed by a lossy form of the password
	// would serve the first one's result), each against libxcrypt ----
	if xc != nil {
		lr := newRng(seed ^ 0xb17)
		for _, n := range []int{1, 5, 8, 9, 16, 17} {
			base := []byte(lr.str(n, "abcXYZ019"))
			for _, pos := range []int{0, n / 2, n - 1} {
				for bit := 0; bit < 8; bit++ {
					q := append([]byte(nil), base...)
					q[pos] ^= 1 << uint(bit)
					if q[pos] == 0 {
						continue
					}
					for _, pwb := range [][]byte{base, q} {
						pw := string(pwb)
						a := map[string]interface{}{"password_hex": hx(pwb), "derived_right_after": hx(base)}
						if len(pwb) <= 8 {
							if k, err := des.Key(pwb, []byte("ab")); err == nil {
								ref("des", a, pw, "ab"+crypthash.BigEndianEncoding.EncodeToString(k))
							}
						}
						if k, err := desext.Key(pwb, []byte("salt"), 1); err == nil {
							ref("desext", a, pw, "_/...salt"+crypthash.BigEndianEncoding.EncodeToString(k))
						}
						if k, err := md5.Key(pwb, []byte("saltsalt")); err == nil {
							ref("md5", a, pw, "$1$saltsalt$"+crypthash.LittleEndianEncoding.EncodeToString(k))
						}
						if k, err := bcrypt.Key(pwb, []byte("abcdefghijklmnopqrstuu"), 4, nil); err == nil && pos == 0 {
							ref("bcrypt", a, pw, "$2b$04$abcdefghijklmnopqrstuu"+bcrypt.Encoding.EncodeToString(k))
						}
					}
					rep.bump("one_bit_neighbours")
				}
			}
		}
	}
	// ---- costs across the digit-count boundaries (the decimal cost text is part of what SHA-1-crypt and Sun MD5 hash) ----
	if xc != nil {
		for _, rounds := range []uint32{1, 9, 10, 11, 99, 100, 999, 1000, 1001, 5903, 5904, 5905, 5906, 9999, 10000, 10001, 65535, 65536, 99999, 100000} {
			func() {
				defer func() {
					if r := recover(); r != nil {
						notePanic("Key of a classic scheme (C03 cost sweep)", fmt.Sprint("rounds=", rounds, "; ", firstLibFrame()), r)
					}
				}()
				pw := "cost sweep"
				a := map[string]interface{}{"password": pw, "rounds": rounds}
				if k, err := sha1.Key([]byte(pw), []byte("saltsalt"), rounds); err == nil {
					ref("sha1", a, pw, fmt.Sprintf("$sha1$%d$saltsalt$%s", rounds, crypthash.LittleEndianEncoding.EncodeToString(k)))
				}
				if k, err := sunmd5.Key([]byte(pw), []byte("saltsalt"), rounds, &sunmd5.CompatibilityOptions{Prefix: "$md5,"}); err == nil {
					ref("sunmd5", a, pw, fmt.Sprintf("$md5,rounds=%d$saltsalt$$%s", rounds, crypthash.LittleEndianEncoding.EncodeToString(k)))
				}
				if k, err := sha256.Key([]byte(pw), []byte("saltsalt"), 1000+rounds); err == nil {
					ref("sha256", a, pw, fmt.Sprintf("$5$rounds=%d$saltsalt$%s", 1000+rounds, crypthash.LittleEndianEncoding.EncodeToString(k)))
				}
				if rounds < 1<<24 {
					if k, err := desext.Key([]byte(pw), []byte("salt"), rounds); err == nil {
						rb := make([]byte, 4)
						for q := 0; q < 4; q++ {
							rb[q] = alphaCrypt[(rounds>>uint(6*q))&63]
						}
						ref("desext", a, pw, "_"+string(rb)+"salt"+crypthash.BigEndianEncoding.EncodeToString(k))
					}
				}
				rep.count(fmt.Sprint("costsweep", rounds), true)
				rep.bump("cost_sweep")
			}()
		}
	}
	rep.Distribution["model_primitive_calls"] = m.calls
	rep.Rule = "per scheme: passwords of length 0..19, 31..253 and random (8-bit, NUL-free), salts of every legal length, cheap rounds; the implementation's Key vs the extracted Coq model of the in-repo KDF control code (impl) and vs the specification function (spec), both run with the real primitives served by the harness; the encoded hash vs libxcrypt 4.4 crypt(3) (secondary oracle, both directions coincide when strings are equal). Non-trivial = non-empty password; distinct by (scheme, password, salt)."
	return rep
}
