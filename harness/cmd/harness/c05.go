package main

import (
	"bytes"
	"fmt"
	"io"
	"reflect"
	"strings"
	"time"

	crypt "github.com/sergeymakinen/go-crypt"
	crypthash "github.com/sergeymakinen/go-crypt/hash"
	"github.com/sergeymakinen/go-crypt/hash/base64le"
	"github.com/sergeymakinen/go-crypt/hash/parse"
)

func init() { corrs["C05"] = corrC05 }

// guarded runs f under recover and a watchdog; it reports a panic value or a hang.
func guarded(f func()) (pan interface{}, hung bool) {
	done := make(chan struct{})
	go func() {
		defer func() {
			if r := recover(); r != nil {
				pan = r
			}
			close(done)
		}()
		f()
	}()
	select {
	case <-done:
		return pan, false
	case <-time.After(20 * time.Second):
		return nil, true
	}
}

// withinBudget: the declared cost of a (possibly mutated) hash string stays within the property's budget
// (Argon2 m<=1024,t<=4; bcrypt cost<=5; rounds<=20000), decided on the text by the independent recogniser
func withinBudget(name, h string) bool {
	rc := recognise(name, h)
	if !rc.ok {
		// not well-formed for the recogniser: rejected before any derivation unless the codec is more liberal;
		// be conservative about digits that look like a huge cost
		for _, key := range []string{"rounds=", "m=", "t="} {
			if i := strings.Index(h, key); i >= 0 {
				j := i + len(key)
				k := j
				for k < len(h) && h[k] >= '0' && h[k] <= '9' {
					k++
				}
				if k-j > 5 {
					return false
				}
			}
		}
		if name == "sha1" {
			f := strings.Split(h, "$")
			if len(f) > 2 && len(f[2]) > 5 {
				return false
			}
		}
		if name == "bcrypt" {
			f := strings.Split(h, "$")
			if len(f) > 2 && f[2] > "05" {
				return false
			}
		}
		if name == "desext" && len(h) >= 5 {
			// four rounds characters: keep the two high ones at "." (value < 4096)
			if h[3] != '.' || h[4] != '.' {
				return false
			}
		}
		return true
	}
	switch name {
	case "sha256", "sha512", "sha1":
		return rc.p.nums[0] <= 20000
	case "sunmd5":
		return rc.p.nums[0] <= 20000
	case "desext":
		return rc.p.nums[0] <= 4096
	case "bcrypt":
		return rc.p.nums[0] <= 5
	case "argon2":
		return rc.p.nums[0] <= 1024 && rc.p.nums[1] <= 4
	}
	return true
}

// key lengths assumed by the Coq no-panic theorems (Schemes/NoPanic.v)
var c05KeyLen = map[string]int{"md5": 16, "sha256": 32, "sha512": 64, "sha1": 21, "sunmd5": 16, "des": 8, "desext": 8, "bcrypt": 23, "nthash": 16}

func mutate(r *rng, h string) string {
	b := []byte(h)
	n := 1 + r.intn(3)
	for k := 0; k < n; k++ {
		if len(b) == 0 {
			b = append(b, '$')
			continue
		}
		pos := r.intn(len(b))
		switch r.intn(9) {
		case 0:
			b[pos] = "$,=_@\x00\xff\n"[r.intn(8)]
		case 1:
			b = append(b[:pos], b[pos+1:]...)
		case 2:
			b = append(b[:pos], append([]byte{"$,=_0a"[r.intn(6)]}, b[pos:]...)...)
		case 3:
			b = b[:pos]
		case 4:
			b = append(b, b[pos:]...)
		case 5: // swap two '$' fragments
			fr := strings.Split(string(b), "$")
			if len(fr) > 2 {
				i, j := r.intn(len(fr)), r.intn(len(fr))
				fr[i], fr[j] = fr[j], fr[i]
				b = []byte(strings.Join(fr, "$"))
			}
		case 6:
			b[pos] ^= 1 << uint(r.intn(8))
		case 7:
			b = append(b[:pos], append([]byte(strings.Repeat(string(b[pos]), 1+r.intn(40))), b[pos:]...)...)
		default:
			b = append([]byte("$"+r.str(r.intn(4), "a1$,")), b...)
		}
	}
	return string(b)
}

func corrC05(outDir string, seed uint64, tier string, replay string) *report {
	rep := newReport("C05", seed, tier)
	r := newRng(seed)
	cs := newCaseSet(outDir, "C05_check", []string{"GC.Schemes.Keys", "GC.Schemes.Checks", "GC.Schemes.SchemeCases", "GC.Codec.Types"},
		"Z * bytes * bytes * list kdf_entry * bytes * verdict", "ok_check", 1200)
	sink := &checkCaseSink{cs: cs, rep: rep}
	nMut := 800
	if tier == "thorough" {
		nMut = 6000
	}
	bad := func(what string, input interface{}, pan interface{}, hung bool) {
		if hung {
			rep.fail(input, "the call returns", "no return within 20 s", what+" does not return")
		} else if pan != nil {
			rep.fail(input, "an error value", fmt.Sprint("panic: ", pan), what+" panics")
		}
	}
	withDetRand(seed, func() {
		for _, s := range schemes {
			var bases []string
			for k := 0; k < 3; k++ {
				if h, err := s.newHash("pw", k); err == nil {
					bases = append(bases, h)
				}
			}
			if len(bases) == 0 {
				rep.fail(s.name+".NewHash(\"pw\", cheap cost)", "a hash string", "an error or a panic for each of three cost settings", "NewHash fails on an in-domain call")
				bases = append(bases, referenceHashes...)
			}
			for i := 0; i < nMut; i++ {
				var h string
				switch {
				case i%10 == 9:
					h = r.str(r.intn(40), "$,=_a1./")
				case i%10 == 8:
					h = string(r.bytes(r.intn(64)))
				default:
					h = mutate(r, bases[r.intn(len(bases))])
				}
				if !withinBudget(s.name, h) {
					rep.bump("skipped_over_budget")
					continue
				}
				pw := r.str(r.intn(12), "pwx\x80 ")
				if i%25 == 0 {
					pw = string(r.bytes(r.intn(4097)))
				}
				var err error
				pan, hung := guarded(func() { err = s.check(h, pw) })
				bad(s.name+".Check", map[string]interface{}{"hash": h, "password_len": len(pw)}, pan, hung)
				pan, hung = guarded(func() { s.params(h) })
				bad(s.name+".Params/Salt", map[string]interface{}{"hash": h}, pan, hung)
				pan, hung = guarded(func() { crypt.Check(h, pw) })
				bad("crypt.Check", map[string]interface{}{"hash": h}, pan, hung)
				if i%6 == 0 && len(pw) < 100 && !hung {
					sink.add(s, h, pw, true, "mutated")
				} else {
					rep.count(s.name+"|"+h+"|"+pw, true)
				}
				rep.bump(s.name + "_" + classNames[classOf(err, pan)])
				if i == 7 {
					rep.sample(map[string]interface{}{"scheme": s.name, "mutated_hash": h, "result": fmt.Sprint(err)})
				}
			}
			// Argon2: every lane count an attacker can write in a hash string, with the smallest memory (the cost
			// budget of the property bounds m and t, not p)
			if s.name == "argon2" {
				for p := 1; p <= 255; p++ {
					if tier != "thorough" && p > 8 && p%7 != 0 && p%64 > 1 && p != 255 {
						continue
					}
					h := fmt.Sprintf("$argon2id$v=19$m=8,t=1,p=%d$c2FsdHNhbHRzYWx0$c29tZWRpZ2VzdHNvbWVkaWdlc3Q", p)
					pan, hung := guarded(func() { s.check(h, "pw") })
					bad("argon2.Check", map[string]interface{}{"hash": h}, pan, hung)
					pan, hung = guarded(func() { crypt.Check(h, "pw") })
					bad("crypt.Check", map[string]interface{}{"hash": h}, pan, hung)
					rep.count("argon2 lanes "+h, true)
				}
			}
			// Key at EVERY password length 0..300 (all 8-bit bytes), under every option variant of the scheme: buffers
			// sized for "the usual" password are exactly what a length sweep finds
			{
				type ov struct {
					has    bool
					prefix string
					num    int64
				}
				variants := []ov{{}}
				nums := []int64(nil)
				salt := []byte("saltsalt")
				switch s.name {
				case "sha256", "sha512":
					nums, salt = []int64{1000}, []byte("saltsaltsaltsalt")
				case "sha1":
					nums = []int64{7}
				case "desext":
					nums, salt = []int64{3}, []byte("salt")
				case "des":
					salt = []byte("sa")
				case "sunmd5":
					nums = []int64{0}
					variants = []ov{{}, {true, "$md5$", 1}, {true, "$md5,", 0}, {true, "$md5$", 0}}
				case "bcrypt":
					nums, salt = []int64{4}, []byte("abcdefghijklmnopqrstuu")
					variants = []ov{{}, {true, "$2$", 0}, {true, "$2a$", 0}, {true, "$2b$", 0}}
				case "argon2":
					nums, salt = []int64{8, 1, 1}, []byte("c29tZXNhbHRzYWx0")
					variants = []ov{{}, {true, "$argon2d$", 0x10}, {true, "$argon2i$", 0x13}, {true, "$argon2id$", 0x10}}
				}
				maxLen := 300
				if tier == "thorough" {
					maxLen = 1100
				}
				for _, v := range variants {
					for n := 0; n <= maxLen; n++ {
						a := keyArgs{tag: s.tag, pw: r.bytes(n), salt: salt, nums: nums, hasOpts: v.has, prefix: v.prefix, optNum: v.num}
						if s.name == "nthash" && n%2 == 1 {
							continue
						}
						pan, hung := guarded(func() { keyOf(a) })
						bad(s.name+".Key", fmt.Sprintf("password_len=%d password_hex=%x salt=%q nums=%v opts=%v/%q/%d", n, a.pw, a.salt, a.nums, a.hasOpts, a.prefix, a.optNum), pan, hung)
						rep.count(fmt.Sprint(s.name, "keylen", v, n), true)
						rep.bump("key_length_sweep")
					}
				}
			}
			// Key and NewHash with arbitrary lengths
			for i := 0; i < nMut/5; i++ {
				a := keyArgs{tag: s.tag, pw: r.bytes(r.intn(4097)), salt: []byte(r.str(r.intn(70), alphaCrypt+"@$"))}
				switch s.name {
				case "sha256", "sha512":
					a.nums = []int64{int64(r.intn(3000))}
				case "sha1", "desext":
					a.nums = []int64{int64(r.intn(60))}
				case "sunmd5":
					a.nums = []int64{int64(r.intn(3))}
				case "bcrypt":
					a.nums = []int64{int64(r.intn(7))}
					a.hasOpts, a.prefix = r.intn(2) == 0, []string{"$2$", "$2a$", "$2b$", "x"}[r.intn(4)]
				case "argon2":
					a.nums = []int64{int64(r.intn(64)), int64(r.intn(3)), int64([]int{0, 1, 2, 3, 4, 63, 64, 65, 128, 192, 255}[r.intn(11)])}
					a.salt = []byte(r.str(r.intn(30), b64Std+"@"))
					a.hasOpts, a.prefix, a.optNum = r.intn(2) == 0, []string{"$argon2d$", "$argon2i$", "$argon2id$", ""}[r.intn(4)], []int64{0x10, 0x13, 7}[r.intn(3)]
				}
				if s.name == "nthash" {
					a.pw = r.bytes(2 * r.intn(150))
				}
				var key []byte
				var kerr error
				pan, hung := guarded(func() { key, kerr = keyOf(a) })
				bad(s.name+".Key", fmt.Sprintf("password_len=%d salt=%q nums=%v opts=%v/%q", len(a.pw), a.salt, a.nums, a.hasOpts, a.prefix), pan, hung)
				// hypothesis of the C05_check_* theorems: the derivation's output length is the scheme's constant
				if want, ok := c05KeyLen[s.name]; ok && pan == nil && !hung && kerr == nil && len(key) != want {
					rep.fail(fmt.Sprintf("%s.Key password_len=%d salt=%q nums=%v", s.name, len(a.pw), a.salt, a.nums),
						fmt.Sprint("a key of ", want, " bytes"), fmt.Sprint(len(key), " bytes"), "Key output length differs from the scheme's constant (hypothesis of the no-panic theorems)")
				}
				pwS := string(a.pw)
				if s.name == "des" && len(pwS) > 8 {
					pwS = pwS[:8]
				}
				pan, hung = guarded(func() { s.newHash(pwS, i) })
				bad(s.name+".NewHash", fmt.Sprintf("password_len=%d", len(pwS)), pan, hung)
				rep.count(fmt.Sprint(s.name, "key", i), true)
			}
		}
	})
	// parser, codec on the shipped shapes, base64 one-shot and streaming
	for i := 0; i < 4*nMut; i++ {
		var str string
		switch i % 3 {
		case 0:
			str = r.str(r.intn(30), "$,=_a")
		case 1:
			str = string(r.bytes(r.intn(200)))
		default:
			str = mutate(r, referenceHashes[r.intn(len(referenceHashes))])
		}
		pan, hung := guarded(func() { parse.Parse(str) })
		bad("parse.Parse", str, pan, hung)
		t := shippedTypes()[r.intn(len(shippedTypes()))]
		pan, hung = guarded(func() { crypthash.Unmarshal(str, reflect.New(t).Interface()) })
		bad("hash.Unmarshal into "+t.String(), str, pan, hung)
		// the codec on generated layouts (no embedded pointers: that shape is the known finding D10): strings written
		// from the layout, edited, and random ones; values of every kind
		if i%3 == 0 {
			var gt *gType
			if i%2 == 0 {
				gt = genClass(r)
			} else {
				gt = genWild(r)
			}
			in := genString(r, gt)
			if i%4 == 1 {
				in = mutate(r, in)
			} else if i%4 == 3 {
				in = str
			}
			pan, hung = guarded(func() { crypthash.Unmarshal(in, reflect.New(gt.t).Interface()) })
			bad("hash.Unmarshal into "+gt.t.String(), in, pan, hung)
			v := genValue(r, gt, i%5 == 0)
			if i%2 == 0 { // value form first, pointer form afterwards (and the other way round)
				pan, hung = guarded(func() { crypthash.Marshal(v.Elem().Interface()) })
				bad("hash.Marshal of "+gt.t.String()+" (by value)", fmt.Sprintf("%+v", v.Elem().Interface()), pan, hung)
			}
			pan, hung = guarded(func() { crypthash.Marshal(v.Interface()) })
			bad("hash.Marshal of "+gt.t.String(), fmt.Sprintf("%+v", v.Elem().Interface()), pan, hung)
			if i%2 == 1 {
				pan, hung = guarded(func() { crypthash.Marshal(v.Elem().Interface()) })
				bad("hash.Marshal of "+gt.t.String()+" (by value, after the pointer form)", fmt.Sprintf("%+v", v.Elem().Interface()), pan, hung)
			}
			pan, hung = guarded(func() { crypthash.Unmarshal(in, reflect.New(gt.t).Interface()) })
			bad("hash.Unmarshal into "+gt.t.String()+" (second use of the type)", in, pan, hung)
			rep.bump("generated_layout_calls")
		}
		if i%4 == 0 {
			p := reflect.New(t)
			fillAny(r, p.Elem(), true)
			pan, hung = guarded(func() { crypthash.Marshal(p.Interface()) })
			bad("hash.Marshal of "+t.String(), fmt.Sprintf("%+v", p.Elem().Interface()), pan, hung)
		}
		e := base64le.NewEncoding(alphaCrypt)
		if i%2 == 0 {
			e = e.WithPadding(base64le.NoPadding)
		}
		if i%5 == 0 {
			e = e.Strict()
		}
		pan, hung = guarded(func() { e.DecodeString(str) })
		bad("base64le.DecodeString", str, pan, hung)
		pan, hung = guarded(func() { io.ReadAll(base64le.NewDecoder(e, strings.NewReader(str))) })
		bad("base64le.NewDecoder", str, pan, hung)
		pan, hung = guarded(func() {
			var sb bytes.Buffer
			w := base64le.NewEncoder(e, &sb)
			w.Write([]byte(str))
			w.Close()
		})
		bad("base64le.NewEncoder", str, pan, hung)
		// streaming with a fragmenting / failing reader and writer and caller buffers of every size class
		// (the decoder's internal buffer is 1024 bytes: caller buffers beyond 3/4 of it take another path)
		{
			long := str
			if i%3 == 0 {
				long = e.EncodeToString(r.bytes(r.intn(5000)))
			}
			var evs []revent
			for rest := []byte(long); len(rest) > 0; {
				k := 1 + r.intn(1+r.intn(1500))
				if k > len(rest) {
					k = len(rest)
				}
				evs = append(evs, revent{data: rest[:k]})
				rest = rest[k:]
			}
			if r.intn(4) == 0 {
				evs = append(evs, revent{data: []byte("\n"), err: &tokErr{1}})
			}
			bufSizes := []int{1, 2, 3, 4, 5, 7, 64, 767, 768, 769, 1000, 1023, 1024, 1025, 4096}
			desc := fmt.Sprintf("text_len=%d fragments=%v", len(long), len(evs))
			pan, hung = guarded(func() {
				d := base64le.NewDecoder(e, &scriptReader{script: evs})
				for k := 0; k < 20000; k++ {
					buf := make([]byte, bufSizes[r.intn(len(bufSizes))])
					if _, err := d.Read(buf); err != nil {
						return
					}
				}
			})
			bad("base64le.NewDecoder with a fragmenting reader", desc, pan, hung)
			pan, hung = guarded(func() {
				w := &scriptWriter{}
				for k := 0; k < 3; k++ {
					w.script = append(w.script, wresp{fail: r.intn(3) == 0, k: r.intn(5), err: &tokErr{2}})
				}
				enc := base64le.NewEncoder(e, w)
				for rest := []byte(long); len(rest) > 0; {
					k := 1 + r.intn(1+r.intn(1500))
					if k > len(rest) {
						k = len(rest)
					}
					enc.Write(rest[:k])
					rest = rest[k:]
				}
				enc.Close()
			})
			bad("base64le.NewEncoder with a failing writer", desc, pan, hung)
		}
		rep.count("misc"+str, true)
	}
	must(cs.flush())
	rep.CaseSets = []string{"C05_check"}
	rep.Rule = "every exported entry point (Check, Params/Salt, Key, NewHash of the ten schemes, crypt.Check, parse.Parse, hash.Marshal/Unmarshal on the shipped struct shapes, base64le one-shot and streaming) on structured mutations of valid hashes, delimiter-rich and random byte strings, passwords of length 0..4096, arbitrary salts/options, with the declared cost inside the property's budget; each call runs under recover and a 20 s watchdog; a subset of the Check calls is also compared with the Coq scheme models (whose verdict includes Panic). Every case non-trivial."
	return rep
}
