package main

import (
	"go/parser"
	"go/token"
	"os"
	"path/filepath"
	"sort"
	"strconv"
	"strings"
)

// genRandSites lists, for every non-test Go file of the repository, its imports of packages that can be a
// source of (pseudo-)randomness or of time-derived seeds.
func genRandSites(repo string) string {
	var items []string
	filepath.Walk(repo, func(path string, info os.FileInfo, err error) error {
		if err != nil {
			return nil
		}
		if info.IsDir() {
			if info.Name() == ".git" {
				return filepath.SkipDir
			}
			return nil
		}
		if !strings.HasSuffix(path, ".go") || strings.HasSuffix(path, "_test.go") || strings.Contains(path, "internal/testutil") {
			return nil
		}
		f, perr := parser.ParseFile(token.NewFileSet(), path, nil, parser.ImportsOnly)
		if perr != nil {
			items = append(items, "("+coqStr(strings.TrimPrefix(path, repo+"/"))+", "+coqStr("PARSE-ERROR")+")")
			return nil
		}
		for _, im := range f.Imports {
			p, _ := strconv.Unquote(im.Path.Value)
			if p == "crypto/rand" || strings.HasPrefix(p, "math/rand") || p == "time" || strings.Contains(p, "/rand") || strings.Contains(p, "fastrand") {
				items = append(items, "("+coqStr(strings.TrimPrefix(path, repo+"/"))+", "+coqStr(p)+")")
			}
		}
		return nil
	})
	sort.Strings(items)
	var sb strings.Builder
	sb.WriteString("(* generated from /repo on every run: imports of random / time packages in non-test files *)\n")
	sb.WriteString("Require Import GC.Base.Bytes.\nOpen Scope Z_scope.\n")
	sb.WriteString("Definition rand_imports : list (bytes * bytes) := [\n  " + strings.Join(items, ";\n  ") + "\n].\n")
	return sb.String()
}
