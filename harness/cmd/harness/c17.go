package main

import (
	"bytes"
	"errors"
	"fmt"
	"io"

	"github.com/sergeymakinen/go-crypt/hash/base64le"
)

func init() { corrs["C17"] = corrC17 }

type tokErr struct{ n int }

func (t *tokErr) Error() string { return fmt.Sprintf("tok%d", t.n) }

func ioErrCoq(err error) string {
	switch e := err.(type) {
	case nil:
		return "None"
	case *tokErr:
		return fmt.Sprintf("(Some (ErrTok %s))", coqNat(e.n))
	case base64le.CorruptInputError:
		return fmt.Sprintf("(Some (Corrupt %d))", int64(e))
	}
	if err == io.EOF {
		return "(Some EOF)"
	}
	if err == io.ErrUnexpectedEOF {
		return "(Some UnexpectedEOF)"
	}
	return "(Some (ErrTok 998))"
}

// scripted writer
type wresp struct {
	fail bool
	k    int
	err  error
}
type scriptWriter struct {
	script []wresp
	buf    bytes.Buffer
	calls  int
}

func (w *scriptWriter) Write(p []byte) (int, error) {
	w.calls++
	if len(w.script) == 0 {
		w.buf.Write(p)
		return len(p), nil
	}
	r := w.script[0]
	w.script = w.script[1:]
	if !r.fail {
		w.buf.Write(p)
		return len(p), nil
	}
	k := r.k
	if k > len(p) {
		k = len(p)
	}
	w.buf.Write(p[:k])
	return k, r.err
}

// scripted reader
type revent struct {
	data []byte
	err  error
}
type scriptReader struct{ script []revent }

func (r *scriptReader) Read(p []byte) (int, error) {
	if len(r.script) == 0 {
		return 0, io.EOF
	}
	ev := &r.script[0]
	if len(ev.data) <= len(p) {
		n := copy(p, ev.data)
		err := ev.err
		r.script = r.script[1:]
		return n, err
	}
	n := copy(p, ev.data)
	ev.data = ev.data[n:]
	return n, nil
}

func compositions(n int, f func([]int)) {
	var rec func(left int, cur []int)
	rec = func(left int, cur []int) {
		if left == 0 {
			f(cur)
			return
		}
		for k := 1; k <= left; k++ {
			rec(left-k, append(cur, k))
		}
	}
	rec(n, nil)
}

func corrC17(outDir string, seed uint64, tier string, replay string) *report {
	rep := newReport("C17", seed, tier)
	r := newRng(seed)
	var alphaTerms []string
	for _, a := range b64Alphas {
		alphaTerms = append(alphaTerms, coqStr(a))
	}
	alphasCoq := coqList(alphaTerms)
	imports := []string{"GC.B64.B64Model", "GC.B64.B64Cases", "GC.B64.StreamModel", "GC.B64.StreamCases"}
	csE := newCaseSet(outDir, "C17_enc", imports, "(nat * option Z * bool) * list wresp * list bytes * (bytes * list (option ioerr))", "ok_stream_enc "+alphasCoq, 1500)
	csD := newCaseSet(outDir, "C17_dec", imports, "(nat * option Z * bool) * list revent * list Z * (bytes * option ioerr)", "ok_stream_dec "+alphasCoq, 1200)
	cfgs := []b64cfg{{0, -1, false, 0}, {0, '=', false, 0}, {1, -1, true, 1}, {2, '=', true, 0}}

	runEnc := func(c b64cfg, script []wresp, chunks [][]byte, toCoq bool, kind string) {
		w := &scriptWriter{script: append([]wresp(nil), script...)}
		enc := base64le.NewEncoder(c.enc(), w)
		var errs []error
		var firstErr error
		var pan interface{}
		func() {
			defer func() {
				if p := recover(); p != nil {
					pan = p
				}
			}()
			for _, ch := range chunks {
				// the chunk is handed over in a scratch buffer (with spare capacity) that the caller overwrites as soon as
				// Write has returned, as io.Copy does: the encoder must have taken what it needs
				scratch := make([]byte, len(ch), len(ch)+3)
				copy(scratch, ch)
				_, err := enc.Write(scratch)
				for i := range scratch[:cap(scratch)] {
					scratch[:cap(scratch)][i] = 0xEE
				}
				errs = append(errs, err)
			}
			err := enc.Close()
			errs = append(errs, err)
		}()
		for _, e := range errs {
			if e != nil && firstErr == nil {
				firstErr = e
			}
		}
		var all []byte
		for _, ch := range chunks {
			all = append(all, ch...)
		}
		if pan != nil {
			rep.fail(map[string]interface{}{"cfg": c.String(), "chunks": len(chunks)}, "no panic", fmt.Sprint(pan), "streaming encoder panics")
			return
		}
		oneShot := c.enc().EncodeToString(all)
		hasFault := false
		for _, s := range script {
			hasFault = hasFault || s.fail
		}
		written := w.buf.String()
		if !hasFault {
			if written != oneShot || firstErr != nil {
				rep.fail(map[string]interface{}{"cfg": c.String(), "data": fmt.Sprintf("%x", all), "chunks": lens(chunks)}, oneShot, written, "streamed encoding differs from the one-shot encoding")
			}
		} else {
			if len(written) > len(oneShot) || oneShot[:len(written)] != written {
				rep.fail(map[string]interface{}{"cfg": c.String(), "data": fmt.Sprintf("%x", all), "chunks": lens(chunks)}, "a prefix of "+oneShot, written, "after a writer fault the written bytes are not a prefix of the one-shot encoding")
			}
			// the failing call and every later one return the failure
			seen := false
			for i, e := range errs {
				if e != nil {
					seen = true
				} else if seen {
					rep.fail(map[string]interface{}{"cfg": c.String(), "chunks": lens(chunks), "call": i}, "the writer's failure", "nil", "a call after the failing one does not return the failure")
				}
				if seen && e != firstErr {
					rep.fail(map[string]interface{}{"cfg": c.String(), "chunks": lens(chunks), "call": i}, fmt.Sprint(firstErr), fmt.Sprint(e), "a later call returns a different error")
				}
			}
		}
		if toCoq {
			var sc, chs, es []string
			for _, s := range script {
				if s.fail {
					sc = append(sc, fmt.Sprintf("WFail %s (ErrTok %s)", coqNat(s.k), coqNat(s.err.(*tokErr).n)))
				} else {
					sc = append(sc, "WOk")
				}
			}
			for _, ch := range chunks {
				chs = append(chs, coqBytes(ch))
			}
			for _, e := range errs {
				es = append(es, ioErrCoq(e))
			}
			csE.add(fmt.Sprintf("(%s, %s, %s, (%s, %s))", c.coq(), coqList(sc), coqList(chs), coqStr(written), coqList(es)),
				map[string]interface{}{"cfg": c.String(), "chunks": lens(chunks), "kind": kind})
		}
		rep.count(fmt.Sprint("e", c, lens(chunks), script), len(chunks) > 1 || hasFault)
		rep.bump("enc_" + kind)
	}

	runDec := func(c b64cfg, script []revent, sizes []int, data []byte, validText bool, toCoq bool, kind string) {
		sr := &scriptReader{script: cloneEvents(script)}
		dec := base64le.NewDecoder(c.enc(), sr)
		var out []byte
		var ferr error
		var pan interface{}
		func() {
			defer func() {
				if p := recover(); p != nil {
					pan = p
				}
			}()
			for _, m := range sizes {
				buf := make([]byte, m)
				n, err := dec.Read(buf)
				out = append(out, buf[:n]...)
				if err != nil {
					ferr = err
					break
				}
			}
		}()
		if pan != nil {
			rep.fail(map[string]interface{}{"cfg": c.String(), "sizes": sizes}, "no panic", fmt.Sprint(pan), "streaming decoder panics")
			return
		}
		if validText && ferr != nil {
			// the reader's own error: the error of the last event, or EOF
			var want error = io.EOF
			for _, ev := range script {
				if ev.err != nil {
					want = ev.err
					break
				}
			}
			if !bytes.Equal(out, data) || ferr != want {
				rep.fail(map[string]interface{}{"cfg": c.String(), "data": fmt.Sprintf("%x", data), "events": evDesc(script), "sizes": sizes},
					fmt.Sprintf("%x then %v", data, want), fmt.Sprintf("%x then %v", out, ferr), "streamed decoding differs from the one-shot decoding followed by the reader's error")
			}
		}
		if toCoq {
			var evs, szs []string
			for _, ev := range script {
				evs = append(evs, "("+coqBytes(ev.data)+", "+ioErrCoq(ev.err)+")")
			}
			for _, m := range sizes {
				szs = append(szs, coqZ(int64(m)))
			}
			csD.add(fmt.Sprintf("(%s, %s, %s, (%s, %s))", c.coq(), coqList(evs), coqList(szs), coqBytes(out), ioErrCoq(ferr)),
				map[string]interface{}{"cfg": c.String(), "events": evDesc(script), "sizes": sizes, "kind": kind})
		}
		rep.count(fmt.Sprint("d", c, evDesc(script), sizes), len(script) > 1)
		rep.bump("dec_" + kind)
		if len(script) > 2 && len(rep.Samples) < 8 {
			rep.sample(map[string]interface{}{"cfg": c.String(), "events": evDesc(script), "sizes": sizes[:minInt(len(sizes), 6)], "final_error": fmt.Sprint(ferr)})
		}
	}

	// ---- encoder: all compositions of n <= maxN (exhaustive), no faults and a fault at every call index ----
	maxN := 7
	if tier == "thorough" {
		maxN = 9
	}
	for n := 0; n <= maxN; n++ {
		data := r.bytes(n)
		compositions(n, func(parts []int) {
			var chunks [][]byte
			off := 0
			for _, k := range parts {
				chunks = append(chunks, data[off:off+k])
				off += k
			}
			for ci, c := range cfgs {
				runEnc(c, nil, chunks, ci < 2, "composition")
			}
			// fault at every underlying call index
			for k := 0; k < 4; k++ {
				script := make([]wresp, k+1)
				script[k] = wresp{true, k % 3, &tokErr{k}}
				runEnc(cfgs[(n+k)%4], script, chunks, (n+k)%2 == 0, "composition_fault")
			}
		})
	}
	rep.ExhaustiveSpaces = append(rep.ExhaustiveSpaces, fmt.Sprintf("encoder: every composition of every length 0..%d into Write calls, without fault and with a fault at each of the first 4 writer calls", maxN))
	// ---- encoder: long data, random chunkings, fault positions ----
	nLong := 60
	if tier == "thorough" {
		nLong = 2000
	}
	for i := 0; i < nLong; i++ {
		data := r.bytes(r.intn(5001))
		var chunks [][]byte
		for off := 0; off < len(data); {
			k := 1 + r.intn(1+[]int{3, 10, 800, 2000}[r.intn(4)])
			if off+k > len(data) {
				k = len(data) - off
			}
			chunks = append(chunks, data[off:off+k])
			off += k
		}
		c := cfgs[r.intn(4)]
		runEnc(c, nil, chunks, len(data) < 1200, "random")
		k := r.intn(8)
		script := make([]wresp, k+1)
		script[k] = wresp{true, r.intn(5), &tokErr{k}}
		runEnc(c, script, chunks, len(data) < 1200, "random_fault")
	}

	// ---- decoder ----
	mkEvents := func(text []byte, mode int) []revent {
		var evs []revent
		for off := 0; off < len(text); {
			k := 1 + r.intn(1+[]int{1, 3, 7, 60, 1500}[r.intn(5)])
			if off+k > len(text) {
				k = len(text) - off
			}
			piece := append([]byte(nil), text[off:off+k]...)
			if r.intn(4) == 0 {
				pos := r.intn(len(piece) + 1)
				piece = append(piece[:pos:pos], append([]byte("\n"), piece[pos:]...)...)
			}
			evs = append(evs, revent{piece, nil})
			if r.intn(6) == 0 {
				evs = append(evs, revent{[]byte{}, nil}) // zero-length read
			}
			if r.intn(8) == 0 {
				evs = append(evs, revent{[]byte("\r\n"), nil}) // all-newline read
			}
			off += k
		}
		switch mode {
		case 1: // data + EOF together on the last event
			if len(evs) > 0 {
				evs[len(evs)-1].err = io.EOF
			}
		case 2: // explicit error after the data
			evs = append(evs, revent{nil, &tokErr{7}})
		case 3: // error together with the last data
			if len(evs) > 0 {
				evs[len(evs)-1].err = &tokErr{8}
			}
		case 4: // all-newline read carrying the error (D9)
			evs = append(evs, revent{[]byte("\n"), &tokErr{9}})
		}
		return evs
	}
	nDec := 400
	if tier == "thorough" {
		nDec = 12000
	}
	for i := 0; i < nDec; i++ {
		c := cfgs[r.intn(4)]
		var n int
		switch r.intn(3) {
		case 0:
			n = r.intn(10)
		case 1:
			n = r.intn(200)
		default:
			n = r.intn(5001)
		}
		data := r.bytes(n)
		text := []byte(c.enc().EncodeToString(data))
		mode := r.intn(5)
		evs := mkEvents(text, mode)
		var sizes []int
		fixed := []int{1, 2, 3, 4, 5, 7, 64, 1000, 4096}[r.intn(9)]
		for k := 0; k < 3*len(text)+20; k++ {
			switch {
			case r.intn(12) == 0:
				sizes = append(sizes, 0) // a zero-length Read is legal and must neither lose data nor report the end early
			case r.intn(3) == 0:
				sizes = append(sizes, 1+r.intn(4096))
			default:
				sizes = append(sizes, fixed)
			}
		}
		runDec(c, evs, sizes, data, true, n <= 400, fmt.Sprintf("valid_mode%d", mode))
		// corrupt / truncated text: compared with the model only
		if r.intn(3) == 0 && len(text) > 0 {
			bad := append([]byte(nil), text...)
			if r.intn(2) == 0 {
				bad[r.intn(len(bad))] = '@'
			} else {
				bad = bad[:r.intn(len(bad))]
			}
			runDec(c, mkEvents(bad, r.intn(3)), sizes, nil, false, n <= 400, "corrupt")
		}
	}
	// line-wrapped text (PEM-like: a line break after every w symbols, w = 1..76) delivered byte by byte, line by line
	// with each terminator as a read of its own, or in large reads: hundreds of reads that hold only CR/LF
	wraps := []int{1, 4, 64, 76}
	if tier == "thorough" {
		wraps = []int{1, 2, 3, 4, 5, 16, 64, 76}
	}
	for wi, w := range wraps {
		c := cfgs[wi%4]
		n := 120 + 90*wi
		if w >= 64 {
			n = 9000
		}
		data := r.bytes(n)
		text := c.enc().EncodeToString(data)
		for _, nl := range []string{"\n", "\r\n"} {
			var lines []string
			for off := 0; off < len(text); off += w {
				e := off + w
				if e > len(text) {
					e = len(text)
				}
				lines = append(lines, text[off:e])
			}
			for mode := 0; mode < 3; mode++ {
				var evs []revent
				for _, ln := range lines {
					switch mode {
					case 0: // one byte per read
						for k := 0; k < len(ln); k++ {
							evs = append(evs, revent{[]byte{ln[k]}, nil})
						}
						for k := 0; k < len(nl); k++ {
							evs = append(evs, revent{[]byte{nl[k]}, nil})
						}
					case 1: // the line, then its terminator as a read of its own
						evs = append(evs, revent{[]byte(ln), nil}, revent{[]byte(nl), nil})
					default: // whole lines with their terminators
						evs = append(evs, revent{[]byte(ln + nl), nil})
					}
				}
				if mode == 1 {
					evs = append(evs, revent{nil, &tokErr{11}})
				}
				var sizes []int
				for k := 0; k < 2*len(evs)+n+20; k++ {
					sizes = append(sizes, []int{1, 3, 64, 1000}[(k+mode+wi)%4])
				}
				runDec(c, evs, sizes, data, true, false, "line_wrapped")
			}
		}
	}
	// several streams alive at once (encoders and decoders of one goroutine, operations interleaved), some closed twice,
	// new streams opened after others were closed: every stream still carries exactly its own data
	{
		nRounds := 40
		if tier == "thorough" {
			nRounds = 600
		}
		for round := 0; round < nRounds; round++ {
			c := cfgs[round%4]
			type est struct {
				data   []byte
				w      *bytes.Buffer
				enc    io.WriteCloser
				off    int
				closed int
			}
			// warm-up: streams that are finished (some closed twice) before the interleaved ones start
			for k := 0; k < 1+round%3; k++ {
				var b bytes.Buffer
				e := base64le.NewEncoder(c.enc(), &b)
				e.Write(r.bytes(r.intn(10)))
				e.Close()
				if (round+k)%2 == 0 {
					e.Close()
				}
			}
			var streams []*est
			for k := 0; k < 2+round%3; k++ {
				st := &est{data: r.bytes(r.intn(40)), w: &bytes.Buffer{}}
				st.enc = base64le.NewEncoder(c.enc(), st.w)
				streams = append(streams, st)
			}
			for live := len(streams); live > 0; {
				st := streams[r.intn(len(streams))]
				if st.closed > 0 {
					if st.closed == 1 && r.intn(3) == 0 {
						st.enc.Close() // a second Close is a no-op for the stream and for every other stream
						st.closed++
					}
					continue
				}
				if st.off >= len(st.data) {
					st.enc.Close()
					st.closed = 1
					live--
					continue
				}
				k := 1 + r.intn(5)
				if st.off+k > len(st.data) {
					k = len(st.data) - st.off
				}
				tmp := append([]byte(nil), st.data[st.off:st.off+k]...)
				st.enc.Write(tmp)
				for i := range tmp {
					tmp[i] = 0xEE
				}
				st.off += k
			}
			for i, st := range streams {
				if want := c.enc().EncodeToString(st.data); st.w.String() != want {
					rep.fail(map[string]interface{}{"cfg": c.String(), "streams_alive_together": len(streams), "stream": i, "data": fmt.Sprintf("%x", st.data)}, want, st.w.String(),
						"an encoder's output differs from the one-shot encoding when other encoders are alive or were closed (twice) before")
				}
				rep.count(fmt.Sprint("interleaved", round, i), true)
			}
			// decoders: interleaved reads of several streams
			type dst struct {
				data []byte
				dec  io.Reader
				out  []byte
				done bool
			}
			var ds []*dst
			for k := 0; k < 2+round%2; k++ {
				d := r.bytes(r.intn(60))
				ds = append(ds, &dst{data: d, dec: base64le.NewDecoder(c.enc(), bytes.NewReader([]byte(c.enc().EncodeToString(d))))})
			}
			for live := len(ds); live > 0; {
				d := ds[r.intn(len(ds))]
				if d.done {
					continue
				}
				buf := make([]byte, 1+r.intn(9))
				n, err := d.dec.Read(buf)
				d.out = append(d.out, buf[:n]...)
				if err != nil {
					d.done = true
					live--
				}
			}
			for i, d := range ds {
				if !bytes.Equal(d.out, d.data) {
					rep.fail(map[string]interface{}{"cfg": c.String(), "decoders_alive_together": len(ds), "stream": i}, fmt.Sprintf("%x", d.data), fmt.Sprintf("%x", d.out),
						"a decoder's output differs from the one-shot decoding when other decoders are alive")
				}
			}
			rep.bump("interleaved_rounds")
		}
	}
	// exhaustive: every way a reader fragments a short text (compositions), several buffer sizes
	maxT := 7
	if tier == "thorough" {
		maxT = 9
	}
	for n := 0; n <= maxT; n++ {
		c := cfgs[n%2]
		data := r.bytes(n)
		text := []byte(c.enc().EncodeToString(data))
		compositions(len(text), func(parts []int) {
			var evs []revent
			off := 0
			for _, k := range parts {
				evs = append(evs, revent{append([]byte(nil), text[off:off+k]...), nil})
				off += k
			}
			for _, m := range []int{1, 3, 4096} {
				sizes := make([]int, 3*len(text)+8)
				for i := range sizes {
					sizes[i] = m
				}
				runDec(c, evs, sizes, data, true, m != 3 || n%2 == 0, "composition")
			}
		})
	}
	rep.ExhaustiveSpaces = append(rep.ExhaustiveSpaces, fmt.Sprintf("decoder: every fragmentation of the encoded text of data of length 0..%d into reader events x buffer sizes {1,3,4096}", maxT))
	must(csE.flush())
	must(csD.flush())
	rep.CaseSets = []string{"C17_enc", "C17_dec"}
	rep.Exhaustive = true
	rep.Rule = "encoder: NewEncoder over a scripted writer (accept / take k bytes then fail); bytes that reached the writer and every call's error vs the Coq model; oracle: equals / is a prefix of the one-shot encoding, failure sticky. decoder: NewDecoder over a scripted reader (events of data and/or error, zero-length and all-newline reads) with a sequence of caller buffer sizes; delivered bytes and final error vs the model; oracle for valid text: one-shot decoding followed by the reader's own error. Non-trivial = more than one chunk/event or a fault; distinct by (encoding, script, chunking)."
	return rep
}

func lens(chunks [][]byte) []int {
	var l []int
	for _, c := range chunks {
		l = append(l, len(c))
	}
	return l
}
func cloneEvents(evs []revent) []revent {
	out := make([]revent, len(evs))
	for i, e := range evs {
		out[i] = revent{append([]byte(nil), e.data...), e.err}
	}
	return out
}
func evDesc(evs []revent) string {
	s := ""
	for i, e := range evs {
		if i > 8 {
			s += "..."
			break
		}
		s += fmt.Sprintf("(%d,%v)", len(e.data), e.err)
	}
	return s
}

var _ = errors.New
