package main

import (
	"fmt"
	"go/ast"
	"go/parser"
	"go/token"
	"os"
	"path/filepath"
	"strings"
)

func init() { corrs["C19"] = corrC19 }

// repoRoot is /repo; the mutant lab (bin/lab.sh) points VERIF_REPO at a scratch worktree.
func repoRoot() string {
	if r := os.Getenv("VERIF_REPO"); r != "" {
		return r
	}
	return "/repo"
}

// corrC19: C19 has no run-time correspondence (timing is not measured). The generator re-translates the ten
// Check bodies on every run; this step reports what was translated and runs a source-level search for the
// concrete offending construct, used as the failing "input" when the theorem ct_ok check_ir_x = true breaks.
func corrC19(outDir string, seed uint64, tier string, replay string) *report {
	rep := newReport("C19", seed, tier)
	for _, name := range []string{"argon2", "bcrypt", "des", "desext", "md5", "nthash", "sha1", "sha256", "sha512", "sunmd5"} {
		files, _ := filepath.Glob(filepath.Join(repoRoot(), name, "*.go"))
		found := false
		for _, fn := range files {
			if strings.HasSuffix(fn, "_test.go") {
				continue
			}
			fset := token.NewFileSet()
			f, err := parser.ParseFile(fset, fn, nil, 0)
			if err != nil {
				continue
			}
			for _, d := range f.Decls {
				fd, ok := d.(*ast.FuncDecl)
				if !ok || fd.Recv != nil || fd.Name.Name != "Check" || fd.Body == nil {
					continue
				}
				found = true
				nodes, ctc := 0, 0
				secret := map[string]bool{"key": true, "b": true}
				mentionsSecret := func(e ast.Node) bool {
					hit := false
					ast.Inspect(e, func(n ast.Node) bool {
						switch x := n.(type) {
						case *ast.Ident:
							if secret[x.Name] {
								hit = true
							}
						case *ast.SelectorExpr:
							if x.Sel.Name == "Sum" {
								hit = true
							}
						}
						return true
					})
					return hit
				}
				ast.Inspect(fd.Body, func(n ast.Node) bool {
					if n == nil {
						return true
					}
					nodes++
					switch x := n.(type) {
					case *ast.CallExpr:
						if sel, ok := x.Fun.(*ast.SelectorExpr); ok {
							full := ""
							if id, ok := sel.X.(*ast.Ident); ok {
								full = id.Name + "." + sel.Sel.Name
							}
							if full == "subtle.ConstantTimeCompare" {
								ctc++
								return true
							}
							if full == "bytes.Equal" || full == "bytes.Compare" || full == "reflect.DeepEqual" || strings.HasPrefix(full, "strings.") || full == "bytes.HasPrefix" {
								for _, a := range x.Args {
									if mentionsSecret(a) {
										rep.fail(map[string]interface{}{"scheme": name, "position": fset.Position(x.Pos()).String()}, "subtle.ConstantTimeCompare on the complete digests", full, "an early-exit comparison is applied to digest bytes")
									}
								}
							}
						}
					case *ast.BinaryExpr:
						if (x.Op == token.EQL || x.Op == token.NEQ) && (mentionsSecret(x.X) || mentionsSecret(x.Y)) {
							// allowed only on the result of ConstantTimeCompare / len()
							okForm := false
							for _, side := range []ast.Expr{x.X, x.Y} {
								if c, ok := side.(*ast.CallExpr); ok {
									if s, ok := c.Fun.(*ast.SelectorExpr); ok && s.Sel.Name == "ConstantTimeCompare" {
										okForm = true
									}
									if id, ok := c.Fun.(*ast.Ident); ok && id.Name == "len" {
										okForm = true
									}
								}
							}
							if !okForm {
								rep.fail(map[string]interface{}{"scheme": name, "position": fset.Position(x.Pos()).String()}, "no ==/!= on digest data", "comparison operator on digest-derived data", "an early-exit comparison is applied to digest bytes")
							}
						}
					}
					return true
				})
				if ctc == 0 {
					rep.fail(map[string]interface{}{"scheme": name}, "a call of subtle.ConstantTimeCompare", "none", "the verdict is not taken by a constant-time comparison")
				}
				rep.count(name, true)
				rep.sample(map[string]interface{}{"scheme": name, "ast_nodes_in_Check": nodes, "ConstantTimeCompare_calls": ctc})
				rep.Distribution["nodes_"+name] = nodes
			}
		}
		if !found {
			rep.fail(name, "a Check function", "not found", "Check function not found")
		}
	}
	rep.Rule = fmt.Sprint("programs = the ten Check bodies, re-translated to the IR on every run; the deciding step is the Coq theorem ct_ok check_ir_x = true (+ soundness of ct_ok); this step lists the programs and searches the source for the concrete offending construct. distinct = schemes.")
	rep.Exhaustive = true
	rep.ExhaustiveSpaces = []string{"all ten Check functions"}
	return rep
}
