package main

import (
	"bytes"
	crand "crypto/rand"
	"encoding/base64"
	"fmt"
	"os"
	"regexp"
	"strconv"
	"strings"
	"time"

	crypt "github.com/sergeymakinen/go-crypt"
	"github.com/sergeymakinen/go-crypt/argon2"
	"github.com/sergeymakinen/go-crypt/bcrypt"
	crypthash "github.com/sergeymakinen/go-crypt/hash"
	"github.com/sergeymakinen/go-crypt/sha256"
	"github.com/sergeymakinen/go-crypt/sha512"
)

func init() {
	corrs["C01"] = func(o string, s uint64, t string, r string) *report { return corrSchemes("C01", o, s, t) }
	corrs["C12"] = func(o string, s uint64, t string, r string) *report { return corrSchemes("C12", o, s, t) }
	corrs["C02"] = func(o string, s uint64, t string, r string) *report { return corrSchemes("C02", o, s, t) }
}

// cheap cost arguments per scheme: (arguments of NewHash, as the model's numeric list)
func cheapCosts(name string, k int) []int64 {
	switch name {
	case "sha256", "sha512":
		return []int64{int64(costSha2[k%len(costSha2)])}
	case "sha1":
		return []int64{int64(costSha1[k%len(costSha1)])}
	case "sunmd5":
		return []int64{int64(costSunmd5[k%len(costSunmd5)])}
	case "desext":
		return []int64{int64(costDesext[k%len(costDesext)])}
	case "bcrypt":
		return []int64{int64(costBcrypt[k%len(costBcrypt)])}
	case "argon2":
		return []int64{int64(costArgonM[k%len(costArgonM)]), int64(costArgonT[k%len(costArgonT)])}
	}
	return nil
}

var canonicalRe = map[string]*regexp.Regexp{
	"md5":    regexp.MustCompile(`^\$1\$[./0-9A-Za-z]{8}\$[./0-9A-Za-z]{22}$`),
	"sha256": regexp.MustCompile(`^\$5\$rounds=[1-9][0-9]*\$[./0-9A-Za-z]{16}\$[./0-9A-Za-z]{43}$`),
	"sha512": regexp.MustCompile(`^\$6\$rounds=[1-9][0-9]*\$[./0-9A-Za-z]{16}\$[./0-9A-Za-z]{86}$`),
	"sha1":   regexp.MustCompile(`^\$sha1\$[1-9][0-9]*\$[./0-9A-Za-z]{8}\$[./0-9A-Za-z]{28}$`),
	"sunmd5": regexp.MustCompile(`^(\$md5\$rounds=0\$[./0-9A-Za-z]{8}\$|\$md5,rounds=[1-9][0-9]*\$[./0-9A-Za-z]{8}\$\$)[./0-9A-Za-z]{22}$`),
	"des":    regexp.MustCompile(`^[./0-9A-Za-z]{13}$`),
	"desext": regexp.MustCompile(`^_[./0-9A-Za-z]{19}$`),
	"bcrypt": regexp.MustCompile(`^\$2b\$[0-9]{2}\$[./A-Za-z0-9]{53}$`),
	"nthash": regexp.MustCompile(`^\$3\$\$[0-9a-f]{32}$`),
	"argon2": regexp.MustCompile(`^\$argon2id\$v=19\$m=[1-9][0-9]*,t=[1-9][0-9]*,p=1\$[A-Za-z0-9+/]{11}\$[A-Za-z0-9+/]{43}$`),
}

func pwDomain(name string, r *rng, tier string) []string {
	lens := []int{0, 1, 2, 7, 8, 9, 15, 16, 17, 31, 32, 33, 63, 64, 65, 71, 72, 73, 127, 128, 129, 253, 254, 255, 256, 257, 300}
	if tier == "thorough" {
		lens = nil
		for i := 0; i <= 300; i++ {
			lens = append(lens, i)
		}
	}
	var out []string
	for _, n := range lens {
		switch name {
		case "des":
			if n > 8 {
				continue
			}
		case "sunmd5":
			if n > 255 {
				continue
			}
		case "nthash":
			if n > 128 {
				continue
			}
		}
		if name == "nthash" && (n == 64 || n == 65 || n == 127 || n == 128) {
			// the limit counts UTF-16 units, not bytes and not characters: n two-byte and three-byte characters (n units),
			// and n/2 supplementary characters framed by ASCII (n units)
			out = append(out, strings.Repeat("é", n), strings.Repeat("€", n), strings.Repeat("密", n-1)+"x", "x"+strings.Repeat("\U0001F600", (n-1)/2)+strings.Repeat("y", (n-1)%2))
		}
		if name == "nthash" {
			out = append(out, r.str(n, "abcXYZ019 !")) // ASCII: one UTF-16 unit per byte
			// supplementary-plane characters take two UTF-16 units (a surrogate pair) each
			if n >= 2 && n%2 == 0 && (n <= 16 || n == 64 || n == 128) {
				out = append(out, strings.Repeat("\U0001F600", n/2), "a"+strings.Repeat("\U00010000", n/2-1)+"z")
			}
			if n%16 == 1 && n >= 3 {
				out = append(out, strings.Repeat("é", n/3)+"€")
			}
			continue
		}
		out = append(out, r.str(n, "abcXYZ019 !"))
		if n > 0 && n%8 != 3 {
			out = append(out, string(r.bytes(n)))
		}
		// a multi-byte character straddling the byte positions where schemes cut or fold the password (8, 72, 255)
		if n == 9 || n == 73 || n == 256 {
			if !(name == "sunmd5" && n > 255) {
				out = append(out, strings.Repeat("a", n-3)+"€"+"b", strings.Repeat("a", n-2)+"é")
			}
		}
	}
	return out
}

func corrSchemes(prop, outDir string, seed uint64, tier string) *report {
	rep := newReport(prop, seed, tier)
	r := newRng(seed)
	csN := newCaseSet(outDir, prop+"_newhash", []string{"GC.Schemes.Keys", "GC.Schemes.Checks", "GC.Schemes.SchemeCases", "GC.Schemes.NewHash", "GC.Codec.Types"},
		"Z * bytes * bytes * list Z * list kdf_entry * bytes * nres", "ok_newhash", 500)
	csC := newCaseSet(outDir, prop+"_check", []string{"GC.Schemes.Keys", "GC.Schemes.Checks", "GC.Schemes.SchemeCases", "GC.Codec.Types"},
		"Z * bytes * bytes * list kdf_entry * bytes * verdict", "ok_check", 500)
	sink := &checkCaseSink{cs: csC, rep: rep}
	old := crand.Reader
	defer func() { crand.Reader = old }()

	newHashWith := func(s *schemeOps, pw string, k int, stream []byte) (string, error) {
		crand.Reader = bytes.NewReader(stream)
		defer func() { crand.Reader = old }()
		return s.newHash(pw, k)
	}
	nCoq := 0
	for _, s := range schemes {
		t0 := time.Now()
		defer func(name string, t0 time.Time) {}(s.name, t0)
		pws := pwDomain(s.name, r, tier)
		for i, pw := range pws {
			for k := 0; k < 2; k++ {
				if prop == "C02" && (i%6 != 0 && !strings.HasSuffix(pw, "€b") && !strings.HasSuffix(pw, "aé") || k > 0) {
					continue
				}
				stream := r.bytes(40)
				h, err := newHashWith(s, pw, i+k, stream)
				toCoq := (len(pw) <= 80 || i%3 == 0) && (prop != "C02")
				if err != nil {
					rep.fail(map[string]interface{}{"scheme": s.name, "password_len": len(pw)}, "hash generation succeeds", err.Error(), "NewHash fails on a password and cost inside the domain")
					continue
				}
				if prop == "C01" || prop == "C12" {
					if toCoq {
						var nl []string
						for _, x := range cheapCosts(s.name, i+k) {
							nl = append(nl, coqZ(x))
						}
						csN.add(fmt.Sprintf("(%d, %s, %s, %s, %s, %s, (NOk %s))", s.tag, coqBytes(stream), coqStr(pw), coqList(nl), kdfTable(s, h, pw), coqBytes(ntEncode(pw)), coqStr(h)),
							map[string]interface{}{"scheme": s.name, "password_len": len(pw), "hash": h})
						nCoq++
					}
				}
				switch prop {
				case "C01":
					e1, p1 := sink.add(s, h, pw, toCoq, "fresh")
					var e2 error
					var p2 interface{}
					func() {
						defer func() {
							if x := recover(); x != nil {
								p2 = x
							}
						}()
						e2 = crypt.Check(h, pw)
					}()
					if e1 != nil || p1 != nil || e2 != nil || p2 != nil {
						rep.fail(map[string]interface{}{"scheme": s.name, "password_hex": fmt.Sprintf("%x", pw), "hash": h}, "Check(h, pw) == nil and crypt.Check(h, pw) == nil",
							fmt.Sprint(e1, p1, " / ", e2, p2), "a freshly generated hash does not verify")
					}
					if len(pw) > 64 && len(rep.Samples) < 8 {
						rep.sample(map[string]interface{}{"scheme": s.name, "password_len": len(pw), "hash": h})
					}
				case "C12":
					if !canonicalRe[s.name].MatchString(h) {
						rep.fail(map[string]interface{}{"scheme": s.name, "hash": h}, canonicalRe[s.name].String(), h, "generated hash is not in canonical layout")
					}
					p, perr := s.params(h)
					if perr != nil {
						rep.fail(map[string]interface{}{"scheme": s.name, "hash": h}, "Params succeeds", perr.Error(), "Params rejects a generated hash")
						continue
					}
					want := cheapCosts(s.name, i+k)
					for j, w := range want {
						if j < len(p.nums) && p.nums[j] != w {
							rep.fail(map[string]interface{}{"scheme": s.name, "hash": h}, want, p.nums, "Params does not return the requested cost")
						}
					}
					if s.name != "nthash" && string(p.salt) != refSalt(s.name, stream, false) {
						rep.fail(map[string]interface{}{"scheme": s.name, "hash": h}, refSalt(s.name, stream, false), string(p.salt), "Params does not return the drawn salt")
					}
					saltBefore := append([]byte(nil), p.salt...)
					key, kerr := s.key(pw, p)
					// the parameters Params returned can be used again: a second derivation from the same values gives
					// the same key, and the salt slice still holds what Params put there
					if key2, kerr2 := s.key(pw, p); !bytes.Equal(key, key2) || (kerr == nil) != (kerr2 == nil) || !bytes.Equal(saltBefore, p.salt) {
						rep.fail(map[string]interface{}{"scheme": s.name, "hash": h, "salt_from_Params": string(saltBefore)}, fmt.Sprintf("%x %v again, salt unchanged", key, kerr), fmt.Sprintf("%x %v, salt now %q", key2, kerr2, p.salt),
							"Key(Params(h)) is not repeatable: the parameters returned by Params are changed by Key or give another key the second time")
					}
					if kerr != nil || !strings.HasSuffix(h, refSum(s.name, key)) {
						rep.fail(map[string]interface{}{"scheme": s.name, "hash": h}, "re-derived and re-encoded digest reproduces the string", fmt.Sprint(kerr), "Key(Params(h)) does not reproduce the generated hash")
					}
					if len(rep.Samples) < 8 && i == 3 {
						rep.sample(map[string]interface{}{"scheme": s.name, "hash": h, "params": fmt.Sprint(p.nums, p.prefix, p.flag)})
					}
				case "C02":
					c02Cases(rep, r, sink, s, h, pw, tier)
				}
			}
		}
		if prop == "C02" {
			// genuine hashes in the variants NewHash never writes
			pw := "pw" + r.str(3, "xyz")
			if s.name == "des" {
				pw = "pwxyz"
			}
			for _, h := range constructedHashes(s, pw) {
				if err, pan := checkWatch(s, h, pw); err != nil || pan != nil {
					rep.fail(map[string]interface{}{"scheme": s.name, "hash": h, "password": pw}, "nil (the digest is Key's own output for the parameters written in the string)", fmt.Sprint(err, pan),
						"a hash built from Key and the documented layout does not verify")
					continue
				}
				c02Cases(rep, r, sink, s, h, pw, tier)
				rep.bump("c02_constructed_bases")
			}
		}
		if prop == "C12" {
			c12Coherence(rep, sink, s)
		}
		rep.Distribution["seconds_"+s.name] = int(time.Since(t0).Seconds())
	}
	must(csN.flush())
	must(csC.flush())
	if prop == "C01" {
		// the concrete derivation the C01_*_concrete theorems speak about, extracted, on the argument lists of this run
		n := 25
		if tier == "thorough" {
			n = 200
		}
		checkKdfEntries(rep, n)
	}
	rep.CaseSets = []string{prop + "_newhash", prop + "_check"}
	rep.Distribution["cases_sent_to_coq_newhash"] = nCoq
	switch prop {
	case "C01":
		rep.Rule = "per scheme: passwords of lengths 0..300 around 8/16/32/64/72/128/254/255/256 (ASCII and 8-bit), cheap costs, salt from a scripted random stream; NewHash's string vs the Coq NewHash model (byte for byte), Check(h,pw) vs the Coq Check model; oracle: Check and crypt.Check both return nil. Every case non-trivial; distinct by (scheme, hash, password)."
	case "C12":
		rep.Rule = "generated hashes: canonical template per scheme, Params returns the requested cost and the drawn salt, Key(Params(h)) re-encoded reproduces the string; NewHash vs the Coq model byte for byte. Well-formed reference and non-canonical-but-accepted spellings: Check succeeds iff Key(Params(h)) re-encodes to the stored digest; Check vs the Coq model. Every case non-trivial."
	case "C02":
		rep.Rule = "per (password, fresh hash): every digest position x every other alphabet symbol (exhaustive), near-miss passwords (bit flips at every byte, one byte appended/removed, case change, truncation/extension at 8/16/32/64/72), salt and cost edits: verification must never succeed unless the scheme's documented equivalences apply; every call vs the Coq Check model."
	}
	return rep
}

// digestSpan returns [lo,hi) of the digest inside a canonical hash of the scheme
func digestSpan(name, h string) (int, int) {
	switch name {
	case "des":
		return 2, 13
	case "desext":
		return 9, 20
	case "bcrypt":
		return len(h) - 31, len(h)
	}
	return strings.LastIndexByte(h, '$') + 1, len(h)
}

var (
	c02xc      *xcrypt
	c02xcTried bool
)

func c02Cases(rep *report, r *rng, sink *checkCaseSink, s *schemeOps, h, pw string, tier string) {
	// thorough tier: the full sweeps for the first bases of a scheme and every 25th after them; the sampled ones for the
	// rest (300 password lengths x 10 schemes x every digest position x every symbol does not finish in an hour)
	nb, _ := rep.Distribution["c02_bases_"+s.name].(int)
	rep.Distribution["c02_bases_"+s.name] = nb + 1
	if tier == "thorough" && nb >= 8 && nb%25 != 0 {
		tier = "quick"
	}
	exhaustive := tier == "thorough" || rep.Distribution["c02_exhaustive_"+s.name] == nil
	if exhaustive {
		rep.Distribution["c02_exhaustive_"+s.name] = 1
	}
	never := func(h2, pw2, kind string, toCoq bool) {
		if os.Getenv("VERIF_DEBUG") != "" {
			t0 := time.Now()
			defer func() {
				if d := time.Since(t0); d > 200*time.Millisecond {
					fmt.Fprintln(os.Stderr, "slow never:", s.name, kind, d, h2)
				}
			}()
		}
		if rc := recognise(s.name, h2); rc.ok && (tooExpensive(s.name, rc) || s.name == "argon2" && len(rc.p.nums) >= 3 && (rc.p.nums[0] > 2048 || rc.p.nums[1] > 4 || rc.p.nums[2] > 6) || s.name == "bcrypt" && rc.p.nums[0] > 6) {
			rep.bump("c02_skipped_expensive_cost")
			return
		}
		err, pan := sink.add(s, h2, pw2, toCoq, kind)
		rep.bump("c02_" + kind)
		if err == nil && pan == nil {
			// success is legitimate only if the stored digest really equals the digest derived from the presented
			// password with the hash's own parameters (first sentence of C02); a genuine collision of the
			// derivation (e.g. the all-zero DES key is a weak key: only the parity of the round count matters)
			// is not a defect of the verification
			rc := recognise(s.name, h2)
			if rc.ok {
				// judged by the reference implementation where it knows the scheme and accepts the setting (so that a
				// defect of this library's own Key cannot vouch for itself), otherwise by the library's Key
				if c02xc == nil && !c02xcTried {
					c02xc, c02xcTried = startXcrypt(), true
				}
				if c02xc != nil && s.name != "argon2" && !strings.ContainsRune(pw2, 0) {
					if theirs := c02xc.crypt(h2, pw2); theirs != "FAIL" && len(theirs) >= len(rc.sum) {
						rep.bump("c02_success_judged_by_libxcrypt")
						if strings.HasSuffix(theirs, rc.sum) {
							rep.bump("c02_success_by_genuine_digest_equality")
							return
						}
						rep.fail(map[string]interface{}{"scheme": s.name, "hash": h2, "password_hex": fmt.Sprintf("%x", pw2), "original_hash": h, "original_password_hex": fmt.Sprintf("%x", pw)},
							"mismatch or error (libxcrypt derives "+theirs+")", "nil", "verification succeeds for a "+kind+" although the reference digest for this password differs from the stored one")
						return
					}
				}
				if s.name == "argon2" && kind != "structural_edit" && kind != "digest_substitution" {
					// a success after a cost, version or salt edit is judged by the extracted Coq model (RFC 9106 structure,
					// real BLAKE2b), not by the library's own Key; member rotations (legitimate respellings) are left to it
					if mk, ok := c02ArgonModelKey(pw2, rc.p); ok {
						rep.bump("c02_success_judged_by_the_argon2_model")
						if base64.RawStdEncoding.EncodeToString(mk) == rc.sum {
							rep.bump("c02_success_by_genuine_digest_equality")
							return
						}
						rep.fail(map[string]interface{}{"scheme": s.name, "hash": h2, "password_hex": fmt.Sprintf("%x", pw2), "original_hash": h, "original_password_hex": fmt.Sprintf("%x", pw)},
							"mismatch or error (the RFC 9106 model derives "+base64.RawStdEncoding.EncodeToString(mk)+" for the costs written in this string)", "nil",
							"verification succeeds for a "+kind+" although the reference digest for the string's own salt, cost and version differs from the stored one")
						return
					}
				}
				if key, kerr := s.key(pw2, rc.p); kerr == nil && refSum(s.name, key) == rc.sum {
					rep.bump("c02_success_by_genuine_digest_equality")
					return
				}
			}
			rep.fail(map[string]interface{}{"scheme": s.name, "hash": h2, "password_hex": fmt.Sprintf("%x", pw2), "original_hash": h, "original_password_hex": fmt.Sprintf("%x", pw)}, "mismatch or error", "nil", "verification succeeds for a "+kind+" although the derived digest differs from the stored one")
		}
	}
	lo, hi := digestSpan(s.name, h)
	alpha := alphaCrypt
	switch s.name {
	case "argon2":
		alpha = b64Std
	case "nthash":
		alpha = "0123456789abcdef"
	}
	n := 0
	for i := lo; i < hi; i++ {
		for k := 0; k < len(alpha); k++ {
			if alpha[k] == h[i] {
				continue
			}
			if !exhaustive && r.intn(30) != 0 {
				continue
			}
			// quick tier: the whole alphabet at the first and the last two digest positions, six symbols elsewhere
			// (the theorem C02_tamper covers every digest text; the correspondence samples it)
			if tier != "thorough" && i != lo && i < hi-2 && r.intn(10) != 0 {
				continue
			}
			// the last symbol of an encoding of raw bytes has unused bits: a different spelling of the same bits
			// decodes to the same digest only for Key-side decoding, never for the stored digest comparison
			n++
			never(h[:i]+string(alpha[k])+h[i+1:], pw, "digest_substitution", n%9 == 0)
		}
	}
	// near-miss passwords
	b := []byte(pw)
	equivalent := func(p2 []byte) bool {
		switch s.name {
		case "des":
			// only 7 bits of the first 8 bytes matter
			a, c := append([]byte(nil), b...), append([]byte(nil), p2...)
			for i := range a {
				a[i] &= 0x7f
			}
			for i := range c {
				c[i] &= 0x7f
			}
			return bytes.Equal(a, c)
		case "desext":
			a, c := append([]byte(nil), b...), append([]byte(nil), p2...)
			for i := range a {
				a[i] &= 0x7f
			}
			for i := range c {
				c[i] &= 0x7f
			}
			return bytes.Equal(a, c)
		case "bcrypt":
			a, c := b, p2
			if len(a) > 72 {
				a = a[:72]
			}
			if len(c) > 72 {
				c = c[:72]
			}
			// the key is cycled with its NUL terminator: equal 72-byte prefixes are equivalent
			return bytes.Equal(a, c)
		case "nthash":
			return bytes.Equal(ntEncode(string(b)), ntEncode(string(p2)))
		}
		return false
	}
	tryPw := func(p2 []byte, kind string) {
		if bytes.Equal(p2, b) || bytes.IndexByte(p2, 0) >= 0 || equivalent(p2) {
			return
		}
		if s.name == "des" && len(p2) > 8 {
			return
		}
		never(h, string(p2), kind, r.intn(4) == 0)
	}
	for i := 0; i < len(b) && i < 80; i++ {
		for bit := 0; bit < 8; bit++ {
			if tier != "thorough" && ((bit+i)%3 != 0 && !(i >= 66 && i <= 73) && i != 7 && i != 8 || i >= 24 && i < len(b)-8 && i%4 != 0 && !(i >= 66 && i <= 73)) {
				continue
			}
			p2 := append([]byte(nil), b...)
			p2[i] ^= 1 << uint(bit)
			tryPw(p2, "password_bitflip")
		}
	}
	tryPw(append(append([]byte(nil), b...), 'x'), "password_extended")
	if len(b) > 0 {
		tryPw(b[:len(b)-1], "password_truncated")
		tryPw(b[1:], "password_truncated")
		tryPw(bytes.ToUpper(b), "password_case")
	}
	for _, cut := range []int{8, 16, 32, 64, 72} {
		if len(b) > cut {
			tryPw(b[:cut], "password_cut_at_boundary")
		}
		if len(b) == cut {
			tryPw(append(append([]byte(nil), b...), b...), "password_extended_at_boundary")
		}
	}
	// cost / version fields rewritten to numbers congruent modulo the field width, and past each width
	for _, e := range numericEdits(h[:lo]) {
		never(e+h[lo:], pw, "cost_overflow_edit", true)
	}
	// every decimal field rewritten to the values around it and to every small value (a cost that is clamped, rounded
	// or defaulted somewhere below the codec must still change the digest)
	for _, e := range numericNeighbours(h[:lo]) {
		if rc := recognise(s.name, e+h[lo:]); tooExpensive(s.name, rc) {
			continue
		}
		never(e+h[lo:], pw, "cost_neighbour_edit", false)
	}
	// whole fragments and group members before the digest dropped, doubled or swapped (a cost field that is deleted must
	// not leave the previous hash's cost in force)
	for _, e := range structuralEdits(h[:lo]) {
		if len(e) > 0 && e[len(e)-1] == h[lo-1] || s.name == "des" || s.name == "desext" {
			never(e+h[lo:], pw, "structural_edit", false)
		}
	}
	// one symbol inserted or deleted before the digest (a salt or cost of another length): Key may reject it, the
	// string may be malformed, or another digest results -- never success
	for i := 1; i <= lo; i++ {
		for _, c := range []byte{'a', '1', '.'} {
			never(h[:i]+string(c)+h[i:], pw, "salt_or_cost_insertion", i%3 == 0)
		}
		if i < lo {
			never(h[:i]+h[i+1:], pw, "salt_or_cost_deletion", i%3 == 0)
		}
	}
	// salt / cost edits: every position before the digest, replaced by another symbol of the same class
	for i := 0; i < lo; i++ {
		c := h[i]
		var repl byte
		switch {
		case c >= '0' && c <= '8':
			repl = c + 1
		case c == '9':
			repl = '8'
		case c >= 'a' && c <= 'y' || c >= 'A' && c <= 'Y':
			repl = c + 1
		case c == '.':
			repl = '/'
		case c == '/':
			repl = '.'
		default:
			continue
		}
		h2 := h[:i] + string(repl) + h[i+1:]
		// a significant salt character? the last salt symbol of bcrypt (2 significant bits) and Argon2
		// (4 significant bits) may be a different spelling of the same salt bytes (DESIGN.md 5.2)
		if s.name == "bcrypt" && i == lo-1 {
			continue
		}
		if s.name == "argon2" && i == lo-2 {
			continue
		}
		// prefix letters ($2a$ <-> $2b$ twins for short passwords, md5 -> other scheme names) are variant edits
		if s.name == "bcrypt" && i < 4 {
			continue
		}
		never(h2, pw, "salt_or_cost_edit", i%2 == 0)
	}
}

// c12Coherence: for well-formed hashes (reference vectors and non-canonical accepted spellings):
// Check succeeds iff Key(Params(h)) re-encodes to the stored digest.
func c12Coherence(rep *report, sink *checkCaseSink, s *schemeOps) {
	pw := "password"
	var hs []string
	for _, h := range referenceHashes {
		hs = append(hs, h)
	}
	// non-canonical spellings derived from a generated hash
	if g, err := s.newHash(pw, 0); err == nil {
		hs = append(hs, g, g+"$")
		switch s.name {
		case "sha256", "sha512":
			hs = append(hs, strings.Replace(g, "rounds=1000$", "rounds=01000$", 1))
		case "argon2":
			hs = append(hs, strings.Replace(g, "v=19$", "v=019$", 1), strings.Replace(strings.Replace(g, ",t=", ",T=", 1), "m=", "m=0", 1))
		}
	}
	// well-formed hashes whose digest differs from a genuine one in the LAST symbol only (all other symbols of the
	// digest alphabet): symbols that differ only in bits a decoder would drop are different digests
	if g, err := s.newHash(pw, 0); err == nil && len(g) > 0 {
		al := alphaCrypt
		switch s.name {
		case "argon2":
			al = b64Std
		case "nthash":
			al = "0123456789abcdef"
		}
		for k := 0; k < len(al); k++ {
			if al[k] != g[len(g)-1] {
				hs = append(hs, g[:len(g)-1]+string(al[k]))
			}
		}
	}
	// genuine hashes in the variants NewHash never writes (implicit round count, several lanes, legacy prefixes)
	hs = append(hs, constructedHashes(s, pw)...)
	// every decimal field of those and of a generated hash rewritten to 0..24 and to its neighbours (explicit zeros,
	// other versions, clamped or defaulted costs): whatever Check makes of such a string, Params and Key must agree
	{
		base := append([]string(nil), constructedHashes(s, pw)...)
		if g, err := s.newHash(pw, 0); err == nil {
			base = append(base, g)
		}
		for _, b := range base {
			lo, _ := digestSpan(s.name, b)
			// per field: the explicit zero and the nearest values first; 16 spellings per field, every base
			perField := map[int]int{}
			for _, e := range numericNeighbours(b[:lo]) {
				k := 0
				for k < len(e) && k < lo && e[k] == b[k] {
					k++
				}
				if perField[k]++; perField[k] > 16 {
					continue
				}
				hs = append(hs, e+b[lo:])
			}
		}
	}
	// what Params returns belongs to the caller: overwriting the returned salt changes neither a later Check of the
	// same string nor what Params returns next time
	for _, h := range append(constructedHashes(s, pw), hs[len(hs)-1]) {
		if rc := recognise(s.name, h); tooExpensive(s.name, rc) || s.name == "bcrypt" && rc.ok && rc.p.nums[0] > 6 {
			continue
		}
		p1, perr := s.params(h)
		if perr != nil || len(p1.salt) == 0 {
			continue
		}
		e1, pan1 := checkWatch(s, h, pw)
		orig := string(p1.salt)
		for i := range p1.salt {
			p1.salt[i] = 'A'
		}
		e2, pan2 := checkWatch(s, h, pw)
		p2, _ := s.params(h)
		if fmt.Sprint(e1, pan1) != fmt.Sprint(e2, pan2) || string(p2.salt) != orig {
			rep.fail(map[string]interface{}{"scheme": s.name, "hash": h, "history": "Params(h); the caller overwrites the salt slice it got; Check(h, pw); Params(h)"},
				fmt.Sprintf("Check: %v, Params salt %q (as before)", e1, orig), fmt.Sprintf("Check: %v %v, Params salt %q", e2, pan2, p2.salt),
				"the salt returned by Params shares memory with state that later calls use")
		}
		rep.bump("c12_params_result_owned")
	}
	// coherence must hold whatever was verified just before: all ordered pairs of a few well-formed hashes of
	// different shapes (b is judged right after a)
	{
		var wf []string
		shapes := map[string]bool{}
		for _, h := range hs {
			rc := recognise(s.name, h)
			shape := fmt.Sprint(strings.Count(h, "$"), strings.Count(h, "="), len(h))
			if rc.ok && !rc.skip && !tooExpensive(s.name, rc) && !shapes[shape] && len(wf) < 8 {
				shapes[shape] = true
				wf = append(wf, h)
			}
		}
		for _, a := range wf {
			for _, b := range wf {
				checkWatch(s, a, pw)
				err, pan := checkWatch(s, b, pw)
				prm, perr := s.params(b)
				if perr != nil {
					continue
				}
				key, kerr := s.key(pw, prm)
				if kerr != nil {
					continue
				}
				match := refSum(s.name, key) == recognise(s.name, b).sum
				if (err == nil && pan == nil) != match {
					rep.fail(map[string]interface{}{"scheme": s.name, "hash": b, "password": pw, "verified_just_before": a},
						fmt.Sprintf("verifies iff Key(Params(hash)) re-encodes to the stored digest (%v)", match), fmt.Sprint(err, pan), "Check disagrees with Params and Key after another hash was verified")
				}
				rep.bump("c12_coherence_pairs")
			}
		}
	}
	for _, h := range hs {
		if rc := recognise(s.name, h); tooExpensive(s.name, rc) || s.name == "bcrypt" && rc.ok && rc.p.nums[0] > 6 {
			continue
		}
		for _, p := range []string{pw, "wrong"} {
			prm, perr := s.params(h)
			err, pan := sink.add(s, h, p, true, "coherence")
			if perr != nil {
				if err == nil && pan == nil {
					rep.fail(map[string]interface{}{"scheme": s.name, "hash": h}, "Params and Check agree on well-formedness", "Check nil but Params error "+perr.Error(), "Check accepts a hash Params rejects")
				}
				continue
			}
			key, kerr := s.key(p, prm)
			rc := recognise(s.name, h)
			if kerr != nil && err == nil && pan == nil {
				rep.fail(map[string]interface{}{"scheme": s.name, "hash": h, "password": p}, "Check fails too (Key rejects the parameters Params extracted: "+kerr.Error()+")", "Check returns nil",
					"Check verifies a hash whose extracted parameters Key rejects")
			}
			if kerr != nil || rc.skip {
				continue
			}
			match := rc.ok && refSum(s.name, key) == rc.sum
			if (err == nil && pan == nil) != match && rc.ok {
				rep.fail(map[string]interface{}{"scheme": s.name, "hash": h, "password": p}, fmt.Sprintf("verifies iff re-encoded key equals the digest (%v)", match), fmt.Sprint(err, pan), "Check, Params and Key disagree")
			}
			rep.bump("c12_coherence")
		}
	}
}

// numericNeighbours: for every decimal field (as in numericEdits) the strings with the field set to v-3..v+3, v/2, 2v
// and every value 0..24, v itself excluded.
func numericNeighbours(h string) []string {
	var out []string
	for i := 0; i < len(h); i++ {
		if !(h[i] >= '0' && h[i] <= '9') || (i > 0 && !strings.ContainsRune("$,=", rune(h[i-1]))) {
			continue
		}
		j := i
		for j < len(h) && h[j] >= '0' && h[j] <= '9' {
			j++
		}
		if j < len(h) && h[j] != '$' && h[j] != ',' || j-i > 9 {
			i = j
			continue
		}
		v, _ := strconv.Atoi(h[i:j])
		seen := map[int]bool{v: true}
		cands := []int{0, v - 1, v + 1, 1, v - 3, v - 2, v + 2, v + 3, v / 2, 2 * v}
		for k := 2; k <= 24; k++ {
			cands = append(cands, k)
		}
		for _, c := range cands {
			if c < 0 || seen[c] {
				continue
			}
			seen[c] = true
			t := strconv.Itoa(c)
			for len(t) < j-i && h[i] == '0' { // keep fixed-width fields (bcrypt's two-digit cost) at their width
				t = "0" + t
			}
			out = append(out, h[:i]+t+h[j:])
		}
		i = j
	}
	return out
}

var c02Model *modelProc
var c02ModelTried bool
var c02ModelMemo = map[string][]byte{}

// c02ArgonModelKey: the key the extracted model derives for the parameters recognised in an Argon2 string
func c02ArgonModelKey(pw string, p hparams) ([]byte, bool) {
	if !c02ModelTried {
		c02ModelTried = true
		if m, err := startModel(); err == nil {
			c02Model = m
		}
	}
	if c02Model == nil || len(p.nums) < 4 {
		return nil, false
	}
	mode := map[string]int{"$argon2d$": 0, "$argon2i$": 1, "$argon2id$": 2}[p.prefix]
	raw, err := base64.RawStdEncoding.DecodeString(string(p.salt))
	if err != nil {
		return nil, false
	}
	req := fmt.Sprintf("argon2 %d %d %s %s %d %d %d 32", mode, p.nums[3], hx([]byte(pw)), hx(raw), p.nums[1], p.nums[0], p.nums[2])
	if k, ok := c02ModelMemo[req]; ok {
		return k, true
	}
	if len(c02ModelMemo) >= 12 {
		return nil, false // the quick budget for model derivations is spent: judged by the library's own Key as before
	}
	got, err := c02Model.run(req)
	if err != nil || got == "NONE" || got == "BADREQUEST" {
		return nil, false
	}
	c02ModelMemo[req] = unhx(got)
	return unhx(got), true
}

// constructedHashes: genuine hashes in the variants NewHash never writes (Argon2 with several lanes, the d / i variants,
// version 0x10 with and without a v= field; bcrypt $2a$ and $2$; SHA-crypt with the implicit round count), built
// from Key and the documented layout.
func constructedHashes(s *schemeOps, pw string) []string {
	var out []string
	defer func() { recover() }()
	switch s.name {
	case "argon2":
		salt := base64.RawStdEncoding.EncodeToString([]byte("saltsalt"))
		for _, v := range []struct {
			prefix string
			ver    int
			vfield string
			m, t   uint32
			p      uint8
		}{{"$argon2id$", 0x13, "v=19$", 16, 1, 2}, {"$argon2i$", 0x10, "", 24, 1, 3}, {"$argon2d$", 0x10, "v=16$", 32, 1, 4}} {
			k, err := argon2.Key([]byte(pw), []byte(salt), v.m, v.t, v.p, &argon2.CompatibilityOptions{Prefix: v.prefix, Version: v.ver})
			if err == nil {
				out = append(out, fmt.Sprintf("%s%sm=%d,t=%d,p=%d$%s$%s", v.prefix, v.vfield, v.m, v.t, v.p, salt, base64.RawStdEncoding.EncodeToString(k)))
			}
		}
	case "bcrypt":
		salt := "abcdefghijklmnopqrstuu"
		for _, prefix := range []string{"$2a$", "$2$"} {
			if prefix == "$2$" && pw == "" {
				continue
			}
			k, err := bcrypt.Key([]byte(pw), []byte(salt), 5, &bcrypt.CompatibilityOptions{Prefix: prefix})
			if err == nil {
				out = append(out, prefix+"05$"+salt+bcrypt.Encoding.EncodeToString(k))
			}
		}
	case "sha256":
		if k, err := sha256.Key([]byte(pw), []byte("saltsalt"), 5000); err == nil {
			out = append(out, "$5$saltsalt$"+crypthash.LittleEndianEncoding.EncodeToString(k))
		}
	case "sha512":
		if k, err := sha512.Key([]byte(pw), []byte("saltsalt"), 5000); err == nil {
			out = append(out, "$6$saltsalt$"+crypthash.LittleEndianEncoding.EncodeToString(k))
		}
	}
	return out
}
