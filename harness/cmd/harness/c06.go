package main

import (
	crand "crypto/rand"
	"fmt"
	"math/big"
	"strings"
	"time"

	crypt "github.com/sergeymakinen/go-crypt"
)

func init() { corrs["C06"] = corrC06 }

// detReader makes crypto/rand deterministic for the run (every random choice derives from VERIF_SEED).
type detReader struct{ r *rng }

func (d detReader) Read(p []byte) (int, error) {
	for i := range p {
		p[i] = byte(d.r.u64())
	}
	return len(p), nil
}

func withDetRand(seed uint64, f func()) {
	old := crand.Reader
	crand.Reader = detReader{newRng(seed ^ 0xABCDEF)}
	defer func() { crand.Reader = old }()
	f()
}

// classOf: 0 nil, 1 mismatch, 2 other
func classOf(err error, pan interface{}) int {
	switch {
	case pan != nil:
		return 3
	case err == nil:
		return 0
	case err == crypt.ErrPasswordMismatch:
		return 1
	}
	return 2
}

var classNames = []string{"nil", "mismatch", "other error", "panic"}

// expectClass evaluates the independent recogniser.
func expectClass(s *schemeOps, h, pw string) (cls int, skip bool) {
	rc := recognise(s.name, h)
	if rc.skip {
		return 0, true
	}
	if !rc.ok {
		return 2, false
	}
	key, err := s.key(pw, rc.p)
	if err != nil {
		return 2, false
	}
	if refSum(s.name, key) == rc.sum {
		return 0, false
	}
	return 1, false
}

type checkCaseSink struct {
	cs  *caseSet
	rep *report
	cs2 *caseSet // optional: the same cases under a second test function (C06: the recogniser statement)
}

func (k *checkCaseSink) add(s *schemeOps, h, pw string, toCoq bool, kind string) (error, interface{}) {
	err, pan := checkWatch(s, h, pw)
	if toCoq {
		term := fmt.Sprintf("(%d, %s, %s, %s, %s, %s)", s.tag, coqStr(h), coqStr(pw), kdfTable(s, h, pw), coqBytes(ntEncode(pw)), verdictDesc(err, pan))
		meta := map[string]interface{}{"scheme": s.name, "hash": h, "password": pw, "kind": kind}
		k.cs.add(term, meta)
		if k.cs2 != nil {
			k.cs2.add(term, meta)
		}
	}
	if len(callLog) < 400000 {
		callLog = append(callLog, loggedCall{s.name, h, pw, verdictDesc(err, pan)})
	}
	k.rep.count(s.name+"|"+h+"|"+pw, true)
	k.rep.bump(s.name + "_" + classNames[classOf(err, pan)])
	return err, pan
}

const editAlpha = "$,=_05a./@A"

// numericEdits: for every decimal field of the hash (a digit run delimited by '$', ',' or '=' on the left and by
// '$', ',' or the end on the right) the spellings of numbers congruent to the written one modulo 2^8, 2^16, 2^32
// and 2^64, a value just past each width, and an over-long digit string: an out-of-range cost must be rejected,
// never reduced modulo the field's width.
func numericEdits(h string) []string {
	var out []string
	for i := 0; i < len(h); i++ {
		if !(h[i] >= '0' && h[i] <= '9') || (i > 0 && !strings.ContainsRune("$,=", rune(h[i-1]))) {
			continue
		}
		j := i
		for j < len(h) && h[j] >= '0' && h[j] <= '9' {
			j++
		}
		if j < len(h) && h[j] != '$' && h[j] != ',' || j-i > 10 {
			i = j
			continue
		}
		v, ok := new(big.Int).SetString(h[i:j], 10)
		if !ok {
			continue
		}
		for _, bits := range []uint{8, 16, 32, 64} {
			w := new(big.Int).Lsh(big.NewInt(1), bits)
			out = append(out, h[:i]+new(big.Int).Add(v, w).String()+h[j:])
			out = append(out, h[:i]+w.String()+h[j:])
		}
		out = append(out, h[:i]+strings.Repeat("9", 25)+h[j:])
		i = j
	}
	return out
}

// structuralEdits: edits at the level of the layout rather than of single characters: every fragment dropped,
// doubled or swapped with its neighbour; inside a comma group every member dropped, doubled (same value, another
// value, in front, at the end, next to itself), every rotation and the reversal of the members; every key=value
// fragment or member without its key, with another key, and with an empty value.
func structuralEdits(h string) []string {
	var out []string
	seen := map[string]bool{h: true}
	emit := func(x string) {
		if !seen[x] {
			seen[x] = true
			out = append(out, x)
		}
	}
	fr := strings.Split(h, "$")
	join := func(f []string) string { return strings.Join(f, "$") }
	cp := func(f []string) []string { return append([]string(nil), f...) }
	otherVal := func(m string) string {
		if i := strings.IndexByte(m, '='); i >= 0 {
			v := m[i+1:]
			if n, ok := new(big.Int).SetString(v, 10); ok {
				return m[:i+1] + new(big.Int).Add(n, big.NewInt(8)).String()
			}
			return m[:i+1] + v + "0"
		}
		return m + "0"
	}
	keyEdits := func(m string) []string {
		i := strings.IndexByte(m, '=')
		if i < 0 {
			return nil
		}
		return []string{m[i+1:], m[:i+1], "x" + m, m[:i] + "x" + m[i:], strings.ToUpper(m[:i]) + m[i:], m[:i] + "==" + m[i+1:], m + "=" + m[i+1:]}
	}
	for i := range fr {
		if i > 0 {
			f := cp(fr)
			emit(join(append(f[:i], f[i+1:]...)))
			f = cp(fr)
			f = append(f[:i+1], append([]string{fr[i]}, fr[i+1:]...)...)
			emit(join(f))
			if i+1 < len(fr) {
				f = cp(fr)
				f[i], f[i+1] = f[i+1], f[i]
				emit(join(f))
			}
		}
		for _, e := range keyEdits(fr[i]) {
			if !strings.Contains(fr[i], ",") {
				f := cp(fr)
				f[i] = e
				emit(join(f))
			}
		}
		if strings.Contains(fr[i], "=") && !strings.Contains(fr[i], ",") {
			f := cp(fr)
			f[i] = otherVal(fr[i])
			emit(join(f))
			f[i] = fr[i] + "," + fr[i]
			emit(join(f))
			f[i] = fr[i] + "," + otherVal(fr[i])
			emit(join(f))
		}
		ms := strings.Split(fr[i], ",")
		if len(ms) < 2 {
			continue
		}
		set := func(m []string) {
			f := cp(fr)
			f[i] = strings.Join(m, ",")
			emit(join(f))
		}
		for k := range ms {
			m := cp(ms)
			set(append(m[:k], m[k+1:]...))
			for _, dup := range []string{ms[k], otherVal(ms[k])} {
				set(append([]string{dup}, ms...))
				set(append(cp(ms), dup))
				m = cp(ms)
				set(append(m[:k+1], append([]string{dup}, ms[k+1:]...)...))
				m = cp(ms)
				set(append(m[:k], append([]string{dup}, ms[k:]...)...))
			}
			for _, e := range keyEdits(ms[k]) {
				m = cp(ms)
				m[k] = e
				set(m)
			}
			set(append(cp(ms[k:]), ms[:k]...))
			// the group split into two fragments at this member
			if k > 0 {
				f := cp(fr)
				f[i] = strings.Join(ms[:k], ",") + "$" + strings.Join(ms[k:], ",")
				emit(join(f))
			}
		}
		rev := cp(ms)
		for a, b := 0, len(rev)-1; a < b; a, b = a+1, b-1 {
			rev[a], rev[b] = rev[b], rev[a]
		}
		set(rev)
	}
	return out
}

// fieldSweeps: every decimal field of the hash (as in numericEdits) rewritten over the codec's whole symbol
// alphabet "./0-9A-Za-z": all texts of the field's length for fields of one or two symbols, every single-symbol
// substitution for longer ones.  A symbol that is not a decimal digit must make the string malformed, whatever
// arithmetic the field's parser does with it.
func fieldSweeps(h string) []string {
	var out []string
	for i := 0; i < len(h); i++ {
		if !(h[i] >= '0' && h[i] <= '9') || (i > 0 && !strings.ContainsRune("$,=", rune(h[i-1]))) {
			continue
		}
		j := i
		for j < len(h) && h[j] >= '0' && h[j] <= '9' {
			j++
		}
		if j < len(h) && h[j] != '$' && h[j] != ',' || j-i > 10 {
			i = j
			continue
		}
		switch j - i {
		case 1:
			for a := 0; a < 64; a++ {
				out = append(out, h[:i]+alphaCrypt[a:a+1]+h[j:])
			}
		case 2:
			for a := 0; a < 64; a++ {
				for b := 0; b < 64; b++ {
					out = append(out, h[:i]+alphaCrypt[a:a+1]+alphaCrypt[b:b+1]+h[j:])
				}
			}
		default:
			for k := i; k < j; k++ {
				for a := 0; a < 64; a++ {
					out = append(out, h[:k]+alphaCrypt[a:a+1]+h[k+1:])
				}
			}
		}
		i = j
	}
	return out
}

// tooExpensive: a well-formed string whose stated cost is beyond what a check run can afford to derive
func tooExpensive(name string, rc recog) bool {
	if !rc.ok {
		return false
	}
	lim := map[string][]int64{"bcrypt": {8}, "sha256": {300000}, "sha512": {300000}, "sha1": {400000}, "sunmd5": {200000},
		"desext": {1 << 21}, "argon2": {1 << 16, 8, 64}}[name]
	for k, l := range lim {
		if k < len(rc.p.nums) && rc.p.nums[k] > l {
			return true
		}
	}
	return false
}

// checkTimed: Check under a wall-clock limit (for strings the recogniser rejects: nothing may be derived for them)
func checkTimed(s *schemeOps, h, pw string, d time.Duration) (returned bool) {
	done := make(chan struct{})
	go func() {
		defer close(done)
		checkWatch(s, h, pw)
	}()
	select {
	case <-done:
		return true
	case <-time.After(d):
		return false
	}
}

// edits1 enumerates every string at edit distance 1 (substitution, deletion, insertion) under the alphabet,
// plus all truncations.
func edits1(h, alpha string, f func(string, string)) {
	for i := 0; i <= len(h); i++ {
		for k := 0; k < len(alpha); k++ {
			f(h[:i]+string(alpha[k])+h[i:], "insert")
		}
		if i < len(h) {
			f(h[:i]+h[i+1:], "delete")
			for k := 0; k < len(alpha); k++ {
				if alpha[k] != h[i] {
					f(h[:i]+string(alpha[k])+h[i+1:], "substitute")
				}
			}
			f(h[:i], "truncate")
		}
	}
}

func corrC06(outDir string, seed uint64, tier string, replay string) *report {
	rep := newReport("C06", seed, tier)
	r := newRng(seed)
	cs := newCaseSet(outDir, "C06_check", []string{"GC.Schemes.Keys", "GC.Schemes.Checks", "GC.Schemes.SchemeCases", "GC.Codec.Types"},
		"Z * bytes * bytes * list kdf_entry * bytes * verdict", "ok_check", 1500)
	// the C06 statement itself (class of the model's verdict = independent Coq recogniser + Key guards + digest
	// equality, and = class of the observed verdict), evaluated on the same cases
	cs2 := newCaseSet(outDir, "C06_recog", []string{"GC.Schemes.Keys", "GC.Schemes.Checks", "GC.Schemes.SchemeCases", "GC.Codec.Types", "GC.Schemes.RecogCases"},
		"Z * bytes * bytes * list kdf_entry * bytes * verdict", "test_recog", 1500)
	sink := &checkCaseSink{cs, rep, cs2}
	nCanon := 1
	coqEvery := 3
	alpha := "$,=_0a/@"
	if tier == "thorough" {
		nCanon, coqEvery, alpha = 3, 2, editAlpha
	}
	withDetRand(seed, func() {
		for _, s := range schemes {
			pw := "pass" + string(r.str(2, "wxyz"))
			if s.name == "des" {
				pw = "pw" + r.str(3, "xyz")
			}
			var canon []string
			for i := 0; i < nCanon; i++ {
				h, err := s.newHash(pw, i)
				if err != nil {
					rep.fail(s.name, "NewHash succeeds", err.Error(), "cannot generate a canonical hash")
					continue
				}
				canon = append(canon, h)
			}
			// accepted non-canonical spellings as additional starting points (thorough)
			if tier == "thorough" {
				switch s.name {
				case "sha256":
					h, _ := s.newHash(pw, 0)
					canon = append(canon, strings.Replace(h, "rounds=1000$", "rounds=01000$", 1))
				case "argon2":
					h, _ := s.newHash(pw, 0)
					canon = append(canon, strings.Replace(h, "v=19$", "", 1))
				}
			}
			n := 0
			judgeParams := func(h string) {
				if s.params == nil {
					return
				}
				rc := recognise(s.name, h)
				if rc.skip {
					return
				}
				p, perr := s.params(h)
				rep.bump("params_calls")
				if rc.ok {
					// well-formed and in range: Params/Salt succeed and return exactly the values written in the string
					same := perr == nil && string(p.salt) == string(rc.p.salt) && fmt.Sprint(p.nums) == fmt.Sprint(rc.p.nums) && p.prefix == rc.p.prefix && p.flag == rc.p.flag
					if !same {
						rep.fail(map[string]interface{}{"scheme": s.name, "hash": h}, fmt.Sprintf("salt=%q nums=%v prefix=%q flag=%v", rc.p.salt, rc.p.nums, rc.p.prefix, rc.p.flag),
							fmt.Sprintf("salt=%q nums=%v prefix=%q flag=%v err=%v", p.salt, p.nums, p.prefix, p.flag, perr), "Params/Salt do not return the values encoded in a well-formed hash")
					}
					rep.bump("params_wellformed")
					return
				}
				// not recognised (malformed or out of range): if Params nevertheless succeeds the string is well-formed
				// for the codec, so Check may only fail on a typed Key error or the mismatch sentinel; if Params fails,
				// Check must fail with the same kind of error and never report a mere mismatch
				cerr, cpan := checkWatch(s, h, pw)
				if perr != nil && classOf(cerr, cpan) != 2 {
					rep.fail(map[string]interface{}{"scheme": s.name, "hash": h}, "Check rejects as malformed what Params/Salt reject", classNames[classOf(cerr, cpan)],
						"Params/Salt fail on a string that Check accepts or reports as a mere mismatch")
				}
				if perr == nil && cerr != nil && classOf(cerr, cpan) == 2 {
					if _, typed := keyErrDesc(cerr); !typed {
						rep.fail(map[string]interface{}{"scheme": s.name, "hash": h}, "a typed range error from Key (the string is well-formed for Params)", fmt.Sprint(cerr),
							"Params/Salt succeed on a string that Check rejects as malformed")
					}
				}
			}
			judge1 := func(h, p, kind string) {
				n++
				every := coqEvery
				if kind == "field_sweep" {
					every = 16 * coqEvery
				}
				err, pan := sink.add(s, h, p, n%every == 0 || kind == "canonical", kind)
				want, skip := expectClass(s, h, p)
				if skip {
					return
				}
				if got := classOf(err, pan); got != want {
					rep.fail(map[string]interface{}{"scheme": s.name, "hash": h, "password": p}, classNames[want], classNames[got]+": "+fmt.Sprint(err, pan),
						"verification classifies the string differently from the layout recogniser")
				}
			}
			judge := func(h, kind string) {
				judgeParams(h)
				for _, p := range []string{pw, pw + "x"} {
					judge1(h, p, kind)
				}
			}
			for _, h := range canon {
				judge(h, "canonical")
				rep.sample(map[string]interface{}{"scheme": s.name, "canonical": h})
				edits1(h, alpha, judge)
				// the last two digest symbols under the WHOLE alphabet: symbols that differ only in bits the decoder
				// drops must still be told apart (the digest is compared as text)
				for _, pos := range []int{len(h) - 1, len(h) - 2} {
					al := alphaCrypt
					if s.name == "argon2" {
						al = b64Std
					}
					for k := 0; k < len(al); k++ {
						if al[k] != h[pos] {
							judge(h[:pos]+string(al[k])+h[pos+1:], "digest_tail")
						}
					}
				}
				for _, e := range numericEdits(h) {
					judge(e, "numeric_overflow")
				}
				for _, e := range structuralEdits(h) {
					judge(e, "structural")
				}
				// multi-byte UTF-8 characters in place of two symbols (byte length unchanged), chosen so that the code point
				// truncated to a byte is the symbol it replaces: U+01xx and U+20xx for a symbol xx -- a check that walks the
				// text by characters instead of bytes takes them for the symbol
				for i := 0; i+1 < len(h); i++ {
					b := h[i]
					if b < 0x21 || b >= 0x80 {
						continue
					}
					two := string([]byte{0xC4 | b>>6, 0x80 | b&0x3F})
					judge1(h[:i]+two+h[i+2:], pw, "utf8_lowbyte")
					if i+2 < len(h) {
						three := string([]byte{0xE2, 0x80 | b>>6, 0x80 | b&0x3F})
						judge1(h[:i]+three+h[i+3:], pw, "utf8_lowbyte")
					}
				}
				// double faults: a cost / salt edit (often out of range) combined with a digest of another length, judged
				// with the right password, a wrong one and an over-long one -- a string that is wrong in two respects is
				// still malformed or out of range, never a mere mismatch
				{
					lo2, hi2 := digestSpan(s.name, h)
					longPw := strings.Repeat("L", 300)
					cnt := 0
					for _, e := range numericNeighbours(h[:lo2]) {
						if rc := recognise(s.name, e+h[lo2:hi2]); tooExpensive(s.name, rc) {
							continue
						}
						for _, d := range []string{h[lo2 : hi2-1], h[lo2:hi2] + "A", "", h[lo2:hi2]} {
							if cnt++; cnt > 400 {
								break
							}
							for _, p := range []string{pw, longPw} {
								if d == h[lo2:hi2] && p == pw {
									continue
								}
								judge1(e+d+h[hi2:], p, "double_fault")
							}
						}
					}
				}
				sweepOK := true
				for _, e := range fieldSweeps(h) {
					rc := recognise(s.name, e)
					if rc.skip || tooExpensive(s.name, rc) || !sweepOK {
						continue
					}
					if !rc.ok && !checkTimed(s, e, pw, 5*time.Second) {
						rep.fail(map[string]interface{}{"scheme": s.name, "hash": e, "password": pw}, "prompt rejection (the layout recogniser rejects the string)",
							"Check did not return within 5 s", "a malformed or out-of-range string is not rejected promptly (a cost was derived from a non-numeric field?)")
						sweepOK = false
						continue
					}
					judge1(e, pw, "field_sweep")
				}
				judge(h+"$", "trailing")
				judge(h+"$$", "trailing")
				judge(h+",", "trailing")
				judge("$x$"+h, "splice")
				judge(h+"$"+h, "splice")
				// surplus material that ends in a group delimiter (a pending group must not be dropped at the end of input)
				judge(h+"$garbage,", "splice")
				judge(h+"$a=1,b=2,", "splice")
				judge(h+"$$", "splice")
			}
			// all short strings (the scheme must reject them all)
			allStrings("$,_=a1", 3, func(t string) { judge(t, "short") })
			// the verdict on a string is a function of the string and the password, not of what was verified before:
			// a sample of the calls above is repeated in another order and must return what it returned the first time
			replayHistory(rep, s, r)
		}
	})
	must(cs.flush())
	must(cs2.flush())
	rep.CaseSets = []string{"C06_check", "C06_recog"}
	rep.Exhaustive = true
	rep.ExhaustiveSpaces = append(rep.ExhaustiveSpaces, fmt.Sprintf("per scheme: every string at edit distance 1 (alphabet %q) from %d canonical hash(es), all truncations, all strings of length <= 3 over {$ , _ = a 1}; x {right, wrong} password", alpha, nCanon))
	rep.Rule = "Check(hash, password) three-way class (nil / mismatch / other) vs the independent layout recogniser + re-derived digest (property oracle); full verdict (codec error projection or typed key error with its value) vs the Coq scheme model with the derivation supplied as a table obtained through Params+Key. Params/Salt: on recognised strings they return the recognised values; on the others success/failure is consistent with Check (never a mere mismatch for a string they reject). Every case is non-trivial; distinct by (scheme, hash, password)."
	return rep
}

type loggedCall struct{ scheme, h, pw, verdict string }

var callLog []loggedCall

// replayHistory repeats a sample of the scheme's logged Check calls in a pseudo-random order (each preceded by a
// different earlier call than the first time) and compares the full verdict with the first answer.
func replayHistory(rep *report, s *schemeOps, r *rng) {
	var mine []loggedCall
	for _, c := range callLog {
		if c.scheme == s.name {
			mine = append(mine, c)
		}
	}
	callLog = callLog[:0]
	if len(mine) == 0 {
		return
	}
	// all ordered pairs of a few well-formed strings of different shapes: b right after a must answer as b did before
	var wf []loggedCall
	shapes := map[string]bool{}
	for _, want := range []string{"VMatch", "VMismatch"} {
		for _, c := range mine {
			shape := fmt.Sprint(strings.Count(c.h, "$"), strings.Count(c.h, ","), strings.Count(c.h, "="), len(c.h), c.verdict)
			if c.verdict == want && !shapes[shape] && len(wf) < 14 {
				shapes[shape] = true
				wf = append(wf, c)
			}
		}
	}
	// predecessors: the well-formed strings and a few rejected ones (an error path must leave nothing behind either)
	pre := append([]loggedCall(nil), wf...)
	rejected := 0
	for _, c := range mine {
		if strings.HasPrefix(c.verdict, "(V") && rejected < 6 && len(c.h) > 12 && (rejected%2 == 0) == strings.HasPrefix(c.verdict, "(VCodec") {
			pre = append(pre, c)
			rejected++
		}
	}
	for _, a := range pre {
		for _, b := range wf {
			checkWatch(s, a.h, a.pw)
			err, pan := checkWatch(s, b.h, b.pw)
			if got := verdictDesc(err, pan); got != b.verdict {
				rep.fail(map[string]interface{}{"scheme": s.name, "hash": b.h, "password": b.pw, "verified_just_before": a.h, "password_before": a.pw},
					b.verdict+" (what this call returned earlier in the process, after other calls)", got, "the verdict on a string depends on which string was verified before it")
			}
			rep.bump("history_pairs")
		}
	}
	n := len(mine) / 4
	if n > 1500 {
		n = 1500
	}
	for i := 0; i < n; i++ {
		c := mine[r.intn(len(mine))]
		err, pan := checkWatch(s, c.h, c.pw)
		if got := verdictDesc(err, pan); got != c.verdict {
			rep.fail(map[string]interface{}{"scheme": s.name, "hash": c.h, "password": c.pw, "history": "the same call returned " + c.verdict + " earlier in this process"},
				c.verdict, got, "the verdict on a string depends on which strings were verified before it")
		}
		rep.bump("history_replays")
	}
}
