package main

import (
	"fmt"
	"os"
	"path/filepath"
	"reflect"
	"sort"
	"strings"

	crypt "github.com/sergeymakinen/go-crypt"
	"github.com/sergeymakinen/go-crypt/argon2"
	"github.com/sergeymakinen/go-crypt/bcrypt"
	"github.com/sergeymakinen/go-crypt/des"
	"github.com/sergeymakinen/go-crypt/desext"
	"github.com/sergeymakinen/go-crypt/md5"
	"github.com/sergeymakinen/go-crypt/nthash"
	"github.com/sergeymakinen/go-crypt/sha1"
	"github.com/sergeymakinen/go-crypt/sha256"
	"github.com/sergeymakinen/go-crypt/sha512"
	"github.com/sergeymakinen/go-crypt/sunmd5"
)

// writeIfChanged keeps make incremental.
func writeIfChanged(path, content string) error {
	if old, err := os.ReadFile(path); err == nil && string(old) == content {
		return nil
	}
	return os.WriteFile(path, []byte(content), 0o644)
}

var schemeChecks = []struct {
	name string
	fn   func(string, string) error
}{
	{"argon2", argon2.Check}, {"bcrypt", bcrypt.Check}, {"des", des.Check}, {"desext", desext.Check},
	{"md5", md5.Check}, {"nthash", nthash.Check}, {"sha1", sha1.Check}, {"sha256", sha256.Check},
	{"sha512", sha512.Check}, {"sunmd5", sunmd5.Check},
}

func genRegs() string {
	regs := crypt.VerifRegistered()
	var keys []string
	for k := range regs {
		keys = append(keys, k)
	}
	sort.Strings(keys)
	var items []string
	for _, k := range keys {
		pkg := "unknown"
		for _, sc := range schemeChecks {
			if reflect.ValueOf(sc.fn).Pointer() == reflect.ValueOf(regs[k]).Pointer() {
				pkg = sc.name
			}
		}
		items = append(items, fmt.Sprintf("  (%s, S_%s)", coqStr(k), pkg))
	}
	var sb strings.Builder
	sb.WriteString("(* generated from /repo on every run: crypt.RegisterHash calls reached from package init *)\n")
	sb.WriteString("Require Import GC.Base.Bytes GC.Dispatch.Schemes.\nOpen Scope Z_scope.\n")
	sb.WriteString("Definition registrations : list (bytes * scheme_id) := [\n" + strings.Join(items, ";\n") + "\n].\n")
	return sb.String()
}

func runGen(out, repo string) error {
	if err := os.MkdirAll(out, 0o755); err != nil {
		return err
	}
	files := map[string]string{
		"Gen_regs.v": genRegs(),
	}
	for k, v := range genExtra(repo) {
		files[k] = v
	}
	for name, content := range files {
		if err := writeIfChanged(filepath.Join(out, name), content); err != nil {
			return err
		}
	}
	return nil
}
