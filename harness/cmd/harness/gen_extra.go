package main

// genExtra collects the generators beyond the registration list.
func genExtra(repo string) map[string]string {
	return map[string]string{
		"Gen_consts.v":     genConsts(),
		"Gen_des_tables.v": genDesTables(),
		"Gen_layouts.v":    genLayouts(),
		"Gen_randsites.v":  genRandSites(repo),
		"Gen_check_ir.v":   genCheckIR(repo),
		"Gen_vars.v":       genVars(repo),
		"Gen_blamka.v":     genBlamka(repo),
		"Gen_index.v":      genIndex(repo),
		"Gen_sched.v":      genSched(repo),
		"Gen_des_round.v":  genDes(repo),
	}
}
