package main

// genExtra is extended by later generators (constants, tables, layouts, IR, ...).
func genExtra(repo string) map[string]string { return map[string]string{} }
