package main

import (
	"bytes"
	"fmt"
	"reflect"
	"strings"
	"time"

	"github.com/sergeymakinen/go-crypt/argon2"
	"github.com/sergeymakinen/go-crypt/bcrypt"
	"github.com/sergeymakinen/go-crypt/des"
	"github.com/sergeymakinen/go-crypt/desext"
	"github.com/sergeymakinen/go-crypt/md5"
	"github.com/sergeymakinen/go-crypt/nthash"
	"github.com/sergeymakinen/go-crypt/sha1"
	"github.com/sergeymakinen/go-crypt/sha256"
	"github.com/sergeymakinen/go-crypt/sha512"
	"github.com/sergeymakinen/go-crypt/sunmd5"
)

func init() { corrs["C14"] = corrC14 }

type keyArgs struct {
	tag      int
	pw, salt []byte
	nums     []int64
	hasOpts  bool
	prefix   string
	optNum   int64 // sunmd5: DisableSaltSeparator (0/1); argon2: version
}

// keyOf calls the scheme's Key and returns the key; a panic becomes a *panicErr (and is recorded).
func keyOf(a keyArgs) (key []byte, err error) {
	defer func() {
		if r := recover(); r != nil {
			key, err = nil, notePanic(fmt.Sprintf("Key of scheme tag %d", a.tag),
				fmt.Sprintf("password=%s salt=%q nums=%v opts=%v prefix=%q optnum=%d", quoteShort(string(a.pw)), a.salt, a.nums, a.hasOpts, a.prefix, a.optNum), r)
		}
	}()
	return keyOfRaw(a)
}

func keyOfRaw(a keyArgs) (key []byte, err error) {
	n := func(i int) int64 {
		if i < len(a.nums) {
			return a.nums[i]
		}
		return 0
	}
	switch a.tag {
	case 1:
		return md5.Key(a.pw, a.salt)
	case 5:
		return sha256.Key(a.pw, a.salt, uint32(n(0)))
	case 6:
		return sha512.Key(a.pw, a.salt, uint32(n(0)))
	case 7:
		return sha1.Key(a.pw, a.salt, uint32(n(0)))
	case 8:
		var o *sunmd5.CompatibilityOptions
		if a.hasOpts {
			o = &sunmd5.CompatibilityOptions{Prefix: a.prefix, DisableSaltSeparator: a.optNum != 0}
			before := *o
			defer func() { noteOpts("sunmd5.CompatibilityOptions", before, *o, a) }()
		}
		return sunmd5.Key(a.pw, a.salt, uint32(n(0)), o)
	case 9:
		return des.Key(a.pw, a.salt)
	case 10:
		return desext.Key(a.pw, a.salt, uint32(n(0)))
	case 2:
		var o *bcrypt.CompatibilityOptions
		if a.hasOpts {
			o = &bcrypt.CompatibilityOptions{Prefix: a.prefix}
			before := *o
			defer func() { noteOpts("bcrypt.CompatibilityOptions", before, *o, a) }()
		}
		return bcrypt.Key(a.pw, a.salt, uint8(n(0)), o)
	case 3:
		return nthash.Key(a.pw)
	case 4:
		var o *argon2.CompatibilityOptions
		if a.hasOpts {
			o = &argon2.CompatibilityOptions{Prefix: a.prefix, Version: int(a.optNum)}
			before := *o
			defer func() { noteOpts("argon2.CompatibilityOptions", before, *o, a) }()
		}
		return argon2.Key(a.pw, a.salt, uint32(n(0)), uint32(n(1)), uint8(n(2)), o)
	}
	return nil, nil
}

// optsChanged: every Key call of the harness that passes an options struct compares the struct after the call (also
// when the call panics or fails) with what was passed; C13 reports the differences.
var optsChanged []map[string]interface{}

func noteOpts(typ string, before, after interface{}, a keyArgs) {
	if !reflect.DeepEqual(before, after) && len(optsChanged) < 20 {
		optsChanged = append(optsChanged, map[string]interface{}{"options_type": typ, "passed": fmt.Sprintf("%+v", before), "after_the_call": fmt.Sprintf("%+v", after),
			"scheme_tag": a.tag, "password_len": len(a.pw), "nums": a.nums})
	}
}

// callKey invokes the scheme's Key with a deadline; a call still running after the deadline has passed
// every guard (it is deriving), which is all C14 needs to know.
func callKey(a keyArgs) (err error, timedOut bool, pan interface{}) {
	type res struct {
		err error
		pan interface{}
	}
	ch := make(chan res, 1)
	go func() {
		var r res
		defer func() {
			if p := recover(); p != nil {
				r.pan = p
			}
			ch <- r
		}()
		n := func(i int) int64 {
			if i < len(a.nums) {
				return a.nums[i]
			}
			return 0
		}
		switch a.tag {
		case 1:
			_, r.err = md5.Key(a.pw, a.salt)
		case 5:
			_, r.err = sha256.Key(a.pw, a.salt, uint32(n(0)))
		case 6:
			_, r.err = sha512.Key(a.pw, a.salt, uint32(n(0)))
		case 7:
			_, r.err = sha1.Key(a.pw, a.salt, uint32(n(0)))
		case 8:
			var o *sunmd5.CompatibilityOptions
			if a.hasOpts {
				o = &sunmd5.CompatibilityOptions{Prefix: a.prefix, DisableSaltSeparator: a.optNum != 0}
			}
			_, r.err = sunmd5.Key(a.pw, a.salt, uint32(n(0)), o)
		case 9:
			_, r.err = des.Key(a.pw, a.salt)
		case 10:
			_, r.err = desext.Key(a.pw, a.salt, uint32(n(0)))
		case 2:
			var o *bcrypt.CompatibilityOptions
			if a.hasOpts {
				o = &bcrypt.CompatibilityOptions{Prefix: a.prefix}
			}
			_, r.err = bcrypt.Key(a.pw, a.salt, uint8(n(0)), o)
		case 3:
			_, r.err = nthash.Key(a.pw)
		case 4:
			var o *argon2.CompatibilityOptions
			if a.hasOpts {
				o = &argon2.CompatibilityOptions{Prefix: a.prefix, Version: int(a.optNum)}
			}
			_, r.err = argon2.Key(a.pw, a.salt, uint32(n(0)), uint32(n(1)), uint8(n(2)), o)
		}
	}()
	select {
	case r := <-ch:
		return r.err, false, r.pan
	case <-time.After(400 * time.Millisecond):
		return nil, true, nil
	}
}

// refGuard is the documented guard table written against the exported constants (the property's oracle):
// it returns the Coq rendering of the expected typed error, or "" when the arguments are in the domain.
func refGuard(a keyArgs) string {
	firstBad := func(s []byte, alpha string) int {
		for _, c := range s {
			if strings.IndexByte(alpha, c) < 0 {
				return int(c)
			}
		}
		return -1
	}
	n := func(i int) int64 {
		if i < len(a.nums) {
			return a.nums[i]
		}
		return 0
	}
	saltLen := func(ok bool) string {
		if !ok {
			return fmt.Sprintf("(KInvalidSaltLength %d)", len(a.salt))
		}
		return ""
	}
	saltChars := func(alpha string) string {
		if c := firstBad(a.salt, alpha); c >= 0 {
			return fmt.Sprintf("(KInvalidSalt %d)", c)
		}
		return ""
	}
	first := func(xs ...string) string {
		for _, x := range xs {
			if x != "" {
				return x
			}
		}
		return ""
	}
	cond := func(ok bool, e string) string {
		if ok {
			return ""
		}
		return e
	}
	switch a.tag {
	case 1:
		return first(saltLen(len(a.salt) <= md5.MaxSaltLength), saltChars(alphaCrypt))
	case 5:
		return first(saltLen(len(a.salt) <= sha256.MaxSaltLength), saltChars(alphaCrypt),
			cond(n(0) >= sha256.MinRounds && n(0) <= sha256.MaxRounds, fmt.Sprintf("(KInvalidRounds %d)", n(0))))
	case 6:
		return first(saltLen(len(a.salt) <= sha512.MaxSaltLength), saltChars(alphaCrypt),
			cond(n(0) >= sha512.MinRounds && n(0) <= sha512.MaxRounds, fmt.Sprintf("(KInvalidRounds %d)", n(0))))
	case 7:
		r := n(0)
		if r == sha1.RandomRounds {
			r = 1 // any value the random draw may take is >= MinRounds (C15)
		}
		return first(saltLen(len(a.salt) <= sha1.MaxSaltLength), saltChars(alphaCrypt),
			cond(r >= sha1.MinRounds, fmt.Sprintf("(KInvalidRounds %d)", r)))
	case 8:
		return first(cond(len(a.pw) <= sunmd5.MaxPasswordLength, fmt.Sprintf("(KInvalidPasswordLength %d)", len(a.pw))),
			saltLen(len(a.salt) <= sunmd5.MaxSaltLength), saltChars(alphaCrypt),
			cond(n(0) <= sunmd5.MaxRounds, fmt.Sprintf("(KInvalidRounds %d)", n(0))),
			cond(!a.hasOpts || a.prefix == sunmd5.PrefixNonZeroRounds || a.prefix == sunmd5.PrefixZeroRounds, "(KUnsupportedPrefix "+coqStr(a.prefix)+")"))
	case 9:
		return first(cond(len(a.pw) <= des.MaxPasswordLength, fmt.Sprintf("(KInvalidPasswordLength %d)", len(a.pw))),
			saltLen(len(a.salt) == des.SaltLength), saltChars(alphaCrypt))
	case 10:
		return first(saltLen(len(a.salt) == desext.SaltLength), saltChars(alphaCrypt),
			cond(n(0) >= desext.MinRounds && n(0) <= desext.MaxRounds, fmt.Sprintf("(KInvalidRounds %d)", n(0))))
	case 2:
		return first(cond(!a.hasOpts || a.prefix == bcrypt.Prefix2 || a.prefix == bcrypt.Prefix2a || a.prefix == bcrypt.Prefix2b, "(KUnsupportedPrefix "+coqStr(a.prefix)+")"),
			saltLen(len(a.salt) == bcrypt.SaltLength), saltChars(alphaCrypt),
			cond(n(0) >= bcrypt.MinCost && n(0) <= bcrypt.MaxCost, fmt.Sprintf("(KInvalidCost %d)", n(0))),
			cond(!(a.hasOpts && a.prefix == bcrypt.Prefix2 && len(a.pw) == 0), "KOther"))
	case 3:
		return cond(len(a.pw)%2 == 0 && len(a.pw) <= nthash.MaxPasswordLength, fmt.Sprintf("(KInvalidPasswordLength %d)", len(a.pw)))
	case 4:
		return first(cond(!a.hasOpts || a.prefix == argon2.Prefix2d || a.prefix == argon2.Prefix2i || a.prefix == argon2.Prefix2id, "(KUnsupportedPrefix "+coqStr(a.prefix)+")"),
			cond(!a.hasOpts || a.optNum == argon2.Version10 || a.optNum == argon2.Version13, "(KUnsupportedVersion "+coqZ(a.optNum)+")"),
			saltLen(len(a.salt) >= argon2.MinSaltLength), saltChars(b64Std),
			cond(n(0) >= argon2.MinMemory, fmt.Sprintf("(KInvalidMemory %d)", n(0))),
			cond(n(1) >= argon2.MinTime, fmt.Sprintf("(KInvalidTime %d)", n(1))),
			cond(n(2) >= argon2.MinThreads, fmt.Sprintf("(KInvalidThreads %d)", n(2))))
	}
	return ""
}

// expensive reports in-domain arguments whose derivation would not be cheap; those are not executed.
func expensive(a keyArgs) bool {
	n := func(i int) int64 {
		if i < len(a.nums) {
			return a.nums[i]
		}
		return 0
	}
	switch a.tag {
	case 5, 6:
		return n(0) > 20000
	case 7:
		return n(0) > 20000
	case 8:
		return n(0) > 3000
	case 10:
		return n(0) > 3000
	case 2:
		return n(0) > 6
	case 4:
		return n(0) > 4096 || n(1) > 4
	}
	return false
}

func corrC14(outDir string, seed uint64, tier string, replay string) *report {
	rep := newReport("C14", seed, tier)
	r := newRng(seed)
	cs := newCaseSet(outDir, "C14_key", []string{"GC.Schemes.Keys", "GC.Schemes.KeyCases"},
		"Z * list bytes * list Z * option (bytes * Z) * option kerr", "ok_key", 4000)
	slow := 0
	abandoned := 0
	try := func(a keyArgs, kind string) {
		want := refGuard(a)
		obs := "None"
		if want == "" && expensive(a) {
			// in the domain and expensive.  When the derivation needs time but little memory (every scheme except Argon2
			// with a large memory cost) the call is started all the same: still running after 400 ms means that it passed
			// every guard, which is all C14 asks; the abandoned goroutine ends with the process.  At most a handful per
			// run (the upper ends of the exported ranges), the rest is not executed (the theorem covers it).
			if (a.tag == 4 && (len(a.nums) < 1 || a.nums[0] > 65536)) || abandoned >= 12 || kind != "numeric_bound" {
				rep.bump("not_executed_expensive")
				return
			}
			abandoned++
			rep.bump("expensive_started_and_abandoned")
		}
		t0 := time.Now()
		err, timedOut, pan := callKey(a)
		el := time.Since(t0)
		if pan != nil {
			rep.fail(fmt.Sprintf("%+v", a), "typed error or key", fmt.Sprint("panic: ", pan), "Key panics")
			return
		}
		got := ""
		if !timedOut && err != nil {
			if k, ok := keyErrDesc(err); ok {
				got = k
			} else if strings.HasPrefix(err.Error(), "failed to create blowfish cipher") {
				got = "KOther"
			} else {
				got = "(untyped " + err.Error() + ")"
			}
			obs = "(Some " + got + ")"
			// a loaded machine can stall any call: a slow rejection is measured again (up to three times) and only the
			// fastest run counts
			for again := 0; again < 3 && el > 50*time.Millisecond; again++ {
				t1 := time.Now()
				callKey(a)
				if d := time.Since(t1); d < el {
					el = d
				}
			}
			if el > 50*time.Millisecond {
				slow++
				rep.fail(fmt.Sprintf("scheme tag %d, password of %d bytes, salt %q, numbers %v, options %v/%q/%d", a.tag, len(a.pw), a.salt, a.nums, a.hasOpts, a.prefix, a.optNum), "prompt rejection", el.String(), "rejection is not prompt (something was derived first)")
			}
		}
		if got != want {
			w := want
			if w == "" {
				w = "accepted"
			}
			g := got
			if g == "" {
				g = "accepted"
			}
			rep.fail(map[string]interface{}{"scheme_tag": a.tag, "password_len": len(a.pw), "salt": string(a.salt), "nums": a.nums, "opts": a.hasOpts, "prefix": a.prefix, "optnum": a.optNum}, w, g, "acceptance or typed error differs from the exported bounds (kind: "+kind+")")
		}
		var bl, nl []string
		if a.tag == 3 {
			bl = []string{coqBytes(a.pw)}
		} else {
			bl = []string{coqBytes(a.pw), coqBytes(a.salt)}
		}
		for _, x := range a.nums {
			nl = append(nl, coqZ(x))
		}
		o := "None"
		if a.hasOpts {
			o = fmt.Sprintf("(Some (%s, %s))", coqStr(a.prefix), coqZ(a.optNum))
		}
		if strings.HasPrefix(got, "(untyped") {
			obs = "(Some KMissing)"
		}
		if len(a.pw) <= 2000 { // very long passwords: direct oracle only (a list literal of 256 K bytes overflows coqc's stack)
			cs.add(fmt.Sprintf("(%d, %s, %s, %s, %s)", a.tag, coqList(bl), coqList(nl), o, obs), map[string]interface{}{"args": fmt.Sprintf("%+v", a), "kind": kind})
		}
		rep.count(fmt.Sprintf("%+v", a), true)
		rep.bump(kind)
		if want != "" && len(rep.Samples) < 8 && r.intn(50) == 0 {
			rep.sample(map[string]interface{}{"scheme_tag": a.tag, "salt": string(a.salt), "nums": a.nums, "expected": want})
		}
	}
	type sch struct {
		tag      int
		alpha    string
		okSalt   int     // a valid salt length
		maxSalt  int     // lengths 0..maxSalt+3 are tried
		nums     []int64 // cheap valid numeric arguments
		pw       string
		prefixes []string
		optNums  []int64
	}
	schs := []sch{
		{1, alphaCrypt, 8, 8, nil, "password", nil, nil},
		{5, alphaCrypt, 16, 16, []int64{1000}, "password", nil, nil},
		{6, alphaCrypt, 16, 16, []int64{1000}, "password", nil, nil},
		{7, alphaCrypt, 8, 64, []int64{3}, "password", nil, nil},
		{8, alphaCrypt, 8, 8, []int64{0}, "password", []string{"$md5,", "$md5$", "$md5", "", "$1$", "$md5,x"}, []int64{0, 1}},
		{9, alphaCrypt, 2, 2, nil, "password", nil, nil},
		{10, alphaCrypt, 4, 4, []int64{3}, "password", nil, nil},
		{2, alphaCrypt, 22, 22, []int64{4}, "password", []string{"$2$", "$2a$", "$2b$", "$2x$", "", "2b", "$2b"}, []int64{0}},
		{3, "", 0, 0, nil, "pass", nil, nil},
		{4, b64Std, 11, 14, []int64{8, 1, 1}, "password", []string{"$argon2d$", "$argon2i$", "$argon2id$", "$argon2$", "", "argon2id"}, []int64{0x10, 0x13, 0, 0x12, 19, 16, -1}},
	}
	for _, s := range schs {
		base := func() keyArgs {
			a := keyArgs{tag: s.tag, pw: []byte(s.pw), salt: []byte(strings.Repeat(string(s.alpha + "a")[0:1], s.okSalt)), nums: append([]int64(nil), s.nums...)}
			if s.tag == 3 {
				a.salt = nil
			}
			return a
		}
		// salt lengths 0..max+3
		if s.tag != 3 {
			for l := 0; l <= s.maxSalt+3; l++ {
				a := base()
				a.salt = []byte(r.str(l, s.alpha))
				try(a, "salt_length")
			}
			// each salt position x all 256 bytes
			for pos := 0; pos < s.okSalt; pos++ {
				for b := 0; b < 256; b++ {
					a := base()
					a.salt = []byte(r.str(s.okSalt, s.alpha))
					a.salt[pos] = byte(b)
					try(a, "salt_byte")
				}
			}
		}
		// a two-byte UTF-8 character whose code point, cut to a byte, is an alphabet symbol, in place of two salt symbols
		if s.tag != 3 && s.okSalt >= 2 {
			for pos := 0; pos+1 < s.okSalt; pos++ {
				for _, b := range []byte{'a', 'A', '.', '/', '0', 'z'} {
					a := base()
					a.salt = []byte(r.str(s.okSalt, s.alpha))
					a.salt[pos], a.salt[pos+1] = 0xC4|b>>6, 0x80|b&0x3F
					try(a, "salt_utf8_lowbyte")
				}
			}
		}
		// numeric arguments at the bounds
		bounds := map[int][][]int64{
			5:  {{999}, {1000}, {999999999}, {1000000000}, {0}, {4294967295}},
			6:  {{999}, {1000}, {999999999}, {1000000000}, {0}, {4294967295}},
			7:  {{0}, {1}, {2}, {4294967294}},
			8:  {{0}, {1}, {4294963199}, {4294963200}, {4294967295}},
			10: {{0}, {1}, {16777215}, {16777216}, {4294967295}},
			2:  {{3}, {4}, {5}, {31}, {32}, {0}, {255}},
			4:  {{7, 1, 1}, {8, 1, 1}, {8, 0, 1}, {8, 1, 0}, {0, 0, 0}, {9, 2, 2}, {4294967295, 1, 1}, {8, 4294967295, 1}, {16, 1, 255}},
		}
		for _, ns := range bounds[s.tag] {
			a := base()
			a.nums = ns
			try(a, "numeric_bound")
			// the same numbers with a 256 KiB password: a rejection must not depend on the password's length (nothing is
			// derived, not even the password's digest); in-domain numbers are skipped here
			if refGuard(a) != "" && s.tag != 3 && s.tag != 9 && s.tag != 8 {
				al := base()
				al.nums = ns
				al.pw = bytes.Repeat([]byte("long password "), 18725)
				if refGuard(al) != "" {
					try(al, "numeric_bound_long_password")
				}
			}
		}
		for i := 0; i < 40 && len(s.nums) > 0; i++ {
			a := base()
			for k := range a.nums {
				switch r.intn(3) {
				case 0:
					a.nums[k] = int64(r.intn(40))
				case 1:
					a.nums[k] = int64(uint32(r.u64()))
				}
			}
			if s.tag == 2 || (s.tag == 4) {
				for k := range a.nums {
					if s.tag == 2 || k == 2 {
						a.nums[k] &= 0xff
					}
				}
			}
			try(a, "numeric_random")
		}
		// password lengths around the limits
		for _, l := range []int{0, 1, 7, 8, 9, 71, 72, 73, 127, 128, 129, 253, 254, 255, 256, 257, 258, 300} {
			a := base()
			a.pw = []byte(r.str(l, "abcXYZ123\xc3\xa9"))
			try(a, "password_length")
			if len(s.prefixes) > 0 {
				a.hasOpts, a.prefix, a.optNum = true, s.prefixes[0], s.optNums[0]
				if s.tag == 4 {
					a.optNum = 0x13
				}
				try(a, "password_length")
			}
		}
		// password lengths again with NUL bytes (tail, head, all): a length limit counts bytes, whatever they are
		for _, l := range []int{1, 8, 9, 10, 16, 72, 73, 255, 256, 257, 300} {
			for _, shape := range []int{0, 1, 2, 3} {
				a := base()
				b := []byte(r.str(l, "abcXYZ123"))
				switch shape {
				case 0: // NUL tail from half the length
					for i := l / 2; i < l; i++ {
						b[i] = 0
					}
				case 1: // only the last byte
					b[l-1] = 0
				case 2: // NUL head
					b[0] = 0
				case 3:
					for i := range b {
						b[i] = 0
					}
				}
				a.pw = b
				try(a, "password_nul")
			}
		}
		// option numbers congruent to the supported ones modulo 2^8, 2^16, 2^32 (a narrowing conversion in the lookup
		// must not make them acceptable)
		if len(s.prefixes) > 0 && s.tag == 4 {
			for _, v := range []int64{0x10, 0x13} {
				for _, d := range []int64{256, -256, 65536, 1 << 32, -(1 << 32), 256 * 3} {
					a := base()
					a.hasOpts, a.prefix, a.optNum = true, s.prefixes[0], v+d
					try(a, "options_congruent")
				}
			}
		}
		// options
		for _, p := range s.prefixes {
			for _, o := range s.optNums {
				a := base()
				a.hasOpts, a.prefix, a.optNum = true, p, o
				try(a, "options")
			}
		}
		// combinations of several violations: the first in documented order must win
		for i := 0; i < 60; i++ {
			a := base()
			if r.intn(2) == 0 && s.tag != 3 {
				a.salt = []byte(r.str(r.intn(s.maxSalt+4), s.alpha+"@!"))
			}
			if r.intn(2) == 0 {
				a.pw = []byte(r.str(r.intn(300), "ab"))
			}
			if len(a.nums) > 0 && r.intn(2) == 0 {
				a.nums[0] = int64(r.intn(3))
			}
			if len(s.prefixes) > 0 && r.intn(2) == 0 {
				a.hasOpts, a.prefix, a.optNum = true, s.prefixes[r.intn(len(s.prefixes))], s.optNums[r.intn(len(s.optNums))]
			}
			try(a, "combined")
		}
	}
	// NT hash: NewHash's limit counts UTF-16 code units (two bytes each), whatever the UTF-8 length of the password
	for _, n := range []int{1, 63, 64, 65, 127, 128, 129, 130, 200} {
		for _, unit := range []struct {
			s     string
			units int
		}{{"a", 1}, {"é", 1}, {"€", 1}, {"\U0001F600", 2}, {"\uFFFF", 1}} {
			pw := strings.Repeat(unit.s, n)
			units := unit.units * n
			h, err := func() (h string, err error) {
				defer func() {
					if x := recover(); x != nil {
						err = notePanic("nthash.NewHash", "password="+quoteShort(pw), x)
					}
				}()
				return nthash.NewHash(pw)
			}()
			wantOK := 2*units <= nthash.MaxPasswordLength
			if (err == nil) != wantOK {
				rep.fail(map[string]interface{}{"password": fmt.Sprintf("%d x %q", n, unit.s), "utf16_units": units, "utf8_bytes": len(pw)},
					map[bool]string{true: "accepted", false: fmt.Sprintf("InvalidPasswordLengthError(%d)", 2*units)}[wantOK], fmt.Sprint(h, " ", err),
					"nthash.NewHash does not accept exactly the passwords of at most MaxPasswordLength/2 UTF-16 units")
			} else if err != nil {
				if e, ok := err.(nthash.InvalidPasswordLengthError); !ok || int(e) != 2*units {
					rep.fail(map[string]interface{}{"password": fmt.Sprintf("%d x %q", n, unit.s), "utf16_units": units}, fmt.Sprintf("InvalidPasswordLengthError(%d)", 2*units), fmt.Sprintf("%T %v", err, err),
						"nthash.NewHash rejects with another error value than the offending length")
				}
			} else if cerr := nthash.Check(h, pw); cerr != nil {
				rep.fail(map[string]interface{}{"password": fmt.Sprintf("%d x %q", n, unit.s), "hash": h}, "nil", fmt.Sprint(cerr), "nthash.Check rejects the hash NewHash made from an in-domain password")
			}
			rep.count(fmt.Sprint("ntdomain", n, unit.s), true)
			rep.bump("nthash_newhash_domain")
		}
	}
	rep.Distribution["slow_rejections"] = slow
	must(cs.flush())
	rep.CaseSets = []string{"C14_key"}
	rep.Exhaustive = true
	rep.ExhaustiveSpaces = append(rep.ExhaustiveSpaces, "per scheme: salt lengths 0..max+3; every salt position x all 256 byte values; cost arguments at min-1, min, max, max+1; password lengths around every limit; all option combinations from a pool")
	rep.Rule = "each argument tuple: Key's outcome (accepted, or typed error with its value) vs the documented guard table over the exported constants (property oracle, first failing guard in documented order, rejection under 50 ms) and vs the Coq model instantiated with the generated limits. In-domain arguments whose derivation is expensive are not executed. Every case non-trivial; distinct by argument tuple."
	return rep
}
