package main

import (
	"errors"
	"fmt"
	"strings"
	"sync"
	"sync/atomic"
	"time"

	crypt "github.com/sergeymakinen/go-crypt"
)

func init() { corrs["C07"] = corrC07 }

// refPrefix is the reference written from the property text (not from crypt.go):
// "$" through the next "$" or "," inclusive; "_" for a leading underscore; "" otherwise;
// undefined (ok=false) when the "$" identifier is empty or unterminated.
func refPrefix(h string) (string, bool) {
	if len(h) > 0 && h[0] == '$' {
		for k := 1; k < len(h); k++ {
			if h[k] == '$' || h[k] == ',' {
				if k == 1 {
					return "", false
				}
				return h[:k+1], true
			}
		}
		return "", false
	}
	if len(h) > 0 && h[0] == '_' {
		return "_", true
	}
	return "", true
}

type c07call struct {
	id       int
	hash, pw string
}

func corrC07(out string, seed uint64, tier string, replay string) *report {
	rep := newReport("C07", seed, tier)
	r := newRng(seed)
	saved := crypt.VerifRegistered()
	defer func() {
		crypt.VerifResetRegistry()
		for k, v := range saved {
			crypt.RegisterHash(k, v)
		}
	}()

	var calls []c07call
	errs := map[int]error{}
	mkCount := 0
	// what a handler returns must come back unchanged (the very same value): nil, a private error, the package's
	// own sentinels, errors that wrap the sentinels, and an error whose Is method claims to be anything
	mk := func(id int) func(string, string) error {
		var e error
		mkCount++
		switch mkCount % 7 {
		case 0, 1:
			e = errors.New(fmt.Sprintf("handler-%d", id))
		case 2:
			e = nil
		case 3:
			e = crypt.ErrPasswordMismatch
		case 4:
			e = fmt.Errorf("handler-%d: %w", id, crypt.ErrPasswordMismatch)
		case 5:
			e = fmt.Errorf("handler-%d: %w", id, crypt.ErrHash)
		case 6:
			e = &isAnything{id}
		}
		errs[id] = e
		return func(h, p string) error {
			calls = append(calls, c07call{id, h, p})
			return e
		}
	}

	// ---- part 3 (run first: it needs no long history): registration concurrent with dispatch ----
	// one goroutine keeps checking hashes of prefix P (and, half of the time, of another prefix); the main goroutine
	// registers handler i for P and, once RegisterHash has returned, checks a hash of P itself: that call happens
	// after the registration, so it must reach handler i, whatever the other goroutine was doing in between
	{
		crypt.VerifResetRegistry()
		rounds := 4000
		if tier == "thorough" {
			rounds = 60000
		}
		var lastCalled int64 = -1
		mkc := func(id int64) func(string, string) error {
			return func(h, p string) error {
				if p == "main" {
					atomic.StoreInt64(&lastCalled, id)
				}
				return nil
			}
		}
		crypt.RegisterHash("$q$", mkc(-2))
		crypt.RegisterHash("$p$", mkc(-3))
		stop := make(chan struct{})
		done := make(chan struct{})
		go func() {
			defer close(done)
			k := 0
			for {
				select {
				case <-stop:
					return
				default:
				}
				k++
				crypt.Check("$p$x", "other")
				if k%2 == 0 {
					crypt.Check("$q$x", "other")
				}
			}
		}()
		stale := 0
		var first map[string]interface{}
		for i := 0; i < rounds; i++ {
			crypt.RegisterHash("$p$", mkc(int64(i)))
			atomic.StoreInt64(&lastCalled, -1)
			err := crypt.Check("$p$x", "main")
			if got := atomic.LoadInt64(&lastCalled); got != int64(i) || err != nil {
				stale++
				if first == nil {
					first = map[string]interface{}{"round": i, "handler_reached": got, "error": fmt.Sprint(err)}
				}
			}
			rep.count(fmt.Sprint("conc", i), true)
		}
		close(stop)
		<-done
		rep.Distribution["concurrent_registration_rounds"] = rounds
		if stale > 0 {
			rep.fail(map[string]interface{}{"history": "goroutine B: Check($p$x) / Check($q$x) in a loop; goroutine A, per round i: RegisterHash($p$, handler i); Check($p$x)", "first_bad_round": first, "bad_rounds": stale},
				"A's Check reaches handler i (its own registration completed before the call)", fmt.Sprintf("%d of %d rounds reached an older handler", stale, rounds),
				"a Check issued after RegisterHash returned is routed to a handler registered earlier (routing to the latest registration fails under concurrent dispatch)")
		}
	}
	// ---- part 4 (run first): concurrent registrations of different prefixes; concurrent dispatch calls each reach the handler ----
	{
		crypt.VerifResetRegistry()
		G, each := 8, 150
		if tier == "thorough" {
			G, each = 16, 400
		}
		var hits sync.Map
		var wg sync.WaitGroup
		// a registry that already holds a few thousand entries (copying or rehashing it takes time: the window in which
		// a concurrent registration can be lost is wide)
		for k := 0; k < 3000; k++ {
			crypt.RegisterHash(fmt.Sprintf("$pre%d$", k), func(h, p string) error { return nil })
		}
		for g := 0; g < G; g++ {
			wg.Add(1)
			go func(g int) {
				defer wg.Done()
				for k := 0; k < each; k++ {
					pre := fmt.Sprintf("$g%dk%d$", g, k)
					crypt.RegisterHash(pre, func(h, p string) error { hits.Store(h, true); return nil })
				}
			}(g)
		}
		wg.Wait()
		lost := 0
		var firstLost string
		for g := 0; g < G; g++ {
			for k := 0; k < each; k++ {
				h := fmt.Sprintf("$g%dk%d$x", g, k)
				err := crypt.Check(h, "p")
				if _, ok := hits.Load(h); err != nil || !ok {
					lost++
					if firstLost == "" {
						firstLost = h + " -> " + fmt.Sprint(err)
					}
				}
			}
		}
		if lost > 0 {
			rep.fail(map[string]interface{}{"history": fmt.Sprintf("%d goroutines register %d distinct prefixes each, concurrently; afterwards every prefix is checked", G, each), "first": firstLost},
				"every registered prefix is routed to its handler", fmt.Sprintf("%d of %d registrations are not in effect", lost, G*each), "a registration made concurrently with others is lost")
		}
		rep.count("concurrent registrations", true)
		// every dispatch call is passed through to the handler with its own arguments, also when calls overlap
		// (handlers that take a while, identical calls, and calls whose hash+'$'+password texts coincide)
		crypt.VerifResetRegistry()
		var mu sync.Mutex
		got := map[string]int{}
		crypt.RegisterHash("$x$", func(h, p string) error {
			time.Sleep(200 * time.Microsecond)
			mu.Lock()
			got[h+"\x00"+p]++
			mu.Unlock()
			return fmt.Errorf("r:%s:%s", h, p)
		})
		pairs := [][2]string{{"$x$salt$sum", "pass$word"}, {"$x$salt$sum$pass", "word"}, {"$x$salt$sum", "pass$word"}, {"$x$a", "b"}, {"$x$a", "b"}, {"$x$", ""}, {"$x$a$", "b"}, {"$x$a", "$b"}}
		want := map[string]int{}
		wrong := 0
		var firstWrong string
		var wg2 sync.WaitGroup
		start := make(chan struct{})
		reps := 40
		for rpt := 0; rpt < reps; rpt++ {
			for _, pr := range pairs {
				want[pr[0]+"\x00"+pr[1]]++
				wg2.Add(1)
				go func(h, p string) {
					defer wg2.Done()
					<-start
					err := crypt.Check(h, p)
					if err == nil || err.Error() != "r:"+h+":"+p {
						mu.Lock()
						wrong++
						if firstWrong == "" {
							firstWrong = fmt.Sprintf("Check(%q, %q) returned %v", h, p, err)
						}
						mu.Unlock()
					}
				}(pr[0], pr[1])
			}
		}
		close(start)
		wg2.Wait()
		mu.Lock()
		for k, n := range want {
			if got[k] != n && firstWrong == "" {
				firstWrong = fmt.Sprintf("handler was called %d times with %q, %d calls were made", got[k], strings.Replace(k, "\x00", " / ", 1), n)
				wrong++
			}
		}
		mu.Unlock()
		if wrong > 0 {
			rep.fail(map[string]interface{}{"history": fmt.Sprintf("%d overlapping Check calls on one prefix (identical calls, and calls whose hash+$+password coincide)", reps*len(pairs)), "first": firstWrong},
				"every call invokes the handler once with its own hash and password and returns that invocation's result", fmt.Sprintf("%d deviations", wrong),
				"overlapping dispatch calls are merged, dropped or answered with another call's result")
		}
		rep.count("overlapping dispatch", true)
	}
	// ---- re-entrancy: a handler may itself register a handler or dispatch another hash (nothing in the contract forbids
	// it); neither may block, also while another goroutine is registering an unrelated prefix ----
	{
		crypt.VerifResetRegistry()
		inner := 0
		crypt.RegisterHash("$in$", func(h, p string) error { inner++; return nil })
		crypt.RegisterHash("$lazy$", func(h, p string) error {
			crypt.RegisterHash("$made-by-handler$", func(h, p string) error { return nil })
			return crypt.Check("$in$"+h, p)
		})
		stopReg := make(chan struct{})
		regDone := make(chan struct{})
		go func() {
			defer close(regDone)
			for k := 0; ; k++ {
				select {
				case <-stopReg:
					return
				default:
				}
				crypt.RegisterHash(fmt.Sprintf("$other%d$", k%7), func(h, p string) error { return nil })
			}
		}()
		done := make(chan error, 1)
		go func() {
			var err error
			for k := 0; k < 200 && err == nil; k++ {
				err = crypt.Check("$lazy$x", "p")
			}
			if err == nil {
				err = crypt.Check("$made-by-handler$y", "p")
			}
			done <- err
		}()
		select {
		case err := <-done:
			if err != nil || inner != 200 {
				rep.fail(map[string]interface{}{"history": "handler of $lazy$ registers $made-by-handler$ and dispatches $in$...; 200 calls, then Check($made-by-handler$y)"}, "nil, inner handler reached 200 times", fmt.Sprint(err, " inner=", inner),
					"dispatch from inside a handler is not routed like any other dispatch")
			}
		case <-time.After(20 * time.Second):
			rep.fail(map[string]interface{}{"history": "a handler that calls RegisterHash and crypt.Check, while another goroutine registers unrelated prefixes"}, "the calls return", "no return within 20 s",
				"crypt.Check does not return when its handler registers or dispatches (re-entrant use deadlocks)")
		}
		close(stopReg)
		select {
		case <-regDone:
		case <-time.After(5 * time.Second):
		}
		rep.count("re-entrant dispatch", true)
	}
	// ---- part 1: the computed prefix of every string (all candidate prefixes registered) ----
	cs1 := newCaseSet(out, "C07_prefix", []string{"GC.Dispatch.Dispatch", "GC.Dispatch.DispatchCases"},
		"bytes * option bytes", "ok_prefix", 4000)
	maxLen := 6
	if tier == "thorough" {
		maxLen = 8
	}
	documented := []string{"$1$", "$2$", "$2a$", "$2b$", "$3$", "$5$", "$6$", "$sha1$", "$md5,", "$md5$", "$argon2d$", "$argon2i$", "$argon2id$", "_", ""}
	t0 := time.Now()
	budgetNoted := false
	probe := func(h string, exhaustive bool) {
		if time.Since(t0) > 240*time.Second {
			// (on the unchanged tree the whole run takes seconds) registry operations that slow down with the number of
			// registrations ever made would otherwise keep the search for a failing input from finishing
			if !budgetNoted {
				budgetNoted = true
				rep.Notes = append(rep.Notes, "prefix probes stopped after 240 s")
			}
			return
		}
		crypt.VerifResetRegistry()
		keys := map[string]int{}
		var keyList []string
		add := func(k string) {
			if _, ok := keys[k]; !ok {
				keys[k] = len(keyList)
				keyList = append(keyList, k)
				crypt.RegisterHash(k, mk(keys[k]))
			}
		}
		for k := 0; k <= len(h); k++ {
			// every prefix of a short string; of a long one the first 64 and those that end in a delimiter (registering
			// all 65536 prefixes of a long hash is quadratic work for nothing)
			if k <= 64 || (h[k-1] == '$' || h[k-1] == ',') && k < 2048 {
				add(h[:k])
			}
		}
		add("_")
		add("")
		calls = calls[:0]
		pw := "pw" + h
		err := crypt.Check(h, pw)
		var obs *string
		switch {
		case err == crypt.ErrHash && len(calls) == 0:
		case len(calls) == 1 && calls[0].hash == h && calls[0].pw == pw && err == errs[calls[0].id]:
			k := keyList[calls[0].id]
			obs = &k
		default:
			rep.fail(h, "one call with unchanged arguments and unchanged result, or ErrHash with no call", fmt.Sprint(calls, err), "dispatch protocol broken")
			return
		}
		want, ok := refPrefix(h)
		if (obs == nil) != !ok || (obs != nil && *obs != want) {
			o := "<ErrHash>"
			if obs != nil {
				o = *obs
			}
			w := "<ErrHash>"
			if ok {
				w = want
			}
			rep.fail(h, w, o, "prefix routed to differs from the documented prefix")
		}
		term := "(" + coqStr(h) + ", " + coqOpt(obs != nil, func() string {
			if obs != nil {
				return coqStr(*obs)
			}
			return ""
		}()) + ")"
		if len(h) <= 300 { // longer strings: direct oracle only (a list literal of thousands of bytes overflows coqc's stack)
			cs1.add(term, map[string]interface{}{"hash": h, "observed_prefix": obs})
		}
		rep.count("p:"+h, strings.ContainsAny(h, "$_,"))
		if len(h) > 2 {
			rep.sample(map[string]interface{}{"kind": "prefix", "hash": h, "observed_prefix": obs})
		}
	}
	allStrings("$,_ab", maxLen, func(s string) { probe(s, true) })
	rep.ExhaustiveSpaces = append(rep.ExhaustiveSpaces, fmt.Sprintf("all strings of length <= %d over {$ , _ a b}", maxLen))
	for _, d := range documented {
		for _, tail := range []string{"", "x", "x$y", "$", ",", "_", "a,b$c"} {
			probe(d+tail, false)
		}
	}
	// long hashes: whatever the length, the dispatcher looks at the prefix only
	for _, d := range documented {
		for _, n := range []int{64, 119, 120, 121, 127, 128, 129, 255, 256, 257, 1000, 4096, 65536} {
			probe(d+r.str(n, "ab./09$=,"), false)
		}
	}
	nr := 300
	if tier == "thorough" {
		nr = 20000
	}
	for i := 0; i < nr; i++ {
		n := r.intn(60)
		var s string
		if r.intn(2) == 0 {
			s = r.str(n, "$,_ab=./09")
		} else {
			s = string(r.bytes(n))
			if r.intn(2) == 0 {
				s = "$" + s
			}
		}
		probe(s, false)
	}
	must(cs1.flush())

	// ---- part 2: registration histories ----
	cs2 := newCaseSet(out, "C07_hist", []string{"GC.Dispatch.Dispatch", "GC.Dispatch.DispatchCases"},
		"(list (bytes * nat) * bytes * bytes) * (option nat * list (nat * bytes * bytes))", "ok_hist", 3000)
	prefixes := []string{"$a$", "$a,", "_", "", "$1$"}
	probes := []string{"$a$x", "$a,x", "$a", "$ab$", "_x", "x", "", "$1$s$h", "$$", "$,", "$a$", "_", "$b$q", "a$a$", "$a_$", "$_$"}
	maxHist := 3
	if tier == "thorough" {
		maxHist = 4
	}
	type reg struct {
		p  string
		id int
	}
	var hists [][]reg
	var rec func(cur []reg)
	rec = func(cur []reg) {
		cp := append([]reg(nil), cur...)
		hists = append(hists, cp)
		if len(cur) == maxHist {
			return
		}
		for _, p := range prefixes {
			rec(append(cur, reg{p, len(cur)}))
		}
	}
	rec(nil)
	rep.ExhaustiveSpaces = append(rep.ExhaustiveSpaces, fmt.Sprintf("all registration histories of length <= %d over %q x %d probe strings", maxHist, prefixes, len(probes)))
	runHist := func(hist []reg, h, pw string) {
		if time.Since(t0) > 300*time.Second {
			return
		}
		crypt.VerifResetRegistry()
		ref := map[string]int{}
		for _, g := range hist {
			crypt.RegisterHash(g.p, mk(g.id))
			ref[g.p] = g.id
		}
		calls = calls[:0]
		err := crypt.Check(h, pw)
		// direct oracle: map model
		want, ok := refPrefix(h)
		wantID, reg := ref[want]
		if ok && reg {
			if !(len(calls) == 1 && calls[0] == (c07call{wantID, h, pw}) && err == errs[wantID]) {
				rep.fail(map[string]interface{}{"history": hist, "hash": h}, fmt.Sprintf("handler %d called once, result passed through", wantID), fmt.Sprint(calls, err), "routing differs from the latest registration")
			}
		} else if !(len(calls) == 0 && err == crypt.ErrHash) {
			rep.fail(map[string]interface{}{"history": hist, "hash": h}, "ErrHash without any call", fmt.Sprint(calls, err), "unknown prefix not rejected")
		}
		// observation for the model
		var hs []string
		for _, g := range hist {
			hs = append(hs, "("+coqStr(g.p)+", "+coqNat(g.id)+")")
		}
		var cl []string
		for _, c := range calls {
			cl = append(cl, "("+coqNat(c.id)+", "+coqStr(c.hash)+", "+coqStr(c.pw)+")")
		}
		verdict := "(Some 999999%nat)"
		switch {
		case len(calls) == 0 && err == crypt.ErrHash:
			verdict = "None"
		case len(calls) >= 1 && err == errs[calls[len(calls)-1].id]:
			verdict = "(Some " + coqNat(calls[len(calls)-1].id) + ")"
		}
		cs2.add("(("+coqList(hs)+", "+coqStr(h)+", "+coqStr(pw)+"), ("+verdict+", "+coqList(cl)+"))",
			map[string]interface{}{"history": hist, "hash": h, "pw": pw})
		key := fmt.Sprint(hist, h)
		rep.count("h:"+key, len(hist) > 0)
		if len(hist) == 3 {
			rep.sample(map[string]interface{}{"kind": "history", "history": fmt.Sprint(hist), "hash": h, "calls": fmt.Sprint(calls)})
		}
	}
	step := 1
	if tier != "thorough" {
		step = 1
	}
	for i := 0; i < len(hists); i += step {
		for _, h := range probes {
			runHist(hists[i], h, "p"+h)
		}
	}
	// random longer histories incl. re-registration of built-in prefixes
	nh := 200
	if tier == "thorough" {
		nh = 5000
	}
	for i := 0; i < nh; i++ {
		n := r.intn(12)
		if i%4 == 0 {
			n = 13 + r.intn(40) // long batches of registrations before the first dispatch, prefixes registered repeatedly
		}
		var hist []reg
		for j := 0; j < n; j++ {
			var p string
			if r.intn(3) == 0 {
				p = documented[r.intn(len(documented))]
			} else {
				p = prefixes[r.intn(len(prefixes))]
			}
			hist = append(hist, reg{p, j})
		}
		var h string
		switch r.intn(3) {
		case 0:
			h = documented[r.intn(len(documented))] + r.str(r.intn(8), "ab$,_")
		case 1:
			h = probes[r.intn(len(probes))]
		default:
			h = r.str(r.intn(10), "$,_ab")
		}
		runHist(hist, h, r.str(r.intn(5), "pq$"))
	}
	must(cs2.flush())
	rep.CaseSets = []string{"C07_prefix", "C07_hist"}
	rep.Exhaustive = true
	rep.Rule = "prefix part: every string is checked with a recording handler registered under each of its own prefixes plus \"_\" and \"\", so the handler that fires reveals the prefix computed; non-trivial = contains one of $ _ ,. history part: recording handlers registered in the given order after a registry reset, then one Check; non-trivial = non-empty history. Distinct by (history, hash)."
	return rep
}

// isAnything: an error that claims to be every target (errors.Is(e, crypt.ErrHash) and errors.Is(e,
// crypt.ErrPasswordMismatch) are both true); the dispatcher must still hand it back as it is.
type isAnything struct{ id int }

func (e *isAnything) Error() string        { return fmt.Sprintf("handler-%d (Is anything)", e.id) }
func (e *isAnything) Is(target error) bool { return true }
