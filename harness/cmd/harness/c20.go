package main

import (
	"reflect"
)

func init() {
	corrs["C20"] = func(outDir string, seed uint64, tier string, replay string) *report {
		return corrCodec("C20", outDir, seed, tier, true)
	}
}

// editCases is filled in by the C20 work; placeholder keeps C10 building.
func editCases(rep *report, r *rng, tc codecCase, s string, unmarshalCase func(codecCase, string, string) (reflect.Value, error, interface{})) {
}
