package main

import (
	"fmt"
	"reflect"
	"sort"
	"strings"
)

func init() {
	corrs["C20"] = func(outDir string, seed uint64, tier string, replay string) *report {
		rep := corrCodec("C20", outDir, seed, tier, true)
		rep.Rule = "for every accepted canonical marshalling of the C10 generator's types (and the shipped structs): every string at edit distance 1 under a class alphabet plus structural splices is unmarshalled; outcome (all leaf values or projected error) vs the Coq model; for every ACCEPTED string the property oracle re-marshals the returned value and requires the two strings to carry the same value texts up to the tolerated respellings (one trailing delimiter, integer spelling, group order, explicit empty/zero optional). " + rep.Rule
		return rep
	}
}

// valueTexts splits a hash string into its value texts (prefix kept as one text), normalised for the
// tolerated respellings: lower case, integer-looking texts (optional key, optional sign) without leading zeros.
func valueTexts(s string) []string {
	var out []string
	pre := ""
	body := s
	if strings.HasPrefix(s, "$") {
		if i := strings.IndexAny(s[1:], "$,"); i > 0 {
			pre, body = s[:i+2], s[i+2:]
		}
	} else if strings.HasPrefix(s, "_") {
		pre, body = "_", s[1:]
	}
	if pre != "" {
		out = append(out, "P:"+pre)
	}
	if strings.HasSuffix(body, "$") || strings.HasSuffix(body, ",") {
		body = body[:len(body)-1]
	}
	for _, frag := range strings.Split(body, "$") {
		for _, v := range strings.Split(frag, ",") {
			out = append(out, normText(v))
		}
	}
	return out
}

func normText(v string) string {
	key := ""
	if i := strings.IndexByte(v, '='); i >= 0 {
		key, v = v[:i+1], v[i+1:]
	}
	l := strings.ToLower(v)
	sign := ""
	if strings.HasPrefix(l, "-") || strings.HasPrefix(l, "+") {
		if l[0] == '-' {
			sign = "-"
		}
		l = l[1:]
	}
	alnum := l != ""
	for i := 0; i < len(l); i++ {
		c := l[i]
		if !(c >= '0' && c <= '9' || c >= 'a' && c <= 'z') {
			alnum = false
		}
	}
	if alnum {
		t := strings.TrimLeft(l, "0")
		if t == "" {
			t = "0"
			sign = ""
		}
		return key + sign + t
	}
	return key + strings.ToLower(v)
}

// fragTexts: prefix and the fragments of a hash string ('$'-separated), each as the list of its normalised members
// (','-separated); one trailing delimiter dropped.
func fragTexts(s string) (string, [][]string) {
	pre, body := "", s
	if strings.HasPrefix(s, "$") {
		if i := strings.IndexAny(s[1:], "$,"); i > 0 {
			pre, body = s[:i+2], s[i+2:]
		}
	} else if strings.HasPrefix(s, "_") {
		pre, body = "_", s[1:]
	}
	if strings.HasSuffix(body, "$") || strings.HasSuffix(body, ",") {
		body = body[:len(body)-1]
	}
	var out [][]string
	for _, frag := range strings.Split(body, "$") {
		var ms []string
		for _, v := range strings.Split(frag, ",") {
			ms = append(ms, normText(v))
		}
		out = append(out, ms)
	}
	return pre, out
}

// sameUpToRespelling: the accepted string e and the canonical re-marshalling c have the same prefix and the same
// fragments in the same order, a fragment being the multiset of its members (the order inside a group is free),
// except that e may carry explicitly written empty / zero optional values (as members or whole fragments) that c
// omits.  Which delimiter separates two values is NOT free: "m=1$t=2" is not a respelling of "m=1,t=2".
func sameUpToRespelling(e, c string) (bool, string) {
	pe, fe := fragTexts(e)
	pc, fc := fragTexts(c)
	if pe != pc {
		return false, fmt.Sprintf("prefix %q of the accepted string, %q in the canonical marshalling", pe, pc)
	}
	removable := func(t string) bool {
		v := t
		if i := strings.IndexByte(t, '='); i >= 0 {
			v = t[i+1:]
		}
		return v == "" || v == "0"
	}
	j := 0
	for _, ef := range fe {
		if j < len(fc) {
			cnt := map[string]int{}
			for _, t := range fc[j] {
				cnt[t]++
			}
			ok := true
			for _, t := range ef {
				if cnt[t] > 0 {
					cnt[t]--
				} else if !removable(t) {
					ok = false
				}
			}
			for _, n := range cnt {
				if n > 0 {
					ok = false
				}
			}
			if ok {
				j++
				continue
			}
		}
		for _, t := range ef {
			if !removable(t) {
				return false, fmt.Sprintf("fragment %q of the accepted string has no counterpart at this place of the canonical marshalling %q", strings.Join(ef, ","), c)
			}
		}
	}
	for ; j < len(fc); j++ {
		for _, t := range fc[j] {
			if t != "" {
				return false, fmt.Sprintf("canonical fragment %q is not in the accepted string", strings.Join(fc[j], ","))
			}
		}
	}
	return true, ""
}

const c20Alpha = "$,=_09aA+-"

func editCases(rep *report, r *rng, tc codecCase, s string, unmarshalCase func(codecCase, string, string) (reflect.Value, error, interface{})) {
	// the budget of edit bases is split between the kinds of layout (wild, class, nested, hand, shipped), so that the
	// layouts the property oracle speaks for are never starved by the ones generated first
	kind := "edit_bases_" + tc.tname[:1]
	share := map[string]int{"W": 20, "K": 45, "N": 10, "H": 5, "S": 20}[tc.tname[:1]]
	if len(s) > 90 || rep.Distribution[kind] != nil && rep.Distribution[kind].(int) >= rep.Distribution["edit_budget"].(int)*share/100 {
		return
	}
	rep.bump(kind)
	rep.bump("edit_bases")
	editCasesOf(rep, r, tc, s, unmarshalCase, true)
}

// editCasesOf: judge s itself (when it does not come from Marshal) and, if withEdits, its neighbourhood
func editCasesOf(rep *report, r *rng, tc codecCase, s string, unmarshalCase func(codecCase, string, string) (reflect.Value, error, interface{}), withEdits bool) {
	seen := map[string]bool{s: withEdits}
	try := func(e, kind string) {
		if seen[e] {
			return
		}
		seen[e] = true
		q, err, pan := unmarshalCase(tc, e, kind)
		if pan != nil {
			if !strings.Contains(fmt.Sprint(pan), "indirection through nil pointer to embedded struct") {
				rep.fail(map[string]interface{}{"type": tc.t.String(), "hash": e}, "no panic", fmt.Sprint(pan), "Unmarshal panics")
			} else {
				rep.OracleFailures = append(rep.OracleFailures, oracleFailure{Input: tc.t.String(), Expected: "no panic", Observed: fmt.Sprint(pan), Note: "Unmarshal panics on a nil embedded pointer-to-struct", Sig: "D10-embedded-nil-pointer"})
			}
			return
		}
		if err != nil {
			return
		}
		rep.bump("edit_accepted_" + kind)
		c, merr, mpan := marshalObs(q.Interface())
		if merr != nil || mpan != nil {
			// the value Unmarshal returned is not one Marshal would write: only possible for text types / prefixes the
			// layout cannot re-emit; reported when the layout is in the class
			if tc.class && !tc.noC20 {
				rep.fail(map[string]interface{}{"type": tc.t.String(), "accepted": e}, "Marshal accepts the value Unmarshal returned", fmt.Sprint(merr, mpan), "accepted string has no canonical marshalling")
			} else if lastCaseMeta != nil && lastCaseMeta["hash"] == e {
				// search support (see below): counts only if the implementation disagrees with the model on this string
				lastCaseMeta["property_fails"] = fmt.Sprintf("accepted %q, but Marshal rejects the value Unmarshal returned (%v %v): the string is not what Marshal would have written", e, merr, mpan)
			}
			return
		}
		// the oracle speaks for layouts in the unambiguous class and for the shipped structs (outside it the
		// textual ambiguities of DESIGN.md 5.2 apply; those strings are still compared with the model)
		if !(tc.class && !tc.noC20 || strings.HasPrefix(tc.tname, "S")) {
			// search support: recorded with the case; it becomes the concrete failing input if, and only if, the
			// implementation disagrees with the model on this very string
			if ok, why := sameUpToRespelling(e, c); !ok && lastCaseMeta != nil && lastCaseMeta["hash"] == e {
				lastCaseMeta["property_fails"] = fmt.Sprintf("accepted %q, canonical marshalling of the returned value %q: %s", e, c, why)
			}
			return
		}
		if ok, why := sameUpToRespelling(e, c); !ok {
			rep.fail(map[string]interface{}{"type": tc.t.String(), "accepted": e, "canonical": c}, "equal up to the tolerated respellings", why, "Unmarshal accepted a string that is not a respelling of what Marshal writes")
		}
	}
	if !withEdits {
		try(s, "layout_driven")
		return
	}
	for i := 0; i <= len(s); i++ {
		for k := 0; k < len(c20Alpha); k++ {
			try(s[:i]+string(c20Alpha[k])+s[i:], "insert")
		}
		if i < len(s) {
			try(s[:i]+s[i+1:], "delete")
			for k := 0; k < len(c20Alpha); k++ {
				try(s[:i]+string(c20Alpha[k])+s[i+1:], "substitute")
			}
		}
	}
	// edits at the level of fragments and group members (dropped, doubled, swapped, rotated, re-keyed)
	for _, e := range structuralEdits(s) {
		try(e, "structural")
	}
	// every comma turned into '$' (the members of a group written as fragments of their own), and the reverse
	try(strings.ReplaceAll(s, ",", "$"), "group_as_fragments")
	if i := strings.IndexByte(s, '$'); i >= 0 {
		if j := strings.LastIndexByte(s, '$'); j > i {
			try(s[:i+1]+strings.ReplaceAll(s[i+1:j], "$", ",")+s[j:], "fragments_as_group")
		}
	}
	// numbers past the width of their field (value + 2^8, 2^16, 2^32, 2^64): must be rejected, never reduced
	for _, e := range numericEdits(s) {
		try(e, "numeric_overflow")
	}
	// 8-bit bytes and UTF-8 sequences in place of every symbol
	for i := 0; i < len(s); i++ {
		for _, hi := range []string{"\xe9", "\xc3\xa9", "\x80"} {
			try(s[:i]+hi+s[i+1:], "substitute_8bit")
		}
		// a two-byte character whose code point, cut to a byte, is the symbol it replaces (U+01xx), same byte length
		if b := s[i]; i+1 < len(s) && b >= 0x21 && b < 0x80 {
			try(s[:i]+string([]byte{0xC4 | b>>6, 0x80 | b&0x3F})+s[i+2:], "substitute_utf8_lowbyte")
		}
	}
	// structural splices
	try("$x$"+s, "splice_prefix")
	try("_"+s, "splice_prefix")
	if i := strings.IndexAny(s[minInt(1, len(s)):], "$,"); strings.HasPrefix(s, "$") && i > 0 {
		try(s[i+2:], "splice_noprefix")
		try(s[:i+2]+s, "splice_dupprefix")
	}
	frs := strings.Split(s, "$")
	if len(frs) >= 2 {
		sw := append([]string(nil), frs...)
		sw[len(sw)-1], sw[len(sw)-2] = sw[len(sw)-2], sw[len(sw)-1]
		try(strings.Join(sw, "$"), "splice_swap")
	}
	try(s+"$junk", "splice_junk")
	try(s+"$j=1,k=2", "splice_junkgroup")
	try(s+"$", "trailing")
	try(s+",", "trailing")
	try(s+"$$", "trailing2")
	if i := strings.IndexByte(s, '='); i > 0 {
		try(s[:i]+s[i+1:], "splice_noeq")
		j := strings.LastIndexAny(s[:i], "$,")
		try(s[:j+1]+s[i+1:], "splice_nokey")
		try(s[:i]+"x"+s[i:], "splice_longkey")
		if i-j > 2 {
			try(s[:i-1]+s[i:], "splice_shortkey")
		}
		// duplicate the parameter
		end := i + strings.IndexAny(s[i:]+"$", "$,")
		try(s[:end]+","+s[j+1:end]+s[end:], "splice_dupparam")
	}
	if i := strings.IndexByte(s, ','); i > 0 {
		try(s[:i]+"$"+s[i+1:], "splice_splitgroup")
		// reorder group members
		lo := strings.LastIndexByte(s[:i], '$') + 1
		hi := i + strings.IndexByte(s[i:]+"$", '$')
		ms := strings.Split(s[lo:hi], ",")
		sort.Sort(sort.Reverse(sort.StringSlice(ms)))
		try(s[:lo]+strings.Join(ms, ",")+s[hi:], "group_reorder")
	}
}
