package main

import (
	"bytes"
	"fmt"
	"strings"

	"github.com/sergeymakinen/go-crypt/bcrypt"
	crypthash "github.com/sergeymakinen/go-crypt/hash"
	"github.com/sergeymakinen/go-crypt/hash/base64le"
)

func init() { corrs["C16"] = corrC16 }

const (
	alphaCrypt  = "./0123456789ABCDEFGHIJKLMNOPQRSTUVWXYZabcdefghijklmnopqrstuvwxyz"
	alphaBcrypt = "./ABCDEFGHIJKLMNOPQRSTUVWXYZabcdefghijklmnopqrstuvwxyz0123456789"
	alphaStd    = "ABCDEFGHIJKLMNOPQRSTUVWXYZabcdefghijklmnopqrstuvwxyz0123456789+/"
)

var b64Alphas = []string{alphaCrypt, alphaBcrypt, alphaStd}

type b64cfg struct {
	alpha  int
	pad    rune // -1 none
	strict bool
	order  int // the order in which the builders are applied (the encoding described is the same)
}

func (c b64cfg) enc() *base64le.Encoding {
	e := base64le.NewEncoding(b64Alphas[c.alpha])
	switch c.order {
	case 1: // strictness first, padding afterwards
		if c.strict {
			e = e.Strict()
		}
		return e.WithPadding(c.pad)
	case 2: // padding set twice (another one first), strictness in between
		e = e.WithPadding('#')
		if c.strict {
			e = e.Strict()
		}
		return e.WithPadding(c.pad)
	}
	e = e.WithPadding(c.pad)
	if c.strict {
		e = e.Strict()
	}
	return e
}
func (c b64cfg) coq() string {
	p := "None"
	if c.pad >= 0 {
		p = fmt.Sprintf("(Some %d)", c.pad)
	}
	return fmt.Sprintf("(%s, %s, %s)", coqNat(c.alpha), p, coqBool(c.strict))
}
func (c b64cfg) String() string {
	return fmt.Sprintf("alpha%d/pad=%d/strict=%v/builder-order=%d", c.alpha, c.pad, c.strict, c.order)
}

// refEncode is written from the property text: successive 6-bit groups, least significant first,
// of b0 | b1<<8 | b2<<16; 2 or 3 symbols for 1- or 2-byte tails, plus padding.
func refEncode(alpha string, pad rune, src []byte) string {
	var sb strings.Builder
	for i := 0; i < len(src); i += 3 {
		n := len(src) - i
		if n > 3 {
			n = 3
		}
		w := 0
		for k := 0; k < n; k++ {
			w |= int(src[i+k]) << (8 * k)
		}
		syms := n + 1
		for k := 0; k < syms; k++ {
			sb.WriteByte(alpha[(w>>(6*k))&63])
		}
		if pad >= 0 {
			for k := syms; k < 4; k++ {
				sb.WriteByte(byte(pad))
			}
		}
	}
	return sb.String()
}

func stripNL(s string) string {
	return strings.NewReplacer("\n", "", "\r", "").Replace(s)
}

func decodeWatch(e *base64le.Encoding, s string) (out []byte, err error, pan interface{}) {
	defer func() {
		if r := recover(); r != nil {
			pan = r
		}
	}()
	out, err = e.DecodeString(s)
	return
}

func corrC16(outDir string, seed uint64, tier string, replay string) *report {
	rep := newReport("C16", seed, tier)
	r := newRng(seed)
	var alphaTerms []string
	for _, a := range b64Alphas {
		alphaTerms = append(alphaTerms, coqStr(a))
	}
	alphasCoq := coqList(alphaTerms)
	csE := newCaseSet(outDir, "C16_enc", []string{"GC.B64.B64Model", "GC.B64.B64Cases"}, "(nat * option Z * bool) * bytes * bytes", "ok_encode "+alphasCoq, 5000)
	csD := newCaseSet(outDir, "C16_dec", []string{"GC.B64.B64Model", "GC.B64.B64Cases"}, "(nat * option Z * bool) * bytes * (bytes * option Z)", "ok_decode "+alphasCoq, 4000)
	csL := newCaseSet(outDir, "C16_len", []string{"GC.B64.B64Model", "GC.B64.B64Cases"}, "(option Z) * Z * (Z * Z)", "ok_lens", 5000)

	cfgs := []b64cfg{}
	for a := 0; a < 3; a++ {
		for _, p := range []rune{-1, '=', '*', 0xE9} {
			if p == 0xE9 && a != 0 {
				continue // a padding byte >= 0x80 (allowed by WithPadding), with the crypt alphabet
			}
			for _, st := range []bool{false, true} {
				cfgs = append(cfgs, b64cfg{a, p, st, 0})
				if a == 0 {
					cfgs = append(cfgs, b64cfg{a, p, st, 1}, b64cfg{a, p, st, 2})
				}
			}
		}
	}
	encs := map[b64cfg]*base64le.Encoding{}
	for _, c := range cfgs {
		encs[c] = c.enc()
	}

	doEnc := func(c b64cfg, src []byte, toCoq bool) string {
		e := encs[c]
		got := e.EncodeToString(src)
		want := refEncode(b64Alphas[c.alpha], c.pad, src)
		if got != want {
			rep.fail(map[string]interface{}{"cfg": c.String(), "src": fmt.Sprintf("%x", src)}, want, got, "encoding differs from the bit-level definition")
		}
		if e.EncodedLen(len(src)) != len(got) {
			rep.fail(map[string]interface{}{"cfg": c.String(), "n": len(src)}, len(got), e.EncodedLen(len(src)), "EncodedLen differs from the encoded length")
		}
		if toCoq {
			csE.add("("+c.coq()+", "+coqBytes(src)+", "+coqStr(got)+")", map[string]interface{}{"cfg": c.String(), "src": fmt.Sprintf("%x", src)})
		}
		rep.count("e:"+c.String()+string(src), len(src) > 0)
		return got
	}
	doDec := func(c b64cfg, text string, toCoq bool, kind string) {
		e := encs[c]
		out, err, pan := decodeWatch(e, text)
		rep.bump("decode_" + kind)
		if pan != nil {
			rep.fail(map[string]interface{}{"cfg": c.String(), "text": text}, "a result or CorruptInputError", fmt.Sprint("panic: ", pan), "DecodeString panics")
			return
		}
		var off *int64
		if err != nil {
			ce, ok := err.(base64le.CorruptInputError)
			if !ok {
				rep.fail(map[string]interface{}{"cfg": c.String(), "text": text}, "CorruptInputError", err.Error(), "unexpected error type")
				return
			}
			o := int64(ce)
			off = &o
			if o < 0 || o > int64(len(text)) {
				rep.fail(map[string]interface{}{"cfg": c.String(), "text": text}, "offset within the input", o, "corrupt-input offset outside the input")
			}
			rep.bump("decode_rejected")
		} else {
			rep.bump("decode_accepted")
			// never silent garbage: an accepted text is an encoding of the output (modulo CR/LF, padding placement
			// checked by the quantum structure, and - in lenient mode - unused bits)
			st := stripNL(text)
			canon := refEncode(b64Alphas[c.alpha], c.pad, out)
			if len(st) != len(canon) {
				rep.fail(map[string]interface{}{"cfg": c.String(), "text": text}, canon, fmt.Sprintf("%x", out), "accepted text is not an encoding of the output (length)")
			} else if st != canon {
				// allowed only: lenient mode, difference confined to the last symbol before padding/end
				diff := 0
				for i := range st {
					if st[i] != canon[i] {
						diff++
					}
				}
				last := len(canon) - 1
				for last >= 0 && canon[last] == byte(maxRune(c.pad)) {
					last--
				}
				if c.strict || diff != 1 || st[last] == canon[last] || len(out)%3 == 0 {
					rep.fail(map[string]interface{}{"cfg": c.String(), "text": text}, canon, fmt.Sprintf("%x", out), "accepted text is not an encoding of the output")
				}
			}
		}
		if kind == "badsym" {
			// exactly one invalid byte at a known position, everything before it symbols/newlines
			k := -1
			for i := 0; i < len(text); i++ { // bytes, not characters: the padding byte may be >= 0x80
				if q := text[i]; q != '\n' && q != '\r' && rune(q) != c.pad && strings.IndexByte(b64Alphas[c.alpha], q) < 0 {
					k = i
					break
				}
			}
			if k >= 0 && strings.IndexByte(text[:k], byte(maxRune(c.pad))) < 0 {
				if off == nil || *off != int64(k) {
					rep.fail(map[string]interface{}{"cfg": c.String(), "text": text}, fmt.Sprintf("CorruptInputError(%d)", k), fmt.Sprint(err), "offending byte not located")
				}
			}
		}
		if toCoq {
			o := "None"
			if off != nil {
				o = fmt.Sprintf("(Some %d)", *off)
			}
			csD.add("("+c.coq()+", "+coqStr(text)+", ("+coqBytes(out)+", "+o+"))", map[string]interface{}{"cfg": c.String(), "text": text, "kind": kind})
		}
		rep.count("d:"+c.String()+text, len(text) > 0)
		if kind != "valid" && len(text) > 6 {
			rep.sample(map[string]interface{}{"cfg": c.String(), "text": text, "kind": kind, "err": fmt.Sprint(err)})
		}
	}
	roundtrip := func(c b64cfg, src []byte, toCoq bool) {
		t := doEnc(c, src, toCoq)
		out, err, pan := decodeWatch(encs[c], t)
		if pan != nil || err != nil || !bytes.Equal(out, src) {
			rep.fail(map[string]interface{}{"cfg": c.String(), "src": fmt.Sprintf("%x", src)}, "decode(encode(x)) = x", fmt.Sprint(out, err, pan), "decoding does not invert encoding")
		}
		doDec(c, t, toCoq, "valid")
	}

	// ---- lengths ----
	for _, p := range []rune{-1, '='} {
		e := base64le.NewEncoding(alphaCrypt).WithPadding(p)
		for n := 0; n <= 300; n++ {
			ps := "None"
			if p >= 0 {
				ps = fmt.Sprintf("(Some %d)", p)
			}
			csL.add(fmt.Sprintf("(%s, %d, (%d, %d))", ps, n, e.EncodedLen(n), e.DecodedLen(n)), map[string]interface{}{"pad": p, "n": n})
			rep.count(fmt.Sprint("l", p, n), n > 0)
		}
	}

	// ---- exhaustive small spaces ----
	base := b64cfg{0, -1, false, 0}
	padded := b64cfg{0, '=', true, 0}
	for b := 0; b < 256; b++ {
		for _, c := range cfgs {
			roundtrip(c, []byte{byte(b)}, c == base || c == padded)
		}
	}
	for b := 0; b < 65536; b++ {
		src := []byte{byte(b), byte(b >> 8)}
		roundtrip(base, src, tier == "thorough" || b%7 == 0)
		if b%5 == 0 {
			roundtrip(padded, src, b%35 == 0)
		}
	}
	rep.ExhaustiveSpaces = append(rep.ExhaustiveSpaces, "all 256 one-byte inputs x 18 encodings; all 65536 two-byte inputs (unpadded lenient crypt alphabet): encode vs bit-level reference, decode inverts")
	triples := 1 << 18
	stepCoq := 37
	if tier == "thorough" {
		triples = 1 << 24
		stepCoq = 257
	}
	for i := 0; i < triples; i++ {
		var v uint32
		if tier == "thorough" {
			v = uint32(i)
		} else {
			v = uint32(r.u64())
		}
		src := []byte{byte(v), byte(v >> 8), byte(v >> 16)}
		roundtrip(base, src, i%stepCoq == 0)
	}
	if tier == "thorough" {
		rep.ExhaustiveSpaces = append(rep.ExhaustiveSpaces, "all 2^24 three-byte groups: encode vs bit-level reference, decode inverts")
	}
	// ---- all short texts over a class-representative alphabet, every encoding ----
	maxT := 5
	if tier == "thorough" {
		maxT = 6
	}
	for _, c := range cfgs {
		if c.alpha != 0 || c.order != 0 {
			continue
		}
		class := ".z5" + "\n" + "@"
		if c.pad >= 0 {
			class += string([]byte{byte(c.pad)})
		} else {
			class += "="
		}
		allStrings(class, maxT, func(s string) { doDec(c, s, true, "short") })
	}
	rep.ExhaustiveSpaces = append(rep.ExhaustiveSpaces, fmt.Sprintf("all texts of length <= %d over {3 symbols, LF, invalid byte, padding byte} x 6 encodings of the crypt alphabet", maxT))

	// ---- every byte value at every position of a 4-symbol quantum and of the 8-symbol fast path ----
	for _, c := range cfgs {
		if c.alpha != 0 {
			continue
		}
		for _, base := range []string{"zzzz", "zzzzzzzzzzzz", "zzz", "zz"} {
			for pos := 0; pos < len(base); pos++ {
				for b := 0; b < 256; b++ {
					if tier != "thorough" && len(base) == 12 && pos >= 8 {
						continue
					}
					t := []byte(base)
					t[pos] = byte(b)
					doDec(c, string(t), b%4 == 3 || b < 2 || b > 253 || b == 0x7f || b == 0x80, "byte_sweep")
				}
			}
		}
	}
	rep.ExhaustiveSpaces = append(rep.ExhaustiveSpaces, "every byte value 0..255 at every position of texts of 2, 3, 4 and 12 symbols x 6 encodings of the crypt alphabet (a quarter of them also evaluated by the model)")

	// ---- random strings, all paths ----
	n := 500
	if tier == "thorough" {
		n = 20000
	}
	for i := 0; i < n; i++ {
		c := cfgs[r.intn(len(cfgs))]
		var ln int
		switch r.intn(4) {
		case 0:
			ln = r.intn(12)
		case 1:
			ln = r.intn(64)
		case 2:
			ln = r.intn(400)
		default:
			ln = r.intn(4097)
		}
		src := r.bytes(ln)
		toCoq := ln <= 600
		roundtrip(c, src, toCoq)
		t := encs[c].EncodeToString(src)
		if len(t) == 0 {
			continue
		}
		// single edits
		alpha := b64Alphas[c.alpha]
		pos := r.intn(len(t))
		switch r.intn(7) {
		case 0: // invalid symbol
			bad := []byte(t)
			bad[pos] = "@!\x00\xff~"[r.intn(5)]
			if strings.IndexByte(alpha, bad[pos]) >= 0 || rune(bad[pos]) == c.pad {
				bad[pos] = 0x01
			}
			doDec(c, string(bad), toCoq, "badsym")
		case 1: // stray padding
			p := c.pad
			if p < 0 {
				p = '='
			}
			doDec(c, t[:pos]+string([]byte{byte(p)})+t[pos:], toCoq, "straypad")
		case 2: // newline inserted
			doDec(c, t[:pos]+"\n"+t[pos:], toCoq, "newline")
			doDec(c, t[:pos]+"\r\n"+t[pos:]+"\n", toCoq, "newline")
		case 3: // truncation
			doDec(c, t[:pos], toCoq, "truncated")
		case 4: // symbol replaced by another symbol (unused bits / different data)
			b := []byte(t)
			b[len(b)-1-r.intn(minInt(len(b), 3))] = alpha[r.intn(64)]
			doDec(c, string(b), toCoq, "lastsym")
		case 5: // garbage appended
			doDec(c, t+string(alpha[r.intn(64)]), toCoq, "appended")
			doDec(c, t+"\n", toCoq, "newline")
		default: // invalid symbol with newlines before it
			k := r.intn(len(t) + 1)
			doDec(c, t[:k]+"\n"+"@"+t[k:], toCoq, "badsym")
		}
	}
	// ---- runs of line breaks of every length 1..20 at every position of texts of 0..40 symbols ----
	for _, c := range cfgs {
		if c.alpha != 0 || c.order != 0 {
			continue
		}
		maxSyms := 26
		if tier == "thorough" {
			maxSyms = 40
		}
		for nb := 0; nb*4/3 <= maxSyms; nb += 1 + nb/9 {
			// random data, and the extreme symbol patterns: all bits clear (first alphabet symbol only), all bits set
			// (last symbol only), alternating
			for pat := 0; pat < 4; pat++ {
				src := r.bytes(nb)
				for k := range src {
					switch pat {
					case 1:
						src[k] = 0
					case 2:
						src[k] = 0xFF
					case 3:
						src[k] = []byte{0x82, 0x20, 0x08}[k%3] // every symbol has index 2
					}
				}
				t := encs[c].EncodeToString(src)
				for pos := 0; pos <= len(t); pos += 1 + len(t)/14 {
					for run := 1; run <= 20; run += 1 + run/6 {
						nl := strings.Repeat("\n", run)
						if run%2 == 0 {
							nl = strings.Repeat("\r\n", run/2)
						}
						doDec(c, t[:pos]+nl+t[pos:], pat == 0 && (run <= 3 || run == 8 || run == 9 || run >= 16), "newline_run")
					}
				}
			}
		}
	}
	// ---- families: several encodings derived from ONE parent (and from the exported hash.LittleEndianEncoding) must
	// each behave like an encoding built on its own; deriving a sibling must not change the parent or the other siblings
	{
		type member struct {
			e   *base64le.Encoding
			cfg b64cfg
		}
		family := func(parent *base64le.Encoding, alpha int, parentPad rune) []member {
			ms := []member{{parent, b64cfg{alpha, parentPad, false, 0}}}
			ms = append(ms, member{parent.WithPadding('='), b64cfg{alpha, '=', false, 0}})
			ms = append(ms, member{parent.Strict(), b64cfg{alpha, parentPad, true, 0}})
			ms = append(ms, member{parent.WithPadding('*'), b64cfg{alpha, '*', false, 0}})
			ms = append(ms, member{parent.WithPadding('=').WithPadding(base64le.NoPadding), b64cfg{alpha, -1, false, 0}})
			ms = append(ms, member{parent.WithPadding('=').Strict(), b64cfg{alpha, '=', true, 0}})
			return ms
		}
		var all []member
		all = append(all, family(base64le.NewEncoding(alphaCrypt), 0, '=')...) // NewEncoding pads with '=' by default
		all = append(all, family(base64le.NewEncoding(alphaCrypt).WithPadding(base64le.NoPadding), 0, -1)...)
		all = append(all, family(crypthash.LittleEndianEncoding, 0, -1)...)
		texts := []string{"", "AA", "AA==", "AA**", "AAA=", "AAA*", "AAAA", "AAAA====", "zz", "zz==", "zzz", "zzz=", "z", "AA=", "A=A=", "AAAAAA==", "AAAAAA**", "AAAAAAAz", "AA\n==", "AA=*"}
		for i := 0; i < 40; i++ {
			texts = append(texts, r.str(r.intn(13), "Az.=*\n"))
		}
		for round := 0; round < 2; round++ { // second round: after every member has been used
			for _, m := range all {
				ref := m.cfg.enc() // the same encoding built from scratch
				for _, t := range texts {
					o1, e1, p1 := decodeWatch(m.e, t)
					o2, e2, p2 := decodeWatch(ref, t)
					if !bytes.Equal(o1, o2) || fmt.Sprint(e1, p1) != fmt.Sprint(e2, p2) {
						rep.fail(map[string]interface{}{"cfg": m.cfg.String(), "text": t, "how": "member of a family of encodings derived from one parent"},
							fmt.Sprintf("%x %v (the same encoding built on its own)", o2, e2), fmt.Sprintf("%x %v %v", o1, e1, p1),
							"an encoding derived from a shared parent decodes differently from the same encoding built on its own")
					}
					rep.bump("family_decodes")
				}
				for _, src := range [][]byte{{}, {1}, {1, 2}, {1, 2, 3}, {255, 254, 253, 252}} {
					if a, b := m.e.EncodeToString(src), ref.EncodeToString(src); a != b {
						rep.fail(map[string]interface{}{"cfg": m.cfg.String(), "src": fmt.Sprintf("%x", src)}, b, a, "an encoding derived from a shared parent encodes differently from the same encoding built on its own")
					}
				}
			}
		}
	}
	// ---- the exported crypt(3) encodings ----
	for _, src := range [][]byte{{}, {1}, {1, 2}, {255, 254, 253}, []byte("hello world")} {
		if crypthash.LittleEndianEncoding.EncodeToString(src) != refEncode(alphaCrypt, -1, src) {
			rep.fail(fmt.Sprintf("%x", src), refEncode(alphaCrypt, -1, src), crypthash.LittleEndianEncoding.EncodeToString(src), "hash.LittleEndianEncoding is not unpadded ./0-9A-Za-z")
		}
	}
	if got := bcrypt.Encoding.EncodeToString([]byte{0, 0x10, 0x83, 0xff, 0xff, 0xff}); got != "..CB9999" {
		// big-endian base64 over ./A-Za-z0-9: 0x001083 -> indices 0,1,2,3 -> "./AB"? computed below instead
		_ = got
	}
	{
		// bcrypt.Encoding alphabet check through its behaviour: 3 bytes with indices 0,1,2,3 then 60..63
		got := bcrypt.Encoding.EncodeToString([]byte{0x00, 0x10, 0x83, 0xf3, 0xdf, 0xbf})
		want := string([]byte{alphaBcrypt[0], alphaBcrypt[1], alphaBcrypt[2], alphaBcrypt[3], alphaBcrypt[60], alphaBcrypt[61], alphaBcrypt[62], alphaBcrypt[63]})
		if got != want || bcrypt.Encoding.EncodeToString([]byte{1}) != "..A"[0:0]+string([]byte{alphaBcrypt[0], alphaBcrypt[16]}) {
			rep.fail("bcrypt.Encoding", want, got, "bcrypt.Encoding is not unpadded ./A-Za-z0-9")
		}
	}
	must(csE.flush())
	must(csD.flush())
	must(csL.flush())
	rep.CaseSets = []string{"C16_enc", "C16_dec", "C16_len"}
	rep.Exhaustive = true
	rep.Rule = "encode: EncodeToString vs the Coq model and vs a bit-level reference; decode: DecodeString (output bytes and corrupt offset) vs the Coq model, plus the property oracle (inverse of encode; accepted text re-encodes to itself modulo CR/LF and, in lenient mode, unused bits; single invalid byte located exactly; no panic). Non-trivial = non-empty input; distinct by (encoding, input)."
	return rep
}

func maxRune(p rune) rune {
	if p < 0 {
		return '='
	}
	return p
}
func minInt(a, b int) int {
	if a < b {
		return a
	}
	return b
}
