package main

import (
	"bytes"
	"encoding/base64"
	"encoding/binary"
	"encoding/hex"
	"errors"
	"fmt"
	"os"
	"os/exec"
	"path/filepath"
	"runtime"
	"strings"
	"sync"

	crypt "github.com/sergeymakinen/go-crypt"
	"github.com/sergeymakinen/go-crypt/argon2/argon2crypto"
	xargon2 "golang.org/x/crypto/argon2"
	"golang.org/x/crypto/blake2b"
)

func init() { corrs["C04"] = corrC04 }

type a2cfg struct {
	mode, version        int
	pw, salt             []byte
	time, memory, keyLen uint32
	threads              uint8
}

func (c a2cfg) String() string {
	return fmt.Sprintf("mode=%d v=%#x pw=%d salt=%d t=%d m=%d p=%d len=%d", c.mode, c.version, len(c.pw), len(c.salt), c.time, c.memory, c.threads, c.keyLen)
}

// c04Grid is deterministic in (seed, tier) so that the purego binary reproduces it.
func c04Grid(seed uint64, tier string) []a2cfg {
	r := newRng(seed ^ 0xC04)
	var out []a2cfg
	lanesSet := []uint8{1, 2, 3, 4}
	if tier == "thorough" {
		lanesSet = []uint8{1, 2, 3, 4, 5, 6, 7, 8}
	}
	for mode := 0; mode < 3; mode++ {
		for _, ver := range []int{0x10, 0x13} {
			for _, p := range lanesSet {
				ms := []uint32{8 * uint32(p), 8*uint32(p) + 1, 8*uint32(p) + 7, 16*uint32(p) + 3}
				for mi, m := range ms {
					if tier != "thorough" && (mi+mode+int(p))%2 == 1 {
						continue
					}
					t := uint32(1 + (mi+int(p))%2)
					if tier == "thorough" {
						t = uint32(1 + (mi+int(p))%4)
					}
					kl := []uint32{32, 4, 64, 65, 128, 33}[(mi+mode+int(p))%6]
					out = append(out, a2cfg{mode, ver, r.bytes(r.intn(40)), r.bytes(8 + r.intn(24)), t, m, kl, p})
				}
			}
		}
	}
	// lane counts at and beyond the 8-bit boundaries of 4*lanes (uint8 arithmetic on the lane count must not wrap)
	big := []uint8{64, 65}
	if tier == "thorough" {
		big = []uint8{63, 64, 65, 127, 128, 192, 255}
	}
	for i, p := range big {
		out = append(out, a2cfg{i % 3, []int{0x13, 0x10}[i%2], r.bytes(r.intn(40)), r.bytes(8 + r.intn(24)), 1, 8*uint32(p) + uint32(i%2)*3, 32, p})
	}
	// the two variable-length hashes around the fill loop, at the cheapest memory: H0 absorbs the password and the salt
	// (every total length across the BLAKE2b block boundaries), H' emits the tag (every tag length across the 64-byte
	// and 32-byte boundaries of its chaining)
	maxTotal, maxTag, step := 150, 140, 1
	if tier == "thorough" {
		maxTotal, maxTag = 300, 330
	}
	for total := 0; total <= maxTotal; total += step {
		sl := 8 + (total*7)%17
		if sl > total {
			sl = total
		}
		out = append(out, a2cfg{total % 3, []int{0x13, 0x10}[total%2], r.bytes(total - sl), r.bytes(sl), 1, 8, 32, 1})
	}
	for kl := 1; kl <= maxTag; kl += step {
		out = append(out, a2cfg{kl % 3, []int{0x13, 0x10}[(kl/3)%2], r.bytes(r.intn(20)), r.bytes(8 + r.intn(8)), 1, 8, uint32(kl), 1})
	}
	// segments longer than one address block (128 references) and not a multiple of it, many lanes, several passes:
	// too large for the extracted model in the quick tier; judged by golang.org/x/crypto/argon2 (an independent
	// implementation of RFC 9106, version 0x13, Argon2i / Argon2id) and by the purego / SSE2 builds
	for i, c := range []struct {
		m uint32
		p uint8
		t uint32
	}{{512, 1, 1}, {516, 1, 1}, {1000, 1, 2}, {1030, 1, 1}, {1536, 1, 1}, {2400, 3, 1}, {6000, 2, 1}, {4100, 4, 2}, {136, 17, 1}, {137, 17, 2}, {160, 20, 1},
		{264, 33, 1}, {800, 100, 1}, {2040, 255, 1}, {2047, 255, 2}, {1100, 16, 1}, {1100, 17, 1}} {
		for mode := 1; mode <= 2; mode++ {
			out = append(out, a2cfg{mode, 0x13, r.bytes(r.intn(20)), r.bytes(8 + r.intn(8)), c.t, c.m, 32, c.p})
		}
		// the same shapes for Argon2d and version 0x10 (no second implementation: model in the thorough tier)
		out = append(out, a2cfg{[]int{0, 1, 2}[i%3], 0x10, r.bytes(r.intn(20)), r.bytes(8 + r.intn(8)), c.t, c.m, 32, c.p})
		out = append(out, a2cfg{0, 0x13, r.bytes(r.intn(20)), r.bytes(8 + r.intn(8)), c.t, c.m, 32, c.p})
	}
	// a history of large memories going down and up again (storage kept between derivations must not show through)
	for _, m := range []uint32{16384, 8192, 12288, 8200, 20000, 9000} {
		out = append(out, a2cfg{2, 0x13, r.bytes(8), r.bytes(16), 1, m, 32, 1})
		out = append(out, a2cfg{1, 0x13, r.bytes(8), r.bytes(16), 1, m + 4, 32, 2})
	}
	for _, kl := range []uint32{159, 160, 161, 191, 192, 193, 223, 224, 225, 255, 256, 257, 288, 512, 1000, 1024, 1056} {
		out = append(out, a2cfg{int(kl) % 3, 0x13, r.bytes(r.intn(20)), r.bytes(8 + r.intn(8)), 1, 8, kl, 1})
	}
	return out
}

func a2Key(c a2cfg) (key []byte) {
	defer func() {
		if r := recover(); r != nil {
			key = nil
			notePanic("argon2crypto.Key", fmt.Sprintf("mode=%d version=%#x password_len=%d salt_len=%d time=%d memory=%d threads=%d keyLen=%d", c.mode, c.version, len(c.pw), len(c.salt), c.time, c.memory, c.threads, c.keyLen), r)
		}
	}()
	return argon2crypto.Key(c.mode, c.version, c.pw, c.salt, c.time, c.memory, c.threads, c.keyLen)
}

// c04Keys prints the keys of the grid (used by the purego build)
func c04Keys(seed uint64, tier string) {
	for _, c := range c04Grid(seed, tier) {
		fmt.Println(hex.EncodeToString(a2Key(c)))
	}
}

func opensslArgon2(c a2cfg) (string, bool) {
	name := []string{"ARGON2D", "ARGON2I", "ARGON2ID"}[c.mode]
	args := []string{"kdf", "-keylen", fmt.Sprint(c.keyLen), "-kdfopt", "hexpass:" + hex.EncodeToString(c.pw), "-kdfopt", "hexsalt:" + hex.EncodeToString(c.salt),
		"-kdfopt", fmt.Sprintf("iter:%d", c.time), "-kdfopt", fmt.Sprintf("memcost:%d", c.memory), "-kdfopt", fmt.Sprintf("lanes:%d", c.threads),
		"-kdfopt", fmt.Sprintf("version:%d", c.version), name}
	if len(c.pw) == 0 {
		args = []string{"kdf", "-keylen", fmt.Sprint(c.keyLen), "-kdfopt", "pass:", "-kdfopt", "hexsalt:" + hex.EncodeToString(c.salt),
			"-kdfopt", fmt.Sprintf("iter:%d", c.time), "-kdfopt", fmt.Sprintf("memcost:%d", c.memory), "-kdfopt", fmt.Sprintf("lanes:%d", c.threads),
			"-kdfopt", fmt.Sprintf("version:%d", c.version), name}
	}
	out, err := exec.Command("openssl", args...).Output()
	if err != nil {
		return "", false
	}
	return strings.ToLower(strings.ReplaceAll(strings.TrimSpace(string(out)), ":", "")), true
}

func blockHex(b *[128]uint64) string {
	var sb strings.Builder
	for _, w := range b {
		fmt.Fprintf(&sb, "%016x", w)
	}
	return sb.String()
}

func corrC04(outDir string, seed uint64, tier string, replay string) *report {
	rep := newReport("C04", seed, tier)
	r := newRng(seed)
	m, err := startModel()
	if err != nil {
		rep.ModelBroken = "the extracted model driver cannot be started: " + err.Error()
		return rep
	}
	defer m.close()
	m.extra = func(p []string) (string, bool) {
		if p[1] == "blake2b" {
			var n int
			fmt.Sscan(p[2], &n)
			h, err := blake2b.New(n, nil)
			if err != nil {
				return "-", true
			}
			h.Write(unhx(p[3]))
			return hx(h.Sum(nil)), true
		}
		return "", false
	}
	grid := c04Grid(seed, tier)
	// keys from the purego build (portable Go block function everywhere)
	var pure []string
	if pg := os.Getenv("VERIF_HARNESS_PUREGO"); pg != "" || fileExists(buildPath("harness_purego")) {
		if pg == "" {
			pg = buildPath("harness_purego")
		}
		out, err := exec.Command(pg, "c04keys", fmt.Sprint(seed), tier).Output()
		if err == nil {
			pure = strings.Fields(string(out))
		} else {
			rep.Notes = append(rep.Notes, "purego binary failed: "+err.Error())
		}
	}
	rep.Distribution["purego_keys"] = len(pure)
	// keys from a GOARCH=386 build (32-bit native word, portable Go): bin/check builds it next to the other binaries
	var k386 []string
	if h386 := buildPath("harness_386"); fileExists(h386) && runtime.GOARCH != "386" {
		out, err := exec.Command(h386, "c04keys", fmt.Sprint(seed), tier).Output()
		if err == nil {
			k386 = strings.Fields(string(out))
		} else {
			rep.Notes = append(rep.Notes, "386 binary failed: "+err.Error())
		}
	}
	rep.Distribution["goarch386_keys"] = len(k386)
	openssl := 0
	var modelReqs, implKeys []string
	var modelIdx []int
	for i, c := range grid {
		key := a2Key(c) // default build: assembly with SSE4.1 when the CPU has it
		old := argon2crypto.VerifSetSSE4(false)
		keyNoSSE4 := a2Key(c)
		argon2crypto.VerifSetSSE4(old)
		if !bytes.Equal(key, keyNoSSE4) {
			rep.fail(c.String(), hex.EncodeToString(key), hex.EncodeToString(keyNoSSE4), "key differs between the SSE4.1 and the SSE2 code path")
		}
		if i < len(k386) && k386[i] != hex.EncodeToString(key) {
			rep.fail(map[string]interface{}{"config": c.String(), "password_hex": hx(c.pw), "salt_hex": hx(c.salt)}, hex.EncodeToString(key)+" (amd64 build, equal to the model / x/crypto where compared)", k386[i]+" (GOARCH=386 build)",
				"key differs between the 64-bit and the 32-bit build of the library")
		}
		if i < len(pure) && pure[i] != hex.EncodeToString(key) {
			rep.fail(c.String(), hex.EncodeToString(key), pure[i], "key differs between the assembly and the portable Go (purego) build")
		}
		// the model (RFC 9106 structure with the real BLAKE2b): small memories only (evaluated below, in parallel)
		if c.memory <= 40 || i%5 == 0 && c.memory < 300 || (c.memory <= 140 || c.memory < 300 && c.version == 0x10) && c.threads >= 17 || c.memory <= 8*uint32(c.threads)+8 && c.memory < 700 && tier == "thorough" || tier == "thorough" && i%9 == 0 && c.memory <= 1100 {
			modelReqs = append(modelReqs, fmt.Sprintf("argon2 %d %d %s %s %d %d %d %d", c.mode, c.version, hx(c.pw), hx(c.salt), c.time, c.memory, c.threads, c.keyLen))
			modelIdx = append(modelIdx, i)
			implKeys = append(implKeys, hx(key))
		}
		// golang.org/x/crypto/argon2: an independent implementation (version 0x13, Argon2i and Argon2id only)
		if c.version == 0x13 && c.mode >= 1 && c.keyLen >= 4 && len(c.salt) > 0 {
			var x []byte
			if c.mode == 1 {
				x = xargon2.Key(c.pw, c.salt, c.time, c.memory, c.threads, c.keyLen)
			} else {
				x = xargon2.IDKey(c.pw, c.salt, c.time, c.memory, c.threads, c.keyLen)
			}
			if !bytes.Equal(x, key) {
				rep.fail(map[string]interface{}{"config": c.String(), "password_hex": hx(c.pw), "salt_hex": hx(c.salt)}, "x/crypto/argon2: "+hex.EncodeToString(x), "argon2crypto.Key: "+hex.EncodeToString(key),
					"key differs from golang.org/x/crypto/argon2 (independent RFC 9106 implementation)")
			}
			rep.bump("xcrypto_compared")
		}
		// OpenSSL's independent Argon2 (secondary oracle)
		if i%3 == 0 && len(c.salt) >= 8 && c.keyLen >= 4 && i < 120 {
			if o, ok := opensslArgon2(c); ok {
				openssl++
				if o != hex.EncodeToString(key) {
					rep.fail(c.String(), o, hex.EncodeToString(key), "key differs from OpenSSL's Argon2 (RFC 9106 reference behaviour)")
				}
			}
		}
		rep.count(c.String(), c.threads > 1 || c.memory%(4*uint32(c.threads)) != 0)
		if i%17 == 0 {
			rep.sample(map[string]interface{}{"config": c.String(), "key": hex.EncodeToString(key)})
		}
	}
	rep.Distribution["openssl_compared"] = openssl
	res, calls, err := modelPool(modelReqs, m.extra, 14)
	if err != nil {
		rep.ModelBroken = "extracted model protocol error: " + err.Error()
	} else {
		for k, got := range res {
			if got != implKeys[k] {
				rep.ModelMismatches = append(rep.ModelMismatches, map[string]interface{}{"config": grid[modelIdx[k]].String(), "implementation": implKeys[k], "model": got})
				rep.fail(map[string]interface{}{"config": grid[modelIdx[k]].String(), "password_hex": hx(grid[modelIdx[k]].pw), "salt_hex": hx(grid[modelIdx[k]].salt)},
					"RFC 9106 key (extracted Coq model): "+got, "argon2crypto.Key: "+implKeys[k], "key differs from the RFC 9106 algorithm")
			}
			rep.bump("model_keys")
		}
	}
	m.calls += calls
	// ---- verdicts on hash strings, with and without a v= field: the digest is the extracted model's key ----
	if rep.ModelBroken == "" {
		c04Strings(rep, m, r, tier)
	}
	// ---- block function: active implementation vs portable Go vs model, incl. aliased out ----
	nb := 300
	nModel := 40
	if tier == "thorough" {
		nb, nModel = 20000, 400
	}
	for i := 0; i < nb; i++ {
		var in1, in2, out0 [128]uint64
		for k := 0; k < 128; k++ {
			in1[k], in2[k], out0[k] = r.u64(), r.u64(), r.u64()
			if i%7 == 3 { // sparse blocks exercise carries differently
				in1[k] &= 0xFFFFFFFF
			}
		}
		xor := i%2 == 0
		for _, sse4 := range []bool{true, false} {
			old := argon2crypto.VerifSetSSE4(sse4 && old0)
			a, g := out0, out0
			ia, ib := in1, in2
			switch i % 5 {
			case 1: // out == in1
				a, g = in1, in1
				argon2crypto.VerifProcessBlock(&a, &a, &ib, xor)
				argon2crypto.VerifProcessBlockGeneric(&g, &g, &ib, xor)
			case 2: // out == in2
				a, g = in2, in2
				argon2crypto.VerifProcessBlock(&a, &ia, &a, xor)
				argon2crypto.VerifProcessBlockGeneric(&g, &ia, &g, xor)
			default:
				argon2crypto.VerifProcessBlock(&a, &ia, &ib, xor)
				argon2crypto.VerifProcessBlockGeneric(&g, &ia, &ib, xor)
			}
			argon2crypto.VerifSetSSE4(old)
			if a != g {
				rep.fail(map[string]interface{}{"triple": i, "xor": xor, "sse4": sse4, "aliasing": i % 5}, "portable Go result", "assembly result differs", "block compression differs between implementations")
			}
			if sse4 && i < nModel && i%5 != 1 && i%5 != 2 {
				got, err := m.run(fmt.Sprintf("argon2block %s %s %s %s", blockHex(&out0), blockHex(&in1), blockHex(&in2), map[bool]string{true: "1", false: "0"}[xor]))
				if err != nil {
					rep.ModelBroken = "extracted model protocol error: " + err.Error()
					break
				}
				if got != blockHex(&g) {
					rep.ModelMismatches = append(rep.ModelMismatches, map[string]interface{}{"block_triple": i, "xor": xor})
				}
				rep.bump("model_blocks")
			}
		}
		rep.count(fmt.Sprint("blk", i), true)
	}
	// ---- index mapping ----
	ni := 400
	if tier == "thorough" {
		ni = 5000
	}
	for i := 0; i < ni; i++ {
		threads := uint32(1 + r.intn(8))
		segments := uint32(2 + r.intn(6))
		lanes := 4 * segments
		n, slice, lane := uint32(r.intn(3)), uint32(r.intn(4)), uint32(r.intn(int(threads)))
		index := uint32(r.intn(int(segments)))
		if n == 0 && slice == 0 && index < 2 {
			index = 2 % segments
			if index < 2 {
				continue
			}
		}
		rand := r.u64()
		if i%4 == 0 {
			rand |= 0xFFFFFFFF
		}
		got := argon2crypto.VerifIndexAlpha(rand, lanes, segments, threads, n, slice, lane, index)
		var rb [8]byte
		binary.BigEndian.PutUint64(rb[:], rand)
		mg, err := m.run(fmt.Sprintf("argon2index %s %d %d %d %d %d %d %d", hex.EncodeToString(rb[:]), lanes, segments, threads, n, slice, lane, index))
		if err != nil {
			rep.ModelBroken = "extracted model protocol error: " + err.Error()
			break
		}
		if mg != fmt.Sprint(got) {
			rep.ModelMismatches = append(rep.ModelMismatches, map[string]interface{}{"indexAlpha": fmt.Sprint(rand, lanes, segments, threads, n, slice, lane, index), "implementation": got, "model": mg})
		}
		// RFC 9106 3.4.2: the reference must lie in the reference lane and never be the block being written
		cur := lane*lanes + slice*segments + index
		if got >= threads*lanes || got == cur {
			rep.fail(fmt.Sprint(rand, lanes, segments, threads, n, slice, lane, index), "a block of the memory other than the current one", got, "reference index out of range")
		}
		rep.count(fmt.Sprint("idx", i), true)
	}
	rep.Distribution["model_primitive_calls"] = m.calls
	rep.Rule = "keys: 3 variants x 2 versions x lanes x memory (multiples and non-multiples of 4*lanes) x time x tag lengths: default build (assembly, SSE4.1) vs SSE4.1 switched off vs the purego binary vs the extracted Coq model (RFC 9106 structure, real BLAKE2b) vs OpenSSL's Argon2; block function on random 1 KiB triples incl. out==in1 / out==in2: active vs portable vs model; indexAlpha pointwise vs model. Non-trivial = more than one lane or memory not a multiple of 4*lanes."
	return rep
}

var old0 = true

func fileExists(p string) bool { _, err := os.Stat(p); return err == nil }

// c04Strings: for the three variants and the three ways a version can be written (absent = 0x10, v=16, v=19), costs
// in any order of the m/t/p group, the string whose digest is the RFC 9106 key computed by the extracted model must
// verify (package checker and top-level dispatcher), and the string carrying the key of the other version must be a
// mismatch: the version a string states is the version that is derived.
func c04Strings(rep *report, m *modelProc, r *rng, tier string) {
	n := 2
	if tier == "thorough" {
		n = 8
	}
	enc := base64.RawStdEncoding
	for mode, name := range []string{"argon2d", "argon2i", "argon2id"} {
		for rep_ := 0; rep_ < n; rep_++ {
			pw := r.bytes(r.intn(24))
			salt := r.bytes(8 + r.intn(9))
			mem, tm, p := 8+r.intn(20), 1+r.intn(2), 1+r.intn(2)
			if mem < 8*p {
				mem = 8 * p
			}
			keys := map[int]string{}
			for _, ver := range []int{0x10, 0x13} {
				got, err := m.run(fmt.Sprintf("argon2 %d %d %s %s %d %d %d %d", mode, ver, hx(pw), hx(salt), tm, mem, p, 32))
				if err != nil {
					rep.ModelBroken = "extracted model protocol error: " + err.Error()
					return
				}
				keys[ver] = enc.EncodeToString(unhx(got))
			}
			costs := [][3]string{{"m", "t", "p"}, {"t", "p", "m"}, {"p", "m", "t"}}[rep_%3]
			val := map[string]int{"m": mem, "t": tm, "p": p}
			var cs []string
			for _, k := range costs {
				cs = append(cs, fmt.Sprintf("%s=%d", k, val[k]))
			}
			for _, v := range []struct {
				field string
				ver   int
			}{{"", 0x10}, {"v=16$", 0x10}, {"v=19$", 0x13}} {
				for _, which := range []int{0x10, 0x13} {
					h := fmt.Sprintf("$%s$%s%s$%s$%s", name, v.field, strings.Join(cs, ","), enc.EncodeToString(salt), keys[which])
					want := "mismatch"
					if which == v.ver {
						want = "nil"
					}
					for vi, via := range []string{"argon2.Check", "crypt.Check"} {
						// a rejected string in between (an error path must leave nothing behind): the same hash with a surplus
						// fragment, or with an explicit version and a broken cost group
						if vi == 0 {
							schemeByName("argon2").check(h+"$surplus", string(pw))
						} else {
							schemeByName("argon2").check(fmt.Sprintf("$%s$v=19$m=8,t=1$%s$%s", name, enc.EncodeToString(salt), keys[which]), string(pw))
						}
						var err error
						if via == "argon2.Check" {
							err = schemeByName("argon2").check(h, string(pw))
						} else {
							err = func() (e error) {
								defer func() {
									if x := recover(); x != nil {
										e = notePanic("crypt.Check", "hash="+quoteShort(h)+" password="+quoteShort(string(pw)), x)
									}
								}()
								return crypt.Check(h, string(pw))
							}()
						}
						got := "error: " + fmt.Sprint(err)
						if err == nil {
							got = "nil"
						} else if errors.Is(err, crypt.ErrPasswordMismatch) {
							got = "mismatch"
						}
						if got != want {
							rep.fail(map[string]interface{}{"hash": h, "password_hex": hx(pw), "via": via, "digest_is_rfc9106_key_of_version": fmt.Sprintf("%#x", which)},
								want, got, "verdict on an Argon2 hash string differs from the RFC 9106 key of the version the string states (absent v= means 0x10)")
						}
						rep.count("str "+h+via, true)
						rep.bump("string_verdicts")
					}
				}
			}
		}
	}
}

// modelPool evaluates independent requests on n extracted-model processes in parallel (results in request order).
func modelPool(reqs []string, extra func(p []string) (string, bool), n int) ([]string, int, error) {
	res := make([]string, len(reqs))
	if len(reqs) == 0 {
		return res, 0, nil
	}
	if n > len(reqs) {
		n = len(reqs)
	}
	var wg sync.WaitGroup
	var mu sync.Mutex
	var firstErr error
	next, calls := 0, 0
	for w := 0; w < n; w++ {
		wg.Add(1)
		go func() {
			defer wg.Done()
			mp, err := startModel()
			if err != nil {
				mu.Lock()
				firstErr = err
				mu.Unlock()
				return
			}
			mp.extra = extra
			defer mp.close()
			for {
				mu.Lock()
				k := next
				next++
				mu.Unlock()
				if k >= len(reqs) {
					break
				}
				got, err := mp.run(reqs[k])
				if err != nil {
					mu.Lock()
					firstErr = err
					mu.Unlock()
					return
				}
				res[k] = got
			}
			mu.Lock()
			calls += mp.calls
			mu.Unlock()
		}()
	}
	wg.Wait()
	return res, calls, firstErr
}

// buildPath: a file under /verif/build (bin/check passes its own build directory in VERIF_BUILD)
func buildPath(name string) string {
	d := os.Getenv("VERIF_BUILD")
	if d == "" {
		d = "/verif/build"
	}
	return filepath.Join(d, name)
}
