package main

// The ten scheme packages behind one interface, for the scheme-level correspondences (C01 C02 C06 C12 C14).

import (
	"fmt"
	"reflect"
	"runtime"
	"strings"
	"unicode/utf16"

	crypt "github.com/sergeymakinen/go-crypt"
	"github.com/sergeymakinen/go-crypt/argon2"
	"github.com/sergeymakinen/go-crypt/bcrypt"
	"github.com/sergeymakinen/go-crypt/des"
	"github.com/sergeymakinen/go-crypt/desext"
	"github.com/sergeymakinen/go-crypt/md5"
	"github.com/sergeymakinen/go-crypt/nthash"
	"github.com/sergeymakinen/go-crypt/sha1"
	"github.com/sergeymakinen/go-crypt/sha256"
	"github.com/sergeymakinen/go-crypt/sha512"
	"github.com/sergeymakinen/go-crypt/sunmd5"
)

// hparams is the common shape of what Params/Salt return.
type hparams struct {
	salt   []byte
	nums   []int64
	prefix string
	flag   bool
}

type schemeOps struct {
	name    string
	tag     int
	pkgPath string
	check   func(h, pw string) error
	// newHash with the cheapest cost the scheme allows (cost picks among cheap values)
	newHash func(pw string, cost int) (string, error)
	params  func(h string) (hparams, error)
	// key derives with the parameters Params returned
	key func(pw string, p hparams) ([]byte, error)
	// kdfArgs renders the arguments with which the Coq model calls the abstract derivation
	kdfArgs func(pw string, p hparams) (bs [][]byte, ns []int64)
	encode  func(key []byte) string
	coqName string
	// newHashRaw passes the cost through unchanged (sha1 only)
	newHashRaw func(pw string, cost uint32) (string, error)
}

func ntEncode(s string) []byte {
	a := utf16.Encode([]rune(s))
	b := make([]byte, len(a)*2)
	for i, r := range a {
		b[2*i], b[2*i+1] = byte(r), byte(r>>8)
	}
	return b
}

func bcryptKeyBytes(pw string, prefix string) []byte {
	p := []byte(pw)
	n := len(p)
	if prefix == bcrypt.Prefix2b && n > 72 {
		p = p[:72]
	} else if n >= 254 {
		p = []byte(strings.Repeat("0", 72))
	}
	if prefix != bcrypt.Prefix2 {
		p = append(append([]byte(nil), p...), 0)
	}
	return p
}

var cheapSha2 = []int{1000, 1001, 1003}

// costTables: the costs NewHash is asked for, by call index (cheap ones often, the rest of the lower range -- digit-count
// changes 9/10, 99/100, 9999/10000, the 6-bit digit boundaries of extended DES -- once per cycle)
var (
	costSha2   = []int{1000, 1001, 1003, 1000, 1009, 1010, 1000, 1099, 1100, 1001, 2000, 9999, 10000, 1003}
	costSha1   = []int{1, 2, 3, 4, 5, 6, 7, 8, 9, 10, 11, 12, 13, 14, 15, 16, 17, 18, 19, 20, 21, 22, 23, 24, 25, 26, 27, 28, 29, 30, 31, 32, 33, 34, 35, 36, 37, 38, 39, 40, 99, 100, 101, 1000}
	costSunmd5 = []int{0, 1, 2, 0, 9, 10, 1, 11, 99, 100, 2}
	costDesext = []int{1, 2, 3, 4, 5, 63, 64, 65, 1, 262144, 4096, 4097, 3, 262143, 4095, 300001} // odd positions 9, 13, 15: counts that need the fourth character of the field (C02 bases use even positions)
	costBcrypt = []int{4, 5, 4, 6, 5, 7, 4, 8, 5, 9, 4, 10}
	costArgonM = []int{8, 9, 10, 11, 12, 13, 14, 15, 16, 31, 32, 33, 63, 64, 65, 99, 100, 1024}
	costArgonT = []int{1, 2, 1, 3, 2, 9, 1, 10, 2, 11}
)

var schemes = []*schemeOps{
	{name: "md5", tag: 1, check: md5.Check, coqName: "md5",
		newHash: func(pw string, c int) (string, error) { return md5.NewHash(pw), nil },
		params:  func(h string) (hparams, error) { s, err := md5.Salt(h); return hparams{salt: s}, err },
		key:     func(pw string, p hparams) ([]byte, error) { return md5.Key([]byte(pw), p.salt) },
		kdfArgs: func(pw string, p hparams) ([][]byte, []int64) { return [][]byte{[]byte(pw), p.salt}, nil },
	},
	{name: "sha256", tag: 5, check: sha256.Check, coqName: "sha256",
		newHash: func(pw string, c int) (string, error) { return sha256.NewHash(pw, uint32(costSha2[c%len(costSha2)])) },
		params: func(h string) (hparams, error) {
			s, r, err := sha256.Params(h)
			return hparams{salt: s, nums: []int64{int64(r)}}, err
		},
		key:     func(pw string, p hparams) ([]byte, error) { return sha256.Key([]byte(pw), p.salt, uint32(p.nums[0])) },
		kdfArgs: func(pw string, p hparams) ([][]byte, []int64) { return [][]byte{[]byte(pw), p.salt}, p.nums },
	},
	{name: "sha512", tag: 6, check: sha512.Check, coqName: "sha512",
		newHash: func(pw string, c int) (string, error) { return sha512.NewHash(pw, uint32(costSha2[c%len(costSha2)])) },
		params: func(h string) (hparams, error) {
			s, r, err := sha512.Params(h)
			return hparams{salt: s, nums: []int64{int64(r)}}, err
		},
		key:     func(pw string, p hparams) ([]byte, error) { return sha512.Key([]byte(pw), p.salt, uint32(p.nums[0])) },
		kdfArgs: func(pw string, p hparams) ([][]byte, []int64) { return [][]byte{[]byte(pw), p.salt}, p.nums },
	},
	{name: "sha1", tag: 7, check: sha1.Check, coqName: "sha1",
		newHash:    func(pw string, c int) (string, error) { return sha1.NewHash(pw, uint32(costSha1[c%len(costSha1)])) },
		newHashRaw: func(pw string, c uint32) (string, error) { return sha1.NewHash(pw, c) },
		params: func(h string) (hparams, error) {
			s, r, err := sha1.Params(h)
			return hparams{salt: s, nums: []int64{int64(r)}}, err
		},
		key:     func(pw string, p hparams) ([]byte, error) { return sha1.Key([]byte(pw), p.salt, uint32(p.nums[0])) },
		kdfArgs: func(pw string, p hparams) ([][]byte, []int64) { return [][]byte{[]byte(pw), p.salt}, p.nums },
	},
	{name: "sunmd5", tag: 8, check: sunmd5.Check, coqName: "sunmd5",
		newHash: func(pw string, c int) (string, error) {
			return sunmd5.NewHash(pw, uint32(costSunmd5[c%len(costSunmd5)]))
		},
		params: func(h string) (hparams, error) {
			s, r, o, err := sunmd5.Params(h)
			if err != nil {
				return hparams{}, err
			}
			return hparams{salt: s, nums: []int64{int64(r)}, prefix: o.Prefix, flag: o.DisableSaltSeparator}, nil
		},
		key: func(pw string, p hparams) ([]byte, error) {
			return sunmd5.Key([]byte(pw), p.salt, uint32(p.nums[0]), &sunmd5.CompatibilityOptions{Prefix: p.prefix, DisableSaltSeparator: p.flag})
		},
		kdfArgs: func(pw string, p hparams) ([][]byte, []int64) {
			f := int64(0)
			if p.flag {
				f = 1
			}
			return [][]byte{[]byte(pw), p.salt, []byte(p.prefix)}, []int64{p.nums[0], f}
		},
	},
	{name: "des", tag: 9, check: des.Check, coqName: "des",
		newHash: func(pw string, c int) (string, error) { return des.NewHash(pw), nil },
		params:  func(h string) (hparams, error) { s, err := des.Salt(h); return hparams{salt: s}, err },
		key:     func(pw string, p hparams) ([]byte, error) { return des.Key([]byte(pw), p.salt) },
		kdfArgs: func(pw string, p hparams) ([][]byte, []int64) { return [][]byte{[]byte(pw), p.salt}, nil },
	},
	{name: "desext", tag: 10, check: desext.Check, coqName: "desext",
		newHash: func(pw string, c int) (string, error) {
			return desext.NewHash(pw, uint32(costDesext[c%len(costDesext)]))
		},
		params: func(h string) (hparams, error) {
			s, r, err := desext.Params(h)
			return hparams{salt: s, nums: []int64{int64(r)}}, err
		},
		key:     func(pw string, p hparams) ([]byte, error) { return desext.Key([]byte(pw), p.salt, uint32(p.nums[0])) },
		kdfArgs: func(pw string, p hparams) ([][]byte, []int64) { return [][]byte{[]byte(pw), p.salt}, p.nums },
	},
	{name: "bcrypt", tag: 2, check: bcrypt.Check, coqName: "bcrypt",
		newHash: func(pw string, c int) (string, error) {
			return bcrypt.NewHash(pw, uint8(costBcrypt[c%len(costBcrypt)]))
		},
		params: func(h string) (hparams, error) {
			s, c, o, err := bcrypt.Params(h)
			if err != nil {
				return hparams{}, err
			}
			return hparams{salt: s, nums: []int64{int64(c)}, prefix: o.Prefix}, nil
		},
		key: func(pw string, p hparams) ([]byte, error) {
			return bcrypt.Key([]byte(pw), p.salt, uint8(p.nums[0]), &bcrypt.CompatibilityOptions{Prefix: p.prefix})
		},
		kdfArgs: func(pw string, p hparams) ([][]byte, []int64) {
			return [][]byte{bcryptKeyBytes(pw, p.prefix), p.salt}, p.nums
		},
	},
	{name: "nthash", tag: 3, check: nthash.Check, coqName: "nthash",
		newHash: func(pw string, c int) (string, error) { return nthash.NewHash(pw) },
		params: func(h string) (hparams, error) {
			err := nthash.Check(h, "x")
			if err == crypt.ErrPasswordMismatch {
				err = nil
			}
			return hparams{}, err
		},
		key:     func(pw string, p hparams) ([]byte, error) { return nthash.Key(ntEncode(pw)) },
		kdfArgs: func(pw string, p hparams) ([][]byte, []int64) { return [][]byte{ntEncode(pw)}, nil },
	},
	{name: "argon2", tag: 4, check: argon2.Check, coqName: "argon2",
		newHash: func(pw string, c int) (string, error) {
			return argon2.NewHash(pw, uint32(costArgonM[c%len(costArgonM)]), uint32(costArgonT[c%len(costArgonT)]))
		},
		params: func(h string) (hparams, error) {
			s, m, t, th, o, err := argon2.Params(h)
			if err != nil {
				return hparams{}, err
			}
			return hparams{salt: s, nums: []int64{int64(m), int64(t), int64(th), int64(o.Version)}, prefix: o.Prefix}, nil
		},
		key: func(pw string, p hparams) ([]byte, error) {
			return argon2.Key([]byte(pw), p.salt, uint32(p.nums[0]), uint32(p.nums[1]), uint8(p.nums[2]), &argon2.CompatibilityOptions{Prefix: p.prefix, Version: int(p.nums[3])})
		},
		kdfArgs: func(pw string, p hparams) ([][]byte, []int64) {
			return [][]byte{[]byte(pw), p.salt, []byte(p.prefix)}, []int64{p.nums[3], p.nums[0], p.nums[1], p.nums[2]}
		},
	},
}

// panicErr: an exported function of the library panicked; the wrappers below turn that into an error value and
// record the call, and main appends every recorded panic to the report as a failure with the call as its input
// (every property presupposes that the call returns).
type panicErr struct {
	op, args string
	v        interface{}
}

func (p *panicErr) Error() string { return fmt.Sprintf("panic in %s: %v", p.op, p.v) }

var panicsSeen []*panicErr

func notePanic(op, args string, v interface{}) *panicErr {
	pe := &panicErr{op, args, v}
	panicsSeen = append(panicsSeen, pe)
	return pe
}

// firstLibFrame: the innermost frames of the current (panicking) stack that lie in the library
func firstLibFrame() string {
	pcs := make([]uintptr, 40)
	n := runtime.Callers(3, pcs)
	fr := runtime.CallersFrames(pcs[:n])
	var out []string
	for {
		f, more := fr.Next()
		if strings.Contains(f.Function, "sergeymakinen/go-crypt") {
			out = append(out, fmt.Sprintf("%s (%s:%d)", f.Function, f.File, f.Line))
		}
		if !more || len(out) >= 3 {
			break
		}
	}
	return "in " + strings.Join(out, " <- ")
}

func quoteShort(s string) string {
	if len(s) > 300 {
		return fmt.Sprintf("%q...(%d bytes)", s[:300], len(s))
	}
	return fmt.Sprintf("%q", s)
}

func init() {
	for _, s := range schemes {
		s.pkgPath = "github.com/sergeymakinen/go-crypt/" + s.name
		name := s.name
		if f := s.check; f != nil {
			s.check = func(h, pw string) (err error) {
				defer func() {
					if r := recover(); r != nil {
						err = notePanic(name+".Check", "hash="+quoteShort(h)+" password="+quoteShort(pw), r)
					}
				}()
				return f(h, pw)
			}
		}
		if f := s.newHash; f != nil {
			s.newHash = func(pw string, c int) (h string, err error) {
				defer func() {
					if r := recover(); r != nil {
						h, err = "", notePanic(name+".NewHash", fmt.Sprintf("password=%s cost_index=%d", quoteShort(pw), c), r)
					}
				}()
				return f(pw, c)
			}
		}
		if f := s.newHashRaw; f != nil {
			s.newHashRaw = func(pw string, c uint32) (h string, err error) {
				defer func() {
					if r := recover(); r != nil {
						h, err = "", notePanic(name+".NewHash", fmt.Sprintf("password=%s cost=%d", quoteShort(pw), c), r)
					}
				}()
				return f(pw, c)
			}
		}
		if f := s.params; f != nil {
			s.params = func(h string) (p hparams, err error) {
				defer func() {
					if r := recover(); r != nil {
						err = notePanic(name+".Params/Salt", "hash="+quoteShort(h), r)
					}
				}()
				return f(h)
			}
		}
	}
}

func schemeByName(n string) *schemeOps {
	for _, s := range schemes {
		if s.name == n {
			return s
		}
	}
	return nil
}

// keyErrDesc projects a typed scheme error to the Coq [kerr]; ok=false if err is not one of them.
func keyErrDesc(err error) (string, bool) {
	t := reflect.TypeOf(err)
	if t == nil || !strings.HasPrefix(t.PkgPath(), "github.com/sergeymakinen/go-crypt/") {
		return "", false
	}
	v := reflect.ValueOf(err)
	num := func() string {
		switch v.Kind() {
		case reflect.Int, reflect.Int8, reflect.Int16, reflect.Int32, reflect.Int64:
			return coqZ(v.Int())
		case reflect.Uint, reflect.Uint8, reflect.Uint16, reflect.Uint32, reflect.Uint64:
			return coqU64(v.Uint())
		}
		return "0"
	}
	switch t.Name() {
	case "InvalidPasswordLengthError":
		return "(KInvalidPasswordLength " + num() + ")", true
	case "InvalidSaltLengthError":
		return "(KInvalidSaltLength " + num() + ")", true
	case "InvalidSaltError":
		return "(KInvalidSalt " + num() + ")", true
	case "InvalidRoundsError":
		return "(KInvalidRounds " + num() + ")", true
	case "InvalidCostError":
		return "(KInvalidCost " + num() + ")", true
	case "InvalidMemoryError":
		return "(KInvalidMemory " + num() + ")", true
	case "InvalidTimeError":
		return "(KInvalidTime " + num() + ")", true
	case "InvalidThreadsError":
		return "(KInvalidThreads " + num() + ")", true
	case "UnsupportedPrefixError":
		return "(KUnsupportedPrefix " + coqStr(v.String()) + ")", true
	case "UnsupportedVersionError":
		return "(KUnsupportedVersion " + num() + ")", true
	}
	return "", false
}

// verdictDesc renders the outcome of a Check call as a Coq [verdict].
func verdictDesc(err error, pan interface{}) string {
	switch {
	case pan != nil:
		return "VPanic"
	case err == nil:
		return "VMatch"
	case err == crypt.ErrPasswordMismatch:
		return "VMismatch"
	}
	if k, ok := keyErrDesc(err); ok {
		return "(VKey " + k + ")"
	}
	if strings.HasPrefix(err.Error(), "failed to create blowfish cipher") {
		return "(VKey KOther)"
	}
	return "(VCodec " + errDesc(err) + ")"
}

func checkWatch(s *schemeOps, h, pw string) (err error, pan interface{}) {
	defer func() {
		if r := recover(); r != nil {
			pan = r
		}
	}()
	return s.check(h, pw), nil
}

// kdfTable computes, through the public API (Params then Key), the entry the model's abstract derivation
// needs for Check(h, pw); empty when the hash is not well-formed or Key rejects.
func kdfTable(s *schemeOps, h, pw string) string {
	defer func() { recover() }()
	p, err := s.params(h)
	if err != nil {
		return "[]"
	}
	k, err := s.key(pw, p)
	if err != nil {
		return "[]"
	}
	bs, ns := s.kdfArgs(pw, p)
	var bl, nl []string
	for _, b := range bs {
		bl = append(bl, coqBytes(b))
	}
	for _, n := range ns {
		nl = append(nl, coqZ(n))
	}
	if len(kdfEntries) < 4000 {
		e := kdfEntry{tag: s.tag, key: append([]byte(nil), k...), ns: append([]int64(nil), ns...)}
		for _, b := range bs {
			e.bs = append(e.bs, append([]byte(nil), b...))
		}
		kdfEntries = append(kdfEntries, e)
	}
	return fmt.Sprintf("[(%d, %s, %s, %s)]", s.tag, coqList(bl), coqList(nl), coqBytes(k))
}

// kdfEntries: every (tag, byte arguments, numbers, key) the run obtained from the real Params + Key, in the argument
// convention of the scheme models; C01 evaluates the extracted concrete derivation (Schemes/ConcreteBase.v: kdf_models)
// on them.
type kdfEntry struct {
	tag int
	bs  [][]byte
	ns  []int64
	key []byte
}

var kdfEntries []kdfEntry

func (e kdfEntry) request() string {
	parts := []string{"kdf", fmt.Sprint(e.tag), fmt.Sprint(len(e.bs))}
	for _, b := range e.bs {
		parts = append(parts, hx(b))
	}
	parts = append(parts, fmt.Sprint(len(e.ns)))
	for _, n := range e.ns {
		parts = append(parts, fmt.Sprint(n))
	}
	return strings.Join(parts, " ")
}

// checkKdfEntries runs the extracted concrete derivation on the collected entries (distinct ones, at most max) and
// reports every key that differs.
func checkKdfEntries(rep *report, max int) {
	seen := map[string]bool{}
	var reqs []string
	var ents []kdfEntry
	perTag := map[int]int{}
	for _, e := range kdfEntries {
		r := e.request()
		if seen[r] || perTag[e.tag] >= max {
			continue
		}
		seen[r] = true
		perTag[e.tag]++
		reqs = append(reqs, r)
		ents = append(ents, e)
	}
	if len(reqs) == 0 {
		return
	}
	res, _, err := modelPool(reqs, nil, 14)
	if err != nil {
		rep.ModelBroken = "the extracted concrete derivation cannot be evaluated: " + err.Error()
		return
	}
	for i, got := range res {
		if got != hx(ents[i].key) {
			rep.ModelMismatches = append(rep.ModelMismatches, map[string]interface{}{"concrete_derivation_request": reqs[i], "implementation_key": hx(ents[i].key), "model_key": got})
		}
		rep.bump(fmt.Sprintf("concrete_kdf_tag%d", ents[i].tag))
	}
}
