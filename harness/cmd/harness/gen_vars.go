package main

import (
	"go/ast"
	"go/parser"
	"go/token"
	"os"
	"path/filepath"
	"sort"
	"strings"
)

// genVars lists every package-level variable of the non-test sources with the number of places outside init
// functions (and outside its declaration) where it is assigned, and where its address is taken.
func genVars(repo string) string {
	type vinfo struct{ writes, addr int }
	var items []string
	pkgs := map[string][]string{}
	filepath.Walk(repo, func(path string, info os.FileInfo, err error) error {
		if err != nil || info.IsDir() {
			if err == nil && info.Name() == ".git" {
				return filepath.SkipDir
			}
			return nil
		}
		if strings.HasSuffix(path, ".go") && !strings.HasSuffix(path, "_test.go") && !strings.HasSuffix(path, "verif_hooks.go") && !strings.Contains(path, "internal/testutil") {
			pkgs[filepath.Dir(path)] = append(pkgs[filepath.Dir(path)], path)
		}
		return nil
	})
	var dirs []string
	for d := range pkgs {
		dirs = append(dirs, d)
	}
	sort.Strings(dirs)
	for _, d := range dirs {
		fset := token.NewFileSet()
		var files []*ast.File
		for _, p := range pkgs[d] {
			if f, err := parser.ParseFile(fset, p, nil, 0); err == nil {
				files = append(files, f)
			}
		}
		vars := map[string]*vinfo{}
		for _, f := range files {
			for _, dcl := range f.Decls {
				if gd, ok := dcl.(*ast.GenDecl); ok && gd.Tok == token.VAR {
					for _, sp := range gd.Specs {
						for _, n := range sp.(*ast.ValueSpec).Names {
							if n.Name != "_" {
								vars[n.Name] = &vinfo{}
							}
						}
					}
				}
			}
		}
		for _, f := range files {
			for _, dcl := range f.Decls {
				fd, ok := dcl.(*ast.FuncDecl)
				if !ok || fd.Body == nil {
					continue
				}
				isInit := fd.Recv == nil && fd.Name.Name == "init"
				// names shadowed by parameters / locals are not tracked precisely: a local of the same name would be
				// counted as a write (fail-safe)
				root := func(e ast.Expr) string {
					for {
						switch x := e.(type) {
						case *ast.Ident:
							return x.Name
						case *ast.IndexExpr:
							e = x.X
						case *ast.SelectorExpr:
							e = x.X
						case *ast.StarExpr:
							e = x.X
						case *ast.ParenExpr:
							e = x.X
						default:
							return ""
						}
					}
				}
				locals := map[string]bool{}
				ast.Inspect(fd, func(n ast.Node) bool {
					switch x := n.(type) {
					case *ast.AssignStmt:
						if x.Tok == token.DEFINE {
							for _, l := range x.Lhs {
								if id, ok := l.(*ast.Ident); ok {
									locals[id.Name] = true
								}
							}
						}
					case *ast.ValueSpec:
						for _, id := range x.Names {
							locals[id.Name] = true
						}
					case *ast.Field:
						for _, id := range x.Names {
							locals[id.Name] = true
						}
					case *ast.RangeStmt:
						for _, e := range []ast.Expr{x.Key, x.Value} {
							if id, ok := e.(*ast.Ident); ok {
								locals[id.Name] = true
							}
						}
					}
					return true
				})
				ast.Inspect(fd.Body, func(n ast.Node) bool {
					switch x := n.(type) {
					case *ast.AssignStmt:
						if x.Tok != token.DEFINE {
							for _, l := range x.Lhs {
								if v := vars[root(l)]; v != nil && !locals[root(l)] && !isInit {
									v.writes++
								}
							}
						}
					case *ast.IncDecStmt:
						if v := vars[root(x.X)]; v != nil && !locals[root(x.X)] && !isInit {
							v.writes++
						}
					case *ast.UnaryExpr:
						if x.Op == token.AND {
							if v := vars[root(x.X)]; v != nil && !locals[root(x.X)] {
								v.addr++
							}
						}
					}
					return true
				})
			}
		}
		var names []string
		for n := range vars {
			names = append(names, n)
		}
		sort.Strings(names)
		rel := strings.TrimPrefix(d, repo)
		rel = strings.TrimPrefix(rel, "/")
		for _, n := range names {
			items = append(items, "("+coqStr(rel)+", "+coqStr(n)+", "+coqNat(vars[n].writes)+", "+coqNat(vars[n].addr)+")")
		}
	}
	var sb strings.Builder
	sb.WriteString("(* generated from /repo on every run: package-level variables of non-test files, number of assignments\n   outside init functions, number of places their address is taken *)\n")
	sb.WriteString("Require Import GC.Base.Bytes.\nOpen Scope Z_scope.\n")
	sb.WriteString("Definition package_vars : list (bytes * bytes * nat * nat) := [\n  " + strings.Join(items, ";\n  ") + "\n].\n")
	return sb.String()
}
