package main

import (
	"fmt"
	"reflect"
	"strings"

	"github.com/sergeymakinen/go-crypt/argon2"
	"github.com/sergeymakinen/go-crypt/bcrypt"
	"github.com/sergeymakinen/go-crypt/des"
	"github.com/sergeymakinen/go-crypt/desext"
	"github.com/sergeymakinen/go-crypt/md5"
	"github.com/sergeymakinen/go-crypt/nthash"
	"github.com/sergeymakinen/go-crypt/sha1"
	"github.com/sergeymakinen/go-crypt/sha256"
	"github.com/sergeymakinen/go-crypt/sha512"
	"github.com/sergeymakinen/go-crypt/sunmd5"
)

func genLayouts() string {
	var sb strings.Builder
	sb.WriteString("(* generated from /repo on every run: the struct types the codec is driven with (reflect) *)\n")
	sb.WriteString("Require Import GC.Base.Bytes GC.Codec.Types.\nOpen Scope Z_scope.\n")
	for _, x := range []struct {
		name string
		t    reflect.Type
	}{
		{"argon2", argon2.VerifSchemeType()}, {"bcrypt", bcrypt.VerifSchemeType()}, {"des", des.VerifSchemeType()},
		{"desext", desext.VerifSchemeType()}, {"md5", md5.VerifSchemeType()}, {"nthash", nthash.VerifSchemeType()},
		{"sha1", sha1.VerifSchemeType()}, {"sha256", sha256.VerifSchemeType()}, {"sha512", sha512.VerifSchemeType()},
		{"sunmd5", sunmd5.VerifSchemeType()}, {"sunmd5_salt", sunmd5.VerifSaltSchemeType()},
	} {
		fmt.Fprintf(&sb, "Definition layout_%s : list sfield := %s.\n", x.name, structDesc(x.t))
	}
	return sb.String()
}
