package main

import (
	"fmt"
	"go/ast"
	"go/parser"
	"go/token"
	"path/filepath"
	"sort"
	"strconv"
	"strings"
)

// genIndex translates the integer functions argon2crypto.indexAlpha and argon2crypto.phi into Gallina definitions
// (Generated/Gen_index.v).  The fragment translated: parameters and locals of type uint32 / uint64, := and = (also
// in tuple form), op=, ++/--, if without else or with else, one return as the last statement, calls of other
// translated functions, conversions uint32(..)/uint64(..), integer literals and package constants.  Every
// arithmetic result is wrapped to the width of its Go type (u32/u64 of Kdf/Argon2.v); an `if` becomes a let-bound
// tuple of the variables it assigns.  A construct outside the fragment makes the body `untranslated`, a constant
// on which the tie theorem fails.
type arithTr struct {
	consts map[string]int64
	funcs  map[string]string // result type of the functions translated
	types  map[string]string // variable -> "u32" | "u64"
	elems  map[string]string // "ks[0]" -> name of the parameter that stands for it
	tables map[string]string // package-level lookup table -> element type
	bad    bool
}

func (tr *arithTr) typeName(e ast.Expr) string {
	if id, ok := e.(*ast.Ident); ok {
		switch id.Name {
		case "uint32":
			return "u32"
		case "uint64":
			return "u64"
		}
	}
	return ""
}

// expr returns (gallina, type); type "" = untyped constant, "bool" for conditions
func (tr *arithTr) expr(e ast.Expr) (string, string) {
	switch x := e.(type) {
	case *ast.ParenExpr:
		return tr.expr(x.X)
	case *ast.BasicLit:
		if x.Kind == token.INT {
			if v, err := strconv.ParseUint(x.Value, 0, 64); err == nil {
				return fmt.Sprint(v), ""
			}
		}
	case *ast.Ident:
		if t, ok := tr.types[x.Name]; ok {
			return x.Name, t
		}
		if v, ok := tr.consts[x.Name]; ok {
			return fmt.Sprint(v), ""
		}
	case *ast.IndexExpr:
		// ks[0] -> a parameter named by tr.elems; spe[K][IDX] -> a lookup in the regenerated table of that name
		if id, ok := x.X.(*ast.Ident); ok {
			if bl, ok := x.Index.(*ast.BasicLit); ok {
				if nm, ok := tr.elems[id.Name+"["+bl.Value+"]"]; ok {
					return nm, tr.types[nm]
				}
			}
		}
		if in, ok := x.X.(*ast.IndexExpr); ok {
			if id, ok := in.X.(*ast.Ident); ok && tr.tables[id.Name] != "" {
				if bl, ok := in.Index.(*ast.BasicLit); ok && bl.Kind == token.INT {
					idx, _ := tr.expr(x.Index)
					return fmt.Sprintf("(nthz (nth %s %s []) %s)", bl.Value, id.Name, idx), tr.tables[id.Name]
				}
			}
		}
	case *ast.CallExpr:
		if t := tr.typeName(x.Fun); t != "" && len(x.Args) == 1 {
			a, _ := tr.expr(x.Args[0])
			return fmt.Sprintf("(%s %s)", t, a), t
		}
		if id, ok := x.Fun.(*ast.Ident); ok {
			if rt, ok := tr.funcs[id.Name]; ok {
				var args []string
				for _, a := range x.Args {
					s, _ := tr.expr(a)
					args = append(args, s)
				}
				return fmt.Sprintf("(gen_%s %s)", id.Name, strings.Join(args, " ")), rt
			}
		}
	case *ast.BinaryExpr:
		a, ta := tr.expr(x.X)
		c, tc := tr.expr(x.Y)
		t := ta
		if t == "" {
			t = tc
		}
		switch x.Op {
		case token.LAND:
			return fmt.Sprintf("(%s && %s)", a, c), "bool"
		case token.LOR:
			return fmt.Sprintf("(%s || %s)", a, c), "bool"
		case token.EQL:
			return fmt.Sprintf("(%s =? %s)", a, c), "bool"
		case token.NEQ:
			return fmt.Sprintf("(negb (%s =? %s))", a, c), "bool"
		case token.LSS:
			return fmt.Sprintf("(%s <? %s)", a, c), "bool"
		case token.SHR:
			return fmt.Sprintf("(Z.shiftr %s %s)", a, c), ta
		case token.SHL:
			if ta != "" {
				return fmt.Sprintf("(%s (Z.shiftl %s %s))", ta, a, c), ta
			}
		}
		if ta != "" && tc != "" && ta != tc || t == "" || t == "bool" {
			break // mixed widths do not compile in Go; untyped-constant arithmetic is not in the fragment
		}
		switch x.Op {
		case token.ADD:
			return fmt.Sprintf("(%s (%s + %s))", t, a, c), t
		case token.SUB:
			return fmt.Sprintf("(%s (%s - %s))", t, a, c), t
		case token.MUL:
			return fmt.Sprintf("(%s (%s * %s))", t, a, c), t
		case token.REM:
			return fmt.Sprintf("(%s mod %s)", a, c), t
		case token.QUO:
			return fmt.Sprintf("(%s / %s)", a, c), t
		case token.AND:
			return fmt.Sprintf("(Z.land %s %s)", a, c), t
		case token.OR:
			return fmt.Sprintf("(Z.lor %s %s)", a, c), t
		case token.XOR:
			return fmt.Sprintf("(Z.lxor %s %s)", a, c), t
		}
	}
	tr.bad = true
	return "untranslated", ""
}

// assigned lists the variables a statement list assigns (in first-assignment order)
func (tr *arithTr) assigned(list []ast.Stmt, acc *[]string) {
	add := func(e ast.Expr) {
		if id, ok := e.(*ast.Ident); ok {
			for _, a := range *acc {
				if a == id.Name {
					return
				}
			}
			*acc = append(*acc, id.Name)
		} else {
			tr.bad = true
		}
	}
	for _, st := range list {
		switch x := st.(type) {
		case *ast.AssignStmt:
			if x.Tok == token.DEFINE {
				tr.bad = true // a declaration inside a branch would shadow: outside the fragment
			}
			for _, l := range x.Lhs {
				add(l)
			}
		case *ast.IncDecStmt:
			add(x.X)
		case *ast.IfStmt:
			tr.assigned(x.Body.List, acc)
			if el, ok := x.Else.(*ast.BlockStmt); ok {
				tr.assigned(el.List, acc)
			} else if x.Else != nil {
				tr.bad = true
			}
		default:
			tr.bad = true
		}
	}
}

// stmts emits the statements as nested lets ending in `tail`
func (tr *arithTr) stmts(list []ast.Stmt, tail string, top bool, ind string) string {
	if len(list) == 0 {
		return ind + tail
	}
	st, rest := list[0], list[1:]
	cont := func() string { return tr.stmts(rest, tail, top, ind) }
	switch x := st.(type) {
	case *ast.ReturnStmt:
		if top && len(rest) == 0 && len(x.Results) == 1 {
			s, _ := tr.expr(x.Results[0])
			return ind + s
		}
	case *ast.AssignStmt:
		if len(x.Lhs) != len(x.Rhs) {
			break
		}
		var names, vals, newTypes []string
		for i := range x.Lhs {
			id, ok := x.Lhs[i].(*ast.Ident)
			if !ok {
				tr.bad = true
				break
			}
			v, t := tr.expr(x.Rhs[i])
			switch x.Tok {
			case token.DEFINE:
				if !top || t == "" || t == "bool" {
					tr.bad = true
				}
				newTypes = append(newTypes, t) // visible after the statement
			case token.ASSIGN:
				if tr.types[id.Name] == "" {
					tr.bad = true
				}
				if t == "" { // untyped constant assigned to a typed variable
					t = tr.types[id.Name]
				}
			default:
				op := map[token.Token]string{token.ADD_ASSIGN: "+", token.SUB_ASSIGN: "-", token.MUL_ASSIGN: "*"}[x.Tok]
				bit := map[token.Token]string{token.XOR_ASSIGN: "Z.lxor", token.OR_ASSIGN: "Z.lor", token.AND_ASSIGN: "Z.land"}[x.Tok]
				w := tr.types[id.Name]
				if (op == "" && bit == "") || w == "" || len(x.Lhs) != 1 {
					tr.bad = true
				}
				if bit != "" {
					v = fmt.Sprintf("(%s %s %s)", bit, id.Name, v)
				} else {
					v = fmt.Sprintf("(%s (%s %s %s))", w, id.Name, op, v)
				}
			}
			names = append(names, id.Name)
			vals = append(vals, v)
		}
		if x.Tok == token.DEFINE && len(newTypes) == len(names) {
			for i, n := range names {
				tr.types[n] = newTypes[i]
			}
		}
		if len(names) == 1 {
			return fmt.Sprintf("%slet %s := %s in\n%s", ind, names[0], vals[0], cont())
		}
		return fmt.Sprintf("%slet '(%s) := (%s) in\n%s", ind, strings.Join(names, ", "), strings.Join(vals, ", "), cont())
	case *ast.IncDecStmt:
		if id, ok := x.X.(*ast.Ident); ok && tr.types[id.Name] != "" {
			op := "+"
			if x.Tok == token.DEC {
				op = "-"
			}
			return fmt.Sprintf("%slet %s := (%s (%s %s 1)) in\n%s", ind, id.Name, tr.types[id.Name], id.Name, op, cont())
		}
	case *ast.IfStmt:
		if x.Init != nil {
			break
		}
		c, ct := tr.expr(x.Cond)
		if ct != "bool" {
			break
		}
		var vars []string
		tr.assigned(x.Body.List, &vars)
		var elseList []ast.Stmt
		if el, ok := x.Else.(*ast.BlockStmt); ok {
			tr.assigned(el.List, &vars)
			elseList = el.List
		}
		sort.Strings(vars)
		for _, v := range vars {
			if tr.types[v] == "" {
				tr.bad = true
			}
		}
		tuple := strings.Join(vars, ", ")
		pat := tuple
		if len(vars) > 1 {
			tuple = "(" + tuple + ")"
			pat = "'" + tuple
		}
		if len(vars) == 0 {
			break
		}
		th := tr.stmts(x.Body.List, tuple, false, ind+"    ")
		el := tr.stmts(elseList, tuple, false, ind+"    ")
		return fmt.Sprintf("%slet %s := if %s then (\n%s)\n%s  else (\n%s) in\n%s", ind, pat, c, th, ind, el, cont())
	}
	tr.bad = true
	return ind + "untranslated"
}

func genIndex(repo string) string {
	var b strings.Builder
	b.WriteString("(* GENERATED by `harness gen` from argon2/argon2crypto/argon2.go (phi, indexAlpha) — do not edit. *)\n")
	b.WriteString("Require Import GC.Base.Bytes GC.Kdf.Argon2.\n\n")
	b.WriteString("Definition untranslated : Z := -1.\n\n")
	fset := token.NewFileSet()
	f, err := parser.ParseFile(fset, filepath.Join(repo, "argon2", "argon2crypto", "argon2.go"), nil, 0)
	order := []string{"phi", "indexAlpha"}
	decls := map[string]*ast.FuncDecl{}
	consts := map[string]int64{}
	if err == nil {
		for _, d := range f.Decls {
			switch x := d.(type) {
			case *ast.FuncDecl:
				if x.Recv == nil {
					decls[x.Name.Name] = x
				}
			case *ast.GenDecl:
				if x.Tok == token.CONST {
					for _, sp := range x.Specs {
						vs := sp.(*ast.ValueSpec)
						for i, nm := range vs.Names {
							if i < len(vs.Values) {
								if bl, ok := vs.Values[i].(*ast.BasicLit); ok && bl.Kind == token.INT {
									if v, err := strconv.ParseInt(bl.Value, 0, 64); err == nil {
										consts[nm.Name] = v
									}
								}
							}
						}
					}
				}
			}
		}
	}
	funcs := map[string]string{}
	for _, name := range order {
		fd := decls[name]
		tr := &arithTr{consts: consts, funcs: funcs, types: map[string]string{}}
		var params []string
		ok := fd != nil && fd.Body != nil && fd.Type.Results != nil && len(fd.Type.Results.List) == 1
		rt := ""
		if ok {
			rt = tr.typeName(fd.Type.Results.List[0].Type)
			for _, fl := range fd.Type.Params.List {
				t := tr.typeName(fl.Type)
				if t == "" {
					ok = false
				}
				for _, nm := range fl.Names {
					tr.types[nm.Name] = t
					params = append(params, nm.Name)
				}
			}
		}
		if !ok || rt == "" {
			fmt.Fprintf(&b, "Definition gen_%s_params : list (list nat * nat) := [].\nDefinition gen_%s : Z := untranslated.\n\n", name, name)
			continue
		}
		var ptypes []string
		for _, p := range params {
			ptypes = append(ptypes, fmt.Sprintf("%s", strings.TrimPrefix(tr.types[p], "u")))
		}
		body := tr.stmts(fd.Body.List, "untranslated", true, "  ")
		if tr.bad {
			body = "  untranslated (* a construct outside the translated fragment *)"
		}
		fmt.Fprintf(&b, "(* widths of the parameters and of the result *)\nDefinition gen_%s_sig : list Z * Z := ([%s], %s).\n", name, strings.Join(ptypes, "; "), strings.TrimPrefix(rt, "u"))
		fmt.Fprintf(&b, "Definition gen_%s (%s : Z) : Z :=\n%s.\n\n", name, strings.Join(params, " "), body)
		funcs[name] = rt
	}
	return b.String()
}
