package main

import (
	"flag"
	"fmt"
	"os"
	"runtime/pprof"
	"strconv"
)

type corrFn func(out string, seed uint64, tier string, replay string) *report

var corrs = map[string]corrFn{}

func main() {
	if len(os.Args) < 2 {
		fmt.Fprintln(os.Stderr, "usage: harness gen -out DIR | corr ID -out DIR [-seed N] [-tier quick|thorough]")
		os.Exit(2)
	}
	switch os.Args[1] {
	case "gen":
		fs := flag.NewFlagSet("gen", flag.ExitOnError)
		out := fs.String("out", "", "output directory for Generated/*.v")
		repo := fs.String("repo", "/repo", "repository root")
		fs.Parse(os.Args[2:])
		must(runGen(*out, *repo))
	case "c11deep":
		c11Deep()
	case "c18order":
		seed, _ := strconv.ParseUint(os.Args[2], 10, 64)
		c18Order(seed, os.Args[3], os.Args[4], os.Args[5])
	case "c04keys":
		seed, _ := strconv.ParseUint(os.Args[2], 10, 64)
		c04Keys(seed, os.Args[3])
	case "corr":
		if len(os.Args) < 3 {
			os.Exit(2)
		}
		id := os.Args[2]
		fs := flag.NewFlagSet("corr", flag.ExitOnError)
		out := fs.String("out", "", "output directory")
		seedS := fs.String("seed", "1", "seed")
		tier := fs.String("tier", "quick", "tier")
		replay := fs.String("replay", "", "replay file")
		fs.Parse(os.Args[3:])
		seed, _ := strconv.ParseUint(*seedS, 10, 64)
		fn, ok := corrs[id]
		if !ok {
			fmt.Fprintln(os.Stderr, "unknown property", id)
			os.Exit(2)
		}
		must(os.MkdirAll(*out, 0o755))
		if pf := os.Getenv("VERIF_PROF"); pf != "" {
			f, _ := os.Create(pf)
			pprof.StartCPUProfile(f)
			defer pprof.StopCPUProfile()
		}
		rep := fn(*out, seed, *tier, *replay)
		seenPanic := map[string]bool{}
		for _, pe := range panicsSeen {
			k := pe.op + fmt.Sprint(pe.v)
			if seenPanic[k] || len(seenPanic) >= 8 {
				continue
			}
			seenPanic[k] = true
			rep.fail(map[string]interface{}{"call": pe.op, "arguments": pe.args}, "the call returns a value or an error", fmt.Sprint("panic: ", pe.v), pe.op+" panics")
		}
		must(rep.write(*out))
	default:
		os.Exit(2)
	}
}
