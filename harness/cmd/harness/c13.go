package main

import (
	"bytes"
	"fmt"
	"sync"

	"github.com/sergeymakinen/go-crypt/sha1"
)

func init() { corrs["C13"] = corrC13 }

func corrC13(outDir string, seed uint64, tier string, replay string) *report {
	rep := newReport("C13", seed, tier)
	r := newRng(seed)
	cs := newCaseSet(outDir, "C13_bcrypt", []string{"GC.Base.GoSlice", "GC.Schemes.Purity"}, "nat * nat * bool * bool * list nat", "ok_bcrypt_buffer", 4000)
	type variant struct {
		tag      int
		name     string
		saltLen  int
		alpha    string
		nums     []int64
		hasOpts  bool
		prefix   string
		optNum   int64
		pwLens   []int
		maxPwLen int
	}
	common := []int{0, 1, 7, 8, 9, 15, 16, 17, 31, 32, 33, 55, 56, 63, 64, 65, 71, 72, 73, 74, 127, 128, 129, 253, 254, 255, 256}
	vs := []variant{
		{1, "md5", 8, alphaCrypt, nil, false, "", 0, common, 1 << 30},
		{5, "sha256", 16, alphaCrypt, []int64{1000}, false, "", 0, common, 1 << 30},
		{6, "sha512", 16, alphaCrypt, []int64{1000}, false, "", 0, common, 1 << 30},
		{7, "sha1", 8, alphaCrypt, []int64{5}, false, "", 0, common, 1 << 30},
		{8, "sunmd5", 8, alphaCrypt, []int64{0}, false, "", 0, common, 255},
		{8, "sunmd5/$md5$,nosep", 8, alphaCrypt, []int64{1}, true, "$md5$", 1, []int{0, 8, 255}, 255},
		{8, "sunmd5/nil,rounds=2", 8, alphaCrypt, []int64{2}, false, "", 0, []int{0, 8, 255}, 255},
		{8, "sunmd5/$md5,", 8, alphaCrypt, []int64{0}, true, "$md5,", 0, []int{0, 8}, 255},
		{5, "sha256/rounds=1001", 16, alphaCrypt, []int64{1001}, false, "", 0, []int{0, 33}, 1 << 30},
		{7, "sha1/rounds=6", 8, alphaCrypt, []int64{6}, false, "", 0, []int{0, 65}, 1 << 30},
		{10, "desext/rounds=3", 4, alphaCrypt, []int64{3}, false, "", 0, []int{0, 9}, 1 << 30},
		{2, "bcrypt/nil,cost=5", 22, alphaCrypt, []int64{5}, false, "", 0, []int{1, 73}, 1 << 30},
		{4, "argon2/nil,t=2", 11, b64Std, []int64{8, 2, 1}, false, "", 0, []int{0, 16}, 1 << 30},
		{4, "argon2/2d/v19", 11, b64Std, []int64{8, 1, 1}, true, "$argon2d$", 0x13, []int{0, 16}, 1 << 30},
		{2, "bcrypt/cost=10", 22, alphaCrypt, []int64{10}, false, "", 0, []int{9}, 1 << 30},
		{2, "bcrypt/$2a$/cost=11", 22, alphaCrypt, []int64{11}, true, "$2a$", 0, []int{73}, 1 << 30},
		{5, "sha256/rounds=20000", 16, alphaCrypt, []int64{20000}, false, "", 0, []int{17}, 1 << 30},
		{6, "sha512/rounds=12345", 16, alphaCrypt, []int64{12345}, false, "", 0, []int{65}, 1 << 30},
		{7, "sha1/rounds=3000", 8, alphaCrypt, []int64{3000}, false, "", 0, []int{21}, 1 << 30},
		{8, "sunmd5/rounds=6000", 8, alphaCrypt, []int64{6000}, false, "", 0, []int{12}, 255},
		{10, "desext/rounds=5000", 4, alphaCrypt, []int64{5000}, false, "", 0, []int{12}, 1 << 30},
		{4, "argon2/m=1024,t=3,p=2", 11, b64Std, []int64{1024, 3, 2}, false, "", 0, []int{10}, 1 << 30},
		{9, "des", 2, alphaCrypt, nil, false, "", 0, []int{0, 1, 7, 8}, 8},
		{10, "desext", 4, alphaCrypt, []int64{2}, false, "", 0, common, 1 << 30},
		{2, "bcrypt/nil", 22, alphaCrypt, []int64{4}, false, "", 0, common, 1 << 30},
		{2, "bcrypt/$2b$", 22, alphaCrypt, []int64{4}, true, "$2b$", 0, common, 1 << 30},
		{2, "bcrypt/$2a$", 22, alphaCrypt, []int64{4}, true, "$2a$", 0, common, 1 << 30},
		{2, "bcrypt/$2$", 22, alphaCrypt, []int64{4}, true, "$2$", 0, common[1:], 1 << 30},
		{3, "nthash", 0, "", nil, false, "", 0, []int{0, 2, 16, 64, 128, 254, 256}, 256},
		{4, "argon2", 11, b64Std, []int64{8, 1, 1}, false, "", 0, []int{0, 1, 16, 64, 128, 200}, 1 << 30},
		{4, "argon2/2i/v16/p2", 14, b64Std, []int64{16, 1, 2}, true, "$argon2i$", 0x10, []int{0, 8, 65}, 1 << 30},
	}
	// every successful call with private copies of its arguments and its first result, for the history phase
	type past struct {
		name string
		a    keyArgs
		key  []byte
	}
	var hist []past
	spares := []int{0, 1, 3, 40}
	if tier == "thorough" {
		spares = []int{0, 1, 2, 3, 8, 40, 200}
	}
	for _, v := range vs {
		for _, n := range v.pwLens {
			if n > v.maxPwLen {
				continue
			}
			for _, spare := range spares {
				// password and salt as sub-slices of sentinel-filled buffers
				mk := func(content []byte, spare int) (buf, sl []byte) {
					buf = bytes.Repeat([]byte{0xA5}, 5+len(content)+spare)
					copy(buf[5:], content)
					return buf, buf[5 : 5+len(content) : 5+len(content)+spare]
				}
				pwContent := []byte(r.str(n, "abcxyzABC0189\xe9\x80"))
				saltContent := []byte(r.str(v.saltLen, v.alpha))
				pwBuf, pw := mk(pwContent, spare)
				saltBuf, salt := mk(saltContent, spare)
				pwBefore := append([]byte(nil), pwBuf...)
				saltBefore := append([]byte(nil), saltBuf...)
				a := keyArgs{tag: v.tag, pw: pw, salt: salt, nums: v.nums, hasOpts: v.hasOpts, prefix: v.prefix, optNum: v.optNum}
				call := func() ([]byte, error) { return keyOf(a) }
				// the reference for the buffer-reuse step below is taken first, from fresh slices, before the buffers are used
				altPw := []byte(r.str(n, "abcxyzABC0189\xe9\x80"))
				altSalt := []byte(r.str(v.saltLen, v.alpha))
				fa := a
				fa.pw, fa.salt = append([]byte(nil), altPw...), append([]byte(nil), altSalt...)
				kFresh, errFresh := keyOf(fa)
				k1, err := call()
				if err != nil {
					rep.fail(fmt.Sprint(v.name, " len=", n), "a key", err.Error(), "Key rejects an in-domain argument")
					continue
				}
				var changed []int
				for i := range pwBuf {
					if pwBuf[i] != pwBefore[i] {
						changed = append(changed, i-5)
					}
				}
				if len(changed) > 0 || !bytes.Equal(saltBuf, saltBefore) {
					rep.fail(map[string]interface{}{"scheme": v.name, "password_len": n, "spare_capacity": spare}, "arguments untouched over their full capacity",
						fmt.Sprintf("password buffer changed at offsets %v (relative to the password start); salt changed: %v", changed, !bytes.Equal(saltBuf, saltBefore)), "Key writes into its arguments")
				}
				c1 := append([]byte(nil), k1...)
				if spare == 0 {
					hist = append(hist, past{v.name, keyArgs{tag: v.tag, pw: append([]byte(nil), pw...), salt: append([]byte(nil), salt...), nums: v.nums, hasOpts: v.hasOpts, prefix: v.prefix, optNum: v.optNum}, c1})
				}
				k2, _ := call()
				if !bytes.Equal(k2, c1) && !(v.tag == 7 && v.nums[0] == sha1.RandomRounds) {
					rep.fail(map[string]interface{}{"scheme": v.name, "password_len": n}, fmt.Sprintf("%x", c1), fmt.Sprintf("%x", k2), "Key is not deterministic")
				}
				// aliasing: scribble over the first result, nothing else may move
				for i := range k1 {
					k1[i] ^= 0xFF
				}
				k3, _ := call()
				if !bytes.Equal(k2, c1) || !bytes.Equal(k3, c1) || !bytes.Equal(pwBuf, pwBefore) && len(changed) == 0 || !bytes.Equal(saltBuf, saltBefore) {
					rep.fail(map[string]interface{}{"scheme": v.name, "password_len": n}, "result shares no memory with arguments, package state or other results", "a later result or an argument changed when an earlier result was overwritten", "returned slice is aliased")
				}
				// every result handed out is the caller's to overwrite: scribble over the second and third ones as well
				// (a result served from a memo would be the memo itself) and derive once more
				for i := range k2 {
					k2[i] ^= 0x5A
				}
				for i := range k3 {
					k3[i] ^= 0xA5
				}
				if k5, _ := call(); !bytes.Equal(k5, c1) {
					rep.fail(map[string]interface{}{"scheme": v.name, "password_len": n, "history": "the same call four times; the first three results were overwritten by the caller"}, fmt.Sprintf("%x", c1), fmt.Sprintf("%x", k5),
						"a result is served from memory that an earlier result still shares (overwriting a returned key changes a later one)")
				}
				// full capacity of the result must not overlap the arguments either: write into spare capacity of the result
				if cap(k1) > len(k1) {
					ext := k1[:cap(k1)]
					for i := len(k1); i < len(ext); i++ {
						ext[i] ^= 0xFF
					}
					k4, _ := call()
					if !bytes.Equal(k4, c1) || !bytes.Equal(saltBuf, saltBefore) {
						rep.fail(map[string]interface{}{"scheme": v.name, "password_len": n}, "spare capacity of the result is private", "a later result changed", "returned slice's capacity is aliased")
					}
				}
				// the caller reuses its buffers for other contents of the same lengths: the result must be the one a call
				// with fresh slices of those contents gets (equal arguments are equal bytes, not equal addresses)
				if spare == 0 || spare == 3 {
					copy(pw, altPw)
					copy(salt, altSalt)
					kReuse, errReuse := call()
					if !bytes.Equal(kReuse, kFresh) || (errReuse == nil) != (errFresh == nil) {
						rep.fail(map[string]interface{}{"scheme": v.name, "password_len": n, "first_password": string(pwContent), "first_salt": string(saltContent),
							"then_in_the_same_buffers_password": string(altPw), "salt": string(altSalt)},
							fmt.Sprintf("%x %v (fresh slices with the second contents)", kFresh, errFresh), fmt.Sprintf("%x %v", kReuse, errReuse),
							"Key returns another result when the caller reuses its buffers for new contents (result depends on addresses or on earlier calls)")
					}
					copy(pw, pwContent)
					copy(salt, saltContent)
					if kBack, _ := call(); !bytes.Equal(kBack, c1) {
						rep.fail(map[string]interface{}{"scheme": v.name, "password_len": n}, fmt.Sprintf("%x", c1), fmt.Sprintf("%x", kBack), "Key is not deterministic after the buffers were reused and restored")
					}
					rep.bump("buffer_reuse")
				}
				if v.tag == 2 {
					var cl []string
					for _, c := range changed {
						cl = append(cl, coqNat(c))
					}
					is2 := v.prefix == "$2$"
					is2b := !v.hasOpts || v.prefix == "$2b$"
					cs.add(fmt.Sprintf("(%s, %s, %s, %s, %s)", coqNat(n), coqNat(spare), coqBool(is2), coqBool(is2b), coqList(cl)),
						map[string]interface{}{"variant": v.name, "password_len": n, "spare": spare})
				}
				rep.count(fmt.Sprint(v.name, n, spare), spare > 0)
				rep.bump(v.name)
				if n == 72 && spare == 3 {
					rep.sample(map[string]interface{}{"scheme": v.name, "password_len": n, "spare_capacity": spare, "changed_offsets": changed})
				}
			}
		}
	}
	// option arguments, including partially filled ones (the call may fail): the struct is never written, and the
	// outcome (key or error text) is the same on every call
	type optCase struct {
		tag    int
		prefix string
		num    int64
		salt   string
		nums   []int64
	}
	var ocs []optCase
	for _, p := range []string{"", "$argon2id$", "$argon2i$", "$argon2d$", "$argon2$", "$2b$"} {
		for _, ver := range []int64{0, 0x10, 0x13, 0x14, -1, 0x110, 0x10013} {
			ocs = append(ocs, optCase{4, p, ver, "c29tZXNhbHRzYWx0", []int64{8, 1, 1}})
		}
	}
	for _, p := range []string{"", "$md5$", "$md5,", "$md5", "$1$"} {
		for _, d := range []int64{0, 1} {
			for _, rounds := range []int64{0, 1, 7} {
				ocs = append(ocs, optCase{8, p, d, "saltsalt", []int64{rounds}})
			}
		}
	}
	for _, p := range []string{"", "$2$", "$2a$", "$2b$", "$2x$", "$2y$", "$2c$", "$1$"} {
		ocs = append(ocs, optCase{2, p, 0, "abcdefghijklmnopqrstuu", []int64{4}})
	}
	for _, oc := range ocs {
		a := keyArgs{tag: oc.tag, pw: []byte("password"), salt: []byte(oc.salt), nums: oc.nums, hasOpts: true, prefix: oc.prefix, optNum: oc.num}
		var first string
		for rpt := 0; rpt < 3; rpt++ {
			k, err := keyOf(a)
			got := fmt.Sprintf("%x|%v", k, err)
			if rpt == 0 {
				first = got
			} else if got != first {
				rep.fail(map[string]interface{}{"scheme_tag": oc.tag, "options_prefix": oc.prefix, "options_number": oc.num, "call": rpt + 1}, first, got,
					"the same Key call with the same options returns something else when repeated")
			}
		}
		rep.count(fmt.Sprint("opts", oc), true)
		rep.bump("option_cases")
	}
	// history independence: the same calls again in two other orders (reverse, shuffled) — a result may depend on
	// nothing but the call's own arguments, in particular not on which calls (other schemes, other option paths)
	// came before it
	for pass := 0; pass < 2; pass++ {
		order := make([]int, len(hist))
		for i := range order {
			order[i] = len(hist) - 1 - i
		}
		if pass == 1 {
			for i := len(order) - 1; i > 0; i-- {
				j := r.intn(i + 1)
				order[i], order[j] = order[j], order[i]
			}
		}
		prev := "none"
		for _, i := range order {
			h := hist[i]
			k, err := keyOf(h.a)
			if err != nil || !bytes.Equal(k, h.key) {
				rep.fail(map[string]interface{}{"scheme": h.name, "password_len": len(h.a.pw), "nums": h.a.nums, "options": h.a.hasOpts, "previous_call": prev, "pass": pass},
					fmt.Sprintf("%x", h.key), fmt.Sprintf("%x %v", k, err), "Key depends on the calls made before it (same arguments, different result)")
			}
			prev = h.name
			rep.count(fmt.Sprint("hist", pass, i), true)
			rep.bump("history_replays")
		}
	}
	// determinism does not depend on what else is running: the recorded calls again, from 8 goroutines at once
	// (shuffled per goroutine), each result compared with the first one
	{
		type bad struct {
			name     string
			got, exp []byte
		}
		var mu sync.Mutex
		var bads []bad
		var wg sync.WaitGroup
		sample := hist
		if len(sample) > 160 {
			sample = sample[:160]
		}
		for w := 0; w < 8; w++ {
			wg.Add(1)
			wr := newRng(seed*131 + uint64(w))
			go func() {
				defer wg.Done()
				for k := 0; k < len(sample); k++ {
					h := sample[wr.intn(len(sample))]
					a := h.a
					a.pw, a.salt = append([]byte(nil), a.pw...), append([]byte(nil), a.salt...)
					got, err := keyOf(a)
					if err != nil || !bytes.Equal(got, h.key) {
						mu.Lock()
						if len(bads) < 4 {
							bads = append(bads, bad{h.name, got, h.key})
						}
						mu.Unlock()
					}
				}
			}()
		}
		wg.Wait()
		for _, b := range bads {
			rep.fail(map[string]interface{}{"scheme": b.name, "concurrency": "8 goroutines deriving keys of all schemes at once"}, fmt.Sprintf("%x", b.exp), fmt.Sprintf("%x", b.got),
				"Key returns another result for the same arguments while other derivations are running (shared scratch memory)")
		}
		rep.Distribution["concurrent_rederivations"] = 8 * len(sample)
	}
	for _, oc := range optsChanged {
		rep.fail(oc, "the options argument holds after the call what it held before", oc["after_the_call"], "Key writes into the options struct passed by the caller")
	}
	must(cs.flush())
	rep.CaseSets = []string{"C13_bcrypt"}
	rep.Exhaustive = true
	rep.ExhaustiveSpaces = []string{"every Key function / option variant x password lengths around 8/16/32/64/72/128/254/255/256 x spare capacities"}
	rep.Rule = "password and salt are sub-slices (len < cap) of sentinel-filled buffers; after Key the whole buffers (incl. spare capacity) must be unchanged; the call is repeated (determinism), the first result is overwritten over its full capacity and later results must not move (no aliasing with arguments, package state or other results). Afterwards all calls are repeated in reverse and in shuffled order and must return their first results (independence of the call history and of package state). For bcrypt the offsets changed in the password buffer are also compared with the Coq heap model. Non-trivial = spare capacity > 0; distinct by (variant, length, spare)."
	return rep
}
