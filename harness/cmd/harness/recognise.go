package main

// Independent recognisers of the ten documented hash layouts (C06's oracle), written from the layout
// descriptions, not from the codec: split on '$', groups on ',', one bare trailing '$' tolerated,
// integers in any ParseUint spelling, explicit zero of an optional cost = absent (DESIGN.md §5.2).

import (
	"encoding/base64"
	"encoding/hex"
	"strconv"
	"strings"
)

func inAlpha(s, alpha string) bool {
	for i := 0; i < len(s); i++ {
		if strings.IndexByte(alpha, s[i]) < 0 {
			return false
		}
	}
	return true
}

// body fragments after the prefix; ok=false when the text cannot be a fragment list of plain values
func plainFrags(body string) ([]string, bool) {
	if strings.HasSuffix(body, "$") {
		body = body[:len(body)-1] // one bare trailing '$'
		if body == "" {
			return nil, true
		}
	}
	if body == "" {
		return nil, true
	}
	return strings.Split(body, "$"), true
}

func parseU(s string, bits int) (uint64, bool) {
	v, err := strconv.ParseUint(s, 10, bits)
	return v, err == nil
}

type recog struct {
	ok   bool // well-formed and within the exported limits
	p    hparams
	sum  string
	skip bool // outside what the oracle decides (sha1 random rounds)
}

var b64Std = "ABCDEFGHIJKLMNOPQRSTUVWXYZabcdefghijklmnopqrstuvwxyz0123456789+/"

func recognise(name, h string) recog {
	bad := recog{}
	switch name {
	case "md5":
		if !strings.HasPrefix(h, "$1$") {
			return bad
		}
		fr, _ := plainFrags(h[3:])
		if len(fr) != 2 || strings.Contains(h[3:], ",") {
			return bad
		}
		if !inAlpha(fr[0], alphaCrypt) || len(fr[0]) > 8 || len(fr[1]) != 22 || !inAlpha(fr[1], alphaCrypt) {
			return bad
		}
		return recog{ok: true, p: hparams{salt: []byte(fr[0])}, sum: fr[1]}
	case "sha256", "sha512":
		pre, sumLen, impl := "$5$", 43, uint64(5000)
		if name == "sha512" {
			pre, sumLen = "$6$", 86
		}
		if !strings.HasPrefix(h, pre) || strings.Contains(h[3:], ",") {
			return bad
		}
		fr, _ := plainFrags(h[3:])
		rounds := impl
		switch len(fr) {
		case 2:
		case 3:
			if !strings.HasPrefix(fr[0], "rounds=") {
				return bad
			}
			v, ok := parseU(fr[0][7:], 32)
			if !ok {
				return bad
			}
			if v != 0 {
				rounds = v
			}
			fr = fr[1:]
		default:
			return bad
		}
		if !inAlpha(fr[0], alphaCrypt) || len(fr[0]) > 16 || len(fr[1]) != sumLen || !inAlpha(fr[1], alphaCrypt) {
			return bad
		}
		if rounds < 1000 || rounds > 999999999 {
			return bad
		}
		return recog{ok: true, p: hparams{salt: []byte(fr[0]), nums: []int64{int64(rounds)}}, sum: fr[1]}
	case "sha1":
		if !strings.HasPrefix(h, "$sha1$") || strings.Contains(h[6:], ",") {
			return bad
		}
		fr, _ := plainFrags(h[6:])
		if len(fr) != 3 {
			return bad
		}
		if !inAlpha(fr[0], alphaCrypt) { // the codec checks the field alphabet before parsing the number
			return bad
		}
		v, ok := parseU(fr[0], 32)
		if !ok || v < 1 {
			return bad
		}
		if !inAlpha(fr[1], alphaCrypt) || len(fr[1]) > 64 || len(fr[2]) != 28 || !inAlpha(fr[2], alphaCrypt) {
			return bad
		}
		if v == 4294967295 {
			return recog{skip: true}
		}
		return recog{ok: true, p: hparams{salt: []byte(fr[1]), nums: []int64{int64(v)}}, sum: fr[2]}
	case "sunmd5":
		var pre string
		switch {
		case strings.HasPrefix(h, "$md5,"):
			pre = "$md5,"
		case strings.HasPrefix(h, "$md5$"):
			pre = "$md5$"
		default:
			return bad
		}
		if strings.Contains(h[5:], ",") {
			return bad
		}
		fr, _ := plainFrags(h[5:])
		if len(fr) < 2 || len(fr) > 4 || !strings.HasPrefix(fr[0], "rounds=") {
			return bad
		}
		if !inAlpha(fr[0][7:], alphaCrypt) {
			return bad
		}
		v, ok := parseU(fr[0][7:], 32)
		if !ok || v > 4294967295-4096 {
			return bad
		}
		p := hparams{nums: []int64{int64(v)}, prefix: pre, flag: true}
		sum := fr[len(fr)-1]
		switch len(fr) {
		case 3:
			p.salt = []byte(fr[1])
		case 4:
			if fr[2] != "" {
				return bad
			}
			p.salt = []byte(fr[1])
			p.flag = false
		}
		if !inAlpha(string(p.salt), alphaCrypt) || len(p.salt) > 8 || len(sum) != 22 || !inAlpha(sum, alphaCrypt) {
			return bad
		}
		if p.salt == nil {
			p.salt = []byte{}
		}
		return recog{ok: true, p: p, sum: sum}
	case "des":
		t := h
		if strings.HasSuffix(t, "$") {
			t = t[:len(t)-1]
		}
		if len(t) != 13 || !inAlpha(t, alphaCrypt) {
			return bad
		}
		return recog{ok: true, p: hparams{salt: []byte(t[:2])}, sum: t[2:]}
	case "desext":
		if !strings.HasPrefix(h, "_") {
			return bad
		}
		t := h[1:]
		if strings.HasSuffix(t, "$") {
			t = t[:len(t)-1]
		}
		if len(t) != 19 || !inAlpha(t, alphaCrypt) {
			return bad
		}
		var rounds uint32
		for i := 0; i < 4; i++ {
			rounds += uint32(strings.IndexByte(alphaCrypt, t[i])) << uint(6*i)
		}
		if rounds < 1 {
			return bad
		}
		return recog{ok: true, p: hparams{salt: []byte(t[4:8]), nums: []int64{int64(rounds)}}, sum: t[8:]}
	case "bcrypt":
		var pre string
		for _, c := range []string{"$2$", "$2a$", "$2b$"} {
			if strings.HasPrefix(h, c) {
				pre = c
			}
		}
		if pre == "" || strings.Contains(h[len(pre):], ",") {
			return bad
		}
		fr, _ := plainFrags(h[len(pre):])
		if len(fr) != 2 || len(fr[0]) != 2 || !inAlpha(fr[0], "0123456789") || len(fr[1]) != 53 || !inAlpha(fr[1], alphaCrypt) {
			return bad
		}
		c, _ := parseU(fr[0], 8)
		if c < 4 || c > 31 {
			return bad
		}
		return recog{ok: true, p: hparams{salt: []byte(fr[1][:22]), nums: []int64{int64(c)}, prefix: pre}, sum: fr[1][22:]}
	case "nthash":
		if !strings.HasPrefix(h, "$3$") || strings.Contains(h[3:], ",") {
			return bad
		}
		fr, _ := plainFrags(h[3:])
		if len(fr) != 2 || fr[0] != "" || len(fr[1]) != 32 || !inAlpha(fr[1], alphaCrypt) {
			return bad
		}
		return recog{ok: true, sum: fr[1]}
	case "argon2":
		var pre string
		for _, c := range []string{"$argon2d$", "$argon2i$", "$argon2id$"} {
			if strings.HasPrefix(h, c) {
				pre = c
			}
		}
		if pre == "" {
			return bad
		}
		body := h[len(pre):]
		if strings.HasSuffix(body, "$") {
			body = body[:len(body)-1]
		}
		fr := strings.Split(body, "$")
		version := uint64(0x10)
		if len(fr) == 4 {
			if !strings.HasPrefix(fr[0], "v=") || strings.Contains(fr[0], ",") || !inAlpha(fr[0][2:], alphaCrypt) {
				return bad
			}
			v, ok := parseU(fr[0][2:], 8)
			if !ok {
				return bad
			}
			if v != 0 {
				version = v
			}
			fr = fr[1:]
		}
		if len(fr) != 3 {
			return bad
		}
		members := strings.Split(fr[0], ",")
		if len(members) != 3 {
			return bad
		}
		got := map[string]uint64{}
		for _, m := range members {
			i := strings.IndexByte(m, '=')
			if i != 1 || strings.IndexByte("mtp", m[0]) < 0 || !inAlpha(m[2:], alphaCrypt) {
				return bad
			}
			if _, dup := got[m[:1]]; dup {
				return bad
			}
			bits := 32
			if m[0] == 'p' {
				bits = 8
			}
			v, ok := parseU(m[2:], bits)
			if !ok {
				return bad
			}
			got[m[:1]] = v
		}
		if strings.Contains(fr[1], ",") || strings.Contains(fr[2], ",") {
			return bad
		}
		if !inAlpha(fr[1], b64Std) || len(fr[1]) < 11 || !inAlpha(fr[2], b64Std) {
			return bad
		}
		if version != 0x10 && version != 0x13 {
			return bad
		}
		if got["m"] < 8 || got["t"] < 1 || got["p"] < 1 {
			return bad
		}
		return recog{ok: true, p: hparams{salt: []byte(fr[1]), nums: []int64{int64(got["m"]), int64(got["t"]), int64(got["p"]), int64(version)}, prefix: pre}, sum: fr[2]}
	}
	return bad
}

// refSum re-encodes a derived key the way the scheme's documentation says the digest is written.
func refSum(name string, key []byte) string {
	switch name {
	case "md5", "sha1", "sha256", "sha512", "sunmd5":
		return refEncode(alphaCrypt, -1, key)
	case "des", "desext":
		return base64.NewEncoding(alphaCrypt).WithPadding(base64.NoPadding).EncodeToString(key)
	case "bcrypt":
		return base64.NewEncoding(alphaBcrypt).WithPadding(base64.NoPadding).EncodeToString(key)
	case "nthash":
		return hex.EncodeToString(key)
	case "argon2":
		return base64.RawStdEncoding.EncodeToString(key)
	}
	return ""
}
