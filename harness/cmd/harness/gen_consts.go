package main

import (
	"fmt"
	"strings"

	"github.com/sergeymakinen/go-crypt/argon2"
	"github.com/sergeymakinen/go-crypt/bcrypt"
	"github.com/sergeymakinen/go-crypt/des"
	"github.com/sergeymakinen/go-crypt/des/descrypt"
	"github.com/sergeymakinen/go-crypt/desext"
	crypthash "github.com/sergeymakinen/go-crypt/hash"
	"github.com/sergeymakinen/go-crypt/md5"
	"github.com/sergeymakinen/go-crypt/md5/md5crypt"
	"github.com/sergeymakinen/go-crypt/nthash"
	"github.com/sergeymakinen/go-crypt/sha1"
	"github.com/sergeymakinen/go-crypt/sha256"
	"github.com/sergeymakinen/go-crypt/sha512"
	"github.com/sergeymakinen/go-crypt/sunmd5"
)

func defZ(sb *strings.Builder, name string, v uint64) {
	fmt.Fprintf(sb, "Definition %s : Z := %d.\n", name, v)
}
func defBytes(sb *strings.Builder, name string, b []byte) {
	fmt.Fprintf(sb, "Definition %s : bytes := %s.\n", name, coqBytes(b))
}
func defBool(sb *strings.Builder, name string, b bool) {
	fmt.Fprintf(sb, "Definition %s : bool := %s.\n", name, coqBool(b))
}
func coqU64List(xs []uint64) string {
	items := make([]string, len(xs))
	for i, x := range xs {
		items[i] = coqU64(x)
	}
	return "[" + strings.Join(items, ";") + "]"
}

// alphabets are read off the behaviour of the exported encodings (semantic, survives re-spelling)
func leAlphabet() ([]byte, bool) {
	a := make([]byte, 64)
	for i := 0; i < 64; i++ {
		a[i] = crypthash.LittleEndianEncoding.EncodeToString([]byte{byte(i)})[0]
	}
	return a, len(crypthash.LittleEndianEncoding.EncodeToString([]byte{1})) != 2
}
func beAlphabet(enc interface{ EncodeToString([]byte) string }) ([]byte, bool) {
	a := make([]byte, 64)
	for i := 0; i < 64; i++ {
		a[i] = enc.EncodeToString([]byte{byte(i << 2)})[0]
	}
	return a, len(enc.EncodeToString([]byte{1})) != 2
}

func genConsts() string {
	var sb strings.Builder
	sb.WriteString("(* generated from /repo on every run: exported limits, prefixes, alphabets, unexported lengths *)\n")
	sb.WriteString("Require Import GC.Base.Bytes.\nOpen Scope Z_scope.\n")
	le, lep := leAlphabet()
	defBytes(&sb, "hash_le_alphabet", le)
	defBool(&sb, "hash_le_padded", lep)
	be, bep := beAlphabet(crypthash.BigEndianEncoding)
	defBytes(&sb, "hash_be_alphabet", be)
	defBool(&sb, "hash_be_padded", bep)
	bc, bcp := beAlphabet(bcrypt.Encoding)
	defBytes(&sb, "bcrypt_alphabet", bc)
	defBool(&sb, "bcrypt_padded", bcp)
	for _, which := range []string{"hash", "base64"} {
		enc, dec := crypthash.VerifHashutilAlphabet(which)
		defBytes(&sb, "hashutil_"+which+"_encode", enc[:])
		defBytes(&sb, "hashutil_"+which+"_decode", dec[:])
	}
	// argon2
	defZ(&sb, "argon2_MinSaltLength", argon2.MinSaltLength)
	defZ(&sb, "argon2_DefaultSaltLength", argon2.DefaultSaltLength)
	defZ(&sb, "argon2_MinTime", argon2.MinTime)
	defZ(&sb, "argon2_DefaultTime", argon2.DefaultTime)
	defZ(&sb, "argon2_MinMemory", argon2.MinMemory)
	defZ(&sb, "argon2_DefaultMemory", argon2.DefaultMemory)
	defZ(&sb, "argon2_MinThreads", argon2.MinThreads)
	defZ(&sb, "argon2_DefaultThreads", argon2.DefaultThreads)
	defZ(&sb, "argon2_Version10", argon2.Version10)
	defZ(&sb, "argon2_Version13", argon2.Version13)
	defZ(&sb, "argon2_keyLen", argon2.VerifKeyLen)
	defBytes(&sb, "argon2_Prefix2d", []byte(argon2.Prefix2d))
	defBytes(&sb, "argon2_Prefix2i", []byte(argon2.Prefix2i))
	defBytes(&sb, "argon2_Prefix2id", []byte(argon2.Prefix2id))
	// bcrypt
	defZ(&sb, "bcrypt_SaltLength", bcrypt.SaltLength)
	defZ(&sb, "bcrypt_MinCost", bcrypt.MinCost)
	defZ(&sb, "bcrypt_MaxCost", bcrypt.MaxCost)
	defZ(&sb, "bcrypt_DefaultCost", bcrypt.DefaultCost)
	defZ(&sb, "bcrypt_sumLength", bcrypt.VerifSumLength)
	defBytes(&sb, "bcrypt_Prefix2", []byte(bcrypt.Prefix2))
	defBytes(&sb, "bcrypt_Prefix2a", []byte(bcrypt.Prefix2a))
	defBytes(&sb, "bcrypt_Prefix2b", []byte(bcrypt.Prefix2b))
	// des
	defZ(&sb, "des_MaxPasswordLength", des.MaxPasswordLength)
	defZ(&sb, "des_SaltLength", des.SaltLength)
	defZ(&sb, "des_sumLength", des.VerifSumLength)
	defBytes(&sb, "des_Prefix", []byte(des.Prefix))
	// desext
	defZ(&sb, "desext_SaltLength", desext.SaltLength)
	defZ(&sb, "desext_MinRounds", desext.MinRounds)
	defZ(&sb, "desext_MaxRounds", desext.MaxRounds)
	defZ(&sb, "desext_DefaultRounds", desext.DefaultRounds)
	defZ(&sb, "desext_sumLength", desext.VerifSumLength)
	defBytes(&sb, "desext_Prefix", []byte(desext.Prefix))
	// md5
	defZ(&sb, "md5_MaxSaltLength", md5.MaxSaltLength)
	defZ(&sb, "md5_DefaultSaltLength", md5.DefaultSaltLength)
	defZ(&sb, "md5_sumLength", md5.VerifSumLength)
	defBytes(&sb, "md5_Prefix", []byte(md5.Prefix))
	defBytes(&sb, "md5_permFinal", md5crypt.VerifPermFinal())
	// nthash
	defZ(&sb, "nthash_MaxPasswordLength", nthash.MaxPasswordLength)
	defZ(&sb, "nthash_sumLength", nthash.VerifSumLength)
	defBytes(&sb, "nthash_Prefix", []byte(nthash.Prefix))
	// sha1
	defZ(&sb, "sha1_MaxSaltLength", sha1.MaxSaltLength)
	defZ(&sb, "sha1_DefaultSaltLength", sha1.DefaultSaltLength)
	defZ(&sb, "sha1_MinRounds", sha1.MinRounds)
	defZ(&sb, "sha1_RandomRounds", sha1.RandomRounds)
	defZ(&sb, "sha1_DefaultRounds", sha1.DefaultRounds)
	defZ(&sb, "sha1_randomHint", sha1.VerifRandomHint)
	defZ(&sb, "sha1_sumLength", sha1.VerifSumLength)
	defBytes(&sb, "sha1_Prefix", []byte(sha1.Prefix))
	defBytes(&sb, "sha1_permFinal", sha1.VerifPermFinal())
	// sha256
	defZ(&sb, "sha256_MaxSaltLength", sha256.MaxSaltLength)
	defZ(&sb, "sha256_DefaultSaltLength", sha256.DefaultSaltLength)
	defZ(&sb, "sha256_MinRounds", sha256.MinRounds)
	defZ(&sb, "sha256_MaxRounds", sha256.MaxRounds)
	defZ(&sb, "sha256_DefaultRounds", sha256.DefaultRounds)
	defZ(&sb, "sha256_ImplicitRounds", sha256.ImplicitRounds)
	defZ(&sb, "sha256_sumLength", sha256.VerifSumLength)
	defBytes(&sb, "sha256_Prefix", []byte(sha256.Prefix))
	defBytes(&sb, "sha256_permFinal", sha256.VerifPermFinal())
	// sha512
	defZ(&sb, "sha512_MaxSaltLength", sha512.MaxSaltLength)
	defZ(&sb, "sha512_DefaultSaltLength", sha512.DefaultSaltLength)
	defZ(&sb, "sha512_MinRounds", sha512.MinRounds)
	defZ(&sb, "sha512_MaxRounds", sha512.MaxRounds)
	defZ(&sb, "sha512_DefaultRounds", sha512.DefaultRounds)
	defZ(&sb, "sha512_ImplicitRounds", sha512.ImplicitRounds)
	defZ(&sb, "sha512_sumLength", sha512.VerifSumLength)
	defBytes(&sb, "sha512_Prefix", []byte(sha512.Prefix))
	defBytes(&sb, "sha512_permFinal", sha512.VerifPermFinal())
	// sunmd5
	defZ(&sb, "sunmd5_MaxPasswordLength", sunmd5.MaxPasswordLength)
	defZ(&sb, "sunmd5_MaxSaltLength", sunmd5.MaxSaltLength)
	defZ(&sb, "sunmd5_DefaultSaltLength", sunmd5.DefaultSaltLength)
	defZ(&sb, "sunmd5_BasicRounds", sunmd5.BasicRounds)
	defZ(&sb, "sunmd5_MaxRounds", sunmd5.MaxRounds)
	defZ(&sb, "sunmd5_DefaultRounds", sunmd5.DefaultRounds)
	defZ(&sb, "sunmd5_sumLength", sunmd5.VerifSumLength)
	defBytes(&sb, "sunmd5_PrefixNonZeroRounds", []byte(sunmd5.PrefixNonZeroRounds))
	defBytes(&sb, "sunmd5_PrefixZeroRounds", []byte(sunmd5.PrefixZeroRounds))
	perm, phrase := sunmd5.VerifTables()
	defBytes(&sb, "sunmd5_permFinal", perm)
	defBytes(&sb, "sunmd5_phrase", phrase)
	return sb.String()
}

func genDesTables() string {
	ie, cf, pcx, spe, mask := descrypt.VerifTables()
	var sb strings.Builder
	sb.WriteString("(* generated from /repo on every run: the DES tables of des/descrypt/const.go *)\n")
	sb.WriteString("Require Import GC.Base.Bytes.\nOpen Scope Z_scope.\n")
	row := func(r []uint64) string { return coqU64List(r) }
	sb.WriteString("Definition des_ie3264 : list (list Z) := [\n")
	for i := range ie {
		sb.WriteString("  " + row(ie[i][:]))
		if i+1 < len(ie) {
			sb.WriteString(";")
		}
		sb.WriteString("\n")
	}
	sb.WriteString("].\nDefinition des_cf6464 : list (list Z) := [\n")
	for i := range cf {
		sb.WriteString("  " + row(cf[i][:]))
		if i+1 < len(cf) {
			sb.WriteString(";")
		}
		sb.WriteString("\n")
	}
	sb.WriteString("].\nDefinition des_spe : list (list Z) := [\n")
	for i := range spe {
		sb.WriteString("  " + row(spe[i][:]))
		if i+1 < len(spe) {
			sb.WriteString(";")
		}
		sb.WriteString("\n")
	}
	sb.WriteString("].\n")
	// pcxRot: 8 pairs of 16x16 tables
	sb.WriteString("Definition des_pcxRot : list (list (list Z) * list (list Z)) := [\n")
	for i := range pcx {
		tab := func(t [16][16]uint64) string {
			var rows []string
			for j := range t {
				rows = append(rows, row(t[j][:]))
			}
			return "[" + strings.Join(rows, ";\n     ") + "]"
		}
		sb.WriteString("  (" + tab(pcx[i][0]) + ",\n   " + tab(pcx[i][1]) + ")")
		if i+1 < len(pcx) {
			sb.WriteString(";")
		}
		sb.WriteString("\n")
	}
	sb.WriteString("].\n")
	fmt.Fprintf(&sb, "Definition des_ksMask : Z := %d.\n", mask)
	return sb.String()
}
