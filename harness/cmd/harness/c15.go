package main

import (
	"bytes"
	crand "crypto/rand"
	"encoding/base64"
	"fmt"
	"math"
	"sort"
	"strings"
	"sync"
	"time"
)

func init() { corrs["C15"] = corrC15 }

type countingReader struct {
	r *bytes.Reader
	n int
}

func (c *countingReader) Read(p []byte) (int, error) {
	n, err := c.r.Read(p)
	c.n += n
	return n, err
}

// refSalt: the documented construction, written against the documented alphabets
func refSalt(name string, stream []byte, randomRounds bool) string {
	sym := func(n int, s []byte) string {
		o := make([]byte, n)
		for i := range o {
			o[i] = alphaCrypt[s[i]&63]
		}
		return string(o)
	}
	switch name {
	case "md5", "sunmd5":
		return sym(8, stream)
	case "sha256", "sha512":
		return sym(16, stream)
	case "sha1":
		if randomRounds {
			return sym(8, stream[4:])
		}
		return sym(8, stream)
	case "des":
		return sym(2, stream)
	case "desext":
		return sym(4, stream)
	case "bcrypt":
		return base64.NewEncoding(alphaBcrypt).WithPadding(base64.NoPadding).EncodeToString(stream[:16])
	case "argon2":
		return base64.RawStdEncoding.EncodeToString(stream[:8])
	}
	return ""
}

func corrC15(outDir string, seed uint64, tier string, replay string) *report {
	rep := newReport("C15", seed, tier)
	r := newRng(seed)
	cs := newCaseSet(outDir, "C15_salt", []string{"GC.Schemes.RandModel"}, "Z * bool * bytes * bytes * Z", "ok_salt", 3000)
	old := crand.Reader
	defer func() { crand.Reader = old }()
	nScript := 150
	if tier == "thorough" {
		nScript = 3000
	}
	newHashRR := func(s *schemeOps, pw string, rr bool, k int) (string, error) {
		if s.name == "sha1" && rr {
			// RandomRounds request: ~20000 HMAC rounds, still cheap
			return schemeByName("sha1").newHashRaw(pw, 4294967295)
		}
		return s.newHash(pw, k)
	}
	for _, s := range schemes {
		if s.name == "nthash" {
			continue
		}
		for k := 0; k < nScript; k++ {
			stream := r.bytes(48)
			switch k % 7 { // structured streams: constant, low six bits only, high bits only
			case 1:
				for i := range stream {
					stream[i] = byte(k)
				}
			case 2:
				for i := range stream {
					stream[i] &= 63
				}
			case 3:
				for i := range stream {
					stream[i] |= 0xC0
				}
			}
			rr := s.name == "sha1" && k%5 == 0
			cr := &countingReader{r: bytes.NewReader(stream)}
			crand.Reader = cr
			h, err := newHashRR(s, "pw", rr, k)
			crand.Reader = old
			if err != nil {
				rep.fail(s.name, "NewHash succeeds", err.Error(), "NewHash fails under a scripted random source")
				continue
			}
			p, perr := s.params(h)
			if perr != nil {
				rep.fail(map[string]interface{}{"scheme": s.name, "hash": h}, "Params succeeds", perr.Error(), "generated hash does not parse")
				continue
			}
			want := refSalt(s.name, stream, rr)
			if string(p.salt) != want {
				rep.fail(map[string]interface{}{"scheme": s.name, "stream": fmt.Sprintf("%x", stream[:20])}, want, string(p.salt), "salt is not the documented function of the bytes drawn")
			}
			rounds := int64(0)
			if rr {
				rounds = p.nums[0]
				v := int64(stream[0])<<24 | int64(stream[1])<<16 | int64(stream[2])<<8 | int64(stream[3])
				if rounds != 24680-v%6170 || rounds < 18511 || rounds > 24680 {
					rep.fail(map[string]interface{}{"stream": fmt.Sprintf("%x", stream[:4])}, 24680-v%6170, rounds, "sha1 random round count outside its documented window / not the documented function")
				}
			}
			cs.add(fmt.Sprintf("(%d, %s, %s, %s, %d)", s.tag, coqBool(rr), coqBytes(stream), coqBytes(p.salt), rounds), map[string]interface{}{"scheme": s.name, "stream": fmt.Sprintf("%x", stream)})
			rep.count(s.name+fmt.Sprintf("%x", stream), true)
			rep.bump("scripted_" + s.name)
			rep.Distribution["bytes_consumed_"+s.name] = cr.n
			if k == 0 {
				rep.sample(map[string]interface{}{"scheme": s.name, "stream_hex": fmt.Sprintf("%x", stream[:16]), "salt": string(p.salt), "bytes_consumed": cr.n})
			}
		}
	}
	// ---- the real source: distinctness, coverage, loose frequency bound ----
	N := 1000
	if tier == "thorough" {
		N = 20000
	}
	for _, s := range schemes {
		if s.name == "nthash" {
			continue
		}
		seen := map[string]bool{}
		var salts []string
		for k := 0; k < N; k++ {
			h, err := s.newHash("pw", 0)
			if err != nil {
				continue
			}
			p, _ := s.params(h)
			// pairwise distinctness is demanded only where a repeat among N uniform draws is practically impossible
			// (>= 48 bits of salt: probability < 1e-6 for N = 20000); smaller salt spaces (DES: 12 bits, extended DES:
			// 24 bits) repeat by the birthday bound and are judged by the NUMBER of repeats below
			if seen[string(p.salt)] && len(p.salt) >= 8 {
				rep.fail(map[string]interface{}{"scheme": s.name, "calls": k}, "all salts distinct", string(p.salt), "a salt repeated")
			}
			seen[string(p.salt)] = true
			salts = append(salts, string(p.salt))
			rep.count("real:"+s.name+fmt.Sprint(k), true)
		}
		rep.bump("real_" + s.name)
		rep.Distribution["real_calls_"+s.name] = len(salts)
		if len(salts) == 0 {
			continue
		}
		L := len(salts[0])
		if L < 8 {
			// repeats among n uniform draws from M = 64^L values: expectation n - M(1-(1-1/M)^n), Poisson-like spread
			n, M := float64(len(salts)), math.Pow(64, float64(L))
			expRep := n - M*(1-math.Pow(1-1/M, n))
			got := float64(len(salts) - len(seen))
			if bound := expRep + 8.5*math.Sqrt(expRep+1) + 1; got > bound {
				rep.fail(map[string]interface{}{"scheme": s.name, "calls": len(salts)}, fmt.Sprintf("at most %.0f repeated salts (uniform over 64^%d values: %.1f expected)", bound, L, expRep),
					fmt.Sprintf("%.0f repeats, %d distinct salts", got, len(seen)), "salts repeat far more often than uniform draws would")
			}
			rep.Distribution["real_repeats_"+s.name] = int(got)
		}
		counts := map[byte]int{}
		perPos := make([]map[byte]bool, L)
		for i := range perPos {
			perPos[i] = map[byte]bool{}
		}
		for _, sl := range salts {
			if len(sl) != L {
				rep.fail(s.name, L, len(sl), "salt length varies")
				continue
			}
			for i := 0; i < L; i++ {
				counts[sl[i]]++
				perPos[i][sl[i]] = true
			}
		}
		alpha := alphaCrypt
		if s.name == "argon2" {
			alpha = b64Std
		}
		// the last symbol of an encoding of raw bytes carries fewer bits: leave it out of the frequency check
		positions := L
		if s.name == "bcrypt" || s.name == "argon2" {
			positions = L - 1
			counts = map[byte]int{}
			for _, sl := range salts {
				for i := 0; i < positions; i++ {
					counts[sl[i]]++
				}
			}
		}
		exp := float64(len(salts)*positions) / 64
		for i := 0; i < 64; i++ {
			c := float64(counts[alpha[i]])
			// |c - exp| <= 8.5 sigma: false-alarm probability < 1e-15 per symbol on a uniform source
			if math.Abs(c-exp) > 8.5*math.Sqrt(exp) {
				rep.fail(map[string]interface{}{"scheme": s.name, "symbol": string(alpha[i])}, fmt.Sprintf("about %.0f occurrences", exp), c, "salt symbol starved or over-represented")
			}
		}
		for c := range counts {
			if !bytes.ContainsRune([]byte(alpha), rune(c)) {
				rep.fail(s.name, "symbols of the salt alphabet", string(c), "salt symbol outside the alphabet")
			}
		}
		if tier == "thorough" {
			for i := 0; i < positions; i++ {
				if len(perPos[i]) != 64 {
					rep.fail(map[string]interface{}{"scheme": s.name, "position": i}, 64, len(perPos[i]), "not every symbol occurs at this salt position")
				}
			}
		}
	}
	// ---- a source that fails, or delivers fewer bytes than asked, at every point of a draw ----
	// NewHash may fail (error or panic: no hash, no harm); what it must never do is hand out a hash whose salt is not
	// made of source bytes (zero-filled or truncated salts repeat across calls)
	panicsBefore := len(panicsSeen)
	for _, sc := range schemes {
		if sc.name == "nthash" {
			continue
		}
		for k := 0; k <= 20; k++ {
			for mode := 0; mode < 3; mode++ {
				short := mode == 1
				stream := r.bytes(64)
				for i := range stream {
					if stream[i] == 0 {
						stream[i] = 0x5A // no zero bytes in the source: a zero-filled salt cannot be a genuine draw
					}
				}
				fr := &faultReader{data: stream, failAfter: k, short: short, once: mode == 2}
				crand.Reader = fr
				var h string
				var err error
				var pan interface{}
				func() {
					defer func() { pan = recover() }()
					h, err = sc.newHash("pw", 0)
				}()
				crand.Reader = old
				rep.bump("fault_injections")
				if err != nil || pan != nil || h == "" {
					rep.bump("fault_no_hash")
					continue
				}
				p, perr := sc.params(h)
				if perr != nil {
					continue
				}
				want := refSalt(sc.name, stream, false)
				zeroes := false
				switch sc.name {
				case "bcrypt":
					raw, _ := base64.NewEncoding(alphaBcrypt).WithPadding(base64.NoPadding).DecodeString(string(p.salt))
					zeroes = bytes.Contains(raw, []byte{0, 0, 0})
				case "argon2":
					raw, _ := base64.RawStdEncoding.DecodeString(string(p.salt))
					zeroes = bytes.Contains(raw, []byte{0, 0, 0})
				default:
					zeroes = strings.Contains(string(p.salt), "...")
				}
				if string(p.salt) != want && (zeroes || fr.failed) {
					rep.fail(map[string]interface{}{"scheme": sc.name, "source": fmt.Sprintf("delivers %d bytes, then %s", k, []string{"fails for good", "returns short reads of one byte", "fails once (after a partial read) and recovers"}[mode]), "hash": h},
						"an error (or a salt made of the bytes the source delivered: "+want+")", "hash with salt "+string(p.salt)+" and a nil error",
						"NewHash returns a hash whose salt is not made of random bytes when crypto/rand.Reader fails or delivers short reads")
				}
			}
		}
	}
	// a panic because the entropy source failed is the library's documented reaction (no hash is handed out): the
	// panics recorded by the call wrappers during this section are not findings
	panicsSeen = panicsSeen[:panicsBefore]
	// ---- sessions: many calls of ALL schemes mixed (sequentially, then from 8 goroutines) over ONE known stream ----
	// whatever the library does between the source and the salt (read sizes, buffering), every salt must be made of
	// source bytes that no other salt was made of: the raw salt (or the low six bits of consecutive bytes) is looked up
	// in the stream and the windows of different calls must not overlap; bulk reads are served slowly (a blocking
	// entropy source), which is when refills race
	{
		streamLen := 1 << 20
		stream := newRng(seed ^ 0xC15C15).bytes(streamLen)
		low6 := make([]byte, streamLen)
		for i, b := range stream {
			low6[i] = b & 63
		}
		type made struct {
			scheme string
			salt   string
		}
		session := func(label string, workers, calls int) {
			src := &sessionReader{data: stream}
			crand.Reader = src
			var mu sync.Mutex
			var all []made
			var wg sync.WaitGroup
			for w := 0; w < workers; w++ {
				wg.Add(1)
				wr := newRng(seed*31 + uint64(w) + uint64(len(label)))
				go func() {
					defer wg.Done()
					for k := 0; k < calls; k++ {
						sc := schemes[wr.intn(len(schemes))]
						if sc.name == "nthash" || sc.name == "des" || sc.name == "desext" {
							continue // no salt / salts too short to be located unambiguously (12 and 24 bits)
						}
						h, err := sc.newHash("pw", 0)
						if err != nil {
							continue
						}
						p, perr := sc.params(h)
						if perr != nil {
							continue
						}
						mu.Lock()
						all = append(all, made{sc.name, string(p.salt)})
						mu.Unlock()
					}
				}()
			}
			wg.Wait()
			crand.Reader = old
			type win struct{ lo, hi int }
			var wins []win
			dup := map[string]bool{}
			for _, m := range all {
				var needle, hay []byte
				switch m.scheme {
				case "bcrypt":
					raw, err := base64.NewEncoding(alphaBcrypt).WithPadding(base64.NoPadding).DecodeString(m.salt)
					if err != nil {
						continue
					}
					needle, hay = raw, stream
				case "argon2":
					raw, err := base64.RawStdEncoding.DecodeString(m.salt)
					if err != nil {
						continue
					}
					needle, hay = raw, stream
				default:
					needle = make([]byte, len(m.salt))
					for i := range needle {
						needle[i] = byte(bytes.IndexByte([]byte(alphaCrypt), m.salt[i]))
					}
					hay = low6
				}
				at := bytes.Index(hay[:src.pos()], needle)
				if workers > 1 {
					// concurrent callers interleave their reads: a salt need not be made of CONSECUTIVE source bytes;
					// what remains decidable is that no two salts are equal and that none is padded with a constant
					run, maxRun := 1, 1
					for i := 1; i < len(needle); i++ {
						if needle[i] == needle[i-1] {
							run++
							if run > maxRun {
								maxRun = run
							}
						} else {
							run = 1
						}
					}
					if maxRun >= 6 {
						rep.fail(map[string]interface{}{"session": label, "scheme": m.scheme, "salt": m.salt}, "full-entropy salt bytes", fmt.Sprintf("%d equal bytes in a row", maxRun), "a salt is padded with a constant instead of random bytes")
					}
					if dup[m.salt] {
						rep.fail(map[string]interface{}{"session": label, "scheme": m.scheme, "salt": m.salt}, "all salts of the session distinct", "the same salt twice", "a salt repeated across concurrent calls")
					}
					dup[m.salt] = true
					rep.bump("session_salts_" + label)
					continue
				}
				if at < 0 {
					rep.fail(map[string]interface{}{"session": label, "scheme": m.scheme, "salt": m.salt, "source_bytes_consumed": src.pos()},
						"the salt encodes consecutive bytes delivered by crypto/rand.Reader during the session", "no such bytes in what the source delivered",
						"a salt is not made of the random bytes drawn (zero-filled, truncated or invented bytes)")
					continue
				}
				wins = append(wins, win{at, at + len(needle)})
				rep.bump("session_salts_" + label)
			}
			sort.Slice(wins, func(i, j int) bool { return wins[i].lo < wins[j].lo })
			for i := 1; i < len(wins); i++ {
				if wins[i].lo < wins[i-1].hi {
					rep.fail(map[string]interface{}{"session": label, "stream_windows": fmt.Sprint(wins[i-1], wins[i])}, "every salt made of source bytes of its own",
						"two salts of the session are made of the same source bytes", "random bytes reused across calls (salts repeat or overlap)")
					break
				}
			}
			rep.count("session:"+label, true)
		}
		nCalls := 6000
		if tier == "thorough" {
			nCalls = 60000
		}
		session("sequential", 1, nCalls)
		session("concurrent", 8, nCalls/8)
	}
	must(cs.flush())
	rep.CaseSets = []string{"C15_salt"}
	rep.Rule = "scripted part: crypto/rand.Reader replaced by a known byte stream (random, constant, low-bits-only, high-bits-set); the salt NewHash produced (read back through Params/Salt) vs the Coq model and vs the documented construction; sha1 random rounds vs its formula and window. Real-source part: N calls per scheme: salts pairwise distinct (48-bit salts and larger; for the 12- and 24-bit salts of DES / extended DES the number of repeats is bounded by expectation + 8.5 sigma), only alphabet symbols, symbol frequencies within 8.5 sigma (thorough: every symbol at every position). Every case non-trivial; distinct by (scheme, stream) / call index."
	return rep
}

// sessionReader serves one long known stream to every reader of crypto/rand (thread-safe; wraps around never: the
// stream is longer than any session consumes); reads of 64 bytes and more are delayed like a blocking entropy source
type sessionReader struct {
	mu   sync.Mutex
	data []byte
	off  int
}

func (s *sessionReader) Read(p []byte) (int, error) {
	if len(p) >= 64 {
		time.Sleep(30 * time.Microsecond)
	}
	s.mu.Lock()
	defer s.mu.Unlock()
	if s.off+len(p) > len(s.data) {
		return 0, fmt.Errorf("session stream exhausted")
	}
	n := copy(p, s.data[s.off:])
	s.off += n
	return n, nil
}
func (s *sessionReader) pos() int { s.mu.Lock(); defer s.mu.Unlock(); return s.off }

// faultReader delivers failAfter bytes of data and then fails for good (short=false), or keeps delivering but one byte
// per Read call (short=true: legal for an io.Reader).
type faultReader struct {
	data      []byte
	off       int
	failAfter int
	short     bool
	failed    bool
	once      bool // fail once (possibly after delivering part of the request), then recover
}

func (f *faultReader) Read(p []byte) (int, error) {
	if len(p) == 0 {
		return 0, nil
	}
	if f.once && f.failed && f.off < len(f.data) { // the fault was a one-off: the source has recovered
		n := copy(p, f.data[f.off:])
		f.off += n
		return n, nil
	}
	if f.off >= f.failAfter {
		if !f.short {
			f.failed = true
			return 0, fmt.Errorf("entropy source unavailable")
		}
		if f.off >= len(f.data) {
			f.failed = true
			return 0, fmt.Errorf("entropy source exhausted")
		}
		p[0] = f.data[f.off]
		f.off++
		return 1, nil
	}
	n := f.failAfter - f.off
	if n > len(p) {
		n = len(p)
	}
	copy(p, f.data[f.off:f.off+n])
	f.off += n
	if n < len(p) && !f.short {
		f.failed = true
		return n, fmt.Errorf("entropy source unavailable")
	}
	return n, nil
}
