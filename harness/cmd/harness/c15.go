package main

import (
	"bytes"
	crand "crypto/rand"
	"encoding/base64"
	"fmt"
	"math"
)

func init() { corrs["C15"] = corrC15 }

type countingReader struct {
	r *bytes.Reader
	n int
}

func (c *countingReader) Read(p []byte) (int, error) {
	n, err := c.r.Read(p)
	c.n += n
	return n, err
}

// refSalt: the documented construction, written against the documented alphabets
func refSalt(name string, stream []byte, randomRounds bool) string {
	sym := func(n int, s []byte) string {
		o := make([]byte, n)
		for i := range o {
			o[i] = alphaCrypt[s[i]&63]
		}
		return string(o)
	}
	switch name {
	case "md5", "sunmd5":
		return sym(8, stream)
	case "sha256", "sha512":
		return sym(16, stream)
	case "sha1":
		if randomRounds {
			return sym(8, stream[4:])
		}
		return sym(8, stream)
	case "des":
		return sym(2, stream)
	case "desext":
		return sym(4, stream)
	case "bcrypt":
		return base64.NewEncoding(alphaBcrypt).WithPadding(base64.NoPadding).EncodeToString(stream[:16])
	case "argon2":
		return base64.RawStdEncoding.EncodeToString(stream[:8])
	}
	return ""
}

func corrC15(outDir string, seed uint64, tier string, replay string) *report {
	rep := newReport("C15", seed, tier)
	r := newRng(seed)
	cs := newCaseSet(outDir, "C15_salt", []string{"GC.Schemes.RandModel"}, "Z * bool * bytes * bytes * Z", "ok_salt", 3000)
	old := crand.Reader
	defer func() { crand.Reader = old }()
	nScript := 150
	if tier == "thorough" {
		nScript = 3000
	}
	newHashRR := func(s *schemeOps, pw string, rr bool, k int) (string, error) {
		if s.name == "sha1" && rr {
			// RandomRounds request: ~20000 HMAC rounds, still cheap
			return schemeByName("sha1").newHashRaw(pw, 4294967295)
		}
		return s.newHash(pw, k)
	}
	for _, s := range schemes {
		if s.name == "nthash" {
			continue
		}
		for k := 0; k < nScript; k++ {
			stream := r.bytes(48)
			switch k % 7 { // structured streams: constant, low six bits only, high bits only
			case 1:
				for i := range stream {
					stream[i] = byte(k)
				}
			case 2:
				for i := range stream {
					stream[i] &= 63
				}
			case 3:
				for i := range stream {
					stream[i] |= 0xC0
				}
			}
			rr := s.name == "sha1" && k%5 == 0
			cr := &countingReader{r: bytes.NewReader(stream)}
			crand.Reader = cr
			h, err := newHashRR(s, "pw", rr, k)
			crand.Reader = old
			if err != nil {
				rep.fail(s.name, "NewHash succeeds", err.Error(), "NewHash fails under a scripted random source")
				continue
			}
			p, perr := s.params(h)
			if perr != nil {
				rep.fail(map[string]interface{}{"scheme": s.name, "hash": h}, "Params succeeds", perr.Error(), "generated hash does not parse")
				continue
			}
			want := refSalt(s.name, stream, rr)
			if string(p.salt) != want {
				rep.fail(map[string]interface{}{"scheme": s.name, "stream": fmt.Sprintf("%x", stream[:20])}, want, string(p.salt), "salt is not the documented function of the bytes drawn")
			}
			rounds := int64(0)
			if rr {
				rounds = p.nums[0]
				v := int64(stream[0])<<24 | int64(stream[1])<<16 | int64(stream[2])<<8 | int64(stream[3])
				if rounds != 24680-v%6170 || rounds < 18511 || rounds > 24680 {
					rep.fail(map[string]interface{}{"stream": fmt.Sprintf("%x", stream[:4])}, 24680-v%6170, rounds, "sha1 random round count outside its documented window / not the documented function")
				}
			}
			cs.add(fmt.Sprintf("(%d, %s, %s, %s, %d)", s.tag, coqBool(rr), coqBytes(stream), coqBytes(p.salt), rounds), map[string]interface{}{"scheme": s.name, "stream": fmt.Sprintf("%x", stream)})
			rep.count(s.name+fmt.Sprintf("%x", stream), true)
			rep.bump("scripted_" + s.name)
			rep.Distribution["bytes_consumed_"+s.name] = cr.n
			if k == 0 {
				rep.sample(map[string]interface{}{"scheme": s.name, "stream_hex": fmt.Sprintf("%x", stream[:16]), "salt": string(p.salt), "bytes_consumed": cr.n})
			}
		}
	}
	// ---- the real source: distinctness, coverage, loose frequency bound ----
	N := 1000
	if tier == "thorough" {
		N = 20000
	}
	for _, s := range schemes {
		if s.name == "nthash" {
			continue
		}
		seen := map[string]bool{}
		var salts []string
		for k := 0; k < N; k++ {
			h, err := s.newHash("pw", 0)
			if err != nil {
				continue
			}
			p, _ := s.params(h)
			// pairwise distinctness is demanded only where a repeat among N uniform draws is practically impossible
			// (>= 48 bits of salt: probability < 1e-6 for N = 20000); smaller salt spaces (DES: 12 bits, extended DES:
			// 24 bits) repeat by the birthday bound and are judged by the NUMBER of repeats below
			if seen[string(p.salt)] && len(p.salt) >= 8 {
				rep.fail(map[string]interface{}{"scheme": s.name, "calls": k}, "all salts distinct", string(p.salt), "a salt repeated")
			}
			seen[string(p.salt)] = true
			salts = append(salts, string(p.salt))
			rep.count("real:"+s.name+fmt.Sprint(k), true)
		}
		rep.bump("real_" + s.name)
		rep.Distribution["real_calls_"+s.name] = len(salts)
		if len(salts) == 0 {
			continue
		}
		L := len(salts[0])
		if L < 8 {
			// repeats among n uniform draws from M = 64^L values: expectation n - M(1-(1-1/M)^n), Poisson-like spread
			n, M := float64(len(salts)), math.Pow(64, float64(L))
			expRep := n - M*(1-math.Pow(1-1/M, n))
			got := float64(len(salts) - len(seen))
			if bound := expRep + 8.5*math.Sqrt(expRep+1) + 1; got > bound {
				rep.fail(map[string]interface{}{"scheme": s.name, "calls": len(salts)}, fmt.Sprintf("at most %.0f repeated salts (uniform over 64^%d values: %.1f expected)", bound, L, expRep),
					fmt.Sprintf("%.0f repeats, %d distinct salts", got, len(seen)), "salts repeat far more often than uniform draws would")
			}
			rep.Distribution["real_repeats_"+s.name] = int(got)
		}
		counts := map[byte]int{}
		perPos := make([]map[byte]bool, L)
		for i := range perPos {
			perPos[i] = map[byte]bool{}
		}
		for _, sl := range salts {
			if len(sl) != L {
				rep.fail(s.name, L, len(sl), "salt length varies")
				continue
			}
			for i := 0; i < L; i++ {
				counts[sl[i]]++
				perPos[i][sl[i]] = true
			}
		}
		alpha := alphaCrypt
		if s.name == "argon2" {
			alpha = b64Std
		}
		// the last symbol of an encoding of raw bytes carries fewer bits: leave it out of the frequency check
		positions := L
		if s.name == "bcrypt" || s.name == "argon2" {
			positions = L - 1
			counts = map[byte]int{}
			for _, sl := range salts {
				for i := 0; i < positions; i++ {
					counts[sl[i]]++
				}
			}
		}
		exp := float64(len(salts)*positions) / 64
		for i := 0; i < 64; i++ {
			c := float64(counts[alpha[i]])
			// |c - exp| <= 8.5 sigma: false-alarm probability < 1e-15 per symbol on a uniform source
			if math.Abs(c-exp) > 8.5*math.Sqrt(exp) {
				rep.fail(map[string]interface{}{"scheme": s.name, "symbol": string(alpha[i])}, fmt.Sprintf("about %.0f occurrences", exp), c, "salt symbol starved or over-represented")
			}
		}
		for c := range counts {
			if !bytes.ContainsRune([]byte(alpha), rune(c)) {
				rep.fail(s.name, "symbols of the salt alphabet", string(c), "salt symbol outside the alphabet")
			}
		}
		if tier == "thorough" {
			for i := 0; i < positions; i++ {
				if len(perPos[i]) != 64 {
					rep.fail(map[string]interface{}{"scheme": s.name, "position": i}, 64, len(perPos[i]), "not every symbol occurs at this salt position")
				}
			}
		}
	}
	must(cs.flush())
	rep.CaseSets = []string{"C15_salt"}
	rep.Rule = "scripted part: crypto/rand.Reader replaced by a known byte stream (random, constant, low-bits-only, high-bits-set); the salt NewHash produced (read back through Params/Salt) vs the Coq model and vs the documented construction; sha1 random rounds vs its formula and window. Real-source part: N calls per scheme: salts pairwise distinct (48-bit salts and larger; for the 12- and 24-bit salts of DES / extended DES the number of repeats is bounded by expectation + 8.5 sigma), only alphabet symbols, symbol frequencies within 8.5 sigma (thorough: every symbol at every position). Every case non-trivial; distinct by (scheme, stream) / call index."
	return rep
}
