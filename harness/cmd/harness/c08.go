package main

import (
	"bytes"
	"encoding/json"
	"fmt"
	xargon2 "golang.org/x/crypto/argon2"
	"os"
	"os/exec"
	"reflect"
	"runtime"
	"strings"
	"time"

	crypthash "github.com/sergeymakinen/go-crypt/hash"
	"github.com/sergeymakinen/go-crypt/md5"
)

func init() {
	corrs["C08"] = func(o string, s uint64, t string, r string) *report { return corrRace("C08", o, s, t) }
	corrs["C09"] = func(o string, s uint64, t string, r string) *report { return corrRace("C09", o, s, t) }
}

type raceReport struct {
	Runs       int      `json:"runs"`
	Calls      int      `json:"calls"`
	Mismatches []string `json:"mismatches"`
	Configs    []string `json:"configs"`
	Goroutines int      `json:"goroutines_after"`
}

// corrRace runs the race-detector driver (built by bin/check with go build -race) and evaluates the
// deterministic ties of the step model.
func corrRace(prop, outDir string, seed uint64, tier string) *report {
	rep := newReport(prop, seed, tier)
	bin, mode := buildPath("racecheck"), "all"
	if prop == "C09" {
		bin, mode = buildPath("racecheck_purego"), "argon2"
	}
	if b := os.Getenv("VERIF_RACECHECK"); b != "" {
		bin = b
	}
	seeds := 2
	rounds := 2
	if tier == "thorough" {
		seeds, rounds = 12, 6
	}
	for k := 0; k < seeds; k++ {
		cmd := exec.Command(bin, "-mode", mode, "-seed", fmt.Sprint(seed*100+uint64(k)), "-rounds", fmt.Sprint(rounds))
		cmd.Env = append(os.Environ(), "GORACE=halt_on_error=0")
		var stdout, stderr bytes.Buffer
		cmd.Stdout, cmd.Stderr = &stdout, &stderr
		err := cmd.Run()
		races := strings.Count(stderr.String(), "WARNING: DATA RACE")
		if races > 0 {
			first := stderr.String()
			if i := strings.Index(first, "WARNING: DATA RACE"); i >= 0 {
				first = first[i:]
				if len(first) > 1500 {
					first = first[:1500]
				}
			}
			rep.fail(map[string]interface{}{"binary": bin, "mode": mode, "seed": seed*100 + uint64(k)}, "no data race", fmt.Sprintf("%d race reports; first:\n%s", races, first), "the Go race detector reports a data race")
		}
		var rr raceReport
		if jerr := json.Unmarshal(stdout.Bytes(), &rr); jerr != nil {
			rep.fail(map[string]interface{}{"binary": bin}, "a report", fmt.Sprint(err, jerr, stderr.String()[:minInt(400, stderr.Len())]), "race driver failed")
			continue
		}
		for _, m := range rr.Mismatches {
			rep.fail(map[string]interface{}{"mode": mode, "seed": seed*100 + uint64(k)}, "the result of the same call executed alone", m, "a concurrent call returned a different result")
		}
		if rr.Goroutines > 0 {
			rep.fail(map[string]interface{}{"mode": mode}, "no goroutine left", rr.Goroutines, "worker goroutines still alive after the calls returned")
		}
		rep.Evaluations += rr.Calls
		rep.DistinctNontrivial += rr.Calls
		rep.Distribution[fmt.Sprintf("runs_seed_%d", k)] = rr.Runs
		if k == 0 {
			rep.sample(map[string]interface{}{"configs": rr.Configs[:minInt(6, len(rr.Configs))], "calls": rr.Calls, "race_reports": races})
		}
	}
	if prop == "C09" {
		// "equals the sequential RFC 9106 evaluation": multi-lane keys, under several GOMAXPROCS settings, against
		// golang.org/x/crypto/argon2 (independent implementation; version 0x13, Argon2i / Argon2id) -- every lane count
		// 2..12 and a few large ones, memories that are and are not multiples of 4*lanes
		lr := newRng(seed ^ 0xC09)
		oldProcs := runtime.GOMAXPROCS(0)
		g0 := runtime.NumGoroutine()
		for _, p := range []uint8{2, 3, 4, 5, 6, 7, 8, 9, 10, 11, 12, 16, 17, 31, 33, 64, 65, 129, 193, 255} {
			for mi, m := range []uint32{8 * uint32(p), 8*uint32(p) + 5, 12*uint32(p) + 1, 16 * uint32(p), 64 * uint32(p), 1024 + uint32(p), 1024 * uint32(p), 512 * uint32(p)} {
				if p > 12 && mi > 2 || p > 3 && mi > 5 {
					continue
				}
				pw, salt := lr.bytes(lr.intn(16)), lr.bytes(8+lr.intn(8))
				t := uint32(1 + (mi+int(p))%2)
				wantI := xargon2.Key(pw, salt, t, m, p, 32)
				wantID := xargon2.IDKey(pw, salt, t, m, p, 32)
				for _, procs := range []int{1, 2, 3, 5, 16} {
					runtime.GOMAXPROCS(procs)
					gotI := a2Key(a2cfg{1, 0x13, pw, salt, t, m, 32, p})
					gotID := a2Key(a2cfg{2, 0x13, pw, salt, t, m, 32, p})
					if !bytes.Equal(gotI, wantI) || !bytes.Equal(gotID, wantID) {
						rep.fail(map[string]interface{}{"lanes": p, "memory": m, "time": t, "GOMAXPROCS": procs, "password_hex": hx(pw), "salt_hex": hx(salt)},
							fmt.Sprintf("argon2i %x / argon2id %x (x/crypto/argon2)", wantI, wantID), fmt.Sprintf("argon2i %x / argon2id %x", gotI, gotID),
							"a multi-lane key differs from the sequential RFC 9106 evaluation")
					}
					rep.count(fmt.Sprint("rfc", p, m, procs), true)
					rep.bump("multilane_keys_vs_xcrypto")
				}
			}
		}
		runtime.GOMAXPROCS(oldProcs)
		// every goroutine a derivation started has finished when it returns
		leak := 0
		for i := 0; i < 2500; i++ { // up to five seconds on a loaded machine
			runtime.Gosched()
			time.Sleep(2 * time.Millisecond)
			if leak = runtime.NumGoroutine() - g0; leak <= 0 {
				break
			}
		}
		if leak > 0 {
			rep.fail(map[string]interface{}{"history": "Argon2i / Argon2id keys for 2..255 lanes, memories 8p..1024p"}, "no goroutine left behind", fmt.Sprintf("%d goroutines still alive five seconds after the last Key call returned", leak),
				"worker goroutines outlive the key derivation")
		}
	}
	if prop == "C08" {
		// deterministic tie of the step model: the value getTypeInfo returns never aliases the cached object
		for _, t := range []reflect.Type{md5.VerifSchemeType(), reflect.TypeOf(struct{ A string }{}), reflect.PtrTo(md5.VerifSchemeType())} {
			if crypthash.VerifTypeInfoAliased(t) {
				rep.fail(t.String(), "a private copy", "the cached object itself", "getTypeInfo returns the shared cached object (callers write its Struct field)")
			}
			rep.count("alias:"+t.String(), true)
		}
	}
	rep.Rule = "N in {2,8,32} goroutines x GOMAXPROCS in {1,2,4,16}, start barrier and random yields, each running a random plan over all exported operations of all schemes, registrations, and codec calls on shared and never-seen struct types in value and pointer form (C08) / multi-lane Argon2 keys with the portable block function so that block accesses are instrumented (C09); under the Go race detector; every result (value and error text) compared with the same call executed alone; goroutine count after return. evaluations = concurrent calls."
	return rep
}
