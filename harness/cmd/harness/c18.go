package main

import (
	"crypto/sha1"
	"encoding"
	"encoding/hex"
	"encoding/json"
	"fmt"
	"os"
	"os/exec"
	"path/filepath"
	"reflect"
	"strconv"
	"strings"
	"sync"

	crypthash "github.com/sergeymakinen/go-crypt/hash"
)

func init() { corrs["C18"] = corrC18 }

type histOp struct {
	ty      int
	form    int // 0 value, 1 pointer, 2 pointer to pointer
	marshal bool
	val     reflect.Value // pointer to the value (marshal)
	h       string        // unmarshal
}

// structDepth extracts the pointer depth of the struct type an error names (-1: the error names none).
func structDepth(err error) int {
	name := ""
	switch e := err.(type) {
	case *crypthash.UnsupportedTypeError:
		name = e.Struct
	case *crypthash.UnsupportedValueError:
		name = e.Struct
	case *crypthash.TagParamError:
		name = e.Struct.String()
	case *crypthash.UnmarshalTypeError:
		name = e.Struct
	default:
		msg := err.Error()
		if strings.HasPrefix(msg, "invalid tag in field ") {
			name = strings.TrimPrefix(msg, "invalid tag in field ")
		}
	}
	if name == "" {
		return -1
	}
	d := 0
	for d < len(name) && name[d] == '*' {
		d++
	}
	return d
}

type histResult struct {
	err     error  // the error value itself (kept alive to see whether it changes after it was returned)
	errDump string // its rendering at return time
	coq     string
	text    string // complete textual outcome (string / value dump / error type and text)
	marshal string
	okM     bool
}

func runHistOp(op histOp, types []reflect.Type) histResult {
	t := types[op.ty]
	sd := func(err error) string {
		if d := structDepth(err); d >= 0 {
			return "(Some " + coqNat(d) + ")"
		}
		return "None"
	}
	if op.marshal {
		var arg interface{}
		switch op.form {
		case 0:
			arg = op.val.Elem().Interface()
		case 1:
			arg = op.val.Interface()
		default:
			pp := reflect.New(op.val.Type())
			pp.Elem().Set(op.val)
			arg = pp.Interface()
		}
		s, err, pan := marshalObs(arg)
		res := histResult{marshal: s, okM: err == nil && pan == nil}
		res.text = fmt.Sprintf("%q|%T|%v|%v", s, err, err, pan)
		if err != nil {
			res.err, res.errDump = err, fmt.Sprintf("%#v", err)
		}
		sdv := "None"
		if err != nil {
			sdv = sd(err)
		}
		res.coq = "ObsM " + obsMarshalCoq(s, err, pan) + " " + sdv
		return res
	}
	var arg interface{}
	var target reflect.Value
	switch op.form {
	case 0:
		target = reflect.New(t)
		arg = target.Elem().Interface()
	case 1:
		target = reflect.New(t)
		arg = target.Interface()
	default:
		pp := reflect.New(reflect.PtrTo(t))
		arg = pp.Interface()
		target = pp
	}
	err, pan := unmarshalObs(op.h, arg)
	if op.form == 0 {
		return histResult{coq: "ObsNotPointer", text: fmt.Sprintf("%T|%v|%v", err, err, pan)}
	}
	res := histResult{}
	val := target
	if op.form == 2 && err == nil && pan == nil {
		val = target.Elem()
	}
	dump := ""
	if err == nil && pan == nil {
		dump = stableDump(val)
	}
	res.text = fmt.Sprintf("%s|%T|%v|%v", dump, err, err, pan)
	if err != nil {
		res.err, res.errDump = err, fmt.Sprintf("%#v", err)
	}
	sdv := "None"
	if err != nil {
		sdv = sd(err)
	}
	if op.form == 2 {
		if err == nil && pan == nil {
			res.coq = "ObsU " + obsUnmarshalCoq(target.Elem(), err, pan) + " " + sdv
		} else {
			res.coq = "ObsU " + obsUnmarshalCoq(target, err, pan) + " " + sdv
		}
	} else {
		res.coq = "ObsU " + obsUnmarshalCoq(target, err, pan) + " " + sdv
	}
	return res
}

func corrC18(outDir string, seed uint64, tier string, replay string) *report {
	rep := newReport("C18", seed, tier)
	r := newRng(seed)
	cs := newCaseSet(outDir, "C18_hist", []string{"GC.Codec.Types", "GC.Codec.Codec", "GC.Codec.Cache", "GC.Codec.CacheCases"},
		"list (list sfield) * list call * list oobs", "ok_history", 4)
	nHist, nOps := 6, 360
	if tier == "thorough" {
		nHist, nOps = 60, 500
	}
	formNames := []string{"ByVal", "ByPtr", "ByPtrPtr"}
	// the same histories run in reverse order in a fresh process (package state that no hook resets cannot hide there)
	reversed := c18Reversed(seed, tier, outDir, rep)
	for hI := 0; hI < nHist; hI++ {
		types, gts, ops, nModelled, _ := c18History(r, nOps, nil)
		_ = gts
		// warm run from an empty cache
		crypthash.VerifResetTypeCache()
		var warm []histResult
		for _, op := range ops {
			warm = append(warm, runHistOp(op, types))
		}
		for i, op := range ops {
			mine := fmt.Sprintf("%x", sha1.Sum([]byte(warm[i].text)))
			for _, other := range reversed[fmt.Sprintf("%d %d", hI, i)] {
				rep.bump("other_order_compared")
				if strings.HasSuffix(other, "="+mine) {
					continue
				}
				rep.fail(map[string]interface{}{"history": hI, "op": i, "type": types[op.ty].String(), "form": formNames[op.form], "marshal": op.marshal, "hash": op.h,
					"other_process": other[:strings.IndexByte(other, '=')],
					"value": func() string {
						if op.marshal {
							return stableDump(op.val)
						}
						return ""
					}()},
					"the outcome this call has in a fresh process that runs the history in another order (rev / shuf:k) or runs only this call (only:h:i)", warm[i].text,
					"the outcome of a call depends on the calls made before it in the process")
				break
			}
			rep.bump("reverse_order_compared")
		}
		// an error value, once returned, is the caller's: it still reads the same after all the later calls of the history
		for i, w := range warm {
			if w.err != nil {
				if now := fmt.Sprintf("%#v", w.err); now != w.errDump {
					rep.fail(map[string]interface{}{"history": hI, "op": i, "type": types[ops[i].ty].String(), "marshal": ops[i].marshal, "hash": ops[i].h},
						w.errDump+" (the error as it was returned)", now+" (the same error value after the later calls of the history)", "an error value changes after it was returned (later calls write into it)")
					break
				}
			}
		}
		// the same Unmarshal call twice in a row (nothing in between): same outcome
		for i, op := range ops {
			if op.marshal || i%2 != 0 {
				continue
			}
			a1 := runHistOp(op, types)
			a2 := runHistOp(op, types)
			if a1.text != a2.text {
				rep.fail(map[string]interface{}{"history": hI, "op": i, "type": types[op.ty].String(), "form": formNames[op.form], "hash": op.h}, a1.text, a2.text,
					"Unmarshal of the same string has another outcome when it is repeated immediately")
				break
			}
		}
		// soak: twenty thousand failing calls (bad prefix value, bad field value, malformed string), then a sample of the
		// history again: state that leaks a little on every failing call has accumulated by now
		if hI == 0 {
			type badPfx struct {
				HashPrefix Picky
				S          string
			}
			for k := 0; k < 45000; k++ {
				switch k % 3 {
				case 0:
					marshalObs(badPfx{"fail", "x"})
				case 1:
					marshalObs(ShapeText{HashPrefix: "$x$", P: func() *Picky { p := Picky("fail"); return &p }()})
				default:
					var v ShapeText
					unmarshalObs("$x$zz$"+fmt.Sprint(k), &v)
				}
			}
			for i, op := range ops {
				if i%4 != 0 {
					continue
				}
				again := runHistOp(op, types)
				if again.text != warm[i].text {
					rep.fail(map[string]interface{}{"history": hI, "op": i, "type": types[op.ty].String(), "form": formNames[op.form], "marshal": op.marshal, "hash": op.h},
						warm[i].text, again.text, "the outcome of a call changes after 45000 failing Marshal / Unmarshal calls (state leaks on error paths)")
					break
				}
			}
			rep.bump("soak_rounds")
		}
		// cold oracle: the same call right after a cache reset
		for i, op := range ops {
			crypthash.VerifResetTypeCache()
			cold := runHistOp(op, types)
			if cold.text != warm[i].text {
				rep.fail(map[string]interface{}{"history": hI, "op": i, "type": types[op.ty].String(), "form": formNames[op.form], "marshal": op.marshal, "hash": op.h},
					cold.text, warm[i].text, "the outcome of a call depends on the calls made before it")
			}
			rep.count(fmt.Sprint(hI, i), i > 0)
			rep.bump(map[bool]string{true: "marshal", false: "unmarshal"}[op.marshal] + "_" + formNames[op.form])
			if strings.Contains(warm[i].text, "Error") {
				rep.bump("error_outcomes")
			}
		}
		// forms: the three forms of one value marshal to the same string
		for i, op := range ops {
			if !op.marshal || i%4 != 0 {
				continue
			}
			var outs []string
			for f := 0; f < 3; f++ {
				o := op
				o.form = f
				res := runHistOp(o, types)
				outs = append(outs, fmt.Sprint(res.okM, res.marshal))
			}
			if outs[0] != outs[1] || outs[1] != outs[2] {
				rep.fail(map[string]interface{}{"type": types[op.ty].String()}, outs[0], fmt.Sprint(outs[1:]), "value / pointer / pointer-to-pointer forms marshal differently")
			}
		}
		// the history as one Coq case
		var descs, calls, obs []string
		for _, t := range types[:nModelled] {
			descs = append(descs, structDesc(t))
		}
		for i, op := range ops {
			if op.ty >= nModelled {
				continue // shapes the model does not describe: direct oracles only
			}
			if op.marshal {
				svd, _ := svalDesc(op.val)
				calls = append(calls, fmt.Sprintf("CMarshal %s %s %s", coqNat(op.ty), formNames[op.form], svd))
			} else {
				calls = append(calls, fmt.Sprintf("CUnmarshal %s %s %s", coqNat(op.ty), formNames[op.form], coqStr(op.h)))
			}
			obs = append(obs, warm[i].coq)
		}
		cs.add("("+coqList(descs)+",\n   "+coqList(calls)+",\n   "+coqList(obs)+")", map[string]interface{}{"history": hI, "ops": len(ops)})
		if hI == 0 {
			rep.sample(map[string]interface{}{"types": len(types), "ops": len(ops), "first_ops": calls[:3]})
		}
	}
	must(cs.flush())
	rep.CaseSets = []string{"C18_hist"}
	rep.Rule = "operation histories over a pool of 12 struct types (generated, invalid-tag, conflicting, hand shapes), each call in value / pointer / pointer-to-pointer form, Marshal and Unmarshal, success and failure; every call's complete outcome (string, value dump, error type and text) is compared with the same call made right after a cache reset (property oracle), the three forms of a value must marshal alike, and the whole history is replayed on the Coq cache model (outcome projection + pointer depth of the struct named in errors). Non-trivial = not the first call of its history; distinct by (history, position)."
	return rep
}

// two distinct types whose reflect.Type.String() is the same ("main.params"): a cache keyed by anything coarser than
// the type itself confuses them
func sameNameTypeA() reflect.Type {
	type params struct {
		Rounds uint32 `hash:"param:rounds"`
		Salt   string
		Sum    string
	}
	return reflect.TypeOf(params{})
}

func sameNameTypeB() reflect.Type {
	type params struct {
		HashPrefix string
		Cost       uint8
		Salt       string `hash:"length:4"`
		Sum        string
	}
	return reflect.TypeOf(params{})
}

// c18History draws one history: the pool of types (generated, hand shapes; after nModelled come shapes the Coq model
// does not describe: pointer-receiver text methods, interface-typed fields) and the calls.  Deterministic in r.
func c18History(r *rng, nOps int, script *[]*string) (types []reflect.Type, gts []*gType, ops []histOp, nModelled int, rec []*string) {
	for i := 0; i < 5; i++ {
		g := genWild(r)
		gts, types = append(gts, g), append(types, g.t)
	}
	for i := 0; i < 4; i++ {
		g := genClass(r)
		gts, types = append(gts, g), append(types, g.t)
	}
	for _, t := range []reflect.Type{reflect.TypeOf(ShapeConflict{}), reflect.TypeOf(ShapeText{}), reflect.TypeOf(ShapeShadow{}),
		reflect.TypeOf(ShapeEmbVal{}), reflect.TypeOf(ShapeEmbFirst{}), reflect.TypeOf(ShapeEmbLast{}), reflect.TypeOf(ShapeEmbTwo{}), reflect.TypeOf(ShapeEmbDeep{}), reflect.TypeOf(ShapeConflict2{}), reflect.TypeOf(ShapeArrLen{}), reflect.TypeOf(ShapeGroupInline{})} {
		gts, types = append(gts, nil), append(types, t)
	}
	nModelled = len(types)
	for _, t := range []reflect.Type{reflect.TypeOf(ShapePtrRecv{}), reflect.TypeOf(ShapePtrRecvStruct{}), reflect.TypeOf(ShapeIface{}), reflect.TypeOf(ShapeIface2{}), sameNameTypeA(), sameNameTypeB()} {
		gts, types = append(gts, nil), append(types, t)
	}
	var strs []string
	strsOf := map[int][]string{}
	for k := 0; k < nOps; k++ {
		op := histOp{ty: r.intn(len(types)), form: r.intn(3)}
		if r.intn(2) == 0 || len(strs) == 0 {
			op.marshal = true
			if gts[op.ty] != nil {
				op.val = genValue(r, gts[op.ty], r.intn(4) == 0)
			} else {
				op.val = reflect.New(types[op.ty])
				fillAny(r, op.val.Elem(), r.intn(4) == 0)
				fillIfaces(r, op.val.Elem())
			}
		} else {
			op.h = strs[r.intn(len(strs))]
			if own := strsOf[op.ty]; len(own) > 0 && r.intn(2) == 0 {
				op.h = own[r.intn(len(own))] // a string this very type marshalled (mostly accepted; the rest is mostly rejected)
			}
			if r.intn(8) == 0 { // strings the parser itself rejects (unterminated / empty identifier), of various lengths
				op.h = []string{"$", "$abc", "$$x", "$,", "$unterminated-identifier", "$a"}[r.intn(6)] + r.str(r.intn(3), "ab")
			} else if r.intn(3) == 0 && len(op.h) > 0 {
				b := []byte(op.h)
				b[r.intn(len(b))] = "$,=@a0"[r.intn(6)]
				op.h = string(b)
			}
		}
		ops = append(ops, op)
		if op.marshal {
			// remember what it marshals to as future Unmarshal input (computed outside the recorded history); the
			// reverse-order subprocess takes these strings from the parent's script so that it calls nothing before its run
			var got *string
			if script != nil {
				got = (*script)[0]
				*script = (*script)[1:]
			} else if s, err, pan := marshalObs(op.val.Interface()); err == nil && pan == nil {
				got = &s
			}
			rec = append(rec, got)
			if got != nil {
				strs = append(strs, *got)
				strsOf[op.ty] = append(strsOf[op.ty], *got)
			}
		}
	}
	return
}

// both text methods on the pointer receiver (a common way to write the pair)
type PtrCost uint8

func (c *PtrCost) MarshalText() ([]byte, error) { return []byte(fmt.Sprintf("%02d", uint8(*c))), nil }
func (c *PtrCost) UnmarshalText(b []byte) error {
	n, err := strconv.ParseUint(string(b), 10, 8)
	*c = PtrCost(n)
	return err
}

type PtrPair struct{ N, R int }

func (p *PtrPair) MarshalText() ([]byte, error) { return []byte(fmt.Sprintf("%dx%d", p.N, p.R)), nil }

type ShapePtrRecv struct {
	HashPrefix string
	Cost       PtrCost
	PC         *PtrCost `hash:"param:pc,omitempty"`
	Salt       string
}
type ShapePtrRecvStruct struct {
	Params PtrPair
	Salt   string
}
type ShapeIface struct {
	V interface{} `hash:"param:v"`
	S string
}
type ShapeIface2 struct {
	HashPrefix string
	T          encoding.TextMarshaler `hash:"omitempty"`
	W          interface{}
	S          string
}

// fillIfaces gives interface-typed fields dynamic values of several types (marshalers and plain kinds)
func fillIfaces(r *rng, v reflect.Value) {
	t := v.Type()
	for i := 0; i < t.NumField(); i++ {
		fv := v.Field(i)
		if fv.Kind() != reflect.Interface || !fv.CanSet() {
			continue
		}
		pc := PtrCost(r.intn(100))
		var choices []interface{}
		if t.Field(i).Type.NumMethod() == 0 {
			choices = []interface{}{Hex16(r.intn(65536)), "s" + r.str(2, "abc"), uint32(r.intn(1000)), RevStr("ab"), &pc, []byte("xy"), nil, int8(-3), Picky("ok")}
		} else {
			choices = []interface{}{Hex16(r.intn(65536)), RevStr("cd"), &pc, nil, Picky("ok")}
		}
		if c := choices[r.intn(len(choices))]; c != nil {
			fv.Set(reflect.ValueOf(c))
		}
	}
}

// stableDump prints a value through pointers and interfaces without addresses
func stableDump(v reflect.Value) string {
	switch v.Kind() {
	case reflect.Ptr, reflect.Interface:
		if v.IsNil() {
			return "nil"
		}
		return "&" + stableDump(v.Elem())
	case reflect.Struct:
		var parts []string
		for i := 0; i < v.NumField(); i++ {
			parts = append(parts, v.Type().Field(i).Name+":"+stableDump(v.Field(i)))
		}
		return v.Type().String() + "{" + strings.Join(parts, " ") + "}"
	case reflect.Slice:
		if v.Type().Elem().Kind() == reflect.Uint8 {
			return fmt.Sprintf("%q", v.Bytes())
		}
	}
	if v.CanInterface() {
		return fmt.Sprintf("%T(%#v)", v.Interface(), v.Interface())
	}
	return fmt.Sprintf("%v", v)
}

// c18Order is the body of the subprocess: the same histories, each run in reverse order from an empty cache; one line
// per call with a digest of its complete textual outcome.
func c18Order(seed uint64, tier string, scriptFile string, mode string) {
	r := newRng(seed)
	nHist, nOps := 6, 360
	if tier == "thorough" {
		nHist, nOps = 60, 500
	}
	var script []*string
	data, err := os.ReadFile(scriptFile)
	must(err)
	must(json.Unmarshal(data, &script))
	for i, x := range script {
		if x != nil {
			raw, err := hex.DecodeString(*x)
			must(err)
			str := string(raw)
			script[i] = &str
		}
	}
	onlyH, onlyI := -1, -1
	var shuf *rng
	if strings.HasPrefix(mode, "only:") {
		fmt.Sscanf(mode, "only:%d:%d", &onlyH, &onlyI)
	} else if strings.HasPrefix(mode, "shuf:") {
		var k uint64
		fmt.Sscanf(mode, "shuf:%d", &k)
		shuf = newRng(k*7919 + 13)
	}
	for hI := 0; hI < nHist; hI++ {
		types, _, ops, _, _ := c18History(r, nOps, &script)
		if onlyH >= 0 {
			if hI == onlyH {
				res := runHistOp(ops[onlyI], types)
				fmt.Printf("%d %d %x\n", hI, onlyI, sha1.Sum([]byte(res.text)))
				return
			}
			continue
		}
		crypthash.VerifResetTypeCache()
		order := make([]int, len(ops))
		for i := range order {
			order[i] = len(ops) - 1 - i
		}
		if shuf != nil {
			for i := len(order) - 1; i > 0; i-- {
				j := shuf.intn(i + 1)
				order[i], order[j] = order[j], order[i]
			}
		}
		for _, i := range order {
			res := runHistOp(ops[i], types)
			fmt.Printf("%d %d %x\n", hI, i, sha1.Sum([]byte(res.text)))
		}
	}
}

func c18Reversed(seed uint64, tier string, outDir string, rep *report) map[string][]string {
	// the script of marshalled strings, from a generation pass of this process
	r := newRng(seed)
	nHist, nOps := 6, 360
	if tier == "thorough" {
		nHist, nOps = 60, 500
	}
	var script []*string
	for hI := 0; hI < nHist; hI++ {
		_, _, _, _, rec := c18History(r, nOps, nil)
		for _, x := range rec { // hex: marshalled strings may hold bytes that are not valid UTF-8, which JSON would replace
			if x != nil {
				hxs := hex.EncodeToString([]byte(*x))
				x = &hxs
			}
			script = append(script, x)
		}
	}
	data, _ := json.Marshal(script)
	sf := filepath.Join(outDir, "c18_script.json")
	must(os.WriteFile(sf, data, 0o644))
	// children: the histories in reverse order, in three shuffled orders, and single calls as the very first library
	// call of a process (the truly cold outcome) for a sample of calls
	modes := []string{"rev", "shuf:1", "shuf:2", "shuf:3"}
	nOnly := 48
	if tier == "thorough" {
		nOnly = 400
	}
	pick := newRng(seed ^ 0xC18)
	for k := 0; k < nOnly; k++ {
		modes = append(modes, fmt.Sprintf("only:%d:%d", pick.intn(nHist), pick.intn(nOps)))
	}
	outs := make([]string, len(modes))
	errs := make([]error, len(modes))
	var wg sync.WaitGroup
	sem := make(chan struct{}, 12)
	for k, mode := range modes {
		wg.Add(1)
		go func(k int, mode string) {
			defer wg.Done()
			sem <- struct{}{}
			defer func() { <-sem }()
			o, err := exec.Command(os.Args[0], "c18order", fmt.Sprint(seed), tier, sf, mode).Output()
			outs[k], errs[k] = string(o), err
		}(k, mode)
	}
	wg.Wait()
	res := map[string][]string{}
	for k := range modes {
		if errs[k] != nil {
			rep.ModelBroken = "order subprocess " + modes[k] + " failed: " + errs[k].Error()
			return nil
		}
		for _, l := range strings.Split(outs[k], "\n") {
			f := strings.Fields(l)
			if len(f) == 3 {
				res[f[0]+" "+f[1]] = append(res[f[0]+" "+f[1]], modes[k]+"="+f[2])
			}
		}
	}
	return res
}
