package main

import (
	"fmt"
	"reflect"
	"strings"

	crypthash "github.com/sergeymakinen/go-crypt/hash"
)

func init() { corrs["C18"] = corrC18 }

type histOp struct {
	ty      int
	form    int // 0 value, 1 pointer, 2 pointer to pointer
	marshal bool
	val     reflect.Value // pointer to the value (marshal)
	h       string        // unmarshal
}

// structDepth extracts the pointer depth of the struct type an error names (-1: the error names none).
func structDepth(err error) int {
	name := ""
	switch e := err.(type) {
	case *crypthash.UnsupportedTypeError:
		name = e.Struct
	case *crypthash.UnsupportedValueError:
		name = e.Struct
	case *crypthash.TagParamError:
		name = e.Struct.String()
	case *crypthash.UnmarshalTypeError:
		name = e.Struct
	default:
		msg := err.Error()
		if strings.HasPrefix(msg, "invalid tag in field ") {
			name = strings.TrimPrefix(msg, "invalid tag in field ")
		}
	}
	if name == "" {
		return -1
	}
	d := 0
	for d < len(name) && name[d] == '*' {
		d++
	}
	return d
}

type histResult struct {
	coq     string
	text    string // complete textual outcome (string / value dump / error type and text)
	marshal string
	okM     bool
}

func runHistOp(op histOp, types []reflect.Type) histResult {
	t := types[op.ty]
	sd := func(err error) string {
		if d := structDepth(err); d >= 0 {
			return "(Some " + coqNat(d) + ")"
		}
		return "None"
	}
	if op.marshal {
		var arg interface{}
		switch op.form {
		case 0:
			arg = op.val.Elem().Interface()
		case 1:
			arg = op.val.Interface()
		default:
			pp := reflect.New(op.val.Type())
			pp.Elem().Set(op.val)
			arg = pp.Interface()
		}
		s, err, pan := marshalObs(arg)
		res := histResult{marshal: s, okM: err == nil && pan == nil}
		res.text = fmt.Sprintf("%q|%T|%v|%v", s, err, err, pan)
		sdv := "None"
		if err != nil {
			sdv = sd(err)
		}
		res.coq = "ObsM " + obsMarshalCoq(s, err, pan) + " " + sdv
		return res
	}
	var arg interface{}
	var target reflect.Value
	switch op.form {
	case 0:
		target = reflect.New(t)
		arg = target.Elem().Interface()
	case 1:
		target = reflect.New(t)
		arg = target.Interface()
	default:
		pp := reflect.New(reflect.PtrTo(t))
		arg = pp.Interface()
		target = pp
	}
	err, pan := unmarshalObs(op.h, arg)
	if op.form == 0 {
		return histResult{coq: "ObsNotPointer", text: fmt.Sprintf("%T|%v|%v", err, err, pan)}
	}
	res := histResult{}
	val := target
	if op.form == 2 && err == nil && pan == nil {
		val = target.Elem()
	}
	dump := ""
	if err == nil && pan == nil {
		dump = fmt.Sprintf("%+v", reflect.Indirect(reflect.Indirect(val)).Interface())
	}
	res.text = fmt.Sprintf("%s|%T|%v|%v", dump, err, err, pan)
	sdv := "None"
	if err != nil {
		sdv = sd(err)
	}
	if op.form == 2 {
		if err == nil && pan == nil {
			res.coq = "ObsU " + obsUnmarshalCoq(target.Elem(), err, pan) + " " + sdv
		} else {
			res.coq = "ObsU " + obsUnmarshalCoq(target, err, pan) + " " + sdv
		}
	} else {
		res.coq = "ObsU " + obsUnmarshalCoq(target, err, pan) + " " + sdv
	}
	return res
}

func corrC18(outDir string, seed uint64, tier string, replay string) *report {
	rep := newReport("C18", seed, tier)
	r := newRng(seed)
	cs := newCaseSet(outDir, "C18_hist", []string{"GC.Codec.Types", "GC.Codec.Codec", "GC.Codec.Cache", "GC.Codec.CacheCases"},
		"list (list sfield) * list call * list oobs", "ok_history", 4)
	nHist, nOps := 6, 120
	if tier == "thorough" {
		nHist, nOps = 60, 200
	}
	formNames := []string{"ByVal", "ByPtr", "ByPtrPtr"}
	for hI := 0; hI < nHist; hI++ {
		// a pool of 12 types: wild (incl. invalid tags and conflicts), class, hand shapes
		var gts []*gType
		var types []reflect.Type
		for i := 0; i < 5; i++ {
			g := genWild(r)
			gts, types = append(gts, g), append(types, g.t)
		}
		for i := 0; i < 4; i++ {
			g := genClass(r)
			gts, types = append(gts, g), append(types, g.t)
		}
		for _, t := range []reflect.Type{reflect.TypeOf(ShapeConflict{}), reflect.TypeOf(ShapeText{}), reflect.TypeOf(ShapeShadow{})} {
			gts, types = append(gts, nil), append(types, t)
		}
		var ops []histOp
		var strs []string
		for k := 0; k < nOps; k++ {
			op := histOp{ty: r.intn(len(types)), form: r.intn(3)}
			if r.intn(2) == 0 || len(strs) == 0 {
				op.marshal = true
				if gts[op.ty] != nil {
					op.val = genValue(r, gts[op.ty], r.intn(4) == 0)
				} else {
					op.val = reflect.New(types[op.ty])
					fillAny(r, op.val.Elem(), r.intn(4) == 0)
				}
				// remember what it marshals to as future Unmarshal input (computed outside the recorded history)
			} else {
				op.h = strs[r.intn(len(strs))]
				if r.intn(3) == 0 && len(op.h) > 0 {
					b := []byte(op.h)
					b[r.intn(len(b))] = "$,=@a0"[r.intn(6)]
					op.h = string(b)
				}
			}
			ops = append(ops, op)
			if op.marshal {
				if s, err, pan := marshalObs(op.val.Interface()); err == nil && pan == nil {
					strs = append(strs, s)
				}
			}
		}
		// warm run from an empty cache
		crypthash.VerifResetTypeCache()
		var warm []histResult
		for _, op := range ops {
			warm = append(warm, runHistOp(op, types))
		}
		// cold oracle: the same call right after a cache reset
		for i, op := range ops {
			crypthash.VerifResetTypeCache()
			cold := runHistOp(op, types)
			if cold.text != warm[i].text {
				rep.fail(map[string]interface{}{"history": hI, "op": i, "type": types[op.ty].String(), "form": formNames[op.form], "marshal": op.marshal, "hash": op.h},
					cold.text, warm[i].text, "the outcome of a call depends on the calls made before it")
			}
			rep.count(fmt.Sprint(hI, i), i > 0)
			rep.bump(map[bool]string{true: "marshal", false: "unmarshal"}[op.marshal] + "_" + formNames[op.form])
			if strings.Contains(warm[i].text, "Error") {
				rep.bump("error_outcomes")
			}
		}
		// forms: the three forms of one value marshal to the same string
		for i, op := range ops {
			if !op.marshal || i%4 != 0 {
				continue
			}
			var outs []string
			for f := 0; f < 3; f++ {
				o := op
				o.form = f
				res := runHistOp(o, types)
				outs = append(outs, fmt.Sprint(res.okM, res.marshal))
			}
			if outs[0] != outs[1] || outs[1] != outs[2] {
				rep.fail(map[string]interface{}{"type": types[op.ty].String()}, outs[0], fmt.Sprint(outs[1:]), "value / pointer / pointer-to-pointer forms marshal differently")
			}
		}
		// the history as one Coq case
		var descs, calls, obs []string
		for _, t := range types {
			descs = append(descs, structDesc(t))
		}
		for i, op := range ops {
			if op.marshal {
				svd, _ := svalDesc(op.val)
				calls = append(calls, fmt.Sprintf("CMarshal %s %s %s", coqNat(op.ty), formNames[op.form], svd))
			} else {
				calls = append(calls, fmt.Sprintf("CUnmarshal %s %s %s", coqNat(op.ty), formNames[op.form], coqStr(op.h)))
			}
			obs = append(obs, warm[i].coq)
		}
		cs.add("("+coqList(descs)+",\n   "+coqList(calls)+",\n   "+coqList(obs)+")", map[string]interface{}{"history": hI, "ops": len(ops)})
		if hI == 0 {
			rep.sample(map[string]interface{}{"types": len(types), "ops": len(ops), "first_ops": calls[:3]})
		}
	}
	must(cs.flush())
	rep.CaseSets = []string{"C18_hist"}
	rep.Rule = "operation histories over a pool of 12 struct types (generated, invalid-tag, conflicting, hand shapes), each call in value / pointer / pointer-to-pointer form, Marshal and Unmarshal, success and failure; every call's complete outcome (string, value dump, error type and text) is compared with the same call made right after a cache reset (property oracle), the three forms of a value must marshal alike, and the whole history is replayed on the Coq cache model (outcome projection + pointer depth of the struct named in errors). Non-trivial = not the first call of its history; distinct by (history, position)."
	return rep
}
