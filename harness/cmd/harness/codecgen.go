package main

// Random struct types (reflect.StructOf) and values for the codec correspondences.

import (
	"fmt"
	"reflect"
	"strconv"
	"strings"
)

type gField struct {
	name   string
	typ    reflect.Type
	prefix bool
	omit   bool
	group  bool
	param  string
	enc    string // "", "hash", "base64", "none"
	length int    // -1 none
	inline bool
	base   int // 0 default
	rawTag string
	path   []int // index path inside gType.t (nil: the field's own position)
}

func (f *gField) tag() string {
	if f.rawTag != "" {
		return f.rawTag
	}
	var parts []string
	if f.param != "" {
		parts = append(parts, "param:"+f.param)
	}
	if f.group {
		parts = append(parts, "group")
	}
	if f.omit {
		parts = append(parts, "omitempty")
	}
	if f.length >= 0 {
		parts = append(parts, "length:"+strconv.Itoa(f.length))
	}
	if f.inline {
		parts = append(parts, "inline")
	}
	if f.enc != "" {
		parts = append(parts, "enc:"+f.enc)
	}
	if f.base != 0 {
		parts = append(parts, "base:"+strconv.Itoa(f.base))
	}
	return strings.Join(parts, ",")
}

type gType struct {
	fields []*gField
	t      reflect.Type
}

var (
	tString  = reflect.TypeOf("")
	tBytes   = reflect.TypeOf([]byte(nil))
	intTypes = []reflect.Type{reflect.TypeOf(int8(0)), reflect.TypeOf(int16(0)), reflect.TypeOf(int32(0)), reflect.TypeOf(int64(0)), reflect.TypeOf(int(0))}
	uintTyps = []reflect.Type{reflect.TypeOf(uint8(0)), reflect.TypeOf(uint16(0)), reflect.TypeOf(uint32(0)), reflect.TypeOf(uint64(0)), reflect.TypeOf(uint(0))}
	paramNms = []string{"a", "b", "ab", "rounds", "v", "m", "t", "p", "k9"}
)

func build(fs []*gField) (gt *gType, ok bool) {
	defer func() {
		if r := recover(); r != nil {
			gt, ok = nil, false
		}
	}()
	var sfs []reflect.StructField
	for _, f := range fs {
		tg := reflect.StructTag("")
		if t := f.tag(); t != "" {
			tg = reflect.StructTag(`hash:"` + t + `"`)
		}
		sfs = append(sfs, reflect.StructField{Name: f.name, Type: f.typ, Tag: tg})
	}
	return &gType{fs, reflect.StructOf(sfs)}, true
}

func isIntLike(t reflect.Type) bool {
	for t.Kind() == reflect.Ptr {
		t = t.Elem()
	}
	k := t.Kind()
	return k >= reflect.Int && k <= reflect.Uint64 && t != reflect.TypeOf(Hex16(0))
}

// genWild: anything goes (exercises error paths and the model's fidelity).
func genWild(r *rng) *gType {
	for {
		n := 1 + r.intn(6)
		var fs []*gField
		if r.intn(3) == 0 {
			pf := &gField{name: "HashPrefix", typ: tString, length: -1}
			if r.intn(6) == 0 {
				pf.omit = true
			}
			if r.intn(12) == 0 {
				pf.typ = uintTyps[2]
			}
			if r.intn(5) == 0 { // tag options that make no sense on a prefix: the layout must be rejected, not misused
				switch r.intn(5) {
				case 0:
					pf.inline, pf.length = true, 1+r.intn(3)
				case 1:
					pf.length = r.intn(4)
				case 2:
					pf.param = "p"
				case 3:
					pf.group, pf.param = true, "g"
				default:
					pf.enc = []string{"none", "base64"}[r.intn(2)]
				}
			}
			fs = append(fs, pf)
		}
		for i := 0; i < n; i++ {
			f := &gField{name: fmt.Sprintf("F%d", i), length: -1}
			switch r.intn(14) {
			case 0, 1, 2:
				f.typ = tString
			case 3, 4:
				f.typ = tBytes
			case 5:
				f.typ = reflect.ArrayOf([]int{0, 1, 2, 4}[r.intn(4)], reflect.TypeOf(byte(0)))
			case 6:
				f.typ = intTypes[r.intn(5)]
			case 7, 8:
				f.typ = uintTyps[r.intn(5)]
			case 9:
				f.typ = reflect.PtrTo([]reflect.Type{tString, uintTyps[2], tBytes, reflect.TypeOf(Hex16(0)), reflect.TypeOf(RevStr("")), reflect.TypeOf(Picky("")),
					reflect.ArrayOf(3, reflect.TypeOf(byte(0))), reflect.TypeOf(int8(0))}[r.intn(8)])
			case 10:
				f.typ = reflect.TypeOf(Hex16(0))
			case 11:
				f.typ = reflect.TypeOf(RevStr(""))
			case 12:
				f.typ = reflect.TypeOf(Picky(""))
			default:
				f.typ = []reflect.Type{reflect.TypeOf(true), reflect.TypeOf(1.5), reflect.TypeOf([]int(nil))}[r.intn(3)]
			}
			if r.intn(3) == 0 {
				f.param = paramNms[r.intn(len(paramNms))]
			}
			if r.intn(4) == 0 {
				f.group = true
				if r.intn(5) != 0 && f.param == "" {
					f.param = paramNms[r.intn(len(paramNms))]
				}
			}
			if r.intn(3) == 0 {
				f.omit = true
			}
			if r.intn(5) == 0 {
				f.length = r.intn(5)
			}
			if r.intn(8) == 0 {
				f.inline = true
				if r.intn(4) != 0 && f.length <= 0 {
					f.length = 1 + r.intn(3)
				}
			}
			if r.intn(4) == 0 {
				f.enc = []string{"none", "base64", "hash", "bogus"}[r.intn(4)]
			}
			if isIntLike(f.typ) && r.intn(2) == 0 {
				f.base = []int{2, 8, 16, 36, 20, 1, 37}[r.intn(7)]
			}
			if r.intn(40) == 0 {
				f.rawTag = []string{"-", ",", "omitempty,", "length:x", "length:99999999999", "param:", "base:300", "length:2,length:1", "length:1,length:2"}[r.intn(9)]
			}
			fs = append(fs, f)
		}
		if gt, ok := build(fs); ok {
			return gt
		}
	}
}

// genClass: layouts built to lie inside the unambiguous class of C10 (checked again by inClass).
func genClass(r *rng) *gType {
	for {
		var fs []*gField
		if r.intn(2) == 0 {
			fs = append(fs, &gField{name: "HashPrefix", typ: tString, length: -1})
		}
		used := map[string]bool{}
		freshParam := func() string {
			for {
				p := paramNms[r.intn(len(paramNms))]
				if !used[p] {
					used[p] = true
					return p
				}
			}
		}
		n := 1 + r.intn(5)
		idx := 0
		newF := func() *gField {
			f := &gField{name: fmt.Sprintf("F%d", idx), length: -1}
			idx++
			switch r.intn(13) {
			case 11: // pointer to a byte array (its length is the array's)
				f.typ = reflect.PtrTo(reflect.ArrayOf(1+r.intn(4), reflect.TypeOf(byte(0))))
			case 12: // pointer to a text marshaler
				f.typ = reflect.PtrTo(reflect.TypeOf(Hex16(0)))
			case 9: // pointer to a narrow unsigned integer
				f.typ = reflect.PtrTo(uintTyps[r.intn(3)])
				f.base = []int{0, 0, 16}[r.intn(3)]
			case 10: // pointer to a narrow signed integer
				f.typ = reflect.PtrTo(intTypes[r.intn(3)])
				f.base = []int{0, 0, 16}[r.intn(3)]
				f.enc = "none"
			case 0, 1:
				f.typ = tString
			case 2:
				f.typ = tBytes
			case 3:
				f.typ = reflect.ArrayOf(1+r.intn(4), reflect.TypeOf(byte(0)))
			case 4:
				f.typ = intTypes[r.intn(5)]
				f.base = []int{0, 0, 2, 16, 36, 20}[r.intn(6)]
				f.enc = "none"
			case 5, 6:
				f.typ = uintTyps[r.intn(5)]
				f.base = []int{0, 0, 2, 16, 36}[r.intn(5)]
			case 7:
				f.typ = reflect.TypeOf(Hex16(0))
			default:
				f.typ = reflect.PtrTo(tString)
			}
			if r.intn(6) == 0 && f.enc == "" {
				f.enc = "base64"
			}
			if r.intn(5) == 0 && f.enc == "" && (f.typ == tString || f.typ == tBytes) {
				f.enc = "none" // any byte may be stored: '=' and 8-bit bytes included
			}
			return f
		}
		for seg := 0; seg < n && len(used) < len(paramNms)-3; seg++ {
			switch r.intn(5) {
			case 0: // group run
				m := 2 + r.intn(3)
				for k := 0; k < m; k++ {
					f := newF()
					f.group = true
					f.param = freshParam()
					if (f.typ == tString || f.typ == tBytes) && f.enc == "" && r.intn(2) == 0 {
						f.enc = "none" // group members that may hold any byte ('=' and ',' aside, see presentable)
					}
					if k >= 2 && r.intn(2) == 0 {
						f.omit = true
					}
					fs = append(fs, f)
				}
				// separated from the next run by a required field
				f := newF()
				fs = append(fs, f)
			case 1: // inline field followed by a required positional field
				f := newF()
				f.typ = []reflect.Type{tString, tBytes}[r.intn(2)]
				f.base, f.enc = 0, ""
				f.inline = true
				f.length = 1 + r.intn(4)
				fs = append(fs, f)
				g := newF()
				fs = append(fs, g)
			case 2: // optional param
				f := newF()
				f.omit = true
				f.param = freshParam()
				fs = append(fs, f)
			case 3: // optional positional followed by required
				f := newF()
				f.omit = true
				fs = append(fs, f)
				g := newF()
				if r.intn(2) == 0 {
					g.param = freshParam()
				}
				fs = append(fs, g)
			default:
				f := newF()
				if r.intn(3) == 0 {
					f.param = freshParam()
				}
				if r.intn(5) == 0 && f.typ.Kind() == reflect.String {
					f.length = 1 + r.intn(4)
				}
				fs = append(fs, f)
			}
		}
		last := fs[len(fs)-1]
		if last.omit || last.inline || last.prefix {
			fs = append(fs, newF())
		}
		if gt, ok := build(fs); ok && inClass(gt) {
			return gt
		}
	}
}

func (f *gField) isArray() bool  { return f.typ.Kind() == reflect.Array }
func (f *gField) isPrefix() bool { return f.name == "HashPrefix" }

// inClass: the layout predicate of C10/C20 ("layout is unambiguous"), see DESIGN.md §6.
func inClass(gt *gType) bool {
	var fs []*gField
	for _, f := range gt.fields {
		if f.rawTag != "" {
			return false
		}
		if f.isPrefix() {
			if f.typ != tString || f.omit || f.group || f.param != "" || f.inline || f.length >= 0 {
				return false
			}
			continue
		}
		fs = append(fs, f)
	}
	if len(fs) == 0 {
		return false
	}
	params := map[string]bool{}
	for i, f := range fs {
		bt := f.typ
		for bt.Kind() == reflect.Ptr {
			bt = bt.Elem()
		}
		switch bt.Kind() {
		case reflect.String, reflect.Slice, reflect.Array, reflect.Int, reflect.Int8, reflect.Int16, reflect.Int32, reflect.Int64,
			reflect.Uint, reflect.Uint8, reflect.Uint16, reflect.Uint32, reflect.Uint64:
		default:
			return false
		}
		if bt.Kind() == reflect.Slice && bt.Elem().Kind() != reflect.Uint8 {
			return false
		}
		if bt == reflect.TypeOf(Picky("")) || bt == reflect.TypeOf(RevStr("")) {
			return false
		}
		// enc:none on integers, and on plain strings / byte slices / byte arrays (any byte may be stored there: the
		// value-side predicate keeps delimiters out)
		if f.enc == "bogus" || (f.enc == "none" && !isIntLike(f.typ) && !(bt == tString || bt == tBytes || bt.Kind() == reflect.Array)) {
			return false
		}
		if f.base != 0 && (f.base < 2 || f.base > 36) {
			return false
		}
		if f.group && f.param == "" {
			return false
		}
		if f.param != "" {
			if params[f.param] {
				return false
			}
			params[f.param] = true
		}
		// byte arrays, also behind pointers (the Coq class looks at the kind of the pointed-to type: Class.field_shape_ok,
		// C20PBase.arrays_sized)
		isArr := bt.Kind() == reflect.Array
		if f.omit && (f.inline || (isArr && bt.Len() > 0)) {
			return false
		}
		if isArr && bt.Len() == 0 {
			return false
		}
		if f.length == 0 {
			return false
		}
		if f.length > 0 && isArr && f.length != bt.Len() {
			return false
		}
		if f.length > 0 && (isIntLike(f.typ) || bt == reflect.TypeOf(Hex16(0))) {
			return false
		}
		if f.inline {
			if f.length <= 0 && !isArr {
				return false
			}
			if f.group || f.param != "" || i+1 >= len(fs) {
				return false
			}
			nx := fs[i+1]
			if nx.group || nx.omit || nx.param != "" || nx.inline {
				return false
			}
		}
		if f.omit && !f.group && f.param == "" && i+1 < len(fs) {
			nx := fs[i+1]
			if nx.omit && !nx.group && nx.param == "" {
				return false
			}
		}
		if i == len(fs)-1 && (f.omit || f.inline) {
			return false
		}
	}
	// group runs
	for i := 0; i < len(fs); i++ {
		if !fs[i].group {
			continue
		}
		j := i
		for j < len(fs) && fs[j].group {
			j++
		}
		if j-i < 2 || fs[i].omit || fs[i+1].omit {
			return false
		}
		if i > 0 && (fs[i-1].omit || fs[i-1].inline) {
			return false
		}
		if j < len(fs) && (fs[j].omit || fs[j].inline) {
			return false
		}
		i = j
	}
	return true
}

const classAlpha = "abcxyzABZ0189./"

func genIntFor(r *rng, t reflect.Type) int64 {
	bits := t.Bits()
	switch r.intn(6) {
	case 0:
		return 0
	case 1:
		return int64(1)<<(uint(bits)-1) - 1
	case 2:
		return -(int64(1) << (uint(bits) - 1))
	case 3:
		return int64(r.intn(100))
	case 4:
		return -int64(r.intn(100))
	}
	v := int64(r.u64())
	if bits < 64 {
		v >>= uint(64 - bits)
	}
	return v
}
func genUintFor(r *rng, t reflect.Type) uint64 {
	bits := t.Bits()
	switch r.intn(5) {
	case 0:
		return 0
	case 1:
		if bits == 64 {
			return ^uint64(0)
		}
		return uint64(1)<<uint(bits) - 1
	case 2:
		return uint64(r.intn(100))
	}
	v := r.u64()
	if bits < 64 {
		v >>= uint(64 - bits)
	}
	return v
}

func fillScalar(r *rng, f *gField, v reflect.Value, wild bool) {
	alpha := classAlpha
	if f.enc == "base64" {
		alpha = "abcXYZ019+/"
	}
	if wild && r.intn(6) == 0 {
		alpha = "ab$,=_@\n"
	}
	if f.enc == "none" && r.intn(2) == 0 {
		// no alphabet applies: any byte may be stored, including 8-bit ones and UTF-8 sequences
		alpha = "a0=\x80\xff\xc3\xa9\xe9\x00\x7f"
	}
	strLen := func() int {
		if f.length >= 0 && r.intn(8) != 0 {
			return f.length
		}
		if r.intn(5) == 0 {
			return 0
		}
		return 1 + r.intn(6)
	}
	switch v.Kind() {
	case reflect.String:
		s := r.str(strLen(), alpha)
		if v.Type() == reflect.TypeOf(Picky("")) && r.intn(6) == 0 {
			s = "fail"
		}
		v.SetString(s)
	case reflect.Slice:
		if v.Type().Elem().Kind() == reflect.Uint8 {
			if r.intn(6) == 0 {
				return // nil
			}
			v.SetBytes([]byte(r.str(strLen(), alpha)))
		}
	case reflect.Array:
		if v.Type().Elem().Kind() == reflect.Uint8 {
			for i := 0; i < v.Len(); i++ {
				v.Index(i).SetUint(uint64(r.pick(alpha)))
			}
		}
	case reflect.Int, reflect.Int8, reflect.Int16, reflect.Int32, reflect.Int64:
		v.SetInt(genIntFor(r, v.Type()))
	case reflect.Uint, reflect.Uint8, reflect.Uint16, reflect.Uint32, reflect.Uint64:
		v.SetUint(genUintFor(r, v.Type()))
	case reflect.Bool:
		v.SetBool(r.intn(2) == 0)
	case reflect.Float64:
		v.SetFloat(float64(r.intn(3)))
	case reflect.Ptr:
		if r.intn(3) == 0 {
			return
		}
		p := reflect.New(v.Type().Elem())
		fillScalar(r, f, p.Elem(), wild)
		v.Set(p)
	}
}

var lexPrefixes = []string{"$x$", "$1$", "$ab,", "_", "$argon2id$", "$md5,"}

// genValue returns a pointer to a fresh value of the type.
func genValue(r *rng, gt *gType, wild bool) reflect.Value {
	p := reflect.New(gt.t)
	for i, f := range gt.fields {
		fv := gt.at(p.Elem(), i)
		if f.isPrefix() && fv.Kind() == reflect.String {
			if wild && r.intn(5) == 0 {
				fv.SetString(r.str(r.intn(4), "$x,_"))
			} else {
				fv.SetString(lexPrefixes[r.intn(len(lexPrefixes))])
			}
			continue
		}
		fillScalar(r, f, fv, wild)
	}
	return p
}

// presentable: the value-side condition of C10 (inherent textual ambiguities excluded, DESIGN.md §5.2).
func presentable(gt *gType, p reflect.Value) bool {
	hasPrefix := false
	var fs []*gField
	var vs []reflect.Value
	for i, f := range gt.fields {
		if f.isPrefix() {
			hasPrefix = true
			continue
		}
		fs = append(fs, f)
		vs = append(vs, gt.at(p.Elem(), i))
	}
	textOf := func(i int) (string, bool) { // marshalled text and presence
		v := vs[i]
		if v.Kind() == reflect.Ptr {
			if v.IsNil() {
				return "", !fs[i].omit
			}
			v = v.Elem()
		}
		var s string
		switch v.Kind() {
		case reflect.String:
			s = v.String()
		case reflect.Slice:
			s = string(v.Bytes())
		case reflect.Array:
			b := make([]byte, v.Len())
			for k := range b {
				b[k] = byte(v.Index(k).Uint())
			}
			s = string(b)
		default:
			s = "1"
			// a pointer field is empty when it is nil (handled above), whatever it points to: *uint32 -> 0 is written "0"
			if fs[i].omit && vs[i].Kind() != reflect.Ptr && v.IsZero() {
				return "", false
			}
			return s, true
		}
		if fs[i].omit && vs[i].Kind() != reflect.Ptr && len(s) == 0 {
			return "", false
		}
		return s, true
	}
	// no delimiter inside a text ('$', ','), and no '=' in a text that is not preceded by its own "key=" (a positional
	// value "a=b" would read as parameter a): such values are inherently ambiguous (the Coq class excludes them too)
	for i := range fs {
		if s, present := textOf(i); present {
			if strings.ContainsAny(s, "$,") || fs[i].param == "" && strings.Contains(s, "=") {
				return false
			}
		}
	}
	// required pointer fields must be non-nil (Unmarshal allocates)
	for i, f := range fs {
		if vs[i].Kind() == reflect.Ptr && vs[i].IsNil() && !f.omit {
			return false
		}
	}
	// first emitted fragment non-empty when there is no prefix; last emitted fragment non-empty
	first, last := -1, -1
	for i := range fs {
		if _, present := textOf(i); present {
			if first < 0 {
				first = i
			}
			last = i
		}
	}
	if first < 0 {
		return false
	}
	if s, _ := textOf(first); s == "" && fs[first].param == "" && !hasPrefix {
		return false
	}
	if s, _ := textOf(last); s == "" && fs[last].param == "" {
		return false
	}
	// suffix rule: once a positional optional field is absent, no later non-group optional field is present
	absentPos := false
	for i, f := range fs {
		_, present := textOf(i)
		if f.omit && !f.group {
			if present && absentPos {
				return false
			}
			if !present && f.param == "" {
				absentPos = true
			}
		}
	}
	return true
}

// at: the i-th (flattened) field of a value of the generated type
func (gt *gType) at(v reflect.Value, i int) reflect.Value {
	if p := gt.fields[i].path; p != nil {
		return v.FieldByIndex(p)
	}
	return v.Field(i)
}

// nestType: the same fields in the same order, with random runs of consecutive fields moved into embedded
// (anonymous, by value) structs, nested up to the given depth.  Field names stay unique, so the flattened layout, and
// with it every string and value the codec produces, is that of the flat type.
func nestType(r *rng, gt *gType, maxDepth int) (out *gType, ok bool) {
	defer func() {
		if recover() != nil {
			out, ok = nil, false
		}
	}()
	fs := make([]*gField, len(gt.fields))
	for i, f := range gt.fields {
		c := *f
		fs[i] = &c
	}
	counter := 0
	deepest := 0
	var mk func(lo, hi, depth int, prefix []int) reflect.Type
	mk = func(lo, hi, depth int, prefix []int) reflect.Type {
		if depth > deepest {
			deepest = depth
		}
		var sfs []reflect.StructField
		i := lo
		for i < hi {
			pos := len(sfs)
			path := append(append([]int(nil), prefix...), pos)
			// an embedded run [i, j): always one on the way down to maxDepth through the first field, random otherwise
			wrap := depth < maxDepth && !fs[i].isPrefix() && (i == lo && depth < maxDepth || r.intn(3) == 0)
			if wrap {
				j := i + 1 + r.intn(hi-i)
				for k := i; k < j; k++ {
					if fs[k].isPrefix() {
						j = k
						break
					}
				}
				if j > i {
					counter++
					st := mk(i, j, depth+1, path)
					sfs = append(sfs, reflect.StructField{Name: fmt.Sprintf("E%d", counter), Type: st, Anonymous: true})
					i = j
					continue
				}
			}
			f := fs[i]
			f.path = path
			tg := reflect.StructTag("")
			if t := f.tag(); t != "" {
				tg = reflect.StructTag(`hash:"` + t + `"`)
			}
			sfs = append(sfs, reflect.StructField{Name: f.name, Type: f.typ, Tag: tg})
			i++
		}
		return reflect.StructOf(sfs)
	}
	t := mk(0, len(fs), 0, nil)
	if deepest == 0 {
		return nil, false
	}
	return &gType{fs, t}, true
}

// genString writes a candidate input for Unmarshal directly from the layout (not through Marshal): the prefix, then
// every field as a text of about its declared shape -- digits in the field's base for integers, texts of the declared
// or array length (and one off it) for strings, byte slices and arrays, "key=" in front for parameters -- group runs
// joined by commas, everything else by '$'; optional fields are sometimes left out.
func genString(r *rng, gt *gType) string {
	var frags []string
	pre := ""
	var run []string
	flush := func() {
		if len(run) > 0 {
			frags = append(frags, strings.Join(run, ","))
			run = nil
		}
	}
	for _, f := range gt.fields {
		if f.isPrefix() {
			pre = lexPrefixes[r.intn(len(lexPrefixes))]
			continue
		}
		if f.omit && r.intn(3) == 0 {
			continue
		}
		bt := f.typ
		for bt.Kind() == reflect.Ptr {
			bt = bt.Elem()
		}
		n := 1 + r.intn(5)
		if f.length >= 0 {
			n = f.length
		}
		if bt.Kind() == reflect.Array {
			n = bt.Len()
			if f.length >= 0 && r.intn(2) == 0 {
				n = f.length
			}
		}
		switch r.intn(8) {
		case 0:
			n++
		case 1:
			if n > 0 {
				n--
			}
		}
		var text string
		switch {
		case isIntLike(bt) && bt != reflect.TypeOf(Hex16(0)):
			base := f.base
			if base < 2 || base > 36 {
				base = 10
			}
			if bt.Kind() >= reflect.Uint && bt.Kind() <= reflect.Uint64 {
				text = strconv.FormatUint(genUintFor(r, bt), base)
			} else {
				text = strconv.FormatInt(genIntFor(r, bt), base)
			}
			if f.length >= 0 {
				for len(text) < f.length {
					text = "0" + text
				}
			}
		case bt == reflect.TypeOf(Hex16(0)):
			text = fmt.Sprintf("%04x", r.intn(65536))
		default:
			alpha := classAlpha
			if f.enc == "base64" {
				alpha = "abcXYZ019+/"
			}
			if f.enc == "none" && r.intn(3) == 0 {
				alpha = "a0=\x80\xff\xc3\xa9\xe9"
			}
			text = r.str(n, alpha)
		}
		if f.param != "" {
			text = f.param + "=" + text
		}
		if f.group {
			run = append(run, text)
			continue
		}
		flush()
		if f.inline && len(frags) >= 0 {
			// an inline field shares its fragment with the next field
			frags = append(frags, text+"\x00inline")
			continue
		}
		frags = append(frags, text)
	}
	flush()
	out := strings.Join(frags, "$")
	out = strings.ReplaceAll(out, "\x00inline$", "")
	out = strings.ReplaceAll(out, "\x00inline", "")
	return pre + out
}
