package main

// Shared machinery for the codec correspondences (C10, C18, C20, and the scheme layouts):
// reflect.Type -> Coq struct descriptor, reflect.Value -> Coq struct value, error -> projected Coq error.

import (
	"encoding"
	"errors"
	"fmt"
	"reflect"
	"strconv"
	"strings"

	"github.com/sergeymakinen/go-crypt/argon2"
	"github.com/sergeymakinen/go-crypt/bcrypt"
	"github.com/sergeymakinen/go-crypt/des"
	"github.com/sergeymakinen/go-crypt/desext"
	crypthash "github.com/sergeymakinen/go-crypt/hash"
	"github.com/sergeymakinen/go-crypt/hash/parse"
	"github.com/sergeymakinen/go-crypt/md5"
	"github.com/sergeymakinen/go-crypt/nthash"
	"github.com/sergeymakinen/go-crypt/sha1"
	"github.com/sergeymakinen/go-crypt/sha256"
	"github.com/sergeymakinen/go-crypt/sha512"
	"github.com/sergeymakinen/go-crypt/sunmd5"
)

var (
	tmType = reflect.TypeOf((*encoding.TextMarshaler)(nil)).Elem()
	tuType = reflect.TypeOf((*encoding.TextUnmarshaler)(nil)).Elem()
)

// ---- harness text types (their behaviour is mirrored in coq/Codec/Codec.v, ids 100..102) ----
type Hex16 uint16

func (h Hex16) MarshalText() ([]byte, error) { return []byte(fmt.Sprintf("%04x", uint16(h))), nil }
func (h *Hex16) UnmarshalText(b []byte) error {
	if len(b) != 4 {
		return errors.New("bad hex")
	}
	for _, c := range b {
		if !(c >= '0' && c <= '9' || c >= 'a' && c <= 'f') {
			return errors.New("bad hex")
		}
	}
	v, _ := strconv.ParseUint(string(b), 16, 16)
	*h = Hex16(v)
	return nil
}

type RevStr string

func rev(b []byte) []byte {
	o := make([]byte, len(b))
	for i := range b {
		o[len(b)-1-i] = b[i]
	}
	return o
}
func (r RevStr) MarshalText() ([]byte, error) { return rev([]byte(r)), nil }
func (r *RevStr) UnmarshalText(b []byte) error {
	*r = RevStr(rev(b))
	return nil
}

type Picky string

func (p Picky) MarshalText() ([]byte, error) {
	if p == "fail" {
		return nil, errors.New("boom")
	}
	return []byte(p), nil
}
func (p *Picky) UnmarshalText(b []byte) error {
	if string(b) == "bad" {
		return errors.New("bad text")
	}
	*p = Picky(b)
	return nil
}

var textIDs = map[reflect.Type]int{}

func init() {
	reg := func(st reflect.Type, field string, id int) {
		f, ok := st.FieldByName(field)
		if !ok {
			panic("no field " + field)
		}
		t := f.Type
		for t.Kind() == reflect.Ptr {
			t = t.Elem()
		}
		textIDs[t] = id
	}
	reg(des.VerifSchemeType(), "HashPrefix", 10)
	reg(desext.VerifSchemeType(), "HashPrefix", 11)
	reg(md5.VerifSchemeType(), "HashPrefix", 12)
	reg(nthash.VerifSchemeType(), "HashPrefix", 13)
	reg(sha1.VerifSchemeType(), "HashPrefix", 14)
	reg(sha256.VerifSchemeType(), "HashPrefix", 15)
	reg(sha512.VerifSchemeType(), "HashPrefix", 16)
	reg(bcrypt.VerifSchemeType(), "HashPrefix", 17)
	reg(argon2.VerifSchemeType(), "HashPrefix", 18)
	reg(sunmd5.VerifSaltSchemeType(), "HashPrefix", 19)
	reg(bcrypt.VerifSchemeType(), "Cost", 20)
	reg(desext.VerifSchemeType(), "Rounds", 21)
	textIDs[reflect.TypeOf(Hex16(0))] = 100
	textIDs[reflect.TypeOf(RevStr(""))] = 101
	textIDs[reflect.TypeOf(Picky(""))] = 102
}

func coqOptNat(present bool, n int) string {
	if !present {
		return "None"
	}
	return "(Some " + coqNat(n) + ")"
}

func ftypeDesc(t reflect.Type) string {
	ptr := 0
	for t.Kind() == reflect.Ptr {
		t = t.Elem()
		ptr++
	}
	kind := "KOther"
	switch t.Kind() {
	case reflect.String:
		kind = "KString"
	case reflect.Slice:
		if t.Elem().Kind() == reflect.Uint8 {
			kind = "KBytes"
		}
	case reflect.Array:
		if t.Elem().Kind() == reflect.Uint8 {
			kind = fmt.Sprintf("(KArray %s)", coqNat(t.Len()))
		}
	case reflect.Int, reflect.Int8, reflect.Int16, reflect.Int32, reflect.Int64:
		kind = fmt.Sprintf("(KInt %d)", t.Bits())
	case reflect.Uint, reflect.Uint8, reflect.Uint16, reflect.Uint32, reflect.Uint64:
		kind = fmt.Sprintf("(KUint %d)", t.Bits())
	}
	id, known := textIDs[t]
	if !known {
		id = 999
	}
	hasM := t.Implements(tmType)
	hasU := t.Implements(tuType) || reflect.PtrTo(t).Implements(tuType)
	return fmt.Sprintf("{| t_kind := %s; t_ptr := %s; t_mtext := %s; t_utext := %s |}", kind, coqNat(ptr),
		coqOptNat(hasM, id), coqOptNat(hasU, id))
}

// structDesc renders the fields of struct type t as a Coq [list sfield].
func structDesc(t reflect.Type) string {
	var fs []string
	for i := 0; i < t.NumField(); i++ {
		sf := t.Field(i)
		tag, has := sf.Tag.Lookup("hash")
		st := sf.Type
		ptr := 0
		for st.Kind() == reflect.Ptr {
			st = st.Elem()
			ptr++
		}
		var ty string
		if sf.Anonymous && st.Kind() == reflect.Struct {
			ty = fmt.Sprintf("(TStruct %s %s)", coqNat(ptr), structDesc(st))
		} else {
			ty = "(TField " + ftypeDesc(sf.Type) + ")"
		}
		fs = append(fs, fmt.Sprintf("SField %s %s %s %s %s %s", coqStr(sf.Name), coqBool(sf.PkgPath == ""), coqBool(sf.Anonymous), coqStr(tag), coqBool(has), ty))
	}
	return coqList(fs)
}

type pathVal struct {
	path []int
	val  string // Coq fval
}

func coqPath(p []int) string {
	var it []string
	for _, x := range p {
		it = append(it, coqNat(x))
	}
	return coqList(it)
}

func fvalDesc(v reflect.Value) string {
	for v.Kind() == reflect.Ptr {
		if v.IsNil() {
			return "VNil"
		}
		v = v.Elem()
	}
	switch v.Kind() {
	case reflect.String:
		return "(VStr " + coqStr(v.String()) + ")"
	case reflect.Slice:
		if v.Type().Elem().Kind() == reflect.Uint8 {
			return "(VBytes " + coqBytes(v.Bytes()) + ")"
		}
	case reflect.Array:
		if v.Type().Elem().Kind() == reflect.Uint8 {
			b := make([]byte, v.Len())
			for i := range b {
				b[i] = byte(v.Index(i).Uint())
			}
			return "(VArr " + coqBytes(b) + ")"
		}
	case reflect.Int, reflect.Int8, reflect.Int16, reflect.Int32, reflect.Int64:
		return "(VInt " + coqZ(v.Int()) + ")"
	case reflect.Uint, reflect.Uint8, reflect.Uint16, reflect.Uint32, reflect.Uint64:
		return "(VUint " + coqU64(v.Uint()) + ")"
	}
	empty := false
	switch v.Kind() {
	case reflect.Map, reflect.Slice, reflect.Array:
		empty = v.Len() == 0
	case reflect.Bool:
		empty = !v.Bool()
	case reflect.Float32, reflect.Float64:
		empty = v.Float() == 0
	case reflect.Interface:
		empty = v.IsNil()
	case reflect.Uintptr:
		empty = v.Uint() == 0
	}
	return "(VOther " + coqBool(empty) + ")"
}

// leafValues walks a struct value the way getRawTypeInfo flattens it.
func leafValues(v reflect.Value, prefix []int, out *[]pathVal, embnil *[][]int) {
	t := v.Type()
	for i := 0; i < t.NumField(); i++ {
		sf := t.Field(i)
		tag := sf.Tag.Get("hash")
		if (sf.PkgPath != "" && !sf.Anonymous) || tag == "-" {
			continue
		}
		path := append(append([]int(nil), prefix...), i)
		st := sf.Type
		for st.Kind() == reflect.Ptr {
			st = st.Elem()
		}
		if sf.Anonymous && st.Kind() == reflect.Struct {
			fv := v.Field(i)
			isNil := false
			for fv.Kind() == reflect.Ptr {
				if fv.IsNil() {
					isNil = true
					break
				}
				fv = fv.Elem()
			}
			if isNil {
				*embnil = append(*embnil, path)
				// leaves below a nil embedded pointer: zero values of the element type
				leafValues(reflect.New(st).Elem(), path, out, embnil)
			} else {
				leafValues(fv, path, out, embnil)
			}
			continue
		}
		*out = append(*out, pathVal{path, fvalDesc(v.Field(i))})
	}
}

func svalDesc(v reflect.Value) (string, []pathVal) {
	for v.Kind() == reflect.Ptr {
		v = v.Elem()
	}
	var pvs []pathVal
	var embnil [][]int
	leafValues(v, nil, &pvs, &embnil)
	return "{| sv_fields := " + pvList(pvs) + "; sv_embnil := " + pathList(embnil) + " |}", pvs
}
func pvList(pvs []pathVal) string {
	var it []string
	for _, pv := range pvs {
		it = append(it, "("+coqPath(pv.path)+", "+pv.val+")")
	}
	return coqList(it)
}
func pathList(ps [][]int) string {
	var it []string
	for _, p := range ps {
		it = append(it, coqPath(p))
	}
	return coqList(it)
}

// ---- error projection ----
func msgDesc(msg string) string {
	switch {
	case msg == "length mismatch":
		return "MLength"
	case strings.HasPrefix(msg, "invalid character "):
		q := strings.TrimPrefix(msg, "invalid character ")
		if len(q) >= 2 && q[0] == '\'' {
			r, _, _, err := strconv.UnquoteChar(q[1:len(q)-1], '\'')
			if err == nil {
				return fmt.Sprintf("(MInvalidChar %d)", r)
			}
		}
		return "(MInvalidChar (-1))"
	case msg == "unsupported type":
		return "MUnsupported"
	case msg == "prefix not found":
		return "MPrefixNotFound"
	case msg == "unexpected EOF":
		return "MUnexpectedEOF"
	case msg == "excessive fragment":
		return "MExcessiveFragment"
	case msg == "excessive prefix":
		return "MExcessivePrefix"
	case strings.HasSuffix(msg, " not found"):
		return "MNotFound"
	case strings.HasPrefix(msg, "strconv.") && strings.HasSuffix(msg, "value out of range"):
		return "(MParse true)"
	case strings.HasPrefix(msg, "strconv.") && strings.HasSuffix(msg, "invalid syntax"):
		return "(MParse false)"
	case strings.HasPrefix(msg, "unsupported prefix "):
		s, err := strconv.Unquote(strings.TrimPrefix(msg, "unsupported prefix "))
		if err == nil {
			return "(MText " + coqBytes(append([]byte{1}, s...)) + ")"
		}
	case msg == "boom":
		return "(MText [2])"
	case msg == "bad hex":
		return "(MText [3])"
	case msg == "bad text":
		return "(MText [4])"
	}
	return "(MText " + coqBytes(append([]byte{99}, msg...)) + ")"
}

func errDesc(err error) string {
	switch e := err.(type) {
	case *crypthash.UnsupportedTypeError:
		return "(EUnsupportedType " + coqStr(e.Field) + ")"
	case *crypthash.UnsupportedValueError:
		return "(EUnsupportedValue " + coqStr(e.Field) + " " + msgDesc(e.Str) + ")"
	case *crypthash.TagParamError:
		return "(ETagParam " + coqStr(e.Field1) + " " + coqStr(e.Field2) + ")"
	case *crypthash.UnmarshalTypeError:
		nk := "NValue"
		switch e.Value {
		case "EOF":
			nk = "NEOF"
		case "prefix":
			nk = "NPrefix"
		case "group":
			nk = "NGroup"
		}
		return fmt.Sprintf("(EUnmarshal %s %s %s %s)", nk, coqStr(e.Field), coqNat(e.Offset), msgDesc(e.Msg))
	case *parse.SyntaxError:
		m := "[99]"
		switch e.Msg {
		case "missing prefix identifier":
			m = "[0]"
		case "missing prefix end":
			m = "[1]"
		}
		return fmt.Sprintf("(ESyntax %s %s)", coqNat(e.Offset), m)
	}
	msg := err.Error()
	if strings.HasPrefix(msg, "invalid tag in field ") {
		rest := strings.TrimPrefix(msg, "invalid tag in field ")
		if i := strings.Index(rest, ": "); i >= 0 {
			name := rest[:i]
			if j := strings.LastIndex(name, "."); j >= 0 {
				name = name[j+1:]
			}
			return "(EInvalidTag " + coqStr(name) + ")"
		}
	}
	return "(EInvalidTag " + coqStr("?"+msg) + ")"
}

// marshalObs / unmarshalObs run the implementation under recover.
func marshalObs(v interface{}) (s string, err error, pan interface{}) {
	defer func() {
		if r := recover(); r != nil {
			pan = r
		}
	}()
	s, err = crypthash.Marshal(v)
	return
}
func unmarshalObs(h string, p interface{}) (err error, pan interface{}) {
	defer func() {
		if r := recover(); r != nil {
			pan = r
		}
	}()
	err = crypthash.Unmarshal(h, p)
	return
}

func obsMarshalCoq(s string, err error, pan interface{}) string {
	switch {
	case pan != nil:
		return "OPanic"
	case err != nil:
		return "(OErr " + errDesc(err) + ")"
	}
	return "(OOk " + coqStr(s) + ")"
}
func obsUnmarshalCoq(p reflect.Value, err error, pan interface{}) string {
	switch {
	case pan != nil:
		return "OPanic"
	case err != nil:
		return "(OErr " + errDesc(err) + ")"
	}
	_, pvs := svalDesc(p)
	return "(OOk " + pvList(pvs) + ")"
}
