// racecheck: run mixes of the exported operations from N goroutines under the Go race detector and compare
// every concurrent result (value and error text) with the result of the same call executed alone.
// Build: go build -race -tags verif (and -tags "verif purego" so that Argon2 block accesses are instrumented).
package main

import (
	"encoding/json"
	"flag"
	"fmt"
	"os"
	"reflect"
	"runtime"
	"strings"
	"sync"
	"time"

	crypt "github.com/sergeymakinen/go-crypt"
	"github.com/sergeymakinen/go-crypt/argon2"
	"github.com/sergeymakinen/go-crypt/argon2/argon2crypto"
	"github.com/sergeymakinen/go-crypt/bcrypt"
	"github.com/sergeymakinen/go-crypt/des"
	"github.com/sergeymakinen/go-crypt/desext"
	crypthash "github.com/sergeymakinen/go-crypt/hash"
	"github.com/sergeymakinen/go-crypt/md5"
	"github.com/sergeymakinen/go-crypt/nthash"
	"github.com/sergeymakinen/go-crypt/sha1"
	"github.com/sergeymakinen/go-crypt/sha256"
	"github.com/sergeymakinen/go-crypt/sha512"
	"github.com/sergeymakinen/go-crypt/sunmd5"
)

type rng struct{ s uint64 }

func (r *rng) u64() uint64 {
	r.s += 0x9E3779B97F4A7C15
	z := r.s
	z = (z ^ (z >> 30)) * 0xBF58476D1CE4E5B9
	z = (z ^ (z >> 27)) * 0x94D049BB133111EB
	return z ^ (z >> 31)
}
func (r *rng) intn(n int) int { return int(r.u64() % uint64(n)) }

// an operation returns a printable result (value + error text)
type op struct {
	name string
	run  func() string
}

type shared struct {
	A string `hash:"param:a"`
	B uint32 `hash:"param:b,omitempty"`
	C []byte
}
type badTag struct {
	A string `hash:"inline"`
}

func res(v interface{}, err error) string { return fmt.Sprintf("%v|%T|%v", v, err, err) }

func buildOps(mode string) []op {
	hashes := map[string]string{}
	mk := func(name string, f func() (string, error)) {
		h, err := f()
		if err != nil {
			panic(name + ": " + err.Error())
		}
		hashes[name] = h
	}
	mk("md5", func() (string, error) { return md5.NewHash("pw"), nil })
	mk("sha256", func() (string, error) { return sha256.NewHash("pw", 1000) })
	mk("sha512", func() (string, error) { return sha512.NewHash("pw", 1000) })
	mk("sha1", func() (string, error) { return sha1.NewHash("pw", 3) })
	mk("sunmd5", func() (string, error) { return sunmd5.NewHash("pw", 0) })
	mk("des", func() (string, error) { return des.NewHash("pw"), nil })
	mk("desext", func() (string, error) { return desext.NewHash("pw", 3) })
	mk("bcrypt", func() (string, error) { return bcrypt.NewHash("pw", 4) })
	mk("nthash", func() (string, error) { return nthash.NewHash("pw") })
	mk("argon2", func() (string, error) { return argon2.NewHash("pw", 16, 1) })
	var ops []op
	if mode == "argon2" {
		for _, c := range []struct {
			mode, ver int
			p         uint8
			m, t      uint32
		}{{0, 0x13, 2, 16, 1}, {1, 0x13, 3, 24, 2}, {2, 0x13, 4, 35, 2}, {2, 0x10, 4, 32, 1}, {0, 0x10, 8, 64, 1}, {1, 0x10, 2, 19, 3}, {2, 0x13, 5, 47, 1}} {
			c := c
			ops = append(ops, op{fmt.Sprintf("argon2crypto.Key mode=%d v=%x p=%d m=%d t=%d", c.mode, c.ver, c.p, c.m, c.t), func() string {
				return fmt.Sprintf("%x", argon2crypto.Key(c.mode, c.ver, []byte("password"), []byte("saltsalt"), c.t, c.m, c.p, 32))
			}})
		}
		return ops
	}
	for name, h := range hashes {
		name, h := name, h
		ops = append(ops, op{"crypt.Check " + name, func() string { return res(nil, crypt.Check(h, "pw")) }})
		ops = append(ops, op{"crypt.Check wrong " + name, func() string { return res(nil, crypt.Check(h, "pwx")) }})
		ops = append(ops, op{"crypt.Check malformed " + name, func() string { return res(nil, crypt.Check(h+"$x", "pw")) }})
	}
	ops = append(ops,
		op{"md5.Check", func() string { return res(nil, md5.Check(hashes["md5"], "pw")) }},
		op{"md5.Salt", func() string { s, err := md5.Salt(hashes["md5"]); return res(string(s), err) }},
		op{"md5.Key", func() string { k, err := md5.Key([]byte("pw"), []byte("salt")); return res(fmt.Sprintf("%x", k), err) }},
		op{"sha256.Params", func() string { s, r, err := sha256.Params(hashes["sha256"]); return res(fmt.Sprint(string(s), r), err) }},
		op{"sha512.Key bad salt", func() string { k, err := sha512.Key([]byte("pw"), []byte("s@lt"), 1000); return res(k, err) }},
		op{"sha1.Params", func() string { s, r, err := sha1.Params(hashes["sha1"]); return res(fmt.Sprint(string(s), r), err) }},
		op{"sunmd5.Params", func() string {
			s, r, o, err := sunmd5.Params(hashes["sunmd5"])
			return res(fmt.Sprint(string(s), r, o), err)
		}},
		op{"sunmd5.Key", func() string {
			k, err := sunmd5.Key([]byte("pw"), []byte("abc"), 1, nil)
			return res(fmt.Sprintf("%x", k), err)
		}},
		op{"des.Salt", func() string { s, err := des.Salt(hashes["des"]); return res(string(s), err) }},
		op{"desext.Params", func() string { s, r, err := desext.Params(hashes["desext"]); return res(fmt.Sprint(string(s), r), err) }},
		op{"bcrypt.Params", func() string {
			s, c, o, err := bcrypt.Params(hashes["bcrypt"])
			return res(fmt.Sprint(string(s), c, o), err)
		}},
		op{"bcrypt.Key", func() string {
			k, err := bcrypt.Key([]byte("pw"), []byte("aaaaaaaaaaaaaaaaaaaaa."), 4, nil)
			return res(fmt.Sprintf("%x", k), err)
		}},
		op{"nthash.Check", func() string { return res(nil, nthash.Check(hashes["nthash"], "pw")) }},
		op{"argon2.Params", func() string {
			s, m, t, p, o, err := argon2.Params(hashes["argon2"])
			return res(fmt.Sprint(string(s), m, t, p, o), err)
		}},
		op{"argon2.Key 2 lanes", func() string {
			k, err := argon2.Key([]byte("pw"), []byte("c29tZXNhbHQ"), 16, 1, 2, nil)
			return res(fmt.Sprintf("%x", k), err)
		}},
		op{"Marshal shared value", func() string { s, err := crypthash.Marshal(shared{"x", 7, []byte("cc")}); return res(s, err) }},
		op{"Marshal shared pointer", func() string { s, err := crypthash.Marshal(&shared{"y", 0, []byte("d")}); return res(s, err) }},
		op{"Unmarshal shared", func() string {
			var v shared
			err := crypthash.Unmarshal("a=q$b=5$zz", &v)
			return res(fmt.Sprint(v), err)
		}},
		op{"Unmarshal shared error", func() string {
			var v shared
			err := crypthash.Unmarshal("a=q$b=5$zz$more", &v)
			return res(fmt.Sprint(v), err)
		}},
		op{"Marshal failing prefix", func() string { s, err := crypthash.Marshal(failPrefix{failText("fail"), "x"}); return res(s, err) }},
		op{"Marshal good prefix", func() string { s, err := crypthash.Marshal(failPrefix{failText("$ok$"), "salt"}); return res(s, err) }},
		op{"Marshal bad tag", func() string { s, err := crypthash.Marshal(badTag{"x"}); return res(s, err) }},
		op{"Unmarshal bad tag", func() string { var v badTag; err := crypthash.Unmarshal("x", &v); return res(nil, err) }},
	)
	// NewHash varies (random salt): compare only success and verification
	ops = append(ops, op{"md5.NewHash verifies", func() string { h := md5.NewHash("p2"); return res(nil, md5.Check(h, "p2")) }})
	ops = append(ops, op{"sha1.NewHash verifies", func() string {
		h, err := sha1.NewHash("p2", 2)
		if err != nil {
			return res(nil, err)
		}
		return res(nil, crypt.Check(h, "p2"))
	}})
	return ops
}

// raceInner is embedded (at different positions) by the fresh outer types below
type raceInner struct {
	X string `hash:"param:x"`
	Y uint16 `hash:"param:y,omitempty"`
}

// freshTypeOps: first use of struct types never seen before -- a plain one, one with an INVALID tag (its error must
// name the form it was called with), two that embed the same struct at different positions -- in value and pointer
// form, from all goroutines of the run at once.  only >= 0 restricts the list to that one op (used to compute each
// expected result on a twin type of its own, so that it is the result of an isolated first use).
func freshTypeOps(k int, only int) (string, []op) {
	fname := fmt.Sprintf("F%d", k)
	str, u16 := reflect.TypeOf(""), reflect.TypeOf(uint16(0))
	plain := reflect.StructOf([]reflect.StructField{{Name: fname, Type: str, Tag: `hash:"param:f"`}, {Name: "G", Type: u16}})
	bad := reflect.StructOf([]reflect.StructField{{Name: fname, Type: str, Tag: `hash:"param:f,length:x"`}, {Name: "G", Type: u16, Tag: `hash:"inline,group"`}})
	embA := reflect.StructOf([]reflect.StructField{{Name: fname, Type: str}, {Name: "RaceInner", Type: reflect.TypeOf(raceInner{}), Anonymous: true}, {Name: "G", Type: u16}})
	embB := reflect.StructOf([]reflect.StructField{{Name: "RaceInner", Type: reflect.TypeOf(raceInner{}), Anonymous: true}, {Name: fname, Type: str}})
	fill := func(t reflect.Type) reflect.Value {
		p := reflect.New(t)
		for i := 0; i < t.NumField(); i++ {
			f := p.Elem().Field(i)
			switch f.Kind() {
			case reflect.String:
				f.SetString("v")
			case reflect.Uint16:
				f.SetUint(9)
			case reflect.Struct:
				f.Field(0).SetString("ix")
				f.Field(1).SetUint(3)
			}
		}
		return p
	}
	var ops []op
	for _, tc := range []struct {
		name string
		t    reflect.Type
		good string
	}{{"plain", plain, "f=w$12"}, {"badtag", bad, "f=w$12"}, {"embA", embA, "w$x=q$y=2$12"}, {"embB", embB, "x=q$w"}} {
		tc := tc
		ops = append(ops,
			op{"fresh " + tc.name + " Marshal value", func() string { s, err := crypthash.Marshal(fill(tc.t).Elem().Interface()); return res(s, err) }},
			op{"fresh " + tc.name + " Marshal pointer", func() string { s, err := crypthash.Marshal(fill(tc.t).Interface()); return res(s, err) }},
			op{"fresh " + tc.name + " Unmarshal", func() string {
				p := reflect.New(tc.t)
				err := crypthash.Unmarshal(tc.good, p.Interface())
				return res(fmt.Sprint(p.Elem().Interface()), err)
			}},
			op{"fresh " + tc.name + " Unmarshal error", func() string {
				p := reflect.New(tc.t)
				err := crypthash.Unmarshal(tc.good+"$surplus", p.Interface())
				return res(nil, err)
			}})
	}
	if only >= 0 {
		ops = ops[only : only+1]
	}
	return fname, ops
}

// a prefix type whose MarshalText fails for one value (the error path of the prefix) and works for others
type failText string

func (f failText) MarshalText() ([]byte, error) {
	if f == "fail" {
		return nil, fmt.Errorf("no text for this prefix")
	}
	return []byte(f), nil
}

type failPrefix struct {
	HashPrefix failText
	S          string
}

type report struct {
	Runs       int      `json:"runs"`
	Calls      int      `json:"calls"`
	Mismatches []string `json:"mismatches"`
	Configs    []string `json:"configs"`
	Goroutines int      `json:"goroutines_after"`
}

func main() {
	mode := flag.String("mode", "all", "all | argon2")
	seed := flag.Uint64("seed", 1, "seed")
	rounds := flag.Int("rounds", 4, "repetitions per configuration")
	flag.Parse()
	r := &rng{s: *seed}
	ops := buildOps(*mode)
	expect := make([]string, len(ops))
	for i, o := range ops {
		expect[i] = o.run()
	}
	rep := report{Mismatches: []string{}}
	var mu sync.Mutex
	g0 := runtime.NumGoroutine()
	fresh := 0
	for _, procs := range []int{1, 2, 4, 16} {
		runtime.GOMAXPROCS(procs)
		for _, n := range []int{2, 8, 32} {
			if *mode == "argon2" && n == 32 {
				continue
			}
			for round := 0; round < *rounds; round++ {
				rep.Configs = append(rep.Configs, fmt.Sprintf("GOMAXPROCS=%d N=%d", procs, n))
				rep.Runs++
				// a never-seen struct type shared by all goroutines of this run + concurrent registrations
				var fops []op
				var fexp []string
				if *mode == "all" {
					fresh++
					base := fresh*1000 + int(*seed%1000)
					var fname string
					fname, fops = freshTypeOps(base, -1)
					// expected results: each op alone, as the first use of a twin type of its own (the twins differ from the
					// shared type only in the name of one field)
					for j := range fops {
						tname, eops := freshTypeOps(base+500000+j*100000, j)
						fexp = append(fexp, strings.ReplaceAll(eops[0].run(), tname, fname))
					}
				}
				start := make(chan struct{})
				var wg sync.WaitGroup
				for g := 0; g < n; g++ {
					wg.Add(1)
					plan := make([]int, 6)
					for k := range plan {
						plan[k] = r.intn(len(ops) + len(fops))
					}
					yields := r.intn(3)
					go func(g int, plan []int, yields int) {
						defer wg.Done()
						<-start
						for k, idx := range plan {
							for y := 0; y < yields; y++ {
								runtime.Gosched()
							}
							var got, want, name string
							if idx < len(ops) {
								got, want, name = ops[idx].run(), expect[idx], ops[idx].name
							} else {
								got, want, name = fops[idx-len(ops)].run(), fexp[idx-len(ops)], fops[idx-len(ops)].name
							}
							if *mode == "all" && k == 2 && g%4 == 0 {
								crypt.RegisterHash(fmt.Sprintf("$t%d$", g), func(h, p string) error { return nil })
							}
							mu.Lock()
							rep.Calls++
							if got != want {
								if len(rep.Mismatches) < 20 {
									rep.Mismatches = append(rep.Mismatches, fmt.Sprintf("%s: concurrent %q, alone %q", name, got, want))
								}
							}
							mu.Unlock()
						}
					}(g, plan, yields)
				}
				close(start)
				wg.Wait()
			}
		}
	}
	runtime.GOMAXPROCS(runtime.NumCPU())
	// a goroutine that has done its work may still be on its way out when its WaitGroup is released: give the scheduler
	// up to five seconds (loaded machines) before counting what is left
	for i := 0; i < 500; i++ {
		runtime.Gosched()
		if runtime.NumGoroutine() <= g0 {
			break
		}
		time.Sleep(10 * time.Millisecond)
	}
	rep.Goroutines = runtime.NumGoroutine() - g0
	json.NewEncoder(os.Stdout).Encode(rep)
}
