module verifharness

go 1.17

require (
	github.com/sergeymakinen/go-crypt v0.0.0
	golang.org/x/crypto v0.31.0
)

require golang.org/x/sys v0.28.0 // indirect

replace github.com/sergeymakinen/go-crypt => /repo
