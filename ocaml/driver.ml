(* Driver for the extracted KDF models.  Protocol (lines on stdin/stdout):
     request :  <fn> <hexarg> ...                 (integers in decimal)
     while computing, for every primitive call:  "CALL <prim> <hex> ..." is printed and one reply line is read
     answer  :  "RESULT <hex>" | "RESULT NONE"
   Primitives (MD5, SHA-*, HMAC-SHA1, Blowfish) are provided by the Go harness; all in-repo control code is the
   extracted Coq model. *)
open Kdf

let rec pos_of_int n = if n = 1 then XH else if n land 1 = 1 then XI (pos_of_int (n lsr 1)) else XO (pos_of_int (n lsr 1))
let z_of_int n = if n = 0 then Z0 else if n > 0 then Zpos (pos_of_int n) else Zneg (pos_of_int (-n))
let rec int_of_pos = function XH -> 1 | XO p -> 2 * int_of_pos p | XI p -> 2 * int_of_pos p + 1
let int_of_z = function Z0 -> 0 | Zpos p -> int_of_pos p | Zneg p -> - (int_of_pos p)

let bytes_of_hex (s : string) : z list =
  let n = String.length s / 2 in
  List.init n (fun i -> z_of_int (int_of_string ("0x" ^ String.sub s (2 * i) 2)))
let hex_of_bytes (l : z list) : string =
  let b = Buffer.create 64 in
  List.iter (fun x -> Buffer.add_string b (Printf.sprintf "%02x" ((int_of_z x) land 255))) l;
  Buffer.contents b
let hexarg s = if s = "-" then [] else bytes_of_hex s
let hexout l = match l with [] -> "-" | _ -> hex_of_bytes l

let call (parts : string list) : string =
  print_string ("CALL " ^ String.concat " " parts ^ "\n"); flush stdout;
  input_line stdin

let prim name (x : z list) : z list = hexarg (call [name; hexout x])
let hmac (k : z list) (d : z list) : z list = hexarg (call ["hmacsha1"; hexout k; hexout d])
(* Blowfish cipher states are handles kept by the harness *)
let bf_new (k : z list) (s : z list) : int option =
  let r = call ["bfnew"; hexout k; hexout s] in if r = "ERR" then None else Some (int_of_string r)
let bf_expand (k : z list) (c : int) : int = int_of_string (call ["bfexpand"; hexout k; string_of_int c])
let bf_encrypt (c : int) (b : z list) : z list = hexarg (call ["bfencrypt"; string_of_int c; hexout b])

let blake2b (n : z) (x : z list) : z list = hexarg (call ["blake2b"; string_of_int (int_of_z n); hexout x])
(* 64-bit words as 16 hex digits *)
let rec z_of_hex64 (s : string) : z =
  (* two 32-bit halves to stay inside OCaml's int *)
  let hi = int_of_string ("0x" ^ String.sub s 0 8) and lo = int_of_string ("0x" ^ String.sub s 8 8) in
  Kdf.Z.add (Kdf.Z.mul (z_of_int hi) (z_of_int 4294967296)) (z_of_int lo)
let hex64_of_z (v : z) : string =
  let hi = int_of_z (Kdf.Z.div v (z_of_int 4294967296)) and lo = int_of_z (Kdf.Z.modulo v (z_of_int 4294967296)) in
  Printf.sprintf "%08x%08x" hi lo
let words_of_hex (s : string) : z list = List.init (String.length s / 16) (fun i -> z_of_hex64 (String.sub s (16 * i) 16))
let hex_of_words (l : z list) : string = String.concat "" (List.map hex64_of_z l)
let zi s = z_of_int (int_of_string s)

let result = function Some l -> print_string ("RESULT " ^ hexout l ^ "\n") | None -> print_string "RESULT NONE\n"

let () =
  try
    while true do
      let line = input_line stdin in
      (match String.split_on_char ' ' line with
       | ["md5crypt"; pw; salt] -> result (x_md5crypt (prim "md5") (hexarg pw) (hexarg salt))
       | ["md5crypt_spec"; pw; salt] -> result (x_md5crypt_spec (prim "md5") (hexarg pw) (hexarg salt))
       | ["sha256crypt"; pw; salt; r] -> result (x_sha256crypt (prim "sha256") (hexarg pw) (hexarg salt) (z_of_int (int_of_string r)))
       | ["sha256crypt_spec"; pw; salt; r] -> result (x_sha256crypt_spec (prim "sha256") (hexarg pw) (hexarg salt) (z_of_int (int_of_string r)))
       | ["sha512crypt"; pw; salt; r] -> result (x_sha512crypt (prim "sha512") (hexarg pw) (hexarg salt) (z_of_int (int_of_string r)))
       | ["sha512crypt_spec"; pw; salt; r] -> result (x_sha512crypt_spec (prim "sha512") (hexarg pw) (hexarg salt) (z_of_int (int_of_string r)))
       | ["sha1crypt"; pw; salt; r] -> result (x_sha1crypt hmac (hexarg pw) (hexarg salt) (z_of_int (int_of_string r)))
       | ["sunmd5"; pw; ss; r] -> result (x_sunmd5 (prim "md5") (hexarg pw) (hexarg ss) (z_of_int (int_of_string r)))
       | ["ntencode"; s] -> result (Some (x_nt_encode (hexarg s)))
       | ["bcrypt"; k; s; c] -> result (x_bcrypt bf_new bf_expand bf_encrypt (hexarg k) (hexarg s) (z_of_int (int_of_string c)))
       | ["bcrypt_spec"; k; s; c] -> result (x_bcrypt_spec bf_new bf_expand bf_encrypt (hexarg k) (hexarg s) (z_of_int (int_of_string c)))
       | ["des"; pw; salt] -> result (Some (x_des (hexarg pw) (hexarg salt)))
       | ["desext"; pw; salt; r] -> result (Some (x_desext (hexarg pw) (hexarg salt) (z_of_int (int_of_string r))))
       | ["argon2"; mode; ver; pw; salt; t; m; p; kl] ->
         result (Some (x_argon2 blake2b (zi mode) (zi ver) (hexarg pw) (hexarg salt) (zi t) (zi m) (zi p) (zi kl)))
       | "kdf" :: tag :: nb :: rest ->
         (* kdf <tag> <#byte args> <hex>... <#numbers> <dec>... : the concrete derivation on the scheme model's argument lists *)
         let nb = int_of_string nb in
         let rec take n l = if n = 0 then ([], l) else (match l with x :: r -> let (a, b) = take (n - 1) r in (x :: a, b) | [] -> ([], [])) in
         let (bs, rest) = take nb rest in
         let ns = (match rest with _ :: ns -> ns | [] -> []) in
         result (x_kdf (prim "md5") (prim "sha256") (prim "sha512") (prim "md4") hmac bf_new bf_expand bf_encrypt blake2b
                   (zi tag) (List.map hexarg bs) (List.map zi ns))
       | ["argon2block"; o; a; b; x] ->
         print_string ("RESULT " ^ hex_of_words (x_argon2_block (words_of_hex o) (words_of_hex a) (words_of_hex b) (x = "1")) ^ "\n")
       | ["argon2index"; rand; lanes; segs; thr; n; sl; lane; idx] ->
         print_string ("RESULT " ^ string_of_int (int_of_z (x_argon2_index (z_of_hex64 rand) (zi lanes) (zi segs) (zi thr) (zi n) (zi sl) (zi lane) (zi idx))) ^ "\n")
       | _ -> print_string "RESULT BADREQUEST\n");
      flush stdout
    done
  with End_of_file -> ()
