(* Tie: the struct layouts reflected from /repo on this run equal the committed copy. *)
Require Import GC.Base.Bytes GC.Codec.Types GC.Generated.Gen_layouts GC.Schemes.Layouts.

Lemma tie_layout_argon2 : layout_argon2 = m_layout_argon2. Proof. reflexivity. Qed.
Lemma tie_layout_bcrypt : layout_bcrypt = m_layout_bcrypt. Proof. reflexivity. Qed.
Lemma tie_layout_des : layout_des = m_layout_des. Proof. reflexivity. Qed.
Lemma tie_layout_desext : layout_desext = m_layout_desext. Proof. reflexivity. Qed.
Lemma tie_layout_md5 : layout_md5 = m_layout_md5. Proof. reflexivity. Qed.
Lemma tie_layout_nthash : layout_nthash = m_layout_nthash. Proof. reflexivity. Qed.
Lemma tie_layout_sha1 : layout_sha1 = m_layout_sha1. Proof. reflexivity. Qed.
Lemma tie_layout_sha256 : layout_sha256 = m_layout_sha256. Proof. reflexivity. Qed.
Lemma tie_layout_sha512 : layout_sha512 = m_layout_sha512. Proof. reflexivity. Qed.
Lemma tie_layout_sunmd5 : layout_sunmd5 = m_layout_sunmd5. Proof. reflexivity. Qed.
Lemma tie_layout_sunmd5_salt : layout_sunmd5_salt = m_layout_sunmd5_salt. Proof. reflexivity. Qed.
