(* Tie: the DES tables extracted from /repo on this run equal the committed copy. *)
Require Import GC.Base.Bytes GC.Generated.Gen_des_tables GC.Kdf.DesTables.

Lemma tie_des_ie3264 : des_ie3264 = m_des_ie3264. Proof. vm_compute. reflexivity. Qed.
Lemma tie_des_cf6464 : des_cf6464 = m_des_cf6464. Proof. vm_compute. reflexivity. Qed.
Lemma tie_des_spe : des_spe = m_des_spe. Proof. vm_compute. reflexivity. Qed.
Lemma tie_des_pcxRot : des_pcxRot = m_des_pcxRot. Proof. vm_compute. reflexivity. Qed.
Lemma tie_des_ksMask : des_ksMask = m_des_ksMask. Proof. vm_compute. reflexivity. Qed.
