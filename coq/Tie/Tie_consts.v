(* Tie: every constant extracted from /repo on this run equals the committed copy. *)
Require Import GC.Base.Bytes GC.Generated.Gen_consts GC.Schemes.Consts.

Lemma tie_hash_le_alphabet : hash_le_alphabet = m_hash_le_alphabet. Proof. vm_compute. reflexivity. Qed.
Lemma tie_hash_le_padded : hash_le_padded = m_hash_le_padded. Proof. vm_compute. reflexivity. Qed.
Lemma tie_hash_be_alphabet : hash_be_alphabet = m_hash_be_alphabet. Proof. vm_compute. reflexivity. Qed.
Lemma tie_hash_be_padded : hash_be_padded = m_hash_be_padded. Proof. vm_compute. reflexivity. Qed.
Lemma tie_bcrypt_alphabet : bcrypt_alphabet = m_bcrypt_alphabet. Proof. vm_compute. reflexivity. Qed.
Lemma tie_bcrypt_padded : bcrypt_padded = m_bcrypt_padded. Proof. vm_compute. reflexivity. Qed.
Lemma tie_hashutil_hash_encode : hashutil_hash_encode = m_hashutil_hash_encode. Proof. vm_compute. reflexivity. Qed.
Lemma tie_hashutil_hash_decode : hashutil_hash_decode = m_hashutil_hash_decode. Proof. vm_compute. reflexivity. Qed.
Lemma tie_hashutil_base64_encode : hashutil_base64_encode = m_hashutil_base64_encode. Proof. vm_compute. reflexivity. Qed.
Lemma tie_hashutil_base64_decode : hashutil_base64_decode = m_hashutil_base64_decode. Proof. vm_compute. reflexivity. Qed.
Lemma tie_argon2_MinSaltLength : argon2_MinSaltLength = m_argon2_MinSaltLength. Proof. vm_compute. reflexivity. Qed.
Lemma tie_argon2_DefaultSaltLength : argon2_DefaultSaltLength = m_argon2_DefaultSaltLength. Proof. vm_compute. reflexivity. Qed.
Lemma tie_argon2_MinTime : argon2_MinTime = m_argon2_MinTime. Proof. vm_compute. reflexivity. Qed.
Lemma tie_argon2_DefaultTime : argon2_DefaultTime = m_argon2_DefaultTime. Proof. vm_compute. reflexivity. Qed.
Lemma tie_argon2_MinMemory : argon2_MinMemory = m_argon2_MinMemory. Proof. vm_compute. reflexivity. Qed.
Lemma tie_argon2_DefaultMemory : argon2_DefaultMemory = m_argon2_DefaultMemory. Proof. vm_compute. reflexivity. Qed.
Lemma tie_argon2_MinThreads : argon2_MinThreads = m_argon2_MinThreads. Proof. vm_compute. reflexivity. Qed.
Lemma tie_argon2_DefaultThreads : argon2_DefaultThreads = m_argon2_DefaultThreads. Proof. vm_compute. reflexivity. Qed.
Lemma tie_argon2_Version10 : argon2_Version10 = m_argon2_Version10. Proof. vm_compute. reflexivity. Qed.
Lemma tie_argon2_Version13 : argon2_Version13 = m_argon2_Version13. Proof. vm_compute. reflexivity. Qed.
Lemma tie_argon2_keyLen : argon2_keyLen = m_argon2_keyLen. Proof. vm_compute. reflexivity. Qed.
Lemma tie_argon2_Prefix2d : argon2_Prefix2d = m_argon2_Prefix2d. Proof. vm_compute. reflexivity. Qed.
Lemma tie_argon2_Prefix2i : argon2_Prefix2i = m_argon2_Prefix2i. Proof. vm_compute. reflexivity. Qed.
Lemma tie_argon2_Prefix2id : argon2_Prefix2id = m_argon2_Prefix2id. Proof. vm_compute. reflexivity. Qed.
Lemma tie_bcrypt_SaltLength : bcrypt_SaltLength = m_bcrypt_SaltLength. Proof. vm_compute. reflexivity. Qed.
Lemma tie_bcrypt_MinCost : bcrypt_MinCost = m_bcrypt_MinCost. Proof. vm_compute. reflexivity. Qed.
Lemma tie_bcrypt_MaxCost : bcrypt_MaxCost = m_bcrypt_MaxCost. Proof. vm_compute. reflexivity. Qed.
Lemma tie_bcrypt_DefaultCost : bcrypt_DefaultCost = m_bcrypt_DefaultCost. Proof. vm_compute. reflexivity. Qed.
Lemma tie_bcrypt_sumLength : bcrypt_sumLength = m_bcrypt_sumLength. Proof. vm_compute. reflexivity. Qed.
Lemma tie_bcrypt_Prefix2 : bcrypt_Prefix2 = m_bcrypt_Prefix2. Proof. vm_compute. reflexivity. Qed.
Lemma tie_bcrypt_Prefix2a : bcrypt_Prefix2a = m_bcrypt_Prefix2a. Proof. vm_compute. reflexivity. Qed.
Lemma tie_bcrypt_Prefix2b : bcrypt_Prefix2b = m_bcrypt_Prefix2b. Proof. vm_compute. reflexivity. Qed.
Lemma tie_des_MaxPasswordLength : des_MaxPasswordLength = m_des_MaxPasswordLength. Proof. vm_compute. reflexivity. Qed.
Lemma tie_des_SaltLength : des_SaltLength = m_des_SaltLength. Proof. vm_compute. reflexivity. Qed.
Lemma tie_des_sumLength : des_sumLength = m_des_sumLength. Proof. vm_compute. reflexivity. Qed.
Lemma tie_des_Prefix : des_Prefix = m_des_Prefix. Proof. vm_compute. reflexivity. Qed.
Lemma tie_desext_SaltLength : desext_SaltLength = m_desext_SaltLength. Proof. vm_compute. reflexivity. Qed.
Lemma tie_desext_MinRounds : desext_MinRounds = m_desext_MinRounds. Proof. vm_compute. reflexivity. Qed.
Lemma tie_desext_MaxRounds : desext_MaxRounds = m_desext_MaxRounds. Proof. vm_compute. reflexivity. Qed.
Lemma tie_desext_DefaultRounds : desext_DefaultRounds = m_desext_DefaultRounds. Proof. vm_compute. reflexivity. Qed.
Lemma tie_desext_sumLength : desext_sumLength = m_desext_sumLength. Proof. vm_compute. reflexivity. Qed.
Lemma tie_desext_Prefix : desext_Prefix = m_desext_Prefix. Proof. vm_compute. reflexivity. Qed.
Lemma tie_md5_MaxSaltLength : md5_MaxSaltLength = m_md5_MaxSaltLength. Proof. vm_compute. reflexivity. Qed.
Lemma tie_md5_DefaultSaltLength : md5_DefaultSaltLength = m_md5_DefaultSaltLength. Proof. vm_compute. reflexivity. Qed.
Lemma tie_md5_sumLength : md5_sumLength = m_md5_sumLength. Proof. vm_compute. reflexivity. Qed.
Lemma tie_md5_Prefix : md5_Prefix = m_md5_Prefix. Proof. vm_compute. reflexivity. Qed.
Lemma tie_md5_permFinal : md5_permFinal = m_md5_permFinal. Proof. vm_compute. reflexivity. Qed.
Lemma tie_nthash_MaxPasswordLength : nthash_MaxPasswordLength = m_nthash_MaxPasswordLength. Proof. vm_compute. reflexivity. Qed.
Lemma tie_nthash_sumLength : nthash_sumLength = m_nthash_sumLength. Proof. vm_compute. reflexivity. Qed.
Lemma tie_nthash_Prefix : nthash_Prefix = m_nthash_Prefix. Proof. vm_compute. reflexivity. Qed.
Lemma tie_sha1_MaxSaltLength : sha1_MaxSaltLength = m_sha1_MaxSaltLength. Proof. vm_compute. reflexivity. Qed.
Lemma tie_sha1_DefaultSaltLength : sha1_DefaultSaltLength = m_sha1_DefaultSaltLength. Proof. vm_compute. reflexivity. Qed.
Lemma tie_sha1_MinRounds : sha1_MinRounds = m_sha1_MinRounds. Proof. vm_compute. reflexivity. Qed.
Lemma tie_sha1_RandomRounds : sha1_RandomRounds = m_sha1_RandomRounds. Proof. vm_compute. reflexivity. Qed.
Lemma tie_sha1_DefaultRounds : sha1_DefaultRounds = m_sha1_DefaultRounds. Proof. vm_compute. reflexivity. Qed.
Lemma tie_sha1_randomHint : sha1_randomHint = m_sha1_randomHint. Proof. vm_compute. reflexivity. Qed.
Lemma tie_sha1_sumLength : sha1_sumLength = m_sha1_sumLength. Proof. vm_compute. reflexivity. Qed.
Lemma tie_sha1_Prefix : sha1_Prefix = m_sha1_Prefix. Proof. vm_compute. reflexivity. Qed.
Lemma tie_sha1_permFinal : sha1_permFinal = m_sha1_permFinal. Proof. vm_compute. reflexivity. Qed.
Lemma tie_sha256_MaxSaltLength : sha256_MaxSaltLength = m_sha256_MaxSaltLength. Proof. vm_compute. reflexivity. Qed.
Lemma tie_sha256_DefaultSaltLength : sha256_DefaultSaltLength = m_sha256_DefaultSaltLength. Proof. vm_compute. reflexivity. Qed.
Lemma tie_sha256_MinRounds : sha256_MinRounds = m_sha256_MinRounds. Proof. vm_compute. reflexivity. Qed.
Lemma tie_sha256_MaxRounds : sha256_MaxRounds = m_sha256_MaxRounds. Proof. vm_compute. reflexivity. Qed.
Lemma tie_sha256_DefaultRounds : sha256_DefaultRounds = m_sha256_DefaultRounds. Proof. vm_compute. reflexivity. Qed.
Lemma tie_sha256_ImplicitRounds : sha256_ImplicitRounds = m_sha256_ImplicitRounds. Proof. vm_compute. reflexivity. Qed.
Lemma tie_sha256_sumLength : sha256_sumLength = m_sha256_sumLength. Proof. vm_compute. reflexivity. Qed.
Lemma tie_sha256_Prefix : sha256_Prefix = m_sha256_Prefix. Proof. vm_compute. reflexivity. Qed.
Lemma tie_sha256_permFinal : sha256_permFinal = m_sha256_permFinal. Proof. vm_compute. reflexivity. Qed.
Lemma tie_sha512_MaxSaltLength : sha512_MaxSaltLength = m_sha512_MaxSaltLength. Proof. vm_compute. reflexivity. Qed.
Lemma tie_sha512_DefaultSaltLength : sha512_DefaultSaltLength = m_sha512_DefaultSaltLength. Proof. vm_compute. reflexivity. Qed.
Lemma tie_sha512_MinRounds : sha512_MinRounds = m_sha512_MinRounds. Proof. vm_compute. reflexivity. Qed.
Lemma tie_sha512_MaxRounds : sha512_MaxRounds = m_sha512_MaxRounds. Proof. vm_compute. reflexivity. Qed.
Lemma tie_sha512_DefaultRounds : sha512_DefaultRounds = m_sha512_DefaultRounds. Proof. vm_compute. reflexivity. Qed.
Lemma tie_sha512_ImplicitRounds : sha512_ImplicitRounds = m_sha512_ImplicitRounds. Proof. vm_compute. reflexivity. Qed.
Lemma tie_sha512_sumLength : sha512_sumLength = m_sha512_sumLength. Proof. vm_compute. reflexivity. Qed.
Lemma tie_sha512_Prefix : sha512_Prefix = m_sha512_Prefix. Proof. vm_compute. reflexivity. Qed.
Lemma tie_sha512_permFinal : sha512_permFinal = m_sha512_permFinal. Proof. vm_compute. reflexivity. Qed.
Lemma tie_sunmd5_MaxPasswordLength : sunmd5_MaxPasswordLength = m_sunmd5_MaxPasswordLength. Proof. vm_compute. reflexivity. Qed.
Lemma tie_sunmd5_MaxSaltLength : sunmd5_MaxSaltLength = m_sunmd5_MaxSaltLength. Proof. vm_compute. reflexivity. Qed.
Lemma tie_sunmd5_DefaultSaltLength : sunmd5_DefaultSaltLength = m_sunmd5_DefaultSaltLength. Proof. vm_compute. reflexivity. Qed.
Lemma tie_sunmd5_BasicRounds : sunmd5_BasicRounds = m_sunmd5_BasicRounds. Proof. vm_compute. reflexivity. Qed.
Lemma tie_sunmd5_MaxRounds : sunmd5_MaxRounds = m_sunmd5_MaxRounds. Proof. vm_compute. reflexivity. Qed.
Lemma tie_sunmd5_DefaultRounds : sunmd5_DefaultRounds = m_sunmd5_DefaultRounds. Proof. vm_compute. reflexivity. Qed.
Lemma tie_sunmd5_sumLength : sunmd5_sumLength = m_sunmd5_sumLength. Proof. vm_compute. reflexivity. Qed.
Lemma tie_sunmd5_PrefixNonZeroRounds : sunmd5_PrefixNonZeroRounds = m_sunmd5_PrefixNonZeroRounds. Proof. vm_compute. reflexivity. Qed.
Lemma tie_sunmd5_PrefixZeroRounds : sunmd5_PrefixZeroRounds = m_sunmd5_PrefixZeroRounds. Proof. vm_compute. reflexivity. Qed.
Lemma tie_sunmd5_permFinal : sunmd5_permFinal = m_sunmd5_permFinal. Proof. vm_compute. reflexivity. Qed.
Lemma tie_sunmd5_phrase : sunmd5_phrase = m_sunmd5_phrase. Proof. vm_compute. reflexivity. Qed.

Lemma tie_alphabets :
  hash_le_alphabet = crypt_alphabet /\ hash_le_padded = false /\
  bcrypt_alphabet = bcrypt_std_alphabet /\ bcrypt_padded = false.
Proof. vm_compute. repeat split; reflexivity. Qed.

Lemma crypt_alphabet_is : crypt_alphabet =
  [46;47] ++ map Z.of_nat (seq 48 10) ++ map Z.of_nat (seq 65 26) ++ map Z.of_nat (seq 97 26).
Proof. vm_compute. reflexivity. Qed.
Lemma bcrypt_alphabet_is : bcrypt_std_alphabet =
  [46;47] ++ map Z.of_nat (seq 65 26) ++ map Z.of_nat (seq 97 26) ++ map Z.of_nat (seq 48 10).
Proof. vm_compute. reflexivity. Qed.
