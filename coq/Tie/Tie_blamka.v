Require Import GC.Base.Bytes GC.Kdf.Argon2 GC.Kdf.BlamkaIR GC.Kdf.BlamkaIRProofs GC.Generated.Gen_blamka.
(* argon2crypto/blamka_generic.go, as translated on this run, is the program proved equal to the model *)
Lemma tie_blamka_loads : gen_blamka_loads = expected_loads.
Proof. vm_compute. reflexivity. Qed.
Lemma tie_blamka_prog : gen_blamka_prog = expected_prog.
Proof. vm_compute. reflexivity. Qed.
Lemma tie_blamka_stores : gen_blamka_stores = expected_stores.
Proof. vm_compute. reflexivity. Qed.
Lemma tie_pb : gen_pb = expected_pb.
Proof. vm_compute. reflexivity. Qed.

(* blamkaGeneric: the sixteen locals after the straight-line program, for every sixteen words *)
Theorem gen_blamka_is_model : forall v, length v = 16%nat -> brun gen_blamka_prog v = blamka v.
Proof. rewrite tie_blamka_prog. exact expected_prog_is_blamka. Qed.

(* a call of blamkaGeneric on sixteen word positions of t (loads, program, stores as translated) *)
Theorem gen_call_is_model : forall t idx, length idx = 16%nat ->
  call_blamka gen_blamka_loads gen_blamka_prog gen_blamka_stores t idx = blamka_at t idx.
Proof. rewrite tie_blamka_loads, tie_blamka_prog, tie_blamka_stores. exact call_blamka_expected. Qed.

(* processBlockGeneric, all block contents, both values of xor *)
Theorem gen_process_block_is_model : forall out in1 in2 xor,
  pb_run gen_blamka_loads gen_blamka_prog gen_blamka_stores gen_pb out in1 in2 xor = process_block out in1 in2 xor.
Proof. rewrite tie_blamka_loads, tie_blamka_prog, tie_blamka_stores, tie_pb. exact expected_pb_is_process_block. Qed.

(* blamka_amd64.go: when SSE4.1 is absent processBlockSSE applies the same permutation to t *)
Lemma tie_sse_fallback : gen_sse_fallback = expected_sse_fallback.
Proof. vm_compute. reflexivity. Qed.
Theorem gen_sse_fallback_is_model : forall s xor,
  s_t (fold_left (pb_step gen_blamka_loads gen_blamka_prog gen_blamka_stores xor) gen_sse_fallback s)
  = fold_left blamka_at (map col_idx (seq 0 8)) (fold_left blamka_at (map row_idx (seq 0 8)) (s_t s)).
Proof. rewrite tie_blamka_loads, tie_blamka_prog, tie_blamka_stores, tie_sse_fallback. exact expected_sse_fallback_is_P. Qed.
