(* des/descrypt.Encrypt: the body of the loop over the key-schedule pairs and the assembly of the pre-output block,
   as translated from the source on this run (Generated/Gen_des_round.v), are the model's (Kdf/DesCrypt.v) — and the
   model on the regenerated tables is proved to be FIPS 46-3 DES with the crypt(3) salt (Properties/C03_des.v). *)
Require Import GC.Base.Bytes GC.Kdf.DesCrypt GC.Generated.Gen_des_round.
Require Import Lia.

Lemma spe_mix_unfold spe b :
  spe_mix spe b =
  Z.lxor (Z.lxor (Z.lxor (Z.lxor (Z.lxor (Z.lxor (Z.lxor
    (nthz (nth 0 spe []) (Z.land (Z.shiftr b 58) 63)) (nthz (nth 1 spe []) (Z.land (Z.shiftr b 50) 63)))
    (nthz (nth 2 spe []) (Z.land (Z.shiftr b 42) 63))) (nthz (nth 3 spe []) (Z.land (Z.shiftr b 34) 63)))
    (nthz (nth 4 spe []) (Z.land (Z.shiftr b 26) 63))) (nthz (nth 5 spe []) (Z.land (Z.shiftr b 18) 63)))
    (nthz (nth 6 spe []) (Z.land (Z.shiftr b 10) 63))) (nthz (nth 7 spe []) (Z.land (Z.shiftr b 2) 63)).
Proof.
  unfold spe_mix. cbv [seq map fold_left].
  change (58 - 8 * Z.of_nat 0) with 58. change (58 - 8 * Z.of_nat 1) with 50.
  change (58 - 8 * Z.of_nat 2) with 42. change (58 - 8 * Z.of_nat 3) with 34.
  change (58 - 8 * Z.of_nat 4) with 26. change (58 - 8 * Z.of_nat 5) with 18.
  change (58 - 8 * Z.of_nat 6) with 10. change (58 - 8 * Z.of_nat 7) with 2.
  rewrite Z.lxor_0_l. reflexivity.
Qed.

Theorem gen_des_pair_eq spe ks0 ks1 salt l r :
  0 <= salt < 2 ^ 64 ->
  gen_des_pair spe ks0 ks1 salt l r = feistel spe [(ks0, ks1)] salt l r.
Proof.
  intro Hs. unfold gen_des_pair. cbn [feistel].
  replace (u64 salt) with salt by (unfold u64; rewrite Z.mod_small; lia).
  rewrite !spe_mix_unfold. reflexivity.
Qed.

(* a whole pass over the key schedule is the fold of the translated body *)
Theorem gen_des_pass_eq spe kss salt l r :
  0 <= salt < 2 ^ 64 ->
  fold_left (fun lr ks => gen_des_pair spe (fst ks) (snd ks) salt (fst lr) (snd lr)) kss (l, r) = feistel spe kss salt l r.
Proof.
  intro Hs. revert l r. induction kss as [|[a b] rest IH]; intros l r; [reflexivity|].
  cbn [fold_left fst snd]. rewrite gen_des_pair_eq by exact Hs.
  cbn [feistel]. rewrite <- IH. reflexivity.
Qed.

(* the two halves after the last round, as Encrypt computes them *)
Definition final_halves (ie3264 spe : list (list Z)) (pcxRot : list (list (list Z) * list (list Z))) (ksMask key input salt rounds : Z) : Z * Z :=
  let kss := key_schedules ksMask pcxRot key in
  let salt' := u32 (Z.lor (Z.lor (Z.lor (u32 (Z.shiftl (Z.land salt 63) 26)) (u32 (Z.shiftl (Z.land salt 4032) 12)))
                                 (Z.shiftr (Z.land salt 258048) 2)) (Z.shiftr (Z.land salt 16515072) 16)) in
  let '(l0, r0) :=
    if input =? 0 then (0, 0)
    else (permute816 ie3264 (Z.lor (Z.land (Z.shiftr input 31) 2863311530) (Z.land input 1431655765)),
          permute816 ie3264 (Z.lor (Z.land (Z.shiftr input 32) 2863311530) (Z.land (Z.shiftr input 1) 1431655765))) in
  des_rounds spe (Z.to_nat rounds) kss salt' l0 r0.

(* Encrypt = the final permutation applied to the pre-output block assembled by the translated expression *)
Theorem gen_des_c_eq ie3264 cf6464 spe pcxRot ksMask key input salt rounds :
  Encrypt ie3264 cf6464 spe pcxRot ksMask key input salt rounds =
  let lr := final_halves ie3264 spe pcxRot ksMask key input salt rounds in
  permute1616 cf6464 (gen_des_c (fst lr) (snd lr)).
Proof.
  unfold Encrypt, final_halves, gen_des_c.
  destruct (input =? 0);
    match goal with |- context [des_rounds ?s ?n ?k ?sa ?a ?b] => destruct (des_rounds s n k sa a b) as [l r] end;
    reflexivity.
Qed.
