Require Import GC.Base.Bytes GC.Base.CaseLib GC.Generated.Gen_randsites GC.Schemes.RandSites.
(* every import of a randomness- or time-related package in non-test code is crypto/rand *)
Lemma tie_rand_sources : forallb (fun p => bytes_eqb (snd p) s_crypto_rand) rand_imports = true.
Proof. vm_compute. reflexivity. Qed.
Lemma tie_rand_imports : rand_imports = expected_rand_imports.
Proof. vm_compute. reflexivity. Qed.
