(* Tie for C08: package-level state is written only by declarations and init functions; the only variable whose
   address escapes is sunmd5.separator (an empty string handed to the codec, which only reads it). *)
Require Import GC.Base.Bytes GC.Generated.Gen_vars.
Definition s_sunmd5 : bytes := [115;117;110;109;100;53].
Definition s_separator : bytes := [115;101;112;97;114;97;116;111;114].
Lemma tie_no_late_writes : forallb (fun v => let '(_, _, w, _) := v in Nat.eqb w 0) package_vars = true.
Proof. vm_compute. reflexivity. Qed.
Lemma tie_address_taken :
  forallb (fun v => let '(p, n, _, a) := v in Nat.eqb a 0 || (bytes_eqb p s_sunmd5 && bytes_eqb n s_separator)) package_vars = true.
Proof. vm_compute. reflexivity. Qed.
