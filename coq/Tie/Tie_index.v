(* argon2crypto.phi and argon2crypto.indexAlpha, as translated from the source on this run (Generated/Gen_index.v:
   every arithmetic result wrapped to the width of its Go type), equal the model's functions on every argument list
   representable in the parameter types.  The theorems of Kdf/Argon2Index.v and Kdf/SafeArgon2.v about the model's
   indexAlpha therefore speak about the function in the source. *)
Require Import GC.Base.Bytes GC.Kdf.Argon2 GC.Generated.Gen_index.
Require Import Lia Znumtheory.

Lemma u64_sub_wrap a b : u64 (u64 a - u64 b) = u64 (a - b).
Proof. unfold u64. now rewrite <- Zminus_mod. Qed.

Lemma u64_of_u32 x : u64 (u32 x) = u32 x.
Proof.
  unfold u64, u32. apply Z.mod_small.
  pose proof (Z.mod_pos_bound x (2 ^ 32) ltac:(lia)). lia.
Qed.

Lemma mod4_of_u32 x : u32 x mod 4 = x mod 4.
Proof.
  unfold u32. symmetry. apply Zmod_div_mod; try lia.
  exists (2 ^ 30). reflexivity.
Qed.

Lemma gen_phi_eq rand m s lane lanes :
  0 <= lanes < 2 ^ 32 -> gen_phi rand m s lane lanes = phi rand m s lane lanes.
Proof.
  intro Hl. unfold gen_phi, phi.
  rewrite u64_sub_wrap.
  replace (u64 lanes) with lanes by (unfold u64; rewrite Z.mod_small; lia).
  unfold u32 at 1 2. unfold u32 at 3.
  now rewrite Zplus_mod_idemp_l.
Qed.

Theorem gen_indexAlpha_eq rand lanes segments threads n slice lane index :
  0 <= lanes < 2 ^ 32 ->
  gen_indexAlpha rand lanes segments threads n slice lane index
  = indexAlpha rand lanes segments threads n slice lane index.
Proof.
  intro Hl. unfold gen_indexAlpha, indexAlpha.
  destruct (n =? 0); destruct (slice =? 0); cbn [andb orb];
    repeat match goal with
           | |- context [if (lane =? ?x) then _ else _] => destruct (lane =? x)
           | |- context [if (index =? 0) || _ then _ else _] => destruct (index =? 0); cbn [orb]
           | |- context [if (index =? 0) then _ else _] => destruct (index =? 0)
           end;
    rewrite gen_phi_eq by exact Hl;
    rewrite ?u64_of_u32, ?mod4_of_u32; reflexivity.
Qed.

Require Import GC.Kdf.Argon2Index.
Lemma args_ok_lanes rand lanes segments threads n slice lane index :
  index_args_ok rand lanes segments threads n slice lane index -> 0 <= lanes < 2 ^ 32.
Proof. unfold index_args_ok. intros (_ & Hs & -> & Ht & Hm & _). nia. Qed.

Theorem gen_index_in_memory rand lanes segments threads n slice lane index :
  index_args_ok rand lanes segments threads n slice lane index ->
  0 <= gen_indexAlpha rand lanes segments threads n slice lane index < threads * lanes.
Proof.
  intro H. rewrite gen_indexAlpha_eq by (eapply args_ok_lanes; exact H).
  apply index_in_memory; exact H.
Qed.
