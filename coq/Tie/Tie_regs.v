(* Tie: the registrations extracted from /repo on this run are exactly the documented ones. *)
Require Import GC.Base.Bytes GC.Base.CaseLib GC.Dispatch.Schemes GC.Dispatch.Builtin GC.Generated.Gen_regs.

Lemma tie_regs : registrations = documented_registrations.
Proof. vm_compute. reflexivity. Qed.
