(* processBlocks, as translated on this run, starts its workers slice by slice: for every pass and every one of the
   four slices, in order, a fresh WaitGroup, then Add(1) and `go processSegment(n, slice, lane, &wg)` for every lane
   in order, then Wait — exactly the (pass, slice) sequence `pass_slices` over which the sliced executions of
   Argon2RefineAll.v are defined; the worker calls Done once, as its last statement, and has no other exit. *)
Require Import GC.Base.Bytes GC.Kdf.SchedIR GC.Kdf.Argon2RefineAll GC.Generated.Gen_sched.

Definition expected_sched : list sstmt :=
  [SFor Btime [SFor BsyncPoints [SNewWg; SFor Bthreads [SAdd 1; SGo [0; 1; 2]%nat]; SWait]]].

Lemma tie_sched : gen_sched = expected_sched.
Proof. vm_compute. reflexivity. Qed.
Lemma tie_worker : gen_go_statements = 1%nat /\ gen_worker_done_last = true /\ gen_worker_done_calls = 1%nat /\ gen_worker_returns = 0%nat.
Proof. vm_compute. repeat split; reflexivity. Qed.

(* the parent's events for one (pass, slice) *)
Definition slice_events (threads : Z) (p : Z * Z) : list pevent :=
  PNew :: flat_map (fun lane => [PAdd 1; PGo [fst p; snd p; lane]]) (zrange threads) ++ [PWait].

Lemma flat_map_flat_map {A B C} (f : A -> list B) (g : B -> list C) l :
  flat_map g (flat_map f l) = flat_map (fun x => flat_map g (f x)) l.
Proof. induction l as [|a r IH]; [reflexivity|]. cbn [flat_map]. now rewrite flat_map_app, IH. Qed.

Lemma flat_map_ext' {A B} (f g : A -> list B) l : (forall x, f x = g x) -> flat_map f l = flat_map g l.
Proof. intro H. induction l as [|a r IH]; [reflexivity|]. cbn [flat_map]. now rewrite H, IH. Qed.

Theorem expected_sched_events time threads :
  execs time 4 threads [] expected_sched = flat_map (slice_events threads) (pass_slices time).
Proof.
  unfold execs, expected_sched, pass_slices. cbn [flat_map exec bval app].
  rewrite app_nil_r. rewrite flat_map_flat_map. unfold zrange at 1.
  apply flat_map_ext'. intro n.
  change (zrange 4) with [0; 1; 2; 3]. cbn [map flat_map app fst snd slice_events nth].
  rewrite !app_nil_r.
  unfold slice_events. cbn [fst snd].
  repeat (rewrite <- app_assoc; cbn [app]).
  repeat f_equal.
Qed.

Lemma tie_syncPoints : gen_syncPoints = 4.
Proof. reflexivity. Qed.

Theorem gen_sched_events time threads :
  execs time gen_syncPoints threads [] gen_sched = flat_map (slice_events threads) (pass_slices time).
Proof. rewrite tie_sched, tie_syncPoints. apply expected_sched_events. Qed.
