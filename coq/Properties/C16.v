(* C16 — little-endian base64 matches its bit-level definition; decode inverts encode.
   Only statements, each closed by [exact] of a lemma proved in B64/B64Proofs.v. *)
Require Import GC.Base.Bytes GC.B64.B64Model GC.B64.B64Spec GC.B64.B64Proofs.
Require Import GC.Generated.Gen_consts GC.Schemes.Consts GC.Tie.Tie_consts.

(* Encode produces, for every byte string and every encoding, the symbols indexed by successive 6-bit
   groups (least significant first) of b0 + 2^8 b1 + 2^16 b2, with 2/3 symbols (+ padding) for tails *)
Theorem C16_encode_spec : forall e src, wf_bytes src = true -> encode e src = spec_encode e src.
Proof. exact encode_spec. Qed.

Theorem C16_encoded_len : forall e src,
  Z.of_nat (length (encode e src)) = EncodedLen e (Z.of_nat (length src)).
Proof. exact encoded_len. Qed.

(* decoding inverts encoding for every byte string, padding mode and strictness, also when CR/LF are
   interspersed anywhere in the text *)
Theorem C16_roundtrip_nl : forall e src t, enc_wf e = true -> wf_bytes src = true ->
  strip_nl t = encode e src -> decode e t = DOk src None.
Proof. exact roundtrip_nl. Qed.

Theorem C16_roundtrip : forall e src, enc_wf e = true -> wf_bytes src = true ->
  decode e (encode e src) = DOk src None.
Proof. exact roundtrip. Qed.

(* the 8-symbol and 4-symbol fast paths agree with the per-quantum path on every input text *)
Theorem C16_fast_slow : forall e t, enc_ok e = true -> decode e t = decode_slow e t.
Proof. exact fast_slow. Qed.

(* DecodeString never panics (no write outside the DecodedLen buffer) and always terminates *)
Theorem C16_no_panic : forall e t, enc_ok e = true -> exists out err, decode e t = DOk out err.
Proof. exact no_panic. Qed.

(* never silent garbage: an accepted text is, modulo CR/LF, the encoding of the bytes returned; in strict
   mode exactly, in lenient mode up to the unused bits of the last symbol of a tail *)
Theorem C16_accept_sound : forall e t out, enc_wf e = true ->
  decode e t = DOk out None -> accepted_ok e t out = true /\ wf_bytes out = true.
Proof. exact accept_sound. Qed.

Theorem C16_strict_exact : forall e t out, enc_wf e = true -> e_strict e = true ->
  decode e t = DOk out None -> strip_nl t = encode e out.
Proof. exact strict_exact. Qed.

(* malformed text: the corrupt-input offset lies inside the input, and a byte that is neither a symbol,
   CR/LF nor the padding character is located exactly *)
Theorem C16_error_range : forall e t out k, enc_ok e = true ->
  decode e t = DOk out (Some k) -> 0 <= k <= Z.of_nat (length t).
Proof. exact error_range. Qed.

Theorem C16_bad_symbol : forall e a c b, enc_ok e = true ->
  forallb (fun x => is_symbol e x || is_newline x) a = true ->
  is_symbol e c = false -> is_newline c = false -> is_pad e c = false ->
  exists out, decode e (a ++ c :: b) = DOk out (Some (Z.of_nat (length a))).
Proof. exact bad_symbol. Qed.

(* the exported crypt(3) encodings (generated from /repo on every run) *)
Theorem C16_alphabets :
  hash_le_alphabet = crypt_alphabet /\ hash_le_padded = false /\
  bcrypt_alphabet = bcrypt_std_alphabet /\ bcrypt_padded = false.
Proof. exact tie_alphabets. Qed.

Example C16_example :
  decode {| e_alpha := crypt_alphabet; e_pad := None; e_strict := true |}
         (encode {| e_alpha := crypt_alphabet; e_pad := None; e_strict := true |} [104; 105; 255; 0; 7])
  = DOk [104; 105; 255; 0; 7] None.
Proof. vm_compute. reflexivity. Qed.
