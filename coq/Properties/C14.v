(* C14 — parameters are accepted exactly within the exported bounds and alphabets.
   Statements only; every theorem is instantiated with the limits generated from /repo on this run
   ([gen_limits]): the property is parametric in the exported constants. *)
Require Import GC.Base.Bytes GC.Codec.Types GC.Codec.Marshal GC.Schemes.Consts GC.Schemes.Keys GC.Schemes.Domain
               GC.Schemes.DomainProofs GC.Schemes.GenLimits.

(* Each Key rejects with the typed error of the FIRST failing documented guard, carrying the offending value,
   whatever the derivation would compute (so nothing is derived first); otherwise it derives. *)
Theorem C14_md5 : forall pw salt, implements (fun kdf => key_md5 gen_limits kdf pw salt) (guards_md5 gen_limits pw salt).
Proof. exact (md5_guards gen_limits). Qed.
Theorem C14_sha256 : forall pw salt r, implements (fun kdf => key_sha256 gen_limits kdf pw salt r)
  (guards_sha2 (L_sha256_MaxSalt gen_limits) (L_sha256_MinRounds gen_limits) (L_sha256_MaxRounds gen_limits) pw salt r).
Proof. exact (sha256_guards gen_limits). Qed.
Theorem C14_sha512 : forall pw salt r, implements (fun kdf => key_sha512 gen_limits kdf pw salt r)
  (guards_sha2 (L_sha512_MaxSalt gen_limits) (L_sha512_MinRounds gen_limits) (L_sha512_MaxRounds gen_limits) pw salt r).
Proof. exact (sha512_guards gen_limits). Qed.
Theorem C14_sha1 : forall rr pw salt r, implements (fun kdf => key_sha1 gen_limits kdf rr pw salt r) (guards_sha1 gen_limits rr pw salt r).
Proof. exact (sha1_guards gen_limits). Qed.
Theorem C14_sunmd5 : forall pw salt r opts, implements (fun kdf => key_sunmd5 gen_limits kdf pw salt r opts) (guards_sunmd5 gen_limits pw salt r opts).
Proof. exact (sunmd5_guards gen_limits). Qed.
Theorem C14_des : forall pw salt, implements (fun kdf => key_des gen_limits kdf pw salt) (guards_des gen_limits pw salt).
Proof. exact (des_guards gen_limits). Qed.
Theorem C14_desext : forall pw salt r, implements (fun kdf => key_desext gen_limits kdf pw salt r) (guards_desext gen_limits pw salt r).
Proof. exact (desext_guards gen_limits). Qed.
Theorem C14_bcrypt : forall pw salt c opts, implements (fun kdf => key_bcrypt gen_limits kdf pw salt c opts) (guards_bcrypt gen_limits pw salt c opts).
Proof. exact (bcrypt_guards gen_limits). Qed.
Theorem C14_nthash : forall enc, implements (fun kdf => key_nthash gen_limits kdf enc) (guards_nthash gen_limits enc).
Proof. exact (nthash_guards gen_limits). Qed.
Theorem C14_argon2 : forall pw salt m t th opts, implements (fun kdf => key_argon2 gen_limits kdf pw salt m t th opts) (guards_argon2 gen_limits pw salt m t th opts).
Proof. exact (argon2_guards gen_limits). Qed.

(* acceptance is exactly membership in the domain (the conjunction over the exported limits) *)
Theorem C14_md5_accept : forall kdf pw salt, total_kdf kdf -> is_kok (key_md5 gen_limits kdf pw salt) = dom_md5 gen_limits pw salt.
Proof. exact (md5_accept gen_limits). Qed.
Theorem C14_sha256_accept : forall kdf pw salt r, total_kdf kdf -> is_kok (key_sha256 gen_limits kdf pw salt r) = dom_sha256 gen_limits pw salt r.
Proof. exact (sha256_accept gen_limits). Qed.
Theorem C14_sha512_accept : forall kdf pw salt r, total_kdf kdf -> is_kok (key_sha512 gen_limits kdf pw salt r) = dom_sha512 gen_limits pw salt r.
Proof. exact (sha512_accept gen_limits). Qed.
Theorem C14_sha1_accept : forall kdf rr pw salt r, total_kdf kdf -> is_kok (key_sha1 gen_limits kdf rr pw salt r) = dom_sha1 gen_limits rr pw salt r.
Proof. exact (sha1_accept gen_limits). Qed.
Theorem C14_sunmd5_accept : forall kdf pw salt r opts, total_kdf kdf -> is_kok (key_sunmd5 gen_limits kdf pw salt r opts) = dom_sunmd5 gen_limits pw salt r opts.
Proof. exact (sunmd5_accept gen_limits). Qed.
Theorem C14_des_accept : forall kdf pw salt, total_kdf kdf -> is_kok (key_des gen_limits kdf pw salt) = dom_des gen_limits pw salt.
Proof. exact (des_accept gen_limits). Qed.
Theorem C14_desext_accept : forall kdf pw salt r, total_kdf kdf -> is_kok (key_desext gen_limits kdf pw salt r) = dom_desext gen_limits pw salt r.
Proof. exact (desext_accept gen_limits). Qed.
Theorem C14_bcrypt_accept : forall kdf pw salt c opts, total_kdf kdf -> is_kok (key_bcrypt gen_limits kdf pw salt c opts) = dom_bcrypt gen_limits pw salt c opts.
Proof. exact (bcrypt_accept gen_limits). Qed.
Theorem C14_nthash_accept : forall kdf enc, total_kdf kdf -> is_kok (key_nthash gen_limits kdf enc) = dom_nthash gen_limits enc.
Proof. exact (nthash_accept gen_limits). Qed.
Theorem C14_argon2_accept : forall kdf pw salt m t th opts, total_kdf kdf -> is_kok (key_argon2 gen_limits kdf pw salt m t th opts) = dom_argon2 gen_limits pw salt m t th opts.
Proof. exact (argon2_accept gen_limits). Qed.

(* prompt: a rejection does not depend on the derivation at all *)
Theorem C14_prompt : forall k gs, implements k gs -> forallb fst gs = false -> forall kdf1 kdf2, k kdf1 = k kdf2.
Proof. exact implements_prompt. Qed.

(* the salt alphabets are exactly the documented 64 symbols, for every byte value *)
Theorem C14_hash_alphabet : forall c, 0 <= c < 256 -> (valid_char EncHash c = true <-> In c crypt_alphabet).
Proof. exact hash_alphabet_exact. Qed.
Theorem C14_base64_alphabet : forall c, 0 <= c < 256 -> (valid_char EncBase64 c = true <-> In c base64_std_alphabet).
Proof. exact base64_alphabet_exact. Qed.

(* non-vacuity: a concrete rejection and a concrete acceptance *)
Example C14_example :
  key_md5 gen_limits (fun _ _ _ => Some [1]) [112] [97;98;99;100;101;102;103;104;105] = KErr (KInvalidSaltLength 9)
  /\ key_md5 gen_limits (fun _ _ _ => Some [1]) [112] [97;98] = KOk [1].
Proof. vm_compute. split; reflexivity. Qed.
