(* C04 — the index mapping in the source is the one the reference-set theorems are about.  Statements only.
   Generated/Gen_index.v is written by `harness gen` from argon2/argon2crypto/argon2.go: phi and indexAlpha as
   Gallina definitions in which every arithmetic result is wrapped to the width of its Go type (uint32 / uint64),
   an `if` is a let-bound tuple of the variables it assigns, and syncPoints is read from the const declaration.
   Proved: on every argument list representable in the parameter types the translated functions equal the model's
   (Argon2.phi, Argon2.indexAlpha), so the reference-set theorems of C04.v hold of the translated source. *)
Require Import GC.Base.Bytes GC.Kdf.Argon2 GC.Kdf.Argon2Index GC.Generated.Gen_index GC.Tie.Tie_index.

Theorem C04_phi_source_is_model : forall rand m s lane lanes,
  0 <= lanes < 2 ^ 32 -> gen_phi rand m s lane lanes = phi rand m s lane lanes.
Proof. exact gen_phi_eq. Qed.

Theorem C04_indexAlpha_source_is_model : forall rand lanes segments threads n slice lane index,
  0 <= lanes < 2 ^ 32 ->
  gen_indexAlpha rand lanes segments threads n slice lane index
  = indexAlpha rand lanes segments threads n slice lane index.
Proof. exact gen_indexAlpha_eq. Qed.

(* the reference computed by the source's indexAlpha is a block of the memory, for all arguments of the RFC domain *)
Theorem C04_source_index_in_memory : forall rand lanes segments threads n slice lane index,
  index_args_ok rand lanes segments threads n slice lane index ->
  0 <= gen_indexAlpha rand lanes segments threads n slice lane index < threads * lanes.
Proof. exact gen_index_in_memory. Qed.

(* non-vacuity / sanity: the translated function on a concrete argument list of the domain *)
Example C04_source_index_example :
  index_args_ok 81985529216486895 32 8 4 1 2 3 5 /\ gen_indexAlpha 81985529216486895 32 8 4 1 2 3 5 = indexAlpha 81985529216486895 32 8 4 1 2 3 5
  /\ 0 <= gen_indexAlpha 81985529216486895 32 8 4 1 2 3 5 < 128.
Proof. unfold index_args_ok. vm_compute. repeat split; try discriminate; try reflexivity; intros; discriminate. Qed.
