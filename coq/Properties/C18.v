(* C18 — codec results do not depend on call history or on value/pointer form.  Statements only. *)
Require Import GC.Base.Bytes GC.Codec.Types GC.Codec.TypeInfo GC.Codec.Codec GC.Codec.Cache GC.Schemes.Layouts.

(* For every program (set of struct types), every text-(un)marshaler behaviour and every history of Marshal /
   Unmarshal calls in any of the three forms: each call returns exactly what the same call returns on the
   empty cache (outcome, error included, and the struct type the error names). *)
Theorem C18_history : forall desc cb os,
  fst (run_calls desc cb [] os) = map (fun o => fst (run_call desc cb [] o)) os.
Proof. intros desc cb os. apply history_independent. apply cache_ok_nil. Qed.

(* from any reachable cache: value, pointer and pointer-to-pointer forms marshal to the same result *)
Theorem C18_forms : forall desc cb c ty sv f1 f2, cache_ok desc c ->
  match fst (run_call desc cb c (CMarshal ty f1 sv)), fst (run_call desc cb c (CMarshal ty f2 sv)) with
  | OMarshal r1 _, OMarshal r2 _ => r1 = r2
  | _, _ => False
  end.
Proof. exact forms_agree. Qed.

(* the invariant behind both: whatever has been called, every cached entry is what normalize computes for its
   struct type (in particular a failed normalize caches nothing, so tag errors are reported on every call) *)
Theorem C18_invariant : forall desc cb c o, cache_ok desc c -> cache_ok desc (snd (run_call desc cb c o)).
Proof. intros desc cb c o H. exact (proj2 (run_call_cold desc cb c o H)). Qed.

Theorem C18_errors_every_call : forall desc cb c ty f sv x, cache_ok desc c ->
  type_info (desc ty) = Err x ->
  fst (run_call desc cb c (CMarshal ty f sv)) = OMarshal (Err x) (ty, depth_of f).
Proof.
  intros desc cb c ty f sv x Hc Hx.
  rewrite (proj1 (run_call_cold desc cb c (CMarshal ty f sv) Hc)).
  unfold run_call, get_type_info. cbn [cload fst]. rewrite Hx. reflexivity.
Qed.

Example C18_example :
  let desc := fun _ : nat => m_layout_md5 in
  let h := [36;49;36;115;36] ++ repeat 46 22 in
  fst (run_calls desc std_cb [] [CUnmarshal 0 ByPtr h; CUnmarshal 0 ByPtrPtr h])
  = map (fun o => fst (run_call desc std_cb [] o)) [CUnmarshal 0 ByPtr h; CUnmarshal 0 ByPtrPtr h].
Proof. vm_compute. reflexivity. Qed.
