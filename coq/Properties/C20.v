(* C20 — Unmarshal accepts only respellings of what Marshal would have written.  Statements only.
   The statement as first written (Codec/C20Test.v: C20_statement, quantifying over ARBITRARY text-(un)marshaler
   behaviours and every layout of the unambiguous class) is FALSE (C20_statement_false) — e.g. a text unmarshaler may accept
   text its marshaler does not regenerate, and a value whose first text begins with '_' marshals to a string that reads as
   a prefix.  The property is proved (C20_converse_gen) for the unambiguous class under side conditions each of which is
   forced by a computed counterexample (the cx_ examples of Codec/C20PExamples.v) and all of which hold for the nine shipped layouts of
   the class (C20_shipped):
     cb_coherent   text-typed fields: what the unmarshaler accepts, the marshaler writes back (std_cb: C20_std_coherent)
     params_noeq   no parameter name contains '='        arrays_sized  a plain [n]byte field has length n
     ints_wf       plain integers have 1..64 bits, base 2..36         ints_unsized  plain integers carry no length: tag
     inline_next_exact  the field after an inline field is not a plain integer
     prefix_plain_ok    an optional prefix without text methods is a string
     headed        the layout requires a prefix or its first field is required and not a group member — or the accepted
                   string has a prefix (inherent ambiguity of a first text that looks like a prefix, DESIGN.md 5.2)
   respell s s' (Codec/Respell.v): same value texts up to one trailing delimiter, integer digit spellings (leading zeros,
   letter case, redundant sign), order of group members, and explicitly written empty/zero optional values. *)
Require Import GC.Base.Bytes GC.Codec.Types GC.Codec.Strconv GC.Codec.StrconvProofs GC.Codec.TypeInfo
               GC.Codec.Marshal GC.Codec.Unmarshal GC.Codec.Codec GC.Codec.Class GC.Codec.Respell GC.Codec.C20Test
               GC.Parse.ParseModel GC.Parse.ParseProofs GC.Schemes.Layouts
               GC.Codec.C20PBase GC.Codec.C20Proofs GC.Codec.C20PShipped GC.Codec.C20PExamples.

Theorem C20_converse_gen :
  forall (cb : callbacks) (ti : tinfo) (s : bytes) (m : list (list nat * fval)),
  unambiguous ti = true ->
  paths_ok ti = true ->
  ints_unsized ti = true ->
  params_noeq ti = true ->
  arrays_sized ti = true ->
  ints_wf ti = true ->
  inline_next_exact (ti_fields ti) = true ->
  prefix_plain_ok ti = true ->
  cb_coherent cb ti ->
  headed ti = true \/ (exists (t : tree) (p : bytes), parse s = POk t /\ prefix t = Some p) ->
  unmarshal cb ti s = Ok m -> exists s' : bytes, marshal cb ti (sval_of m) = Ok s' /\ respell s s'.
Proof. exact C20_converse_gen. Qed.

Theorem C20_converse :
  forall (cb : callbacks) (ti : tinfo) (s : bytes) (m : list (list nat * fval)),
  unambiguous ti = true ->
  paths_ok ti = true ->
  ints_unsized ti = true ->
  params_noeq ti = true ->
  arrays_sized ti = true ->
  ints_wf ti = true ->
  inline_next_exact (ti_fields ti) = true ->
  headed ti = true ->
  prefix_plain_ok ti = true ->
  cb_coherent cb ti ->
  unmarshal cb ti s = Ok m -> exists s' : bytes, marshal cb ti (sval_of m) = Ok s' /\ respell s s'.
Proof. exact C20_converse. Qed.

Theorem C20_std :
  forall (ti : tinfo) (s : bytes) (m : list (list nat * fval)),
  c20_side ti = true ->
  unmarshal std_cb ti s = Ok m ->
  exists s' : bytes, marshal std_cb ti (sval_of m) = Ok s' /\ respell s s'.
Proof. exact C20_std. Qed.

Theorem C20_shipped :
  forall st : list sfield,
  In st shipped_in_class ->
  exists ti : tinfo,
  type_info st = Ok ti /\
  c20_side ti = true /\
  (forall (s : bytes) (m : list (list nat * fval)),
  unmarshal std_cb ti s = Ok m ->
  exists s' : bytes, marshal std_cb ti (sval_of m) = Ok s' /\ respell s s').
Proof. exact C20_shipped. Qed.

Theorem C20_std_coherent :
  forall ti : tinfo, std_ok ti = true -> cb_coherent std_cb ti.
Proof. exact std_coherent. Qed.

Theorem C20_statement_false :
  ~ C20_statement.
Proof. exact C20_statement_false. Qed.

Theorem C20_picky_not_coherent :
  forall ti : tinfo, type_info L_picky = Ok ti -> ~ cb_coherent std_cb ti.
Proof. exact picky_not_coherent. Qed.


(* nothing of the input is dropped before the codec sees it: the parse tree accounts for the whole string up to
   one trailing delimiter (the first tolerated respelling) *)
Theorem C20_tree_lossless : forall s t, parse s = POk t ->
  exists tail, In tail [[]; [dollar]; [comma]] /\ render t ++ tail = s.
Proof. exact parse_lossless. Qed.

(* the second tolerated respelling, exactly: whatever digit text is accepted for an unsigned / signed integer
   field, Marshal writes it back as the same digits without leading zeros, in lower case, "+" dropped, "-0" as "0" *)
Theorem C20_uint_spelling : forall s base bits v,
  2 <= base <= 36 -> 1 <= bits <= 64 -> ParseUint s base bits = inl v ->
  FormatUint v base = strip_zeros (map lower s) /\ 0 <= v < 2 ^ bits.
Proof. exact format_parse_uint. Qed.

Theorem C20_int_spelling : forall s base bits v,
  2 <= base <= 36 -> 1 <= bits <= 64 -> ParseInt s base bits = inl v ->
  - 2 ^ (bits - 1) <= v < 2 ^ (bits - 1) /\
  exists sign body, s = sign ++ body /\ (sign = [] \/ sign = [43] \/ sign = [45]) /\ body <> [] /\
    FormatInt v base = (if v <? 0 then [45] else []) ++ strip_zeros (map lower body).
Proof. exact format_parse_int. Qed.

(* non-vacuity and a concrete instance of the full statement: the sha256 layout accepts "rounds=05000" and
   the explicit zero "rounds=0", both respellings of the canonical marshalling of the value returned *)
Example C20_example :
  match type_info m_layout_sha256 with
  | Ok ti =>
    forallb (fun h => match unmarshal std_cb ti h with
                      | Ok m => match marshal std_cb ti (sval_of m) with Ok s' => respell_b h s' | _ => false end
                      | _ => false
                      end)
      [ [36;53;36;114;111;117;110;100;115;61;48;53;48;48;48;36;97;97;97;36] ++ repeat 46 43;
        [36;53;36;114;111;117;110;100;115;61;48;36;97;97;97;36] ++ repeat 46 43 ++ [36] ]
  | _ => false
  end = true.
Proof. vm_compute. reflexivity. Qed.
