(* C20 — Unmarshal accepts only respellings of what Marshal would have written.
   Statements only.  [C20_full_statement] is the property for the unambiguous class; its proof is in progress:
   it is re-evaluated by the model on every accepted generated string of each run (Codec/C20Test.v), and the
   parts below are proved. *)
Require Import GC.Base.Bytes GC.Codec.Types GC.Codec.Strconv GC.Codec.StrconvProofs GC.Codec.TypeInfo
               GC.Codec.Marshal GC.Codec.Unmarshal GC.Codec.Codec GC.Codec.Class GC.Codec.Respell GC.Codec.C20Test
               GC.Parse.ParseModel GC.Parse.ParseProofs GC.Schemes.Layouts.

Definition C20_full_statement : Prop := C20_statement.

(* nothing of the input is dropped before the codec sees it: the parse tree accounts for the whole string up to
   one trailing delimiter (the first tolerated respelling) *)
Theorem C20_tree_lossless_partial : forall s t, parse s = POk t ->
  exists tail, In tail [[]; [dollar]; [comma]] /\ render t ++ tail = s.
Proof. exact parse_lossless. Qed.

(* the second tolerated respelling, exactly: whatever digit text is accepted for an unsigned / signed integer
   field, Marshal writes it back as the same digits without leading zeros, in lower case, "+" dropped, "-0" as "0" *)
Theorem C20_uint_spelling_partial : forall s base bits v,
  2 <= base <= 36 -> 1 <= bits <= 64 -> ParseUint s base bits = inl v ->
  FormatUint v base = strip_zeros (map lower s) /\ 0 <= v < 2 ^ bits.
Proof. exact format_parse_uint. Qed.

Theorem C20_int_spelling_partial : forall s base bits v,
  2 <= base <= 36 -> 1 <= bits <= 64 -> ParseInt s base bits = inl v ->
  - 2 ^ (bits - 1) <= v < 2 ^ (bits - 1) /\
  exists sign body, s = sign ++ body /\ (sign = [] \/ sign = [43] \/ sign = [45]) /\ body <> [] /\
    FormatInt v base = (if v <? 0 then [45] else []) ++ strip_zeros (map lower body).
Proof. exact format_parse_int. Qed.

(* non-vacuity and a concrete instance of the full statement: the sha256 layout accepts "rounds=05000" and
   the explicit zero "rounds=0", both respellings of the canonical marshalling of the value returned *)
Example C20_example :
  match type_info m_layout_sha256 with
  | Ok ti =>
    forallb (fun h => match unmarshal std_cb ti h with
                      | Ok m => match marshal std_cb ti (sval_of m) with Ok s' => respell_b h s' | _ => false end
                      | _ => false
                      end)
      [ [36;53;36;114;111;117;110;100;115;61;48;53;48;48;48;36;97;97;97;36] ++ repeat 46 43;
        [36;53;36;114;111;117;110;100;115;61;48;36;97;97;97;36] ++ repeat 46 43 ++ [36] ]
  | _ => false
  end = true.
Proof. vm_compute. reflexivity. Qed.
