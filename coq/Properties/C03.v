(* C03 — classic crypt(3) schemes compute the same hashes as the reference libcrypt.  Statements only.
   Proved: the in-repo control code of each KDF (literal models, hash primitives abstract) equals the
   specification written from the published algorithm, for ALL passwords, salts and round counts, and never
   panics (every Go slice bound is a checked operation in the model).  The specifications and the models are
   validated against libxcrypt 4.4 and the implementation through the extracted code on every run.
   DES is modelled table-driven (tables tied to /repo); its equality with bit-level FIPS-46 DES is not proved. *)
Require Import GC.Base.Bytes GC.Kdf.KdfBase GC.Kdf.Md5Crypt GC.Kdf.Sha2Crypt GC.Kdf.Sha1Crypt GC.Kdf.Bcrypt GC.Kdf.KdfProofs
               GC.Generated.Gen_consts GC.Generated.Gen_des_tables GC.Schemes.Consts GC.Kdf.DesTables GC.Tie.Tie_consts GC.Tie.Tie_tables.

Theorem C03_md5crypt : forall H perm pw salt prefix, (forall x, length (H x) = 16%nat) ->
  Md5Crypt.Encrypt H perm pw salt prefix = Md5Crypt.spec_Encrypt H perm pw salt prefix.
Proof. exact md5crypt_impl_spec. Qed.
Theorem C03_md5crypt_total : forall H perm pw salt prefix, (forall x, length (H x) = 16%nat) ->
  Forall (fun j => 0 <= j < 16) perm ->
  exists k, Md5Crypt.Encrypt H perm pw salt prefix = Some k /\ length k = length perm.
Proof. exact md5crypt_total. Qed.

(* the P / S sequences of SHA-crypt are exactly "n bytes of the digest, cyclically" for EVERY n — the statement
   the historical typo in duplicate (D1) violated for n >= the digest size *)
Theorem C03_duplicate : forall hs b n, 0 < hs -> Z.of_nat (length b) = hs -> 0 <= n ->
  Sha2Crypt.duplicate hs b n = Some (take_cyclic b (Z.to_nat n)).
Proof. exact duplicate_spec. Qed.
Theorem C03_sha2crypt : forall H hs pw salt nrounds perm, 0 < hs ->
  (forall x, Z.of_nat (length (H x)) = hs) -> 0 < nrounds ->
  Sha2Crypt.Encrypt H hs pw salt nrounds perm = Sha2Crypt.spec_Encrypt H pw salt nrounds perm.
Proof. exact sha2crypt_impl_spec. Qed.
Theorem C03_sha2crypt_total : forall H hs pw salt nrounds perm, 0 < hs ->
  (forall x, Z.of_nat (length (H x)) = hs) -> 0 <= nrounds -> Forall (fun j => 0 <= j < hs) perm ->
  exists k, Sha2Crypt.Encrypt H hs pw salt nrounds perm = Some k /\ length k = length perm.
Proof. exact sha2crypt_total. Qed.

Theorem C03_sha1crypt : forall HM prefix perm pw salt rounds,
  Sha1Crypt.Key HM prefix perm pw salt rounds = Sha1Crypt.spec_Key HM prefix perm pw salt rounds.
Proof. exact sha1crypt_impl_spec. Qed.
Theorem C03_sha1crypt_total : forall HM prefix perm pw salt rounds, (forall k d, length (HM k d) = 20%nat) ->
  Forall (fun j => 0 <= j < 20) perm ->
  exists k, Sha1Crypt.Key HM prefix perm pw salt rounds = Some k /\ length k = length perm.
Proof. exact sha1crypt_total. Qed.

Theorem C03_bcrypt : forall C bf_new bf_expand bf_encrypt alphabet key salt22 cost,
  (forall c b, length (bf_encrypt c b) = length b) ->
  Bcrypt.derive C bf_new bf_expand bf_encrypt alphabet key salt22 cost
  = Bcrypt.spec_derive C bf_new bf_expand bf_encrypt alphabet key salt22 cost.
Proof. exact bcrypt_impl_spec. Qed.

(* the constants and tables the derivations use are the ones in /repo now (pinned: libxcrypt fixes them) *)
Theorem C03_tables :
  md5_permFinal = m_md5_permFinal /\ sha1_permFinal = m_sha1_permFinal /\ sha256_permFinal = m_sha256_permFinal /\
  sha512_permFinal = m_sha512_permFinal /\ sunmd5_permFinal = m_sunmd5_permFinal /\ sunmd5_phrase = m_sunmd5_phrase /\
  des_ie3264 = m_des_ie3264 /\ des_cf6464 = m_des_cf6464 /\ des_spe = m_des_spe /\ des_pcxRot = m_des_pcxRot /\
  des_ksMask = m_des_ksMask /\ md5_MaxSaltLength = 8 /\ sha256_MaxSaltLength = 16 /\ sha512_MaxSaltLength = 16 /\
  sunmd5_BasicRounds = 4096.
Proof.
  exact (conj tie_md5_permFinal (conj tie_sha1_permFinal (conj tie_sha256_permFinal (conj tie_sha512_permFinal
        (conj tie_sunmd5_permFinal (conj tie_sunmd5_phrase (conj tie_des_ie3264 (conj tie_des_cf6464 (conj tie_des_spe
        (conj tie_des_pcxRot (conj tie_des_ksMask (conj tie_md5_MaxSaltLength (conj tie_sha256_MaxSaltLength
        (conj tie_sha512_MaxSaltLength tie_sunmd5_BasicRounds)))))))))))))).
Qed.
