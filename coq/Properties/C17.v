(* C17 — streaming base64 equals one-shot coding under any chunking and any I/O fault.  Statements only. *)
Require Import GC.Base.Bytes GC.B64.B64Model GC.B64.B64Spec GC.B64.StreamModel GC.B64.StreamProofs GC.Schemes.Consts.

(* every way of splitting the data into Write calls, fault-free writer: exactly the one-shot encoding *)
Theorem C17_encoder : forall e chunks,
  es_written (fst (enc_run e (enc_init []) chunks [])) = encode e (concat chunks)
  /\ Forall (fun r => r = None) (snd (enc_run e (enc_init []) chunks [])).
Proof. exact enc_stream_eq. Qed.

(* any writer script (a fault at any call, partial writes): what reached the writer is a prefix of the one-shot
   encoding; the failing call and every later Write and Close return that same failure *)
Theorem C17_encoder_fault : forall e script chunks,
  (exists rest, encode e (concat chunks) = es_written (fst (enc_run e (enc_init script) chunks [])) ++ rest)
  /\ sticky (snd (enc_run e (enc_init script) chunks [])).
Proof. exact enc_stream_fault. Qed.

(* every way a reader fragments the encoded text (short reads, zero-length reads, CR/LF anywhere, all-newline
   reads), every sequence of caller buffer sizes: the decoder delivers exactly the data, then EOF *)
Theorem C17_decoder : forall e data script sizes,
  enc_wf e = true -> wf_bytes data = true -> no_errors script ->
  strip_nl (concat (map fst script)) = encode e data ->
  Forall (fun m => (1 <= m)%nat) sizes ->
  (length data + 1 <= length sizes)%nat ->
  dec_run e (dec_init script) sizes [] = (data, Some EOF).
Proof. exact dec_stream_valid_tight. Qed.

(* ... and when the last event carries an error (data together with EOF or an error, or an empty / all-newline
   read with an error): exactly the data, then the reader's own error *)
Theorem C17_decoder_error : forall e data pre d x sizes,
  enc_wf e = true -> wf_bytes data = true -> no_errors pre ->
  strip_nl (concat (map fst (pre ++ [(d, Some x)]))) = encode e data ->
  Forall (fun m => (1 <= m)%nat) sizes ->
  (length data + 1 <= length sizes)%nat ->
  dec_run e (dec_init (pre ++ [(d, Some x)])) sizes [] = (data, Some x).
Proof. exact dec_stream_valid_err. Qed.

Example C17_example :
  let e := {| e_alpha := crypt_alphabet; e_pad := None; e_strict := false |} in
  es_written (fst (enc_run e (enc_init [WOk; WFail 2 (ErrTok 1)]) [[1;2];[3;4;5;6];[7]] []))
  = firstn 6 (encode e [1;2;3;4;5;6;7]).
Proof. vm_compute. reflexivity. Qed.
