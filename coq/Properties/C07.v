(* C07 — top-level Check dispatches on the hash prefix to the latest registered checker.
   Only statements, each closed by [exact] of a lemma proved elsewhere. *)
Require Import GC.Base.Bytes GC.Dispatch.Dispatch GC.Dispatch.DispatchProofs
               GC.Dispatch.Schemes GC.Dispatch.Builtin GC.Generated.Gen_regs GC.Tie.Tie_regs.

(* the prefix computed by crypt.Check is the documented one, for every byte string *)
Theorem C07_prefix : forall h p, prefix_spec h p <-> prefix_of h = p.
Proof. exact prefix_of_iff. Qed.

(* for every string and every registration history: exactly the most recently registered handler
   of the string's prefix is called, once, with the arguments unchanged, and its result returned;
   ErrHash with no call otherwise *)
Theorem C07_route : forall (H V : Type) (run : H -> bytes -> bytes -> V) hist h pw,
  check H V run (fold_left (register H) hist []) h pw =
  match prefix_of h with
  | None => (ErrHash, [])
  | Some p => match last_registered H hist p with
              | None => (ErrHash, [])
              | Some f => (Ret (run f h pw), [(f, h, pw)])
              end
  end.
Proof. exact route. Qed.

Theorem C07_errhash_iff : forall (H V : Type) run r h pw,
  fst (check H V run r h pw) = ErrHash <->
  (prefix_of h = None \/ exists p, prefix_of h = Some p /\ lookup H r p = None).
Proof. exact errhash_iff. Qed.

Theorem C07_errhash_no_calls : forall (H V : Type) run r h pw,
  fst (check H V run r h pw) = ErrHash -> snd (check H V run r h pw) = [].
Proof. exact errhash_no_calls. Qed.

Theorem C07_independent : forall (H : Type) r p q f,
  p <> q -> lookup H (register H r (p, f)) q = lookup H r q.
Proof. exact register_independent. Qed.

Theorem C07_latest : forall (H : Type) r p f, lookup H (register H r (p, f)) p = Some f.
Proof. exact register_latest. Qed.

(* importing the scheme packages registers exactly the documented prefixes (generated from /repo) *)
Theorem C07_builtin : registrations = documented_registrations.
Proof. exact tie_regs. Qed.

(* non-vacuity: a concrete history with re-registration *)
Example C07_example :
  check nat nat (fun f _ _ => f)
        (fold_left (register nat) [([36;49;36], 1%nat); ([95], 2%nat); ([36;49;36], 3%nat)] [])
        [36;49;36;115;36;104] [112] = (Ret 3%nat, [(3%nat, [36;49;36;115;36;104], [112])]).
Proof. vm_compute. reflexivity. Qed.
