(* C02 — a wrong password or a tampered hash never verifies.  Statements only.
   First sentence of the property: proved for all ten schemes, all strings, all passwords (C02_x_sound).
   Second sentence: proved conditionally on the derivation giving a different encoded key (C02_differs) — that a
   particular KDF separates two particular inputs is not a mathematical fact about MD5/SHA/Blowfish/DES (the
   all-zero DES key is a weak key: extended DES with an empty password depends only on the parity of the round
   count); the hypothesis is explicit.  The per-scheme digest / password / salt / cost tamper theorems are in
   Properties/C02_tamper.v. *)
Require Import GC.Base.Bytes GC.Codec.Types GC.Codec.Codec GC.B64.B64Model GC.Schemes.Consts GC.Schemes.Layouts
               GC.Schemes.Keys GC.Schemes.Encoders GC.Schemes.Checks GC.Schemes.CheckSound.



Theorem C02_md5_sound : forall L kdf h pw, check_md5 L kdf h pw = VMatch ->
  exists m key, unmarshal_top std_cb m_layout_md5 h = Ok m /\
    key_md5 L kdf pw (as_bytes (getv [1%nat] m)) = KOk key /\ fit 22 (le64 key) = Some (as_bytes (getv [2%nat] m)).
Proof. exact md5_sound. Qed.
Theorem C02_sha256_sound : forall L kdf h pw, check_sha256 L kdf h pw = VMatch ->
  exists m key, unmarshal_top std_cb m_layout_sha256 h = Ok m /\
    key_sha256 L kdf pw (as_bytes (getv [2%nat] m)) (sha2_rounds m_sha256_ImplicitRounds m) = KOk key /\
    fit 43 (le64 key) = Some (as_bytes (getv [3%nat] m)).
Proof. exact sha256_sound. Qed.
Theorem C02_sha512_sound : forall L kdf h pw, check_sha512 L kdf h pw = VMatch ->
  exists m key, unmarshal_top std_cb m_layout_sha512 h = Ok m /\
    key_sha512 L kdf pw (as_bytes (getv [2%nat] m)) (sha2_rounds m_sha512_ImplicitRounds m) = KOk key /\
    fit 86 (le64 key) = Some (as_bytes (getv [3%nat] m)).
Proof. exact sha512_sound. Qed.
Theorem C02_sha1_sound : forall L kdf rr h pw, check_sha1 L kdf rr h pw = VMatch ->
  exists m key, unmarshal_top std_cb m_layout_sha1 h = Ok m /\
    key_sha1 L kdf rr pw (as_bytes (getv [2%nat] m)) (as_z (getv [1%nat] m)) = KOk key /\
    fit 28 (le64 key) = Some (as_bytes (getv [3%nat] m)).
Proof. exact sha1_sound. Qed.
Theorem C02_sunmd5_sound : forall L kdf h pw, check_sunmd5 L kdf h pw = VMatch ->
  exists m key, unmarshal_top std_cb m_layout_sunmd5 h = Ok m /\
    key_sunmd5 L kdf pw (as_bytes (getv [0%nat; 2%nat] m)) (as_z (getv [0%nat; 1%nat] m)) (sunmd5_opts m) = KOk key /\
    fit 22 (le64 key) = Some (as_bytes (getv [1%nat] m)).
Proof. exact sunmd5_sound. Qed.
Theorem C02_des_sound : forall L kdf h pw, check_des L kdf h pw = VMatch ->
  exists m key, unmarshal_top std_cb m_layout_des h = Ok m /\
    key_des L kdf pw (as_bytes (getv [1%nat] m)) = KOk key /\ fit 11 (be64 key) = Some (as_bytes (getv [2%nat] m)).
Proof. exact des_sound. Qed.
Theorem C02_desext_sound : forall L kdf h pw, check_desext L kdf h pw = VMatch ->
  exists m key, unmarshal_top std_cb m_layout_desext h = Ok m /\
    key_desext L kdf pw (as_bytes (getv [2%nat] m)) (as_z (getv [1%nat] m)) = KOk key /\
    fit 11 (be64 key) = Some (as_bytes (getv [3%nat] m)).
Proof. exact desext_sound. Qed.
Theorem C02_bcrypt_sound : forall L kdf h pw, check_bcrypt L kdf h pw = VMatch ->
  exists m key, unmarshal_top std_cb m_layout_bcrypt h = Ok m /\
    key_bcrypt L kdf pw (as_bytes (getv [2%nat] m)) (as_z (getv [1%nat] m)) (Some (as_bytes (getv [0%nat] m))) = KOk key /\
    fit 31 (be64_encode bcrypt_std_alphabet key) = Some (as_bytes (getv [3%nat] m)).
Proof. exact bcrypt_sound. Qed.
Theorem C02_nthash_sound : forall L kdf nt h pw, check_nthash L kdf nt h pw = VMatch ->
  exists m key, unmarshal_top std_cb m_layout_nthash h = Ok m /\
    key_nthash L kdf (nt pw) = KOk key /\ fit 32 (hex_encode key) = Some (as_bytes (getv [2%nat] m)).
Proof. exact nthash_sound. Qed.
Theorem C02_argon2_sound : forall L kdf h pw, check_argon2 L kdf h pw = VMatch ->
  exists m key, unmarshal_top std_cb m_layout_argon2 h = Ok m /\
    key_argon2 L kdf pw (as_bytes (getv [5%nat] m)) (as_z (getv [2%nat] m)) (as_z (getv [3%nat] m)) (as_z (getv [4%nat] m))
               (Some (as_bytes (getv [0%nat] m), argon2_version m)) = KOk key /\
    be64_encode base64_std_alphabet key = as_bytes (getv [6%nat] m).
Proof. exact argon2_sound. Qed.

(* errors come before the comparison: a verdict of match or mismatch means Key accepted; a key error is reported
   as such; codec errors never reach the comparison *)
Theorem C02_error_first : forall n enc k sum,
  match finish n enc k sum with
  | VMatch | VMismatch => exists key, k = KOk key
  | VKey e => k = KErr e
  | VPanic => exists key, k = KOk key /\ fit n (enc key) = None
  | VCodec _ => False
  end.
Proof. exact finish_cases. Qed.

(* the conditional clause: whenever the derivation gives a different encoded key (non-equivalent password, other
   salt, other cost), the same stored digest does not verify *)
Theorem C02_differs_partial : forall n enc k1 k2 sum,
  finish n enc (KOk k1) sum = VMatch -> length (enc k1) = length (enc k2) -> enc k1 <> enc k2 ->
  finish n enc (KOk k2) sum <> VMatch.
Proof. exact finish_differs. Qed.
