(* C03 — the DES round code in the source is the model's.  Statements only.
   Generated/Gen_des_round.v is written by `harness gen` from des/descrypt/des.go with the arithmetic translator
   (gen_arith.go): the body of `for _, ks := range kss` in Encrypt (two Feistel half-rounds with the crypt(3) salt
   swap, table lookups into spe) and the expression assembling the pre-output block c.  Proved, for every table, key
   schedule, 64-bit halves and salt word: the translated body is one step of DesCrypt.feistel, a pass over the key
   schedule is their fold, and Encrypt is the final permutation of the translated c.  With C03_des.v (the model on the
   regenerated tables = FIPS 46-3 DES with the crypt(3) salt) this ties the round function in the source to the
   standard.  The loops around it (rounds, range over kss, keySchedules, the permute functions) stay hand-modelled and are tied by
   the correspondence with the library and libxcrypt. *)
Require Import GC.Base.Bytes GC.Kdf.DesCrypt GC.Generated.Gen_des_round GC.Tie.Tie_des_round.

Theorem C03_des_source_round_pair : forall spe ks0 ks1 salt l r,
  0 <= salt < 2 ^ 64 ->
  gen_des_pair spe ks0 ks1 salt l r = feistel spe [(ks0, ks1)] salt l r.
Proof. exact gen_des_pair_eq. Qed.

Theorem C03_des_source_pass : forall spe kss salt l r,
  0 <= salt < 2 ^ 64 ->
  fold_left (fun lr ks => gen_des_pair spe (fst ks) (snd ks) salt (fst lr) (snd lr)) kss (l, r) = feistel spe kss salt l r.
Proof. exact gen_des_pass_eq. Qed.

Theorem C03_des_source_pre_output : forall ie3264 cf6464 spe pcxRot ksMask key input salt rounds,
  Encrypt ie3264 cf6464 spe pcxRot ksMask key input salt rounds =
  let lr := final_halves ie3264 spe pcxRot ksMask key input salt rounds in
  permute1616 cf6464 (gen_des_c (fst lr) (snd lr)).
Proof. exact gen_des_c_eq. Qed.

(* non-vacuity: the translated body on concrete words and a two-row table *)
Example C03_des_source_example :
  gen_des_pair [[1; 2; 3]; [4; 5; 6]] 7 9 1023 81985529216486895 1311768467463790320
  = feistel [[1; 2; 3]; [4; 5; 6]] [(7, 9)] 1023 81985529216486895 1311768467463790320.
Proof. vm_compute. reflexivity. Qed.
