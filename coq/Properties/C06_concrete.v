(* C06 on the CONCRETE derivations.  Statements only.
   Properties/C06.v classifies Check's verdict for an abstract derivation whose keys have the scheme's length.  For
   [kdf_models] (the literal models of the in-repo KDF control code, Schemes/ConcreteBase.v) that hypothesis is a
   theorem as soon as the external hash primitives return digests of their lengths, so: for EVERY string and password
   the class of Check's verdict (match / mismatch / malformed) is the one the independent recogniser, the Key guards and
   the comparison of the re-encoded key with the stored digest give -- with nothing assumed about the repository's
   own code. *)
Require Import GC.Base.Bytes GC.Schemes.Consts GC.Schemes.Keys GC.Schemes.Checks GC.Schemes.Recognisers GC.Schemes.RecogCases
               GC.Schemes.FreshBase GC.Schemes.ConcreteBase GC.Schemes.ConcretePlain GC.Schemes.ConcreteOther
               GC.Properties.C06.

Section Concrete.
Variables MD5 SHA256 SHA512 MD4 : bytes -> bytes.
Variable HMAC1 : bytes -> bytes -> bytes.
Variable C : Type.
Variable bf_new : bytes -> bytes -> option C.
Variable bf_expand : bytes -> C -> C.
Variable bf_encrypt : C -> bytes -> bytes.
Variable B2 : Z -> bytes -> bytes.
Let KDF := kdf_models MD5 SHA256 SHA512 MD4 HMAC1 C bf_new bf_expand bf_encrypt B2.

Theorem C06_md5_concrete : forall L h pw, hash_contract MD5 16 ->
  class_of (check_md5 L KDF h pw) = spec_md5 L KDF h pw.
Proof.
  intros L h pw H. apply C06_md5. apply kdf_ok_len.
  exact (kdf_models_ok_md5 MD5 SHA256 SHA512 MD4 HMAC1 C bf_new bf_expand bf_encrypt B2 H).
Qed.
Theorem C06_sha256_concrete : forall L h pw, hash_contract SHA256 32 ->
  class_of (check_sha256 L KDF h pw) = spec_sha256 L KDF h pw.
Proof.
  intros L h pw H. apply C06_sha256. apply kdf_ok_len.
  exact (kdf_models_ok_sha256 MD5 SHA256 SHA512 MD4 HMAC1 C bf_new bf_expand bf_encrypt B2 H).
Qed.
Theorem C06_sha512_concrete : forall L h pw, hash_contract SHA512 64 ->
  class_of (check_sha512 L KDF h pw) = spec_sha512 L KDF h pw.
Proof.
  intros L h pw H. apply C06_sha512. apply kdf_ok_len.
  exact (kdf_models_ok_sha512 MD5 SHA256 SHA512 MD4 HMAC1 C bf_new bf_expand bf_encrypt B2 H).
Qed.
Theorem C06_sha1_concrete : forall L rr h pw, mac_contract HMAC1 20 ->
  class_of (check_sha1 L KDF rr h pw) = spec_sha1 L KDF rr h pw.
Proof.
  intros L rr h pw H. apply C06_sha1. apply kdf_ok_len.
  exact (kdf_models_ok_sha1 MD5 SHA256 SHA512 MD4 HMAC1 C bf_new bf_expand bf_encrypt B2 H).
Qed.
Theorem C06_sunmd5_concrete : forall L h pw, hash_contract MD5 16 ->
  class_of (check_sunmd5 L KDF h pw) = spec_sunmd5 L KDF h pw.
Proof.
  intros L h pw H. apply C06_sunmd5. apply kdf_ok_len.
  exact (kdf_models_ok_sunmd5 MD5 SHA256 SHA512 MD4 HMAC1 C bf_new bf_expand bf_encrypt B2 H).
Qed.
(* DES and extended DES: no hypothesis at all *)
Theorem C06_des_concrete : forall L h pw, class_of (check_des L KDF h pw) = spec_des L KDF h pw.
Proof.
  intros L h pw. apply C06_des. apply kdf_ok_len.
  exact (kdf_models_ok_des MD5 SHA256 SHA512 MD4 HMAC1 C bf_new bf_expand bf_encrypt B2).
Qed.
Theorem C06_desext_concrete : forall L h pw, class_of (check_desext L KDF h pw) = spec_desext L KDF h pw.
Proof.
  intros L h pw. apply C06_desext. apply kdf_ok_len.
  exact (kdf_models_ok_desext MD5 SHA256 SHA512 MD4 HMAC1 C bf_new bf_expand bf_encrypt B2).
Qed.
Theorem C06_bcrypt_concrete : forall L h pw, blowfish_contract C bf_new bf_encrypt ->
  class_of (check_bcrypt L KDF h pw) = spec_bcrypt L KDF h pw.
Proof.
  intros L h pw H. apply C06_bcrypt.
  exact (proj2 (kdf_models_ok_bcrypt_on MD5 SHA256 SHA512 MD4 HMAC1 C bf_new bf_expand bf_encrypt B2 H)).
Qed.
Theorem C06_nthash_concrete : forall L nt h pw, hash_contract MD4 16 ->
  class_of (check_nthash L KDF nt h pw) = spec_nthash L KDF nt h pw.
Proof.
  intros L nt h pw H. apply C06_nthash. apply kdf_ok_len.
  exact (kdf_models_ok_nthash MD5 SHA256 SHA512 MD4 HMAC1 C bf_new bf_expand bf_encrypt B2 H).
Qed.
Theorem C06_argon2_concrete : forall L h pw, class_of (check_argon2 L KDF h pw) = spec_argon2 L KDF h pw.
Proof. intros L h pw. apply C06_argon2. Qed.
End Concrete.
