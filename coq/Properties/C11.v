(* C11 — the hash parser terminates, loses no input and leaks no goroutine.
   Only statements, each closed by [exact] of a lemma proved in Parse/ParseProofs.v. *)
Require Import GC.Base.Bytes GC.Parse.ParseModel GC.Parse.ParseSpec GC.Parse.ParseProofs.

(* Termination: the literal model of the Go lexer state machine, run with fuel (length s + 3), always
   finishes and produces exactly the tokens of the structurally recursive lexer. *)
Theorem C11_lexer_terminates : forall s, lex_go s = Some (lex s).
Proof. exact lex_go_eq. Qed.

Theorem C11_parse_go : forall s, parse_go s = Some (parse_run s).
Proof. exact parse_go_eq. Qed.

(* Parse never reaches a state the Go code cannot handle (nil value in a group, channel closed early) *)
Theorem C11_total : forall s, parse s <> PStuck.
Proof. exact parse_total. Qed.

(* it fails exactly for '$' followed by an empty or unterminated identifier, with these offsets *)
Theorem C11_error_iff : forall s p m, parse s = PErr p m <-> parse_error_spec s p m.
Proof. exact parse_error_iff. Qed.

(* the tree equals the independent reference parser (split on '$', then on ','), positions included *)
Theorem C11_reference : forall s, parse s = pres_of_spec (spec_parse s).
Proof. exact parse_spec_eq. Qed.

(* the tree accounts for the whole input up to at most one trailing delimiter *)
Theorem C11_lossless : forall s t, parse s = POk t ->
  exists tail, In tail [[]; [dollar]; [comma]] /\ render t ++ tail = s.
Proof. exact parse_lossless. Qed.

(* every node's span is exactly the substring holding its text *)
Theorem C11_spans : forall s t, parse s = POk t -> spans_ok s t.
Proof. exact parse_spans. Qed.

(* comma-joined values always surface as one group: a lone value is never followed by a comma,
   a group is never empty, and no value contains a delimiter *)
Theorem C11_groups : forall s t, parse s = POk t -> groups_ok s t.
Proof. exact parse_groups. Qed.

(* every token the lexer goroutine sends is received and exactly one terminal token (EOF or error) is
   sent, last: no send is pending and the channel is closed when Parse returns, on both paths *)
Theorem C11_drained : forall s, drained s.
Proof. exact parse_drained. Qed.

Example C11_example :
  parse [36;120;36;97;61;49;44;98;44] =
  POk {| prefix := Some [36;120;36]; frags := [FG [(3%nat, [97;61;49]); (7%nat, [98])]] |}.
Proof. vm_compute. reflexivity. Qed.
