(* C19 — digest comparison time does not depend on where the digests differ.  Statements only.
   The ten programs are regenerated from the current Go source on every run (Generated/Gen_check_ir.v). *)
Require Import GC.Base.Bytes GC.CT.IR GC.Generated.Gen_check_ir.

(* every scheme's Check passes the taint analysis: the value returned by Key reaches only encoders and
   subtle.ConstantTimeCompare; the stored digest reaches only ConstantTimeCompare; no condition, comparison,
   index, loop bound, other call or return value depends on them; the mismatch sentinel is returned only under
   a condition on ConstantTimeCompare's result *)
Theorem C19_argon2 : ct_ok check_ir_argon2 = true. Proof. vm_compute. reflexivity. Qed.
Theorem C19_bcrypt : ct_ok check_ir_bcrypt = true. Proof. vm_compute. reflexivity. Qed.
Theorem C19_des    : ct_ok check_ir_des = true.    Proof. vm_compute. reflexivity. Qed.
Theorem C19_desext : ct_ok check_ir_desext = true. Proof. vm_compute. reflexivity. Qed.
Theorem C19_md5    : ct_ok check_ir_md5 = true.    Proof. vm_compute. reflexivity. Qed.
Theorem C19_nthash : ct_ok check_ir_nthash = true. Proof. vm_compute. reflexivity. Qed.
Theorem C19_sha1   : ct_ok check_ir_sha1 = true.   Proof. vm_compute. reflexivity. Qed.
Theorem C19_sha256 : ct_ok check_ir_sha256 = true. Proof. vm_compute. reflexivity. Qed.
Theorem C19_sha512 : ct_ok check_ir_sha512 = true. Proof. vm_compute. reflexivity. Qed.
Theorem C19_sunmd5 : ct_ok check_ir_sunmd5 = true. Proof. vm_compute. reflexivity. Qed.

(* the analysis rejects the classic mistakes (non-vacuity of the check) *)
Definition bad_equal : list stmt :=
  [SDefine [[107;101;121]; [101;114;114]] (ECall (EId s_Key) [EId [112]]);
   SIf None (ECall (ESel (EId [98;121;116;101;115]) [69;113;117;97;108]) [EId [107;101;121]; ESel (EId [115]) s_Sum])
       [SReturn [ELit]] [SReturn [ESel (EId [99;114;121;112;116]) s_Mismatch]]].
Definition bad_fastpath : list stmt :=
  [SDefine [[107;101;121]; [101;114;114]] (ECall (EId s_Key) [EId [112]]);
   SIf None (EBinary s_ne (EIndex (EId [107;101;121]) ELit) (EIndex (ESel (EId [115]) s_Sum) ELit))
       [SReturn [ESel (EId [99;114;121;112;116]) s_Mismatch]] []].
Example C19_rejects : ct_ok bad_equal = false /\ ct_ok bad_fastpath = false.
Proof. vm_compute. split; reflexivity. Qed.
