(* C19 — digest comparison time does not depend on where the digests differ.  Statements only.
   The ten programs are regenerated from the current Go source on every run (Generated/Gen_check_ir.v). *)
Require Import GC.Base.Bytes GC.CT.IR GC.CT.Leak GC.CT.CTSound GC.Generated.Gen_check_ir.

(* every scheme's Check passes the taint analysis: the value returned by Key reaches only encoders and
   subtle.ConstantTimeCompare; the stored digest reaches only ConstantTimeCompare; no condition, comparison,
   index, loop bound, other call or return value depends on them; the mismatch sentinel is returned only under
   a condition on ConstantTimeCompare's result *)
Theorem C19_argon2 : ct_ok' check_ir_argon2 = true. Proof. vm_compute. reflexivity. Qed.
Theorem C19_bcrypt : ct_ok' check_ir_bcrypt = true. Proof. vm_compute. reflexivity. Qed.
Theorem C19_des    : ct_ok' check_ir_des = true.    Proof. vm_compute. reflexivity. Qed.
Theorem C19_desext : ct_ok' check_ir_desext = true. Proof. vm_compute. reflexivity. Qed.
Theorem C19_md5    : ct_ok' check_ir_md5 = true.    Proof. vm_compute. reflexivity. Qed.
Theorem C19_nthash : ct_ok' check_ir_nthash = true. Proof. vm_compute. reflexivity. Qed.
Theorem C19_sha1   : ct_ok' check_ir_sha1 = true.   Proof. vm_compute. reflexivity. Qed.
Theorem C19_sha256 : ct_ok' check_ir_sha256 = true. Proof. vm_compute. reflexivity. Qed.
Theorem C19_sha512 : ct_ok' check_ir_sha512 = true. Proof. vm_compute. reflexivity. Qed.
Theorem C19_sunmd5 : ct_ok' check_ir_sunmd5 = true. Proof. vm_compute. reflexivity. Qed.

(* SOUNDNESS of the analysis against the leakage semantics of CT/Leak.v (branches, comparisons of byte strings,
   index bounds and the arguments of every call that is not known to be constant-time are leaked; known
   constant-time callees leak lengths only; ConstantTimeCompare's verdict is the declassified output):
   two runs that differ only in the key bytes returned by Key and in the bytes of the stored digest (equal
   lengths) and in which ConstantTimeCompare answers alike produce the same leakage trace — timing cannot
   depend on where the digests differ. *)
Theorem C19_sound :
  forall body fuel fsem k1 k2 pend1 pend2 env1 env2 r1 r2 tr1 tr2 e1' e2',
    ct_ok' body = true -> len_respecting fsem -> length k1 = length k2 ->
    pend_low_equiv pend1 pend2 -> env_low_equiv [] env1 env2 ->
    exec fuel fsem k1 pend1 env1 body = Some (e1', r1, tr1) ->
    exec fuel fsem k2 pend2 env2 body = Some (e2', r2, tr2) ->
    ctc_verdicts tr1 = ctc_verdicts tr2 -> strip_verdicts tr1 = strip_verdicts tr2.
Proof. exact ct_sound. Qed.

(* the analysis rejects the classic mistakes (non-vacuity of the check) *)
Definition bad_equal : list stmt :=
  [SDefine [[107;101;121]; [101;114;114]] (ECall (EId s_Key) [EId [112]]);
   SIf None (ECall (ESel (EId [98;121;116;101;115]) [69;113;117;97;108]) [EId [107;101;121]; ESel (EId [115]) s_Sum])
       [SReturn [ELit]] [SReturn [ESel (EId [99;114;121;112;116]) s_Mismatch]]].
Definition bad_fastpath : list stmt :=
  [SDefine [[107;101;121]; [101;114;114]] (ECall (EId s_Key) [EId [112]]);
   SIf None (EBinary s_ne (EIndex (EId [107;101;121]) ELit) (EIndex (ESel (EId [115]) s_Sum) ELit))
       [SReturn [ESel (EId [99;114;121;112;116]) s_Mismatch]] []].
Example C19_rejects : ct_ok' bad_equal = false /\ ct_ok' bad_fastpath = false.
Proof. vm_compute. split; reflexivity. Qed.
