(* C01 on the CONCRETE derivations.  Statements only.
   Properties/C01.v states "a fresh hash verifies" with the key derivation as an abstract function that returns a key
   of the scheme's length (kdf_ok).  Here that function is [kdf_models]: the literal Coq models of the in-repo KDF
   control code (Kdf/*.v: md5crypt.Encrypt, sha2crypt.Encrypt, sha1.Key, sunmd5.Key incl. the salt string the codec
   renders, descrypt / desext.key on the committed tables, bcrypt's setup/encode loop, nthash's UTF-16 encoder,
   argon2crypto.Key) -- the same definitions the extracted driver runs against the Go code on every run of C03 / C04.
   What remains hypothetical is only the CONTRACT of each hash primitive that lives outside the repository: it returns
   the digest length of bytes 0..255 (MD5 16, SHA-256 32, SHA-512 64, MD4 16, HMAC-SHA1 20, BLAKE2b n for 1 <= n <= 64;
   Blowfish: NewSaltedCipher fails only for an empty key, Encrypt preserves the block length).  Under these contracts:
   for every password in the scheme's domain, every cost inside the exported bounds and every random draw, NewHash
   succeeds, Check on its result says match, and the dispatcher's prefix is a registered one.
   For bcrypt the abstract form (kdf_ok for EVERY argument list) is false of the concrete model -- Blowfish rejects the
   empty key, which Key can only pass for the $2$ variant with an empty password (C01_bcrypt_abstract_form_false) -- so
   the theorem is proved on the argument lists NewHash / Check really pass ($2b$: the key always ends in a NUL). *)
Require Import GC.Base.Bytes GC.Schemes.Consts GC.Schemes.Keys GC.Schemes.Checks GC.Schemes.NewHash GC.Schemes.FreshBase
               GC.Schemes.FreshOther GC.Dispatch.Schemes GC.Dispatch.Dispatch GC.Dispatch.Builtin GC.Extract.Wrap
               GC.Schemes.ConcreteBase GC.Schemes.ConcretePlain GC.Schemes.ConcreteOther.
Require GC.Kdf.SafeNtHash.

Section Concrete.
Variables MD5 SHA256 SHA512 MD4 : bytes -> bytes.
Variable HMAC1 : bytes -> bytes -> bytes.
Variable C : Type.
Variable bf_new : bytes -> bytes -> option C.
Variable bf_expand : bytes -> C -> C.
Variable bf_encrypt : C -> bytes -> bytes.
Variable B2 : Z -> bytes -> bytes.
Let KDF := kdf_models MD5 SHA256 SHA512 MD4 HMAC1 C bf_new bf_expand bf_encrypt B2.

Theorem C01_md5_concrete : forall stream pw, hash_contract MD5 16 -> good_stream stream 8 ->
  exists h, newhash_md5 L0 KDF stream pw = NOk h /\ check_md5 L0 KDF h pw = VMatch /\
            prefix_of h = Some m_md5_Prefix /\ In (m_md5_Prefix, S_md5) documented_registrations.
Proof. exact (md5_fresh_verifies_concrete MD5 SHA256 SHA512 MD4 HMAC1 C bf_new bf_expand bf_encrypt B2). Qed.

Theorem C01_sha256_concrete : forall stream pw rounds, hash_contract SHA256 32 -> good_stream stream 16 ->
  L_sha256_MinRounds L0 <= rounds <= L_sha256_MaxRounds L0 ->
  exists h, newhash_sha256 L0 KDF stream pw rounds = NOk h /\ check_sha256 L0 KDF h pw = VMatch /\
            prefix_of h = Some m_sha256_Prefix /\ In (m_sha256_Prefix, S_sha256) documented_registrations.
Proof. exact (sha256_fresh_verifies_concrete MD5 SHA256 SHA512 MD4 HMAC1 C bf_new bf_expand bf_encrypt B2). Qed.

Theorem C01_sha512_concrete : forall stream pw rounds, hash_contract SHA512 64 -> good_stream stream 16 ->
  L_sha512_MinRounds L0 <= rounds <= L_sha512_MaxRounds L0 ->
  exists h, newhash_sha512 L0 KDF stream pw rounds = NOk h /\ check_sha512 L0 KDF h pw = VMatch /\
            prefix_of h = Some m_sha512_Prefix /\ In (m_sha512_Prefix, S_sha512) documented_registrations.
Proof. exact (sha512_fresh_verifies_concrete MD5 SHA256 SHA512 MD4 HMAC1 C bf_new bf_expand bf_encrypt B2). Qed.

Theorem C01_sha1_concrete : forall stream pw rounds, mac_contract HMAC1 20 -> good_stream stream 8 ->
  L_sha1_MinRounds L0 <= rounds < 2 ^ 32 -> rounds <> L_sha1_RandomRounds L0 -> forall rr,
  exists h, newhash_sha1 L0 KDF stream pw rounds = NOk h /\ check_sha1 L0 KDF rr h pw = VMatch /\
            prefix_of h = Some m_sha1_Prefix /\ In (m_sha1_Prefix, S_sha1) documented_registrations.
Proof. exact (sha1_fresh_verifies_concrete MD5 SHA256 SHA512 MD4 HMAC1 C bf_new bf_expand bf_encrypt B2). Qed.

Theorem C01_sha1_random_concrete : forall stream pw, mac_contract HMAC1 20 -> good_stream stream 12 -> forall rr,
  exists h, newhash_sha1 L0 KDF stream pw (L_sha1_RandomRounds L0) = NOk h /\ check_sha1 L0 KDF rr h pw = VMatch /\
            prefix_of h = Some m_sha1_Prefix /\ In (m_sha1_Prefix, S_sha1) documented_registrations.
Proof. exact (sha1_random_fresh_verifies_concrete MD5 SHA256 SHA512 MD4 HMAC1 C bf_new bf_expand bf_encrypt B2). Qed.

(* DES and extended DES use no primitive outside the repository: no hypothesis about any hash function is left *)
Theorem C01_des_concrete : forall stream pw, good_stream stream 2 -> len pw <= L_des_MaxPw L0 ->
  exists h, newhash_des L0 KDF stream pw = NOk h /\ check_des L0 KDF h pw = VMatch /\
            prefix_of h = Some m_des_Prefix /\ In (m_des_Prefix, S_des) documented_registrations.
Proof. exact (des_fresh_verifies_concrete MD5 SHA256 SHA512 MD4 HMAC1 C bf_new bf_expand bf_encrypt B2). Qed.

Theorem C01_desext_concrete : forall stream pw rounds, good_stream stream 4 ->
  L_desext_MinRounds L0 <= rounds <= L_desext_MaxRounds L0 ->
  exists h, newhash_desext L0 KDF stream pw rounds = NOk h /\ check_desext L0 KDF h pw = VMatch /\
            prefix_of h = Some m_desext_Prefix /\ In (m_desext_Prefix, S_desext) documented_registrations.
Proof. exact (desext_fresh_verifies_concrete MD5 SHA256 SHA512 MD4 HMAC1 C bf_new bf_expand bf_encrypt B2). Qed.

(* NT hash with the modelled UTF-8 -> UTF-16LE encoder: every password of at most 128 bytes *)
Theorem C01_nthash_concrete : forall pw, hash_contract MD4 16 -> (length pw <= 128)%nat ->
  exists h, newhash_nthash L0 KDF x_nt_encode pw = NOk h /\ check_nthash L0 KDF x_nt_encode h pw = VMatch /\
            prefix_of h = Some m_nthash_Prefix /\ In (m_nthash_Prefix, S_nthash) documented_registrations.
Proof. exact (nthash_fresh_verifies_concrete_enc MD5 SHA256 SHA512 MD4 HMAC1 C bf_new bf_expand bf_encrypt B2). Qed.

(* ... and in the scheme's own unit of measure: every password whose UTF-16LE text has at most 256 bytes (128 code
   units: the exported MaxPasswordLength), however many bytes or characters the Go string has *)
Theorem C01_nthash_concrete_units : forall pw, hash_contract MD4 16 -> len (x_nt_encode pw) <= L_nthash_MaxPw L0 ->
  exists h, newhash_nthash L0 KDF x_nt_encode pw = NOk h /\ check_nthash L0 KDF x_nt_encode h pw = VMatch /\
            prefix_of h = Some m_nthash_Prefix /\ In (m_nthash_Prefix, S_nthash) documented_registrations.
Proof.
  intros pw HH Hl.
  apply (nthash_fresh_verifies_concrete MD5 SHA256 SHA512 MD4 HMAC1 C bf_new bf_expand bf_encrypt B2); [exact HH| |exact Hl].
  unfold x_nt_encode, len. destruct (SafeNtHash.encodePassword_length_even pw) as (m & E). rewrite E.
  rewrite Nat2Z.inj_mul. change (Z.of_nat 2) with 2. rewrite Z.mul_comm. apply Z_mod_mult.
Qed.

Theorem C01_sunmd5_concrete : forall stream pw rounds, hash_contract MD5 16 -> good_stream stream 8 ->
  len pw <= L_sunmd5_MaxPw L0 -> 0 <= rounds <= L_sunmd5_MaxRounds L0 ->
  exists h, newhash_sunmd5 L0 KDF stream pw rounds = NOk h /\ check_sunmd5 L0 KDF h pw = VMatch /\
            prefix_of h = Some (sunmd5_prefix_for rounds) /\ In (sunmd5_prefix_for rounds, S_sunmd5) documented_registrations.
Proof. exact (sunmd5_fresh_verifies_concrete MD5 SHA256 SHA512 MD4 HMAC1 C bf_new bf_expand bf_encrypt B2). Qed.

Theorem C01_argon2_concrete : forall stream pw memory time, blake2b_contract B2 -> good_stream stream 8 ->
  L_argon2_MinMemory L0 <= memory < 2 ^ 32 -> L_argon2_MinTime L0 <= time < 2 ^ 32 ->
  exists h, newhash_argon2 L0 KDF stream pw memory time = NOk h /\ check_argon2 L0 KDF h pw = VMatch /\
            prefix_of h = Some m_argon2_Prefix2id /\ In (m_argon2_Prefix2id, S_argon2) documented_registrations.
Proof. exact (argon2_fresh_verifies_concrete MD5 SHA256 SHA512 MD4 HMAC1 C bf_new bf_expand bf_encrypt B2). Qed.

Theorem C01_bcrypt_concrete : forall stream pw cost, blowfish_contract C bf_new bf_encrypt -> good_stream stream 16 ->
  L_bcrypt_MinCost L0 <= cost <= L_bcrypt_MaxCost L0 ->
  exists h, newhash_bcrypt L0 KDF stream pw cost = NOk h /\ check_bcrypt L0 KDF h pw = VMatch /\
            prefix_of h = Some m_bcrypt_Prefix2b /\ In (m_bcrypt_Prefix2b, S_bcrypt) documented_registrations.
Proof. exact (bcrypt_fresh_verifies_concrete MD5 SHA256 SHA512 MD4 HMAC1 C bf_new bf_expand bf_encrypt B2). Qed.

(* the derivations return a key of the scheme's length, every byte in 0..255, for EVERY argument list: what the
   abstract theorems of C01 / C02 / C06 / C12 assume of their [kdf] is a theorem about the models *)
Theorem C01_kdf_contracts :
  (hash_contract MD5 16 -> kdf_ok KDF T_md5 16) /\ (hash_contract SHA256 32 -> kdf_ok KDF T_sha256 32) /\
  (hash_contract SHA512 64 -> kdf_ok KDF T_sha512 64) /\ (mac_contract HMAC1 20 -> kdf_ok KDF T_sha1 21) /\
  kdf_ok KDF T_des 8 /\ kdf_ok KDF T_desext 8 /\ (hash_contract MD4 16 -> kdf_ok KDF T_nthash 16) /\
  (hash_contract MD5 16 -> kdf_ok KDF T_sunmd5 16) /\ (blake2b_contract B2 -> kdf_ok KDF T_argon2 32).
Proof.
  exact (conj (kdf_models_ok_md5 MD5 SHA256 SHA512 MD4 HMAC1 C bf_new bf_expand bf_encrypt B2)
        (conj (kdf_models_ok_sha256 MD5 SHA256 SHA512 MD4 HMAC1 C bf_new bf_expand bf_encrypt B2)
        (conj (kdf_models_ok_sha512 MD5 SHA256 SHA512 MD4 HMAC1 C bf_new bf_expand bf_encrypt B2)
        (conj (kdf_models_ok_sha1 MD5 SHA256 SHA512 MD4 HMAC1 C bf_new bf_expand bf_encrypt B2)
        (conj (kdf_models_ok_des MD5 SHA256 SHA512 MD4 HMAC1 C bf_new bf_expand bf_encrypt B2)
        (conj (kdf_models_ok_desext MD5 SHA256 SHA512 MD4 HMAC1 C bf_new bf_expand bf_encrypt B2)
        (conj (kdf_models_ok_nthash MD5 SHA256 SHA512 MD4 HMAC1 C bf_new bf_expand bf_encrypt B2)
        (conj (kdf_models_ok_sunmd5 MD5 SHA256 SHA512 MD4 HMAC1 C bf_new bf_expand bf_encrypt B2)
              (kdf_models_ok_argon2 MD5 SHA256 SHA512 MD4 HMAC1 C bf_new bf_expand bf_encrypt B2))))))))).
Qed.
End Concrete.

Theorem C01_bcrypt_abstract_form_false :
  exists (C : Type) (bf_new : bytes -> bytes -> option C) (bf_expand : bytes -> C -> C) (bf_encrypt : C -> bytes -> bytes),
    blowfish_contract C bf_new bf_encrypt /\
    forall MD5 SHA256 SHA512 MD4 HMAC1 B2,
      ~ kdf_ok (kdf_models MD5 SHA256 SHA512 MD4 HMAC1 C bf_new bf_expand bf_encrypt B2) T_bcrypt 23.
Proof. exact bcrypt_strong_form_fails. Qed.
