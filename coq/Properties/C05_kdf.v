(* C05, primitives — the remaining key-derivation control code (DES / extended DES tables and loops, Sun MD5 coin toss, bcrypt's
   24-byte buffer, NT hash UTF-16 conversion) never indexes outside its tables, digests and buffers.  The models in Kdf/*.v use
   totalised lookups (a default value instead of a panic); the theorems relate them to CHECKED variants (Kdf/Safe*.v) in which every
   index and slice expression yields None when out of range: the checked run always succeeds and equals the totalised one, for
   every key, input, salt, round count and password (bytes 0..255 where a byte indexes a 256-entry table).  Statements only,
   generated from the lemmas' types. *)
Require Import GC.Base.Bytes GC.Codec.Codec GC.Kdf.KdfBase GC.Kdf.DesCrypt GC.Kdf.DesTables GC.Kdf.SunMd5 GC.Kdf.Bcrypt GC.Kdf.NtHash GC.Schemes.Consts GC.Kdf.SafeBase GC.Kdf.SafeDes GC.Kdf.SafeSunMd5 GC.Kdf.SafeBcrypt GC.Kdf.SafeNtHash.
Require GC.Kdf.Argon2 GC.Kdf.SafeArgon2.

Theorem C05_m_des_table_shapes :
  (length m_des_ie3264, map (length (A:=Z)) m_des_ie3264) = (8%nat, repeat 16%nat 8) /\
  (length m_des_cf6464, map (length (A:=Z)) m_des_cf6464) = (16%nat, repeat 16%nat 16) /\
  (length m_des_spe, map (length (A:=Z)) m_des_spe) = (8%nat, repeat 64%nat 8) /\
  length m_des_pcxRot = 8%nat /\
  map
  (fun eo : list (list Z) * list (list Z) =>
  (map (length (A:=Z)) (fst eo), map (length (A:=Z)) (snd eo))) m_des_pcxRot =
  repeat (repeat 16%nat 16, repeat 16%nat 16) 8 /\
  length m_hashutil_hash_decode = 256%nat /\ length m_hashutil_hash_encode = 256%nat.
Proof. exact m_des_table_shapes. Qed.

Theorem C05_des_Encrypt_safe :
  forall key input salt rounds : Z,
  Encrypt_chk m_des_ie3264 m_des_cf6464 m_des_spe m_des_pcxRot m_des_ksMask key input salt rounds =
  Some (Encrypt m_des_ie3264 m_des_cf6464 m_des_spe m_des_pcxRot m_des_ksMask key input salt rounds).
Proof. exact des_Encrypt_safe. Qed.

Theorem C05_des_Key_safe :
  forall pw : bytes, SafeDes.Key_chk pw = Some (DesCrypt.Key pw).
Proof. exact des_Key_safe. Qed.

Theorem C05_des_DecodeInt_safe :
  forall b : bytes,
  Forall is_byte (firstn 4 b) ->
  DecodeInt_chk m_hashutil_hash_decode b = Some (DecodeInt m_hashutil_hash_decode b).
Proof. exact des_DecodeInt_safe. Qed.

Theorem C05_desext_key_safe :
  forall pw : bytes,
  ext_key_chk m_des_ie3264 m_des_cf6464 m_des_spe m_des_pcxRot m_des_ksMask pw =
  Some (ext_key m_des_ie3264 m_des_cf6464 m_des_spe m_des_pcxRot m_des_ksMask pw).
Proof. exact desext_key_safe. Qed.

Theorem C05_des_derive_safe :
  forall pw salt : bytes,
  Forall is_byte (firstn 4 salt) ->
  des_derive_chk m_des_ie3264 m_des_cf6464 m_des_spe m_des_pcxRot m_des_ksMask m_hashutil_hash_decode pw
  salt =
  Some
  (des_derive m_des_ie3264 m_des_cf6464 m_des_spe m_des_pcxRot m_des_ksMask m_hashutil_hash_decode pw
  salt).
Proof. exact des_derive_safe. Qed.

Theorem C05_desext_derive_safe :
  forall (pw salt : bytes) (rounds : Z),
  Forall is_byte (firstn 4 salt) ->
  desext_derive_chk m_des_ie3264 m_des_cf6464 m_des_spe m_des_pcxRot m_des_ksMask m_hashutil_hash_decode
  pw salt rounds =
  Some
  (desext_derive m_des_ie3264 m_des_cf6464 m_des_spe m_des_pcxRot m_des_ksMask m_hashutil_hash_decode
  pw salt rounds).
Proof. exact desext_derive_safe. Qed.

Theorem C05_des_EncodeInt_safe :
  forall v : Z, EncodeInt_chk v = Some (EncodeInt v).
Proof. exact des_EncodeInt_safe. Qed.

Theorem C05_sunmd5_round_safe :
  forall (H : bytes -> bytes) (digest : bytes) (i : Z),
  length digest = 16%nat ->
  round_chk H m_sunmd5_phrase digest i = Some (round H m_sunmd5_phrase digest i).
Proof. exact sunmd5_round_safe. Qed.

Theorem C05_sunmd5_Key_safe :
  forall H : bytes -> bytes,
  (forall x : bytes, length (H x) = 16%nat) ->
  forall (pw saltString : bytes) (nrounds : Z),
  exists k : bytes,
  Key_chk H m_sunmd5_phrase m_sunmd5_permFinal pw saltString nrounds m_sunmd5_BasicRounds = Some k /\
  Key H m_sunmd5_phrase m_sunmd5_permFinal pw saltString nrounds m_sunmd5_BasicRounds = Some k /\
  length k = 16%nat.
Proof. exact sunmd5_Key_safe. Qed.

Theorem C05_bcrypt_derive_total :
  forall (C : Type) (bf_new : bytes -> bytes -> option C) (bf_expand : bytes -> C -> C)
  (bf_encrypt : C -> bytes -> bytes) (alphabet : bytes),
  (forall (c : C) (b : bytes), length (bf_encrypt c b) = length b) ->
  forall (key salt22 : bytes) (cost : Z),
  bf_new key (Encoders.be64_decode alphabet salt22) = None /\
  derive C bf_new bf_expand bf_encrypt alphabet key salt22 cost = None \/
  (exists (c0 : C) (k : bytes),
  bf_new key (Encoders.be64_decode alphabet salt22) = Some c0 /\
  derive C bf_new bf_expand bf_encrypt alphabet key salt22 cost = Some k /\
  derive_buf_chk C bf_new bf_expand bf_encrypt alphabet key salt22 cost = Some k /\ length k = 23%nat).
Proof. exact bcrypt_derive_total. Qed.

Theorem C05_pw_rewrite_chk_ok :
  forall (is2b : bool) (pw : bytes),
  pw_rewrite_chk is2b pw =
  Some (if is2b && (72 <? lenZ pw) then firstn 72 pw else if 254 <=? lenZ pw then repeat 48 72 else pw).
Proof. exact pw_rewrite_chk_ok. Qed.

Theorem C05_runes_fuel :
  forall (s : list Z) (k : nat), runes (length s) s = runes (length s + k) s.
Proof. exact runes_fuel. Qed.

Theorem C05_encodePassword_length_even :
  forall s : bytes, Nat.Even (length (encodePassword s)).
Proof. exact encodePassword_length_even. Qed.

Theorem C05_encodePassword_length_le2 :
  forall s : bytes, (length (encodePassword s) <= 2 * length s)%nat.
Proof. exact encodePassword_length_le2. Qed.

Theorem C05_decode_rune_width :
  forall (s : bytes) (r : Z) (n : nat),
  decode_rune s = (r, n) ->
  (n <= length s)%nat /\ (n <= 4)%nat /\ (s <> [] -> (1 <= n)%nat) /\ (65536 <= r -> n = 4%nat).
Proof. exact decode_rune_width. Qed.

(* Argon2 (argon2crypto.Key): with every access to the block matrix a CHECKED operation (None outside the matrix, where
   the Go code would panic with "index out of range"), the derivation succeeds and equals the unchecked model -- for
   every variant, version, password, salt, time cost, key length, every lane count 1..255 and every memory cost below
   2^32 (rounding to a multiple of 4 x lanes and the minimum of 8 x lanes included): the two initial blocks of each
   lane, the block written, the previous block, the reference block picked by indexAlpha from ANY 64-bit word
   (data-dependent or data-independent addressing), and the last block of each lane in the final XOR. *)
Theorem C05_argon2_never_out_of_range : forall B2 mode version pw salt time memory threads keyLen,
  1 <= threads <= 255 -> 0 <= memory < 2 ^ 32 ->
  SafeArgon2.Key_chk B2 mode version pw salt time memory threads keyLen
  = Some (Argon2.Key B2 mode version pw salt time memory threads keyLen).
Proof. exact SafeArgon2.Key_never_out_of_range. Qed.

(* the reference index is a function of the low 64 bits of the pseudo-random word only, and always inside the matrix *)
Theorem C05_argon2_reference_in_memory : forall rand lanes segments threads n slice lane index,
  2 <= segments -> lanes = 4 * segments -> 1 <= threads <= 255 -> threads * lanes <= 2 ^ 32 - 1 ->
  0 <= n -> 0 <= slice < 4 -> 0 <= lane < threads -> 0 <= index < segments ->
  (n = 0 -> slice = 0 -> 2 <= index) ->
  0 <= Argon2.indexAlpha rand lanes segments threads n slice lane index < threads * lanes.
Proof. exact SafeArgon2.index_in_memory_any. Qed.

