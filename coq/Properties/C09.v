(* C09 — multi-lane Argon2 is schedule independent: lanes synchronise at every slice.  Statements only. *)
Require Import GC.Base.Bytes GC.Kdf.Argon2 GC.Kdf.Argon2Index GC.Kdf.Argon2Sched GC.Kdf.Argon2SchedProofs.

(* general: tasks whose steps neither write the same location nor read what another task writes can be
   interleaved arbitrarily: every interleaving yields the memory of the sequential order *)
Theorem C09_schedule_independent : forall tasks sigma m,
  tasks_local tasks -> tasks_indep tasks -> interleaving sigma tasks ->
  forall x, fold_left (fun m s => run s m) sigma m x = fold_left (fun m s => run s m) (concat tasks) m x.
Proof. exact schedule_independent. Qed.

(* Argon2: within one slice the per-lane tasks (one step per block, reading prev, the data-dependent reference
   and, for version 0x13, the block itself) satisfy those conditions — by the reference-set theorems of C04 —
   for every variant (data-dependent or independent addressing), lanes 1..255, any memory *)
Theorem C09_argon2_slice : forall G rnd lanes segments threads n slice,
  slice_params_ok lanes segments threads n slice -> rnd_ok rnd ->
  forall sigma m, interleaving sigma (slice_tasks G rnd lanes segments threads n slice) ->
  meq (runs sigma m) (runs (concat (slice_tasks G rnd lanes segments threads n slice)) m).
Proof. exact argon2_slice_schedule_independent. Qed.

(* no lane reads a block another lane may still be writing *)
Theorem C09_other_lane_safe : forall rand lanes segments threads n slice lane index,
  index_args_ok rand lanes segments threads n slice lane index ->
  let rl := refLane rand threads n slice lane in
  rl <> lane ->
  forall w, indexAlpha rand lanes segments threads n slice lane index = rl * lanes + w ->
    0 <= w < lanes /\
    (if n =? 0 then w < slice * segments else ~ (slice * segments <= w < (slice + 1) * segments)).
Proof. exact other_lane_safe. Qed.

(* the WaitGroup discipline (Add before go, Done last, Wait enabled at zero): when Wait returns every worker
   has executed its Done, and nothing runs afterwards *)
Theorem C09_joined : forall trace pre post,
  valid trace -> wait_returned trace pre post -> forall i, In (EvSpawn i) trace -> In (EvDone i) pre.
Proof. exact waitgroup_joined. Qed.
Theorem C09_quiescent : forall trace pre post, valid trace -> wait_returned trace pre post ->
  forall i, ~ In (EvWork i) post /\ ~ In (EvDone i) post /\ ~ In (EvSpawn i) post.
Proof. exact waitgroup_quiescent. Qed.
