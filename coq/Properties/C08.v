(* C08 — concurrent calls are race-free and return the same results as when run alone.  Statements only.
   Step model of the shared type cache (Codec/Conc.v): cache operations atomic, cached objects ordinary memory,
   executions = arbitrary schedules of any number of threads.  That sync.Map really provides the assumed
   atomicity/publication and that compiled code has no other shared write is supported by the generated
   package-variable scan (Tie_vars) and by the Go race detector, not proved (partial by nature). *)
Require Import GC.Base.Bytes GC.Codec.Types GC.Codec.TypeInfo GC.Codec.Cache GC.Codec.Conc GC.Codec.ConcProofs
               GC.Generated.Gen_vars GC.Tie.Tie_vars GC.Dispatch.Dispatch GC.Dispatch.DispatchProofs.

(* (i) for ANY number of threads, ANY calls and ANY schedule the current code never writes an object that other
   threads can reach: every cross-thread access to a cached object is a read ordered after its publication *)
Theorem C08_race_free : forall desc sched ths,
  (forall th, In th ths -> th_pc th = PStart /\ th_results th = []) ->
  race_free (c_log (fst (run desc false sched init_state ths))).
Proof. exact conc_race_free. Qed.

(* (ii) every completed call returned exactly what the same call returns alone on an empty cache *)
Theorem C08_results : forall desc ws sched calls,
  let '(s, ths') := run desc ws sched init_state (map init_thread calls) in
  Forall2 (fun th cs => th_results th = map (isolated desc) (firstn (length (th_results th)) cs)) ths' calls.
Proof. exact conc_results. Qed.

(* the repaired defect (D5) is exactly what the model distinguishes: with the write into the shared object a
   two-thread schedule produces a write to a published object *)
Theorem C08_pinned_refuted : exists desc sched ths,
  ~ race_free (c_log (fst (run desc true sched init_state ths))).
Proof. exact conc_pinned_refuted. Qed.

(* (iii) registration concurrent with Check: the registry is a map with atomic Store/Load; any interleaving of
   registrations with a Check is a history of C07, whose routing theorem covers every history *)
Theorem C08_registry_linearizable : forall (H V : Type) (run : H -> bytes -> bytes -> V) hist h pw,
  check H V run (fold_left (register H) hist []) h pw =
  match prefix_of h with
  | None => (ErrHash, [])
  | Some p => match last_registered H hist p with
              | None => (ErrHash, [])
              | Some f => (Ret (run f h pw), [(f, h, pw)])
              end
  end.
Proof. exact route. Qed.

(* package-level state is written only by declarations and init functions (scan of the current source) *)
Theorem C08_no_late_writes :
  forallb (fun v => let '(_, _, w, _) := v in Nat.eqb w 0) package_vars = true /\
  forallb (fun v => let '(p, n, _, a) := v in Nat.eqb a 0 || (bytes_eqb p s_sunmd5 && bytes_eqb n s_separator)) package_vars = true.
Proof. exact (conj tie_no_late_writes tie_address_taken). Qed.
