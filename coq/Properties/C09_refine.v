(* C09 / C04 — refinement of the literal Argon2 model (Kdf/Argon2.v: list memory, segment_loop with uint32 offsets and address
   blocks, lanes processed one after the other) to the step model of Kdf/Argon2Sched.v, so that schedule independence is a statement
   about Argon2.processBlocks and Argon2.Key themselves: EVERY execution that interleaves the per-lane block steps arbitrarily within
   each slice and runs the slices in order yields exactly the memory of processBlocks (all three variants incl. the Argon2id switch,
   both versions, lanes 1..255, any memory and time), hence the same key.  abs B is the list memory read as a function of the block
   address; model_G the block function; model_rnd the pseudo-random word (first word of the previous block, or the address-block word
   for data-independent addressing).  Statements only, generated from the lemmas' types. *)
Require Import GC.Base.Bytes GC.Kdf.Argon2 GC.Kdf.Argon2Index GC.Kdf.Argon2Sched GC.Kdf.Argon2SchedProofs GC.Kdf.Argon2Refine GC.Kdf.Argon2RefineAll.

Theorem C09_indexAlpha_u64 :
  forall rand lanes segments threads n slice lane index : Z,
  indexAlpha (u64 rand) lanes segments threads n slice lane index =
  indexAlpha rand lanes segments threads n slice lane index.
Proof. exact indexAlpha_u64. Qed.

Theorem C09_segment_refines :
  forall mode version time memory lanes segments threads n slice : Z,
  slice_params_ok lanes segments threads n slice ->
  forall (B : Argon2.mem) (lane : Z),
  0 <= lane < threads ->
  threads * lanes <= Z.of_nat (length B) ->
  length (processSegment B mode version time memory lanes segments threads n slice lane) = length B /\
  meq (abs (processSegment B mode version time memory lanes segments threads n slice lane))
  (runs
  (lane_task (model_G version) (model_rnd mode time memory n slice) lanes segments threads n slice
  lane) (abs B)).
Proof. exact segment_refines. Qed.

Theorem C09_slice_refines :
  forall mode version time memory lanes segments threads n slice : Z,
  slice_params_ok lanes segments threads n slice ->
  forall B : Argon2.mem,
  threads * lanes <= Z.of_nat (length B) ->
  length (process_slice B mode version time memory lanes segments threads n slice) = length B /\
  meq (abs (process_slice B mode version time memory lanes segments threads n slice))
  (runs
  (concat
  (slice_tasks (model_G version) (model_rnd mode time memory n slice) lanes segments threads n
  slice)) (abs B)).
Proof. exact slice_refines. Qed.

Theorem C09_slice_any_schedule :
  forall mode version time memory lanes segments threads n slice : Z,
  slice_params_ok lanes segments threads n slice ->
  forall (B : Argon2.mem) (sigma : list step),
  threads * lanes <= Z.of_nat (length B) ->
  interleaving sigma
  (slice_tasks (model_G version) (model_rnd mode time memory n slice) lanes segments threads n slice) ->
  meq (runs sigma (abs B))
  (abs (process_slice B mode version time memory lanes segments threads n slice)).
Proof. exact slice_any_schedule. Qed.

Theorem C09_slice_any_schedule_getb :
  forall mode version time memory lanes segments threads n slice : Z,
  slice_params_ok lanes segments threads n slice ->
  forall (B : Argon2.mem) (sigma : list step) (x : Z),
  threads * lanes <= Z.of_nat (length B) ->
  interleaving sigma
  (slice_tasks (model_G version) (model_rnd mode time memory n slice) lanes segments threads n slice) ->
  0 <= x ->
  runs sigma (abs B) x =
  getb (process_slice B mode version time memory lanes segments threads n slice) x.
Proof. exact slice_any_schedule_getb. Qed.

Theorem C09_processBlocks_any_schedule :
  forall (mode version time memory lanes segments threads : Z) (B : Argon2.mem) (sigma : list step),
  lanes = memory / threads ->
  segments = lanes / 4 ->
  mem_params_ok lanes segments threads ->
  threads * lanes <= Z.of_nat (length B) ->
  sliced_schedule mode version time memory lanes segments threads (pass_slices time) sigma ->
  length (processBlocks B time memory threads mode version) = length B /\
  meq (runs sigma (abs B)) (abs (processBlocks B time memory threads mode version)).
Proof. exact processBlocks_any_schedule. Qed.

Theorem C09_processBlocks_any_schedule' :
  forall (mode version time memory threads q : Z) (B : Argon2.mem) (sigma : list step),
  1 <= threads <= 255 ->
  2 <= q ->
  memory = threads * (4 * q) ->
  memory <= 2 ^ 32 - 1 ->
  memory <= Z.of_nat (length B) ->
  sliced_schedule mode version time memory (memory / threads) (memory / threads / 4) threads
  (pass_slices time) sigma ->
  length (processBlocks B time memory threads mode version) = length B /\
  meq (runs sigma (abs B)) (abs (processBlocks B time memory threads mode version)).
Proof. exact processBlocks_any_schedule'. Qed.

Theorem C09_key_memory_shape :
  forall memory threads : Z,
  1 <= threads <= 255 ->
  0 <= memory < 2 ^ 32 ->
  exists q : Z,
  2 <= q /\ key_memory memory threads = threads * (4 * q) /\ key_memory memory threads <= 2 ^ 32 - 1.
Proof. exact key_memory_shape. Qed.

Theorem C09_key_any_schedule :
  forall (B2 : Z -> bytes -> bytes) (mode version : Z) (pw salt : bytes)
  (time memory threads keyLen : Z) (sigma : list step),
  1 <= threads <= 255 ->
  0 <= memory < 2 ^ 32 ->
  let m2 := key_memory memory threads in
  let B := initBlocks B2 (initHash B2 pw salt time memory threads keyLen mode version) m2 threads in
  sliced_schedule mode version time m2 (m2 / threads) (m2 / threads / 4) threads
  (pass_slices time) sigma ->
  meq (runs sigma (abs B)) (abs (processBlocks B time m2 threads mode version)) /\
  Key B2 mode version pw salt time memory threads keyLen =
  extractKey B2 (processBlocks B time m2 threads mode version) m2 threads keyLen.
Proof. exact key_any_schedule. Qed.

