(* C02, second sentence — for a hash made from password p, a change to the digest, a password whose derived key differs,
   or a salt / cost change whose derived key differs from the stored digest yields the mismatch sentinel (or an error)
   and never success.  Statements only, generated from the lemmas' types; all ten schemes.
   X_digest_tamper        : the canonical string with ANY digest text over the digest alphabet of the fixed length verifies only
                            if that text IS the re-encoded key;
   X_digest_any / X_digest_change_fresh : the same for ANY bytes of the digest's length (a changed digest never verifies);
   X_digest_tamper_fresh  : for a fresh hash, every other digest text gives exactly the mismatch sentinel;
   X_wrong_password(_never): another password verifies only if its derived key re-encodes to the same digest — that the
                            derivation separates two particular passwords is an explicit hypothesis (it is not a mathematical
                            fact about MD5/SHA/DES/Blowfish: DES weak keys do collide);
   X_salt_cost_tamper     : another well-formed salt / cost whose derived key differs from the stored digest never verifies.
   The length hypothesis on the digest text is necessary: one bare trailing '$' is a tolerated respelling (C20), so
   digest ++ "$" verifies. *)
Require Import GC.Base.Bytes GC.Codec.Strconv GC.Codec.Codec GC.Schemes.Keys GC.Schemes.Checks GC.Schemes.NewHash GC.Schemes.Consts GC.Schemes.Encoders GC.Schemes.RandModel GC.Schemes.Recognisers GC.Schemes.RecogCases GC.Schemes.FreshBase GC.Schemes.FreshPlain GC.Schemes.FreshOther GC.Schemes.TamperPlain GC.Schemes.TamperOther GC.Schemes.TamperAny.

Theorem C02_md5_digest_tamper :
  forall (kdf : Z -> list bytes -> list Z -> option (list Z)) (pw salt sum' : bytes),
  (forall (bs : list bytes) (ns k : list Z), kdf T_md5 bs ns = Some k -> length k = 16%nat) ->
  over crypt_alphabet salt ->
  over crypt_alphabet sum' ->
  length sum' = 22%nat ->
  check_md5 L0 kdf (canon_md5 salt sum') pw = VMatch ->
  exists key : bytes, key_md5 L0 kdf pw salt = KOk key /\ le64 key = sum'.
Proof. exact md5_digest_tamper. Qed.

Theorem C02_md5_salt_cost_tamper :
  forall (kdf : Z -> list bytes -> list Z -> option (list Z)) (pw salt' d : bytes),
  (forall (bs : list bytes) (ns k : list Z), kdf T_md5 bs ns = Some k -> length k = 16%nat) ->
  over crypt_alphabet salt' ->
  over crypt_alphabet d ->
  length d = 22%nat ->
  ((forall key' : bytes, key_md5 L0 kdf pw salt' = KOk key' -> le64 key' <> d) ->
  check_md5 L0 kdf (canon_md5 salt' d) pw <> VMatch) /\
  (forall key' : bytes,
  key_md5 L0 kdf pw salt' = KOk key' ->
  le64 key' <> d -> check_md5 L0 kdf (canon_md5 salt' d) pw = VMismatch).
Proof. exact md5_salt_cost_tamper. Qed.

Theorem C02_md5_digest_tamper_fresh :
  forall (kdf : kdf_t) (stream pw : bytes),
  kdf_ok kdf T_md5 16 ->
  good_stream stream 8 ->
  forall h : bytes,
  newhash_md5 L0 kdf stream pw = NOk h ->
  exists key : bytes,
  key_md5 L0 kdf pw (salt_hash 8 stream) = KOk key /\
  h = canon_md5 (salt_hash 8 stream) (le64 key) /\
  (forall sum' : bytes,
  over crypt_alphabet sum' ->
  length sum' = 22%nat ->
  sum' <> le64 key -> check_md5 L0 kdf (canon_md5 (salt_hash 8 stream) sum') pw = VMismatch).
Proof. exact md5_digest_tamper_fresh. Qed.

Theorem C02_md5_wrong_password_never :
  forall (kdf : kdf_t) (stream pw : bytes),
  kdf_ok kdf T_md5 16 ->
  good_stream stream 8 ->
  forall h pw' : bytes,
  newhash_md5 L0 kdf stream pw = NOk h ->
  exists key : bytes,
  key_md5 L0 kdf pw (salt_hash 8 stream) = KOk key /\
  (check_md5 L0 kdf h pw' = VMatch ->
  exists key' : bytes, key_md5 L0 kdf pw' (salt_hash 8 stream) = KOk key' /\ le64 key' = le64 key).
Proof. exact md5_wrong_password_never. Qed.

Theorem C02_md5_wrong_password :
  forall (kdf : kdf_t) (stream pw : bytes),
  kdf_ok kdf T_md5 16 ->
  good_stream stream 8 ->
  forall h pw' key key' : bytes,
  newhash_md5 L0 kdf stream pw = NOk h ->
  key_md5 L0 kdf pw (salt_hash 8 stream) = KOk key ->
  key_md5 L0 kdf pw' (salt_hash 8 stream) = KOk key' ->
  le64 key' <> le64 key -> check_md5 L0 kdf h pw' = VMismatch.
Proof. exact md5_wrong_password. Qed.

Theorem C02_sha256_digest_tamper :
  forall (kdf : Z -> list bytes -> list Z -> option (list Z)) (pw : bytes) (rounds : Z)
  (salt sum' : bytes),
  (forall (bs : list bytes) (ns k : list Z), kdf T_sha256 bs ns = Some k -> length k = 32%nat) ->
  0 < rounds < 2 ^ 32 ->
  over crypt_alphabet salt ->
  over crypt_alphabet sum' ->
  length sum' = 43%nat ->
  check_sha256 L0 kdf (canon_sha256 rounds salt sum') pw = VMatch ->
  exists key : bytes, key_sha256 L0 kdf pw salt rounds = KOk key /\ le64 key = sum'.
Proof. exact sha256_digest_tamper. Qed.

Theorem C02_sha256_salt_cost_tamper :
  forall (kdf : Z -> list bytes -> list Z -> option (list Z)) (pw : bytes) (rounds' : Z)
  (salt' d : bytes),
  (forall (bs : list bytes) (ns k : list Z), kdf T_sha256 bs ns = Some k -> length k = 32%nat) ->
  0 < rounds' < 2 ^ 32 ->
  over crypt_alphabet salt' ->
  over crypt_alphabet d ->
  length d = 43%nat ->
  ((forall key' : bytes, key_sha256 L0 kdf pw salt' rounds' = KOk key' -> le64 key' <> d) ->
  check_sha256 L0 kdf (canon_sha256 rounds' salt' d) pw <> VMatch) /\
  (forall key' : bytes,
  key_sha256 L0 kdf pw salt' rounds' = KOk key' ->
  le64 key' <> d -> check_sha256 L0 kdf (canon_sha256 rounds' salt' d) pw = VMismatch).
Proof. exact sha256_salt_cost_tamper. Qed.

Theorem C02_sha256_digest_tamper_fresh :
  forall (kdf : kdf_t) (stream pw : bytes) (rounds : Z),
  kdf_ok kdf T_sha256 32 ->
  good_stream stream 16 ->
  L_sha256_MinRounds L0 <= rounds <= L_sha256_MaxRounds L0 ->
  forall h : bytes,
  newhash_sha256 L0 kdf stream pw rounds = NOk h ->
  exists key : bytes,
  key_sha256 L0 kdf pw (salt_hash 16 stream) rounds = KOk key /\
  h = canon_sha256 rounds (salt_hash 16 stream) (le64 key) /\
  (forall sum' : bytes,
  over crypt_alphabet sum' ->
  length sum' = 43%nat ->
  sum' <> le64 key ->
  check_sha256 L0 kdf (canon_sha256 rounds (salt_hash 16 stream) sum') pw = VMismatch).
Proof. exact sha256_digest_tamper_fresh. Qed.

Theorem C02_sha256_wrong_password_never :
  forall (kdf : kdf_t) (stream pw : bytes) (rounds : Z),
  kdf_ok kdf T_sha256 32 ->
  good_stream stream 16 ->
  L_sha256_MinRounds L0 <= rounds <= L_sha256_MaxRounds L0 ->
  forall h pw' : bytes,
  newhash_sha256 L0 kdf stream pw rounds = NOk h ->
  exists key : bytes,
  key_sha256 L0 kdf pw (salt_hash 16 stream) rounds = KOk key /\
  (check_sha256 L0 kdf h pw' = VMatch ->
  exists key' : bytes,
  key_sha256 L0 kdf pw' (salt_hash 16 stream) rounds = KOk key' /\ le64 key' = le64 key).
Proof. exact sha256_wrong_password_never. Qed.

Theorem C02_sha256_wrong_password :
  forall (kdf : kdf_t) (stream pw : bytes) (rounds : Z),
  kdf_ok kdf T_sha256 32 ->
  good_stream stream 16 ->
  L_sha256_MinRounds L0 <= rounds <= L_sha256_MaxRounds L0 ->
  forall h pw' key key' : bytes,
  newhash_sha256 L0 kdf stream pw rounds = NOk h ->
  key_sha256 L0 kdf pw (salt_hash 16 stream) rounds = KOk key ->
  key_sha256 L0 kdf pw' (salt_hash 16 stream) rounds = KOk key' ->
  le64 key' <> le64 key -> check_sha256 L0 kdf h pw' = VMismatch.
Proof. exact sha256_wrong_password. Qed.

Theorem C02_sha512_digest_tamper :
  forall (kdf : Z -> list bytes -> list Z -> option (list Z)) (pw : bytes) (rounds : Z)
  (salt sum' : bytes),
  (forall (bs : list bytes) (ns k : list Z), kdf T_sha512 bs ns = Some k -> length k = 64%nat) ->
  0 < rounds < 2 ^ 32 ->
  over crypt_alphabet salt ->
  over crypt_alphabet sum' ->
  length sum' = 86%nat ->
  check_sha512 L0 kdf (canon_sha512 rounds salt sum') pw = VMatch ->
  exists key : bytes, key_sha512 L0 kdf pw salt rounds = KOk key /\ le64 key = sum'.
Proof. exact sha512_digest_tamper. Qed.

Theorem C02_sha512_salt_cost_tamper :
  forall (kdf : Z -> list bytes -> list Z -> option (list Z)) (pw : bytes) (rounds' : Z)
  (salt' d : bytes),
  (forall (bs : list bytes) (ns k : list Z), kdf T_sha512 bs ns = Some k -> length k = 64%nat) ->
  0 < rounds' < 2 ^ 32 ->
  over crypt_alphabet salt' ->
  over crypt_alphabet d ->
  length d = 86%nat ->
  ((forall key' : bytes, key_sha512 L0 kdf pw salt' rounds' = KOk key' -> le64 key' <> d) ->
  check_sha512 L0 kdf (canon_sha512 rounds' salt' d) pw <> VMatch) /\
  (forall key' : bytes,
  key_sha512 L0 kdf pw salt' rounds' = KOk key' ->
  le64 key' <> d -> check_sha512 L0 kdf (canon_sha512 rounds' salt' d) pw = VMismatch).
Proof. exact sha512_salt_cost_tamper. Qed.

Theorem C02_sha512_digest_tamper_fresh :
  forall (kdf : kdf_t) (stream pw : bytes) (rounds : Z),
  kdf_ok kdf T_sha512 64 ->
  good_stream stream 16 ->
  L_sha512_MinRounds L0 <= rounds <= L_sha512_MaxRounds L0 ->
  forall h : bytes,
  newhash_sha512 L0 kdf stream pw rounds = NOk h ->
  exists key : bytes,
  key_sha512 L0 kdf pw (salt_hash 16 stream) rounds = KOk key /\
  h = canon_sha512 rounds (salt_hash 16 stream) (le64 key) /\
  (forall sum' : bytes,
  over crypt_alphabet sum' ->
  length sum' = 86%nat ->
  sum' <> le64 key ->
  check_sha512 L0 kdf (canon_sha512 rounds (salt_hash 16 stream) sum') pw = VMismatch).
Proof. exact sha512_digest_tamper_fresh. Qed.

Theorem C02_sha512_wrong_password_never :
  forall (kdf : kdf_t) (stream pw : bytes) (rounds : Z),
  kdf_ok kdf T_sha512 64 ->
  good_stream stream 16 ->
  L_sha512_MinRounds L0 <= rounds <= L_sha512_MaxRounds L0 ->
  forall h pw' : bytes,
  newhash_sha512 L0 kdf stream pw rounds = NOk h ->
  exists key : bytes,
  key_sha512 L0 kdf pw (salt_hash 16 stream) rounds = KOk key /\
  (check_sha512 L0 kdf h pw' = VMatch ->
  exists key' : bytes,
  key_sha512 L0 kdf pw' (salt_hash 16 stream) rounds = KOk key' /\ le64 key' = le64 key).
Proof. exact sha512_wrong_password_never. Qed.

Theorem C02_sha512_wrong_password :
  forall (kdf : kdf_t) (stream pw : bytes) (rounds : Z),
  kdf_ok kdf T_sha512 64 ->
  good_stream stream 16 ->
  L_sha512_MinRounds L0 <= rounds <= L_sha512_MaxRounds L0 ->
  forall h pw' key key' : bytes,
  newhash_sha512 L0 kdf stream pw rounds = NOk h ->
  key_sha512 L0 kdf pw (salt_hash 16 stream) rounds = KOk key ->
  key_sha512 L0 kdf pw' (salt_hash 16 stream) rounds = KOk key' ->
  le64 key' <> le64 key -> check_sha512 L0 kdf h pw' = VMismatch.
Proof. exact sha512_wrong_password. Qed.

Theorem C02_sha1_digest_tamper :
  forall (kdf : Z -> list bytes -> list Z -> option (list Z)) (rr : Z) (pw : bytes) 
  (rounds : Z) (salt sum' : bytes),
  (forall (bs : list bytes) (ns k : list Z), kdf T_sha1 bs ns = Some k -> length k = 21%nat) ->
  0 <= rounds < 2 ^ 32 ->
  over crypt_alphabet salt ->
  over crypt_alphabet sum' ->
  length sum' = 28%nat ->
  check_sha1 L0 kdf rr (canon_sha1 rounds salt sum') pw = VMatch ->
  exists key : bytes, key_sha1 L0 kdf rr pw salt rounds = KOk key /\ le64 key = sum'.
Proof. exact sha1_digest_tamper. Qed.

Theorem C02_sha1_salt_cost_tamper :
  forall (kdf : Z -> list bytes -> list Z -> option (list Z)) (rr : Z) (pw : bytes) 
  (rounds' : Z) (salt' d : bytes),
  (forall (bs : list bytes) (ns k : list Z), kdf T_sha1 bs ns = Some k -> length k = 21%nat) ->
  0 <= rounds' < 2 ^ 32 ->
  over crypt_alphabet salt' ->
  over crypt_alphabet d ->
  length d = 28%nat ->
  ((forall key' : bytes, key_sha1 L0 kdf rr pw salt' rounds' = KOk key' -> le64 key' <> d) ->
  check_sha1 L0 kdf rr (canon_sha1 rounds' salt' d) pw <> VMatch) /\
  (forall key' : bytes,
  key_sha1 L0 kdf rr pw salt' rounds' = KOk key' ->
  le64 key' <> d -> check_sha1 L0 kdf rr (canon_sha1 rounds' salt' d) pw = VMismatch).
Proof. exact sha1_salt_cost_tamper. Qed.

Theorem C02_sha1_digest_tamper_fresh :
  forall (kdf : kdf_t) (stream pw : bytes) (rounds : Z),
  kdf_ok kdf T_sha1 21 ->
  good_stream stream 8 ->
  L_sha1_MinRounds L0 <= rounds < 2 ^ 32 ->
  rounds <> L_sha1_RandomRounds L0 ->
  forall h : bytes,
  newhash_sha1 L0 kdf stream pw rounds = NOk h ->
  exists key : bytes,
  (forall rr : Z, key_sha1 L0 kdf rr pw (salt_hash 8 stream) rounds = KOk key) /\
  h = canon_sha1 rounds (salt_hash 8 stream) (le64 key) /\
  (forall (rr : Z) (sum' : bytes),
  over crypt_alphabet sum' ->
  length sum' = 28%nat ->
  sum' <> le64 key ->
  check_sha1 L0 kdf rr (canon_sha1 rounds (salt_hash 8 stream) sum') pw = VMismatch).
Proof. exact sha1_digest_tamper_fresh. Qed.

Theorem C02_sha1_wrong_password_never :
  forall (kdf : kdf_t) (stream pw : bytes) (rounds : Z),
  kdf_ok kdf T_sha1 21 ->
  good_stream stream 8 ->
  L_sha1_MinRounds L0 <= rounds < 2 ^ 32 ->
  rounds <> L_sha1_RandomRounds L0 ->
  forall (h : bytes) (rr : Z) (pw' : bytes),
  newhash_sha1 L0 kdf stream pw rounds = NOk h ->
  exists key : bytes,
  (forall rr0 : Z, key_sha1 L0 kdf rr0 pw (salt_hash 8 stream) rounds = KOk key) /\
  (check_sha1 L0 kdf rr h pw' = VMatch ->
  exists key' : bytes,
  key_sha1 L0 kdf rr pw' (salt_hash 8 stream) rounds = KOk key' /\ le64 key' = le64 key).
Proof. exact sha1_wrong_password_never. Qed.

Theorem C02_sha1_wrong_password :
  forall (kdf : kdf_t) (stream pw : bytes) (rounds : Z),
  kdf_ok kdf T_sha1 21 ->
  good_stream stream 8 ->
  L_sha1_MinRounds L0 <= rounds < 2 ^ 32 ->
  rounds <> L_sha1_RandomRounds L0 ->
  forall (h : bytes) (rr : Z) (pw' key key' : bytes),
  newhash_sha1 L0 kdf stream pw rounds = NOk h ->
  key_sha1 L0 kdf rr pw (salt_hash 8 stream) rounds = KOk key ->
  key_sha1 L0 kdf rr pw' (salt_hash 8 stream) rounds = KOk key' ->
  le64 key' <> le64 key -> check_sha1 L0 kdf rr h pw' = VMismatch.
Proof. exact sha1_wrong_password. Qed.

Theorem C02_sha1_random_digest_tamper_fresh :
  forall (kdf : kdf_t) (stream pw : bytes),
  kdf_ok kdf T_sha1 21 ->
  good_stream stream 12 ->
  forall h : bytes,
  newhash_sha1 L0 kdf stream pw (L_sha1_RandomRounds L0) = NOk h ->
  exists key : bytes,
  (forall rr : Z,
  key_sha1 L0 kdf rr pw (salt_hash 8 (snd (rand_rounds m_sha1_randomHint stream)))
  (fst (rand_rounds m_sha1_randomHint stream)) = KOk key) /\
  h =
  canon_sha1 (fst (rand_rounds m_sha1_randomHint stream))
  (salt_hash 8 (snd (rand_rounds m_sha1_randomHint stream))) (le64 key) /\
  (forall (rr : Z) (sum' : bytes),
  over crypt_alphabet sum' ->
  length sum' = 28%nat ->
  sum' <> le64 key ->
  check_sha1 L0 kdf rr
  (canon_sha1 (fst (rand_rounds m_sha1_randomHint stream))
  (salt_hash 8 (snd (rand_rounds m_sha1_randomHint stream))) sum') pw = VMismatch).
Proof. exact sha1_random_digest_tamper_fresh. Qed.

Theorem C02_sha1_random_wrong_password_never :
  forall (kdf : kdf_t) (stream pw : bytes),
  kdf_ok kdf T_sha1 21 ->
  good_stream stream 12 ->
  forall (h : bytes) (rr : Z) (pw' : bytes),
  newhash_sha1 L0 kdf stream pw (L_sha1_RandomRounds L0) = NOk h ->
  exists key : bytes,
  (forall rr0 : Z,
  key_sha1 L0 kdf rr0 pw (salt_hash 8 (snd (rand_rounds m_sha1_randomHint stream)))
  (fst (rand_rounds m_sha1_randomHint stream)) = KOk key) /\
  (check_sha1 L0 kdf rr h pw' = VMatch ->
  exists key' : bytes,
  key_sha1 L0 kdf rr pw' (salt_hash 8 (snd (rand_rounds m_sha1_randomHint stream)))
  (fst (rand_rounds m_sha1_randomHint stream)) = KOk key' /\ le64 key' = le64 key).
Proof. exact sha1_random_wrong_password_never. Qed.

Theorem C02_sha1_random_wrong_password :
  forall (kdf : kdf_t) (stream pw : bytes),
  kdf_ok kdf T_sha1 21 ->
  good_stream stream 12 ->
  forall (h : bytes) (rr : Z) (pw' key key' : bytes),
  newhash_sha1 L0 kdf stream pw (L_sha1_RandomRounds L0) = NOk h ->
  key_sha1 L0 kdf rr pw (salt_hash 8 (snd (rand_rounds m_sha1_randomHint stream)))
  (fst (rand_rounds m_sha1_randomHint stream)) = KOk key ->
  key_sha1 L0 kdf rr pw' (salt_hash 8 (snd (rand_rounds m_sha1_randomHint stream)))
  (fst (rand_rounds m_sha1_randomHint stream)) = KOk key' ->
  le64 key' <> le64 key -> check_sha1 L0 kdf rr h pw' = VMismatch.
Proof. exact sha1_random_wrong_password. Qed.

Theorem C02_des_digest_tamper :
  forall (kdf : Z -> list bytes -> list Z -> option (list Z)) (pw : bytes) (salt : list Z)
  (sum' : bytes),
  (forall (bs : list bytes) (ns k : list Z), kdf T_des bs ns = Some k -> length k = 8%nat) ->
  length salt = 2%nat ->
  over crypt_alphabet salt ->
  over crypt_alphabet sum' ->
  length sum' = 11%nat ->
  check_des L0 kdf (canon_des salt sum') pw = VMatch ->
  exists key : bytes, key_des L0 kdf pw salt = KOk key /\ be64 key = sum'.
Proof. exact des_digest_tamper. Qed.

Theorem C02_des_salt_cost_tamper :
  forall (kdf : Z -> list bytes -> list Z -> option (list Z)) (pw : bytes) (salt' : list Z) (d : bytes),
  (forall (bs : list bytes) (ns k : list Z), kdf T_des bs ns = Some k -> length k = 8%nat) ->
  length salt' = 2%nat ->
  over crypt_alphabet salt' ->
  over crypt_alphabet d ->
  length d = 11%nat ->
  ((forall key' : bytes, key_des L0 kdf pw salt' = KOk key' -> be64 key' <> d) ->
  check_des L0 kdf (canon_des salt' d) pw <> VMatch) /\
  (forall key' : bytes,
  key_des L0 kdf pw salt' = KOk key' ->
  be64 key' <> d -> check_des L0 kdf (canon_des salt' d) pw = VMismatch).
Proof. exact des_salt_cost_tamper. Qed.

Theorem C02_des_digest_tamper_fresh :
  forall (kdf : kdf_t) (stream pw : bytes),
  kdf_ok kdf T_des 8 ->
  good_stream stream 2 ->
  len pw <= L_des_MaxPw L0 ->
  forall h : bytes,
  newhash_des L0 kdf stream pw = NOk h ->
  exists key : bytes,
  key_des L0 kdf pw (salt_hash 2 stream) = KOk key /\
  h = canon_des (salt_hash 2 stream) (be64 key) /\
  (forall sum' : bytes,
  over crypt_alphabet sum' ->
  length sum' = 11%nat ->
  sum' <> be64 key -> check_des L0 kdf (canon_des (salt_hash 2 stream) sum') pw = VMismatch).
Proof. exact des_digest_tamper_fresh. Qed.

Theorem C02_des_wrong_password_never :
  forall (kdf : kdf_t) (stream pw : bytes),
  kdf_ok kdf T_des 8 ->
  good_stream stream 2 ->
  len pw <= L_des_MaxPw L0 ->
  forall h pw' : bytes,
  newhash_des L0 kdf stream pw = NOk h ->
  exists key : bytes,
  key_des L0 kdf pw (salt_hash 2 stream) = KOk key /\
  (check_des L0 kdf h pw' = VMatch ->
  exists key' : bytes, key_des L0 kdf pw' (salt_hash 2 stream) = KOk key' /\ be64 key' = be64 key).
Proof. exact des_wrong_password_never. Qed.

Theorem C02_des_wrong_password :
  forall (kdf : kdf_t) (stream pw : bytes),
  kdf_ok kdf T_des 8 ->
  good_stream stream 2 ->
  len pw <= L_des_MaxPw L0 ->
  forall h pw' key key' : bytes,
  newhash_des L0 kdf stream pw = NOk h ->
  key_des L0 kdf pw (salt_hash 2 stream) = KOk key ->
  key_des L0 kdf pw' (salt_hash 2 stream) = KOk key' ->
  be64 key' <> be64 key -> check_des L0 kdf h pw' = VMismatch.
Proof. exact des_wrong_password. Qed.

Theorem C02_desext_digest_tamper :
  forall (kdf : Z -> list bytes -> list Z -> option (list Z)) (pw : bytes) (rounds : Z) 
  (salt : list Z) (sum' : bytes),
  (forall (bs : list bytes) (ns k : list Z), kdf T_desext bs ns = Some k -> length k = 8%nat) ->
  0 <= rounds < 2 ^ 24 ->
  length salt = 4%nat ->
  over crypt_alphabet salt ->
  over crypt_alphabet sum' ->
  length sum' = 11%nat ->
  check_desext L0 kdf (canon_desext rounds salt sum') pw = VMatch ->
  exists key : bytes, key_desext L0 kdf pw salt rounds = KOk key /\ be64 key = sum'.
Proof. exact desext_digest_tamper. Qed.

Theorem C02_desext_salt_cost_tamper :
  forall (kdf : Z -> list bytes -> list Z -> option (list Z)) (pw : bytes) (rounds' : Z)
  (salt' : list Z) (d : bytes),
  (forall (bs : list bytes) (ns k : list Z), kdf T_desext bs ns = Some k -> length k = 8%nat) ->
  0 <= rounds' < 2 ^ 24 ->
  length salt' = 4%nat ->
  over crypt_alphabet salt' ->
  over crypt_alphabet d ->
  length d = 11%nat ->
  ((forall key' : bytes, key_desext L0 kdf pw salt' rounds' = KOk key' -> be64 key' <> d) ->
  check_desext L0 kdf (canon_desext rounds' salt' d) pw <> VMatch) /\
  (forall key' : bytes,
  key_desext L0 kdf pw salt' rounds' = KOk key' ->
  be64 key' <> d -> check_desext L0 kdf (canon_desext rounds' salt' d) pw = VMismatch).
Proof. exact desext_salt_cost_tamper. Qed.

Theorem C02_desext_digest_tamper_fresh :
  forall (kdf : kdf_t) (stream pw : bytes) (rounds : Z),
  kdf_ok kdf T_desext 8 ->
  good_stream stream 4 ->
  L_desext_MinRounds L0 <= rounds <= L_desext_MaxRounds L0 ->
  forall h : bytes,
  newhash_desext L0 kdf stream pw rounds = NOk h ->
  exists key : bytes,
  key_desext L0 kdf pw (salt_hash 4 stream) rounds = KOk key /\
  h = canon_desext rounds (salt_hash 4 stream) (be64 key) /\
  (forall sum' : bytes,
  over crypt_alphabet sum' ->
  length sum' = 11%nat ->
  sum' <> be64 key ->
  check_desext L0 kdf (canon_desext rounds (salt_hash 4 stream) sum') pw = VMismatch).
Proof. exact desext_digest_tamper_fresh. Qed.

Theorem C02_desext_wrong_password_never :
  forall (kdf : kdf_t) (stream pw : bytes) (rounds : Z),
  kdf_ok kdf T_desext 8 ->
  good_stream stream 4 ->
  L_desext_MinRounds L0 <= rounds <= L_desext_MaxRounds L0 ->
  forall h pw' : bytes,
  newhash_desext L0 kdf stream pw rounds = NOk h ->
  exists key : bytes,
  key_desext L0 kdf pw (salt_hash 4 stream) rounds = KOk key /\
  (check_desext L0 kdf h pw' = VMatch ->
  exists key' : bytes,
  key_desext L0 kdf pw' (salt_hash 4 stream) rounds = KOk key' /\ be64 key' = be64 key).
Proof. exact desext_wrong_password_never. Qed.

Theorem C02_desext_wrong_password :
  forall (kdf : kdf_t) (stream pw : bytes) (rounds : Z),
  kdf_ok kdf T_desext 8 ->
  good_stream stream 4 ->
  L_desext_MinRounds L0 <= rounds <= L_desext_MaxRounds L0 ->
  forall h pw' key key' : bytes,
  newhash_desext L0 kdf stream pw rounds = NOk h ->
  key_desext L0 kdf pw (salt_hash 4 stream) rounds = KOk key ->
  key_desext L0 kdf pw' (salt_hash 4 stream) rounds = KOk key' ->
  be64 key' <> be64 key -> check_desext L0 kdf h pw' = VMismatch.
Proof. exact desext_wrong_password. Qed.

Theorem C02_nthash_digest_tamper :
  forall (kdf : Z -> list bytes -> list Z -> option (list Z)) (nt : bytes -> bytes) (pw sum' : bytes),
  (forall (bs : list bytes) (ns k : list Z), kdf T_nthash bs ns = Some k -> length k = 16%nat) ->
  over hex_alphabet sum' ->
  length sum' = 32%nat ->
  check_nthash L0 kdf nt (canon_nthash sum') pw = VMatch ->
  exists key : bytes, key_nthash L0 kdf (nt pw) = KOk key /\ hex_encode key = sum'.
Proof. exact nthash_digest_tamper. Qed.

Theorem C02_nthash_digest_tamper_fresh :
  forall (kdf : kdf_t) (nt : bytes -> bytes) (pw : bytes),
  kdf_ok kdf T_nthash 16 ->
  len (nt pw) mod 2 = 0 ->
  len (nt pw) <= L_nthash_MaxPw L0 ->
  forall h : bytes,
  newhash_nthash L0 kdf nt pw = NOk h ->
  exists key : bytes,
  key_nthash L0 kdf (nt pw) = KOk key /\
  h = canon_nthash (hex_encode key) /\
  (forall sum' : bytes,
  over hex_alphabet sum' ->
  length sum' = 32%nat ->
  sum' <> hex_encode key -> check_nthash L0 kdf nt (canon_nthash sum') pw = VMismatch).
Proof. exact nthash_digest_tamper_fresh. Qed.

Theorem C02_nthash_wrong_password_never :
  forall (kdf : kdf_t) (nt : bytes -> bytes) (pw : bytes),
  kdf_ok kdf T_nthash 16 ->
  len (nt pw) mod 2 = 0 ->
  len (nt pw) <= L_nthash_MaxPw L0 ->
  forall h pw' : bytes,
  newhash_nthash L0 kdf nt pw = NOk h ->
  exists key : bytes,
  key_nthash L0 kdf (nt pw) = KOk key /\
  (check_nthash L0 kdf nt h pw' = VMatch ->
  exists key' : bytes, key_nthash L0 kdf (nt pw') = KOk key' /\ hex_encode key' = hex_encode key).
Proof. exact nthash_wrong_password_never. Qed.

Theorem C02_nthash_wrong_password :
  forall (kdf : kdf_t) (nt : bytes -> bytes) (pw : bytes),
  kdf_ok kdf T_nthash 16 ->
  len (nt pw) mod 2 = 0 ->
  len (nt pw) <= L_nthash_MaxPw L0 ->
  forall h pw' key key' : bytes,
  newhash_nthash L0 kdf nt pw = NOk h ->
  key_nthash L0 kdf (nt pw) = KOk key ->
  key_nthash L0 kdf (nt pw') = KOk key' ->
  hex_encode key' <> hex_encode key -> check_nthash L0 kdf nt h pw' = VMismatch.
Proof. exact nthash_wrong_password. Qed.

Theorem C02_bcrypt_digest_tamper :
  forall (kdf : Z -> list bytes -> list Z -> option (list Z)) (pw : bytes) (cost : Z) 
  (salt : list Z) (sum' : bytes),
  (forall (bs : list bytes) (ns k : list Z), kdf T_bcrypt bs ns = Some k -> length k = 23%nat) ->
  4 <= cost <= 31 ->
  length salt = 22%nat ->
  over bcrypt_std_alphabet salt ->
  over bcrypt_std_alphabet sum' ->
  length sum' = 31%nat ->
  check_bcrypt L0 kdf (canon_bcrypt cost salt sum') pw = VMatch ->
  exists key : bytes,
  key_bcrypt L0 kdf pw salt cost (Some m_bcrypt_Prefix2b) = KOk key /\
  be64_encode bcrypt_std_alphabet key = sum'.
Proof. exact bcrypt_digest_tamper. Qed.

Theorem C02_bcrypt_salt_cost_tamper :
  forall (kdf : Z -> list bytes -> list Z -> option (list Z)) (pw : bytes) (cost' : Z) 
  (salt' : list Z) (d : bytes),
  (forall (bs : list bytes) (ns k : list Z), kdf T_bcrypt bs ns = Some k -> length k = 23%nat) ->
  4 <= cost' <= 31 ->
  length salt' = 22%nat ->
  over bcrypt_std_alphabet salt' ->
  over bcrypt_std_alphabet d ->
  length d = 31%nat ->
  ((forall key' : bytes,
  key_bcrypt L0 kdf pw salt' cost' (Some m_bcrypt_Prefix2b) = KOk key' ->
  be64_encode bcrypt_std_alphabet key' <> d) ->
  check_bcrypt L0 kdf (canon_bcrypt cost' salt' d) pw <> VMatch) /\
  (forall key' : bytes,
  key_bcrypt L0 kdf pw salt' cost' (Some m_bcrypt_Prefix2b) = KOk key' ->
  be64_encode bcrypt_std_alphabet key' <> d ->
  check_bcrypt L0 kdf (canon_bcrypt cost' salt' d) pw = VMismatch).
Proof. exact bcrypt_salt_cost_tamper. Qed.

Theorem C02_bcrypt_digest_tamper_fresh :
  forall (kdf : kdf_t) (stream pw : bytes) (cost : Z),
  kdf_ok kdf T_bcrypt 23 ->
  good_stream stream 16 ->
  L_bcrypt_MinCost L0 <= cost <= L_bcrypt_MaxCost L0 ->
  forall h : bytes,
  newhash_bcrypt L0 kdf stream pw cost = NOk h ->
  exists key : bytes,
  key_bcrypt L0 kdf pw (be64_encode bcrypt_std_alphabet (firstn 16 stream)) cost
  (Some m_bcrypt_Prefix2b) = KOk key /\
  h =
  canon_bcrypt cost (be64_encode bcrypt_std_alphabet (firstn 16 stream))
  (be64_encode bcrypt_std_alphabet key) /\
  (forall sum' : bytes,
  over bcrypt_std_alphabet sum' ->
  length sum' = 31%nat ->
  sum' <> be64_encode bcrypt_std_alphabet key ->
  check_bcrypt L0 kdf (canon_bcrypt cost (be64_encode bcrypt_std_alphabet (firstn 16 stream)) sum')
  pw = VMismatch).
Proof. exact bcrypt_digest_tamper_fresh. Qed.

Theorem C02_bcrypt_wrong_password_never :
  forall (kdf : kdf_t) (stream pw : bytes) (cost : Z),
  kdf_ok kdf T_bcrypt 23 ->
  good_stream stream 16 ->
  L_bcrypt_MinCost L0 <= cost <= L_bcrypt_MaxCost L0 ->
  forall h pw' : bytes,
  newhash_bcrypt L0 kdf stream pw cost = NOk h ->
  exists key : bytes,
  key_bcrypt L0 kdf pw (be64_encode bcrypt_std_alphabet (firstn 16 stream)) cost
  (Some m_bcrypt_Prefix2b) = KOk key /\
  (check_bcrypt L0 kdf h pw' = VMatch ->
  exists key' : bytes,
  key_bcrypt L0 kdf pw' (be64_encode bcrypt_std_alphabet (firstn 16 stream)) cost
  (Some m_bcrypt_Prefix2b) = KOk key' /\
  be64_encode bcrypt_std_alphabet key' = be64_encode bcrypt_std_alphabet key).
Proof. exact bcrypt_wrong_password_never. Qed.

Theorem C02_bcrypt_wrong_password :
  forall (kdf : kdf_t) (stream pw : bytes) (cost : Z),
  kdf_ok kdf T_bcrypt 23 ->
  good_stream stream 16 ->
  L_bcrypt_MinCost L0 <= cost <= L_bcrypt_MaxCost L0 ->
  forall h pw' key key' : bytes,
  newhash_bcrypt L0 kdf stream pw cost = NOk h ->
  key_bcrypt L0 kdf pw (be64_encode bcrypt_std_alphabet (firstn 16 stream)) cost
  (Some m_bcrypt_Prefix2b) = KOk key ->
  key_bcrypt L0 kdf pw' (be64_encode bcrypt_std_alphabet (firstn 16 stream)) cost
  (Some m_bcrypt_Prefix2b) = KOk key' ->
  be64_encode bcrypt_std_alphabet key' <> be64_encode bcrypt_std_alphabet key ->
  check_bcrypt L0 kdf h pw' = VMismatch.
Proof. exact bcrypt_wrong_password. Qed.

Theorem C02_sunmd5_digest_tamper :
  forall (kdf : Z -> list bytes -> list Z -> option (list Z)) (pw : bytes) (rounds : Z)
  (salt sum' : bytes),
  (forall (bs : list bytes) (ns k : list Z), kdf T_sunmd5 bs ns = Some k -> length k = 16%nat) ->
  0 <= rounds < 2 ^ 32 ->
  over crypt_alphabet salt ->
  over crypt_alphabet sum' ->
  length sum' = 22%nat ->
  check_sunmd5 L0 kdf (canon_sunmd5 rounds salt sum') pw = VMatch ->
  exists key : bytes,
  key_sunmd5 L0 kdf pw salt rounds (Some (sunmd5_prefix_for rounds, rounds =? 0)) = KOk key /\
  le64 key = sum'.
Proof. exact sunmd5_digest_tamper. Qed.

Theorem C02_sunmd5_salt_cost_tamper :
  forall (kdf : Z -> list bytes -> list Z -> option (list Z)) (pw : bytes) (rounds' : Z)
  (salt' d : bytes),
  (forall (bs : list bytes) (ns k : list Z), kdf T_sunmd5 bs ns = Some k -> length k = 16%nat) ->
  0 <= rounds' < 2 ^ 32 ->
  over crypt_alphabet salt' ->
  over crypt_alphabet d ->
  length d = 22%nat ->
  ((forall key' : bytes,
  key_sunmd5 L0 kdf pw salt' rounds' (Some (sunmd5_prefix_for rounds', rounds' =? 0)) = KOk key' ->
  le64 key' <> d) -> check_sunmd5 L0 kdf (canon_sunmd5 rounds' salt' d) pw <> VMatch) /\
  (forall key' : bytes,
  key_sunmd5 L0 kdf pw salt' rounds' (Some (sunmd5_prefix_for rounds', rounds' =? 0)) = KOk key' ->
  le64 key' <> d -> check_sunmd5 L0 kdf (canon_sunmd5 rounds' salt' d) pw = VMismatch).
Proof. exact sunmd5_salt_cost_tamper. Qed.

Theorem C02_sunmd5_digest_tamper_fresh :
  forall (kdf : kdf_t) (stream pw : bytes) (rounds : Z),
  kdf_ok kdf T_sunmd5 16 ->
  good_stream stream 8 ->
  len pw <= L_sunmd5_MaxPw L0 ->
  0 <= rounds <= L_sunmd5_MaxRounds L0 ->
  forall h : bytes,
  newhash_sunmd5 L0 kdf stream pw rounds = NOk h ->
  exists key : bytes,
  key_sunmd5 L0 kdf pw (salt_hash 8 stream) rounds (Some (sunmd5_prefix_for rounds, rounds =? 0)) =
  KOk key /\
  h = canon_sunmd5 rounds (salt_hash 8 stream) (le64 key) /\
  (forall sum' : bytes,
  over crypt_alphabet sum' ->
  length sum' = 22%nat ->
  sum' <> le64 key ->
  check_sunmd5 L0 kdf (canon_sunmd5 rounds (salt_hash 8 stream) sum') pw = VMismatch).
Proof. exact sunmd5_digest_tamper_fresh. Qed.

Theorem C02_sunmd5_wrong_password_never :
  forall (kdf : kdf_t) (stream pw : bytes) (rounds : Z),
  kdf_ok kdf T_sunmd5 16 ->
  good_stream stream 8 ->
  len pw <= L_sunmd5_MaxPw L0 ->
  0 <= rounds <= L_sunmd5_MaxRounds L0 ->
  forall h pw' : bytes,
  newhash_sunmd5 L0 kdf stream pw rounds = NOk h ->
  exists key : bytes,
  key_sunmd5 L0 kdf pw (salt_hash 8 stream) rounds (Some (sunmd5_prefix_for rounds, rounds =? 0)) =
  KOk key /\
  (check_sunmd5 L0 kdf h pw' = VMatch ->
  exists key' : bytes,
  key_sunmd5 L0 kdf pw' (salt_hash 8 stream) rounds (Some (sunmd5_prefix_for rounds, rounds =? 0)) =
  KOk key' /\ le64 key' = le64 key).
Proof. exact sunmd5_wrong_password_never. Qed.

Theorem C02_sunmd5_wrong_password :
  forall (kdf : kdf_t) (stream pw : bytes) (rounds : Z),
  kdf_ok kdf T_sunmd5 16 ->
  good_stream stream 8 ->
  len pw <= L_sunmd5_MaxPw L0 ->
  0 <= rounds <= L_sunmd5_MaxRounds L0 ->
  forall h pw' key key' : bytes,
  newhash_sunmd5 L0 kdf stream pw rounds = NOk h ->
  key_sunmd5 L0 kdf pw (salt_hash 8 stream) rounds (Some (sunmd5_prefix_for rounds, rounds =? 0)) =
  KOk key ->
  key_sunmd5 L0 kdf pw' (salt_hash 8 stream) rounds (Some (sunmd5_prefix_for rounds, rounds =? 0)) =
  KOk key' -> le64 key' <> le64 key -> check_sunmd5 L0 kdf h pw' = VMismatch.
Proof. exact sunmd5_wrong_password. Qed.

Theorem C02_argon2_digest_tamper :
  forall (kdf : kdf_t) (pw : bytes) (memory time : Z) (salt sum' : bytes),
  0 <= memory < 2 ^ 32 ->
  0 <= time < 2 ^ 32 ->
  over base64_std_alphabet salt ->
  over base64_std_alphabet sum' ->
  sum' <> [] ->
  check_argon2 L0 kdf (canon_argon2 memory time salt sum') pw = VMatch ->
  exists key : bytes,
  key_argon2 L0 kdf pw salt memory time m_argon2_DefaultThreads
  (Some (m_argon2_Prefix2id, m_argon2_Version13)) = KOk key /\
  be64_encode base64_std_alphabet key = sum'.
Proof. exact argon2_digest_tamper. Qed.

Theorem C02_argon2_salt_cost_tamper :
  forall (kdf : kdf_t) (pw : bytes) (memory' time' : Z) (salt' d : bytes),
  0 <= memory' < 2 ^ 32 ->
  0 <= time' < 2 ^ 32 ->
  over base64_std_alphabet salt' ->
  over base64_std_alphabet d ->
  d <> [] ->
  ((forall key' : bytes,
  key_argon2 L0 kdf pw salt' memory' time' m_argon2_DefaultThreads
  (Some (m_argon2_Prefix2id, m_argon2_Version13)) = KOk key' ->
  be64_encode base64_std_alphabet key' <> d) ->
  check_argon2 L0 kdf (canon_argon2 memory' time' salt' d) pw <> VMatch) /\
  (forall key' : bytes,
  key_argon2 L0 kdf pw salt' memory' time' m_argon2_DefaultThreads
  (Some (m_argon2_Prefix2id, m_argon2_Version13)) = KOk key' ->
  be64_encode base64_std_alphabet key' <> d ->
  check_argon2 L0 kdf (canon_argon2 memory' time' salt' d) pw = VMismatch).
Proof. exact argon2_salt_cost_tamper. Qed.

Theorem C02_argon2_digest_tamper_fresh :
  forall (kdf : kdf_t) (stream pw : bytes) (memory time : Z),
  kdf_ok kdf T_argon2 32 ->
  good_stream stream 8 ->
  L_argon2_MinMemory L0 <= memory < 2 ^ 32 ->
  L_argon2_MinTime L0 <= time < 2 ^ 32 ->
  forall h : bytes,
  newhash_argon2 L0 kdf stream pw memory time = NOk h ->
  exists key : bytes,
  key_argon2 L0 kdf pw (be64_encode base64_std_alphabet (firstn 8 stream)) memory time
  m_argon2_DefaultThreads (Some (m_argon2_Prefix2id, m_argon2_Version13)) =
  KOk key /\
  h =
  canon_argon2 memory time (be64_encode base64_std_alphabet (firstn 8 stream))
  (be64_encode base64_std_alphabet key) /\
  (forall sum' : bytes,
  over base64_std_alphabet sum' ->
  sum' <> [] ->
  sum' <> be64_encode base64_std_alphabet key ->
  check_argon2 L0 kdf
  (canon_argon2 memory time (be64_encode base64_std_alphabet (firstn 8 stream)) sum') pw =
  VMismatch).
Proof. exact argon2_digest_tamper_fresh. Qed.

Theorem C02_argon2_wrong_password_never :
  forall (kdf : kdf_t) (stream pw : bytes) (memory time : Z),
  kdf_ok kdf T_argon2 32 ->
  good_stream stream 8 ->
  L_argon2_MinMemory L0 <= memory < 2 ^ 32 ->
  L_argon2_MinTime L0 <= time < 2 ^ 32 ->
  forall h pw' : bytes,
  newhash_argon2 L0 kdf stream pw memory time = NOk h ->
  exists key : bytes,
  key_argon2 L0 kdf pw (be64_encode base64_std_alphabet (firstn 8 stream)) memory time
  m_argon2_DefaultThreads (Some (m_argon2_Prefix2id, m_argon2_Version13)) =
  KOk key /\
  (check_argon2 L0 kdf h pw' = VMatch ->
  exists key' : bytes,
  key_argon2 L0 kdf pw' (be64_encode base64_std_alphabet (firstn 8 stream)) memory time
  m_argon2_DefaultThreads (Some (m_argon2_Prefix2id, m_argon2_Version13)) =
  KOk key' /\ be64_encode base64_std_alphabet key' = be64_encode base64_std_alphabet key).
Proof. exact argon2_wrong_password_never. Qed.

Theorem C02_argon2_wrong_password :
  forall (kdf : kdf_t) (stream pw : bytes) (memory time : Z),
  kdf_ok kdf T_argon2 32 ->
  good_stream stream 8 ->
  L_argon2_MinMemory L0 <= memory < 2 ^ 32 ->
  L_argon2_MinTime L0 <= time < 2 ^ 32 ->
  forall h pw' key key' : bytes,
  newhash_argon2 L0 kdf stream pw memory time = NOk h ->
  key_argon2 L0 kdf pw (be64_encode base64_std_alphabet (firstn 8 stream)) memory time
  m_argon2_DefaultThreads (Some (m_argon2_Prefix2id, m_argon2_Version13)) =
  KOk key ->
  key_argon2 L0 kdf pw' (be64_encode base64_std_alphabet (firstn 8 stream)) memory time
  m_argon2_DefaultThreads (Some (m_argon2_Prefix2id, m_argon2_Version13)) =
  KOk key' ->
  be64_encode base64_std_alphabet key' <> be64_encode base64_std_alphabet key ->
  check_argon2 L0 kdf h pw' = VMismatch.
Proof. exact argon2_wrong_password. Qed.

Theorem C02_md5_digest_any :
  forall (kdf : Z -> list bytes -> list Z -> option (list Z)) (pw salt : bytes) (sum' : list Z),
  (forall (bs : list bytes) (ns k : list Z), kdf T_md5 bs ns = Some k -> length k = 16%nat) ->
  over crypt_alphabet salt ->
  length sum' = 22%nat ->
  check_md5 L0 kdf (canon_md5 salt sum') pw = VMatch ->
  over crypt_alphabet sum' /\ (exists key : bytes, key_md5 L0 kdf pw salt = KOk key /\ le64 key = sum').
Proof. exact md5_digest_any. Qed.

Theorem C02_md5_digest_change_fresh :
  forall (kdf : kdf_t) (stream pw : bytes),
  kdf_ok kdf T_md5 16 ->
  good_stream stream 8 ->
  forall h : bytes,
  newhash_md5 L0 kdf stream pw = NOk h ->
  exists key : bytes,
  key_md5 L0 kdf pw (salt_hash 8 stream) = KOk key /\
  h = canon_md5 (salt_hash 8 stream) (le64 key) /\
  (forall sum' : list Z,
  length sum' = 22%nat ->
  sum' <> le64 key -> check_md5 L0 kdf (canon_md5 (salt_hash 8 stream) sum') pw <> VMatch).
Proof. exact md5_digest_change_fresh. Qed.

Theorem C02_sha256_digest_any :
  forall (kdf : Z -> list bytes -> list Z -> option (list Z)) (pw : bytes) (rounds : Z) 
  (salt : bytes) (sum' : list Z),
  (forall (bs : list bytes) (ns k : list Z), kdf T_sha256 bs ns = Some k -> length k = 32%nat) ->
  0 < rounds < 2 ^ 32 ->
  over crypt_alphabet salt ->
  length sum' = 43%nat ->
  check_sha256 L0 kdf (canon_sha256 rounds salt sum') pw = VMatch ->
  over crypt_alphabet sum' /\
  (exists key : bytes, key_sha256 L0 kdf pw salt rounds = KOk key /\ le64 key = sum').
Proof. exact sha256_digest_any. Qed.

Theorem C02_sha512_digest_any :
  forall (kdf : Z -> list bytes -> list Z -> option (list Z)) (pw : bytes) (rounds : Z) 
  (salt : bytes) (sum' : list Z),
  (forall (bs : list bytes) (ns k : list Z), kdf T_sha512 bs ns = Some k -> length k = 64%nat) ->
  0 < rounds < 2 ^ 32 ->
  over crypt_alphabet salt ->
  length sum' = 86%nat ->
  check_sha512 L0 kdf (canon_sha512 rounds salt sum') pw = VMatch ->
  over crypt_alphabet sum' /\
  (exists key : bytes, key_sha512 L0 kdf pw salt rounds = KOk key /\ le64 key = sum').
Proof. exact sha512_digest_any. Qed.

Theorem C02_sha256_digest_change_fresh :
  forall (kdf : kdf_t) (stream pw : bytes) (rounds : Z),
  kdf_ok kdf T_sha256 32 ->
  good_stream stream 16 ->
  L_sha256_MinRounds L0 <= rounds <= L_sha256_MaxRounds L0 ->
  forall h : bytes,
  newhash_sha256 L0 kdf stream pw rounds = NOk h ->
  exists key : bytes,
  key_sha256 L0 kdf pw (salt_hash 16 stream) rounds = KOk key /\
  h = canon_sha256 rounds (salt_hash 16 stream) (le64 key) /\
  (forall sum' : list Z,
  length sum' = 43%nat ->
  sum' <> le64 key ->
  check_sha256 L0 kdf (canon_sha256 rounds (salt_hash 16 stream) sum') pw <> VMatch).
Proof. exact sha256_digest_change_fresh. Qed.

Theorem C02_sha512_digest_change_fresh :
  forall (kdf : kdf_t) (stream pw : bytes) (rounds : Z),
  kdf_ok kdf T_sha512 64 ->
  good_stream stream 16 ->
  L_sha512_MinRounds L0 <= rounds <= L_sha512_MaxRounds L0 ->
  forall h : bytes,
  newhash_sha512 L0 kdf stream pw rounds = NOk h ->
  exists key : bytes,
  key_sha512 L0 kdf pw (salt_hash 16 stream) rounds = KOk key /\
  h = canon_sha512 rounds (salt_hash 16 stream) (le64 key) /\
  (forall sum' : list Z,
  length sum' = 86%nat ->
  sum' <> le64 key ->
  check_sha512 L0 kdf (canon_sha512 rounds (salt_hash 16 stream) sum') pw <> VMatch).
Proof. exact sha512_digest_change_fresh. Qed.

Theorem C02_sha1_digest_any :
  forall (kdf : Z -> list bytes -> list Z -> option (list Z)) (rr : Z) (pw : bytes) 
  (rounds : Z) (salt : bytes) (sum' : list Z),
  (forall (bs : list bytes) (ns k : list Z), kdf T_sha1 bs ns = Some k -> length k = 21%nat) ->
  0 <= rounds < 2 ^ 32 ->
  over crypt_alphabet salt ->
  length sum' = 28%nat ->
  check_sha1 L0 kdf rr (canon_sha1 rounds salt sum') pw = VMatch ->
  over crypt_alphabet sum' /\
  (exists key : bytes, key_sha1 L0 kdf rr pw salt rounds = KOk key /\ le64 key = sum').
Proof. exact sha1_digest_any. Qed.

Theorem C02_sha1_digest_change_fresh :
  forall (kdf : kdf_t) (stream pw : bytes) (rounds : Z),
  kdf_ok kdf T_sha1 21 ->
  good_stream stream 8 ->
  L_sha1_MinRounds L0 <= rounds < 2 ^ 32 ->
  rounds <> L_sha1_RandomRounds L0 ->
  forall h : bytes,
  newhash_sha1 L0 kdf stream pw rounds = NOk h ->
  exists key : bytes,
  (forall rr : Z, key_sha1 L0 kdf rr pw (salt_hash 8 stream) rounds = KOk key) /\
  h = canon_sha1 rounds (salt_hash 8 stream) (le64 key) /\
  (forall (rr : Z) (sum' : list Z),
  length sum' = 28%nat ->
  sum' <> le64 key -> check_sha1 L0 kdf rr (canon_sha1 rounds (salt_hash 8 stream) sum') pw <> VMatch).
Proof. exact sha1_digest_change_fresh. Qed.

Theorem C02_sha1_random_digest_change_fresh :
  forall (kdf : kdf_t) (stream pw : bytes),
  kdf_ok kdf T_sha1 21 ->
  good_stream stream 12 ->
  forall h : bytes,
  newhash_sha1 L0 kdf stream pw (L_sha1_RandomRounds L0) = NOk h ->
  let drawn := fst (rand_rounds m_sha1_randomHint stream) in
  let rest := snd (rand_rounds m_sha1_randomHint stream) in
  exists key : bytes,
  (forall rr : Z, key_sha1 L0 kdf rr pw (salt_hash 8 rest) drawn = KOk key) /\
  h = canon_sha1 drawn (salt_hash 8 rest) (le64 key) /\
  (forall (rr : Z) (sum' : list Z),
  length sum' = 28%nat ->
  sum' <> le64 key -> check_sha1 L0 kdf rr (canon_sha1 drawn (salt_hash 8 rest) sum') pw <> VMatch).
Proof. exact sha1_random_digest_change_fresh. Qed.

Theorem C02_nthash_digest_any :
  forall (kdf : Z -> list bytes -> list Z -> option (list Z)) (nt : bytes -> bytes) 
  (pw : bytes) (sum' : list Z),
  (forall (bs : list bytes) (ns k : list Z), kdf T_nthash bs ns = Some k -> length k = 16%nat) ->
  length sum' = 32%nat ->
  check_nthash L0 kdf nt (canon_nthash sum') pw = VMatch ->
  exists key : bytes, key_nthash L0 kdf (nt pw) = KOk key /\ hex_encode key = sum'.
Proof. exact nthash_digest_any. Qed.

Theorem C02_nthash_digest_change_fresh :
  forall (kdf : kdf_t) (nt : bytes -> bytes) (pw : bytes),
  kdf_ok kdf T_nthash 16 ->
  len (nt pw) mod 2 = 0 ->
  len (nt pw) <= L_nthash_MaxPw L0 ->
  forall h : bytes,
  newhash_nthash L0 kdf nt pw = NOk h ->
  exists key : bytes,
  key_nthash L0 kdf (nt pw) = KOk key /\
  h = canon_nthash (hex_encode key) /\
  (forall sum' : list Z,
  length sum' = 32%nat ->
  sum' <> hex_encode key -> check_nthash L0 kdf nt (canon_nthash sum') pw <> VMatch).
Proof. exact nthash_digest_change_fresh. Qed.

Theorem C02_des_digest_any :
  forall (kdf : Z -> list bytes -> list Z -> option (list Z)) (pw : bytes) (salt sum' : list Z),
  (forall (bs : list bytes) (ns k : list Z), kdf T_des bs ns = Some k -> length k = 8%nat) ->
  length salt = 2%nat ->
  over crypt_alphabet salt ->
  length sum' = 11%nat ->
  check_des L0 kdf (canon_des salt sum') pw = VMatch ->
  over crypt_alphabet sum' /\ (exists key : bytes, key_des L0 kdf pw salt = KOk key /\ be64 key = sum').
Proof. exact des_digest_any. Qed.

Theorem C02_des_digest_change_fresh :
  forall (kdf : kdf_t) (stream pw : bytes),
  kdf_ok kdf T_des 8 ->
  good_stream stream 2 ->
  len pw <= L_des_MaxPw L0 ->
  forall h : bytes,
  newhash_des L0 kdf stream pw = NOk h ->
  exists key : bytes,
  key_des L0 kdf pw (salt_hash 2 stream) = KOk key /\
  h = canon_des (salt_hash 2 stream) (be64 key) /\
  (forall sum' : list Z,
  length sum' = 11%nat ->
  sum' <> be64 key -> check_des L0 kdf (canon_des (salt_hash 2 stream) sum') pw <> VMatch).
Proof. exact des_digest_change_fresh. Qed.

Theorem C02_desext_digest_any :
  forall (kdf : Z -> list bytes -> list Z -> option (list Z)) (pw : bytes) (rounds : Z)
  (salt sum' : list Z),
  (forall (bs : list bytes) (ns k : list Z), kdf T_desext bs ns = Some k -> length k = 8%nat) ->
  0 <= rounds < 2 ^ 24 ->
  length salt = 4%nat ->
  over crypt_alphabet salt ->
  length sum' = 11%nat ->
  check_desext L0 kdf (canon_desext rounds salt sum') pw = VMatch ->
  over crypt_alphabet sum' /\
  (exists key : bytes, key_desext L0 kdf pw salt rounds = KOk key /\ be64 key = sum').
Proof. exact desext_digest_any. Qed.

Theorem C02_desext_digest_change_fresh :
  forall (kdf : kdf_t) (stream pw : bytes) (rounds : Z),
  kdf_ok kdf T_desext 8 ->
  good_stream stream 4 ->
  L_desext_MinRounds L0 <= rounds <= L_desext_MaxRounds L0 ->
  forall h : bytes,
  newhash_desext L0 kdf stream pw rounds = NOk h ->
  exists key : bytes,
  key_desext L0 kdf pw (salt_hash 4 stream) rounds = KOk key /\
  h = canon_desext rounds (salt_hash 4 stream) (be64 key) /\
  (forall sum' : list Z,
  length sum' = 11%nat ->
  sum' <> be64 key ->
  check_desext L0 kdf (canon_desext rounds (salt_hash 4 stream) sum') pw <> VMatch).
Proof. exact desext_digest_change_fresh. Qed.

Theorem C02_bcrypt_digest_any :
  forall (kdf : Z -> list bytes -> list Z -> option (list Z)) (pw : bytes) (cost : Z)
  (salt sum' : list Z),
  (forall (bs : list bytes) (ns k : list Z), kdf T_bcrypt bs ns = Some k -> length k = 23%nat) ->
  4 <= cost <= 31 ->
  length salt = 22%nat ->
  over bcrypt_std_alphabet salt ->
  length sum' = 31%nat ->
  check_bcrypt L0 kdf (canon_bcrypt cost salt sum') pw = VMatch ->
  over bcrypt_std_alphabet sum' /\
  (exists key : bytes,
  key_bcrypt L0 kdf pw salt cost (Some m_bcrypt_Prefix2b) = KOk key /\
  be64_encode bcrypt_std_alphabet key = sum').
Proof. exact bcrypt_digest_any. Qed.

Theorem C02_bcrypt_digest_change_fresh :
  forall (kdf : kdf_t) (stream pw : bytes) (cost : Z),
  kdf_ok kdf T_bcrypt 23 ->
  good_stream stream 16 ->
  L_bcrypt_MinCost L0 <= cost <= L_bcrypt_MaxCost L0 ->
  forall h : bytes,
  newhash_bcrypt L0 kdf stream pw cost = NOk h ->
  exists key : bytes,
  key_bcrypt L0 kdf pw (be64_encode bcrypt_std_alphabet (firstn 16 stream)) cost
  (Some m_bcrypt_Prefix2b) = KOk key /\
  h =
  canon_bcrypt cost (be64_encode bcrypt_std_alphabet (firstn 16 stream))
  (be64_encode bcrypt_std_alphabet key) /\
  (forall sum' : list Z,
  length sum' = 31%nat ->
  sum' <> be64_encode bcrypt_std_alphabet key ->
  check_bcrypt L0 kdf (canon_bcrypt cost (be64_encode bcrypt_std_alphabet (firstn 16 stream)) sum')
  pw <> VMatch).
Proof. exact bcrypt_digest_change_fresh. Qed.

Theorem C02_sunmd5_digest_any :
  forall (kdf : Z -> list bytes -> list Z -> option (list Z)) (pw : bytes) (rounds : Z) 
  (salt : bytes) (sum' : list Z),
  (forall (bs : list bytes) (ns k : list Z), kdf T_sunmd5 bs ns = Some k -> length k = 16%nat) ->
  0 <= rounds < 2 ^ 32 ->
  over crypt_alphabet salt ->
  length sum' = 22%nat ->
  check_sunmd5 L0 kdf (canon_sunmd5 rounds salt sum') pw = VMatch ->
  over crypt_alphabet sum' /\
  (exists key : bytes,
  key_sunmd5 L0 kdf pw salt rounds (Some (sunmd5_prefix_for rounds, rounds =? 0)) = KOk key /\
  le64 key = sum').
Proof. exact sunmd5_digest_any. Qed.

Theorem C02_sunmd5_digest_change_fresh :
  forall (kdf : kdf_t) (stream pw : bytes) (rounds : Z),
  kdf_ok kdf T_sunmd5 16 ->
  good_stream stream 8 ->
  len pw <= L_sunmd5_MaxPw L0 ->
  0 <= rounds <= L_sunmd5_MaxRounds L0 ->
  forall h : bytes,
  newhash_sunmd5 L0 kdf stream pw rounds = NOk h ->
  exists key : bytes,
  key_sunmd5 L0 kdf pw (salt_hash 8 stream) rounds (Some (sunmd5_prefix_for rounds, rounds =? 0)) =
  KOk key /\
  h = canon_sunmd5 rounds (salt_hash 8 stream) (le64 key) /\
  (forall sum' : list Z,
  length sum' = 22%nat ->
  sum' <> le64 key ->
  check_sunmd5 L0 kdf (canon_sunmd5 rounds (salt_hash 8 stream) sum') pw <> VMatch).
Proof. exact sunmd5_digest_change_fresh. Qed.

Theorem C02_argon2_digest_any :
  forall (kdf : Z -> list bytes -> list Z -> option (list Z)) (pw : bytes) (memory time : Z)
  (salt : bytes) (sum' : list Z),
  (forall (bs : list bytes) (ns k : list Z), kdf T_argon2 bs ns = Some k -> length k = 32%nat) ->
  0 <= memory < 2 ^ 32 ->
  0 <= time < 2 ^ 32 ->
  over base64_std_alphabet salt ->
  length sum' = 43%nat ->
  check_argon2 L0 kdf (canon_argon2 memory time salt sum') pw = VMatch ->
  over base64_std_alphabet sum' /\
  (exists key : bytes,
  key_argon2 L0 kdf pw salt memory time m_argon2_DefaultThreads
  (Some (m_argon2_Prefix2id, m_argon2_Version13)) = KOk key /\
  be64_encode base64_std_alphabet key = sum').
Proof. exact argon2_digest_any. Qed.

Theorem C02_argon2_digest_change_fresh :
  forall (kdf : kdf_t) (stream pw : bytes) (memory time : Z),
  kdf_ok kdf T_argon2 32 ->
  good_stream stream 8 ->
  L_argon2_MinMemory L0 <= memory < 2 ^ 32 ->
  L_argon2_MinTime L0 <= time < 2 ^ 32 ->
  forall h : bytes,
  newhash_argon2 L0 kdf stream pw memory time = NOk h ->
  exists key : bytes,
  key_argon2 L0 kdf pw (be64_encode base64_std_alphabet (firstn 8 stream)) memory time
  m_argon2_DefaultThreads (Some (m_argon2_Prefix2id, m_argon2_Version13)) =
  KOk key /\
  h =
  canon_argon2 memory time (be64_encode base64_std_alphabet (firstn 8 stream))
  (be64_encode base64_std_alphabet key) /\
  length (be64_encode base64_std_alphabet key) = 43%nat /\
  (forall sum' : list Z,
  length sum' = 43%nat ->
  sum' <> be64_encode base64_std_alphabet key ->
  check_argon2 L0 kdf
  (canon_argon2 memory time (be64_encode base64_std_alphabet (firstn 8 stream)) sum') pw <> VMatch).
Proof. exact argon2_digest_change_fresh. Qed.

