(* C05 — no input makes an exported function panic or hang.  Statements only.
   The models are total Gallina functions (so "returns" is definitional once the fuelled state machines are
   shown never to run out of fuel: C11); a Go panic is an explicit outcome ([Panic], [VPanic], [PPanic], [None]
   of a checked slice expression) of the models, and the theorems show it is unreachable. *)
Require Import GC.Base.Bytes GC.Codec.Types GC.Codec.TypeInfo GC.Codec.Marshal GC.Codec.Unmarshal GC.Codec.Codec
               GC.Codec.NoPanic GC.B64.B64Model GC.B64.B64Proofs GC.Parse.ParseModel GC.Parse.ParseProofs
               GC.Schemes.Consts GC.Schemes.Layouts GC.Schemes.Keys GC.Schemes.Checks GC.Schemes.NoPanic
               GC.Kdf.KdfBase GC.Kdf.Md5Crypt GC.Kdf.Sha2Crypt GC.Kdf.Sha1Crypt
               GC.Kdf.Md5CryptProofs GC.Kdf.Sha2CryptProofs GC.Kdf.Sha1CryptProofs.

(* --- parser: the literal lexer/parser state machines never exhaust their fuel and never get stuck --- *)
Theorem C05_lexer_returns : forall s, lex_go s = Some (lex s).
Proof. exact lex_go_eq. Qed.
Theorem C05_parse_returns : forall s, parse_go s = Some (parse_run s).
Proof. exact parse_go_eq. Qed.
Theorem C05_parse_total : forall s, parse s <> PStuck.
Proof. exact parse_total. Qed.

(* --- codec: Unmarshal into any struct type without embedded pointers — in particular every shipped
       scheme struct — never panics, for every string and every text-unmarshaler behaviour --- *)
Theorem C05_unmarshal : forall cb ti h, no_embptr ti -> unmarshal cb ti h <> Panic.
Proof. exact unmarshal_no_panic. Qed.
Theorem C05_unmarshal_shipped : forall st, In st shipped_layouts -> forall cb h, unmarshal_top cb st h <> Panic.
Proof. exact unmarshal_top_shipped_no_panic. Qed.
Theorem C05_marshal : forall cb ti sv,
  no_embptr ti -> sv_embnil sv = [] -> well_typed_sv ti sv -> marshal cb ti sv <> Panic.
Proof. exact marshal_no_panic. Qed.
(* the hypothesis is necessary: D10 (known finding) is a struct with a nil embedded pointer *)

(* --- schemes: Check and Params/Salt never panic, for every hash string and password.  The hypothesis is the
       output length of the abstract derivation (tied per run: the harness compares the length of every Key
       result); it is necessary (Schemes/NoPanic.finish_long_key_panics) --- *)
Theorem C05_check_md5 : forall L kdf h pw, (forall bs ns k, kdf T_md5 bs ns = Some k -> length k = 16%nat) -> check_md5 L kdf h pw <> VPanic.
Proof. exact check_md5_no_panic. Qed.
Theorem C05_check_sha256 : forall L kdf h pw, (forall bs ns k, kdf T_sha256 bs ns = Some k -> length k = 32%nat) -> check_sha256 L kdf h pw <> VPanic.
Proof. exact check_sha256_no_panic. Qed.
Theorem C05_check_sha512 : forall L kdf h pw, (forall bs ns k, kdf T_sha512 bs ns = Some k -> length k = 64%nat) -> check_sha512 L kdf h pw <> VPanic.
Proof. exact check_sha512_no_panic. Qed.
Theorem C05_check_sha1 : forall L kdf rr h pw, (forall bs ns k, kdf T_sha1 bs ns = Some k -> length k = 21%nat) -> check_sha1 L kdf rr h pw <> VPanic.
Proof. exact check_sha1_no_panic. Qed.
Theorem C05_check_sunmd5 : forall L kdf h pw, (forall bs ns k, kdf T_sunmd5 bs ns = Some k -> length k = 16%nat) -> check_sunmd5 L kdf h pw <> VPanic.
Proof. exact check_sunmd5_no_panic. Qed.
Theorem C05_check_des : forall L kdf h pw, (forall bs ns k, kdf T_des bs ns = Some k -> length k = 8%nat) -> check_des L kdf h pw <> VPanic.
Proof. exact check_des_no_panic. Qed.
Theorem C05_check_desext : forall L kdf h pw, (forall bs ns k, kdf T_desext bs ns = Some k -> length k = 8%nat) -> check_desext L kdf h pw <> VPanic.
Proof. exact check_desext_no_panic. Qed.
Theorem C05_check_bcrypt : forall L kdf h pw, (forall bs ns k, kdf T_bcrypt bs ns = Some k -> length k = 23%nat) -> check_bcrypt L kdf h pw <> VPanic.
Proof. exact check_bcrypt_no_panic. Qed.
Theorem C05_check_nthash : forall L kdf nt_encode h pw, (forall bs ns k, kdf T_nthash bs ns = Some k -> length k = 16%nat) -> check_nthash L kdf nt_encode h pw <> VPanic.
Proof. exact check_nthash_no_panic. Qed.
Theorem C05_check_argon2 : forall L kdf h pw, check_argon2 L kdf h pw <> VPanic.
Proof. exact check_argon2_no_panic. Qed.

Theorem C05_params :
  (forall h, salt_md5 h <> PPanic) /\ (forall h, salt_des h <> PPanic) /\ (forall h, params_sha256 h <> PPanic) /\
  (forall h, params_sha512 h <> PPanic) /\ (forall h, params_sha1 h <> PPanic) /\ (forall h, params_desext h <> PPanic) /\
  (forall h, params_bcrypt h <> PPanic) /\ (forall h, params_sunmd5 h <> PPanic) /\ (forall h, params_argon2 h <> PPanic).
Proof.
  exact (conj params_md5_no_panic (conj params_des_no_panic (conj params_sha256_no_panic (conj params_sha512_no_panic
        (conj params_sha1_no_panic (conj params_desext_no_panic (conj params_bcrypt_no_panic
        (conj params_sunmd5_no_panic params_argon2_no_panic)))))))).
Qed.

(* --- primitives: the slice arithmetic of the digest-expansion loops never leaves its buffers, for passwords
       and salts of ANY length (every slice expression of the control-code models is checked: an out-of-range
       one yields None, as the historical D1 did for passwords >= the digest size) --- *)
Theorem C05_md5crypt : forall H perm pw salt prefix, (forall x, length (H x) = 16%nat) ->
  Forall (fun j => 0 <= j < 16) perm ->
  exists k, Md5Crypt.Encrypt H perm pw salt prefix = Some k /\ length k = length perm.
Proof. exact md5crypt_total. Qed.
Theorem C05_sha2crypt : forall H hs pw salt nrounds perm, 0 < hs ->
  (forall x, Z.of_nat (length (H x)) = hs) -> 0 <= nrounds -> Forall (fun j => 0 <= j < hs) perm ->
  exists k, Sha2Crypt.Encrypt H hs pw salt nrounds perm = Some k /\ length k = length perm.
Proof. exact sha2crypt_total. Qed.
Theorem C05_sha1crypt : forall HM prefix perm pw salt rounds, (forall k d, length (HM k d) = 20%nat) ->
  Forall (fun j => 0 <= j < 20) perm ->
  exists k, Sha1Crypt.Key HM prefix perm pw salt rounds = Some k /\ length k = length perm.
Proof. exact sha1crypt_total. Qed.

(* --- base64: DecodeString writes only inside its DecodedLen buffer and terminates, for every text --- *)
Theorem C05_base64_decode : forall e t, enc_ok e = true -> exists out err, decode e t = DOk out err.
Proof. exact no_panic. Qed.
