(* C06 — the recognisers that serve as the specification in Properties/C06.v, characterised by the documented GRAMMAR of each
   layout as explicit concatenations (so that the specification can be read without running it).  Statements only, generated
   from the lemmas' types.  opt_dollar tail: tail = [] or one bare '$'.  in_alpha EncHash = the 64 symbols ./0-9A-Za-z,
   in_alpha EncBase64 = A-Za-z0-9+/ (theorems C06_in_alpha_hash_over, C06_in_alpha_base64_over); neither contains '$' ',' '=' '_' (C06_alphabets_no_delims);
   ParseUint s 10 bits = inl v iff s is a non-empty run of decimal digits with value v < 2^bits (C06_ParseUint10_iff). *)
Require Import GC.Base.Bytes GC.Codec.Types GC.Codec.Strconv GC.Schemes.Consts GC.Schemes.Recognisers GC.Schemes.FreshBase GC.Schemes.GrammarBase GC.Schemes.GrammarPlain GC.Schemes.GrammarOther GC.Schemes.GrammarArgon2.

Theorem C06_in_alpha_hash_over :
  forall s : bytes, in_alpha EncHash s = true <-> over crypt_alphabet s.
Proof. exact in_alpha_hash_over. Qed.

Theorem C06_in_alpha_base64_over :
  forall s : bytes, in_alpha EncBase64 s = true <-> over base64_std_alphabet s.
Proof. exact in_alpha_base64_over. Qed.

Theorem C06_alphabets_no_delims :
  mem dollar crypt_alphabet = false /\
  mem comma crypt_alphabet = false /\
  mem equals crypt_alphabet = false /\
  mem underscore crypt_alphabet = false /\
  mem dollar base64_std_alphabet = false /\
  mem comma base64_std_alphabet = false /\ mem equals base64_std_alphabet = false.
Proof. exact alphabets_no_delims. Qed.

Theorem C06_ParseUint10_iff :
  forall (s : bytes) (bits v : Z),
  0 <= bits ->
  ParseUint s 10 bits = inl v <-> s <> [] /\ is_digits s = true /\ v = dec_value s /\ v < 2 ^ bits.
Proof. exact ParseUint10_iff. Qed.

Theorem C06_grammar_md5 :
  forall (h : bytes) (r : rfields),
  recog_md5 h = Some r <->
  (exists salt sum tail : list Z,
  h = p_md5 ++ salt ++ [dollar] ++ sum ++ tail /\
  opt_dollar tail /\
  in_alpha EncHash salt = true /\
  length sum = 22%nat /\ in_alpha EncHash sum = true /\ r = mk_r salt [] [] false sum).
Proof. exact grammar_md5. Qed.

Theorem C06_grammar_sha256 :
  forall (h : bytes) (r : rfields),
  recog_sha256 h = Some r <->
  (exists (salt : bytes) (sum0 : list Z) (tail : bytes),
  opt_dollar tail /\
  in_alpha EncHash salt = true /\
  length sum0 = 43%nat /\
  in_alpha EncHash sum0 = true /\
  (h = p_sha256 ++ salt ++ [dollar] ++ sum0 ++ tail /\ r = mk_r salt [5000] [] false sum0 \/
  (exists (digits : list Z) (v : Z),
  h = p_sha256 ++ k_rounds ++ digits ++ [dollar] ++ salt ++ [dollar] ++ sum0 ++ tail /\
  ParseUint digits 10 32 = inl v /\ r = mk_r salt [if v =? 0 then 5000 else v] [] false sum0))).
Proof. exact grammar_sha256. Qed.

Theorem C06_grammar_sha512 :
  forall (h : bytes) (r : rfields),
  recog_sha512 h = Some r <->
  (exists (salt : bytes) (sum0 : list Z) (tail : bytes),
  opt_dollar tail /\
  in_alpha EncHash salt = true /\
  length sum0 = 86%nat /\
  in_alpha EncHash sum0 = true /\
  (h = p_sha512 ++ salt ++ [dollar] ++ sum0 ++ tail /\ r = mk_r salt [5000] [] false sum0 \/
  (exists (digits : list Z) (v : Z),
  h = p_sha512 ++ k_rounds ++ digits ++ [dollar] ++ salt ++ [dollar] ++ sum0 ++ tail /\
  ParseUint digits 10 32 = inl v /\ r = mk_r salt [if v =? 0 then 5000 else v] [] false sum0))).
Proof. exact grammar_sha512. Qed.

Theorem C06_grammar_sha1 :
  forall (h : bytes) (r : rfields),
  recog_sha1 h = Some r <->
  (exists (digits : list Z) (v : Z) (salt sum0 tail : list Z),
  h = p_sha1 ++ digits ++ [dollar] ++ salt ++ [dollar] ++ sum0 ++ tail /\
  opt_dollar tail /\
  ParseUint digits 10 32 = inl v /\
  in_alpha EncHash salt = true /\
  length sum0 = 28%nat /\ in_alpha EncHash sum0 = true /\ r = mk_r salt [v] [] false sum0).
Proof. exact grammar_sha1. Qed.

Theorem C06_grammar_sunmd5 :
  forall (h : bytes) (r : rfields),
  recog_sunmd5 h = Some r <->
  (exists (pre digits : bytes) (v : Z) (salt : bytes) (sum0 : list Z) (tail : bytes),
  (pre = p_sunmd5_c \/ pre = p_sunmd5_d) /\
  opt_dollar tail /\
  ParseUint digits 10 32 = inl v /\
  in_alpha EncHash salt = true /\
  length sum0 = 22%nat /\
  in_alpha EncHash sum0 = true /\
  (h = pre ++ k_rounds ++ digits ++ [dollar] ++ sum0 ++ tail /\
  salt = [] /\ r = mk_r [] [v] pre true sum0 \/
  h = pre ++ k_rounds ++ digits ++ [dollar] ++ salt ++ [dollar] ++ sum0 ++ tail /\
  r = mk_r salt [v] pre true sum0 \/
  h = pre ++ k_rounds ++ digits ++ [dollar] ++ salt ++ [dollar; dollar] ++ sum0 ++ tail /\
  r = mk_r salt [v] pre false sum0)).
Proof. exact grammar_sunmd5. Qed.

Theorem C06_grammar_des :
  forall (h : bytes) (r : rfields),
  recog_des h = Some r <->
  (exists salt sum tail : list Z,
  h = salt ++ sum ++ tail /\
  opt_dollar tail /\
  length salt = 2%nat /\
  in_alpha EncHash salt = true /\
  length sum = 11%nat /\ in_alpha EncHash sum = true /\ r = mk_r salt [] [] false sum).
Proof. exact grammar_des. Qed.

Theorem C06_grammar_desext :
  forall (h : bytes) (r : rfields),
  recog_desext h = Some r <->
  (exists rounds salt sum tail : list Z,
  h = [underscore] ++ rounds ++ salt ++ sum ++ tail /\
  opt_dollar tail /\
  length rounds = 4%nat /\
  in_alpha EncHash rounds = true /\
  length salt = 4%nat /\
  in_alpha EncHash salt = true /\
  length sum = 11%nat /\
  in_alpha EncHash sum = true /\ r = mk_r salt [decode_le6 rounds 0] [] false sum).
Proof. exact grammar_desext. Qed.

Theorem C06_decode_le6_four :
  forall a b c d : Z,
  decode_le6 [a; b; c; d] 0 = sym_value a + 64 * sym_value b + 4096 * sym_value c + 262144 * sym_value d.
Proof. exact decode_le6_four. Qed.

Theorem C06_grammar_bcrypt :
  forall (h : bytes) (r : rfields),
  recog_bcrypt h = Some r <->
  (exists (pre : list Z) (d1 d2 : Z) (salt sum tail : list Z),
  h = pre ++ [d1; d2] ++ [dollar] ++ salt ++ sum ++ tail /\
  opt_dollar tail /\
  (pre = p_bcrypt_2b \/ pre = p_bcrypt_2a \/ pre = p_bcrypt_2) /\
  is_digit d1 = true /\
  is_digit d2 = true /\
  length salt = 22%nat /\
  in_alpha EncHash salt = true /\
  length sum = 31%nat /\
  in_alpha EncHash sum = true /\ r = mk_r salt [10 * (d1 - 48) + (d2 - 48)] pre false sum).
Proof. exact grammar_bcrypt. Qed.

Theorem C06_grammar_nthash :
  forall (h : bytes) (r : rfields),
  recog_nthash h = Some r <->
  (exists sum tail : list Z,
  h = p_nthash ++ [dollar] ++ sum ++ tail /\
  opt_dollar tail /\
  length sum = 32%nat /\ in_alpha EncHash sum = true /\ r = mk_r [] [] [] false sum).
Proof. exact grammar_nthash. Qed.

Theorem C06_grammar_argon2 :
  forall (h : bytes) (r : rfields),
  recog_argon2 h = Some r <->
  (exists
  (pre ver : list Z) (version : Z) (dm : list Z) (m : Z) (dt : list Z) (t : Z)
  (dp : list Z) (p : Z) (x1 x2 x3 salt sum0 tail : list Z),
  h =
  pre ++ ver ++ x1 ++ [comma] ++ x2 ++ [comma] ++ x3 ++ [dollar] ++ salt ++ [dollar] ++ sum0 ++ tail /\
  (pre = p_argon2id \/ pre = p_argon2i \/ pre = p_argon2d) /\
  (ver = [] /\ version = 16 \/
  (exists (digits : list Z) (v : Z),
  ver = k_v ++ digits ++ [dollar] /\
  ParseUint digits 10 8 = inl v /\ version = (if v =? 0 then 16 else v))) /\
  Permutation.Permutation [x1; x2; x3] [k_m ++ dm; k_t ++ dt; k_p ++ dp] /\
  ParseUint dm 10 32 = inl m /\
  ParseUint dt 10 32 = inl t /\
  ParseUint dp 10 8 = inl p /\
  in_alpha EncBase64 salt = true /\
  in_alpha EncBase64 sum0 = true /\
  (tail = [] /\ sum0 <> [] \/ tail = [dollar]) /\ r = mk_r salt [m; t; p; version] pre false sum0).
Proof. exact grammar_argon2. Qed.

