(* C06 — verification classifies every string as match, mismatch or malformed correctly.  Statements only.
   [class_of] maps a Check verdict to 0 (nil), 1 (the mismatch sentinel), 2 (any other error).  [spec_x] is:
   the INDEPENDENT recogniser of the documented layout (Schemes/Recognisers.v: its own splitting on '$' and ',',
   field alphabets, fixed lengths, integer syntax; it knows nothing of the codec, the parser or type_info),
   then the documented guards of Key, then equality of the stored digest with the re-encoded key.
   The theorems hold for EVERY byte string h and password pw, every limits record and every derivation whose
   output has the scheme's length. *)
Require Import GC.Base.Bytes GC.Codec.Types GC.Schemes.Consts GC.Schemes.Keys GC.Schemes.Checks
               GC.Schemes.Recognisers GC.Schemes.RecogCases GC.Schemes.RecogPPlain GC.Schemes.RecogPBcrypt
               GC.Schemes.RecogPSunmd5 GC.Schemes.RecogPDes GC.Schemes.RecogProofs GC.Schemes.RecogParams.

Theorem C06_md5 : forall L kdf h pw, (forall bs ns k, kdf T_md5 bs ns = Some k -> length k = 16%nat) ->
  class_of (check_md5 L kdf h pw) = spec_md5 L kdf h pw.
Proof. exact md5_classified. Qed.
Theorem C06_sha256 : forall L kdf h pw, (forall bs ns k, kdf T_sha256 bs ns = Some k -> length k = 32%nat) ->
  class_of (check_sha256 L kdf h pw) = spec_sha256 L kdf h pw.
Proof. exact sha256_classified. Qed.
Theorem C06_sha512 : forall L kdf h pw, (forall bs ns k, kdf T_sha512 bs ns = Some k -> length k = 64%nat) ->
  class_of (check_sha512 L kdf h pw) = spec_sha512 L kdf h pw.
Proof. exact sha512_classified. Qed.
Theorem C06_sha1 : forall L kdf rr h pw, (forall bs ns k, kdf T_sha1 bs ns = Some k -> length k = 21%nat) ->
  class_of (check_sha1 L kdf rr h pw) = spec_sha1 L kdf rr h pw.
Proof. exact sha1_classified. Qed.
Theorem C06_sunmd5 : forall L kdf h pw, (forall bs ns k, kdf T_sunmd5 bs ns = Some k -> length k = 16%nat) ->
  class_of (check_sunmd5 L kdf h pw) = spec_sunmd5 L kdf h pw.
Proof. exact sunmd5_classified. Qed.
Theorem C06_des : forall L kdf h pw, (forall bs ns k, kdf T_des bs ns = Some k -> length k = 8%nat) ->
  class_of (check_des L kdf h pw) = spec_des L kdf h pw.
Proof. exact des_classified. Qed.
Theorem C06_desext : forall L kdf h pw, (forall bs ns k, kdf T_desext bs ns = Some k -> length k = 8%nat) ->
  class_of (check_desext L kdf h pw) = spec_desext L kdf h pw.
Proof. exact desext_classified. Qed.
Theorem C06_bcrypt : forall L kdf h pw, (forall bs ns k, kdf T_bcrypt bs ns = Some k -> length k = 23%nat) ->
  class_of (check_bcrypt L kdf h pw) = spec_bcrypt L kdf h pw.
Proof. exact bcrypt_classified. Qed.
Theorem C06_nthash : forall L kdf nt h pw, (forall bs ns k, kdf T_nthash bs ns = Some k -> length k = 16%nat) ->
  class_of (check_nthash L kdf nt h pw) = spec_nthash L kdf nt h pw.
Proof. exact nthash_classified. Qed.
Theorem C06_argon2 : forall L kdf h pw,
  class_of (check_argon2 L kdf h pw) = spec_argon2 L kdf h pw.
Proof. exact argon2_classified. Qed.

(* Params / Salt succeed on exactly the recognised strings and return the values written in them
   ([pview] projects a successful result to (salt, numbers, prefix, flag); [rparams] reads the same tuple off the
   recogniser's fields).  argon2.Params is covered by the correspondence only (its proof would repeat the
   eleven-minute evaluation of the argon2 layout); nthash has no Params function. *)
Theorem C06_salt_md5 : forall h, pview (salt_md5 h) = option_map (rparams (fun _ => []) false) (recog_md5 h).
Proof. exact salt_md5_recognised. Qed.
Theorem C06_salt_des : forall h, pview (salt_des h) = option_map (rparams (fun _ => []) false) (recog_des h).
Proof. exact salt_des_recognised. Qed.
Theorem C06_params_sha256 : forall h,
  pview (params_sha256 h) = option_map (rparams (fun r => [num0 r]) false) (recog_sha256 h).
Proof. exact params_sha256_recognised. Qed.
Theorem C06_params_sha512 : forall h,
  pview (params_sha512 h) = option_map (rparams (fun r => [num0 r]) false) (recog_sha512 h).
Proof. exact params_sha512_recognised. Qed.
Theorem C06_params_sha1 : forall h,
  pview (params_sha1 h) = option_map (rparams (fun r => [num0 r]) false) (recog_sha1 h).
Proof. exact params_sha1_recognised. Qed.
Theorem C06_params_desext : forall h,
  pview (params_desext h) = option_map (rparams (fun r => [num0 r]) false) (recog_desext h).
Proof. exact params_desext_recognised. Qed.
Theorem C06_params_bcrypt : forall h,
  pview (params_bcrypt h) = option_map (rparams (fun r => [num0 r]) true) (recog_bcrypt h).
Proof. exact params_bcrypt_recognised. Qed.
Theorem C06_params_sunmd5 : forall h,
  pview (params_sunmd5 h) = option_map (rparams (fun r => [num0 r]) true) (recog_sunmd5 h).
Proof. exact params_sunmd5_recognised. Qed.
