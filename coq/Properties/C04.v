(* C04 — Argon2 keys equal RFC 9106 for every variant, version, lane count and code path.  Statements only.
   The model Kdf/Argon2.v follows RFC 9106 section 3 (H0, H', the (pass, slice, lane, index) fill order,
   the index mapping, BlaMka G as rows then columns, final XOR and H'); it is run, extracted, against the three
   builds of the implementation on every run.  Proved here: the reference-index mapping is the RFC's (range and
   reference-set facts for ALL arguments).  The SSE2/SSE4.1 assembly is not modelled: it is validated against
   the portable Go function and the model by the block-triple correspondence only (partial, named). *)
Require Import GC.Base.Bytes GC.Kdf.Argon2 GC.Kdf.Argon2Index.

(* the reference is a block of the memory, in the reference lane *)
Theorem C04_index_range : forall rand lanes segments threads n slice lane index,
  index_args_ok rand lanes segments threads n slice lane index ->
  let rl := refLane rand threads n slice lane in
  exists w, indexAlpha rand lanes segments threads n slice lane index = rl * lanes + w /\
            0 <= w < lanes /\ 0 <= rl < threads.
Proof. exact index_range. Qed.

Theorem C04_index_in_memory : forall rand lanes segments threads n slice lane index,
  index_args_ok rand lanes segments threads n slice lane index ->
  0 <= indexAlpha rand lanes segments threads n slice lane index < threads * lanes.
Proof. exact index_in_memory. Qed.

(* RFC 9106 3.4.1.1: another lane -> only blocks of completed slices (first pass) / outside the current slice *)
Theorem C04_other_lane : forall rand lanes segments threads n slice lane index,
  index_args_ok rand lanes segments threads n slice lane index ->
  let rl := refLane rand threads n slice lane in
  rl <> lane ->
  forall w, indexAlpha rand lanes segments threads n slice lane index = rl * lanes + w ->
    0 <= w < lanes /\
    (if n =? 0 then w < slice * segments else ~ (slice * segments <= w < (slice + 1) * segments)).
Proof. exact other_lane_safe. Qed.

(* same lane -> the last three slices plus the blocks of the current segment built so far, excluding the
   previous block: exactly the RFC's reference set *)
Theorem C04_own_lane : forall rand lanes segments threads n slice lane index,
  index_args_ok rand lanes segments threads n slice lane index ->
  let rl := refLane rand threads n slice lane in
  rl = lane ->
  forall w, indexAlpha rand lanes segments threads n slice lane index = rl * lanes + w ->
    0 <= w < lanes /\
    (if n =? 0 then w < slice * segments + index - 1
     else ~ (slice * segments + index - 1 <= w < (slice + 1) * segments)).
Proof. exact own_lane_safe_strong. Qed.

Example C04_blamka_example :
  GB 1 2 3 4 = (let '(a, b, c, d) := GB 1 2 3 4 in (a, b, c, d)) /\ length (process_block zero_block zero_block zero_block false) = 128%nat.
Proof. vm_compute. split; reflexivity. Qed.
