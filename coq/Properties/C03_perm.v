(* C03 — the final byte permutations of md5crypt, sha256crypt, sha512crypt and Sun MD5 (tables tied to /repo in C03.v)
   use every digest byte exactly once: the encoded hash is a rearrangement of the whole digest, no byte is dropped or
   repeated.  (sha1crypt's table has 21 entries for 20 bytes: byte 0 fills the last group twice, as published.)
   Finite domain: the boolean sweep is evaluated by vm_compute and lifted with forallb_forall. *)
Require Import GC.Base.Bytes GC.Schemes.Consts.

Definition once (t : bytes) (n : nat) : bool :=
  forallb (fun k => Nat.eqb (count_occ Z.eq_dec t (Z.of_nat k)) 1) (seq 0 n) && Nat.eqb (length t) n.

Lemma once_spec : forall t n, once t n = true ->
  length t = n /\ forall k, 0 <= k < Z.of_nat n -> count_occ Z.eq_dec t k = 1%nat.
Proof.
  intros t n Ho. unfold once in Ho. apply andb_prop in Ho. destruct Ho as [Hf Hl].
  split; [apply Nat.eqb_eq; exact Hl|].
  intros k Hk. rewrite forallb_forall in Hf.
  specialize (Hf (Z.to_nat k)). rewrite Z2Nat.id in Hf by lia.
  apply Nat.eqb_eq. apply Hf. apply in_seq. lia.
Qed.

Theorem C03_md5_final_permutation_is_bijective :
  length m_md5_permFinal = 16%nat /\ forall k, 0 <= k < 16 -> count_occ Z.eq_dec m_md5_permFinal k = 1%nat.
Proof. apply (once_spec m_md5_permFinal 16). vm_compute. reflexivity. Qed.

Theorem C03_sunmd5_final_permutation_is_bijective :
  length m_sunmd5_permFinal = 16%nat /\ forall k, 0 <= k < 16 -> count_occ Z.eq_dec m_sunmd5_permFinal k = 1%nat.
Proof. apply (once_spec m_sunmd5_permFinal 16). vm_compute. reflexivity. Qed.

Theorem C03_sha256_final_permutation_is_bijective :
  length m_sha256_permFinal = 32%nat /\ forall k, 0 <= k < 32 -> count_occ Z.eq_dec m_sha256_permFinal k = 1%nat.
Proof. apply (once_spec m_sha256_permFinal 32). vm_compute. reflexivity. Qed.

Theorem C03_sha512_final_permutation_is_bijective :
  length m_sha512_permFinal = 64%nat /\ forall k, 0 <= k < 64 -> count_occ Z.eq_dec m_sha512_permFinal k = 1%nat.
Proof. apply (once_spec m_sha512_permFinal 64). vm_compute. reflexivity. Qed.

(* sha1crypt: 21 entries over 20 digest bytes, every byte used, byte 0 twice *)
Theorem C03_sha1_final_permutation_covers :
  length m_sha1_permFinal = 21%nat /\ count_occ Z.eq_dec m_sha1_permFinal 0 = 2%nat
  /\ forall k, 1 <= k < 20 -> count_occ Z.eq_dec m_sha1_permFinal k = 1%nat.
Proof.
  split; [reflexivity|]. split; [vm_compute; reflexivity|].
  assert (F : forallb (fun k => Nat.eqb (count_occ Z.eq_dec m_sha1_permFinal (Z.of_nat k)) 1) (seq 1 19) = true)
    by (vm_compute; reflexivity).
  intros k Hk. rewrite forallb_forall in F. specialize (F (Z.to_nat k)). rewrite Z2Nat.id in F by lia.
  apply Nat.eqb_eq. apply F. apply in_seq. lia.
Qed.
