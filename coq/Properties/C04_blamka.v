(* C04 — the portable compression function, translated from the source on every run, is the model's.  Statements only.
   Generated/Gen_blamka.v is written by `harness gen` from argon2/argon2crypto/blamka_generic.go: blamkaGeneric as
   loads / a straight-line program over sixteen locals / stores, processBlockGeneric as block-wise statements with
   the loops of blamkaGeneric calls unrolled into the word positions passed (Kdf/BlamkaIR.v gives each construct its
   Go meaning, uint64 wrap-around written out operation by operation).  Proved for ALL block contents: the translated
   functions compute Argon2.blamka / Argon2.process_block, i.e. RFC 9106's permutation P on rows then columns of the
   8 x 8 matrix of 16-byte registers, with G's rotations 32/24/16/63 and the BlaMka multiplication, and the final
   XOR (with the old contents of the block for version 0x13 passes).  The assembly (blamka_amd64.s) is outside: it is
   compared with this function by the block-triple correspondence. *)
Require Import GC.Base.Bytes GC.Kdf.Argon2 GC.Kdf.BlamkaIR GC.Kdf.BlamkaIRProofs GC.Generated.Gen_blamka GC.Tie.Tie_blamka.

Theorem C04_go_wraparound_addmul : forall x y, go_addmul x y = fBlaMka x y.
Proof. exact go_addmul_eq. Qed.

Theorem C04_blamkaGeneric_is_model : forall v, length v = 16%nat -> brun gen_blamka_prog v = blamka v.
Proof. exact gen_blamka_is_model. Qed.

Theorem C04_blamkaGeneric_call_is_model : forall t idx, length idx = 16%nat ->
  call_blamka gen_blamka_loads gen_blamka_prog gen_blamka_stores t idx = blamka_at t idx.
Proof. exact gen_call_is_model. Qed.

Theorem C04_processBlockGeneric_is_model : forall out in1 in2 xor,
  pb_run gen_blamka_loads gen_blamka_prog gen_blamka_stores gen_pb out in1 in2 xor = process_block out in1 in2 xor.
Proof. exact gen_process_block_is_model. Qed.

(* blamka_amd64.go, processBlockSSE on a CPU without SSE4.1: between the assembly mix and the assembly xor the
   words of t go through the same permutation (rows, then columns) as in the model *)
Theorem C04_processBlockSSE_fallback_is_model : forall s xor,
  s_t (fold_left (pb_step gen_blamka_loads gen_blamka_prog gen_blamka_stores xor) gen_sse_fallback s)
  = fold_left blamka_at (map col_idx (seq 0 8)) (fold_left blamka_at (map row_idx (seq 0 8)) (s_t s)).
Proof. exact gen_sse_fallback_is_model. Qed.

(* non-vacuity: the translated function run on a concrete block triple *)
Example C04_processBlockGeneric_runs :
  length (pb_run gen_blamka_loads gen_blamka_prog gen_blamka_stores gen_pb
            (repeat 1 128) (map Z.of_nat (seq 0 128)) (repeat 7 128) true) = 128%nat
  /\ nth 0 (pb_run gen_blamka_loads gen_blamka_prog gen_blamka_stores gen_pb
            (repeat 1 128) (map Z.of_nat (seq 0 128)) (repeat 7 128) true) 0
     <> nth 0 (pb_run gen_blamka_loads gen_blamka_prog gen_blamka_stores gen_pb
            (repeat 1 128) (map Z.of_nat (seq 0 128)) (repeat 7 128) false) 0.
Proof. vm_compute. split; [reflexivity | discriminate]. Qed.
