(* C09 — the executions the schedule-independence theorems quantify over are the ones the source produces.
   Statements only.  Generated/Gen_sched.v is written by `harness gen` from argon2crypto.processBlocks: the loop nest
   that declares the WaitGroup, adds to it, starts the workers and waits, and how the worker closure uses the
   WaitGroup.  Proved: for every pass count and lane count the parent's events are, for each (pass, slice) of
   `pass_slices` in order, [new WaitGroup; (Add 1; go worker(pass, slice, lane)) for each lane in order; Wait] — lanes
   are joined at every slice, which is the shape `sliced_schedule` (C09_refine.v) assumes; the worker calls Done
   exactly once, as its last statement, has no return statement, and no other `go` statement exists in the function.
   Together with the WaitGroup theorems (C09_joined, C09_quiescent) this ties "sliced" to the source. *)
Require Import GC.Base.Bytes GC.Kdf.SchedIR GC.Kdf.Argon2RefineAll GC.Generated.Gen_sched GC.Tie.Tie_sched.

Theorem C09_source_joins_lanes_at_every_slice : forall time threads,
  execs time gen_syncPoints threads [] gen_sched = flat_map (slice_events threads) (pass_slices time).
Proof. exact gen_sched_events. Qed.

Theorem C09_source_worker_discipline :
  gen_go_statements = 1%nat /\ gen_worker_done_last = true /\ gen_worker_done_calls = 1%nat /\ gen_worker_returns = 0%nat.
Proof. exact tie_worker. Qed.

Example C09_source_schedule_example :
  execs 1 gen_syncPoints 2 [] gen_sched =
  [PNew; PAdd 1; PGo [0; 0; 0]; PAdd 1; PGo [0; 0; 1]; PWait; PNew; PAdd 1; PGo [0; 1; 0]; PAdd 1; PGo [0; 1; 1]; PWait;
   PNew; PAdd 1; PGo [0; 2; 0]; PAdd 1; PGo [0; 2; 1]; PWait; PNew; PAdd 1; PGo [0; 3; 0]; PAdd 1; PGo [0; 3; 1]; PWait].
Proof. vm_compute. reflexivity. Qed.
