(* C15 — every generated hash carries a fresh, full-strength random salt.  Statements only.
   Proved: the deterministic part (how the bytes of crypto/rand.Reader become the salt).  That the operating
   system's source is unpredictable and never repeats is outside any model (partial by nature); the check
   adds a statistical run on the real source. *)
Require Import GC.Base.Bytes GC.B64.B64Model GC.Schemes.Consts GC.Schemes.Keys GC.Schemes.Encoders GC.Schemes.RandModel
               GC.Schemes.RandProofs GC.Schemes.RandSites GC.Generated.Gen_randsites GC.Tie.Tie_randsites.

Theorem C15_symbol_in : forall b, 0 <= b < 256 -> In (rand_symbol crypt_alphabet b) crypt_alphabet.
Proof. exact rand_symbol_in. Qed.
(* no symbol is starved: every alphabet symbol is the image of some six-bit index *)
Theorem C15_symbol_onto : forall c, In c crypt_alphabet -> exists b, 0 <= b < 64 /\ rand_symbol crypt_alphabet b = c.
Proof. exact rand_symbol_onto. Qed.
Theorem C15_symbol_inj : forall a b, 0 <= a < 256 -> 0 <= b < 256 ->
  rand_symbol crypt_alphabet a = rand_symbol crypt_alphabet b -> Z.land a 63 = Z.land b 63.
Proof. exact rand_symbol_inj. Qed.

(* salts have the requested length, use only alphabet symbols, and two salts are equal only if the six-bit
   indices drawn were equal: salts repeat only if the source repeats *)
Theorem C15_salt_length : forall alpha n stream, (n <= length stream)%nat -> length (fst (hashutil_rand alpha n stream)) = n.
Proof. exact hashutil_rand_length. Qed.
Theorem C15_salt_alphabet : forall n stream, wf_bytes stream = true ->
  Forall (fun c => In c crypt_alphabet) (fst (hashutil_rand crypt_alphabet n stream)).
Proof. exact hashutil_rand_alphabet. Qed.
Theorem C15_salt_inj : forall n s1 s2, wf_bytes s1 = true -> wf_bytes s2 = true ->
  (n <= length s1)%nat -> (n <= length s2)%nat ->
  fst (hashutil_rand crypt_alphabet n s1) = fst (hashutil_rand crypt_alphabet n s2) ->
  map (fun b => Z.land b 63) (firstn n s1) = map (fun b => Z.land b 63) (firstn n s2).
Proof. exact hashutil_rand_inj. Qed.
(* each call consumes exactly n fresh bytes; nothing else reaches the salt and the rest of the stream is untouched *)
Theorem C15_fresh : forall alpha n s t, length s = n -> hashutil_rand alpha n (s ++ t) = (map (rand_symbol alpha) s, t).
Proof. exact hashutil_rand_consumes. Qed.

(* bcrypt (16 raw bytes -> 22 symbols) and Argon2 (8 raw bytes -> 11 symbols): the encoding is injective, so the
   salt carries the full entropy of the bytes drawn *)
Theorem C15_bcrypt_full_entropy : forall s1 s2, wf_bytes s1 = true -> wf_bytes s2 = true ->
  be64_encode bcrypt_std_alphabet s1 = be64_encode bcrypt_std_alphabet s2 -> s1 = s2.
Proof. exact bcrypt_salt_inj. Qed.
Theorem C15_argon2_full_entropy : forall s1 s2, wf_bytes s1 = true -> wf_bytes s2 = true ->
  be64_encode base64_std_alphabet s1 = be64_encode base64_std_alphabet s2 -> s1 = s2.
Proof. exact argon2_salt_inj. Qed.
Theorem C15_encoded_salt_length : forall alpha s, length (be64_encode alpha s) = ((length s * 8 + 5) / 6)%nat.
Proof. exact be64_length. Qed.

(* SHA-1-crypt's randomised round count stays inside its documented window, and reaches all of it *)
Theorem C15_rounds_window : forall v, 0 <= v < 2 ^ 32 -> 18511 <= rand_rounds_of m_sha1_randomHint v <= 24680.
Proof. exact rand_rounds_window. Qed.
Theorem C15_rounds_onto : forall r, 18511 <= r <= 24680 -> exists v, 0 <= v < 2 ^ 32 /\ rand_rounds_of m_sha1_randomHint v = r.
Proof. exact rand_rounds_onto. Qed.

(* randomness flows only from crypto/rand: the import scan over all non-test sources, regenerated every run *)
Theorem C15_sources : forallb (fun p => bytes_eqb (snd p) s_crypto_rand) rand_imports = true
                      /\ rand_imports = expected_rand_imports.
Proof. exact (conj tie_rand_sources tie_rand_imports). Qed.
