(* C03 (DES part) — the table-driven DES code of /repo computes bit-level FIPS PUB 46-3 DES.  Statements only.
   Kdf/DesSpec.v is a specification written from the standard (IP, FP, E, P, PC-1, PC-2, the eight S-boxes and the
   shift schedule as printed there, bits numbered from the left) plus the traditional crypt(3) construction (25
   applications on the zero block, salt bits swapping E-output bits i and i+24) and the BSDi extended construction
   (key folded over 8-byte blocks, count field).  It mentions none of the implementation's combined tables.
   Kdf/DesEquiv*.v prove that the literal model of descrypt.Key / DecodeInt / Encrypt and of desext.key
   (Kdf/DesCrypt.v), run on the tables regenerated from /repo on this run, is that function for EVERY password, salt
   and round count.  The specification itself is pinned by the classic known-answer vectors (evaluated by the
   kernel below), and by libxcrypt through the extracted model on every run. *)
Require Import GC.Base.Bytes GC.Kdf.DesSpec GC.Kdf.DesCrypt GC.Kdf.DesTables GC.Kdf.DesEquiv GC.Kdf.DesEquivCrypt
               GC.Generated.Gen_consts GC.Generated.Gen_des_tables GC.Schemes.Consts GC.Tie.Tie_consts GC.Tie.Tie_tables.

(* traditional DES crypt: any password (only its first 8 bytes, low 7 bits each, matter), any salt text *)
Theorem C03_des_fips46 : forall pw salt, Forall (fun c => c < 256) (firstn 4 salt) ->
  des_derive des_ie3264 des_cf6464 des_spe des_pcxRot des_ksMask hashutil_hash_decode pw salt = spec_des_crypt pw salt.
Proof.
  rewrite tie_des_ie3264, tie_des_cf6464, tie_des_spe, tie_des_pcxRot, tie_des_ksMask, tie_hashutil_hash_decode.
  exact des_derive_correct.
Qed.

(* BSDi extended DES: any password length (key folding), any 4-symbol salt, any round count *)
Theorem C03_desext_fips46 : forall pw salt rounds, Forall (fun c => c < 256) (firstn 4 salt) ->
  desext_derive des_ie3264 des_cf6464 des_spe des_pcxRot des_ksMask hashutil_hash_decode pw salt rounds
  = spec_desext_crypt pw salt rounds.
Proof.
  rewrite tie_des_ie3264, tie_des_cf6464, tie_des_spe, tie_des_pcxRot, tie_des_ksMask, tie_hashutil_hash_decode.
  exact desext_derive_correct.
Qed.

(* the block-level statement the two above rest on: descrypt.Encrypt on the shipped tables is [rounds] applications
   of the salted FIPS cipher, for every 64-bit key, input block, salt value and count *)
Theorem C03_des_encrypt_fips46 : forall key input salt rounds, 0 <= key < 2 ^ 64 -> 0 <= input < 2 ^ 64 ->
  Encrypt des_ie3264 des_cf6464 des_spe des_pcxRot des_ksMask key input salt rounds = spec_encrypt key input salt rounds.
Proof.
  rewrite tie_des_ie3264, tie_des_cf6464, tie_des_spe, tie_des_pcxRot, tie_des_ksMask.
  intros; apply des_Encrypt_correct; assumption.
Qed.

(* the specification is DES: published known answers (salt 0, one application = the plain block cipher) *)
Theorem C03_des_spec_known_answers :
  des_block 0 0x133457799BBCDFF1 0x0123456789ABCDEF = 0x85E813540F0AB405 /\
  des_block 0 0x9474B8E8C73BCA7D 0x9474B8E8C73BCA7D = 0x8DA744E0C94E5E17 /\
  des_block 0 0x0101010101010101 0x8000000000000000 = 0x95F8A5E5DD31D900 /\
  des_block 0 0x8001010101010101 0 = 0x95A8D72813DAA94D /\
  des_block 0 0x0123456789ABCDEF 0x4E6F772069732074 = 0x3FA40E8A984D4815.
Proof. exact (conj kat_grabbe (conj kat_rivest_1 (conj kat_nbs_ip (conj kat_nbs_key kat_nowisthe)))). Qed.
