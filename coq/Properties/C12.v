(* C12 — generated hashes are canonical; Params, Key and Check agree with each other.  Statements only (generated from
   the lemmas' types; each closed by [exact]).
   X_canonical: the string NewHash returns IS canon_X (documented prefix, cost in canonical decimal / two-digit / four-symbol
     form, salt of the default length over the salt alphabet, digest of the fixed length over the digest alphabet).
   X_params_of_fresh: Params/Salt on it return the drawn salt and the REQUESTED cost and options.
   X_reassemble: re-deriving the key from the extracted parameters and re-encoding reproduces the string byte for byte.
   X_check_iff_key: for EVERY well-formed hash (recognised by the independent recogniser), verification succeeds if and only
     if key derivation with the extracted parameters re-encodes to the stored digest. *)
Require Import GC.Base.Bytes GC.Codec.Strconv GC.Codec.Codec GC.Schemes.Keys GC.Schemes.Checks GC.Schemes.NewHash GC.Schemes.Consts GC.Schemes.Encoders GC.Schemes.RandModel GC.Schemes.Recognisers GC.Schemes.RecogCases GC.Schemes.FreshBase GC.Schemes.FreshPlain GC.Schemes.FreshOther GC.Schemes.FreshCoherence.

Theorem C12_md5_canonical :
  forall (kdf : kdf_t) (stream pw : bytes),
  kdf_ok kdf T_md5 16 ->
  good_stream stream 8 ->
  exists key : bytes,
  key_md5 L0 kdf pw (salt_hash 8 stream) = KOk key /\
  newhash_md5 L0 kdf stream pw = NOk (canon_md5 (salt_hash 8 stream) (le64 key)) /\
  len (salt_hash 8 stream) = m_md5_DefaultSaltLength /\
  over crypt_alphabet (salt_hash 8 stream) /\
  len (le64 key) = m_md5_sumLength /\ over crypt_alphabet (le64 key).
Proof. exact md5_canonical. Qed.

Theorem C12_md5_params_of_fresh :
  forall (kdf : kdf_t) (stream pw : bytes),
  kdf_ok kdf T_md5 16 ->
  good_stream stream 8 ->
  forall h : bytes,
  newhash_md5 L0 kdf stream pw = NOk h -> salt_md5 h = POkP (salt_hash 8 stream) [] [] false.
Proof. exact md5_params_of_fresh. Qed.

Theorem C12_md5_reassemble :
  forall (kdf : kdf_t) (stream pw : bytes),
  kdf_ok kdf T_md5 16 ->
  good_stream stream 8 ->
  forall h s key : bytes,
  newhash_md5 L0 kdf stream pw = NOk h ->
  salt_md5 h = POkP s [] [] false -> key_md5 L0 kdf pw s = KOk key -> h = canon_md5 s (le64 key).
Proof. exact md5_reassemble. Qed.

Theorem C12_sha256_canonical :
  forall (kdf : kdf_t) (stream pw : bytes) (rounds : Z),
  kdf_ok kdf T_sha256 32 ->
  good_stream stream 16 ->
  L_sha256_MinRounds L0 <= rounds <= L_sha256_MaxRounds L0 ->
  exists key : bytes,
  key_sha256 L0 kdf pw (salt_hash 16 stream) rounds = KOk key /\
  newhash_sha256 L0 kdf stream pw rounds = NOk (canon_sha256 rounds (salt_hash 16 stream) (le64 key)) /\
  len (salt_hash 16 stream) = m_sha256_DefaultSaltLength /\
  over crypt_alphabet (salt_hash 16 stream) /\
  len (le64 key) = m_sha256_sumLength /\ over crypt_alphabet (le64 key).
Proof. exact sha256_canonical. Qed.

Theorem C12_sha256_params_of_fresh :
  forall (kdf : kdf_t) (stream pw : bytes) (rounds : Z),
  kdf_ok kdf T_sha256 32 ->
  good_stream stream 16 ->
  L_sha256_MinRounds L0 <= rounds <= L_sha256_MaxRounds L0 ->
  forall h : bytes,
  newhash_sha256 L0 kdf stream pw rounds = NOk h ->
  params_sha256 h = POkP (salt_hash 16 stream) [rounds] [] false.
Proof. exact sha256_params_of_fresh. Qed.

Theorem C12_sha256_reassemble :
  forall (kdf : kdf_t) (stream pw : bytes) (rounds : Z),
  kdf_ok kdf T_sha256 32 ->
  good_stream stream 16 ->
  L_sha256_MinRounds L0 <= rounds <= L_sha256_MaxRounds L0 ->
  forall (h s : bytes) (r : Z) (key : bytes),
  newhash_sha256 L0 kdf stream pw rounds = NOk h ->
  params_sha256 h = POkP s [r] [] false ->
  key_sha256 L0 kdf pw s r = KOk key -> h = canon_sha256 r s (le64 key).
Proof. exact sha256_reassemble. Qed.

Theorem C12_sha512_canonical :
  forall (kdf : kdf_t) (stream pw : bytes) (rounds : Z),
  kdf_ok kdf T_sha512 64 ->
  good_stream stream 16 ->
  L_sha512_MinRounds L0 <= rounds <= L_sha512_MaxRounds L0 ->
  exists key : bytes,
  key_sha512 L0 kdf pw (salt_hash 16 stream) rounds = KOk key /\
  newhash_sha512 L0 kdf stream pw rounds = NOk (canon_sha512 rounds (salt_hash 16 stream) (le64 key)) /\
  len (salt_hash 16 stream) = m_sha512_DefaultSaltLength /\
  over crypt_alphabet (salt_hash 16 stream) /\
  len (le64 key) = m_sha512_sumLength /\ over crypt_alphabet (le64 key).
Proof. exact sha512_canonical. Qed.

Theorem C12_sha512_params_of_fresh :
  forall (kdf : kdf_t) (stream pw : bytes) (rounds : Z),
  kdf_ok kdf T_sha512 64 ->
  good_stream stream 16 ->
  L_sha512_MinRounds L0 <= rounds <= L_sha512_MaxRounds L0 ->
  forall h : bytes,
  newhash_sha512 L0 kdf stream pw rounds = NOk h ->
  params_sha512 h = POkP (salt_hash 16 stream) [rounds] [] false.
Proof. exact sha512_params_of_fresh. Qed.

Theorem C12_sha512_reassemble :
  forall (kdf : kdf_t) (stream pw : bytes) (rounds : Z),
  kdf_ok kdf T_sha512 64 ->
  good_stream stream 16 ->
  L_sha512_MinRounds L0 <= rounds <= L_sha512_MaxRounds L0 ->
  forall (h s : bytes) (r : Z) (key : bytes),
  newhash_sha512 L0 kdf stream pw rounds = NOk h ->
  params_sha512 h = POkP s [r] [] false ->
  key_sha512 L0 kdf pw s r = KOk key -> h = canon_sha512 r s (le64 key).
Proof. exact sha512_reassemble. Qed.

Theorem C12_sha1_canonical :
  forall (kdf : kdf_t) (stream pw : bytes) (rounds : Z),
  kdf_ok kdf T_sha1 21 ->
  good_stream stream 8 ->
  L_sha1_MinRounds L0 <= rounds < 2 ^ 32 ->
  rounds <> L_sha1_RandomRounds L0 ->
  exists key : bytes,
  (forall rr : Z, key_sha1 L0 kdf rr pw (salt_hash 8 stream) rounds = KOk key) /\
  newhash_sha1 L0 kdf stream pw rounds = NOk (canon_sha1 rounds (salt_hash 8 stream) (le64 key)) /\
  len (salt_hash 8 stream) = m_sha1_DefaultSaltLength /\
  over crypt_alphabet (salt_hash 8 stream) /\
  len (le64 key) = m_sha1_sumLength /\ over crypt_alphabet (le64 key).
Proof. exact sha1_canonical. Qed.

Theorem C12_sha1_params_of_fresh :
  forall (kdf : kdf_t) (stream pw : bytes) (rounds : Z),
  kdf_ok kdf T_sha1 21 ->
  good_stream stream 8 ->
  L_sha1_MinRounds L0 <= rounds < 2 ^ 32 ->
  rounds <> L_sha1_RandomRounds L0 ->
  forall h : bytes,
  newhash_sha1 L0 kdf stream pw rounds = NOk h ->
  params_sha1 h = POkP (salt_hash 8 stream) [rounds] [] false.
Proof. exact sha1_params_of_fresh. Qed.

Theorem C12_sha1_reassemble :
  forall (kdf : kdf_t) (stream pw : bytes) (rounds : Z),
  kdf_ok kdf T_sha1 21 ->
  good_stream stream 8 ->
  L_sha1_MinRounds L0 <= rounds < 2 ^ 32 ->
  rounds <> L_sha1_RandomRounds L0 ->
  forall (rr : Z) (h s : bytes) (r : Z) (key : bytes),
  newhash_sha1 L0 kdf stream pw rounds = NOk h ->
  params_sha1 h = POkP s [r] [] false ->
  key_sha1 L0 kdf rr pw s r = KOk key -> h = canon_sha1 r s (le64 key).
Proof. exact sha1_reassemble. Qed.

Theorem C12_sha1_random_canonical :
  forall (kdf : kdf_t) (stream pw : bytes),
  kdf_ok kdf T_sha1 21 ->
  good_stream stream 12 ->
  exists key : bytes,
  (forall rr : Z,
  key_sha1 L0 kdf rr pw (salt_hash 8 (snd (rand_rounds m_sha1_randomHint stream)))
  (fst (rand_rounds m_sha1_randomHint stream)) = KOk key) /\
  newhash_sha1 L0 kdf stream pw (L_sha1_RandomRounds L0) =
  NOk
  (canon_sha1 (fst (rand_rounds m_sha1_randomHint stream))
  (salt_hash 8 (snd (rand_rounds m_sha1_randomHint stream))) (le64 key)) /\
  18511 <= fst (rand_rounds m_sha1_randomHint stream) <= 24680 /\
  len (salt_hash 8 (snd (rand_rounds m_sha1_randomHint stream))) = m_sha1_DefaultSaltLength /\
  over crypt_alphabet (salt_hash 8 (snd (rand_rounds m_sha1_randomHint stream))) /\
  len (le64 key) = m_sha1_sumLength /\ over crypt_alphabet (le64 key).
Proof. exact sha1_random_canonical. Qed.

Theorem C12_sha1_random_params_of_fresh :
  forall (kdf : kdf_t) (stream pw : bytes),
  kdf_ok kdf T_sha1 21 ->
  good_stream stream 12 ->
  forall h : bytes,
  newhash_sha1 L0 kdf stream pw (L_sha1_RandomRounds L0) = NOk h ->
  params_sha1 h =
  POkP (salt_hash 8 (snd (rand_rounds m_sha1_randomHint stream)))
  [fst (rand_rounds m_sha1_randomHint stream)] [] false.
Proof. exact sha1_random_params_of_fresh. Qed.

Theorem C12_sha1_random_reassemble :
  forall (kdf : kdf_t) (stream pw : bytes),
  kdf_ok kdf T_sha1 21 ->
  good_stream stream 12 ->
  forall (rr : Z) (h s : bytes) (r : Z) (key : bytes),
  newhash_sha1 L0 kdf stream pw (L_sha1_RandomRounds L0) = NOk h ->
  params_sha1 h = POkP s [r] [] false ->
  key_sha1 L0 kdf rr pw s r = KOk key -> h = canon_sha1 r s (le64 key).
Proof. exact sha1_random_reassemble. Qed.

Theorem C12_sunmd5_canonical :
  forall (kdf : kdf_t) (stream pw : bytes) (rounds : Z),
  kdf_ok kdf T_sunmd5 16 ->
  good_stream stream 8 ->
  len pw <= L_sunmd5_MaxPw L0 ->
  0 <= rounds <= L_sunmd5_MaxRounds L0 ->
  exists key : bytes,
  key_sunmd5 L0 kdf pw (salt_hash 8 stream) rounds (Some (sunmd5_prefix_for rounds, rounds =? 0)) =
  KOk key /\
  newhash_sunmd5 L0 kdf stream pw rounds = NOk (canon_sunmd5 rounds (salt_hash 8 stream) (le64 key)) /\
  len (salt_hash 8 stream) = m_sunmd5_DefaultSaltLength /\
  over crypt_alphabet (salt_hash 8 stream) /\
  len (le64 key) = m_sunmd5_sumLength /\ over crypt_alphabet (le64 key).
Proof. exact sunmd5_canonical. Qed.

Theorem C12_sunmd5_params_of_fresh :
  forall (kdf : kdf_t) (stream pw : bytes) (rounds : Z),
  kdf_ok kdf T_sunmd5 16 ->
  good_stream stream 8 ->
  len pw <= L_sunmd5_MaxPw L0 ->
  0 <= rounds <= L_sunmd5_MaxRounds L0 ->
  forall h : bytes,
  newhash_sunmd5 L0 kdf stream pw rounds = NOk h ->
  params_sunmd5 h = POkP (salt_hash 8 stream) [rounds] (sunmd5_prefix_for rounds) (rounds =? 0).
Proof. exact sunmd5_params_of_fresh. Qed.

Theorem C12_sunmd5_reassemble :
  forall (kdf : kdf_t) (stream pw : bytes) (rounds : Z),
  kdf_ok kdf T_sunmd5 16 ->
  good_stream stream 8 ->
  len pw <= L_sunmd5_MaxPw L0 ->
  0 <= rounds <= L_sunmd5_MaxRounds L0 ->
  forall (h s : bytes) (r : Z) (pf : bytes) (fl : bool) (key : bytes),
  newhash_sunmd5 L0 kdf stream pw rounds = NOk h ->
  params_sunmd5 h = POkP s [r] pf fl ->
  key_sunmd5 L0 kdf pw s r (Some (pf, fl)) = KOk key ->
  pf = sunmd5_prefix_for r /\ fl = (r =? 0) /\ h = canon_sunmd5 r s (le64 key).
Proof. exact sunmd5_reassemble. Qed.

Theorem C12_des_canonical :
  forall (kdf : kdf_t) (stream pw : bytes),
  kdf_ok kdf T_des 8 ->
  good_stream stream 2 ->
  len pw <= L_des_MaxPw L0 ->
  exists key : bytes,
  key_des L0 kdf pw (salt_hash 2 stream) = KOk key /\
  newhash_des L0 kdf stream pw = NOk (canon_des (salt_hash 2 stream) (be64 key)) /\
  len (salt_hash 2 stream) = m_des_SaltLength /\
  over crypt_alphabet (salt_hash 2 stream) /\
  len (be64 key) = m_des_sumLength /\ over crypt_alphabet (be64 key).
Proof. exact des_canonical. Qed.

Theorem C12_des_params_of_fresh :
  forall (kdf : kdf_t) (stream pw : bytes),
  kdf_ok kdf T_des 8 ->
  good_stream stream 2 ->
  len pw <= L_des_MaxPw L0 ->
  forall h : bytes,
  newhash_des L0 kdf stream pw = NOk h -> salt_des h = POkP (salt_hash 2 stream) [] [] false.
Proof. exact des_params_of_fresh. Qed.

Theorem C12_des_reassemble :
  forall (kdf : kdf_t) (stream pw : bytes),
  kdf_ok kdf T_des 8 ->
  good_stream stream 2 ->
  len pw <= L_des_MaxPw L0 ->
  forall h s key : bytes,
  newhash_des L0 kdf stream pw = NOk h ->
  salt_des h = POkP s [] [] false -> key_des L0 kdf pw s = KOk key -> h = canon_des s (be64 key).
Proof. exact des_reassemble. Qed.

Theorem C12_desext_canonical :
  forall (kdf : kdf_t) (stream pw : bytes) (rounds : Z),
  kdf_ok kdf T_desext 8 ->
  good_stream stream 4 ->
  L_desext_MinRounds L0 <= rounds <= L_desext_MaxRounds L0 ->
  exists key : bytes,
  key_desext L0 kdf pw (salt_hash 4 stream) rounds = KOk key /\
  newhash_desext L0 kdf stream pw rounds = NOk (canon_desext rounds (salt_hash 4 stream) (be64 key)) /\
  len (salt_hash 4 stream) = m_desext_SaltLength /\
  over crypt_alphabet (salt_hash 4 stream) /\
  len (be64 key) = m_desext_sumLength /\
  over crypt_alphabet (be64 key) /\
  length (EncodeInt rounds) = 4%nat /\ over crypt_alphabet (EncodeInt rounds).
Proof. exact desext_canonical. Qed.

Theorem C12_desext_params_of_fresh :
  forall (kdf : kdf_t) (stream pw : bytes) (rounds : Z),
  kdf_ok kdf T_desext 8 ->
  good_stream stream 4 ->
  L_desext_MinRounds L0 <= rounds <= L_desext_MaxRounds L0 ->
  forall h : bytes,
  newhash_desext L0 kdf stream pw rounds = NOk h ->
  params_desext h = POkP (salt_hash 4 stream) [rounds] [] false.
Proof. exact desext_params_of_fresh. Qed.

Theorem C12_desext_reassemble :
  forall (kdf : kdf_t) (stream pw : bytes) (rounds : Z),
  kdf_ok kdf T_desext 8 ->
  good_stream stream 4 ->
  L_desext_MinRounds L0 <= rounds <= L_desext_MaxRounds L0 ->
  forall (h s : bytes) (r : Z) (key : bytes),
  newhash_desext L0 kdf stream pw rounds = NOk h ->
  params_desext h = POkP s [r] [] false ->
  key_desext L0 kdf pw s r = KOk key -> h = canon_desext r s (be64 key).
Proof. exact desext_reassemble. Qed.

Theorem C12_bcrypt_canonical :
  forall (kdf : kdf_t) (stream pw : bytes) (cost : Z),
  kdf_ok kdf T_bcrypt 23 ->
  good_stream stream 16 ->
  L_bcrypt_MinCost L0 <= cost <= L_bcrypt_MaxCost L0 ->
  exists key : bytes,
  key_bcrypt L0 kdf pw (be64_encode bcrypt_std_alphabet (firstn 16 stream)) cost
  (Some m_bcrypt_Prefix2b) = KOk key /\
  newhash_bcrypt L0 kdf stream pw cost =
  NOk
  (canon_bcrypt cost (be64_encode bcrypt_std_alphabet (firstn 16 stream))
  (be64_encode bcrypt_std_alphabet key)) /\
  len (be64_encode bcrypt_std_alphabet (firstn 16 stream)) = m_bcrypt_SaltLength /\
  over bcrypt_std_alphabet (be64_encode bcrypt_std_alphabet (firstn 16 stream)) /\
  len (be64_encode bcrypt_std_alphabet key) = m_bcrypt_sumLength /\
  over bcrypt_std_alphabet (be64_encode bcrypt_std_alphabet key) /\
  length (cost_text cost) = 2%nat /\ is_digits (cost_text cost) = true.
Proof. exact bcrypt_canonical. Qed.

Theorem C12_bcrypt_params_of_fresh :
  forall (kdf : kdf_t) (stream pw : bytes) (cost : Z),
  kdf_ok kdf T_bcrypt 23 ->
  good_stream stream 16 ->
  L_bcrypt_MinCost L0 <= cost <= L_bcrypt_MaxCost L0 ->
  forall h : bytes,
  newhash_bcrypt L0 kdf stream pw cost = NOk h ->
  params_bcrypt h =
  POkP (be64_encode bcrypt_std_alphabet (firstn 16 stream)) [cost] m_bcrypt_Prefix2b false.
Proof. exact bcrypt_params_of_fresh. Qed.

Theorem C12_bcrypt_reassemble :
  forall (kdf : kdf_t) (stream pw : bytes) (cost : Z),
  kdf_ok kdf T_bcrypt 23 ->
  good_stream stream 16 ->
  L_bcrypt_MinCost L0 <= cost <= L_bcrypt_MaxCost L0 ->
  forall (h s : bytes) (c : Z) (pf key : bytes),
  newhash_bcrypt L0 kdf stream pw cost = NOk h ->
  params_bcrypt h = POkP s [c] pf false ->
  key_bcrypt L0 kdf pw s c (Some pf) = KOk key ->
  pf = m_bcrypt_Prefix2b /\ h = canon_bcrypt c s (be64_encode bcrypt_std_alphabet key).
Proof. exact bcrypt_reassemble. Qed.

Theorem C12_nthash_canonical :
  forall (kdf : kdf_t) (nt : bytes -> bytes) (pw : bytes),
  kdf_ok kdf T_nthash 16 ->
  len (nt pw) mod 2 = 0 ->
  len (nt pw) <= L_nthash_MaxPw L0 ->
  exists key : bytes,
  key_nthash L0 kdf (nt pw) = KOk key /\
  newhash_nthash L0 kdf nt pw = NOk (canon_nthash (hex_encode key)) /\
  len (hex_encode key) = m_nthash_sumLength /\ over hex_alphabet (hex_encode key).
Proof. exact nthash_canonical. Qed.

Theorem C12_nthash_reassemble :
  forall (kdf : kdf_t) (nt : bytes -> bytes) (pw : bytes),
  kdf_ok kdf T_nthash 16 ->
  len (nt pw) mod 2 = 0 ->
  len (nt pw) <= L_nthash_MaxPw L0 ->
  forall h key : bytes,
  newhash_nthash L0 kdf nt pw = NOk h ->
  key_nthash L0 kdf (nt pw) = KOk key -> h = canon_nthash (hex_encode key).
Proof. exact nthash_reassemble. Qed.

Theorem C12_argon2_canonical :
  forall (kdf : kdf_t) (stream pw : bytes) (memory time : Z),
  kdf_ok kdf T_argon2 32 ->
  good_stream stream 8 ->
  L_argon2_MinMemory L0 <= memory < 2 ^ 32 ->
  L_argon2_MinTime L0 <= time < 2 ^ 32 ->
  exists key : bytes,
  key_argon2 L0 kdf pw (be64_encode base64_std_alphabet (firstn 8 stream)) memory time
  m_argon2_DefaultThreads (Some (m_argon2_Prefix2id, m_argon2_Version13)) =
  KOk key /\
  newhash_argon2 L0 kdf stream pw memory time =
  NOk
  (canon_argon2 memory time (be64_encode base64_std_alphabet (firstn 8 stream))
  (be64_encode base64_std_alphabet key)) /\
  len (be64_encode base64_std_alphabet (firstn 8 stream)) = m_argon2_DefaultSaltLength /\
  over base64_std_alphabet (be64_encode base64_std_alphabet (firstn 8 stream)) /\
  length (be64_encode base64_std_alphabet key) = 43%nat /\
  over base64_std_alphabet (be64_encode base64_std_alphabet key).
Proof. exact argon2_canonical. Qed.

Theorem C12_argon2_recog_of_fresh :
  forall (kdf : kdf_t) (stream pw : bytes) (memory time : Z),
  kdf_ok kdf T_argon2 32 ->
  good_stream stream 8 ->
  L_argon2_MinMemory L0 <= memory < 2 ^ 32 ->
  L_argon2_MinTime L0 <= time < 2 ^ 32 ->
  forall h : bytes,
  newhash_argon2 L0 kdf stream pw memory time = NOk h ->
  exists key : bytes,
  key_argon2 L0 kdf pw (be64_encode base64_std_alphabet (firstn 8 stream)) memory time
  m_argon2_DefaultThreads (Some (m_argon2_Prefix2id, m_argon2_Version13)) =
  KOk key /\
  recog_argon2 h =
  Some
  (mk_r (be64_encode base64_std_alphabet (firstn 8 stream))
  [memory; time; m_argon2_DefaultThreads; m_argon2_Version13] m_argon2_Prefix2id false
  (be64_encode base64_std_alphabet key)).
Proof. exact argon2_recog_of_fresh. Qed.

Theorem C12_argon2_reassemble :
  forall (kdf : kdf_t) (stream pw : bytes) (memory time : Z),
  kdf_ok kdf T_argon2 32 ->
  good_stream stream 8 ->
  L_argon2_MinMemory L0 <= memory < 2 ^ 32 ->
  L_argon2_MinTime L0 <= time < 2 ^ 32 ->
  forall (h : bytes) (r : rfields) (key : bytes),
  newhash_argon2 L0 kdf stream pw memory time = NOk h ->
  recog_argon2 h = Some r ->
  key_argon2 L0 kdf pw (r_salt r) (nth 0 (r_nums r) 0) (nth 1 (r_nums r) 0)
  (nth 2 (r_nums r) 0) (Some (r_prefix r, nth 3 (r_nums r) 0)) = KOk key ->
  h =
  canon_argon2 (nth 0 (r_nums r) 0) (nth 1 (r_nums r) 0) (r_salt r)
  (be64_encode base64_std_alphabet key).
Proof. exact argon2_reassemble. Qed.

Theorem C12_md5_check_iff_key :
  forall (L : limits) (kdf : Z -> list bytes -> list Z -> option (list Z)) (h pw : bytes) (r : rfields),
  (forall (bs : list bytes) (ns k : list Z), kdf T_md5 bs ns = Some k -> length k = 16%nat) ->
  recog_md5 h = Some r ->
  check_md5 L kdf h pw = VMatch <->
  (exists key : bytes, key_md5 L kdf pw (r_salt r) = KOk key /\ le64 key = r_sum r).
Proof. exact md5_check_iff_key. Qed.

Theorem C12_sha256_check_iff_key :
  forall (L : limits) (kdf : Z -> list bytes -> list Z -> option (list Z)) (h pw : bytes) (r : rfields),
  (forall (bs : list bytes) (ns k : list Z), kdf T_sha256 bs ns = Some k -> length k = 32%nat) ->
  recog_sha256 h = Some r ->
  check_sha256 L kdf h pw = VMatch <->
  (exists key : bytes, key_sha256 L kdf pw (r_salt r) (num0 r) = KOk key /\ le64 key = r_sum r).
Proof. exact sha256_check_iff_key. Qed.

Theorem C12_sha512_check_iff_key :
  forall (L : limits) (kdf : Z -> list bytes -> list Z -> option (list Z)) (h pw : bytes) (r : rfields),
  (forall (bs : list bytes) (ns k : list Z), kdf T_sha512 bs ns = Some k -> length k = 64%nat) ->
  recog_sha512 h = Some r ->
  check_sha512 L kdf h pw = VMatch <->
  (exists key : bytes, key_sha512 L kdf pw (r_salt r) (num0 r) = KOk key /\ le64 key = r_sum r).
Proof. exact sha512_check_iff_key. Qed.

Theorem C12_sha1_check_iff_key :
  forall (L : limits) (kdf : Z -> list bytes -> list Z -> option (list Z)) (rr : Z) 
  (h pw : bytes) (r : rfields),
  (forall (bs : list bytes) (ns k : list Z), kdf T_sha1 bs ns = Some k -> length k = 21%nat) ->
  recog_sha1 h = Some r ->
  check_sha1 L kdf rr h pw = VMatch <->
  (exists key : bytes, key_sha1 L kdf rr pw (r_salt r) (num0 r) = KOk key /\ le64 key = r_sum r).
Proof. exact sha1_check_iff_key. Qed.

Theorem C12_sunmd5_check_iff_key :
  forall (L : limits) (kdf : Z -> list bytes -> list Z -> option (list Z)) (h pw : bytes) (r : rfields),
  (forall (bs : list bytes) (ns k : list Z), kdf T_sunmd5 bs ns = Some k -> length k = 16%nat) ->
  recog_sunmd5 h = Some r ->
  check_sunmd5 L kdf h pw = VMatch <->
  (exists key : bytes,
  key_sunmd5 L kdf pw (r_salt r) (num0 r) (Some (r_prefix r, r_flag r)) = KOk key /\
  le64 key = r_sum r).
Proof. exact sunmd5_check_iff_key. Qed.

Theorem C12_des_check_iff_key :
  forall (L : limits) (kdf : Z -> list bytes -> list Z -> option (list Z)) (h pw : bytes) (r : rfields),
  (forall (bs : list bytes) (ns k : list Z), kdf T_des bs ns = Some k -> length k = 8%nat) ->
  recog_des h = Some r ->
  check_des L kdf h pw = VMatch <->
  (exists key : bytes, key_des L kdf pw (r_salt r) = KOk key /\ be64 key = r_sum r).
Proof. exact des_check_iff_key. Qed.

Theorem C12_desext_check_iff_key :
  forall (L : limits) (kdf : Z -> list bytes -> list Z -> option (list Z)) (h pw : bytes) (r : rfields),
  (forall (bs : list bytes) (ns k : list Z), kdf T_desext bs ns = Some k -> length k = 8%nat) ->
  recog_desext h = Some r ->
  check_desext L kdf h pw = VMatch <->
  (exists key : bytes, key_desext L kdf pw (r_salt r) (num0 r) = KOk key /\ be64 key = r_sum r).
Proof. exact desext_check_iff_key. Qed.

Theorem C12_bcrypt_check_iff_key :
  forall (L : limits) (kdf : Z -> list bytes -> list Z -> option (list Z)) (h pw : bytes) (r : rfields),
  (forall (bs : list bytes) (ns k : list Z), kdf T_bcrypt bs ns = Some k -> length k = 23%nat) ->
  recog_bcrypt h = Some r ->
  check_bcrypt L kdf h pw = VMatch <->
  (exists key : bytes,
  key_bcrypt L kdf pw (r_salt r) (num0 r) (Some (r_prefix r)) = KOk key /\
  be64_encode bcrypt_std_alphabet key = r_sum r).
Proof. exact bcrypt_check_iff_key. Qed.

Theorem C12_nthash_check_iff_key :
  forall (L : limits) (kdf : Z -> list bytes -> list Z -> option (list Z)) (nt : bytes -> bytes)
  (h pw : bytes) (r : rfields),
  (forall (bs : list bytes) (ns k : list Z), kdf T_nthash bs ns = Some k -> length k = 16%nat) ->
  recog_nthash h = Some r ->
  check_nthash L kdf nt h pw = VMatch <->
  (exists key : bytes, key_nthash L kdf (nt pw) = KOk key /\ hex_encode key = r_sum r).
Proof. exact nthash_check_iff_key. Qed.

Theorem C12_argon2_check_iff_key :
  forall (L : limits) (kdf : kdf_t) (h pw : bytes) (r : rfields),
  recog_argon2 h = Some r ->
  check_argon2 L kdf h pw = VMatch <->
  (exists key : bytes,
  key_argon2 L kdf pw (r_salt r) (nth 0 (r_nums r) 0) (nth 1 (r_nums r) 0)
  (nth 2 (r_nums r) 0) (Some (r_prefix r, nth 3 (r_nums r) 0)) = KOk key /\
  be64_encode base64_std_alphabet key = r_sum r).
Proof. exact argon2_check_iff_key. Qed.

