(* C03 — NT hash: what MD4 is applied to is UTF-16LE of the password text.  Statements only.
   The library converts the password with []rune(s) and unicode/utf16.Encode (model Kdf/NtHash.v, compared with the
   library and with libxcrypt on every run).  Proved: for EVERY sequence of Unicode scalar values, converting its
   UTF-8 encoding (RFC 3629) yields exactly the UTF-16 code units of those values (RFC 2781: one unit below U+10000,
   a surrogate pair above), low byte first; no replacement character appears and nothing is dropped. *)
Require Import GC.Base.Bytes GC.Kdf.NtHash GC.Kdf.NtHashSpec.
Require Import Lia.

Theorem C03_nthash_utf8_decoded_exactly : forall cps, Forall scalar cps ->
  forall fuel, (length (flat_map utf8_enc cps) <= fuel)%nat -> runes fuel (flat_map utf8_enc cps) = cps.
Proof. exact runes_utf8. Qed.

Theorem C03_nthash_password_is_utf16le : forall cps, Forall scalar cps ->
  encodePassword (flat_map utf8_enc cps) = flat_map le16 (flat_map utf16_enc cps).
Proof. exact encodePassword_utf16le. Qed.

Theorem C03_nthash_units_are_16_bit : forall c, scalar c -> Forall (fun u => 0 <= u < 65536) (utf16_enc c).
Proof. exact utf16_enc_units. Qed.

(* the specification functions pinned by published encodings: "p" U+00E9 U+20AC U+1F600 *)
Example C03_nthash_spec_known_answers :
  flat_map utf8_enc [112; 233; 8364; 128512] = [112; 195; 169; 226; 130; 172; 240; 159; 152; 128]
  /\ flat_map utf16_enc [112; 233; 8364; 128512] = [112; 233; 8364; 55357; 56832]
  /\ Forall scalar [112; 233; 8364; 128512]
  /\ encodePassword [112; 195; 169; 226; 130; 172; 240; 159; 152; 128] = [112; 0; 233; 0; 172; 32; 61; 216; 0; 222].
Proof.
  split; [vm_compute; reflexivity|]. split; [vm_compute; reflexivity|]. split.
  - unfold scalar. repeat constructor; lia.
  - vm_compute. reflexivity.
Qed.
