(* C13 — key derivation is pure: arguments untouched over their full capacity, result not aliased.
   Statements only.  The hash primitives (crypto/*, x/crypto) are assumed to read their arguments only and to
   return fresh storage; what is modelled is every slice operation the Key functions themselves perform. *)
Require Import GC.Base.Bytes GC.Base.GoSlice GC.Schemes.Purity.

(* bcrypt (the only Key that re-slices and appends to its argument): for every heap, every password slice with
   any spare capacity, every prefix variant: all arrays existing before the call keep their contents over
   their full length, and the result lives in an array allocated by the call *)
Theorem C13_bcrypt : forall h pw is2 is2b result a, (a < h_next h)%nat ->
  unchanged h (fst (bcrypt_key_heap bcrypt_setup h pw is2 is2b result)) a
  /\ fresh_in h (snd (bcrypt_key_heap bcrypt_setup h pw is2 is2b result)).
Proof. exact bcrypt_pure. Qed.

(* the decisive lemma: append on a slice whose capacity equals its length never writes the old array *)
Theorem C13_append_full_cap : forall h s bs a, bs <> [] -> s_cap s = s_len s -> (a < h_next h)%nat ->
  unchanged h (fst (append h s bs)) a.
Proof. exact append_full_cap. Qed.

(* all other Key functions only read (re-slices included) and allocate their result *)
Theorem C13_readonly : forall h result a, (a < h_next h)%nat ->
  unchanged h (fst (readonly_key_heap h result)) a /\ fresh_in h (snd (readonly_key_heap h result)).
Proof. exact readonly_pure. Qed.

Theorem C13_results_disjoint : forall h r1 r2,
  let '(h1, s1) := readonly_key_heap h r1 in
  let '(_, s2) := readonly_key_heap h1 r2 in s_arr s1 <> s_arr s2.
Proof. exact results_disjoint. Qed.

(* the model distinguishes the defect that was repaired (D4): with the pinned `append(key, 0)` the byte behind
   the password is zeroed — exactly the byte observed on the pinned tree *)
Theorem C13_pinned_refuted :
  let h := {| h_arrays := [(0%nat, repeat 65 16)]; h_next := 1 |} in
  let pw := {| s_arr := 0; s_off := 0; s_len := 8; s_cap := 16 |} in
  contents (fst (bcrypt_key_heap bcrypt_setup_pinned h pw false true [])) 0 = repeat 65 8 ++ [0] ++ repeat 65 7.
Proof. exact bcrypt_pinned_refuted. Qed.
