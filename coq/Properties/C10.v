(* C10 — Marshal and Unmarshal are inverse on every supported struct shape.
   Statements only.  [C10_full_statement] is the property for the class of unambiguous layouts and
   presentable values; it is proved (C10_class). *)
Require Import GC.Base.Bytes GC.Codec.Types GC.Codec.Strconv GC.Codec.StrconvProofs GC.Codec.TypeInfo
               GC.Codec.Marshal GC.Codec.Unmarshal GC.Codec.Codec GC.Codec.Class GC.Codec.ClassProofs
               GC.Schemes.Layouts GC.Generated.Gen_layouts GC.Tie.Tie_layouts.

(* the property, for the class of unambiguous layouts and presentable values (DESIGN.md §6 C10) *)
Definition C10_full_statement : Prop :=
  forall cb ti sv s,
    unambiguous ti = true -> paths_ok ti = true -> numreq_ok ti = true -> presentable cb ti sv = true ->
    marshal cb ti sv = Ok s ->
    exists m, unmarshal cb ti s = Ok m /\ agree m (expected ti sv).

(* PROVED: for every layout in the class (any number of fields, groups, inline chains, optional fields,
   prefix) and every presentable value, for arbitrary text-(un)marshaler behaviours [cb]: the string Marshal
   produces unmarshals into a fresh value that agrees field by field with the one marshalled *)
Theorem C10_class : C10_full_statement.
Proof. exact class_roundtrip. Qed.

(* every layout built by getTypeInfo (type_info) satisfies the NumReqValues hypothesis of the class theorem *)
Theorem C10_numreq : forall st ti, type_info st = Ok ti -> numreq_ok ti = true.
Proof. exact type_info_numreq. Qed.

(* presentable values are accepted by Marshal, so C10_class is not vacuous on them *)
Theorem C10_presentable_marshals : forall cb ti sv,
  unambiguous ti = true -> presentable cb ti sv = true -> exists s, marshal cb ti sv = Ok s.
Proof. exact presentable_marshals. Qed.

(* integers: Parse inverts Format for every base 2..36 and every bit size, signed and unsigned; the emitted
   digits never contain a delimiter *)
Theorem C10_uint_roundtrip : forall v base bits,
  2 <= base <= 36 -> 1 <= bits <= 64 -> 0 <= v < 2 ^ bits ->
  ParseUint (FormatUint v base) base bits = inl v.
Proof. exact parse_format_uint. Qed.

Theorem C10_int_roundtrip : forall v base bits,
  2 <= base <= 36 -> 1 <= bits <= 64 -> - 2 ^ (bits - 1) <= v < 2 ^ (bits - 1) ->
  ParseInt (FormatInt v base) base bits = inl v.
Proof. exact parse_format_int. Qed.

Theorem C10_uint_chars : forall v base, 2 <= base <= 36 -> 0 <= v < 2 ^ 64 ->
  FormatUint v base <> [] /\ Forall (fun c => (48 <= c <= 57) \/ (97 <= c <= 122)) (FormatUint v base).
Proof. exact format_uint_chars. Qed.

Theorem C10_int_chars : forall v base, 2 <= base <= 36 -> - 2 ^ 63 <= v < 2 ^ 63 ->
  FormatInt v base <> [] /\ Forall (fun c => (48 <= c <= 57) \/ (97 <= c <= 122) \/ c = 45) (FormatInt v base).
Proof. exact format_int_chars. Qed.

(* the shipped layouts (generated from /repo on every run) are the committed ones ... *)
Theorem C10_layouts_tied :
  layout_argon2 = m_layout_argon2 /\ layout_bcrypt = m_layout_bcrypt /\ layout_des = m_layout_des /\
  layout_desext = m_layout_desext /\ layout_md5 = m_layout_md5 /\ layout_nthash = m_layout_nthash /\
  layout_sha1 = m_layout_sha1 /\ layout_sha256 = m_layout_sha256 /\ layout_sha512 = m_layout_sha512 /\
  layout_sunmd5 = m_layout_sunmd5 /\ layout_sunmd5_salt = m_layout_sunmd5_salt.
Proof.
  exact (conj tie_layout_argon2 (conj tie_layout_bcrypt (conj tie_layout_des (conj tie_layout_desext
        (conj tie_layout_md5 (conj tie_layout_nthash (conj tie_layout_sha1 (conj tie_layout_sha256
        (conj tie_layout_sha512 (conj tie_layout_sunmd5 tie_layout_sunmd5_salt)))))))))).
Qed.

(* ... and nine of them lie inside the class (the two Sun MD5 layouts have adjacent positional optional
   fields and are treated layout by layout) *)
Definition in_class (st : list sfield) : bool :=
  match type_info st with Ok ti => unambiguous ti && paths_ok ti && numreq_ok ti | _ => false end.
Example C10_shipped_in_class :
  map in_class [m_layout_argon2; m_layout_bcrypt; m_layout_des; m_layout_desext; m_layout_md5; m_layout_nthash;
                m_layout_sha1; m_layout_sha256; m_layout_sha512] = repeat true 9.
Proof. vm_compute. reflexivity. Qed.
