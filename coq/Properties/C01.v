(* C01 — a freshly generated hash verifies with the password it was made from, through the package checker and through
   the top-level dispatcher.  Statements only (generated from the lemmas' types; each closed by [exact]).
   L0 = the limits committed in Schemes/Consts.v (tied to /repo by Tie_consts); kdf_ok = the abstract derivation returns
   a key of the scheme's length for every input; good_stream = crypto/rand delivers the bytes NewHash asks for.
   Each theorem: for EVERY password in the scheme's domain (any bytes, any length), every cost inside the exported
   bounds and every random draw, NewHash succeeds, the package's Check returns nil, and crypt.Check computes a prefix
   under which the documented registrations hold this scheme's handler (C07 then gives the routing). *)
Require Import GC.Base.Bytes GC.Schemes.Keys GC.Schemes.Checks GC.Schemes.NewHash GC.Schemes.Consts GC.Dispatch.Dispatch GC.Dispatch.Schemes GC.Dispatch.Builtin GC.Schemes.FreshBase GC.Schemes.FreshPlain GC.Schemes.FreshOther.

Theorem C01_md5_fresh_verifies :
  forall (kdf : kdf_t) (stream pw : bytes),
  kdf_ok kdf T_md5 16 ->
  good_stream stream 8 ->
  exists h : bytes,
  newhash_md5 L0 kdf stream pw = NOk h /\
  check_md5 L0 kdf h pw = VMatch /\
  prefix_of h = Some m_md5_Prefix /\ In (m_md5_Prefix, S_md5) documented_registrations.
Proof. exact md5_fresh_verifies. Qed.

Theorem C01_sha256_fresh_verifies :
  forall (kdf : kdf_t) (stream pw : bytes) (rounds : Z),
  kdf_ok kdf T_sha256 32 ->
  good_stream stream 16 ->
  L_sha256_MinRounds L0 <= rounds <= L_sha256_MaxRounds L0 ->
  exists h : bytes,
  newhash_sha256 L0 kdf stream pw rounds = NOk h /\
  check_sha256 L0 kdf h pw = VMatch /\
  prefix_of h = Some m_sha256_Prefix /\ In (m_sha256_Prefix, S_sha256) documented_registrations.
Proof. exact sha256_fresh_verifies. Qed.

Theorem C01_sha512_fresh_verifies :
  forall (kdf : kdf_t) (stream pw : bytes) (rounds : Z),
  kdf_ok kdf T_sha512 64 ->
  good_stream stream 16 ->
  L_sha512_MinRounds L0 <= rounds <= L_sha512_MaxRounds L0 ->
  exists h : bytes,
  newhash_sha512 L0 kdf stream pw rounds = NOk h /\
  check_sha512 L0 kdf h pw = VMatch /\
  prefix_of h = Some m_sha512_Prefix /\ In (m_sha512_Prefix, S_sha512) documented_registrations.
Proof. exact sha512_fresh_verifies. Qed.

Theorem C01_sha1_fresh_verifies :
  forall (kdf : kdf_t) (stream pw : bytes) (rounds : Z),
  kdf_ok kdf T_sha1 21 ->
  good_stream stream 8 ->
  L_sha1_MinRounds L0 <= rounds < 2 ^ 32 ->
  rounds <> L_sha1_RandomRounds L0 ->
  forall rr : Z,
  exists h : bytes,
  newhash_sha1 L0 kdf stream pw rounds = NOk h /\
  check_sha1 L0 kdf rr h pw = VMatch /\
  prefix_of h = Some m_sha1_Prefix /\ In (m_sha1_Prefix, S_sha1) documented_registrations.
Proof. exact sha1_fresh_verifies. Qed.

Theorem C01_sha1_random_fresh_verifies :
  forall (kdf : kdf_t) (stream pw : bytes),
  kdf_ok kdf T_sha1 21 ->
  good_stream stream 12 ->
  forall rr : Z,
  exists h : bytes,
  newhash_sha1 L0 kdf stream pw (L_sha1_RandomRounds L0) = NOk h /\
  check_sha1 L0 kdf rr h pw = VMatch /\
  prefix_of h = Some m_sha1_Prefix /\ In (m_sha1_Prefix, S_sha1) documented_registrations.
Proof. exact sha1_random_fresh_verifies. Qed.

Theorem C01_sunmd5_fresh_verifies :
  forall (kdf : kdf_t) (stream pw : bytes) (rounds : Z),
  kdf_ok kdf T_sunmd5 16 ->
  good_stream stream 8 ->
  len pw <= L_sunmd5_MaxPw L0 ->
  0 <= rounds <= L_sunmd5_MaxRounds L0 ->
  exists h : bytes,
  newhash_sunmd5 L0 kdf stream pw rounds = NOk h /\
  check_sunmd5 L0 kdf h pw = VMatch /\
  prefix_of h = Some (sunmd5_prefix_for rounds) /\
  In (sunmd5_prefix_for rounds, S_sunmd5) documented_registrations.
Proof. exact sunmd5_fresh_verifies. Qed.

Theorem C01_des_fresh_verifies :
  forall (kdf : kdf_t) (stream pw : bytes),
  kdf_ok kdf T_des 8 ->
  good_stream stream 2 ->
  len pw <= L_des_MaxPw L0 ->
  exists h : bytes,
  newhash_des L0 kdf stream pw = NOk h /\
  check_des L0 kdf h pw = VMatch /\
  prefix_of h = Some m_des_Prefix /\ In (m_des_Prefix, S_des) documented_registrations.
Proof. exact des_fresh_verifies. Qed.

Theorem C01_desext_fresh_verifies :
  forall (kdf : kdf_t) (stream pw : bytes) (rounds : Z),
  kdf_ok kdf T_desext 8 ->
  good_stream stream 4 ->
  L_desext_MinRounds L0 <= rounds <= L_desext_MaxRounds L0 ->
  exists h : bytes,
  newhash_desext L0 kdf stream pw rounds = NOk h /\
  check_desext L0 kdf h pw = VMatch /\
  prefix_of h = Some m_desext_Prefix /\ In (m_desext_Prefix, S_desext) documented_registrations.
Proof. exact desext_fresh_verifies. Qed.

Theorem C01_bcrypt_fresh_verifies :
  forall (kdf : kdf_t) (stream pw : bytes) (cost : Z),
  kdf_ok kdf T_bcrypt 23 ->
  good_stream stream 16 ->
  L_bcrypt_MinCost L0 <= cost <= L_bcrypt_MaxCost L0 ->
  exists h : bytes,
  newhash_bcrypt L0 kdf stream pw cost = NOk h /\
  check_bcrypt L0 kdf h pw = VMatch /\
  prefix_of h = Some m_bcrypt_Prefix2b /\ In (m_bcrypt_Prefix2b, S_bcrypt) documented_registrations.
Proof. exact bcrypt_fresh_verifies. Qed.

Theorem C01_nthash_fresh_verifies :
  forall (kdf : kdf_t) (nt : bytes -> bytes) (pw : bytes),
  kdf_ok kdf T_nthash 16 ->
  len (nt pw) mod 2 = 0 ->
  len (nt pw) <= L_nthash_MaxPw L0 ->
  exists h : bytes,
  newhash_nthash L0 kdf nt pw = NOk h /\
  check_nthash L0 kdf nt h pw = VMatch /\
  prefix_of h = Some m_nthash_Prefix /\ In (m_nthash_Prefix, S_nthash) documented_registrations.
Proof. exact nthash_fresh_verifies. Qed.

Theorem C01_argon2_fresh_verifies :
  forall (kdf : kdf_t) (stream pw : bytes) (memory time : Z),
  kdf_ok kdf T_argon2 32 ->
  good_stream stream 8 ->
  L_argon2_MinMemory L0 <= memory < 2 ^ 32 ->
  L_argon2_MinTime L0 <= time < 2 ^ 32 ->
  exists h : bytes,
  newhash_argon2 L0 kdf stream pw memory time = NOk h /\
  check_argon2 L0 kdf h pw = VMatch /\
  prefix_of h = Some m_argon2_Prefix2id /\ In (m_argon2_Prefix2id, S_argon2) documented_registrations.
Proof. exact argon2_fresh_verifies. Qed.

(* membership in the documented registrations determines the handler the registry returns (prefixes are pairwise
   distinct), whatever the order in which the init functions ran; the generated registrations equal the documented
   ones by C07_builtin (Tie_regs) *)
Require Import GC.Dispatch.BuiltinFacts.
Theorem C01_routing : forall p s, In (p, s) documented_registrations ->
  lookup scheme_id documented_registrations p = Some s /\ lookup scheme_id (rev documented_registrations) p = Some s.
Proof. exact documented_lookup. Qed.
