(* C03 — Sun MD5: the coin-toss bit selector.  Statements only.
   sunmd5.go's `bit` closure (off %= 128; digest[off/8] & (1 << (off%8)) != 0), as modelled literally in Kdf/SunMd5.v
   and compared with the library and libxcrypt on every run, reads bit (off mod 128) of the MD5 digest taken as ONE
   128-bit little-endian number — the bit numbering of the published algorithm — for EVERY digest and every selector. *)
Require Import GC.Base.Bytes GC.Kdf.KdfBase GC.Kdf.SunMd5 GC.Kdf.SunMd5Spec GC.Kdf.SunMd5Rounds GC.Schemes.Consts.

Theorem C03_sunmd5_bit_is_digest_bit : forall d off, Forall byte_ok d ->
  bit d off = Z.b2z (Z.testbit (le_num d) (off mod 128)).
Proof. exact bit_is_testbit. Qed.

Theorem C03_sunmd5_digest_is_128_bits : forall d, Forall byte_ok d -> 0 <= le_num d < 256 ^ Z.of_nat (length d).
Proof. exact le_num_bound. Qed.

Theorem C03_sunmd5_bit_is_0_or_1 : forall d off, 0 <= bit d off <= 1.
Proof. exact bit_01. Qed.


(* indA / indB: bit j of the gathered byte is the digest bit selected by ind7[base + j]; the byte has no other bit *)
Theorem C03_sunmd5_gather_bit : forall d base j, Forall byte_ok d -> 0 <= j < 8 ->
  Z.testbit (gather d base) j = Z.testbit (le_num d) (ind7 d (base + j) mod 128).
Proof. exact gather_bit. Qed.

Theorem C03_sunmd5_gather_is_a_byte : forall d base, 0 <= gather d base < 256.
Proof. exact gather_bound. Qed.

(* the coin is the XOR of two digest bits *)
Theorem C03_sunmd5_coin_is_xor_of_digest_bits : forall d i, Forall byte_ok d ->
  coin d i = xorb (Z.testbit (le_num d) ((Z.land (Z.shiftr (gather d 0) (bit d i)) 127) mod 128))
                  (Z.testbit (le_num d) ((Z.land (Z.shiftr (gather d 8) (bit d (u32 (i + 64)))) 127) mod 128)).
Proof. exact coin_is_xor_of_digest_bits. Qed.


(* the selectors the round function builds are below 128 already, so the statements hold without the reduction *)
Theorem C03_sunmd5_ind7_range : forall d j, 0 <= ind7 d j < 128.
Proof. exact ind7_range. Qed.

Theorem C03_sunmd5_gather_bit_exact : forall d base j, Forall byte_ok d -> 0 <= j < 8 ->
  Z.testbit (gather d base) j = Z.testbit (le_num d) (ind7 d (base + j)).
Proof. exact gather_bit_exact. Qed.

Theorem C03_sunmd5_coin_exact : forall d i, Forall byte_ok d ->
  coin d i = xorb (Z.testbit (le_num d) (Z.land (Z.shiftr (gather d 0) (bit d i)) 127))
                  (Z.testbit (le_num d) (Z.land (Z.shiftr (gather d 8) (bit d (u32 (i + 64)))) 127)).
Proof. exact coin_exact. Qed.


(* Key performs exactly rounds + 4096 rounds, the k-th with the counter k written in decimal: `rounds += BasicRounds` in
   uint32 cannot wrap for an accepted round count (MaxRounds + BasicRounds = 2^32 - 1; both constants tied to /repo) *)
Theorem C03_sunmd5_round_sequence : forall H phrase permFinal pw saltString nrounds, 0 <= nrounds <= m_sunmd5_MaxRounds ->
  Key H phrase permFinal pw saltString nrounds m_sunmd5_BasicRounds
  = permute (fold_left (fun acc k => round H phrase acc k)
                       (map Z.of_nat (seq 0 (Z.to_nat (nrounds + 4096)))) (H (pw ++ saltString))) permFinal.
Proof. exact Key_round_sequence. Qed.

Theorem C03_sunmd5_round_count : forall nrounds, 0 <= nrounds ->
  Z.of_nat (length (map Z.of_nat (seq 0 (Z.to_nat (nrounds + 4096))))) = nrounds + 4096.
Proof. exact round_sequence_length. Qed.

Example C03_sunmd5_max_rounds_fill_uint32 : m_sunmd5_MaxRounds + m_sunmd5_BasicRounds = 2 ^ 32 - 1.
Proof. reflexivity. Qed.

(* non-vacuity: a concrete 16-byte digest; selector 130 wraps to bit 2 of byte 0, selector 127 is the top bit of byte 15 *)
Example C03_sunmd5_bit_example :
  let d := [5; 0; 0; 0; 0; 0; 0; 0; 0; 0; 0; 0; 0; 0; 0; 128] in
  Forall byte_ok d /\ bit d 130 = 1 /\ bit d 1 = 0 /\ bit d 127 = 1 /\ le_num d = 5 + 128 * 256 ^ 15.
Proof.
  cbv zeta. split; [unfold byte_ok; repeat constructor; lia|].
  split; [vm_compute; reflexivity|]. split; [vm_compute; reflexivity|]. split; vm_compute; reflexivity.
Qed.
