(* The KDF models applied to the committed constants and tables: the functions the extracted driver exposes.
   Primitives stay parameters (the driver supplies them over a pipe to the Go harness). *)
Require Import GC.Base.Bytes GC.Kdf.KdfBase GC.Kdf.Md5Crypt GC.Kdf.Sha2Crypt GC.Kdf.Sha1Crypt GC.Kdf.SunMd5 GC.Kdf.NtHash
               GC.Kdf.Bcrypt GC.Kdf.DesCrypt GC.Kdf.DesTables GC.Kdf.Argon2 GC.Schemes.Consts.

Definition x_md5crypt (H : bytes -> bytes) (pw salt : bytes) := Md5Crypt.Encrypt H m_md5_permFinal pw salt m_md5_Prefix.
Definition x_md5crypt_spec (H : bytes -> bytes) (pw salt : bytes) := Md5Crypt.spec_Encrypt H m_md5_permFinal pw salt m_md5_Prefix.
Definition x_sha256crypt (H : bytes -> bytes) (pw salt : bytes) (r : Z) := Sha2Crypt.Encrypt H 32 pw salt r m_sha256_permFinal.
Definition x_sha256crypt_spec (H : bytes -> bytes) (pw salt : bytes) (r : Z) := Sha2Crypt.spec_Encrypt H pw salt r m_sha256_permFinal.
Definition x_sha512crypt (H : bytes -> bytes) (pw salt : bytes) (r : Z) := Sha2Crypt.Encrypt H 64 pw salt r m_sha512_permFinal.
Definition x_sha512crypt_spec (H : bytes -> bytes) (pw salt : bytes) (r : Z) := Sha2Crypt.spec_Encrypt H pw salt r m_sha512_permFinal.
Definition x_sha1crypt (HM : bytes -> bytes -> bytes) (pw salt : bytes) (r : Z) := Sha1Crypt.Key HM m_sha1_Prefix m_sha1_permFinal pw salt r.
Definition x_sunmd5 (H : bytes -> bytes) (pw saltstring : bytes) (r : Z) :=
  SunMd5.Key H m_sunmd5_phrase m_sunmd5_permFinal pw saltstring r m_sunmd5_BasicRounds.
Definition x_nt_encode (s : bytes) := NtHash.encodePassword s.
Definition x_bcrypt (C : Type) (bf_new : bytes -> bytes -> option C) (bf_expand : bytes -> C -> C) (bf_encrypt : C -> bytes -> bytes)
           (key salt22 : bytes) (cost : Z) := Bcrypt.derive C bf_new bf_expand bf_encrypt m_bcrypt_alphabet key salt22 cost.
Definition x_bcrypt_spec (C : Type) (bf_new : bytes -> bytes -> option C) (bf_expand : bytes -> C -> C) (bf_encrypt : C -> bytes -> bytes)
           (key salt22 : bytes) (cost : Z) := Bcrypt.spec_derive C bf_new bf_expand bf_encrypt m_bcrypt_alphabet key salt22 cost.
Definition x_des (pw salt : bytes) :=
  DesCrypt.des_derive m_des_ie3264 m_des_cf6464 m_des_spe m_des_pcxRot m_des_ksMask m_hashutil_hash_decode pw salt.
Definition x_desext (pw salt : bytes) (r : Z) :=
  DesCrypt.desext_derive m_des_ie3264 m_des_cf6464 m_des_spe m_des_pcxRot m_des_ksMask m_hashutil_hash_decode pw salt r.

Definition x_argon2 (B2 : Z -> bytes -> bytes) (mode version : Z) (pw salt : bytes) (time memory threads keyLen : Z) :=
  Argon2.Key B2 mode version pw salt time memory threads keyLen.
Definition x_argon2_block (out in1 in2 : list Z) (xor : bool) := Argon2.process_block out in1 in2 xor.
Definition x_argon2_index (rand lanes segments threads n slice lane index : Z) :=
  Argon2.indexAlpha rand lanes segments threads n slice lane index.
