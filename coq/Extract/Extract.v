(* Extraction of the KDF models to OCaml: ExtrOcamlBasic only (bool, option, unit, list, prod, sumbool, sumor
   mapped to OCaml's own); Z, positive, nat stay the extracted inductives; no Extract Constant. *)
Require Import ExtrOcamlBasic.
Require Import GC.Extract.Wrap GC.Extract.WrapKdf.
Extraction "kdf.ml" x_md5crypt x_md5crypt_spec x_sha256crypt x_sha256crypt_spec x_sha512crypt x_sha512crypt_spec
  x_sha1crypt x_sunmd5 x_nt_encode x_bcrypt x_bcrypt_spec x_des x_desext x_argon2 x_argon2_block x_argon2_index x_kdf.
