(* The concrete derivation of Schemes/ConcreteBase.v as the extracted driver exposes it: one function that takes the
   scheme tag and the argument lists exactly as Schemes/Keys.v passes them to its [kdf] (the convention the C01 / C02 /
   C06 / C12 theorems quantify over), with the hash primitives as parameters. *)
Require Import GC.Base.Bytes GC.Schemes.ConcreteBase.

Definition x_kdf (MD5 SHA256 SHA512 MD4 : bytes -> bytes) (HMAC1 : bytes -> bytes -> bytes)
           (C : Type) (bf_new : bytes -> bytes -> option C) (bf_expand : bytes -> C -> C) (bf_encrypt : C -> bytes -> bytes)
           (B2 : Z -> bytes -> bytes) (tag : Z) (bs : list bytes) (ns : list Z) : option bytes :=
  kdf_models MD5 SHA256 SHA512 MD4 HMAC1 C bf_new bf_expand bf_encrypt B2 tag bs ns.
