(* Streaming decoder (StreamModel.dec_read / dec_run) on texts that are valid encodings. *)
Require Import GC.Base.Bytes GC.B64.B64Model GC.B64.B64Spec GC.B64.StreamModel.
Require Import GC.B64.B64Roundtrip GC.B64.B64Accept GC.B64.StreamPDecGen GC.B64.StreamPRead.

Arguments Nat.div : simpl never. Arguments Nat.modulo : simpl never.
Arguments Z.shiftl : simpl never. Arguments Z.shiftr : simpl never. Arguments Z.land : simpl never.
Arguments Z.lor : simpl never. Arguments Z.mul : simpl never. Arguments Z.add : simpl never.
Arguments Z.sub : simpl never. Arguments Z.of_nat : simpl never. Arguments Z.div : simpl never.
Arguments Z.modulo : simpl never.
Local Open Scope nat_scope.

(* ---------------- prefixes of canonical texts ---------------- *)
Lemma encode_nil_inv e rem : encode e rem = [] -> rem = [].
Proof.
  destruct rem as [|a [|b [|c r]]]; [reflexivity| | |]; cbn [encode]; cbv zeta; intros H; discriminate.
Qed.

Lemma encode_len_pad e p rem : e_pad e = Some p -> exists q, length (encode e rem) = 4 * q.
Proof.
  intros Ep. induction rem as [|a|a b|a b c r IH] using list_ind3.
  - exists 0. reflexivity.
  - exists 1. cbn [encode]. cbv zeta. rewrite Ep. reflexivity.
  - exists 1. cbn [encode]. cbv zeta. rewrite Ep. reflexivity.
  - destruct IH as [q Hq]. exists (S q). rewrite encode_cons3. cbv zeta. cbn [length]. lia.
Qed.

Lemma encode_len_short e rem : length (encode e rem) < 4 -> length rem < 3.
Proof.
  destruct rem as [|a [|b [|c r]]]; cbn [length]; try lia.
  rewrite encode_cons3. cbv zeta. cbn [length]. lia.
Qed.

Lemma encode_firstn_skipn e : forall k rem, 4 * k <= length (encode e rem) ->
  firstn (4 * k) (encode e rem) = encode e (firstn (3 * k) rem) /\
  skipn (4 * k) (encode e rem) = encode e (skipn (3 * k) rem).
Proof.
  induction k as [|k IH]; intros rem Hl.
  - split; reflexivity.
  - replace (4 * S k) with (S (S (S (S (4 * k))))) in * by lia.
    replace (3 * S k) with (S (S (S (3 * k)))) by lia.
    destruct rem as [|a [|b [|c r]]].
    + cbn [encode length] in Hl. lia.
    + cbn [firstn skipn]. cbn [encode] in *. cbv zeta in *. destruct (e_pad e); cbn [length] in Hl; [|lia].
      assert (k = 0) by lia. subst k. split; reflexivity.
    + cbn [firstn skipn]. cbn [encode] in *. cbv zeta in *. destruct (e_pad e); cbn [length] in Hl; [|lia].
      assert (k = 0) by lia. subst k. split; reflexivity.
    + rewrite encode_cons3 in *. cbv zeta in *. cbn [length] in Hl.
      destruct (IH r ltac:(lia)) as [I1 I2]. cbn [firstn skipn].
      rewrite I1, I2. rewrite encode_cons3. cbv zeta. split; reflexivity.
Qed.

Lemma wf_bytes_firstn n l : wf_bytes l = true -> wf_bytes (firstn n l) = true.
Proof.
  intros H. rewrite <- (firstn_skipn n l), wf_bytes_app in H. apply andb_true_iff in H. apply H.
Qed.

Lemma wf_bytes_skipn n l : wf_bytes l = true -> wf_bytes (skipn n l) = true.
Proof.
  intros H. rewrite <- (firstn_skipn n l), wf_bytes_app in H. apply andb_true_iff in H. apply H.
Qed.

Lemma decoded_len_quads e q : DecodedLen e (Z.of_nat (4 * q)) = Z.of_nat (3 * q).
Proof.
  unfold DecodedLen. rewrite !Nat2Z.inj_mul. change (Z.of_nat 4) with 4%Z. change (Z.of_nat 3) with 3%Z.
  destruct (e_pad e); Z.div_mod_to_equations; lia.
Qed.

Lemma decoded_len_short e n : (0 <= n < 4)%Z -> (DecodedLen e n <= 768)%Z.
Proof. intros H. unfold DecodedLen. destruct (e_pad e); Z.div_mod_to_equations; lia. Qed.

(* ---------------- the state between Read calls ---------------- *)
Record dinv (e : encoding) (x : ioerr) (s : dec_st) (rem : bytes) : Prop := mk_dinv {
  di_err : ds_err s = None;
  di_len : length (ds_buf s) < 4;
  di_wf : wf_bytes rem = true;
  di_txt : ds_buf s ++ stext (ds_script s) = encode e rem;
  di_r : rinv x s }.

Section Dec.
Variable e : encoding.
Hypothesis Hwf : enc_wf e = true.
Variable x : ioerr.

Lemma decode_canon_plain dcap A : wf_bytes A = true ->
  (DecodedLen e (lenZ (encode e A)) <= dcap)%Z -> decode_raw e dcap (encode e A) = DOk A None.
Proof.
  intros HA Hc. apply decode_raw_canon; auto. apply encode_strip; auto. apply (enc_wf_ok e Hwf).
Qed.

Lemma tail_err_x (y : ioerr) :
  match Some y with
  | Some EOF => if Nat.ltb 0 0 then Some UnexpectedEOF else Some EOF
  | z => z
  end = Some y.
Proof. destruct y; reflexivity. Qed.

Lemma dec_read_spec s rem plen : dinv e x s rem -> 1 <= plen ->
  match dec_read e s plen with
  | (d, err, s') =>
    (err = None /\ 1 <= length d /\
     exists rem', dinv e x s' rem' /\ ds_out s ++ rem = d ++ ds_out s' ++ rem') \/
    (err = Some x /\ d = [] /\ ds_out s = [] /\ rem = [])
  end.
Proof.
  intros [He Hl Hw Ht Hr] Hp. unfold dec_read.
  destruct (ds_out s) as [|o0 orest] eqn:Eo.
  2:{ left. split; [reflexivity|]. split.
      - rewrite firstn_length. cbn [length]. lia.
      - exists rem. split.
        + constructor; cbn [ds_err ds_buf ds_script]; auto.
        + cbn [ds_out]. rewrite app_assoc, firstn_skipn. reflexivity. }
  rewrite He. cbv beta zeta.
  destruct (refill_spec x plen (S (script_size (ds_script s))) s Hr (or_introl (Nat.lt_succ_diag_r _)))
    as (F1 & F2 & F3 & F4 & F5 & F6).
  set (s1 := refill (S (script_size (ds_script s))) plen s) in *.
  rewrite Ht in F4.
  pose proof (nnof_range plen) as Hnn.
  destruct (Nat.ltb (length (ds_buf s1)) 4) eqn:E4.
  - (* fewer than four symbols are left and the reader has finished *)
    apply Nat.ltb_lt in E4. destruct F5 as [F5|F5]; [lia|].
    destruct F1 as [[C _]|[Rx Sx]]; [contradiction|].
    rewrite Sx, stext_nil, app_nil_r in F4.
    assert (Hnil : ds_buf s1 = [] -> rem = []).
    { intros Hb. rewrite Hb in F4. apply (encode_nil_inv e). auto. }
    destruct (e_pad e) as [p|] eqn:Ep.
    + destruct (encode_len_pad e p rem Ep) as [q Hq].
      assert (Hb : ds_buf s1 = []).
      { apply length_zero_iff_nil. rewrite F4 in *. lia. }
      rewrite Hb, Rx. right. split; [destruct x; reflexivity|]. auto.
    + destruct (ds_buf s1) as [|c0 cr] eqn:Eb.
      * rewrite Rx. right. split; [destruct x; reflexivity|]. auto.
      * clear Hnil. rewrite F4.
        assert (Hrl : 1 <= length rem < 3).
        { split.
          - destruct rem; [discriminate|cbn [length]; lia].
          - apply (encode_len_short e). rewrite <- F4. exact E4. }
        rewrite (decode_canon_plain 768 rem Hw).
        2:{ apply decoded_len_short. unfold lenZ. rewrite <- F4. lia. }
        cbn [derr_of].
        assert (Hgl : 1 <= length (firstn plen rem)) by (rewrite firstn_length; lia).
        destruct (Nat.ltb 0 (length (firstn plen rem))) eqn:Eg; [|apply Nat.ltb_ge in Eg; lia].
        cbn [orb]. left. split; [reflexivity|]. split; [exact Hgl|].
        exists []. split.
        -- constructor; cbn [ds_err ds_buf ds_script length]; auto.
           ++ rewrite Sx. reflexivity.
           ++ right. cbn [ds_rerr ds_script]. auto.
        -- cbn [ds_out app]. rewrite app_nil_r, firstn_skipn. reflexivity.
  - (* at least one whole quantum *)
    apply Nat.ltb_ge in E4.
    set (nbuf := length (ds_buf s1)) in *.
    pose proof (Nat.div_mod nbuf 4 ltac:(lia)) as Hdm.
    pose proof (Nat.mod_upper_bound nbuf 4 ltac:(lia)) as Hmu.
    set (q := nbuf / 4) in *.
    assert (Hq1 : 1 <= q) by lia.
    assert (Hlen : 4 * q <= length (encode e rem)).
    { rewrite <- F4, app_length. fold nbuf. lia. }
    destruct (encode_firstn_skipn e q rem Hlen) as [Hfi Hsk].
    rewrite <- F4 in Hfi at 1. rewrite <- F4 in Hsk at 1.
    rewrite firstn_app in Hfi. rewrite skipn_app in Hsk. fold nbuf in Hfi, Hsk.
    replace (4 * q - nbuf) with 0 in Hfi, Hsk by lia.
    cbn [firstn skipn] in Hfi, Hsk. rewrite app_nil_r in Hfi.
    rewrite (Nat.mul_comm q 4), (Nat.mul_comm q 3).
    set (A := firstn (3 * q) rem) in *. set (B := skipn (3 * q) rem) in *.
    assert (HA : wf_bytes A = true) by (apply wf_bytes_firstn; exact Hw).
    assert (HB : wf_bytes B = true) by (apply wf_bytes_skipn; exact Hw).
    assert (HAB : rem = A ++ B) by (unfold A, B; rewrite firstn_skipn; reflexivity).
    assert (HlA : lenZ (encode e A) = Z.of_nat (4 * q)).
    { unfold lenZ. rewrite <- Hfi, firstn_length. fold nbuf. f_equal. lia. }
    assert (HAl : 1 <= length A).
    { unfold A. rewrite firstn_length. destruct rem; [cbn [encode length] in Hlen; lia|cbn [length]; lia]. }
    assert (Hs' : forall o, dinv e x {| ds_buf := skipn (4 * q) (ds_buf s1); ds_out := o; ds_err := None;
                                        ds_rerr := ds_rerr s1; ds_script := ds_script s1 |} B).
    { intros o. constructor; cbn [ds_err ds_buf ds_script]; auto; try exact F1.
      rewrite skipn_length. fold nbuf. lia. }
    rewrite Hfi.
    destruct (Nat.ltb plen (3 * q)) eqn:Epl.
    + apply Nat.ltb_lt in Epl.
      rewrite (decode_canon_plain 768 A HA).
      2:{ rewrite HlA, decoded_len_quads. lia. }
      cbn [derr_of]. left. split; [reflexivity|]. split; [rewrite firstn_length; lia|].
      exists B. split; [apply Hs'|]. cbn [ds_out app]. rewrite app_assoc, firstn_skipn. exact HAB.
    + apply Nat.ltb_ge in Epl.
      rewrite (decode_canon_plain (Z.of_nat plen) A HA).
      2:{ rewrite HlA, decoded_len_quads. lia. }
      cbn [derr_of]. left. split; [reflexivity|]. split; [exact HAl|].
      exists B. split; [apply Hs'|]. cbn [ds_out app]. exact HAB.
Qed.

(* ---------------- whole sessions ---------------- *)
Lemma dec_run_spec : forall sizes s rem acc, dinv e x s rem ->
  Forall (fun m => 1 <= m) sizes -> length (ds_out s) + length rem + 1 <= length sizes ->
  dec_run e s sizes acc = (acc ++ ds_out s ++ rem, Some x).
Proof.
  induction sizes as [|m r IH]; intros s rem acc Hd Hs Hl; [cbn [length] in Hl; lia|].
  inversion Hs as [|? ? Hm Hr]; subst. cbn [dec_run].
  pose proof (dec_read_spec s rem m Hd Hm) as RS.
  destruct (dec_read e s m) as [[d err] s'].
  destruct RS as [(-> & Hd1 & rem' & Hd' & Heq) | (-> & -> & Eo & ->)].
  - rewrite (IH s' rem' (acc ++ d) Hd' Hr).
    + rewrite <- app_assoc, Heq. reflexivity.
    + apply (f_equal (@length Z)) in Heq. rewrite !app_length in Heq. cbn [length] in Hl. lia.
  - rewrite Eo. rewrite !app_nil_r. reflexivity.
Qed.

Lemma dinv_init script data : wf_bytes data = true -> sends script x ->
  strip_nl (concat (map fst script)) = encode e data -> dinv e x (dec_init script) data.
Proof.
  intros Hw Hs Ht. constructor; unfold dec_init; cbn [ds_err ds_buf ds_script length]; auto.
  left. cbn [ds_rerr ds_script]. auto.
Qed.

Lemma dec_session script data sizes : wf_bytes data = true -> sends script x ->
  strip_nl (concat (map fst script)) = encode e data ->
  Forall (fun m => 1 <= m) sizes -> length data + 1 <= length sizes ->
  dec_run e (dec_init script) sizes [] = (data, Some x).
Proof.
  intros Hw Hs Ht Hz Hl.
  rewrite (dec_run_spec sizes (dec_init script) data [] (dinv_init script data Hw Hs Ht) Hz).
  - reflexivity.
  - cbn [dec_init ds_out length]. lia.
Qed.

End Dec.

Lemma sends_no_errors script : Forall (fun ev : revent => snd ev = None) script -> sends script EOF.
Proof.
  induction script as [|[d err] r IH]; intros H; [reflexivity|].
  inversion H as [|? ? H1 H2]; subst. cbn [snd] in H1. subst err. cbn [sends]. apply IH. exact H2.
Qed.

Lemma sends_last_err pre d x : Forall (fun ev : revent => snd ev = None) pre -> sends (pre ++ [(d, Some x)]) x.
Proof.
  induction pre as [|[d0 err] r IH]; intros H; [cbn [app sends]; auto|].
  inversion H as [|? ? H1 H2]; subst. cbn [snd] in H1. subst err. cbn [app sends]. apply IH. exact H2.
Qed.
