(* Decode main loop: unfolding, room invariant, panic-freedom, fast paths = slow path. *)
Require Import GC.Base.Bytes GC.B64.B64Model GC.B64.B64Spec.
Require Export GC.B64.B64DecQuantum.

Arguments Z.shiftl : simpl never. Arguments Z.shiftr : simpl never. Arguments Z.land : simpl never.
Arguments Z.lor : simpl never. Arguments Z.mul : simpl never. Arguments Z.add : simpl never.
Arguments Z.sub : simpl never. Arguments Z.of_nat : simpl never. Arguments Z.div : simpl never.
Arguments Z.modulo : simpl never.

Definition quantum_step (f : nat) (e : encoding) (dcap : Z) (src : bytes) (ph : nat) (si : Z) (out : bytes) : dres :=
  match decodeQuantum e (dcap - lenZ out) src si with
  | QPanic => DPanic
  | QOk nsi o err =>
    match err with
    | Some _ => DOk (out ++ o) err
    | None => dec_loop f e dcap src ph nsi (out ++ o)
    end
  end.

Lemma dec_loop_3 f e dcap src si out :
  dec_loop (S f) e dcap src 3 si out =
  if si <? lenZ src then quantum_step f e dcap src 3 si out else DOk out None.
Proof. reflexivity. Qed.

Lemma dec_loop_2 f e dcap src si out :
  dec_loop (S f) e dcap src 2 si out =
  if (4 <=? lenZ src - si) && (4 <=? dcap - lenZ out) then
    let ds := map (dmap e) (firstn 4 (skipn (Z.to_nat si) src)) in
    if all_valid ds then
      match ds with
      | [d0; d1; d2; d3] =>
        dec_loop f e dcap src 2 (si + 4) (out ++ map (be_byte 4 (assemble32 d0 d1 d2 d3)) [0; 1; 2])
      | _ => DPanic
      end
    else quantum_step f e dcap src 2 si out
  else dec_loop f e dcap src 3 si out.
Proof. reflexivity. Qed.

Lemma dec_loop_1 f e dcap src si out :
  dec_loop (S f) e dcap src 1 si out =
  if (8 <=? lenZ src - si) && (8 <=? dcap - lenZ out) then
    let ds := map (dmap e) (firstn 8 (skipn (Z.to_nat si) src)) in
    if all_valid ds then
      match ds with
      | [d0; d1; d2; d3; d4; d5; d6; d7] =>
        dec_loop f e dcap src 1 (si + 8)
          (out ++ map (be_byte 8 (assemble64 d0 d1 d2 d3 d4 d5 d6 d7)) [0; 1; 2; 3; 4; 5])
      | _ => DPanic
      end
    else quantum_step f e dcap src 1 si out
  else dec_loop f e dcap src 2 si out.
Proof. reflexivity. Qed.

Lemma skipn_lenZ (l : bytes) si : 0 <= si <= lenZ l -> si + lenZ (skipn (Z.to_nat si) l) = lenZ l.
Proof. intros H. unfold lenZ in *. rewrite skipn_length. lia. Qed.

Lemma skipn_plus {A} (l : list A) : forall a b, skipn (a + b) l = skipn b (skipn a l).
Proof.
  induction l as [|x l IH]; intros a b.
  - rewrite !skipn_nil. reflexivity.
  - destruct a as [|a]; [reflexivity|]. cbn [Nat.add skipn]. apply IH.
Qed.

Lemma skipn_add (l : bytes) si k : 0 <= si -> 0 <= k ->
  skipn (Z.to_nat (si + k)) l = skipn (Z.to_nat k) (skipn (Z.to_nat si) l).
Proof. intros H1 H2. rewrite <- skipn_plus. f_equal. lia. Qed.

Lemma room_ok e srclen n si : 0 <= n -> n mod 3 = 0 -> 4 * n <= 3 * si ->
  (4 <= srclen - si -> 3 <= DecodedLen e srclen - n) /\
  (has_pad e = false -> 3 <= srclen - si -> 2 <= DecodedLen e srclen - n) /\
  (has_pad e = false -> 2 <= srclen - si -> 1 <= DecodedLen e srclen - n).
Proof.
  intros Hn Hm Hle. unfold DecodedLen, has_pad. destruct (e_pad e).
  - split; [|split; discriminate]. intros H. Z.div_mod_to_equations. lia.
  - repeat split; intros; Z.div_mod_to_equations; lia.
Qed.


(* ---------- all_valid ---------- *)
Definition dval (d : Z) : Prop := d = 255 \/ 0 <= d < 64.

Lemma lor_small a b : 0 <= a < 64 -> 0 <= b < 64 -> 0 <= Z.lor a b < 64.
Proof.
  intros Ha Hb. assert (H : Z.lor a b / 64 = 0) by (sweep2 a b 64 64).
  assert (0 <= Z.lor a b) by (apply Z.lor_nonneg; lia).
  Z.div_mod_to_equations. lia.
Qed.
Lemma lor_255_r a : 0 <= a < 256 -> Z.lor a 255 = 255.
Proof. intros Ha. sweep1 a 256. Qed.
Lemma lor_255_l a : 0 <= a < 256 -> Z.lor 255 a = 255.
Proof. intros Ha. sweep1 a 256. Qed.

Lemma dval_lor a b : dval a -> dval b ->
  (Z.lor a b = 255 /\ (a = 255 \/ b = 255)) \/ (0 <= Z.lor a b < 64 /\ 0 <= a < 64 /\ 0 <= b < 64).
Proof.
  intros [Ha|Ha] [Hb|Hb]; subst.
  - left. split; [reflexivity|auto].
  - left. split; [apply lor_255_l; lia|auto].
  - left. split; [apply lor_255_r; lia|auto].
  - right. split; [apply lor_small; assumption|auto].
Qed.

Lemma fold_lor_valid ds : forall acc, dval acc -> Forall dval ds -> fold_left Z.lor ds acc <> 255 ->
  0 <= acc < 64 /\ Forall (fun d => 0 <= d < 64) ds.
Proof.
  induction ds as [|d ds IH]; intros acc Ha Hd Hne; cbn [fold_left] in *.
  - destruct Ha as [Ha|Ha]; [contradiction|]. split; [exact Ha|constructor].
  - inversion Hd as [|? ? Hd1 Hd2]; subst.
    destruct (dval_lor acc d Ha Hd1) as [[E _]|(R & Ra & Rd)].
    + exfalso. assert (dval (Z.lor acc d)) as Hv by (left; exact E).
      destruct (IH _ Hv Hd2 Hne) as [Hr _]. lia.
    + assert (dval (Z.lor acc d)) as Hv by (right; exact R).
      destruct (IH _ Hv Hd2 Hne) as [_ Hf]. split; [exact Ra|constructor; assumption].
Qed.

Lemma all_valid_in ds : Forall dval ds -> all_valid ds = true -> Forall (fun d => 0 <= d < 64) ds.
Proof.
  intros Hd H. unfold all_valid in H. apply negb_true_iff in H. apply Z.eqb_neq in H.
  apply (fold_lor_valid ds 0); [right; lia|exact Hd|exact H].
Qed.

Lemma list_take4 (l : bytes) : 4 <= lenZ l -> exists c0 c1 c2 c3 r, l = c0 :: c1 :: c2 :: c3 :: r.
Proof.
  intros H. destruct l as [|c0 [|c1 [|c2 [|c3 r]]]]; unfold lenZ in H; cbn [length] in H; try lia.
  do 5 eexists. reflexivity.
Qed.

Lemma list_take8 (l : bytes) : 8 <= lenZ l ->
  exists c0 c1 c2 c3 c4 c5 c6 c7 r, l = c0 :: c1 :: c2 :: c3 :: c4 :: c5 :: c6 :: c7 :: r.
Proof.
  intros H. destruct l as [|c0 [|c1 [|c2 [|c3 [|c4 [|c5 [|c6 [|c7 r]]]]]]]]; unfold lenZ in H; cbn [length] in H; try lia.
  do 9 eexists. reflexivity.
Qed.

Lemma lenZ_dq_bytes a b c d : lenZ (dq_bytes a b c d) = 3.
Proof. reflexivity. Qed.

Section Loop.
Variable e : encoding.
Variable src : bytes.
Let srclen := lenZ src.
Let dcap := DecodedLen e srclen.

Definition Inv (n si : Z) : Prop := (n mod 3 = 0 /\ 4 * n <= 3 * si) \/ srclen <= si.

Lemma quantum_at si out : 0 <= si <= srclen -> Inv (lenZ out) si ->
  exists nsi o err, decodeQuantum e (dcap - lenZ out) src si = QOk nsi o err /\
    si <= nsi <= srclen /\ (si < srclen -> si < nsi) /\
    (forall k, err = Some k -> si <= k <= srclen) /\
    (err = None -> Inv (lenZ (out ++ o)) nsi) /\ lenZ o <= 3.
Proof.
  intros Hsi HI. unfold decodeQuantum. fold (lenZ src). fold srclen.
  pose proof (skipn_lenZ src si Hsi) as Hl. fold srclen in Hl.
  set (rest := skipn (Z.to_nat si) src) in *.
  pose proof (lenZ_nonneg out) as Hon.
  assert (HR : (4 <= lenZ rest -> 3 <= dcap - lenZ out) /\
               (has_pad e = false -> 3 <= lenZ rest -> 2 <= dcap - lenZ out) /\
               (has_pad e = false -> 2 <= lenZ rest -> 1 <= dcap - lenZ out)).
  { destruct HI as [[Hm Hle]|Hge].
    - destruct (room_ok e srclen (lenZ out) si Hon Hm Hle) as (A & B & C).
      replace (srclen - si) with (lenZ rest) in * by lia. fold dcap in A, B, C. auto.
    - repeat split; intros; lia. }
  destruct HR as (R4 & R3 & R2).
  destruct (quantum_ok e (dcap - lenZ out) srclen rest si Hl (proj1 Hsi) R4 R3 R2)
    as (nsi & o & err & E & B1 & B2 & B3 & B4 & B5).
  exists nsi, o, err. split; [exact E|]. split; [exact B1|]. split; [intros; apply B2; lia|].
  split; [exact B3|]. split; [|exact B5].
  intros He. specialize (B4 He). rewrite lenZ_app. unfold Inv in *.
  destruct B4 as [[Ho Hn]|Hn]; [|right; lia].
  destruct HI as [[Hm Hle]|Hge]; [|right; lia].
  left. rewrite Ho. split; [|lia]. Z.div_mod_to_equations. lia.
Qed.


Lemma loop3_ok : forall m f si out, (Z.to_nat (srclen - si) <= m)%nat -> (m + 1 <= f)%nat ->
  0 <= si <= srclen -> Inv (lenZ out) si ->
  exists o err, dec_loop f e dcap src 3 si out = DOk o err /\ (forall k, err = Some k -> 0 <= k <= srclen).
Proof.
  induction m as [|m IH]; intros f si out Hm Hf Hsi HI; (destruct f as [|f]; [lia|]);
    rewrite dec_loop_3; fold srclen; destruct (Z.ltb_spec si srclen) as [Hlt|Hge];
    try lia; try (exists out, None; split; [reflexivity|discriminate]).
  unfold quantum_step.
  destruct (quantum_at si out Hsi HI) as (nsi & o & err & E & B1 & B2 & B3 & B4 & B5).
  rewrite E. destruct err as [k0|].
  - do 2 eexists. split; [reflexivity|]. intros k Hk. specialize (B3 k Hk). lia.
  - apply IH; try lia. apply B4. reflexivity.
Qed.

Lemma quantum_fast room si c0 c1 c2 c3 r :
  skipn (Z.to_nat si) src = c0 :: c1 :: c2 :: c3 :: r ->
  dmap e c0 <> 255 -> dmap e c1 <> 255 -> dmap e c2 <> 255 -> dmap e c3 <> 255 -> 3 <= room ->
  decodeQuantum e room src si = QOk (si + 4) (dq_bytes (dmap e c0) (dmap e c1) (dmap e c2) (dmap e c3)) None.
Proof.
  intros Hs H0 H1 H2 H3 Hr. unfold decodeQuantum. rewrite Hs.
  apply Z.eqb_neq in H0, H1, H2, H3.
  rewrite dq_loop_step by reflexivity. cbn [nxt]. rewrite H0. cbn [negb].
  rewrite dq_loop_step by reflexivity. cbn [nxt]. rewrite H1. cbn [negb].
  rewrite dq_loop_step by reflexivity. cbn [nxt]. rewrite H2. cbn [negb].
  rewrite dq_loop_step by reflexivity. cbn [nxt]. rewrite H3. cbn [negb].
  rewrite dq_loop_4. unfold dq_finish. cbv zeta. change (4 =? 4) with true. cbv iota.
  destruct (Z.ltb_spec room 3); [lia|]. cbn [app nth]. unfold dq_bytes. cbv zeta.
  f_equal. lia.
Qed.

Hypothesis Hok : enc_ok e = true.

Lemma Inv_fast n si : Inv n si -> si < srclen -> Inv (n + 3) (si + 4).
Proof.
  intros [[Hm Hle]|Hge] Hlt; [|lia]. left. split; [|lia]. Z.div_mod_to_equations. lia.
Qed.

Lemma phase_eq : forall m p f f' si out,
  (p = 1 \/ p = 2 \/ p = 3)%nat -> (Z.to_nat (srclen - si) <= m)%nat ->
  (m + (3 - p) + 1 <= f)%nat -> (m + 1 <= f')%nat -> 0 <= si <= srclen -> Inv (lenZ out) si ->
  dec_loop f e dcap src p si out = dec_loop f' e dcap src 3 si out.
Proof.
  induction m as [m IH] using lt_wf_ind.
  assert (PQ : forall ph f f' si out, (ph = 1 \/ ph = 2 \/ ph = 3)%nat ->
     (Z.to_nat (srclen - si) <= m)%nat -> si < srclen ->
     (m + (3 - ph) <= f)%nat -> (m <= f')%nat -> 0 <= si <= srclen -> Inv (lenZ out) si ->
     quantum_step f e dcap src ph si out = quantum_step f' e dcap src 3 si out).
  { intros ph f f' si out Hph Hm Hlt Hf Hf' Hsi HI. unfold quantum_step.
    destruct (quantum_at si out Hsi HI) as (nsi & o & err & E & B1 & B2 & B3 & B4 & B5).
    rewrite E. destruct err as [k0|]; [reflexivity|].
    apply (IH (m - 1)%nat); [lia|exact Hph|lia|lia|lia|lia|apply B4; reflexivity]. }
  assert (P3 : forall f f' si out, (Z.to_nat (srclen - si) <= m)%nat ->
     (m + 1 <= f)%nat -> (m + 1 <= f')%nat -> 0 <= si <= srclen -> Inv (lenZ out) si ->
     dec_loop f e dcap src 3 si out = dec_loop f' e dcap src 3 si out).
  { intros f f' si out Hm Hf Hf' Hsi HI. destruct f as [|f]; [lia|]. destruct f' as [|f']; [lia|].
    rewrite !dec_loop_3. fold srclen. destruct (Z.ltb_spec si srclen) as [Hlt|Hge]; [|reflexivity].
    apply PQ; [right; right; reflexivity|lia|lia|lia|lia|lia|exact HI]. }
  assert (P2 : forall f f' si out, (Z.to_nat (srclen - si) <= m)%nat ->
     (m + 2 <= f)%nat -> (m + 1 <= f')%nat -> 0 <= si <= srclen -> Inv (lenZ out) si ->
     dec_loop f e dcap src 2 si out = dec_loop f' e dcap src 3 si out).
  { intros f f' si out Hm Hf Hf' Hsi HI. destruct f as [|f]; [lia|].
    rewrite dec_loop_2. fold srclen.
    destruct ((4 <=? srclen - si) && (4 <=? dcap - lenZ out)) eqn:G; [|apply P3; auto; lia].
    apply andb_true_iff in G. destruct G as [G1 G2]. apply Z.leb_le in G1, G2. cbv zeta.
    pose proof (skipn_lenZ src si Hsi) as Hl. fold srclen in Hl.
    destruct (list_take4 (skipn (Z.to_nat si) src)) as (c0 & c1 & c2 & c3 & r & Hs); [lia|].
    rewrite Hs. cbn [firstn].
    change (map (dmap e) [c0; c1; c2; c3]) with [dmap e c0; dmap e c1; dmap e c2; dmap e c3].
    destruct f' as [|f']; [lia|]. rewrite dec_loop_3. fold srclen.
    destruct (Z.ltb_spec si srclen) as [Hlt|Hge]; [|lia].
    destruct (all_valid [dmap e c0; dmap e c1; dmap e c2; dmap e c3]) eqn:Hav.
    - apply all_valid_in in Hav; [|repeat (apply Forall_cons; [apply dmap_range; exact Hok|]); apply Forall_nil].
      inversion Hav as [|? ? R0 Hav1]; subst. inversion Hav1 as [|? ? R1 Hav2]; subst.
      inversion Hav2 as [|? ? R2 Hav3]; subst. inversion Hav3 as [|? ? R3 _]; subst.
      rewrite asm32_bytes by assumption.
      unfold quantum_step. rewrite (quantum_fast _ si c0 c1 c2 c3 r Hs) by lia.
      apply (IH (m - 4)%nat); [lia|right; left; reflexivity|lia|lia|lia|lia|].
      rewrite lenZ_app, lenZ_dq_bytes. apply Inv_fast; auto.
    - apply PQ; [right; left; reflexivity|lia|lia|lia|lia|lia|exact HI]. }
  assert (P1 : forall f f' si out, (Z.to_nat (srclen - si) <= m)%nat ->
     (m + 3 <= f)%nat -> (m + 1 <= f')%nat -> 0 <= si <= srclen -> Inv (lenZ out) si ->
     dec_loop f e dcap src 1 si out = dec_loop f' e dcap src 3 si out).
  { intros f f' si out Hm Hf Hf' Hsi HI. destruct f as [|f]; [lia|].
    rewrite dec_loop_1. fold srclen.
    destruct ((8 <=? srclen - si) && (8 <=? dcap - lenZ out)) eqn:G; [|apply P2; auto; lia].
    apply andb_true_iff in G. destruct G as [G1 G2]. apply Z.leb_le in G1, G2. cbv zeta.
    pose proof (skipn_lenZ src si Hsi) as Hl. fold srclen in Hl.
    destruct (list_take8 (skipn (Z.to_nat si) src)) as (c0 & c1 & c2 & c3 & c4 & c5 & c6 & c7 & r & Hs); [lia|].
    rewrite Hs. cbn [firstn].
    change (map (dmap e) [c0; c1; c2; c3; c4; c5; c6; c7]) with
      [dmap e c0; dmap e c1; dmap e c2; dmap e c3; dmap e c4; dmap e c5; dmap e c6; dmap e c7].
    destruct f' as [|f']; [lia|]. rewrite dec_loop_3. fold srclen.
    destruct (Z.ltb_spec si srclen) as [Hlt|Hge]; [|lia].
    destruct (all_valid [dmap e c0; dmap e c1; dmap e c2; dmap e c3; dmap e c4; dmap e c5; dmap e c6; dmap e c7]) eqn:Hav.
    - apply all_valid_in in Hav; [|repeat (apply Forall_cons; [apply dmap_range; exact Hok|]); apply Forall_nil].
      inversion Hav as [|? ? R0 Hav1]; subst. inversion Hav1 as [|? ? R1 Hav2]; subst.
      inversion Hav2 as [|? ? R2 Hav3]; subst. inversion Hav3 as [|? ? R3 Hav4]; subst.
      inversion Hav4 as [|? ? R4 Hav5]; subst. inversion Hav5 as [|? ? R5 Hav6]; subst.
      inversion Hav6 as [|? ? R6 Hav7]; subst. inversion Hav7 as [|? ? R7 _]; subst.
      rewrite asm64_bytes by assumption.
      unfold quantum_step at 1. rewrite (quantum_fast _ si c0 c1 c2 c3 _ Hs) by lia.
      destruct f' as [|f']; [lia|]. rewrite dec_loop_3. fold srclen.
      destruct (Z.ltb_spec (si + 4) srclen) as [Hlt4|Hge4]; [|lia].
      assert (Hs4 : skipn (Z.to_nat (si + 4)) src = c4 :: c5 :: c6 :: c7 :: r).
      { rewrite skipn_add by lia. rewrite Hs. reflexivity. }
      unfold quantum_step. rewrite (quantum_fast _ (si + 4) c4 c5 c6 c7 r Hs4);
        [|lia|lia|lia|lia|rewrite lenZ_app, lenZ_dq_bytes; lia].
      replace (si + 4 + 4) with (si + 8) by lia. rewrite <- app_assoc.
      apply (IH (m - 8)%nat); [lia|left; reflexivity|lia|lia|lia|lia|].
      rewrite !lenZ_app, !lenZ_dq_bytes.
      replace (lenZ out + (3 + 3)) with (lenZ out + 3 + 3) by lia.
      replace (si + 8) with (si + 4 + 4) by lia. apply Inv_fast; auto. apply Inv_fast; auto.
    - apply PQ; [left; reflexivity|lia|lia|lia|lia|lia|exact HI]. }
  intros p f f' si out [-> | [-> | ->]] Hm Hf Hf' Hsi HI; [apply P1|apply P2|apply P3]; auto; lia.
Qed.

(* the slow loop with a fixed (sufficient) amount of fuel *)
Lemma slow_unfold : forall f si out, (Z.to_nat srclen + 1 <= f)%nat -> 0 <= si <= srclen ->
  Inv (lenZ out) si ->
  exists nsi o err, decodeQuantum e (dcap - lenZ out) src si = QOk nsi o err /\
    si <= nsi <= srclen /\ (si < srclen -> si < nsi) /\ (err = None -> Inv (lenZ (out ++ o)) nsi) /\
    dec_loop f e dcap src 3 si out =
    if si <? srclen then
      match err with Some _ => DOk (out ++ o) err | None => dec_loop f e dcap src 3 nsi (out ++ o) end
    else DOk out None.
Proof.
  intros f si out Hf Hsi HI.
  destruct (quantum_at si out Hsi HI) as (nsi & o & err & E & B1 & B2 & B3 & B4 & B5).
  exists nsi, o, err. split; [exact E|]. split; [exact B1|]. split; [exact B2|]. split; [exact B4|].
  destruct f as [|f0]; [lia|]. rewrite (dec_loop_3 f0 e dcap src si out). fold srclen.
  destruct (Z.ltb_spec si srclen) as [Hlt|Hge]; [|reflexivity].
  unfold quantum_step. rewrite E. destruct err as [k0|]; [reflexivity|].
  apply (phase_eq (Z.to_nat (srclen - nsi))); [right; right; reflexivity|lia|lia|lia|lia|apply B4; reflexivity].
Qed.

End Loop.
