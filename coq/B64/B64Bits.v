(* Bit-level facts about the shift/mask expressions of B64Model, by distribution + finite sweeps. *)
Require Import GC.Base.Bytes GC.B64.B64Model GC.B64.B64Spec.

Arguments Z.shiftl : simpl never. Arguments Z.shiftr : simpl never. Arguments Z.land : simpl never.
Arguments Z.lor : simpl never. Arguments Z.mul : simpl never. Arguments Z.add : simpl never.
Arguments Z.sub : simpl never. Arguments Z.of_nat : simpl never. Arguments Z.div : simpl never.
Arguments Z.modulo : simpl never.

Definition zrange (n : Z) : list Z := map Z.of_nat (seq 0 (Z.to_nat n)).

Lemma zrange_in n z : 0 <= z < n -> In z (zrange n).
Proof.
  intros Hz. unfold zrange. replace z with (Z.of_nat (Z.to_nat z)) by lia.
  apply in_map. apply in_seq. lia.
Qed.

Lemma range_sweep n (f g : Z -> Z) :
  forallb (fun z => f z =? g z) (zrange n) = true -> forall z, 0 <= z < n -> f z = g z.
Proof.
  intros H z Hz. rewrite forallb_forall in H. apply Z.eqb_eq. apply H. apply zrange_in; assumption.
Qed.

Lemma range_sweep2 n m (f g : Z -> Z -> Z) :
  forallb (fun a => forallb (fun b => f a b =? g a b) (zrange m)) (zrange n) = true ->
  forall a b, 0 <= a < n -> 0 <= b < m -> f a b = g a b.
Proof.
  intros H a b Ha Hb. rewrite forallb_forall in H. specialize (H a (zrange_in _ _ Ha)).
  rewrite forallb_forall in H. apply Z.eqb_eq. apply H. apply zrange_in; assumption.
Qed.

Ltac sweep1 b n :=
  match goal with
  | |- ?L = ?R =>
    let f := eval pattern b in L in
    let g := eval pattern b in R in
    match f with
    | ?ff _ => match g with ?gg _ =>
        apply (range_sweep n ff gg); [vm_compute; reflexivity | lia] end
    end
  end.

Ltac sweep2 a b n m :=
  match goal with
  | |- ?L = ?R =>
    let f := eval pattern a, b in L in
    let g := eval pattern a, b in R in
    match f with
    | ?ff _ _ => match g with ?gg _ _ =>
        apply (range_sweep2 n m ff gg); [vm_compute; reflexivity | lia | lia] end
    end
  end.

Ltac dist :=
  unfold idx0, idx1, idx2, idx3, enc_val, dq_val, assemble32, assemble64, be_byte, byte_of, shl, shr;
  repeat (rewrite ?Z.shiftr_lor, ?Z.shiftl_lor, ?Z.land_lor_distr_l).


Lemma mod256_land v : v mod 256 = Z.land v 255.
Proof. change 255 with (Z.ones 8). rewrite Z.land_ones by lia. reflexivity. Qed.

Ltac kill1 b n :=
  repeat match goal with
  | |- context [Z.lor ?x ?t] =>
    lazymatch t with Z.lor _ _ => fail | Z0 => fail | _ => idtac end;
    let H := fresh in assert (H : t = 0) by (sweep1 b n); rewrite H, Z.lor_0_r; clear H
  | |- context [Z.lor ?t ?x] =>
    lazymatch t with Z.lor _ _ => fail | Z0 => fail | _ => idtac end;
    let H := fresh in assert (H : t = 0) by (sweep1 b n); rewrite H, Z.lor_0_l; clear H
  end.

(* ---- encode side: closed forms of the four indices ---- *)
Lemma idx0_closed b0 b1 b2 : 0 <= b0 < 256 -> 0 <= b1 < 256 -> 0 <= b2 < 256 ->
  idx0 (enc_val b0 b1 b2) = b0 mod 64.
Proof. intros H0 H1 H2. dist. kill1 b1 256. kill1 b2 256. sweep1 b0 256. Qed.

Lemma idx1_closed b0 b1 b2 : 0 <= b0 < 256 -> 0 <= b1 < 256 -> 0 <= b2 < 256 ->
  idx1 (enc_val b0 b1 b2) = b0 / 64 + 4 * (b1 mod 16).
Proof. intros H0 H1 H2. dist. kill1 b2 256. sweep2 b0 b1 256 256. Qed.

Lemma idx2_closed b0 b1 b2 : 0 <= b0 < 256 -> 0 <= b1 < 256 -> 0 <= b2 < 256 ->
  idx2 (enc_val b0 b1 b2) = b1 / 16 + 16 * (b2 mod 4).
Proof. intros H0 H1 H2. dist. kill1 b0 256. sweep2 b1 b2 256 256. Qed.

Lemma idx3_closed b0 b1 b2 : 0 <= b0 < 256 -> 0 <= b1 < 256 -> 0 <= b2 < 256 ->
  idx3 (enc_val b0 b1 b2) = b2 / 4.
Proof. intros H0 H1 H2. dist. kill1 b0 256. kill1 b1 256. sweep1 b2 256. Qed.

(* ---- decode side ---- *)
Lemma dq0_closed d0 d1 d2 d3 : 0 <= d0 < 64 -> 0 <= d1 < 64 -> 0 <= d2 < 64 -> 0 <= d3 < 64 ->
  byte_of (shr (dq_val d0 d1 d2 d3) 16) = d0 + 64 * (d1 mod 4).
Proof. intros H0 H1 H2 H3. dist. rewrite mod256_land. dist. kill1 d2 64. kill1 d3 64. sweep2 d0 d1 64 64. Qed.

Lemma dq1_closed d0 d1 d2 d3 : 0 <= d0 < 64 -> 0 <= d1 < 64 -> 0 <= d2 < 64 -> 0 <= d3 < 64 ->
  byte_of (shr (dq_val d0 d1 d2 d3) 8) = d1 / 4 + 16 * (d2 mod 16).
Proof. intros H0 H1 H2 H3. dist. rewrite mod256_land. dist. kill1 d0 64. kill1 d3 64. sweep2 d1 d2 64 64. Qed.

Lemma dq2_closed d0 d1 d2 d3 : 0 <= d0 < 64 -> 0 <= d1 < 64 -> 0 <= d2 < 64 -> 0 <= d3 < 64 ->
  byte_of (dq_val d0 d1 d2 d3) = d2 / 16 + 4 * d3.
Proof. intros H0 H1 H2 H3. dist. rewrite mod256_land. dist. kill1 d0 64. kill1 d1 64. sweep2 d2 d3 64 64. Qed.

(* ---- fast paths ---- *)
Ltac asm_pre := dist; rewrite mod256_land; dist.

Lemma asm32_0 a b c d : 0 <= a < 64 -> 0 <= b < 64 -> 0 <= c < 64 -> 0 <= d < 64 ->
  be_byte 4 (assemble32 a b c d) 0 = a + 64 * (b mod 4).
Proof. intros Ha Hb Hc Hd. asm_pre. kill1 c 64. kill1 d 64. sweep2 a b 64 64. Qed.
Lemma asm32_1 a b c d : 0 <= a < 64 -> 0 <= b < 64 -> 0 <= c < 64 -> 0 <= d < 64 ->
  be_byte 4 (assemble32 a b c d) 1 = b / 4 + 16 * (c mod 16).
Proof. intros Ha Hb Hc Hd. asm_pre. kill1 a 64. kill1 d 64. sweep2 b c 64 64. Qed.
Lemma asm32_2 a b c d : 0 <= a < 64 -> 0 <= b < 64 -> 0 <= c < 64 -> 0 <= d < 64 ->
  be_byte 4 (assemble32 a b c d) 2 = c / 16 + 4 * d.
Proof. intros Ha Hb Hc Hd. asm_pre. kill1 a 64. kill1 b 64. sweep2 c d 64 64. Qed.

Section Asm64.
Variables n1 n2 n3 n4 n5 n6 n7 n8 : Z.
Hypothesis H1 : 0 <= n1 < 64. Hypothesis H2 : 0 <= n2 < 64. Hypothesis H3 : 0 <= n3 < 64.
Hypothesis H4 : 0 <= n4 < 64. Hypothesis H5 : 0 <= n5 < 64. Hypothesis H6 : 0 <= n6 < 64.
Hypothesis H7 : 0 <= n7 < 64. Hypothesis H8 : 0 <= n8 < 64.
Let w := assemble64 n1 n2 n3 n4 n5 n6 n7 n8.
Lemma asm64_0 : be_byte 8 w 0 = n1 + 64 * (n2 mod 4).
Proof. subst w. asm_pre. kill1 n3 64. kill1 n4 64. kill1 n5 64. kill1 n6 64. kill1 n7 64. kill1 n8 64. sweep2 n1 n2 64 64. Qed.
Lemma asm64_1 : be_byte 8 w 1 = n2 / 4 + 16 * (n3 mod 16).
Proof. subst w. asm_pre. kill1 n1 64. kill1 n4 64. kill1 n5 64. kill1 n6 64. kill1 n7 64. kill1 n8 64. sweep2 n2 n3 64 64. Qed.
Lemma asm64_2 : be_byte 8 w 2 = n3 / 16 + 4 * n4.
Proof. subst w. asm_pre. kill1 n1 64. kill1 n2 64. kill1 n5 64. kill1 n6 64. kill1 n7 64. kill1 n8 64. sweep2 n3 n4 64 64. Qed.
Lemma asm64_3 : be_byte 8 w 3 = n5 + 64 * (n6 mod 4).
Proof. subst w. asm_pre. kill1 n1 64. kill1 n2 64. kill1 n3 64. kill1 n4 64. kill1 n7 64. kill1 n8 64. sweep2 n5 n6 64 64. Qed.
Lemma asm64_4 : be_byte 8 w 4 = n6 / 4 + 16 * (n7 mod 16).
Proof. subst w. asm_pre. kill1 n1 64. kill1 n2 64. kill1 n3 64. kill1 n4 64. kill1 n5 64. kill1 n8 64. sweep2 n6 n7 64 64. Qed.
Lemma asm64_5 : be_byte 8 w 5 = n7 / 16 + 4 * n8.
Proof. subst w. asm_pre. kill1 n1 64. kill1 n2 64. kill1 n3 64. kill1 n4 64. kill1 n5 64. kill1 n6 64. sweep2 n7 n8 64 64. Qed.
End Asm64.

Definition dq_bytes (d0 d1 d2 d3 : Z) : bytes :=
  let v := dq_val d0 d1 d2 d3 in [byte_of (shr v 16); byte_of (shr v 8); byte_of v].

Lemma asm32_bytes a b c d : 0 <= a < 64 -> 0 <= b < 64 -> 0 <= c < 64 -> 0 <= d < 64 ->
  map (be_byte 4 (assemble32 a b c d)) [0; 1; 2] = dq_bytes a b c d.
Proof.
  intros Ha Hb Hc Hd. unfold dq_bytes. cbn [map].
  rewrite asm32_0, asm32_1, asm32_2, dq0_closed, dq1_closed, dq2_closed by assumption. reflexivity.
Qed.

Lemma asm64_bytes n1 n2 n3 n4 n5 n6 n7 n8 :
  0 <= n1 < 64 -> 0 <= n2 < 64 -> 0 <= n3 < 64 -> 0 <= n4 < 64 ->
  0 <= n5 < 64 -> 0 <= n6 < 64 -> 0 <= n7 < 64 -> 0 <= n8 < 64 ->
  map (be_byte 8 (assemble64 n1 n2 n3 n4 n5 n6 n7 n8)) [0; 1; 2; 3; 4; 5]
  = dq_bytes n1 n2 n3 n4 ++ dq_bytes n5 n6 n7 n8.
Proof.
  intros. unfold dq_bytes. cbn [map app].
  rewrite asm64_0, asm64_1, asm64_2, asm64_3, asm64_4, asm64_5 by assumption.
  rewrite !dq0_closed, !dq1_closed, !dq2_closed by assumption. reflexivity.
Qed.

(* ---- arithmetic glue ---- *)
Lemma group6_word b0 b1 b2 : 0 <= b0 < 256 -> 0 <= b1 < 256 -> 0 <= b2 < 256 ->
  group6 (word b0 b1 b2) 0 = b0 mod 64 /\
  group6 (word b0 b1 b2) 1 = b0 / 64 + 4 * (b1 mod 16) /\
  group6 (word b0 b1 b2) 2 = b1 / 16 + 16 * (b2 mod 4) /\
  group6 (word b0 b1 b2) 3 = b2 / 4.
Proof.
  intros H0 H1 H2. unfold group6, word.
  change (64 ^ 0) with 1. change (64 ^ 1) with 64. change (64 ^ 2) with 4096. change (64 ^ 3) with 262144.
  repeat split; Z.div_mod_to_equations; lia.
Qed.

Lemma idx_range b0 b1 b2 : 0 <= b0 < 256 -> 0 <= b1 < 256 -> 0 <= b2 < 256 ->
  let v := enc_val b0 b1 b2 in
  0 <= idx0 v < 64 /\ 0 <= idx1 v < 64 /\ 0 <= idx2 v < 64 /\ 0 <= idx3 v < 64.
Proof.
  intros H0 H1 H2 v. subst v.
  rewrite idx0_closed, idx1_closed, idx2_closed, idx3_closed by assumption.
  repeat split; Z.div_mod_to_equations; lia.
Qed.

Lemma dq_bytes_closed d0 d1 d2 d3 : 0 <= d0 < 64 -> 0 <= d1 < 64 -> 0 <= d2 < 64 -> 0 <= d3 < 64 ->
  dq_bytes d0 d1 d2 d3 = [d0 + 64 * (d1 mod 4); d1 / 4 + 16 * (d2 mod 16); d2 / 16 + 4 * d3].
Proof. intros. unfold dq_bytes. cbv zeta. rewrite dq0_closed, dq1_closed, dq2_closed by assumption. reflexivity. Qed.

Lemma dq_enc b0 b1 b2 : 0 <= b0 < 256 -> 0 <= b1 < 256 -> 0 <= b2 < 256 ->
  let v := enc_val b0 b1 b2 in dq_bytes (idx0 v) (idx1 v) (idx2 v) (idx3 v) = [b0; b1; b2].
Proof.
  intros H0 H1 H2 v. pose proof (idx_range b0 b1 b2 H0 H1 H2) as (R0 & R1 & R2 & R3). fold v in R0, R1, R2, R3.
  rewrite dq_bytes_closed by assumption. subst v.
  rewrite idx0_closed, idx1_closed, idx2_closed, idx3_closed by assumption.
  f_equal; [|f_equal; [|f_equal]]; Z.div_mod_to_equations; lia.
Qed.

Lemma enc_dq d0 d1 d2 d3 : 0 <= d0 < 64 -> 0 <= d1 < 64 -> 0 <= d2 < 64 -> 0 <= d3 < 64 ->
  let x := d0 + 64 * (d1 mod 4) in let y := d1 / 4 + 16 * (d2 mod 16) in let z := d2 / 16 + 4 * d3 in
  (0 <= x < 256 /\ 0 <= y < 256 /\ 0 <= z < 256) /\
  idx0 (enc_val x y z) = d0 /\ idx1 (enc_val x y z) = d1 /\ idx2 (enc_val x y z) = d2 /\ idx3 (enc_val x y z) = d3.
Proof.
  intros H0 H1 H2 H3 x y z.
  assert (Hx : 0 <= x < 256) by (subst x; Z.div_mod_to_equations; lia).
  assert (Hy : 0 <= y < 256) by (subst y; Z.div_mod_to_equations; lia).
  assert (Hz : 0 <= z < 256) by (subst z; Z.div_mod_to_equations; lia).
  split; [auto|].
  rewrite idx0_closed, idx1_closed, idx2_closed, idx3_closed by assumption.
  subst x y z. repeat split; Z.div_mod_to_equations; lia.
Qed.

Lemma enc_val_2 b0 b1 : Z.lor (shl b0 16) (shl b1 8) = enc_val b0 b1 0.
Proof. unfold enc_val. rewrite Z.lor_0_r. reflexivity. Qed.
Lemma enc_val_1 b0 : shl b0 16 = enc_val b0 0 0.
Proof. unfold enc_val, shl. rewrite Z.shiftl_0_l, !Z.lor_0_r. reflexivity. Qed.
