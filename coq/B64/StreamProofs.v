(* Theorems about the streaming side of hash/base64le (StreamModel). *)
Require Import GC.Base.Bytes GC.B64.B64Model GC.B64.B64Spec GC.B64.StreamModel.
Require Export GC.B64.StreamPEnc.

(* any chunking, fault-free writer: exactly the one-shot encoding, and every call returns nil *)
Theorem enc_stream_eq : forall e chunks,
  es_written (fst (enc_run e (enc_init []) chunks [])) = encode e (concat chunks)
  /\ Forall (fun r => r = None) (snd (enc_run e (enc_init []) chunks [])).
Proof.
  intros e chunks.
  destruct (run_good e chunks (enc_init []) 0 [] (good_init e [])) as (_ & _ & H).
  apply H. constructor.
Qed.

Definition sticky (errs : list (option ioerr)) : Prop :=
  forall i j x, (i <= j)%nat -> nth_error errs i = Some (Some x) ->
                (j < length errs)%nat -> nth_error errs j = Some (Some x).

Lemma err_shape_sticky errs : err_shape errs -> sticky errs.
Proof.
  intros (n & m & y & ->) i j x Hij Hi Hj.
  rewrite app_length, !repeat_length in Hj.
  destruct (Nat.lt_ge_cases i n) as [Hlt|Hge].
  - rewrite nth_error_app1 in Hi by (rewrite repeat_length; exact Hlt).
    apply nth_error_repeat_inv in Hi. discriminate.
  - rewrite nth_error_app2 in Hi by (rewrite repeat_length; exact Hge).
    apply nth_error_repeat_inv in Hi. inversion Hi; subst y.
    rewrite nth_error_app2 by (rewrite repeat_length; lia).
    rewrite repeat_length. apply nth_error_repeat_lt. lia.
Qed.

(* any writer script: what reached the writer is a prefix of the one-shot encoding, and errors are sticky *)
Theorem enc_stream_fault : forall e script chunks,
  (exists rest, encode e (concat chunks) = es_written (fst (enc_run e (enc_init script) chunks [])) ++ rest)
  /\ sticky (snd (enc_run e (enc_init script) chunks [])).
Proof.
  intros e script chunks.
  destruct (run_good e chunks (enc_init script) 0 [] (good_init e script)) as (Hp & Hs & _).
  split; [exact Hp|]. apply err_shape_sticky. exact Hs.
Qed.

Print Assumptions enc_stream_eq.
Print Assumptions enc_stream_fault.
