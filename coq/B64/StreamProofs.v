(* Theorems about the streaming side of hash/base64le (StreamModel).
   Encoder: enc_stream_eq, enc_stream_fault (statements as requested).
   Decoder: dec_stream_valid is proved exactly as requested (no side condition had to be changed); it follows
   from dec_stream_valid_tight, which needs only  length data + 1 <= length sizes  Read calls (every Read
   delivers at least one byte until the data is exhausted, then one Read reports the end).
   dec_stream_valid_err: the last script event carries an error x (with data, CR/LF only, or nothing) =>
   the session delivers all the data and ends with x.
   Files: StreamPEnc (encoder invariant), StreamPDecGen (one-shot decode_raw with any sufficient dcap:
   decode_raw_canon), StreamPRead (r_read / nl_read / refill), StreamPDec (dec_read / dec_run). *)
Require Import GC.Base.Bytes GC.B64.B64Model GC.B64.B64Spec GC.B64.StreamModel.
Require Export GC.B64.StreamPEnc GC.B64.StreamPDecGen GC.B64.StreamPRead GC.B64.StreamPDec.

(* any chunking, fault-free writer: exactly the one-shot encoding, and every call returns nil *)
Theorem enc_stream_eq : forall e chunks,
  es_written (fst (enc_run e (enc_init []) chunks [])) = encode e (concat chunks)
  /\ Forall (fun r => r = None) (snd (enc_run e (enc_init []) chunks [])).
Proof.
  intros e chunks.
  destruct (run_good e chunks (enc_init []) 0 [] (good_init e [])) as (_ & _ & H).
  apply H. constructor.
Qed.

Definition sticky (errs : list (option ioerr)) : Prop :=
  forall i j x, (i <= j)%nat -> nth_error errs i = Some (Some x) ->
                (j < length errs)%nat -> nth_error errs j = Some (Some x).

Lemma err_shape_sticky errs : err_shape errs -> sticky errs.
Proof.
  intros (n & m & y & ->) i j x Hij Hi Hj.
  rewrite app_length, !repeat_length in Hj.
  destruct (Nat.lt_ge_cases i n) as [Hlt|Hge].
  - rewrite nth_error_app1 in Hi by (rewrite repeat_length; exact Hlt).
    apply nth_error_repeat_inv in Hi. discriminate.
  - rewrite nth_error_app2 in Hi by (rewrite repeat_length; exact Hge).
    apply nth_error_repeat_inv in Hi. inversion Hi; subst y.
    rewrite nth_error_app2 by (rewrite repeat_length; lia).
    rewrite repeat_length. apply nth_error_repeat_lt. lia.
Qed.

(* any writer script: what reached the writer is a prefix of the one-shot encoding, and errors are sticky *)
Theorem enc_stream_fault : forall e script chunks,
  (exists rest, encode e (concat chunks) = es_written (fst (enc_run e (enc_init script) chunks [])) ++ rest)
  /\ sticky (snd (enc_run e (enc_init script) chunks [])).
Proof.
  intros e script chunks.
  destruct (run_good e chunks (enc_init script) 0 [] (good_init e script)) as (Hp & Hs & _).
  split; [exact Hp|]. apply err_shape_sticky. exact Hs.
Qed.

(* ---------------- decoder, texts that are valid encodings ---------------- *)
Definition no_errors (script : list revent) : Prop := Forall (fun ev => snd ev = None) script.

(* the number of Read calls that is always enough (and, with one-byte buffers, needed): one per byte
   of data plus the one that reports the end *)
Theorem dec_stream_valid_tight : forall e data script sizes,
  enc_wf e = true -> wf_bytes data = true -> no_errors script ->
  strip_nl (concat (map fst script)) = encode e data ->
  Forall (fun m => (1 <= m)%nat) sizes ->
  (length data + 1 <= length sizes)%nat ->
  dec_run e (dec_init script) sizes [] = (data, Some EOF).
Proof.
  intros e data script sizes Hwf Hb Hn Ht Hs Hl.
  apply (dec_session e Hwf EOF script data sizes Hb (sends_no_errors script Hn) Ht Hs Hl).
Qed.

Theorem dec_stream_valid : forall e data script sizes,
  enc_wf e = true -> wf_bytes data = true -> no_errors script ->
  strip_nl (concat (map fst script)) = encode e data ->
  Forall (fun m => (1 <= m)%nat) sizes ->
  (length data + length script + 2 <= length sizes)%nat ->      (* enough Read calls *)
  dec_run e (dec_init script) sizes [] = (data, Some EOF).
Proof.
  intros e data script sizes Hwf Hb Hn Ht Hs Hl.
  apply dec_stream_valid_tight; auto. lia.
Qed.

(* the last event of the script carries an error x (with data, with only CR/LF, or with nothing):
   all the data is delivered and the session ends with x *)
Theorem dec_stream_valid_err : forall e data pre d x sizes,
  enc_wf e = true -> wf_bytes data = true -> no_errors pre ->
  strip_nl (concat (map fst (pre ++ [(d, Some x)]))) = encode e data ->
  Forall (fun m => (1 <= m)%nat) sizes ->
  (length data + 1 <= length sizes)%nat ->
  dec_run e (dec_init (pre ++ [(d, Some x)])) sizes [] = (data, Some x).
Proof.
  intros e data pre d x sizes Hwf Hb Hn Ht Hs Hl.
  apply (dec_session e Hwf x (pre ++ [(d, Some x)]) data sizes Hb (sends_last_err pre d x Hn) Ht Hs Hl).
Qed.

Print Assumptions enc_stream_eq.
Print Assumptions enc_stream_fault.
Print Assumptions dec_stream_valid_tight.
Print Assumptions dec_stream_valid.
Print Assumptions dec_stream_valid_err.
