(* Decode: decodeMap facts, the "next symbol" view of decodeQuantum's loop. *)
Require Import GC.Base.Bytes GC.B64.B64Model GC.B64.B64Spec.
Require Export GC.B64.B64EncProofs.

Arguments Z.shiftl : simpl never. Arguments Z.shiftr : simpl never. Arguments Z.land : simpl never.
Arguments Z.lor : simpl never. Arguments Z.mul : simpl never. Arguments Z.add : simpl never.
Arguments Z.sub : simpl never. Arguments Z.of_nat : simpl never. Arguments Z.div : simpl never.
Arguments Z.modulo : simpl never.

(* ---------- decodeMap ---------- *)
Lemma dmap_from_range alpha : forall i c,
  dmap_from alpha i c = 255 \/ i <= dmap_from alpha i c < i + Z.of_nat (length alpha).
Proof.
  induction alpha as [|a r IH]; intros i c; cbn [dmap_from length].
  - left; reflexivity.
  - cbv zeta. destruct (IH (i + 1) c) as [E|E].
    + rewrite E. cbn [Z.eqb Pos.eqb]. destruct (a =? c); [right; lia | left; reflexivity].
    + destruct (dmap_from r (i + 1) c =? 255) eqn:E2.
      * destruct (a =? c); [right; lia | left; reflexivity].
      * right. lia.
Qed.

Lemma dmap_from_255 alpha : forall i c, 0 <= i -> i + Z.of_nat (length alpha) <= 255 ->
  (dmap_from alpha i c = 255 <-> ~ In c alpha).
Proof.
  induction alpha as [|a r IH]; intros i c Hi Hl; cbn [dmap_from length In] in *.
  - tauto.
  - cbv zeta. rewrite Nat2Z.inj_succ in Hl. specialize (IH (i + 1) c ltac:(lia) ltac:(lia)).
    destruct (dmap_from r (i + 1) c =? 255) eqn:E2.
    + apply Z.eqb_eq in E2. destruct (a =? c) eqn:E3.
      * apply Z.eqb_eq in E3. split; [lia | intros H; exfalso; apply H; left; exact E3].
      * apply Z.eqb_neq in E3. split; [|reflexivity]. intros _ [H|H]; [contradiction|]. tauto.
    + apply Z.eqb_neq in E2. split; [contradiction|]. intros H. exfalso. apply E2. apply IH. tauto.
Qed.

Lemma dmap_from_nth alpha : forall i c, dmap_from alpha i c <> 255 ->
  nth (Z.to_nat (dmap_from alpha i c - i)) alpha 0 = c.
Proof.
  induction alpha as [|a r IH]; intros i c H; cbn [dmap_from] in *.
  - contradiction.
  - cbv zeta in *. destruct (dmap_from r (i + 1) c =? 255) eqn:E2.
    + destruct (a =? c) eqn:E3; [|contradiction]. apply Z.eqb_eq in E3.
      replace (i - i) with 0 by lia. exact E3.
    + apply Z.eqb_neq in E2. specialize (IH (i + 1) c E2).
      destruct (dmap_from_range r (i + 1) c) as [E|E]; [contradiction|].
      replace (Z.to_nat (dmap_from r (i + 1) c - i)) with (S (Z.to_nat (dmap_from r (i + 1) c - (i + 1)))) by lia.
      exact IH.
Qed.

Lemma dmap_from_nodup alpha : forall i k, nodup_b alpha = true -> 0 <= i ->
  i + Z.of_nat (length alpha) <= 255 -> (k < length alpha)%nat ->
  dmap_from alpha i (nth k alpha 0) = i + Z.of_nat k.
Proof.
  induction alpha as [|a r IH]; intros i k Hnd Hi Hl Hk; cbn [length] in *; [lia|].
  cbn [nodup_b] in Hnd. apply andb_true_iff in Hnd. destruct Hnd as [Hna Hnd].
  apply negb_true_iff in Hna. rewrite Nat2Z.inj_succ in Hl.
  cbn [dmap_from]. cbv zeta. destruct k as [|k]; cbn [nth].
  - assert (E : dmap_from r (i + 1) a = 255).
    { apply dmap_from_255; [lia|lia|]. intros Hin. apply mem_In in Hin. congruence. }
    rewrite E. cbn [Z.eqb Pos.eqb]. rewrite Z.eqb_refl. lia.
  - rewrite IH by (auto; lia). replace (i + 1 + Z.of_nat k =? 255) with false by (symmetry; apply Z.eqb_neq; lia).
    lia.
Qed.

Section Enc.
Variable e : encoding.
Hypothesis Hok : enc_ok e = true.

Lemma alpha_len : length (e_alpha e) = 64%nat.
Proof.
  unfold enc_ok, alpha_ok in Hok. apply andb_true_iff in Hok. destruct Hok as [H _].
  apply andb_true_iff in H. destruct H as [H _]. apply Nat.eqb_eq in H. exact H.
Qed.

Lemma alpha_elem c : In c (e_alpha e) -> 0 <= c < 256 /\ is_newline c = false.
Proof.
  intros Hin. unfold enc_ok, alpha_ok in Hok. apply andb_true_iff in Hok. destruct Hok as [H _].
  apply andb_true_iff in H. destruct H as [_ H]. rewrite forallb_forall in H. specialize (H c Hin).
  apply andb_true_iff in H. destruct H as [H1 H2]. apply wf_byte_range in H1. apply negb_true_iff in H2. auto.
Qed.

Lemma dmap_range c : dmap e c = 255 \/ 0 <= dmap e c < 64.
Proof.
  unfold dmap. destruct (dmap_from_range (e_alpha e) 0 c) as [H|H]; [left; exact H|right].
  rewrite alpha_len in H. lia.
Qed.

Lemma dmap_255 c : dmap e c = 255 <-> ~ In c (e_alpha e).
Proof. unfold dmap. apply dmap_from_255; [lia|]. rewrite alpha_len. lia. Qed.

Lemma dmap_newline c : is_newline c = true -> dmap e c = 255.
Proof. intros H. apply dmap_255. intros Hin. apply alpha_elem in Hin. destruct Hin as [_ Hin]. congruence. Qed.

Lemma dmap_pad c : is_pad e c = true -> dmap e c = 255.
Proof.
  unfold is_pad. destruct (e_pad e) as [p|] eqn:Ep; [|discriminate]. intros H. apply Z.eqb_eq in H. subst c.
  apply dmap_255. intros Hin. unfold enc_ok, pad_ok in Hok. rewrite Ep in Hok.
  apply andb_true_iff in Hok. destruct Hok as [_ H]. apply andb_true_iff in H. destruct H as [_ H].
  apply negb_true_iff in H. apply mem_In in Hin. congruence.
Qed.

Lemma pad_not_newline c : is_pad e c = true -> is_newline c = false.
Proof.
  unfold is_pad. destruct (e_pad e) as [p|] eqn:Ep; [|discriminate]. intros H. apply Z.eqb_eq in H. subst c.
  unfold enc_ok, pad_ok in Hok. rewrite Ep in Hok.
  apply andb_true_iff in Hok. destruct Hok as [_ H]. apply andb_true_iff in H. destruct H as [H _].
  apply andb_true_iff in H. destruct H as [H _]. apply andb_true_iff in H. destruct H as [H _].
  apply negb_true_iff in H. exact H.
Qed.

Lemma sym_dmap c : dmap e c <> 255 -> sym e (dmap e c) = c.
Proof.
  intros H. unfold sym. pose proof (dmap_from_nth (e_alpha e) 0 c H) as N.
  rewrite Z.sub_0_r in N. exact N.
Qed.

Lemma sym_in i : 0 <= i < 64 -> In (sym e i) (e_alpha e).
Proof. intros Hi. unfold sym. apply nth_In. rewrite alpha_len. lia. Qed.

Lemma sym_valid i : 0 <= i < 64 -> dmap e (sym e i) <> 255.
Proof. intros Hi H. apply dmap_255 in H. apply H. apply sym_in. exact Hi. Qed.

Lemma sym_not_newline i : 0 <= i < 64 -> is_newline (sym e i) = false.
Proof. intros Hi. apply alpha_elem. apply sym_in. exact Hi. Qed.

Lemma sym_not_pad i : 0 <= i < 64 -> is_pad e (sym e i) = false.
Proof.
  intros Hi. destruct (is_pad e (sym e i)) eqn:E; [|reflexivity].
  apply dmap_pad in E. apply sym_valid in Hi. contradiction.
Qed.

Lemma dmap_sym i : nodup_b (e_alpha e) = true -> 0 <= i < 64 -> dmap e (sym e i) = i.
Proof.
  intros Hnd Hi. unfold dmap, sym. rewrite dmap_from_nodup; auto; try lia; rewrite alpha_len; lia.
Qed.
End Enc.

(* ---------- the "next symbol" view of dq_loop ---------- *)
Inductive nx :=
| NSym (d c : Z) (r : bytes) (s : Z)
| NPad (r : bytes) (s : Z)
| NBad (c : Z) (r : bytes) (s : Z)
| NEnd (s : Z).

Fixpoint nxt (e : encoding) (rest : bytes) (si : Z) : nx :=
  match rest with
  | [] => NEnd si
  | c :: r =>
    if negb (dmap e c =? 255) then NSym (dmap e c) c r (si + 1)
    else if is_newline c then nxt e r (si + 1)
    else if negb (is_pad e c) then NBad c r (si + 1)
    else NPad r (si + 1)
  end.

Definition has_pad (e : encoding) : bool := match e_pad e with Some _ => true | None => false end.

Definition end_case (e : encoding) (room : Z) (j : nat) (dbuf : list Z) (si : Z) : qres :=
  if Nat.eqb j 0 then QOk si [] None
  else if Nat.eqb j 1 || has_pad e then QOk si [] (Some (si - Z.of_nat j))
  else dq_finish e room dbuf (Z.of_nat j) si None.

Definition pad_case (e : encoding) (room srclen : Z) (j : nat) (dbuf : list Z) (rest' : bytes) (si' : Z) : qres :=
  match j with
  | O | S O => QOk si' [] (Some (si' - 1))
  | _ =>
    let after_second : option (bytes * Z) + Z :=
      if Nat.eqb j 2 then
        let '(r2, s2) := skip_nl rest' si' in
        match r2 with
        | [] => inr srclen
        | c2 :: r3 => if is_pad e c2 then inl (Some (r3, s2 + 1)) else inr (s2 - 1)
        end
      else inl (Some (rest', si')) in
    match after_second with
    | inr off => QOk (match skip_nl rest' si' with (_, s2) => s2 end) [] (Some off)
    | inl None => QPanic
    | inl (Some (r4, s4)) =>
      let '(r5, s5) := skip_nl r4 s4 in
      let err := match r5 with [] => None | _ => Some s5 end in
      dq_finish e room dbuf (Z.of_nat j) s5 err
    end
  end.

Lemma dq_loop_step e room srclen rest : forall si j dbuf, Nat.eqb j 4 = false ->
  dq_loop e room srclen rest si j dbuf =
  match nxt e rest si with
  | NSym d _ r s => dq_loop e room srclen r s (S j) (dbuf ++ [d])
  | NEnd s => end_case e room j dbuf s
  | NBad _ _ s => QOk s [] (Some (s - 1))
  | NPad r s => pad_case e room srclen j dbuf r s
  end.
Proof.
  induction rest as [|c r IH]; intros si j dbuf Hj.
  - cbn [dq_loop nxt]. rewrite Hj. reflexivity.
  - cbn [dq_loop nxt]. rewrite Hj. cbv zeta.
    destruct (negb (dmap e c =? 255)); [reflexivity|].
    destruct (is_newline c); [apply IH; exact Hj|].
    destruct (negb (is_pad e c)); reflexivity.
Qed.

Lemma dq_loop_4 e room srclen rest si dbuf :
  dq_loop e room srclen rest si 4 dbuf = dq_finish e room dbuf 4 si None.
Proof. destruct rest; reflexivity. Qed.

Definition lenZ (l : bytes) : Z := Z.of_nat (length l).

Lemma lenZ_cons c r : lenZ (c :: r) = lenZ r + 1.
Proof. unfold lenZ. cbn [length]. lia. Qed.
Lemma lenZ_nil : lenZ [] = 0.
Proof. reflexivity. Qed.
Lemma lenZ_app a b : lenZ (a ++ b) = lenZ a + lenZ b.
Proof. unfold lenZ. rewrite app_length. lia. Qed.
Lemma lenZ_nonneg l : 0 <= lenZ l.
Proof. unfold lenZ. lia. Qed.

Lemma nxt_spec e rest : forall si,
  match nxt e rest si with
  | NSym d c r s => exists nls, rest = nls ++ c :: r /\ forallb is_newline nls = true /\
                                s = si + lenZ nls + 1 /\ d = dmap e c /\ d <> 255
  | NPad r s => exists nls c, rest = nls ++ c :: r /\ forallb is_newline nls = true /\
                              s = si + lenZ nls + 1 /\ is_pad e c = true /\ dmap e c = 255 /\ is_newline c = false
  | NBad c r s => exists nls, rest = nls ++ c :: r /\ forallb is_newline nls = true /\
                              s = si + lenZ nls + 1 /\ is_pad e c = false /\ dmap e c = 255 /\ is_newline c = false
  | NEnd s => forallb is_newline rest = true /\ s = si + lenZ rest
  end.
Proof.
  induction rest as [|c r IH]; intros si; cbn [nxt].
  - split; [reflexivity|]. rewrite lenZ_nil. lia.
  - destruct (dmap e c =? 255) eqn:Ed; cbn [negb].
    + apply Z.eqb_eq in Ed. destruct (is_newline c) eqn:En.
      * specialize (IH (si + 1)). destruct (nxt e r (si + 1)) as [d c' r' s|r' s|c' r' s|s].
        -- destruct IH as (nls & E1 & E2 & E3 & E4). exists (c :: nls). cbn [forallb app]. rewrite En, E2, lenZ_cons.
           subst r. repeat split; auto. lia. tauto. tauto.
        -- destruct IH as (nls & c' & E1 & E2 & E3 & E4). exists (c :: nls), c'. cbn [forallb app]. rewrite En, E2, lenZ_cons.
           subst r. repeat split; auto; try tauto. lia.
        -- destruct IH as (nls & E1 & E2 & E3 & E4). exists (c :: nls). cbn [forallb app]. rewrite En, E2, lenZ_cons.
           subst r. repeat split; auto; try tauto. lia.
        -- destruct IH as (E1 & E2). cbn [forallb]. rewrite En, E1, lenZ_cons. split; [reflexivity|lia].
      * destruct (is_pad e c) eqn:Ep; cbn [negb].
        -- exists [], c. cbn [app forallb]. rewrite lenZ_nil. repeat split; auto. lia.
        -- exists []. cbn [app forallb]. rewrite lenZ_nil. repeat split; auto. lia.
    + apply Z.eqb_neq in Ed. exists []. cbn [app forallb]. rewrite lenZ_nil. repeat split; auto. lia.
Qed.

Lemma nxt_num e rest si :
  match nxt e rest si with
  | NSym d c r s => si < s /\ s + lenZ r = si + lenZ rest /\ d = dmap e c /\ d <> 255
  | NPad r s => si < s /\ s + lenZ r = si + lenZ rest
  | NBad c r s => si < s /\ s + lenZ r = si + lenZ rest
  | NEnd s => s = si + lenZ rest
  end.
Proof.
  pose proof (nxt_spec e rest si) as H. destruct (nxt e rest si) as [d c r s|r s|c r s|s].
  - destruct H as (nls & -> & _ & -> & E). rewrite lenZ_app, lenZ_cons. pose proof (lenZ_nonneg nls). repeat split; try tauto; lia.
  - destruct H as (nls & c & -> & _ & -> & E). rewrite lenZ_app, lenZ_cons. pose proof (lenZ_nonneg nls). lia.
  - destruct H as (nls & -> & _ & -> & E). rewrite lenZ_app, lenZ_cons. pose proof (lenZ_nonneg nls). lia.
  - tauto.
Qed.

Lemma skip_nl_spec rest : forall si r s, skip_nl rest si = (r, s) ->
  exists nls, rest = nls ++ r /\ forallb is_newline nls = true /\ s = si + lenZ nls /\
              match r with [] => True | c :: _ => is_newline c = false end.
Proof.
  induction rest as [|c r0 IH]; intros si r s H; cbn [skip_nl] in H.
  - inversion H; subst. exists []. rewrite lenZ_nil. repeat split; auto. lia.
  - destruct (is_newline c) eqn:En.
    + apply IH in H. destruct H as (nls & E1 & E2 & E3 & E4). exists (c :: nls). cbn [app forallb].
      rewrite En, E2, lenZ_cons. subst r0. repeat split; auto. lia.
    + inversion H; subst. exists []. rewrite lenZ_nil. cbn [app forallb]. repeat split; auto. lia.
Qed.

Lemma skip_nl_num rest si r s : skip_nl rest si = (r, s) -> si <= s /\ s + lenZ r = si + lenZ rest.
Proof.
  intros H. apply skip_nl_spec in H. destruct H as (nls & -> & _ & -> & _).
  rewrite lenZ_app. pose proof (lenZ_nonneg nls). lia.
Qed.
