(* Never silent garbage: the shape of accepted texts. *)
Require Import GC.Base.Bytes GC.B64.B64Model GC.B64.B64Spec.
Require Export GC.B64.B64Roundtrip.

Arguments Z.shiftl : simpl never. Arguments Z.shiftr : simpl never. Arguments Z.land : simpl never.
Arguments Z.lor : simpl never. Arguments Z.mul : simpl never. Arguments Z.add : simpl never.
Arguments Z.sub : simpl never. Arguments Z.of_nat : simpl never. Arguments Z.div : simpl never.
Arguments Z.modulo : simpl never.

Definition pads1 (e : encoding) : bytes := match e_pad e with Some p => [p] | None => [] end.
Definition pads2 (e : encoding) : bytes := match e_pad e with Some p => [p; p] | None => [] end.

Definition R64 (d : Z) : Prop := 0 <= d < 64.

(* the decoded tail [tl] and the stripped text [tt] it came from *)
Definition TailOK (e : encoding) (tl tt : bytes) : Prop :=
  (tl = [] /\ tt = []) \/
  (exists d0 d1, R64 d0 /\ R64 d1 /\ tl = [d0 + 64 * (d1 mod 4)] /\
                 tt = sym e d0 :: sym e d1 :: pads2 e /\ (e_strict e = true -> d1 / 4 = 0)) \/
  (exists d0 d1 d2, R64 d0 /\ R64 d1 /\ R64 d2 /\
                 tl = [d0 + 64 * (d1 mod 4); d1 / 4 + 16 * (d2 mod 16)] /\
                 tt = sym e d0 :: sym e d1 :: sym e d2 :: pads1 e /\ (e_strict e = true -> d2 / 16 = 0)).

Lemma strip_step nls c r : forallb is_newline nls = true -> is_newline c = false ->
  strip_nl (nls ++ c :: r) = c :: strip_nl r.
Proof.
  intros H1 H2. rewrite strip_nl_app, strip_nl_newlines by exact H1. rewrite strip_nl_cons by exact H2. reflexivity.
Qed.

Section Fwd.
Variable e : encoding.
Hypothesis Hok : enc_ok e = true.
Variable SRC : bytes.

Lemma nxt_sym_fwd rest si d c r s : nxt e rest si = NSym d c r s -> 0 <= si ->
  skipn (Z.to_nat si) SRC = rest ->
  strip_nl rest = sym e d :: strip_nl r /\ skipn (Z.to_nat s) SRC = r /\ R64 d /\
  si < s /\ s + lenZ r = si + lenZ rest.
Proof.
  intros Hn Hsi Hs. pose proof (nxt_spec e rest si) as N. rewrite Hn in N.
  destruct N as (nls & E1 & E2 & E3 & E4 & E5). subst d.
  pose proof (sym_char_not_nl e Hok c E5) as Hc.
  split; [|split; [|split]].
  - rewrite E1. rewrite strip_step by assumption. rewrite (sym_dmap e c E5). reflexivity.
  - subst s. apply (skipn_consumed1 SRC si nls c r Hsi). rewrite Hs. exact E1.
  - destruct (dmap_range e Hok c) as [H|H]; [contradiction|exact H].
  - rewrite E1, E3. rewrite lenZ_app, lenZ_cons. pose proof (lenZ_nonneg nls). lia.
Qed.

Lemma nxt_pad_fwd rest si r s : nxt e rest si = NPad r s ->
  exists p, e_pad e = Some p /\ strip_nl rest = p :: strip_nl r /\ si < s /\ s + lenZ r = si + lenZ rest.
Proof.
  intros Hn. pose proof (nxt_spec e rest si) as N. rewrite Hn in N.
  destruct N as (nls & c & E1 & E2 & E3 & E4 & E5 & E6).
  unfold is_pad in E4. destruct (e_pad e) as [p|] eqn:Ep; [|discriminate]. apply Z.eqb_eq in E4. subst c.
  exists p. split; [reflexivity|]. split.
  - rewrite E1. apply strip_step; assumption.
  - subst rest s. rewrite lenZ_app, lenZ_cons. pose proof (lenZ_nonneg nls). lia.
Qed.

Lemma nxt_end_fwd rest si s : nxt e rest si = NEnd s -> strip_nl rest = [] /\ s = si + lenZ rest.
Proof.
  intros Hn. pose proof (nxt_spec e rest si) as N. rewrite Hn in N. destruct N as [N1 N2].
  split; [apply strip_nl_newlines; exact N1|exact N2].
Qed.

Lemma skip_fwd rest si r s : skip_nl rest si = (r, s) ->
  strip_nl rest = strip_nl r /\ s + lenZ r = si + lenZ rest.
Proof.
  intros H. apply skip_nl_spec in H. destruct H as (nls & E1 & E2 & E3 & _). subst rest s.
  rewrite strip_nl_app, strip_nl_newlines by exact E2. rewrite lenZ_app. split; [reflexivity|lia].
Qed.

Lemma strict_cond (b : bool) x : b && negb (x =? 0) = false -> b = true -> x = 0.
Proof. intros H Hb. rewrite Hb in H. cbn [andb] in H. apply negb_false_iff in H. apply Z.eqb_eq. exact H. Qed.

Lemma is_pad_eq c p : e_pad e = Some p -> is_pad e c = true -> c = p.
Proof. intros Ep H. unfold is_pad in H. rewrite Ep in H. apply Z.eqb_eq. exact H. Qed.

Lemma acc_quantum room srclen rest si nsi o :
  0 <= si -> skipn (Z.to_nat si) SRC = rest ->
  dq_loop e room srclen rest si 0 [] = QOk nsi o None ->
  (exists d0 d1 d2 d3 r4, R64 d0 /\ R64 d1 /\ R64 d2 /\ R64 d3 /\
      strip_nl rest = sym e d0 :: sym e d1 :: sym e d2 :: sym e d3 :: strip_nl r4 /\
      skipn (Z.to_nat nsi) SRC = r4 /\ si < nsi /\
      o = [d0 + 64 * (d1 mod 4); d1 / 4 + 16 * (d2 mod 16); d2 / 16 + 4 * d3])
  \/ (nsi = si + lenZ rest /\ TailOK e o (strip_nl rest)).
Proof.
  intros Hsi Hs E.
  rewrite dq_loop_step in E by reflexivity.
  destruct (nxt e rest si) as [d0 c0 r1 s1|r1 s1|c0 r1 s1|s1] eqn:N0;
    [ | unfold pad_case in E; discriminate | discriminate | ].
  2:{ unfold end_case in E. cbn [Nat.eqb] in E. inversion E; subst. apply nxt_end_fwd in N0. destruct N0 as [A B].
      right. split; [exact B|]. left. split; [reflexivity|exact A]. }
  destruct (nxt_sym_fwd rest si d0 c0 r1 s1 N0 Hsi Hs) as (T0 & Hs1 & Rd0 & L0a & L0b).
  rewrite dq_loop_step in E by reflexivity.
  destruct (nxt e r1 s1) as [d1 c1 r2 s2|r2 s2|c1 r2 s2|s2] eqn:N1;
    [ | unfold pad_case in E; discriminate | discriminate
      | unfold end_case in E; cbn [Nat.eqb orb] in E; discriminate ].
  destruct (nxt_sym_fwd r1 s1 d1 c1 r2 s2 N1 ltac:(lia) Hs1) as (T1 & Hs2 & Rd1 & L1a & L1b).
  cbn [app] in E.
  rewrite dq_loop_step in E by reflexivity.
  destruct (nxt e r2 s2) as [d2 c2 r3 s3|r3 s3|c2 r3 s3|s3] eqn:N2; [ | | discriminate | ].
  - (* third symbol *)
    destruct (nxt_sym_fwd r2 s2 d2 c2 r3 s3 N2 ltac:(lia) Hs2) as (T2 & Hs3 & Rd2 & L2a & L2b).
    cbn [app] in E.
    rewrite dq_loop_step in E by reflexivity.
    destruct (nxt e r3 s3) as [d3 c3 r4 s4|r4 s4|c3 r4 s4|s4] eqn:N3; [ | | discriminate | ].
    + destruct (nxt_sym_fwd r3 s3 d3 c3 r4 s4 N3 ltac:(lia) Hs3) as (T3 & Hs4 & Rd3 & L3a & L3b).
      cbn [app] in E. rewrite dq_loop_4 in E. rewrite dq_finish_4 in E by assumption.
      destruct (room <? 3); [discriminate|]. inversion E; subst nsi o.
      left. exists d0, d1, d2, d3, r4. rewrite T0, T1, T2, T3. repeat split; auto; try apply Rd0; try apply Rd1; try apply Rd2; try apply Rd3; lia.
    + (* three symbols then padding *)
      destruct (nxt_pad_fwd r3 s3 r4 s4 N3) as (p & Ep & T3 & L3a & L3b).
      unfold pad_case in E. cbn [Nat.eqb] in E. cbv zeta in E.
      destruct (skip_nl r4 s4) as [r5 s5] eqn:Sk. apply skip_fwd in Sk. destruct Sk as [T4 L4].
      change (Z.of_nat 3) with 3 in E. rewrite dq_finish_3 in E by assumption.
      destruct (room <? 2); [discriminate|].
      destruct (e_strict e && negb (d2 / 16 =? 0)) eqn:St; [discriminate|].
      destruct r5; [|discriminate]. inversion E; subst nsi o. rewrite lenZ_nil in L4.
      right. split; [lia|]. right. right. exists d0, d1, d2.
      rewrite T0, T1, T2, T3, T4. unfold pads1. rewrite Ep.
      repeat split; auto; try apply Rd0; try apply Rd1; try apply Rd2. apply strict_cond. exact St.
    + (* three symbols then end of input *)
      apply nxt_end_fwd in N3. destruct N3 as [T3 L3].
      unfold end_case in E. cbn [Nat.eqb orb] in E. destruct (has_pad e) eqn:Hp; [discriminate|].
      change (Z.of_nat 3) with 3 in E. rewrite dq_finish_3 in E by assumption.
      destruct (room <? 2); [discriminate|].
      destruct (e_strict e && negb (d2 / 16 =? 0)) eqn:St; [discriminate|].
      inversion E; subst nsi o.
      right. split; [lia|]. right. right. exists d0, d1, d2.
      rewrite T0, T1, T2, T3. unfold pads1. unfold has_pad in Hp. destruct (e_pad e); [discriminate|].
      repeat split; auto; try apply Rd0; try apply Rd1; try apply Rd2. apply strict_cond. exact St.
  - (* two symbols then padding *)
    destruct (nxt_pad_fwd r2 s2 r3 s3 N2) as (p & Ep & T2 & L2a & L2b).
    unfold pad_case in E. cbn [Nat.eqb] in E. cbv zeta in E.
    destruct (skip_nl r3 s3) as [r3' s3'] eqn:Sk1. apply skip_fwd in Sk1. destruct Sk1 as [T3 L3].
    destruct r3' as [|c2 r4]; [discriminate|].
    destruct (is_pad e c2) eqn:Hp2; [|discriminate].
    pose proof (is_pad_eq c2 p Ep Hp2) as Ec2. subst c2.
    pose proof (pad_not_newline e Hok p Hp2) as Hpn.
    destruct (skip_nl r4 (s3' + 1)) as [r5 s5] eqn:Sk2. apply skip_fwd in Sk2. destruct Sk2 as [T4 L4].
    change (Z.of_nat 2) with 2 in E. rewrite dq_finish_2 in E by assumption.
    destruct (room <? 1); [discriminate|].
    destruct (e_strict e && negb (d1 / 4 =? 0)) eqn:St; [discriminate|].
    destruct r5; [|discriminate]. inversion E; subst nsi o. rewrite lenZ_nil in L4. rewrite lenZ_cons in L3.
    right. split; [lia|]. right. left. exists d0, d1.
    rewrite T0, T1, T2, T3. rewrite strip_nl_cons by exact Hpn. rewrite T4. unfold pads2. rewrite Ep.
    repeat split; auto; try apply Rd0; try apply Rd1. apply strict_cond. exact St.
  - (* two symbols then end of input *)
    apply nxt_end_fwd in N2. destruct N2 as [T2 L2].
    unfold end_case in E. cbn [Nat.eqb orb] in E. destruct (has_pad e) eqn:Hp; [discriminate|].
    change (Z.of_nat 2) with 2 in E. rewrite dq_finish_2 in E by assumption.
    destruct (room <? 1); [discriminate|].
    destruct (e_strict e && negb (d1 / 4 =? 0)) eqn:St; [discriminate|].
    inversion E; subst nsi o.
    right. split; [lia|]. right. left. exists d0, d1.
    rewrite T0, T1, T2. unfold pads2. unfold has_pad in Hp. destruct (e_pad e); [discriminate|].
    repeat split; auto; try apply Rd0; try apply Rd1. apply strict_cond. exact St.
Qed.

Variable f : nat.
Hypothesis Hf : (Z.to_nat (lenZ SRC) + 1 <= f)%nat.
Local Notation srclen := (lenZ SRC).
Local Notation dcap := (DecodedLen e (lenZ SRC)).

Lemma acc_loop : forall m rest si out0 out,
  (Z.to_nat (srclen - si) <= m)%nat -> 0 <= si <= srclen -> skipn (Z.to_nat si) SRC = rest ->
  Inv SRC (lenZ out0) si -> dec_loop f e dcap SRC 3 si out0 = DOk out None ->
  exists body tl tt, out = out0 ++ body ++ tl /\ (exists k, length body = 3 * k)%nat /\
    wf_bytes body = true /\ strip_nl rest = encode e body ++ tt /\ TailOK e tl tt.
Proof.
  induction m as [m IH] using lt_wf_ind. intros rest si out0 out Hm Hsi Hs HI H.
  destruct (slow_unfold e SRC Hok f si out0 Hf Hsi HI) as (nsi & o & err & E & B1 & B2 & B4 & U).
  rewrite U in H. clear U. destruct (Z.ltb_spec si srclen) as [Hlt|Hge].
  - destruct err as [k0|]; [discriminate|].
    unfold decodeQuantum in E. rewrite Hs in E.
    apply (acc_quantum _ _ rest si nsi o (proj1 Hsi) Hs) in E.
    destruct E as [(d0 & d1 & d2 & d3 & r4 & R0 & R1 & R2 & R3 & T & Hs4 & Hlt4 & Eo)|(En & Ht)].
    + destruct (IH (m - 1)%nat ltac:(lia) r4 nsi (out0 ++ o) out ltac:(lia) ltac:(lia) Hs4 (B4 eq_refl) H)
        as (body & tl & tt & P1 & (k & P2) & P3 & P4 & P5).
      destruct (enc_dq d0 d1 d2 d3 R0 R1 R2 R3) as ((Wx & Wy & Wz) & I0 & I1 & I2 & I3).
      exists (o ++ body), tl, tt. subst o. split; [|split; [|split; [|split]]].
      * rewrite P1. rewrite <- !app_assoc. reflexivity.
      * exists (S k). cbn [app length]. lia.
      * cbn [app]. rewrite !wf_bytes_cons. auto.
      * cbn [app]. rewrite encode_cons3. cbv zeta. rewrite I0, I1, I2, I3. rewrite T, P4. reflexivity.
      * exact P5.
    + pose proof (skipn_lenZ SRC si Hsi) as Hl. rewrite Hs in Hl.
      assert (Hn : nsi = srclen) by lia. clear En. subst nsi.
      destruct (slow_unfold e SRC Hok f srclen (out0 ++ o) Hf ltac:(lia) (B4 eq_refl))
        as (nsi2 & o2 & err2 & _ & _ & _ & _ & U2).
      rewrite U2 in H. rewrite Z.ltb_irrefl in H. inversion H; subst out.
      exists [], o, (strip_nl rest). cbn [app encode]. split; [reflexivity|]. split; [exists O; reflexivity|].
      split; [reflexivity|]. split; [reflexivity|exact Ht].
  - inversion H; subst out. rewrite skipn_all_Z in Hs by lia. subst rest.
    exists [], [], []. rewrite !app_nil_r. split; [reflexivity|]. split; [exists O; reflexivity|].
    split; [reflexivity|]. split; [reflexivity|]. left. auto.
Qed.
End Fwd.

(* ---------- from the shape to accepted_ok ---------- *)
Lemma encode_app3 e tl : forall k body, length body = (3 * k)%nat ->
  encode e (body ++ tl) = encode e body ++ encode e tl.
Proof.
  induction k as [|k IH]; intros body Hl.
  - destruct body; [reflexivity|cbn [length] in Hl; lia].
  - destruct body as [|a [|b [|c r]]]; cbn [length] in Hl; try lia.
    cbn [app]. rewrite !encode_cons3. cbv zeta. rewrite IH by lia. reflexivity.
Qed.

Lemma data_syms_app e a b : data_syms e (a ++ b) = data_syms e a ++ data_syms e b.
Proof. unfold data_syms. apply filter_app. Qed.

Lemma data_syms_cons_sym e (Hok : enc_ok e = true) d r : R64 d ->
  data_syms e (sym e d :: r) = sym e d :: data_syms e r.
Proof. intros Hd. unfold data_syms. cbn [filter]. rewrite (sym_not_pad e Hok d Hd). reflexivity. Qed.

Lemma data_syms_body e (Hok : enc_ok e = true) : forall k body, length body = (3 * k)%nat ->
  wf_bytes body = true -> data_syms e (encode e body) = encode e body.
Proof.
  induction k as [|k IH]; intros body Hl Hw.
  - destruct body; [reflexivity|cbn [length] in Hl; lia].
  - destruct body as [|a [|b [|c r]]]; cbn [length] in Hl; try lia.
    apply wf_bytes_cons in Hw. destruct Hw as [Ha Hw]. apply wf_bytes_cons in Hw. destruct Hw as [Hb Hw].
    apply wf_bytes_cons in Hw. destruct Hw as [Hc Hw].
    rewrite encode_cons3. cbv zeta. destruct (idx_range a b c Ha Hb Hc) as (R0 & R1 & R2 & R3).
    rewrite !(data_syms_cons_sym e Hok) by assumption. rewrite IH by (auto; lia). reflexivity.
Qed.

Lemma data_syms_pads1 e : data_syms e (pads1 e) = [].
Proof.
  unfold pads1, data_syms, is_pad. destruct (e_pad e) as [p|]; [|reflexivity].
  cbn [filter]. rewrite Z.eqb_refl. reflexivity.
Qed.
Lemma data_syms_pads2 e : data_syms e (pads2 e) = [].
Proof.
  unfold pads2, data_syms, is_pad. destruct (e_pad e) as [p|]; [|reflexivity].
  cbn [filter]. rewrite Z.eqb_refl. reflexivity.
Qed.

Lemma encode_tail1 e d0 d1 : R64 d0 -> R64 d1 ->
  encode e [d0 + 64 * (d1 mod 4)] = sym e d0 :: sym e (d1 mod 4) :: pads2 e.
Proof.
  unfold R64. intros H0 H1. cbn [encode]. cbv zeta. rewrite enc_val_1.
  assert (Hb : 0 <= d0 + 64 * (d1 mod 4) < 256) by (Z.div_mod_to_equations; lia).
  rewrite idx0_closed, idx1_closed by lia. unfold pads2.
  replace ((d0 + 64 * (d1 mod 4)) mod 64) with d0 by (Z.div_mod_to_equations; lia).
  replace ((d0 + 64 * (d1 mod 4)) / 64 + 4 * (0 mod 16)) with (d1 mod 4) by (Z.div_mod_to_equations; lia).
  reflexivity.
Qed.

Lemma encode_tail2 e d0 d1 d2 : R64 d0 -> R64 d1 -> R64 d2 ->
  encode e [d0 + 64 * (d1 mod 4); d1 / 4 + 16 * (d2 mod 16)] =
  sym e d0 :: sym e d1 :: sym e (d2 mod 16) :: pads1 e.
Proof.
  unfold R64. intros H0 H1 H2. cbn [encode]. cbv zeta. rewrite enc_val_2.
  assert (Hb0 : 0 <= d0 + 64 * (d1 mod 4) < 256) by (Z.div_mod_to_equations; lia).
  assert (Hb1 : 0 <= d1 / 4 + 16 * (d2 mod 16) < 256) by (Z.div_mod_to_equations; lia).
  rewrite idx0_closed, idx1_closed, idx2_closed by lia. unfold pads1.
  replace ((d0 + 64 * (d1 mod 4)) mod 64) with d0 by (Z.div_mod_to_equations; lia).
  replace ((d0 + 64 * (d1 mod 4)) / 64 + 4 * ((d1 / 4 + 16 * (d2 mod 16)) mod 16)) with d1
    by (Z.div_mod_to_equations; lia).
  replace ((d1 / 4 + 16 * (d2 mod 16)) / 16 + 16 * (0 mod 4)) with (d2 mod 16) by (Z.div_mod_to_equations; lia).
  reflexivity.
Qed.

Lemma mod3_0 k : Nat.modulo (3 * k) 3 = 0%nat.
Proof. rewrite Nat.mul_comm. apply Nat.mod_mul. lia. Qed.
Lemma mod3_1 k : Nat.modulo (3 * k + 1) 3 = 1%nat.
Proof. rewrite Nat.add_comm, Nat.mul_comm. rewrite Nat.mod_add by lia. reflexivity. Qed.
Lemma mod3_2 k : Nat.modulo (3 * k + 2) 3 = 2%nat.
Proof. rewrite Nat.add_comm, Nat.mul_comm. rewrite Nat.mod_add by lia. reflexivity. Qed.

Lemma Nat_eqb_refl n : Nat.eqb n n = true.
Proof. apply Nat.eqb_eq. reflexivity. Qed.

(* the lenient clause of accepted_ok for st = X ++ P, canon = X' ++ P *)
Lemma lenient_ok e nbytes X X' P :
  data_syms e X' = X' -> data_syms e P = [] -> length X = length X' ->
  same_upto_unused e nbytes X X' = true ->
  Nat.eqb (length (X ++ P)) (length (X' ++ P)) &&
  bytes_eqb (skipn (length (data_syms e (X' ++ P))) (X ++ P)) (skipn (length (data_syms e (X' ++ P))) (X' ++ P)) &&
  same_upto_unused e nbytes (firstn (length (data_syms e (X' ++ P))) (X ++ P)) (data_syms e (X' ++ P)) = true.
Proof.
  intros HX' HP Hl Hs. rewrite data_syms_app, HX', HP, app_nil_r.
  rewrite <- Hl at 1 3. rewrite !skipn_app_exact, firstn_app_exact.
  rewrite !app_length, Hl, Nat_eqb_refl, bytes_eqb_refl, Hs. reflexivity.
Qed.

Lemma two_last {A} (E : list A) a b : E ++ [a; b] = (E ++ [a]) ++ [b].
Proof. rewrite <- app_assoc. reflexivity. Qed.
Lemma three_last {A} (E : list A) a b c : E ++ [a; b; c] = (E ++ [a; b]) ++ [c].
Proof. rewrite <- app_assoc. reflexivity. Qed.

Lemma wf_bytes_app a b : wf_bytes (a ++ b) = wf_bytes a && wf_bytes b.
Proof. unfold wf_bytes. apply forallb_app. Qed.

Lemma tail_upto e (Hwf : enc_wf e = true) (K : Z) (E : bytes) a x y :
  R64 x -> R64 y -> x mod K = y mod K ->
  Nat.eqb (length ((E ++ a) ++ [sym e x])) (length ((E ++ a) ++ [sym e y])) &&
  bytes_eqb (removelast ((E ++ a) ++ [sym e x])) (removelast ((E ++ a) ++ [sym e y])) &&
  (dmap e (last ((E ++ a) ++ [sym e x]) 0) mod K =? dmap e (last ((E ++ a) ++ [sym e y]) 0) mod K) &&
  is_symbol e (last ((E ++ a) ++ [sym e x]) 0) = true.
Proof.
  intros Hx Hy Hxy. destruct (enc_wf_ok e Hwf) as [Hok Hnd].
  rewrite !removelast_last, !last_last, !app_length. cbn [length]. rewrite Nat_eqb_refl, bytes_eqb_refl.
  rewrite !(dmap_sym e Hok _ Hnd) by assumption. rewrite Hxy, Z.eqb_refl.
  unfold is_symbol. rewrite (dmap_sym e Hok _ Hnd) by assumption.
  replace (x =? 255) with false by (symmetry; apply Z.eqb_neq; unfold R64 in Hx; lia). reflexivity.
Qed.

Lemma accepted_from_struct e (Hwf : enc_wf e = true) t body tl tt k :
  length body = (3 * k)%nat -> wf_bytes body = true ->
  strip_nl t = encode e body ++ tt -> TailOK e tl tt ->
  accepted_ok e t (body ++ tl) = true /\ wf_bytes (body ++ tl) = true.
Proof.
  intros Hl Hw Hst Ht. destruct (enc_wf_ok e Hwf) as [Hok Hnd].
  unfold accepted_ok. cbv zeta. rewrite Hst, (encode_app3 e tl k body Hl). rewrite wf_bytes_app, Hw.
  pose proof (data_syms_body e Hok k body Hl Hw) as HdE.
  set (E := encode e body) in *.
  destruct Ht as [[-> ->]|[(d0 & d1 & R0 & R1 & -> & -> & Hs)|(d0 & d1 & d2 & R0 & R1 & R2 & -> & -> & Hs)]].
  - cbn [encode]. rewrite !app_nil_r. split; [|reflexivity].
    destruct (e_strict e); [apply bytes_eqb_refl|].
    rewrite HdE, Nat_eqb_refl, bytes_eqb_refl. cbn [andb]. unfold same_upto_unused. rewrite Hl, mod3_0.
    rewrite firstn_all. apply bytes_eqb_refl.
  - rewrite encode_tail1 by assumption.
    assert (Rm : R64 (d1 mod 4)) by (unfold R64 in *; Z.div_mod_to_equations; lia).
    split.
    + destruct (e_strict e) eqn:Est.
      * specialize (Hs eq_refl). replace (d1 mod 4) with d1 by (unfold R64 in *; Z.div_mod_to_equations; lia).
        apply bytes_eqb_refl.
      * replace (E ++ sym e d0 :: sym e d1 :: pads2 e) with ((E ++ [sym e d0; sym e d1]) ++ pads2 e)
          by (rewrite <- app_assoc; reflexivity).
        replace (E ++ sym e d0 :: sym e (d1 mod 4) :: pads2 e) with ((E ++ [sym e d0; sym e (d1 mod 4)]) ++ pads2 e)
          by (rewrite <- app_assoc; reflexivity).
        apply lenient_ok.
        -- rewrite data_syms_app, HdE. rewrite !(data_syms_cons_sym e Hok) by assumption. reflexivity.
        -- apply data_syms_pads2.
        -- rewrite !app_length. reflexivity.
        -- unfold same_upto_unused. rewrite app_length, Hl. cbn [length]. rewrite mod3_1. cbn [Nat.eqb].
           unfold low_bits_eq. rewrite !two_last. change (2 ^ 2) with 4.
           apply (tail_upto e Hwf 4 E [sym e d0] d1 (d1 mod 4)); auto. rewrite Z.mod_mod by lia. reflexivity.
    + cbn [wf_bytes forallb andb]. rewrite andb_true_r. apply wf_byte_range.
      unfold R64 in *. Z.div_mod_to_equations. lia.
  - rewrite encode_tail2 by assumption.
    assert (Rm : R64 (d2 mod 16)) by (unfold R64 in *; Z.div_mod_to_equations; lia).
    split.
    + destruct (e_strict e) eqn:Est.
      * specialize (Hs eq_refl). replace (d2 mod 16) with d2 by (unfold R64 in *; Z.div_mod_to_equations; lia).
        apply bytes_eqb_refl.
      * replace (E ++ sym e d0 :: sym e d1 :: sym e d2 :: pads1 e) with ((E ++ [sym e d0; sym e d1; sym e d2]) ++ pads1 e)
          by (rewrite <- app_assoc; reflexivity).
        replace (E ++ sym e d0 :: sym e d1 :: sym e (d2 mod 16) :: pads1 e)
          with ((E ++ [sym e d0; sym e d1; sym e (d2 mod 16)]) ++ pads1 e)
          by (rewrite <- app_assoc; reflexivity).
        apply lenient_ok.
        -- rewrite data_syms_app, HdE. rewrite !(data_syms_cons_sym e Hok) by assumption. reflexivity.
        -- apply data_syms_pads1.
        -- rewrite !app_length. reflexivity.
        -- unfold same_upto_unused. rewrite app_length, Hl. cbn [length]. rewrite mod3_2. cbn [Nat.eqb].
           unfold low_bits_eq. rewrite !three_last. change (2 ^ 4) with 16.
           apply (tail_upto e Hwf 16 E [sym e d0; sym e d1] d2 (d2 mod 16)); auto. rewrite Z.mod_mod by lia. reflexivity.
    + cbn [wf_bytes forallb andb]. rewrite andb_true_r. apply andb_true_iff. split; apply wf_byte_range;
      unfold R64 in *; Z.div_mod_to_equations; lia.
Qed.

Theorem accept_sound_slow : forall e t out, enc_wf e = true ->
  decode_slow e t = DOk out None -> accepted_ok e t out = true /\ wf_bytes out = true.
Proof.
  intros e t out Hwf H. destruct (enc_wf_ok e Hwf) as [Hok Hnd].
  assert (S : exists body tl tt k, out = body ++ tl /\ length body = (3 * k)%nat /\ wf_bytes body = true /\
                strip_nl t = encode e body ++ tt /\ TailOK e tl tt).
  { unfold decode_slow in H. destruct t as [|c t'].
    - inversion H; subst. exists [], [], [], O. repeat split; auto. left; auto.
    - set (T := c :: t') in *.
      assert (Hf : (Z.to_nat (lenZ T) + 1 <= length T + 4)%nat) by (unfold lenZ; lia).
      pose proof (lenZ_nonneg T) as HT.
      destruct (acc_loop e Hok T (length T + 4) Hf (length T) T 0 [] out) as (body & tl & tt & P1 & (k & P2) & P3 & P4 & P5); auto.
      + unfold lenZ. lia.
      + lia.
      + left. split; [reflexivity|]. rewrite lenZ_nil. lia.
      + exists body, tl, tt, k. auto. }
  destruct S as (body & tl & tt & k & -> & P2 & P3 & P4 & P5).
  apply (accepted_from_struct e Hwf t body tl tt k); assumption.
Qed.
