(* Decode inverts Encode, with CR/LF interspersed anywhere. *)
Require Import GC.Base.Bytes GC.B64.B64Model GC.B64.B64Spec.
Require Export GC.B64.B64DecContent.

Arguments Z.shiftl : simpl never. Arguments Z.shiftr : simpl never. Arguments Z.land : simpl never.
Arguments Z.lor : simpl never. Arguments Z.mul : simpl never. Arguments Z.add : simpl never.
Arguments Z.sub : simpl never. Arguments Z.of_nat : simpl never. Arguments Z.div : simpl never.
Arguments Z.modulo : simpl never.

Lemma enc_wf_ok e : enc_wf e = true -> enc_ok e = true /\ nodup_b (e_alpha e) = true.
Proof. unfold enc_wf. intros H. apply andb_true_iff in H. exact H. Qed.

Lemma skipn_all_Z (l : bytes) si : lenZ l <= si -> skipn (Z.to_nat si) l = [].
Proof. intros H. apply skipn_all2. unfold lenZ in H. lia. Qed.

Section RT.
Variable e : encoding.
Hypothesis Hwf : enc_wf e = true.
Let Hok : enc_ok e = true := proj1 (enc_wf_ok e Hwf).
Let Hnd : nodup_b (e_alpha e) = true := proj2 (enc_wf_ok e Hwf).
Variable SRC : bytes.
Variable f : nat.
Hypothesis Hf : (Z.to_nat (lenZ SRC) + 1 <= f)%nat.
Local Notation srclen := (lenZ SRC).
Local Notation dcap := (DecodedLen e (lenZ SRC)).

(* one symbol step inside hypothesis E about dq_loop; keeps the position facts *)
Ltac sym_step E Hs Hstrip Hx nls r1 s1 Es1 Hs1 Hstrip1 :=
  match type of E with
  | dq_loop ?e ?room ?sl ?rest ?si ?j ?dbuf = _ =>
    match type of Hstrip with
    | strip_nl _ = ?x :: ?more =>
      let Er := fresh "Er" in let Eq := fresh "Eq" in
      destruct (dq_sym_step e Hok room sl rest si j dbuf x more eq_refl Hstrip Hx)
        as (nls & r1 & Er & Hstrip1 & Eq);
      rewrite Eq in E; clear Eq;
      let Hl := fresh "Hl" in (pose proof (f_equal lenZ Er) as Hl; rewrite lenZ_app, lenZ_cons in Hl);
      rewrite Er in Hs;
      pose proof (skipn_consumed1 SRC si nls x r1 ltac:(lia) Hs) as Hs1;
      pose proof (lenZ_nonneg nls); pose proof (lenZ_nonneg r1);
      remember (si + lenZ nls + 1) as s1 eqn:Es1
    end
  end.

Lemma rt_nil rest si out : 0 <= si <= srclen -> skipn (Z.to_nat si) SRC = rest ->
  strip_nl rest = [] -> Inv SRC (lenZ out) si ->
  dec_loop f e dcap SRC 3 si out = DOk out None.
Proof.
  intros Hsi Hs Hst HI.
  destruct (slow_unfold e SRC Hok f si out Hf Hsi HI) as (nsi & o & err & E & B1 & B2 & B4 & U).
  rewrite U. clear U.
  destruct (Z.ltb_spec si srclen) as [Hlt|Hge]; [|reflexivity].
  unfold decodeQuantum in E. rewrite Hs in E. rewrite dq_loop_step in E by reflexivity.
  rewrite nxt_strip_end in E by assumption. unfold end_case in E. cbn [Nat.eqb] in E.
  inversion E; subst nsi o err. rewrite app_nil_r.
  pose proof (skipn_lenZ SRC si Hsi) as Hl. rewrite Hs in Hl.
  destruct (slow_unfold e SRC Hok f (si + lenZ rest) out Hf ltac:(lia)) as (nsi & o & err & E2 & C1 & C2 & C4 & U).
  { rewrite app_nil_r in B4. apply B4. reflexivity. }
  rewrite U. destruct (Z.ltb_spec (si + lenZ rest) srclen); [lia|reflexivity].
Qed.

Lemma rt_full b0 b1 b2 more rest si out :
  0 <= b0 < 256 -> 0 <= b1 < 256 -> 0 <= b2 < 256 ->
  0 <= si <= srclen -> skipn (Z.to_nat si) SRC = rest ->
  (let v := enc_val b0 b1 b2 in
   strip_nl rest = sym e (idx0 v) :: sym e (idx1 v) :: sym e (idx2 v) :: sym e (idx3 v) :: more) ->
  Inv SRC (lenZ out) si ->
  exists r4 s4, 0 <= s4 <= srclen /\ skipn (Z.to_nat s4) SRC = r4 /\ strip_nl r4 = more /\
    Inv SRC (lenZ (out ++ [b0; b1; b2])) s4 /\
    dec_loop f e dcap SRC 3 si out = dec_loop f e dcap SRC 3 s4 (out ++ [b0; b1; b2]).
Proof.
  intros H0 H1 H2 Hsi Hs Hst HI. cbv zeta in Hst.
  destruct (idx_range b0 b1 b2 H0 H1 H2) as (R0 & R1 & R2 & R3).
  pose proof (sym_valid e Hok _ R0) as V0. pose proof (sym_valid e Hok _ R1) as V1.
  pose proof (sym_valid e Hok _ R2) as V2. pose proof (sym_valid e Hok _ R3) as V3.
  destruct (slow_unfold e SRC Hok f si out Hf Hsi HI) as (nsi & o & err & E & B1 & B2 & B4 & U).
  unfold decodeQuantum in E. rewrite Hs in E.
  sym_step E Hs Hst V0 nls0 r1 s1 Es1 Hs1 Hst1.
  sym_step E Hs1 Hst1 V1 nls1 r2 s2 Es2 Hs2 Hst2.
  sym_step E Hs2 Hst2 V2 nls2 r3 s3 Es3 Hs3 Hst3.
  sym_step E Hs3 Hst3 V3 nls3 r4 s4 Es4 Hs4 Hst4.
  rewrite dq_loop_4 in E. cbn [app] in E.
  rewrite !(dmap_sym e Hok _ Hnd) in E by assumption.
  rewrite dq_finish_4 in E by assumption.
  destruct (DecodedLen e (lenZ SRC) - lenZ out <? 3); [discriminate|].
  rewrite <- dq_bytes_closed in E by assumption.
  pose proof (dq_enc b0 b1 b2 H0 H1 H2) as Hde. cbv zeta in Hde. rewrite Hde in E.
  inversion E; subst nsi o err. clear E.
  exists r4, s4. split; [lia|]. split; [exact Hs4|]. split; [exact Hst4|]. split; [apply B4; reflexivity|].
  rewrite U. destruct (Z.ltb_spec si srclen); [reflexivity|lia].
Qed.

Lemma slow_at_end out : Inv SRC (lenZ out) srclen -> dec_loop f e dcap SRC 3 srclen out = DOk out None.
Proof.
  intros HI. apply (rt_nil []); auto.
  - pose proof (lenZ_nonneg SRC). lia.
  - apply skipn_all_Z. lia.
Qed.

Lemma is_pad_refl p : e_pad e = Some p -> is_pad e p = true.
Proof. intros H. unfold is_pad. rewrite H. apply Z.eqb_refl. Qed.

Lemma rt_tail2 b0 b1 rest si out :
  0 <= b0 < 256 -> 0 <= b1 < 256 ->
  0 <= si <= srclen -> skipn (Z.to_nat si) SRC = rest ->
  (let v := enc_val b0 b1 0 in
   strip_nl rest = sym e (idx0 v) :: sym e (idx1 v) :: sym e (idx2 v)
                     :: match e_pad e with Some p => [p] | None => [] end) ->
  Inv SRC (lenZ out) si ->
  dec_loop f e dcap SRC 3 si out = DOk (out ++ [b0; b1]) None.
Proof.
  intros H0 H1 Hsi Hs Hst HI. cbv zeta in Hst.
  assert (H2 : 0 <= 0 < 256) by lia.
  destruct (idx_range b0 b1 0 H0 H1 H2) as (R0 & R1 & R2 & R3).
  pose proof (sym_valid e Hok _ R0) as V0. pose proof (sym_valid e Hok _ R1) as V1.
  pose proof (sym_valid e Hok _ R2) as V2.
  assert (Hd2 : idx2 (enc_val b0 b1 0) / 16 = 0).
  { rewrite idx2_closed by assumption. Z.div_mod_to_equations. lia. }
  pose proof (dq_enc b0 b1 0 H0 H1 H2) as Hde. cbv zeta in Hde.
  rewrite dq_bytes_closed in Hde by assumption. injection Hde as Hb0 Hb1 Hb2. clear Hb2.
  pose proof (skipn_lenZ SRC si Hsi) as Hl0. rewrite Hs in Hl0.
  destruct (slow_unfold e SRC Hok f si out Hf Hsi HI) as (nsi & o & err & E & B1 & B2 & B4 & U).
  unfold decodeQuantum in E. rewrite Hs in E.
  sym_step E Hs Hst V0 nls0 r1 s1 Es1 Hs1 Hst1.
  sym_step E Hs1 Hst1 V1 nls1 r2 s2 Es2 Hs2 Hst2.
  sym_step E Hs2 Hst2 V2 nls2 r3 s3 Es3 Hs3 Hst3.
  rewrite dq_loop_step in E by reflexivity. cbn [app] in E.
  rewrite !(dmap_sym e Hok _ Hnd) in E by assumption.
  assert (Efin : forall S, dq_finish e (dcap - lenZ out) [idx0 (enc_val b0 b1 0); idx1 (enc_val b0 b1 0); idx2 (enc_val b0 b1 0)] 3 S None
                           = QOk nsi o err -> nsi = S /\ o = [b0; b1] /\ err = None).
  { intros S EF. rewrite dq_finish_3 in EF by assumption. rewrite Hd2 in EF. change (0 =? 0) with true in EF.
    cbn [negb] in EF. rewrite andb_false_r in EF. rewrite Hb0, Hb1 in EF.
    destruct (dcap - lenZ out <? 2); [discriminate|]. inversion EF; auto. }
  assert (Hend : nsi = srclen -> o = [b0; b1] -> err = None ->
                 dec_loop f e dcap SRC 3 si out = DOk (out ++ [b0; b1]) None).
  { intros -> -> ->. rewrite U. destruct (Z.ltb_spec si srclen); [|lia]. apply slow_at_end. apply B4. reflexivity. }
  destruct (e_pad e) as [p|] eqn:Ep.
  - destruct (nxt_strip_pad e Hok r3 s3 p [] Hst3 (is_pad_refl p Ep)) as (nls3 & r4 & Er4 & Hst4 & En).
    rewrite En in E. unfold pad_case in E. cbn [Nat.eqb] in E. cbv zeta in E.
    rewrite (skip_strip_nil r4 _ Hst4) in E. cbv beta iota in E. change (Z.of_nat 3) with 3 in E.
    apply Efin in E. destruct E as (E1 & E2 & E3).
    pose proof (f_equal lenZ Er4) as Hl4. rewrite lenZ_app, lenZ_cons in Hl4.
    apply Hend; auto. lia.
  - rewrite (nxt_strip_end e Hok r3 _ Hst3) in E. unfold end_case in E. cbn [Nat.eqb orb] in E.
    unfold has_pad in E. rewrite Ep in E. change (Z.of_nat 3) with 3 in E.
    apply Efin in E. destruct E as (E1 & E2 & E3). apply Hend; auto. lia.
Qed.

Lemma rt_tail1 b0 rest si out :
  0 <= b0 < 256 ->
  0 <= si <= srclen -> skipn (Z.to_nat si) SRC = rest ->
  (let v := enc_val b0 0 0 in
   strip_nl rest = sym e (idx0 v) :: sym e (idx1 v)
                     :: match e_pad e with Some p => [p; p] | None => [] end) ->
  Inv SRC (lenZ out) si ->
  dec_loop f e dcap SRC 3 si out = DOk (out ++ [b0]) None.
Proof.
  intros H0 Hsi Hs Hst HI. cbv zeta in Hst.
  assert (H2 : 0 <= 0 < 256) by lia.
  destruct (idx_range b0 0 0 H0 H2 H2) as (R0 & R1 & R2 & R3).
  pose proof (sym_valid e Hok _ R0) as V0. pose proof (sym_valid e Hok _ R1) as V1.
  assert (Hd1 : idx1 (enc_val b0 0 0) / 4 = 0).
  { rewrite idx1_closed by assumption. Z.div_mod_to_equations. lia. }
  pose proof (dq_enc b0 0 0 H0 H2 H2) as Hde. cbv zeta in Hde.
  rewrite dq_bytes_closed in Hde by assumption. injection Hde as Hb0 Hb1 Hb2. clear Hb1 Hb2.
  pose proof (skipn_lenZ SRC si Hsi) as Hl0. rewrite Hs in Hl0.
  destruct (slow_unfold e SRC Hok f si out Hf Hsi HI) as (nsi & o & err & E & B1 & B2 & B4 & U).
  unfold decodeQuantum in E. rewrite Hs in E.
  sym_step E Hs Hst V0 nls0 r1 s1 Es1 Hs1 Hst1.
  sym_step E Hs1 Hst1 V1 nls1 r2 s2 Es2 Hs2 Hst2.
  rewrite dq_loop_step in E by reflexivity. cbn [app] in E.
  rewrite !(dmap_sym e Hok _ Hnd) in E by assumption.
  assert (Efin : forall S, dq_finish e (dcap - lenZ out) [idx0 (enc_val b0 0 0); idx1 (enc_val b0 0 0)] 2 S None
                           = QOk nsi o err -> nsi = S /\ o = [b0] /\ err = None).
  { intros S EF. rewrite dq_finish_2 in EF by assumption. rewrite Hd1 in EF. change (0 =? 0) with true in EF.
    cbn [negb] in EF. rewrite andb_false_r in EF. rewrite Hb0 in EF.
    destruct (dcap - lenZ out <? 1); [discriminate|]. inversion EF; auto. }
  assert (Hend : nsi = srclen -> o = [b0] -> err = None ->
                 dec_loop f e dcap SRC 3 si out = DOk (out ++ [b0]) None).
  { intros -> -> ->. rewrite U. destruct (Z.ltb_spec si srclen); [|lia]. apply slow_at_end. apply B4. reflexivity. }
  destruct (e_pad e) as [p|] eqn:Ep.
  - pose proof (is_pad_refl p Ep) as Hp.
    destruct (nxt_strip_pad e Hok r2 s2 p [p] Hst2 Hp) as (nls2 & r3 & Er3 & Hst3 & En).
    rewrite En in E. unfold pad_case in E. cbn [Nat.eqb] in E. cbv zeta in E.
    destruct (skip_strip_cons r3 (s2 + lenZ nls2 + 1) p [] Hst3) as (nls3 & r4 & Er4 & Hst4 & Esk).
    rewrite Esk in E. cbv beta iota in E. rewrite Hp in E.
    rewrite (skip_strip_nil r4 _ Hst4) in E. cbv beta iota in E. change (Z.of_nat 2) with 2 in E.
    apply Efin in E. destruct E as (E1 & E2 & E3).
    pose proof (f_equal lenZ Er3) as Hl3. rewrite lenZ_app, lenZ_cons in Hl3.
    pose proof (f_equal lenZ Er4) as Hl4. rewrite lenZ_app, lenZ_cons in Hl4.
    apply Hend; auto. lia.
  - rewrite (nxt_strip_end e Hok r2 _ Hst2) in E. unfold end_case in E. cbn [Nat.eqb orb] in E.
    unfold has_pad in E. rewrite Ep in E. change (Z.of_nat 2) with 2 in E.
    apply Efin in E. destruct E as (E1 & E2 & E3). apply Hend; auto. lia.
Qed.

Lemma wf_bytes_cons b r : wf_bytes (b :: r) = true <-> 0 <= b < 256 /\ wf_bytes r = true.
Proof. cbn [wf_bytes forallb]. rewrite andb_true_iff, wf_byte_range. reflexivity. Qed.

Lemma rt_loop : forall src0 rest si out,
  0 <= si <= srclen -> skipn (Z.to_nat si) SRC = rest -> strip_nl rest = encode e src0 ->
  wf_bytes src0 = true -> Inv SRC (lenZ out) si ->
  dec_loop f e dcap SRC 3 si out = DOk (out ++ src0) None.
Proof.
  intros src0. induction src0 as [|a|a b|a b c r IH] using list_ind3; intros rest si out Hsi Hs Hst Hwfb HI.
  - rewrite app_nil_r. apply (rt_nil rest); auto.
  - apply wf_bytes_cons in Hwfb. destruct Hwfb as [Ha _].
    apply (rt_tail1 a rest); auto. cbv zeta. rewrite <- enc_val_1. exact Hst.
  - apply wf_bytes_cons in Hwfb. destruct Hwfb as [Ha Hwfb]. apply wf_bytes_cons in Hwfb. destruct Hwfb as [Hb _].
    apply (rt_tail2 a b rest); auto. cbv zeta. rewrite <- enc_val_2. exact Hst.
  - apply wf_bytes_cons in Hwfb. destruct Hwfb as [Ha Hwfb]. apply wf_bytes_cons in Hwfb. destruct Hwfb as [Hb Hwfb].
    apply wf_bytes_cons in Hwfb. destruct Hwfb as [Hc Hwfb].
    rewrite encode_cons3 in Hst.
    destruct (rt_full a b c (encode e r) rest si out Ha Hb Hc Hsi Hs Hst HI) as (r4 & s4 & P1 & P2 & P3 & P4 & P5).
    rewrite P5. rewrite (IH r4 s4 (out ++ [a; b; c]) P1 P2 P3 Hwfb P4). rewrite <- app_assoc. reflexivity.
Qed.

End RT.

Theorem roundtrip_nl_slow : forall e src t, enc_wf e = true -> wf_bytes src = true ->
  strip_nl t = encode e src -> decode_slow e t = DOk src None.
Proof.
  intros e src t Hwf Hb Hst. unfold decode_slow. destruct t as [|c t'].
  - destruct src as [|b0 [|b1 [|b2 r]]]; [reflexivity|discriminate..].
  - set (T := c :: t') in *.
    assert (Hf : (Z.to_nat (lenZ T) + 1 <= length T + 4)%nat) by (unfold lenZ; lia).
    pose proof (lenZ_nonneg T).
    apply (rt_loop e Hwf T (length T + 4) Hf src T 0 []); auto; try lia.
    left. split; [reflexivity|]. rewrite lenZ_nil. lia.
Qed.

Lemma encode_strip e src : enc_ok e = true -> wf_bytes src = true -> strip_nl (encode e src) = encode e src.
Proof.
  intros Hok. 
  assert (Hp : forall p, e_pad e = Some p -> is_newline p = false).
  { intros p Ep. apply (pad_not_newline e Hok). unfold is_pad. rewrite Ep. apply Z.eqb_refl. }
  assert (H00 : 0 <= 0 < 256) by lia.
  induction src as [|a|a b|a b c r IH] using list_ind3; intros Hwfb.
  - reflexivity.
  - apply wf_bytes_cons in Hwfb. destruct Hwfb as [Ha _].
    cbn [encode]. cbv zeta. rewrite enc_val_1.
    destruct (idx_range a 0 0 Ha H00 H00) as (R0 & R1 & R2 & R3).
    rewrite !strip_nl_cons by (apply (sym_not_newline e Hok); assumption).
    destruct (e_pad e) as [p|] eqn:Ep; [|reflexivity].
    rewrite !strip_nl_cons by (apply Hp; reflexivity). reflexivity.
  - apply wf_bytes_cons in Hwfb. destruct Hwfb as [Ha Hwfb]. apply wf_bytes_cons in Hwfb. destruct Hwfb as [Hb _].
    cbn [encode]. cbv zeta. rewrite enc_val_2.
    destruct (idx_range a b 0 Ha Hb H00) as (R0 & R1 & R2 & R3).
    rewrite !strip_nl_cons by (apply (sym_not_newline e Hok); assumption).
    destruct (e_pad e) as [p|] eqn:Ep; [|reflexivity].
    rewrite !strip_nl_cons by (apply Hp; reflexivity). reflexivity.
  - apply wf_bytes_cons in Hwfb. destruct Hwfb as [Ha Hwfb]. apply wf_bytes_cons in Hwfb. destruct Hwfb as [Hb Hwfb].
    apply wf_bytes_cons in Hwfb. destruct Hwfb as [Hc Hwfb].
    rewrite encode_cons3. cbv zeta.
    destruct (idx_range a b c Ha Hb Hc) as (R0 & R1 & R2 & R3).
    rewrite !strip_nl_cons by (apply (sym_not_newline e Hok); assumption).
    rewrite IH by exact Hwfb. reflexivity.
Qed.
