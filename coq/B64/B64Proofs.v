(* C16: the theorems about hash/base64le used by Properties/C16.v. *)
Require Import GC.Base.Bytes GC.B64.B64Model GC.B64.B64Spec.
Require Export GC.B64.B64Bits GC.B64.B64EncProofs GC.B64.B64DecBase GC.B64.B64DecQuantum GC.B64.B64DecLoop GC.B64.B64DecContent GC.B64.B64Roundtrip GC.B64.B64Accept.

Arguments Z.shiftl : simpl never. Arguments Z.shiftr : simpl never. Arguments Z.land : simpl never.
Arguments Z.lor : simpl never. Arguments Z.mul : simpl never. Arguments Z.add : simpl never.
Arguments Z.sub : simpl never. Arguments Z.of_nat : simpl never. Arguments Z.div : simpl never.
Arguments Z.modulo : simpl never.

Lemma Inv_init src : Inv src (lenZ []) 0.
Proof. left. split; [reflexivity|]. rewrite lenZ_nil. lia. Qed.

Theorem fast_slow : forall e t, enc_ok e = true -> decode e t = decode_slow e t.
Proof.
  intros e t Hok. unfold decode, decode_raw, decode_slow. destruct t as [|c t']; [reflexivity|].
  set (src := c :: t').
  apply (phase_eq e src Hok (length src)).
  - left; reflexivity.
  - unfold lenZ. lia.
  - lia.
  - lia.
  - pose proof (lenZ_nonneg src). lia.
  - apply Inv_init.
Qed.

Lemma decode_slow_ok e t :
  exists out err, decode_slow e t = DOk out err /\ (forall k, err = Some k -> 0 <= k <= lenZ t).
Proof.
  unfold decode_slow. destruct t as [|c t'].
  - exists [], None. split; [reflexivity|discriminate].
  - set (src := c :: t').
    apply (loop3_ok e src (length src)).
    + unfold lenZ. lia.
    + lia.
    + pose proof (lenZ_nonneg src). lia.
    + apply Inv_init.
Qed.

Theorem no_panic : forall e t, enc_ok e = true -> exists out err, decode e t = DOk out err.
Proof.
  intros e t Hok. rewrite fast_slow by exact Hok.
  destruct (decode_slow_ok e t) as (out & err & E & _). exists out, err. exact E.
Qed.

Theorem error_range : forall e t out k, enc_ok e = true ->
  decode e t = DOk out (Some k) -> 0 <= k <= Z.of_nat (length t).
Proof.
  intros e t out k Hok H. rewrite fast_slow in H by exact Hok.
  destruct (decode_slow_ok e t) as (out' & err & E & R). rewrite E in H. inversion H; subst.
  apply R. reflexivity.
Qed.

Theorem bad_symbol : forall e a c b, enc_ok e = true ->
  forallb (fun x => is_symbol e x || is_newline x) a = true ->
  is_symbol e c = false -> is_newline c = false -> is_pad e c = false ->
  exists out, decode e (a ++ c :: b) = DOk out (Some (Z.of_nat (length a))).
Proof.
  intros e a c b Hok Ha H1 H2 H3. rewrite fast_slow by exact Hok. apply bad_symbol_slow; assumption.
Qed.

Theorem roundtrip_nl : forall e src t, enc_wf e = true -> wf_bytes src = true ->
  strip_nl t = encode e src -> decode e t = DOk src None.
Proof.
  intros e src t Hwf Hb Hst. rewrite fast_slow by (apply enc_wf_ok; exact Hwf).
  apply roundtrip_nl_slow; assumption.
Qed.

Theorem roundtrip : forall e src, enc_wf e = true -> wf_bytes src = true ->
  decode e (encode e src) = DOk src None.
Proof.
  intros e src Hwf Hb. apply roundtrip_nl; auto. apply encode_strip; auto. apply enc_wf_ok; exact Hwf.
Qed.

Theorem accept_sound : forall e t out, enc_wf e = true ->
  decode e t = DOk out None -> accepted_ok e t out = true /\ wf_bytes out = true.
Proof.
  intros e t out Hwf H. rewrite fast_slow in H by (apply enc_wf_ok; exact Hwf).
  apply accept_sound_slow; assumption.
Qed.

Theorem strict_exact : forall e t out, enc_wf e = true -> e_strict e = true ->
  decode e t = DOk out None -> strip_nl t = encode e out.
Proof.
  intros e t out Hwf Hst H. destruct (accept_sound e t out Hwf H) as [Ha _].
  unfold accepted_ok in Ha. cbv zeta in Ha. rewrite Hst in Ha. apply bytes_eqb_eq. exact Ha.
Qed.

Print Assumptions encode_spec.
Print Assumptions encoded_len.
Print Assumptions roundtrip_nl.
Print Assumptions roundtrip.
Print Assumptions fast_slow.
Print Assumptions no_panic.
Print Assumptions accept_sound.
Print Assumptions strict_exact.
Print Assumptions error_range.
Print Assumptions bad_symbol.
