(* C16: the theorems about hash/base64le used by Properties/C16.v. *)
Require Import GC.Base.Bytes GC.B64.B64Model GC.B64.B64Spec.
Require Export GC.B64.B64Bits GC.B64.B64EncProofs GC.B64.B64DecBase GC.B64.B64DecQuantum GC.B64.B64DecLoop.

Arguments Z.shiftl : simpl never. Arguments Z.shiftr : simpl never. Arguments Z.land : simpl never.
Arguments Z.lor : simpl never. Arguments Z.mul : simpl never. Arguments Z.add : simpl never.
Arguments Z.sub : simpl never. Arguments Z.of_nat : simpl never. Arguments Z.div : simpl never.
Arguments Z.modulo : simpl never.

Lemma Inv_init src : Inv src (lenZ []) 0.
Proof. left. split; [reflexivity|]. rewrite lenZ_nil. lia. Qed.

Theorem fast_slow : forall e t, enc_ok e = true -> decode e t = decode_slow e t.
Proof.
  intros e t Hok. unfold decode, decode_raw, decode_slow. destruct t as [|c t']; [reflexivity|].
  set (src := c :: t').
  apply (phase_eq e src Hok (length src)).
  - left; reflexivity.
  - unfold lenZ. lia.
  - lia.
  - lia.
  - pose proof (lenZ_nonneg src). lia.
  - apply Inv_init.
Qed.

Lemma decode_slow_ok e t :
  exists out err, decode_slow e t = DOk out err /\ (forall k, err = Some k -> 0 <= k <= lenZ t).
Proof.
  unfold decode_slow. destruct t as [|c t'].
  - exists [], None. split; [reflexivity|discriminate].
  - set (src := c :: t').
    apply (loop3_ok e src (length src)).
    + unfold lenZ. lia.
    + lia.
    + pose proof (lenZ_nonneg src). lia.
    + apply Inv_init.
Qed.

Theorem no_panic : forall e t, enc_ok e = true -> exists out err, decode e t = DOk out err.
Proof.
  intros e t Hok. rewrite fast_slow by exact Hok.
  destruct (decode_slow_ok e t) as (out & err & E & _). exists out, err. exact E.
Qed.

Theorem error_range : forall e t out k, enc_ok e = true ->
  decode e t = DOk out (Some k) -> 0 <= k <= Z.of_nat (length t).
Proof.
  intros e t out k Hok H. rewrite fast_slow in H by exact Hok.
  destruct (decode_slow_ok e t) as (out' & err & E & R). rewrite E in H. inversion H; subst.
  apply R. reflexivity.
Qed.
