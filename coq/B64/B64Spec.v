(* C16: the bit-level definition of little-endian base64 and the statements about Decode. *)
Require Import GC.Base.Bytes GC.B64.B64Model.

(* successive 6-bit groups, least significant first, of b0 + 2^8 b1 + 2^16 b2 *)
Definition word (b0 b1 b2 : Z) : Z := b0 + 256 * b1 + 65536 * b2.
Definition group6 (w : Z) (k : Z) : Z := (w / 64 ^ k) mod 64.

Fixpoint spec_encode (e : encoding) (src : bytes) : bytes :=
  match src with
  | [] => []
  | b0 :: b1 :: b2 :: r =>
    let w := word b0 b1 b2 in
    sym e (group6 w 0) :: sym e (group6 w 1) :: sym e (group6 w 2) :: sym e (group6 w 3) :: spec_encode e r
  | [b0; b1] =>
    let w := word b0 b1 0 in
    sym e (group6 w 0) :: sym e (group6 w 1) :: sym e (group6 w 2)
      :: match e_pad e with Some p => [p] | None => [] end
  | [b0] =>
    let w := word b0 0 0 in
    sym e (group6 w 0) :: sym e (group6 w 1)
      :: match e_pad e with Some p => [p; p] | None => [] end
  end.

(* well-formed encodings: the documented preconditions plus pairwise distinct symbols *)
Fixpoint nodup_b (l : bytes) : bool :=
  match l with [] => true | x :: r => negb (mem x r) && nodup_b r end.
Definition enc_wf (e : encoding) : bool := enc_ok e && nodup_b (e_alpha e).

Definition strip_nl (t : bytes) : bytes := filter (fun c => negb (is_newline c)) t.
Definition is_symbol (e : encoding) (c : Z) : bool := negb (dmap e c =? 255).

(* the data symbols of a text (padding removed) *)
Definition data_syms (e : encoding) (t : bytes) : bytes := filter (fun c => negb (is_pad e c)) t.

(* [same_data e k a b]: symbol strings a and b are equal except that their last symbols may differ
   above the low k bits (the unused bits of a tail) *)
Definition low_bits_eq (e : encoding) (k : Z) (x y : Z) : bool := (dmap e x mod 2 ^ k =? dmap e y mod 2 ^ k).
Definition same_upto_unused (e : encoding) (nbytes : nat) (a b : bytes) : bool :=
  match Nat.modulo nbytes 3 with
  | O => bytes_eqb a b
  | r => let k := if Nat.eqb r 1 then 2 else 4 in
         Nat.eqb (length a) (length b) &&
         bytes_eqb (removelast a) (removelast b) &&
         low_bits_eq e k (last a 0) (last b 0) && is_symbol e (last a 0)
  end.

(* "never silent garbage": what an accepted text must look like *)
Definition accepted_ok (e : encoding) (t out : bytes) : bool :=
  let st := strip_nl t in
  let canon := encode e out in
  if e_strict e then bytes_eqb st canon
  else Nat.eqb (length st) (length canon) &&
       bytes_eqb (skipn (length (data_syms e canon)) st) (skipn (length (data_syms e canon)) canon) &&
       same_upto_unused e (length out) (firstn (length (data_syms e canon)) st) (data_syms e canon).
