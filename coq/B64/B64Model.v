(* Model of hash/base64le: NewEncoding, WithPadding, Strict, Encode, EncodedLen, Decode (three loops,
   assemble64/assemble32 fast paths, decodeQuantum), DecodedLen.  Definitions only.
   Go's shift/mask expressions are kept literally (Z.shiftl/Z.shiftr/Z.land/Z.lor on values that fit uint). *)
Require Import GC.Base.Bytes.

Record encoding := { e_alpha : bytes;            (* the 64 symbols *)
                     e_pad : option Z;           (* None = NoPadding *)
                     e_strict : bool }.

Definition nl : Z := 10.
Definition cr : Z := 13.
Definition is_newline (c : Z) : bool := (c =? nl) || (c =? cr).

(* decodeMap as NewEncoding builds it: 0xFF everywhere, then decodeMap[encoder[i]] = i (later i wins) *)
Fixpoint dmap_from (alpha : bytes) (i : Z) (c : Z) : Z :=
  match alpha with
  | [] => 255
  | a :: r => let rest := dmap_from r (i + 1) c in
              if rest =? 255 then (if a =? c then i else 255) else rest
  end.
Definition dmap (e : encoding) (c : Z) : Z := dmap_from (e_alpha e) 0 c.

Definition sym (e : encoding) (i : Z) : Z := nth (Z.to_nat i) (e_alpha e) 0.

(* documented preconditions of NewEncoding / WithPadding (they panic otherwise) *)
Definition alpha_ok (a : bytes) : bool :=
  Nat.eqb (length a) 64 && forallb (fun c => wf_byte c && negb (is_newline c)) a.
Definition pad_ok (a : bytes) (p : option Z) : bool :=
  match p with
  | None => true
  | Some c => negb (is_newline c) && (0 <=? c) && (c <=? 255) && negb (mem c a)
  end.
Definition enc_ok (e : encoding) : bool := alpha_ok (e_alpha e) && pad_ok (e_alpha e) (e_pad e).

(* ---------------- Encode ---------------- *)
Definition shl := Z.shiftl.
Definition shr := Z.shiftr.

(* the four symbol indices of one 3-byte group, exactly as written in Encode *)
Definition enc_val (b0 b1 b2 : Z) : Z := Z.lor (Z.lor (shl b0 16) (shl b1 8)) b2.
Definition idx0 (v : Z) : Z := Z.land (shr v 16) 63.
Definition idx1 (v : Z) : Z := Z.lor (shr v 22) (Z.land (shr v 6) 60).
Definition idx2 (v : Z) : Z := Z.lor (Z.land (shr v 12) 15) (Z.land (shl v 4) 48).
Definition idx3 (v : Z) : Z := Z.land (shr v 2) 63.

Definition EncodedLen (e : encoding) (n : Z) : Z :=
  match e_pad e with
  | None => (n * 8 + 5) / 6
  | Some _ => (n + 2) / 3 * 4
  end.

(* bytes written to dst, in order (dst has EncodedLen bytes, so this is the whole of it) *)
Fixpoint encode (e : encoding) (src : bytes) : bytes :=
  match src with
  | [] => []
  | b0 :: b1 :: b2 :: r =>
    let v := enc_val b0 b1 b2 in
    sym e (idx0 v) :: sym e (idx1 v) :: sym e (idx2 v) :: sym e (idx3 v) :: encode e r
  | [b0; b1] =>
    let v := Z.lor (shl b0 16) (shl b1 8) in
    sym e (idx0 v) :: sym e (idx1 v) :: sym e (idx2 v)
      :: match e_pad e with Some p => [p] | None => [] end
  | [b0] =>
    let v := shl b0 16 in
    sym e (idx0 v) :: sym e (idx1 v)
      :: match e_pad e with Some p => [p; p] | None => [] end
  end.

(* ---------------- Decode ---------------- *)
Definition DecodedLen (e : encoding) (n : Z) : Z :=
  match e_pad e with
  | None => n * 6 / 8
  | Some _ => n / 4 * 3
  end.

Definition is_pad (e : encoding) (c : Z) : bool :=
  match e_pad e with Some p => c =? p | None => false end.

(* result of decodeQuantum: new si, bytes it stored that count (dst[0..n)), error, or a panic
   (write outside dst) *)
Inductive qres :=
| QOk (nsi : Z) (out : bytes) (err : option Z)
| QPanic.

(* the three output bytes from up to four 6-bit values, exactly as written *)
Definition dq_val (d0 d1 d2 d3 : Z) : Z :=
  Z.lor (Z.lor (Z.lor (Z.lor (Z.lor (shl d0 16) (shl (Z.land d1 3) 22))
                                   (shl (Z.land d1 60) 6))
                            (shl (Z.land d2 15) 12))
               (shr (Z.land d2 48) 4))
        (shl d3 2).
Definition byte_of (v : Z) : Z := v mod 256.

(* skip CR/LF: for si < len(src) && (src[si]=='\n'||src[si]=='\r') { si++ } *)
Fixpoint skip_nl (rest : bytes) (si : Z) : bytes * Z :=
  match rest with
  | c :: r => if is_newline c then skip_nl r (si + 1) else (rest, si)
  | [] => (rest, si)
  end.

(* the tail of decodeQuantum after the loop: dlen values were read into dbuf (missing ones are 0);
   room = len(dst) of the slice passed in *)
Definition dq_finish (e : encoding) (room : Z) (dbuf : list Z) (dlen : Z) (si : Z) (err : option Z) : qres :=
  let d k := nth k dbuf 0 in
  let v := dq_val (d 0%nat) (d 1%nat) (d 2%nat) (d 3%nat) in
  let b2 := byte_of v in let b1 := byte_of (shr v 8) in let b0 := byte_of (shr v 16) in
  if dlen =? 4 then
    if room <? 3 then QPanic else QOk si [b0; b1; b2] err
  else if dlen =? 3 then
    if room <? 2 then QPanic
    else if e_strict e && negb (b2 =? 0) then QOk si [] (Some (si - 1))
    else QOk si [b0; b1] err
  else if dlen =? 2 then
    if room <? 1 then QPanic
    else if e_strict e && (negb (b1 =? 0) || negb (b2 =? 0)) then QOk si [] (Some (si - 2))
    else QOk si [b0] err
  else QOk si [] err.   (* dlen = 1 cannot be reached; dlen-1 = 0 bytes *)

(* the for-loop of decodeQuantum; rest = src[si:], j = symbols read so far, dbuf those values *)
Fixpoint dq_loop (e : encoding) (room srclen : Z) (rest : bytes) (si : Z) (j : nat) (dbuf : list Z) : qres :=
  if Nat.eqb j 4 then dq_finish e room dbuf 4 si None else
  match rest with
  | [] =>
    if Nat.eqb j 0 then QOk si [] None
    else if Nat.eqb j 1 || (match e_pad e with Some _ => true | None => false end)
         then QOk si [] (Some (si - Z.of_nat j))
    else dq_finish e room dbuf (Z.of_nat j) si None
  | c :: rest' =>
    let si' := si + 1 in
    let o := dmap e c in
    if negb (o =? 255) then dq_loop e room srclen rest' si' (S j) (dbuf ++ [o])
    else if is_newline c then dq_loop e room srclen rest' si' j dbuf
    else if negb (is_pad e c) then QOk si' [] (Some (si' - 1))
    else (* padding character *)
      match j with
      | O | S O => QOk si' [] (Some (si' - 1))
      | _ =>
        let after_second : option (bytes * Z) + Z :=   (* inr off = corrupt at off *)
          if Nat.eqb j 2 then
            let '(r2, s2) := skip_nl rest' si' in
            match r2 with
            | [] => inr srclen
            | c2 :: r3 => if is_pad e c2 then inl (Some (r3, s2 + 1)) else inr (s2 - 1)
            end
          else inl (Some (rest', si')) in
        match after_second with
        | inr off => QOk (match skip_nl rest' si' with (_, s2) => s2 end) [] (Some off)
        | inl None => QPanic
        | inl (Some (r4, s4)) =>
          let '(r5, s5) := skip_nl r4 s4 in
          let err := match r5 with [] => None | _ => Some s5 end in
          dq_finish e room dbuf (Z.of_nat j) s5 err
        end
      end
  end.

Definition decodeQuantum (e : encoding) (room : Z) (src : bytes) (si : Z) : qres :=
  dq_loop e room (Z.of_nat (length src)) (skipn (Z.to_nat si) src) si 0 [].

(* assemble64 / assemble32, literally; the caller stores the word big-endian (PutUint64 / PutUint32) *)
Definition all_valid (ds : list Z) : bool := negb (fold_left Z.lor ds 0 =? 255).
Definition assemble32 (n1 n2 n3 n4 : Z) : Z :=
  Z.lor (Z.lor (Z.lor (Z.lor (Z.lor (shl n1 24) (shl (Z.land n2 3) 30))
                                   (shl (Z.land n2 60) 14))
                            (shl (Z.land n3 15) 20))
               (shl (Z.land n3 48) 4))
        (shl n4 10).
Definition assemble64 (n1 n2 n3 n4 n5 n6 n7 n8 : Z) : Z :=
  Z.lor (Z.lor (Z.lor (Z.lor (Z.lor (Z.lor (Z.lor (Z.lor (Z.lor (Z.lor (Z.lor
    (shl n1 56) (shl (Z.land n2 3) 62)) (shl (Z.land n2 60) 46)) (shl (Z.land n3 15) 52))
    (shl (Z.land n3 48) 36)) (shl n4 42)) (shl n5 32)) (shl (Z.land n6 3) 38))
    (shl (Z.land n6 60) 22)) (shl (Z.land n7 15) 28)) (shl (Z.land n7 48) 12)) (shl n8 18).
(* byte k (0 = most significant) of a w-byte big-endian store *)
Definition be_byte (w : Z) (v : Z) (k : Z) : Z := (shr v (8 * (w - 1 - k))) mod 256.

Inductive dres := DOk (out : bytes) (err : option Z) | DPanic | DFuel.

(* Decode(dst, src) with len(dst) = dcap; out = dst[:n] so far.  phase 1: 8-symbol loop, 2: 4-symbol loop,
   3: quantum loop.  Every iteration consumes at least one byte of src; fuel = len(src)+3. *)
Fixpoint dec_loop (fuel : nat) (e : encoding) (dcap : Z) (src : bytes) (phase : nat) (si : Z) (out : bytes) : dres :=
  match fuel with
  | O => DFuel
  | S f =>
    let n := Z.of_nat (length out) in
    let srclen := Z.of_nat (length src) in
    let quantum (ph : nat) :=
      match decodeQuantum e (dcap - n) src si with
      | QPanic => DPanic
      | QOk nsi o err =>
        match err with
        | Some _ => DOk (out ++ o) err
        | None => dec_loop f e dcap src ph nsi (out ++ o)
        end
      end in
    match phase with
    | 1%nat =>
      if (8 <=? srclen - si) && (8 <=? dcap - n) then
        let ds := map (dmap e) (firstn 8 (skipn (Z.to_nat si) src)) in
        if all_valid ds then
          match ds with
          | [d0; d1; d2; d3; d4; d5; d6; d7] =>
            let dn := assemble64 d0 d1 d2 d3 d4 d5 d6 d7 in   (* 8 bytes stored, n += 6 *)
            dec_loop f e dcap src 1 (si + 8) (out ++ map (be_byte 8 dn) [0; 1; 2; 3; 4; 5])
          | _ => DPanic
          end
        else quantum 1%nat
      else dec_loop f e dcap src 2 si out
    | 2%nat =>
      if (4 <=? srclen - si) && (4 <=? dcap - n) then
        let ds := map (dmap e) (firstn 4 (skipn (Z.to_nat si) src)) in
        if all_valid ds then
          match ds with
          | [d0; d1; d2; d3] =>
            let dn := assemble32 d0 d1 d2 d3 in               (* 4 bytes stored, n += 3 *)
            dec_loop f e dcap src 2 (si + 4) (out ++ map (be_byte 4 dn) [0; 1; 2])
          | _ => DPanic
          end
        else quantum 2%nat
      else dec_loop f e dcap src 3 si out
    | _ =>
      if si <? srclen then quantum 3%nat else DOk out None
    end
  end.

Definition decode_raw (e : encoding) (dcap : Z) (src : bytes) : dres :=
  match src with
  | [] => DOk [] None
  | _ => dec_loop (length src + 4) e dcap src 1 0 []
  end.

(* DecodeString *)
Definition decode (e : encoding) (src : bytes) : dres :=
  decode_raw e (DecodedLen e (Z.of_nat (length src))) src.

(* the slow path alone (what the fast paths must agree with) *)
Definition decode_slow (e : encoding) (src : bytes) : dres :=
  match src with
  | [] => DOk [] None
  | _ => dec_loop (length src + 4) e (DecodedLen e (Z.of_nat (length src))) src 3 0 []
  end.
