(* Encode: length and bit-level specification. *)
Require Import GC.Base.Bytes GC.B64.B64Model GC.B64.B64Spec.
Require Export GC.B64.B64Bits.

Arguments Z.shiftl : simpl never. Arguments Z.shiftr : simpl never. Arguments Z.land : simpl never.
Arguments Z.lor : simpl never. Arguments Z.mul : simpl never. Arguments Z.add : simpl never.
Arguments Z.sub : simpl never. Arguments Z.of_nat : simpl never. Arguments Z.div : simpl never.
Arguments Z.modulo : simpl never.

Lemma list_ind3 {A} (P : list A -> Prop) :
  P [] -> (forall a, P [a]) -> (forall a b, P [a; b]) ->
  (forall a b c r, P r -> P (a :: b :: c :: r)) -> forall l, P l.
Proof.
  intros H0 H1 H2 H3.
  fix IH 1. intros [|a [|b [|c r]]]; [exact H0 | apply H1 | apply H2 | apply H3; apply IH].
Qed.

Lemma encode_cons3 e b0 b1 b2 r :
  encode e (b0 :: b1 :: b2 :: r) =
  let v := enc_val b0 b1 b2 in
  sym e (idx0 v) :: sym e (idx1 v) :: sym e (idx2 v) :: sym e (idx3 v) :: encode e r.
Proof. reflexivity. Qed.

Lemma wf_byte_range b : wf_byte b = true <-> 0 <= b < 256.
Proof. unfold wf_byte. rewrite andb_true_iff, Z.leb_le, Z.ltb_lt. tauto. Qed.

Theorem encoded_len : forall e src,
  Z.of_nat (length (encode e src)) = EncodedLen e (Z.of_nat (length src)).
Proof.
  intros e src. unfold EncodedLen. induction src as [|a|a b|a b c r IH] using list_ind3.
  - cbn [encode length]. destruct (e_pad e); reflexivity.
  - cbn [encode length]. destruct (e_pad e); reflexivity.
  - cbn [encode length]. destruct (e_pad e); reflexivity.
  - rewrite encode_cons3. cbv zeta. cbn [length]. rewrite !Nat2Z.inj_succ, IH.
    destruct (e_pad e); Z.div_mod_to_equations; lia.
Qed.

Theorem encode_spec : forall e src, wf_bytes src = true -> encode e src = spec_encode e src.
Proof.
  intros e src. induction src as [|a|a b|a b c r IH] using list_ind3; intros Hwf.
  - reflexivity.
  - cbn [wf_bytes forallb] in Hwf. rewrite andb_true_r in Hwf. apply wf_byte_range in Hwf.
    cbn [encode spec_encode]. cbv zeta. rewrite enc_val_1.
    destruct (group6_word a 0 0) as (G0 & G1 & _); [lia..|].
    rewrite idx0_closed, idx1_closed, G0, G1 by lia. reflexivity.
  - cbn [wf_bytes forallb] in Hwf. rewrite andb_true_r in Hwf. apply andb_true_iff in Hwf.
    destruct Hwf as [Ha Hb]. apply wf_byte_range in Ha, Hb.
    cbn [encode spec_encode]. cbv zeta. rewrite enc_val_2.
    destruct (group6_word a b 0) as (G0 & G1 & G2 & _); [lia..|].
    rewrite idx0_closed, idx1_closed, idx2_closed, G0, G1, G2 by lia. reflexivity.
  - cbn [wf_bytes forallb] in Hwf. apply andb_true_iff in Hwf. destruct Hwf as [Ha Hwf].
    apply andb_true_iff in Hwf. destruct Hwf as [Hb Hwf].
    apply andb_true_iff in Hwf. destruct Hwf as [Hc Hwf].
    apply wf_byte_range in Ha, Hb, Hc.
    rewrite encode_cons3. cbn [spec_encode]. cbv zeta.
    destruct (group6_word a b c) as (G0 & G1 & G2 & G3); [lia..|].
    rewrite idx0_closed, idx1_closed, idx2_closed, idx3_closed, G0, G1, G2, G3 by lia.
    rewrite IH by exact Hwf. reflexivity.
Qed.
