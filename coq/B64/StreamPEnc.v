(* Streaming encoder (StreamModel.enc_write / enc_close / enc_run): invariants and the session lemmas
   behind enc_stream_eq / enc_stream_fault. *)
Require Import GC.Base.Bytes GC.B64.B64Model GC.B64.B64Spec GC.B64.StreamModel.
Require Import GC.B64.B64EncProofs GC.B64.B64Accept.

Arguments Nat.div : simpl never. Arguments Nat.modulo : simpl never.
Local Open Scope nat_scope.

Definition mult3 (l : bytes) : Prop := exists k, length l = 3 * k.
Definition prefix_of (a b : bytes) : Prop := exists rest, b = a ++ rest.
Definition all_ok (sc : list wresp) : Prop := Forall (fun r => r = WOk) sc.

Lemma mult3_nil : mult3 [].
Proof. exists 0. reflexivity. Qed.

Lemma mult3_app a b : mult3 a -> mult3 b -> mult3 (a ++ b).
Proof. intros [k Hk] [j Hj]. exists (k + j). rewrite app_length. lia. Qed.

Lemma encode_app_mult3 e a b : mult3 a -> encode e (a ++ b) = encode e a ++ encode e b.
Proof. intros [k Hk]. apply (encode_app3 e b k a Hk). Qed.

Lemma prefix_of_refl a : prefix_of a a.
Proof. exists []. rewrite app_nil_r. reflexivity. Qed.

Lemma prefix_of_app a b : prefix_of a (a ++ b).
Proof. exists b. reflexivity. Qed.

Lemma prefix_firstn a b k c : prefix_of (a ++ firstn k b) (a ++ b ++ c).
Proof.
  exists (skipn k b ++ c). rewrite <- app_assoc. f_equal. rewrite app_assoc. rewrite firstn_skipn. reflexivity.
Qed.

(* the state between calls while no error has occurred; c = everything consumed so far *)
Definition good (e : encoding) (s : enc_st) (c : bytes) : Prop :=
  es_err s = None /\ length (es_buf s) < 3 /\
  exists P, c = P ++ es_buf s /\ mult3 P /\ es_written s = encode e P.

(* ---------------- one underlying Write ---------------- *)
Lemma w_write_cases s data :
  es_buf (w_write s data) = es_buf s /\
  ((es_err (w_write s data) = None /\ es_written (w_write s data) = es_written s ++ data /\
    (all_ok (es_script s) -> all_ok (es_script (w_write s data)))) \/
   (exists x k, es_err (w_write s data) = Some x /\ es_written (w_write s data) = es_written s ++ firstn k data /\
                ~ all_ok (es_script s))).
Proof.
  unfold w_write. destruct (es_script s) as [|[|k x] r] eqn:Es; cbn [es_buf es_err es_written es_script tl].
  - split; [reflexivity|]. left. auto.
  - split; [reflexivity|]. left. split; [reflexivity|]. split; [reflexivity|].
    intros H. inversion H; assumption.
  - split; [reflexivity|]. right. exists x, k. split; [reflexivity|]. split; [reflexivity|].
    intros H. inversion H as [|? ? H1 H2]. discriminate.
Qed.

Lemma nn_facts L : 3 <= L ->
  let nn := if Nat.ltb L 768 then L - Nat.modulo L 3 else 768 in
  3 <= nn <= L /\ exists k, nn = 3 * k.
Proof.
  intros HL. cbv zeta. destruct (Nat.ltb L 768) eqn:E.
  - pose proof (Nat.div_mod L 3 ltac:(lia)) as D.
    pose proof (Nat.mod_upper_bound L 3 ltac:(lia)) as U.
    split; [lia|]. exists (L / 3). lia.
  - apply Nat.ltb_ge in E. split; [lia|]. exists 256. reflexivity.
Qed.

(* ---------------- the bulk loop ---------------- *)
Lemma write_bulk_spec e : forall fuel s p n P,
  length p < fuel -> es_err s = None -> mult3 P -> es_written s = encode e P ->
  match write_bulk fuel e s p n with
  | (s', _, err) =>
    ((err = None /\ good e s' (P ++ p)) \/
     (exists x, err = Some x /\ es_err s' = Some x /\
                forall fut, prefix_of (es_written s') (encode e (P ++ p ++ fut))))
    /\ (all_ok (es_script s) -> all_ok (es_script s') /\ err = None)
  end.
Proof.
  induction fuel as [|f IH]; intros s p n P Hf He HP Hw; [lia|].
  cbn [write_bulk]. destruct (Nat.ltb (length p) 3) eqn:E3.
  - apply Nat.ltb_lt in E3. split.
    + left. split; [reflexivity|]. unfold good, set_buf; cbn [es_err es_buf es_written].
      split; [exact He|]. split; [exact E3|]. exists P. auto.
    + unfold set_buf; cbn [es_script]. auto.
  - apply Nat.ltb_ge in E3.
    destruct (nn_facts (length p) E3) as [Hnn Hk]. cbv zeta in Hnn, Hk.
    set (nn := if Nat.ltb (length p) 768 then length p - Nat.modulo (length p) 3 else 768) in *.
    cbv zeta.
    assert (Hfl : length (firstn nn p) = nn) by (rewrite firstn_length; lia).
    assert (Hm : mult3 (firstn nn p)) by (destruct Hk as [k Hk]; exists k; lia).
    destruct (w_write_cases s (encode e (firstn nn p))) as [_ [(E1 & W1 & S1) | (x & k & E1 & W1 & S1)]].
    + rewrite E1.
      specialize (IH (w_write s (encode e (firstn nn p))) (skipn nn p) (n + nn) (P ++ firstn nn p)).
      assert (Hlen : length (skipn nn p) < f) by (rewrite skipn_length; lia).
      assert (HP' : mult3 (P ++ firstn nn p)) by (apply mult3_app; assumption).
      assert (Hw' : es_written (w_write s (encode e (firstn nn p))) = encode e (P ++ firstn nn p))
        by (rewrite W1, Hw, encode_app_mult3 by exact HP; reflexivity).
      specialize (IH Hlen E1 HP' Hw').
      destruct (write_bulk f e (w_write s (encode e (firstn nn p))) (skipn nn p) (n + nn)) as [[s' n'] err].
      rewrite <- !app_assoc in IH.
      assert (Hfs : forall t, firstn nn p ++ skipn nn p ++ t = p ++ t)
        by (intros t; rewrite app_assoc, firstn_skipn; reflexivity).
      destruct IH as [IH1 IH2]. split.
      * destruct IH1 as [[-> G] | (x & -> & Ex & Hp)].
        -- left. split; [reflexivity|]. rewrite <- (firstn_skipn nn p). exact G.
        -- right. exists x. split; [reflexivity|]. split; [exact Ex|].
           intros fut. specialize (Hp fut). rewrite <- !app_assoc in Hp. rewrite Hfs in Hp. exact Hp.
      * intros Hall. apply IH2. apply S1. exact Hall.
    + rewrite E1. split.
      * right. exists x. split; [reflexivity|]. split; [exact E1|].
        intros fut. rewrite W1, Hw.
        replace (p ++ fut) with (firstn nn p ++ skipn nn p ++ fut)
          by (rewrite app_assoc, firstn_skipn; reflexivity).
        rewrite (encode_app_mult3 e P) by exact HP.
        rewrite (encode_app_mult3 e (firstn nn p)) by exact Hm.
        apply prefix_firstn.
      * intros Hall. contradiction.
Qed.

(* ---------------- Write ---------------- *)
Lemma enc_write_err e s p x : es_err s = Some x -> enc_write e s p = (s, 0, Some x).
Proof. intros H. unfold enc_write. rewrite H. reflexivity. Qed.

Lemma enc_write_spec e s p c : good e s c ->
  match enc_write e s p with
  | (s', _, err) =>
    ((err = None /\ good e s' (c ++ p)) \/
     (exists x, err = Some x /\ es_err s' = Some x /\
                forall fut, prefix_of (es_written s') (encode e (c ++ p ++ fut))))
    /\ (all_ok (es_script s) -> all_ok (es_script s') /\ err = None)
  end.
Proof.
  intros (He & Hb & P & Hc & HP & Hw). unfold enc_write. rewrite He.
  destruct (es_buf s) as [|b0 br] eqn:Eb.
  - rewrite app_nil_r in Hc. subst c.
    apply (write_bulk_spec e (S (length p)) s p 0 P); auto.
  - set (b := b0 :: br) in *.
    set (take := Nat.min (length p) (3 - length b)).
    assert (Hbl : 1 <= length b) by (unfold b; cbn [length]; lia).
    assert (Htl : length (firstn take p) = take) by (rewrite firstn_length; unfold take; lia).
    destruct (Nat.ltb (length (b ++ firstn take p)) 3) eqn:E3.
    + apply Nat.ltb_lt in E3. split.
      * left. split; [reflexivity|]. unfold good, set_buf; cbn [es_err es_buf es_written].
        split; [exact He|]. split; [exact E3|]. exists P. split; [|auto].
        subst c. rewrite <- !app_assoc. f_equal. f_equal.
        assert (Hall : length p <= take) by (rewrite app_length in E3; unfold take in *; lia).
        rewrite firstn_all2 by exact Hall. reflexivity.
      * unfold set_buf; cbn [es_script]. auto.
    + apply Nat.ltb_ge in E3.
      assert (Hl3 : length (b ++ firstn take p) = 3) by (rewrite app_length in *; unfold take in *; lia).
      assert (Hm : mult3 (b ++ firstn take p)) by (exists 1; exact Hl3).
      assert (Hsplit : forall t, c ++ p ++ t = (P ++ b ++ firstn take p) ++ skipn take p ++ t).
      { intros t. subst c. rewrite <- !app_assoc. f_equal. f_equal.
        rewrite app_assoc, firstn_skipn. reflexivity. }
      destruct (w_write_cases s (encode e (b ++ firstn take p))) as [_ [(E1 & W1 & S1) | (x & k & E1 & W1 & S1)]].
      * rewrite E1.
        assert (HP' : mult3 (P ++ b ++ firstn take p)) by (apply mult3_app; assumption).
        assert (E1' : es_err (set_buf (w_write s (encode e (b ++ firstn take p))) []) = None) by exact E1.
        assert (W1' : es_written (set_buf (w_write s (encode e (b ++ firstn take p))) []) =
                      encode e (P ++ b ++ firstn take p)).
        { unfold set_buf; cbn [es_written]. rewrite W1, Hw, <- encode_app_mult3 by exact HP. reflexivity. }
        assert (Hlt : length (skipn take p) < S (length (skipn take p))) by lia.
        pose proof (write_bulk_spec e (S (length (skipn take p)))
                      (set_buf (w_write s (encode e (b ++ firstn take p))) []) (skipn take p) take
                      (P ++ b ++ firstn take p) Hlt E1' HP' W1') as WB.
        change (es_script (set_buf (w_write s (encode e (b ++ firstn take p))) []))
          with (es_script (w_write s (encode e (b ++ firstn take p)))) in WB.
        destruct (write_bulk (S (length (skipn take p))) e
                    (set_buf (w_write s (encode e (b ++ firstn take p))) []) (skipn take p) take) as [[s' n'] err].
        destruct WB as [WB1 WB2]. split.
        -- destruct WB1 as [[-> G] | (x & -> & Ex & Hp)].
           ++ left. split; [reflexivity|]. specialize (Hsplit []). rewrite !app_nil_r in Hsplit.
              rewrite Hsplit. exact G.
           ++ right. exists x. split; [reflexivity|]. split; [exact Ex|].
              intros fut. rewrite Hsplit. apply Hp.
        -- intros Hall. apply WB2. apply S1. exact Hall.
      * rewrite E1. split.
        -- right. exists x. split; [reflexivity|]. split; [exact E1|].
           intros fut. rewrite Hsplit, W1, Hw. rewrite <- (app_assoc P).
           rewrite (encode_app_mult3 e P) by exact HP.
           rewrite (encode_app_mult3 e (b ++ firstn take p)) by exact Hm.
           apply prefix_firstn.
        -- intros Hall. contradiction.
Qed.

(* ---------------- Close ---------------- *)
Lemma enc_close_err e s x : es_err s = Some x -> enc_close e s = (s, Some x).
Proof. intros H. unfold enc_close. rewrite H. reflexivity. Qed.

Lemma enc_close_spec e s c : good e s c ->
  match enc_close e s with
  | (s', err) =>
    err = es_err s' /\ prefix_of (es_written s') (encode e c) /\
    (all_ok (es_script s) -> err = None /\ es_written s' = encode e c)
  end.
Proof.
  intros (He & Hb & P & Hc & HP & Hw). unfold enc_close. rewrite He.
  destruct (es_buf s) as [|b0 br] eqn:Eb.
  - rewrite app_nil_r in Hc. subst c. rewrite He, Hw. split; [reflexivity|].
    split; [apply prefix_of_refl|]. auto.
  - set (b := b0 :: br) in *. unfold set_buf; cbn [es_err es_written].
    split; [reflexivity|]. subst c. rewrite (encode_app_mult3 e P) by exact HP.
    destruct (w_write_cases s (encode e b)) as [_ [(E1 & W1 & S1) | (x & k & E1 & W1 & S1)]].
    + rewrite W1, Hw, E1. split; [apply prefix_of_refl|]. auto.
    + rewrite W1, Hw. split.
      * pose proof (prefix_firstn (encode e P) (encode e b) k []) as Hp.
        rewrite app_nil_r in Hp. exact Hp.
      * intros Hall. contradiction.
Qed.

(* ---------------- whole sessions ---------------- *)
Definition err_shape (l : list (option ioerr)) : Prop :=
  exists n m x, l = repeat (@None ioerr) n ++ repeat (Some x) m.

Lemma repeat_snoc {A} (a : A) n : repeat a n ++ [a] = repeat a (S n).
Proof. induction n as [|n IH]; cbn [repeat app]; [reflexivity|]. rewrite IH. reflexivity. Qed.

Lemma run_err e x : forall chunks s acc, es_err s = Some x ->
  enc_run e s chunks acc = (s, acc ++ repeat (Some x) (S (length chunks))).
Proof.
  induction chunks as [|c r IH]; intros s acc H; cbn [enc_run].
  - rewrite (enc_close_err e s x H). reflexivity.
  - rewrite (enc_write_err e s c x H). rewrite (IH s _ H). rewrite <- app_assoc. reflexivity.
Qed.

Lemma run_good e : forall chunks s n c, good e s c ->
  prefix_of (es_written (fst (enc_run e s chunks (repeat None n)))) (encode e (c ++ concat chunks))
  /\ err_shape (snd (enc_run e s chunks (repeat None n)))
  /\ (all_ok (es_script s) ->
      es_written (fst (enc_run e s chunks (repeat None n))) = encode e (c ++ concat chunks)
      /\ Forall (fun r => r = None) (snd (enc_run e s chunks (repeat None n)))).
Proof.
  induction chunks as [|p r IH]; intros s n c G; cbn [enc_run concat].
  - pose proof (enc_close_spec e s c G) as CS. destruct (enc_close e s) as [s' err].
    destruct CS as (Herr & Hp & Hall). cbn [fst snd]. rewrite app_nil_r.
    split; [exact Hp|]. split.
    + destruct err as [x|].
      * exists n, 1, x. reflexivity.
      * exists (S n), 0, EOF. cbn [repeat]. rewrite app_nil_r. apply repeat_snoc.
    + intros Ha. destruct (Hall Ha) as [-> Hw]. split; [exact Hw|].
      rewrite repeat_snoc. clear. induction (S n); cbn [repeat]; constructor; auto.
  - pose proof (enc_write_spec e s p c G) as WS. destruct (enc_write e s p) as [[s' n'] err].
    destruct WS as [[[-> G'] | (x & -> & Ex & Hp)] Hall].
    + rewrite repeat_snoc. specialize (IH s' (S n) (c ++ p) G').
      rewrite <- app_assoc in IH. destruct IH as (I1 & I2 & I3).
      split; [exact I1|]. split; [exact I2|]. intros Ha. apply I3. apply Hall. exact Ha.
    + rewrite (run_err e x r s' _ Ex). cbn [fst snd]. split; [apply Hp|]. split.
      * exists n, (S (S (length r))), x. rewrite <- app_assoc. reflexivity.
      * intros Ha. destruct (Hall Ha) as [_ Hn]. discriminate.
Qed.

Lemma good_init e script : good e (enc_init script) [].
Proof.
  unfold good, enc_init; cbn [es_err es_buf es_written length]. split; [reflexivity|]. split; [lia|].
  exists []. split; [reflexivity|]. split; [apply mult3_nil|reflexivity].
Qed.

Lemma nth_error_repeat_lt {A} (a : A) : forall n i, i < n -> nth_error (repeat a n) i = Some a.
Proof.
  induction n as [|n IH]; intros i Hi; [lia|]. destruct i as [|i]; cbn [repeat nth_error]; [reflexivity|].
  apply IH. lia.
Qed.

Lemma nth_error_repeat_inv {A} (a b : A) : forall n i, nth_error (repeat a n) i = Some b -> b = a.
Proof.
  induction n as [|n IH]; intros i H; destruct i as [|i]; cbn [repeat nth_error] in H; try discriminate.
  - inversion H; reflexivity.
  - apply (IH i H).
Qed.
