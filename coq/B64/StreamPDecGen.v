(* One-shot Decode with an arbitrary (sufficient) destination capacity: generalisation of the
   B64DecLoop / B64Roundtrip development (there dcap is fixed to DecodedLen) to any
   dcap >= DecodedLen e (len src).  The proofs are the same scripts with the room argument routed
   through the hypothesis Hcap. *)
Require Import GC.Base.Bytes GC.B64.B64Model GC.B64.B64Spec.
Require Import GC.B64.B64Roundtrip GC.B64.B64Accept.

Arguments Z.shiftl : simpl never. Arguments Z.shiftr : simpl never. Arguments Z.land : simpl never.
Arguments Z.lor : simpl never. Arguments Z.mul : simpl never. Arguments Z.add : simpl never.
Arguments Z.sub : simpl never. Arguments Z.of_nat : simpl never. Arguments Z.div : simpl never.
Arguments Z.modulo : simpl never.

Section LoopG.
Variable e : encoding.
Variable src : bytes.
Variable dcap : Z.
Let srclen := lenZ src.
Hypothesis Hcap : DecodedLen e srclen <= dcap.

Lemma quantum_at_g si out : 0 <= si <= srclen -> Inv src (lenZ out) si ->
  exists nsi o err, decodeQuantum e (dcap - lenZ out) src si = QOk nsi o err /\
    si <= nsi <= srclen /\ (si < srclen -> si < nsi) /\
    (forall k, err = Some k -> si <= k <= srclen) /\
    (err = None -> Inv src (lenZ (out ++ o)) nsi) /\ lenZ o <= 3.
Proof.
  intros Hsi HI. unfold decodeQuantum. fold (lenZ src). fold srclen.
  pose proof (skipn_lenZ src si Hsi) as Hl. fold srclen in Hl.
  set (rest := skipn (Z.to_nat si) src) in *.
  pose proof (lenZ_nonneg out) as Hon.
  assert (HR : (4 <= lenZ rest -> 3 <= dcap - lenZ out) /\
               (has_pad e = false -> 3 <= lenZ rest -> 2 <= dcap - lenZ out) /\
               (has_pad e = false -> 2 <= lenZ rest -> 1 <= dcap - lenZ out)).
  { destruct HI as [[Hm Hle]|Hge].
    - destruct (room_ok e srclen (lenZ out) si Hon Hm Hle) as (A & B & C).
      replace (srclen - si) with (lenZ rest) in * by lia.
      split; [intros H4; specialize (A H4); lia|].
      split; [intros Hp H3; specialize (B Hp H3); lia|intros Hp H2; specialize (C Hp H2); lia].
    - repeat split; intros; lia. }
  destruct HR as (R4 & R3 & R2).
  destruct (quantum_ok e (dcap - lenZ out) srclen rest si Hl (proj1 Hsi) R4 R3 R2)
    as (nsi & o & err & E & B1 & B2 & B3 & B4 & B5).
  exists nsi, o, err. split; [exact E|]. split; [exact B1|]. split; [intros; apply B2; lia|].
  split; [exact B3|]. split; [|exact B5].
  intros He. specialize (B4 He). rewrite lenZ_app. unfold Inv in *. fold srclen. fold srclen in HI.
  destruct B4 as [[Ho Hn]|Hn]; [|right; lia].
  destruct HI as [[Hm Hle]|Hge]; [|right; lia].
  left. rewrite Ho. split; [|lia]. Z.div_mod_to_equations. lia.
Qed.


Hypothesis Hok : enc_ok e = true.

Lemma Inv_fast_g n si : Inv src n si -> si < srclen -> Inv src (n + 3) (si + 4).
Proof.
  intros [[Hm Hle]|Hge] Hlt; [|lia]. left. split; [|lia]. Z.div_mod_to_equations. lia.
Qed.

Lemma phase_eq_g : forall m p f f' si out,
  (p = 1 \/ p = 2 \/ p = 3)%nat -> (Z.to_nat (srclen - si) <= m)%nat ->
  (m + (3 - p) + 1 <= f)%nat -> (m + 1 <= f')%nat -> 0 <= si <= srclen -> Inv src (lenZ out) si ->
  dec_loop f e dcap src p si out = dec_loop f' e dcap src 3 si out.
Proof.
  induction m as [m IH] using lt_wf_ind.
  assert (PQ : forall ph f f' si out, (ph = 1 \/ ph = 2 \/ ph = 3)%nat ->
     (Z.to_nat (srclen - si) <= m)%nat -> si < srclen ->
     (m + (3 - ph) <= f)%nat -> (m <= f')%nat -> 0 <= si <= srclen -> Inv src (lenZ out) si ->
     quantum_step f e dcap src ph si out = quantum_step f' e dcap src 3 si out).
  { intros ph f f' si out Hph Hm Hlt Hf Hf' Hsi HI. unfold quantum_step.
    destruct (quantum_at_g si out Hsi HI) as (nsi & o & err & E & B1 & B2 & B3 & B4 & B5).
    rewrite E. destruct err as [k0|]; [reflexivity|].
    apply (IH (m - 1)%nat); [lia|exact Hph|lia|lia|lia|lia|apply B4; reflexivity]. }
  assert (P3 : forall f f' si out, (Z.to_nat (srclen - si) <= m)%nat ->
     (m + 1 <= f)%nat -> (m + 1 <= f')%nat -> 0 <= si <= srclen -> Inv src (lenZ out) si ->
     dec_loop f e dcap src 3 si out = dec_loop f' e dcap src 3 si out).
  { intros f f' si out Hm Hf Hf' Hsi HI. destruct f as [|f]; [lia|]. destruct f' as [|f']; [lia|].
    rewrite !dec_loop_3. fold srclen. destruct (Z.ltb_spec si srclen) as [Hlt|Hge]; [|reflexivity].
    apply PQ; [right; right; reflexivity|lia|lia|lia|lia|lia|exact HI]. }
  assert (P2 : forall f f' si out, (Z.to_nat (srclen - si) <= m)%nat ->
     (m + 2 <= f)%nat -> (m + 1 <= f')%nat -> 0 <= si <= srclen -> Inv src (lenZ out) si ->
     dec_loop f e dcap src 2 si out = dec_loop f' e dcap src 3 si out).
  { intros f f' si out Hm Hf Hf' Hsi HI. destruct f as [|f]; [lia|].
    rewrite dec_loop_2. fold srclen.
    destruct ((4 <=? srclen - si) && (4 <=? dcap - lenZ out)) eqn:G; [|apply P3; auto; lia].
    apply andb_true_iff in G. destruct G as [G1 G2]. apply Z.leb_le in G1, G2. cbv zeta.
    pose proof (skipn_lenZ src si Hsi) as Hl. fold srclen in Hl.
    destruct (list_take4 (skipn (Z.to_nat si) src)) as (c0 & c1 & c2 & c3 & r & Hs); [lia|].
    rewrite Hs. cbn [firstn].
    change (map (dmap e) [c0; c1; c2; c3]) with [dmap e c0; dmap e c1; dmap e c2; dmap e c3].
    destruct f' as [|f']; [lia|]. rewrite dec_loop_3. fold srclen.
    destruct (Z.ltb_spec si srclen) as [Hlt|Hge]; [|lia].
    destruct (all_valid [dmap e c0; dmap e c1; dmap e c2; dmap e c3]) eqn:Hav.
    - apply all_valid_in in Hav; [|repeat (apply Forall_cons; [apply dmap_range; exact Hok|]); apply Forall_nil].
      inversion Hav as [|? ? R0 Hav1]; subst. inversion Hav1 as [|? ? R1 Hav2]; subst.
      inversion Hav2 as [|? ? R2 Hav3]; subst. inversion Hav3 as [|? ? R3 _]; subst.
      rewrite asm32_bytes by assumption.
      unfold quantum_step. rewrite (quantum_fast e src _ si c0 c1 c2 c3 r Hs) by lia.
      apply (IH (m - 4)%nat); [lia|right; left; reflexivity|lia|lia|lia|lia|].
      rewrite lenZ_app, lenZ_dq_bytes. apply Inv_fast_g; auto.
    - apply PQ; [right; left; reflexivity|lia|lia|lia|lia|lia|exact HI]. }
  assert (P1 : forall f f' si out, (Z.to_nat (srclen - si) <= m)%nat ->
     (m + 3 <= f)%nat -> (m + 1 <= f')%nat -> 0 <= si <= srclen -> Inv src (lenZ out) si ->
     dec_loop f e dcap src 1 si out = dec_loop f' e dcap src 3 si out).
  { intros f f' si out Hm Hf Hf' Hsi HI. destruct f as [|f]; [lia|].
    rewrite dec_loop_1. fold srclen.
    destruct ((8 <=? srclen - si) && (8 <=? dcap - lenZ out)) eqn:G; [|apply P2; auto; lia].
    apply andb_true_iff in G. destruct G as [G1 G2]. apply Z.leb_le in G1, G2. cbv zeta.
    pose proof (skipn_lenZ src si Hsi) as Hl. fold srclen in Hl.
    destruct (list_take8 (skipn (Z.to_nat si) src)) as (c0 & c1 & c2 & c3 & c4 & c5 & c6 & c7 & r & Hs); [lia|].
    rewrite Hs. cbn [firstn].
    change (map (dmap e) [c0; c1; c2; c3; c4; c5; c6; c7]) with
      [dmap e c0; dmap e c1; dmap e c2; dmap e c3; dmap e c4; dmap e c5; dmap e c6; dmap e c7].
    destruct f' as [|f']; [lia|]. rewrite dec_loop_3. fold srclen.
    destruct (Z.ltb_spec si srclen) as [Hlt|Hge]; [|lia].
    destruct (all_valid [dmap e c0; dmap e c1; dmap e c2; dmap e c3; dmap e c4; dmap e c5; dmap e c6; dmap e c7]) eqn:Hav.
    - apply all_valid_in in Hav; [|repeat (apply Forall_cons; [apply dmap_range; exact Hok|]); apply Forall_nil].
      inversion Hav as [|? ? R0 Hav1]; subst. inversion Hav1 as [|? ? R1 Hav2]; subst.
      inversion Hav2 as [|? ? R2 Hav3]; subst. inversion Hav3 as [|? ? R3 Hav4]; subst.
      inversion Hav4 as [|? ? R4 Hav5]; subst. inversion Hav5 as [|? ? R5 Hav6]; subst.
      inversion Hav6 as [|? ? R6 Hav7]; subst. inversion Hav7 as [|? ? R7 _]; subst.
      rewrite asm64_bytes by assumption.
      unfold quantum_step at 1. rewrite (quantum_fast e src _ si c0 c1 c2 c3 _ Hs) by lia.
      destruct f' as [|f']; [lia|]. rewrite dec_loop_3. fold srclen.
      destruct (Z.ltb_spec (si + 4) srclen) as [Hlt4|Hge4]; [|lia].
      assert (Hs4 : skipn (Z.to_nat (si + 4)) src = c4 :: c5 :: c6 :: c7 :: r).
      { rewrite skipn_add by lia. rewrite Hs. reflexivity. }
      unfold quantum_step. rewrite (quantum_fast e src _ (si + 4) c4 c5 c6 c7 r Hs4);
        [|lia|lia|lia|lia|rewrite lenZ_app, lenZ_dq_bytes; lia].
      replace (si + 4 + 4) with (si + 8) by lia. rewrite <- app_assoc.
      apply (IH (m - 8)%nat); [lia|left; reflexivity|lia|lia|lia|lia|].
      rewrite !lenZ_app, !lenZ_dq_bytes.
      replace (lenZ out + (3 + 3)) with (lenZ out + 3 + 3) by lia.
      replace (si + 8) with (si + 4 + 4) by lia. apply Inv_fast_g; auto. apply Inv_fast_g; auto.
    - apply PQ; [left; reflexivity|lia|lia|lia|lia|lia|exact HI]. }
  intros p f f' si out [-> | [-> | ->]] Hm Hf Hf' Hsi HI; [apply P1|apply P2|apply P3]; auto; lia.
Qed.

(* the slow loop with a fixed (sufficient) amount of fuel *)
Lemma slow_unfold_g : forall f si out, (Z.to_nat srclen + 1 <= f)%nat -> 0 <= si <= srclen ->
  Inv src (lenZ out) si ->
  exists nsi o err, decodeQuantum e (dcap - lenZ out) src si = QOk nsi o err /\
    si <= nsi <= srclen /\ (si < srclen -> si < nsi) /\ (err = None -> Inv src (lenZ (out ++ o)) nsi) /\
    dec_loop f e dcap src 3 si out =
    if si <? srclen then
      match err with Some _ => DOk (out ++ o) err | None => dec_loop f e dcap src 3 nsi (out ++ o) end
    else DOk out None.
Proof.
  intros f si out Hf Hsi HI.
  destruct (quantum_at_g si out Hsi HI) as (nsi & o & err & E & B1 & B2 & B3 & B4 & B5).
  exists nsi, o, err. split; [exact E|]. split; [exact B1|]. split; [exact B2|]. split; [exact B4|].
  destruct f as [|f0]; [lia|]. rewrite (dec_loop_3 f0 e dcap src si out). fold srclen.
  destruct (Z.ltb_spec si srclen) as [Hlt|Hge]; [|reflexivity].
  unfold quantum_step. rewrite E. destruct err as [k0|]; [reflexivity|].
  apply (phase_eq_g (Z.to_nat (srclen - nsi))); [right; right; reflexivity|lia|lia|lia|lia|apply B4; reflexivity].
Qed.

End LoopG.

Section RTG.
Variable e : encoding.
Hypothesis Hwf : enc_wf e = true.
Let Hok : enc_ok e = true := proj1 (enc_wf_ok e Hwf).
Let Hnd : nodup_b (e_alpha e) = true := proj2 (enc_wf_ok e Hwf).
Variable SRC : bytes.
Variable f : nat.
Hypothesis Hf : (Z.to_nat (lenZ SRC) + 1 <= f)%nat.
Local Notation srclen := (lenZ SRC).
Variable dcap : Z.
Hypothesis Hcap : DecodedLen e (lenZ SRC) <= dcap.

(* one symbol step inside hypothesis E about dq_loop; keeps the position facts *)
Ltac sym_step E Hs Hstrip Hx nls r1 s1 Es1 Hs1 Hstrip1 :=
  match type of E with
  | dq_loop ?e ?room ?sl ?rest ?si ?j ?dbuf = _ =>
    match type of Hstrip with
    | strip_nl _ = ?x :: ?more =>
      let Er := fresh "Er" in let Eq := fresh "Eq" in
      destruct (dq_sym_step e Hok room sl rest si j dbuf x more eq_refl Hstrip Hx)
        as (nls & r1 & Er & Hstrip1 & Eq);
      rewrite Eq in E; clear Eq;
      let Hl := fresh "Hl" in (pose proof (f_equal lenZ Er) as Hl; rewrite lenZ_app, lenZ_cons in Hl);
      rewrite Er in Hs;
      pose proof (skipn_consumed1 SRC si nls x r1 ltac:(lia) Hs) as Hs1;
      pose proof (lenZ_nonneg nls); pose proof (lenZ_nonneg r1);
      remember (si + lenZ nls + 1) as s1 eqn:Es1
    end
  end.

Lemma rt_nil_g rest si out : 0 <= si <= srclen -> skipn (Z.to_nat si) SRC = rest ->
  strip_nl rest = [] -> Inv SRC (lenZ out) si ->
  dec_loop f e dcap SRC 3 si out = DOk out None.
Proof.
  intros Hsi Hs Hst HI.
  destruct (slow_unfold_g e SRC dcap Hcap Hok f si out Hf Hsi HI) as (nsi & o & err & E & B1 & B2 & B4 & U).
  rewrite U. clear U.
  destruct (Z.ltb_spec si srclen) as [Hlt|Hge]; [|reflexivity].
  unfold decodeQuantum in E. rewrite Hs in E. rewrite dq_loop_step in E by reflexivity.
  rewrite nxt_strip_end in E by assumption. unfold end_case in E. cbn [Nat.eqb] in E.
  inversion E; subst nsi o err. rewrite app_nil_r.
  pose proof (skipn_lenZ SRC si Hsi) as Hl. rewrite Hs in Hl.
  destruct (slow_unfold_g e SRC dcap Hcap Hok f (si + lenZ rest) out Hf ltac:(lia)) as (nsi & o & err & E2 & C1 & C2 & C4 & U).
  { rewrite app_nil_r in B4. apply B4. reflexivity. }
  rewrite U. destruct (Z.ltb_spec (si + lenZ rest) srclen); [lia|reflexivity].
Qed.

Lemma rt_full_g b0 b1 b2 more rest si out :
  0 <= b0 < 256 -> 0 <= b1 < 256 -> 0 <= b2 < 256 ->
  0 <= si <= srclen -> skipn (Z.to_nat si) SRC = rest ->
  (let v := enc_val b0 b1 b2 in
   strip_nl rest = sym e (idx0 v) :: sym e (idx1 v) :: sym e (idx2 v) :: sym e (idx3 v) :: more) ->
  Inv SRC (lenZ out) si ->
  exists r4 s4, 0 <= s4 <= srclen /\ skipn (Z.to_nat s4) SRC = r4 /\ strip_nl r4 = more /\
    Inv SRC (lenZ (out ++ [b0; b1; b2])) s4 /\
    dec_loop f e dcap SRC 3 si out = dec_loop f e dcap SRC 3 s4 (out ++ [b0; b1; b2]).
Proof.
  intros H0 H1 H2 Hsi Hs Hst HI. cbv zeta in Hst.
  destruct (idx_range b0 b1 b2 H0 H1 H2) as (R0 & R1 & R2 & R3).
  pose proof (sym_valid e Hok _ R0) as V0. pose proof (sym_valid e Hok _ R1) as V1.
  pose proof (sym_valid e Hok _ R2) as V2. pose proof (sym_valid e Hok _ R3) as V3.
  destruct (slow_unfold_g e SRC dcap Hcap Hok f si out Hf Hsi HI) as (nsi & o & err & E & B1 & B2 & B4 & U).
  unfold decodeQuantum in E. rewrite Hs in E.
  sym_step E Hs Hst V0 nls0 r1 s1 Es1 Hs1 Hst1.
  sym_step E Hs1 Hst1 V1 nls1 r2 s2 Es2 Hs2 Hst2.
  sym_step E Hs2 Hst2 V2 nls2 r3 s3 Es3 Hs3 Hst3.
  sym_step E Hs3 Hst3 V3 nls3 r4 s4 Es4 Hs4 Hst4.
  rewrite dq_loop_4 in E. cbn [app] in E.
  rewrite !(dmap_sym e Hok _ Hnd) in E by assumption.
  rewrite dq_finish_4 in E by assumption.
  destruct (dcap - lenZ out <? 3); [discriminate|].
  rewrite <- dq_bytes_closed in E by assumption.
  pose proof (dq_enc b0 b1 b2 H0 H1 H2) as Hde. cbv zeta in Hde. rewrite Hde in E.
  inversion E; subst nsi o err. clear E.
  exists r4, s4. split; [lia|]. split; [exact Hs4|]. split; [exact Hst4|]. split; [apply B4; reflexivity|].
  rewrite U. destruct (Z.ltb_spec si srclen); [reflexivity|lia].
Qed.

Lemma slow_at_end_g out : Inv SRC (lenZ out) srclen -> dec_loop f e dcap SRC 3 srclen out = DOk out None.
Proof.
  intros HI. apply (rt_nil_g []); auto.
  - pose proof (lenZ_nonneg SRC). lia.
  - apply skipn_all_Z. lia.
Qed.


Lemma rt_tail2_g b0 b1 rest si out :
  0 <= b0 < 256 -> 0 <= b1 < 256 ->
  0 <= si <= srclen -> skipn (Z.to_nat si) SRC = rest ->
  (let v := enc_val b0 b1 0 in
   strip_nl rest = sym e (idx0 v) :: sym e (idx1 v) :: sym e (idx2 v)
                     :: match e_pad e with Some p => [p] | None => [] end) ->
  Inv SRC (lenZ out) si ->
  dec_loop f e dcap SRC 3 si out = DOk (out ++ [b0; b1]) None.
Proof.
  intros H0 H1 Hsi Hs Hst HI. cbv zeta in Hst.
  assert (H2 : 0 <= 0 < 256) by lia.
  destruct (idx_range b0 b1 0 H0 H1 H2) as (R0 & R1 & R2 & R3).
  pose proof (sym_valid e Hok _ R0) as V0. pose proof (sym_valid e Hok _ R1) as V1.
  pose proof (sym_valid e Hok _ R2) as V2.
  assert (Hd2 : idx2 (enc_val b0 b1 0) / 16 = 0).
  { rewrite idx2_closed by assumption. Z.div_mod_to_equations. lia. }
  pose proof (dq_enc b0 b1 0 H0 H1 H2) as Hde. cbv zeta in Hde.
  rewrite dq_bytes_closed in Hde by assumption. injection Hde as Hb0 Hb1 Hb2. clear Hb2.
  pose proof (skipn_lenZ SRC si Hsi) as Hl0. rewrite Hs in Hl0.
  destruct (slow_unfold_g e SRC dcap Hcap Hok f si out Hf Hsi HI) as (nsi & o & err & E & B1 & B2 & B4 & U).
  unfold decodeQuantum in E. rewrite Hs in E.
  sym_step E Hs Hst V0 nls0 r1 s1 Es1 Hs1 Hst1.
  sym_step E Hs1 Hst1 V1 nls1 r2 s2 Es2 Hs2 Hst2.
  sym_step E Hs2 Hst2 V2 nls2 r3 s3 Es3 Hs3 Hst3.
  rewrite dq_loop_step in E by reflexivity. cbn [app] in E.
  rewrite !(dmap_sym e Hok _ Hnd) in E by assumption.
  assert (Efin : forall S, dq_finish e (dcap - lenZ out) [idx0 (enc_val b0 b1 0); idx1 (enc_val b0 b1 0); idx2 (enc_val b0 b1 0)] 3 S None
                           = QOk nsi o err -> nsi = S /\ o = [b0; b1] /\ err = None).
  { intros S EF. rewrite dq_finish_3 in EF by assumption. rewrite Hd2 in EF. change (0 =? 0) with true in EF.
    cbn [negb] in EF. rewrite andb_false_r in EF. rewrite Hb0, Hb1 in EF.
    destruct (dcap - lenZ out <? 2); [discriminate|]. inversion EF; auto. }
  assert (Hend : nsi = srclen -> o = [b0; b1] -> err = None ->
                 dec_loop f e dcap SRC 3 si out = DOk (out ++ [b0; b1]) None).
  { intros -> -> ->. rewrite U. destruct (Z.ltb_spec si srclen); [|lia]. apply slow_at_end_g. apply B4. reflexivity. }
  destruct (e_pad e) as [p|] eqn:Ep.
  - destruct (nxt_strip_pad e Hok r3 s3 p [] Hst3 (is_pad_refl e p Ep)) as (nls3 & r4 & Er4 & Hst4 & En).
    rewrite En in E. unfold pad_case in E. cbn [Nat.eqb] in E. cbv zeta in E.
    rewrite (skip_strip_nil r4 _ Hst4) in E. cbv beta iota in E. change (Z.of_nat 3) with 3 in E.
    apply Efin in E. destruct E as (E1 & E2 & E3).
    pose proof (f_equal lenZ Er4) as Hl4. rewrite lenZ_app, lenZ_cons in Hl4.
    apply Hend; auto. lia.
  - rewrite (nxt_strip_end e Hok r3 _ Hst3) in E. unfold end_case in E. cbn [Nat.eqb orb] in E.
    unfold has_pad in E. rewrite Ep in E. change (Z.of_nat 3) with 3 in E.
    apply Efin in E. destruct E as (E1 & E2 & E3). apply Hend; auto. lia.
Qed.

Lemma rt_tail1_g b0 rest si out :
  0 <= b0 < 256 ->
  0 <= si <= srclen -> skipn (Z.to_nat si) SRC = rest ->
  (let v := enc_val b0 0 0 in
   strip_nl rest = sym e (idx0 v) :: sym e (idx1 v)
                     :: match e_pad e with Some p => [p; p] | None => [] end) ->
  Inv SRC (lenZ out) si ->
  dec_loop f e dcap SRC 3 si out = DOk (out ++ [b0]) None.
Proof.
  intros H0 Hsi Hs Hst HI. cbv zeta in Hst.
  assert (H2 : 0 <= 0 < 256) by lia.
  destruct (idx_range b0 0 0 H0 H2 H2) as (R0 & R1 & R2 & R3).
  pose proof (sym_valid e Hok _ R0) as V0. pose proof (sym_valid e Hok _ R1) as V1.
  assert (Hd1 : idx1 (enc_val b0 0 0) / 4 = 0).
  { rewrite idx1_closed by assumption. Z.div_mod_to_equations. lia. }
  pose proof (dq_enc b0 0 0 H0 H2 H2) as Hde. cbv zeta in Hde.
  rewrite dq_bytes_closed in Hde by assumption. injection Hde as Hb0 Hb1 Hb2. clear Hb1 Hb2.
  pose proof (skipn_lenZ SRC si Hsi) as Hl0. rewrite Hs in Hl0.
  destruct (slow_unfold_g e SRC dcap Hcap Hok f si out Hf Hsi HI) as (nsi & o & err & E & B1 & B2 & B4 & U).
  unfold decodeQuantum in E. rewrite Hs in E.
  sym_step E Hs Hst V0 nls0 r1 s1 Es1 Hs1 Hst1.
  sym_step E Hs1 Hst1 V1 nls1 r2 s2 Es2 Hs2 Hst2.
  rewrite dq_loop_step in E by reflexivity. cbn [app] in E.
  rewrite !(dmap_sym e Hok _ Hnd) in E by assumption.
  assert (Efin : forall S, dq_finish e (dcap - lenZ out) [idx0 (enc_val b0 0 0); idx1 (enc_val b0 0 0)] 2 S None
                           = QOk nsi o err -> nsi = S /\ o = [b0] /\ err = None).
  { intros S EF. rewrite dq_finish_2 in EF by assumption. rewrite Hd1 in EF. change (0 =? 0) with true in EF.
    cbn [negb] in EF. rewrite andb_false_r in EF. rewrite Hb0 in EF.
    destruct (dcap - lenZ out <? 1); [discriminate|]. inversion EF; auto. }
  assert (Hend : nsi = srclen -> o = [b0] -> err = None ->
                 dec_loop f e dcap SRC 3 si out = DOk (out ++ [b0]) None).
  { intros -> -> ->. rewrite U. destruct (Z.ltb_spec si srclen); [|lia]. apply slow_at_end_g. apply B4. reflexivity. }
  destruct (e_pad e) as [p|] eqn:Ep.
  - pose proof (is_pad_refl e p Ep) as Hp.
    destruct (nxt_strip_pad e Hok r2 s2 p [p] Hst2 Hp) as (nls2 & r3 & Er3 & Hst3 & En).
    rewrite En in E. unfold pad_case in E. cbn [Nat.eqb] in E. cbv zeta in E.
    destruct (skip_strip_cons r3 (s2 + lenZ nls2 + 1) p [] Hst3) as (nls3 & r4 & Er4 & Hst4 & Esk).
    rewrite Esk in E. cbv beta iota in E. rewrite Hp in E.
    rewrite (skip_strip_nil r4 _ Hst4) in E. cbv beta iota in E. change (Z.of_nat 2) with 2 in E.
    apply Efin in E. destruct E as (E1 & E2 & E3).
    pose proof (f_equal lenZ Er3) as Hl3. rewrite lenZ_app, lenZ_cons in Hl3.
    pose proof (f_equal lenZ Er4) as Hl4. rewrite lenZ_app, lenZ_cons in Hl4.
    apply Hend; auto. lia.
  - rewrite (nxt_strip_end e Hok r2 _ Hst2) in E. unfold end_case in E. cbn [Nat.eqb orb] in E.
    unfold has_pad in E. rewrite Ep in E. change (Z.of_nat 2) with 2 in E.
    apply Efin in E. destruct E as (E1 & E2 & E3). apply Hend; auto. lia.
Qed.


Lemma rt_loop_g : forall src0 rest si out,
  0 <= si <= srclen -> skipn (Z.to_nat si) SRC = rest -> strip_nl rest = encode e src0 ->
  wf_bytes src0 = true -> Inv SRC (lenZ out) si ->
  dec_loop f e dcap SRC 3 si out = DOk (out ++ src0) None.
Proof.
  intros src0. induction src0 as [|a|a b|a b c r IH] using list_ind3; intros rest si out Hsi Hs Hst Hwfb HI.
  - rewrite app_nil_r. apply (rt_nil_g rest); auto.
  - apply wf_bytes_cons in Hwfb. destruct Hwfb as [Ha _].
    apply (rt_tail1_g a rest); auto. cbv zeta. rewrite <- enc_val_1. exact Hst.
  - apply wf_bytes_cons in Hwfb. destruct Hwfb as [Ha Hwfb]. apply wf_bytes_cons in Hwfb. destruct Hwfb as [Hb _].
    apply (rt_tail2_g a b rest); auto. cbv zeta. rewrite <- enc_val_2. exact Hst.
  - apply wf_bytes_cons in Hwfb. destruct Hwfb as [Ha Hwfb]. apply wf_bytes_cons in Hwfb. destruct Hwfb as [Hb Hwfb].
    apply wf_bytes_cons in Hwfb. destruct Hwfb as [Hc Hwfb].
    rewrite encode_cons3 in Hst.
    destruct (rt_full_g a b c (encode e r) rest si out Ha Hb Hc Hsi Hs Hst HI) as (r4 & s4 & P1 & P2 & P3 & P4 & P5).
    rewrite P5. rewrite (IH r4 s4 (out ++ [a; b; c]) P1 P2 P3 Hwfb P4). rewrite <- app_assoc. reflexivity.
Qed.

End RTG.

(* Decode into a destination of any sufficient capacity inverts Encode (CR/LF anywhere) *)
Theorem decode_raw_canon : forall e dcap src t, enc_wf e = true -> wf_bytes src = true ->
  strip_nl t = encode e src -> DecodedLen e (lenZ t) <= dcap ->
  decode_raw e dcap t = DOk src None.
Proof.
  intros e dcap src t Hwf Hb Hst Hcap. unfold decode_raw. destruct t as [|c t'].
  - destruct src as [|b0 [|b1 [|b2 r]]]; [reflexivity|discriminate..].
  - set (T := c :: t') in *.
    pose proof (lenZ_nonneg T) as HT.
    assert (HI : Inv T (lenZ []) 0) by (left; split; [reflexivity|rewrite lenZ_nil; lia]).
    rewrite (phase_eq_g e T dcap Hcap (proj1 (enc_wf_ok e Hwf)) (length T) 1 (length T + 4) (length T + 4) 0 []);
      [|left; reflexivity|unfold lenZ; lia|lia|lia|lia|exact HI].
    assert (Hf : (Z.to_nat (lenZ T) + 1 <= length T + 4)%nat) by (unfold lenZ; lia).
    apply (rt_loop_g e Hwf T (length T + 4) Hf dcap Hcap src T 0 []); auto; lia.
Qed.
