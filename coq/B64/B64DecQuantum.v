(* decodeQuantum: panic-freedom and numeric bounds. *)
Require Import GC.Base.Bytes GC.B64.B64Model GC.B64.B64Spec.
Require Export GC.B64.B64DecBase.

Arguments Z.shiftl : simpl never. Arguments Z.shiftr : simpl never. Arguments Z.land : simpl never.
Arguments Z.lor : simpl never. Arguments Z.mul : simpl never. Arguments Z.add : simpl never.
Arguments Z.sub : simpl never. Arguments Z.of_nat : simpl never. Arguments Z.div : simpl never.
Arguments Z.modulo : simpl never.

Lemma dq_finish_ok e room dbuf dlen s err :
  dlen = 2 \/ dlen = 3 \/ dlen = 4 -> dlen - 1 <= room ->
  exists o err', dq_finish e room dbuf dlen s err = QOk s o err' /\
    ((err' = err /\ lenZ o = dlen - 1) \/ (o = [] /\ err' = Some (s - (4 - dlen)) /\ dlen < 4)).
Proof.
  intros Hd Hr. unfold dq_finish. cbv zeta. destruct Hd as [-> | [-> | ->]].
  - change (2 =? 4) with false. change (2 =? 3) with false. change (2 =? 2) with true. cbv iota.
    destruct (Z.ltb_spec room 1); [lia|].
    match goal with |- context [if ?b then _ else _] => destruct b end.
    + do 2 eexists. split; [reflexivity|]. right. repeat split; lia.
    + do 2 eexists. split; [reflexivity|]. left. split; reflexivity.
  - change (3 =? 4) with false. change (3 =? 3) with true. cbv iota.
    destruct (Z.ltb_spec room 2); [lia|].
    match goal with |- context [if ?b then _ else _] => destruct b end.
    + do 2 eexists. split; [reflexivity|]. right. repeat split; lia.
    + do 2 eexists. split; [reflexivity|]. left. split; reflexivity.
  - change (4 =? 4) with true. cbv iota. destruct (Z.ltb_spec room 3); [lia|].
    do 2 eexists. split; [reflexivity|]. left. split; reflexivity.
Qed.

Ltac fin :=
  do 3 eexists; split; [reflexivity|]; unfold lenZ in *; cbn [length] in *;
  repeat split; intros;
  try discriminate;
  try (match goal with H : Some _ = Some _ |- _ => inversion H; subst; clear H end);
  try (match goal with H : None = Some _ |- _ => discriminate H end);
  try lia.

Ltac use_finish e room dbuf dlen s err :=
  let o := fresh "o" in let err' := fresh "err'" in let Hf := fresh "Hf" in let Hc := fresh "Hc" in
  destruct (dq_finish_ok e room dbuf dlen s err) as (o & err' & Hf & Hc);
  [ lia | try lia | rewrite Hf; destruct Hc as [[? ?]|[? [? ?]]]; subst ].

Ltac step r s Hn :=
  rewrite dq_loop_step by reflexivity;
  match goal with |- context [nxt ?e ?rest ?si] =>
    pose proof (nxt_num e rest si) as Hn;
    let d := fresh "d" in let c := fresh "c" in
    destruct (nxt e rest si) as [d c r s | r s | c r s | s] end.

Lemma quantum_ok e room srclen rest si :
  si + lenZ rest = srclen -> 0 <= si ->
  (4 <= lenZ rest -> 3 <= room) -> (has_pad e = false -> 3 <= lenZ rest -> 2 <= room) ->
  (has_pad e = false -> 2 <= lenZ rest -> 1 <= room) ->
  exists nsi o err, dq_loop e room srclen rest si 0 [] = QOk nsi o err /\
    si <= nsi <= srclen /\ (0 < lenZ rest -> si < nsi) /\
    (forall k, err = Some k -> si <= k <= srclen) /\
    (err = None -> (lenZ o = 3 /\ si + 4 <= nsi) \/ nsi = srclen) /\ lenZ o <= 3.
Proof.
  intros Hlen Hsi R4 R3 R2.
  pose proof (lenZ_nonneg rest) as Hnn.
  step r1 s1 N1; [ | unfold pad_case; fin | fin | unfold end_case; cbn [Nat.eqb]; fin ].
  destruct N1 as (N1a & N1b & _). pose proof (lenZ_nonneg r1).
  step r2 s2 N2; [ | unfold pad_case; fin | fin | unfold end_case; cbn [Nat.eqb orb]; fin ].
  destruct N2 as (N2a & N2b & _). pose proof (lenZ_nonneg r2).
  step r3 s3 N3.
  - destruct N3 as (N3a & N3b & _). pose proof (lenZ_nonneg r3).
    step r4 s4 N4.
    + destruct N4 as (N4a & N4b & _). pose proof (lenZ_nonneg r4).
      rewrite dq_loop_4. use_finish e room (((([] ++ [d]) ++ [d0]) ++ [d1]) ++ [d2]) 4 s4 (@None Z); fin.
    + (* pad after 3 symbols *)
      pose proof (lenZ_nonneg r4).
      unfold pad_case. cbn [Nat.eqb]. cbv zeta.
      destruct (skip_nl r4 s4) as [r5 s5] eqn:Es. apply skip_nl_num in Es. pose proof (lenZ_nonneg r5).
      use_finish e room ((([] ++ [d]) ++ [d0]) ++ [d1]) (Z.of_nat 3) s5 (match r5 with [] => @None Z | _ :: _ => Some s5 end).
      * destruct r5; fin.
      * fin.
    + fin.
    + unfold end_case. cbn [Nat.eqb orb]. destruct (has_pad e) eqn:Hp; [fin|]. specialize (R3 eq_refl). specialize (R2 eq_refl).
      use_finish e room ((([] ++ [d]) ++ [d0]) ++ [d1]) (Z.of_nat 3) s4 (@None Z); fin.
  - (* pad after 2 symbols *)
    pose proof (lenZ_nonneg r3).
    unfold pad_case. cbn [Nat.eqb]. cbv zeta.
    destruct (skip_nl r3 s3) as [r4 s4] eqn:Es. apply skip_nl_num in Es. pose proof (lenZ_nonneg r4).
    destruct r4 as [|c2 r4]; [rewrite lenZ_nil in *; fin|]. rewrite lenZ_cons in *. pose proof (lenZ_nonneg r4).
    destruct (is_pad e c2); [|fin].
    destruct (skip_nl r4 (s4 + 1)) as [r5 s5] eqn:Es2. apply skip_nl_num in Es2. pose proof (lenZ_nonneg r5).
    use_finish e room (([] ++ [d]) ++ [d0]) (Z.of_nat 2) s5 (match r5 with [] => @None Z | _ :: _ => Some s5 end).
    + destruct r5; fin.
    + fin.
  - fin.
  - unfold end_case. cbn [Nat.eqb orb]. destruct (has_pad e) eqn:Hp; [fin|]. specialize (R3 eq_refl). specialize (R2 eq_refl).
    use_finish e room (([] ++ [d]) ++ [d0]) (Z.of_nat 2) s3 (@None Z); fin.
Qed.
