(* Decode: content-level facts: bad symbols are located exactly; decoding inverts encoding. *)
Require Import GC.Base.Bytes GC.B64.B64Model GC.B64.B64Spec.
Require Export GC.B64.B64DecLoop.

Arguments Z.shiftl : simpl never. Arguments Z.shiftr : simpl never. Arguments Z.land : simpl never.
Arguments Z.lor : simpl never. Arguments Z.mul : simpl never. Arguments Z.add : simpl never.
Arguments Z.sub : simpl never. Arguments Z.of_nat : simpl never. Arguments Z.div : simpl never.
Arguments Z.modulo : simpl never.

Lemma skipn_consumed (src : bytes) si consumed rest' :
  0 <= si -> skipn (Z.to_nat si) src = consumed ++ rest' ->
  skipn (Z.to_nat (si + lenZ consumed)) src = rest'.
Proof.
  intros Hsi H. rewrite skipn_add by (try apply lenZ_nonneg; lia). rewrite H.
  unfold lenZ. rewrite Nat2Z.id. apply skipn_app_exact.
Qed.

Lemma dq_loop_4_inv e room srclen rest si dbuf nsi o err :
  dq_loop e room srclen rest si 4 dbuf = QOk nsi o err -> err = None /\ nsi = si.
Proof.
  rewrite dq_loop_4. unfold dq_finish. cbv zeta. change (4 =? 4) with true. cbv iota.
  destruct (room <? 3); [discriminate|]. intros H. inversion H; subst. auto.
Qed.

Section Bad.
Variable e : encoding.
Hypothesis Hok : enc_ok e = true.
Variables (c : Z) (b : bytes).
Hypothesis Hc1 : is_symbol e c = false.
Hypothesis Hc2 : is_newline c = false.
Hypothesis Hc3 : is_pad e c = false.

Definition symnl (a : bytes) : Prop := forallb (fun x => is_symbol e x || is_newline x) a = true.

Lemma dq_bad room srclen : forall a si j dbuf nsi o err, symnl a ->
  dq_loop e room srclen (a ++ c :: b) si j dbuf = QOk nsi o err ->
  err = Some (si + lenZ a) \/
  (err = None /\ exists a1 a2, a = a1 ++ a2 /\ nsi = si + lenZ a1 /\ symnl a2).
Proof.
  assert (Hd : dmap e c =? 255 = true).
  { unfold is_symbol in Hc1. apply negb_false_iff in Hc1. exact Hc1. }
  induction a as [|x a IH]; intros si j dbuf nsi o err Ha H.
  - destruct (Nat.eqb j 4) eqn:Ej.
    + apply Nat.eqb_eq in Ej. subst j. apply dq_loop_4_inv in H. destruct H as [-> ->].
      right. split; [reflexivity|]. exists [], []. rewrite lenZ_nil. repeat split; auto. lia.
    + cbn [app dq_loop] in H. rewrite Ej in H. cbv zeta in H. rewrite Hd, Hc2, Hc3 in H. cbn [negb] in H.
      inversion H; subst. left. f_equal. rewrite lenZ_nil. lia.
  - unfold symnl in Ha. cbn [forallb] in Ha. apply andb_true_iff in Ha. destruct Ha as [Hx Ha].
    destruct (Nat.eqb j 4) eqn:Ej.
    + apply Nat.eqb_eq in Ej. subst j. apply dq_loop_4_inv in H. destruct H as [-> ->].
      right. split; [reflexivity|]. exists [], (x :: a). rewrite lenZ_nil. repeat split; auto. lia.
      unfold symnl. cbn [forallb]. rewrite Hx, Ha. reflexivity.
    + cbn [app dq_loop] in H. rewrite Ej in H. cbv zeta in H.
      assert (Hshift : forall j' dbuf', dq_loop e room srclen (a ++ c :: b) (si + 1) j' dbuf' = QOk nsi o err ->
        err = Some (si + lenZ (x :: a)) \/
        (err = None /\ exists a1 a2, x :: a = a1 ++ a2 /\ nsi = si + lenZ a1 /\ symnl a2)).
      { intros j' dbuf' H'. apply IH in H'; [|exact Ha]. rewrite lenZ_cons.
        destruct H' as [H'|(H' & a1 & a2 & E1 & E2 & E3)].
        - left. rewrite H'. f_equal. lia.
        - right. split; [exact H'|]. exists (x :: a1), a2. rewrite lenZ_cons. subst a. repeat split; auto. lia. }
      unfold is_symbol in Hx. destruct (dmap e x =? 255) eqn:Edx; cbn [negb orb] in H, Hx.
      * rewrite Hx in H. eapply Hshift. exact H.
      * eapply Hshift. exact H.
Qed.

Lemma bad_loop src f : (Z.to_nat (lenZ src) + 1 <= f)%nat ->
  forall m a si out, (length a <= m)%nat -> symnl a -> 0 <= si ->
  skipn (Z.to_nat si) src = a ++ c :: b -> Inv src (lenZ out) si -> si + lenZ a + 1 + lenZ b = lenZ src ->
  exists o, dec_loop f e (DecodedLen e (lenZ src)) src 3 si out = DOk o (Some (si + lenZ a)).
Proof.
  intros Hf. induction m as [|m IH]; intros a si out Hm Ha Hsi Hs HI Hlen;
  pose proof (lenZ_nonneg a) as Hna; pose proof (lenZ_nonneg b) as Hnb;
  (destruct (slow_unfold e src Hok f si out Hf ltac:(lia) HI) as (nsi & o & err & E & B1 & B2 & B4 & U));
  rewrite U; (destruct (Z.ltb_spec si (lenZ src)) as [Hlt|Hge]; [|lia]);
  unfold decodeQuantum in E; rewrite Hs in E; apply dq_bad in E; try exact Ha;
  (destruct E as [E|(E & a1 & a2 & E1 & E2 & E3)]; [subst err; eexists; reflexivity|]).
  - exfalso. destruct a; [|cbn [length] in Hm; lia]. destruct a1; [|discriminate].
    rewrite lenZ_nil in E2. lia.
  - subst err. subst a. rewrite lenZ_app in Hlen, Hna |- *. pose proof (lenZ_nonneg a1). pose proof (lenZ_nonneg a2).
    rewrite <- app_assoc in Hs. apply skipn_consumed in Hs; [|lia]. rewrite <- E2 in Hs.
    assert (Hm2 : (length a2 <= m)%nat).
    { rewrite app_length in Hm. assert (0 < lenZ a1) by lia. unfold lenZ in *. lia. }
    destruct (IH a2 nsi (out ++ o) Hm2 E3 ltac:(lia) Hs (B4 eq_refl) ltac:(lia)) as (o' & Eo).
    exists o'. rewrite Eo. f_equal. f_equal. lia.
Qed.
End Bad.

Theorem bad_symbol_slow : forall e a c b, enc_ok e = true ->
  forallb (fun x => is_symbol e x || is_newline x) a = true ->
  is_symbol e c = false -> is_newline c = false -> is_pad e c = false ->
  exists out, decode_slow e (a ++ c :: b) = DOk out (Some (Z.of_nat (length a))).
Proof.
  intros e a c b Hok Ha H1 H2 H3. unfold decode_slow.
  destruct (a ++ c :: b) as [|x t] eqn:Et; [destruct a; discriminate|]. rewrite <- Et.
  set (src := a ++ c :: b).
  assert (Hf : (Z.to_nat (lenZ src) + 1 <= length src + 4)%nat) by (unfold lenZ; lia).
  assert (HI : Inv src (lenZ []) 0) by (left; split; [reflexivity|rewrite lenZ_nil; lia]).
  assert (Hl : 0 + lenZ a + 1 + lenZ b = lenZ src) by (subst src; rewrite lenZ_app, lenZ_cons; lia).
  destruct (bad_loop e Hok c b H1 H2 H3 src (length src + 4) Hf (length a) a 0 [] (le_n _) Ha ltac:(lia) eq_refl HI Hl)
    as (o & Eo).
  exists o. fold (lenZ src). rewrite Eo. reflexivity.
Qed.
