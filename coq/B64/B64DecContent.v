(* Decode: content-level facts: bad symbols are located exactly; decoding inverts encoding. *)
Require Import GC.Base.Bytes GC.B64.B64Model GC.B64.B64Spec.
Require Export GC.B64.B64DecLoop.

Arguments Z.shiftl : simpl never. Arguments Z.shiftr : simpl never. Arguments Z.land : simpl never.
Arguments Z.lor : simpl never. Arguments Z.mul : simpl never. Arguments Z.add : simpl never.
Arguments Z.sub : simpl never. Arguments Z.of_nat : simpl never. Arguments Z.div : simpl never.
Arguments Z.modulo : simpl never.

Lemma skipn_consumed (src : bytes) si consumed rest' :
  0 <= si -> skipn (Z.to_nat si) src = consumed ++ rest' ->
  skipn (Z.to_nat (si + lenZ consumed)) src = rest'.
Proof.
  intros Hsi H. rewrite skipn_add by (try apply lenZ_nonneg; lia). rewrite H.
  unfold lenZ. rewrite Nat2Z.id. apply skipn_app_exact.
Qed.

Lemma dq_loop_4_inv e room srclen rest si dbuf nsi o err :
  dq_loop e room srclen rest si 4 dbuf = QOk nsi o err -> err = None /\ nsi = si.
Proof.
  rewrite dq_loop_4. unfold dq_finish. cbv zeta. change (4 =? 4) with true. cbv iota.
  destruct (room <? 3); [discriminate|]. intros H. inversion H; subst. auto.
Qed.

Section Bad.
Variable e : encoding.
Hypothesis Hok : enc_ok e = true.
Variables (c : Z) (b : bytes).
Hypothesis Hc1 : is_symbol e c = false.
Hypothesis Hc2 : is_newline c = false.
Hypothesis Hc3 : is_pad e c = false.

Definition symnl (a : bytes) : Prop := forallb (fun x => is_symbol e x || is_newline x) a = true.

Lemma dq_bad room srclen : forall a si j dbuf nsi o err, symnl a ->
  dq_loop e room srclen (a ++ c :: b) si j dbuf = QOk nsi o err ->
  err = Some (si + lenZ a) \/
  (err = None /\ exists a1 a2, a = a1 ++ a2 /\ nsi = si + lenZ a1 /\ symnl a2).
Proof.
  assert (Hd : dmap e c =? 255 = true).
  { unfold is_symbol in Hc1. apply negb_false_iff in Hc1. exact Hc1. }
  induction a as [|x a IH]; intros si j dbuf nsi o err Ha H.
  - destruct (Nat.eqb j 4) eqn:Ej.
    + apply Nat.eqb_eq in Ej. subst j. apply dq_loop_4_inv in H. destruct H as [-> ->].
      right. split; [reflexivity|]. exists [], []. rewrite lenZ_nil. repeat split; auto. lia.
    + cbn [app dq_loop] in H. rewrite Ej in H. cbv zeta in H. rewrite Hd, Hc2, Hc3 in H. cbn [negb] in H.
      inversion H; subst. left. f_equal. rewrite lenZ_nil. lia.
  - unfold symnl in Ha. cbn [forallb] in Ha. apply andb_true_iff in Ha. destruct Ha as [Hx Ha].
    destruct (Nat.eqb j 4) eqn:Ej.
    + apply Nat.eqb_eq in Ej. subst j. apply dq_loop_4_inv in H. destruct H as [-> ->].
      right. split; [reflexivity|]. exists [], (x :: a). rewrite lenZ_nil. repeat split; auto. lia.
      unfold symnl. cbn [forallb]. rewrite Hx, Ha. reflexivity.
    + cbn [app dq_loop] in H. rewrite Ej in H. cbv zeta in H.
      assert (Hshift : forall j' dbuf', dq_loop e room srclen (a ++ c :: b) (si + 1) j' dbuf' = QOk nsi o err ->
        err = Some (si + lenZ (x :: a)) \/
        (err = None /\ exists a1 a2, x :: a = a1 ++ a2 /\ nsi = si + lenZ a1 /\ symnl a2)).
      { intros j' dbuf' H'. apply IH in H'; [|exact Ha]. rewrite lenZ_cons.
        destruct H' as [H'|(H' & a1 & a2 & E1 & E2 & E3)].
        - left. rewrite H'. f_equal. lia.
        - right. split; [exact H'|]. exists (x :: a1), a2. rewrite lenZ_cons. subst a. repeat split; auto. lia. }
      unfold is_symbol in Hx. destruct (dmap e x =? 255) eqn:Edx; cbn [negb orb] in H, Hx.
      * rewrite Hx in H. eapply Hshift. exact H.
      * eapply Hshift. exact H.
Qed.

Lemma bad_loop src f : (Z.to_nat (lenZ src) + 1 <= f)%nat ->
  forall m a si out, (length a <= m)%nat -> symnl a -> 0 <= si ->
  skipn (Z.to_nat si) src = a ++ c :: b -> Inv src (lenZ out) si -> si + lenZ a + 1 + lenZ b = lenZ src ->
  exists o, dec_loop f e (DecodedLen e (lenZ src)) src 3 si out = DOk o (Some (si + lenZ a)).
Proof.
  intros Hf. induction m as [|m IH]; intros a si out Hm Ha Hsi Hs HI Hlen;
  pose proof (lenZ_nonneg a) as Hna; pose proof (lenZ_nonneg b) as Hnb;
  (destruct (slow_unfold e src Hok f si out Hf ltac:(lia) HI) as (nsi & o & err & E & B1 & B2 & B4 & U));
  rewrite U; (destruct (Z.ltb_spec si (lenZ src)) as [Hlt|Hge]; [|lia]);
  unfold decodeQuantum in E; rewrite Hs in E; apply dq_bad in E; try exact Ha;
  (destruct E as [E|(E & a1 & a2 & E1 & E2 & E3)]; [subst err; eexists; reflexivity|]).
  - exfalso. destruct a; [|cbn [length] in Hm; lia]. destruct a1; [|discriminate].
    rewrite lenZ_nil in E2. lia.
  - subst err. subst a. rewrite lenZ_app in Hlen, Hna |- *. pose proof (lenZ_nonneg a1). pose proof (lenZ_nonneg a2).
    rewrite <- app_assoc in Hs. apply skipn_consumed in Hs; [|lia]. rewrite <- E2 in Hs.
    assert (Hm2 : (length a2 <= m)%nat).
    { rewrite app_length in Hm. assert (0 < lenZ a1) by lia. unfold lenZ in *. lia. }
    destruct (IH a2 nsi (out ++ o) Hm2 E3 ltac:(lia) Hs (B4 eq_refl) ltac:(lia)) as (o' & Eo).
    exists o'. rewrite Eo. f_equal. f_equal. lia.
Qed.
End Bad.

Theorem bad_symbol_slow : forall e a c b, enc_ok e = true ->
  forallb (fun x => is_symbol e x || is_newline x) a = true ->
  is_symbol e c = false -> is_newline c = false -> is_pad e c = false ->
  exists out, decode_slow e (a ++ c :: b) = DOk out (Some (Z.of_nat (length a))).
Proof.
  intros e a c b Hok Ha H1 H2 H3. unfold decode_slow.
  destruct (a ++ c :: b) as [|x t] eqn:Et; [destruct a; discriminate|]. rewrite <- Et.
  set (src := a ++ c :: b).
  assert (Hf : (Z.to_nat (lenZ src) + 1 <= length src + 4)%nat) by (unfold lenZ; lia).
  assert (HI : Inv src (lenZ []) 0) by (left; split; [reflexivity|rewrite lenZ_nil; lia]).
  assert (Hl : 0 + lenZ a + 1 + lenZ b = lenZ src) by (subst src; rewrite lenZ_app, lenZ_cons; lia).
  destruct (bad_loop e Hok c b H1 H2 H3 src (length src + 4) Hf (length a) a 0 [] (le_n _) Ha ltac:(lia) eq_refl HI Hl)
    as (o & Eo).
  exists o. fold (lenZ src). rewrite Eo. reflexivity.
Qed.

(* ---------- closed forms of dq_finish ---------- *)
Lemma dq_finish_4 e room d0 d1 d2 d3 s err :
  0 <= d0 < 64 -> 0 <= d1 < 64 -> 0 <= d2 < 64 -> 0 <= d3 < 64 ->
  dq_finish e room [d0; d1; d2; d3] 4 s err =
  if room <? 3 then QPanic
  else QOk s [d0 + 64 * (d1 mod 4); d1 / 4 + 16 * (d2 mod 16); d2 / 16 + 4 * d3] err.
Proof.
  intros H0 H1 H2 H3. unfold dq_finish. cbv zeta. cbn [nth]. change (4 =? 4) with true. cbv iota.
  rewrite dq0_closed, dq1_closed, dq2_closed by assumption. reflexivity.
Qed.

Lemma dq_finish_3 e room d0 d1 d2 s err :
  0 <= d0 < 64 -> 0 <= d1 < 64 -> 0 <= d2 < 64 ->
  dq_finish e room [d0; d1; d2] 3 s err =
  if room <? 2 then QPanic
  else if e_strict e && negb (d2 / 16 =? 0) then QOk s [] (Some (s - 1))
  else QOk s [d0 + 64 * (d1 mod 4); d1 / 4 + 16 * (d2 mod 16)] err.
Proof.
  intros H0 H1 H2. unfold dq_finish. cbv zeta. cbn [nth].
  change (3 =? 4) with false. change (3 =? 3) with true. cbv iota.
  rewrite dq0_closed, dq1_closed, dq2_closed by (assumption || lia).
  replace (d2 / 16 + 4 * 0) with (d2 / 16) by lia. reflexivity.
Qed.

Lemma dq_finish_2 e room d0 d1 s err :
  0 <= d0 < 64 -> 0 <= d1 < 64 ->
  dq_finish e room [d0; d1] 2 s err =
  if room <? 1 then QPanic
  else if e_strict e && negb (d1 / 4 =? 0) then QOk s [] (Some (s - 2))
  else QOk s [d0 + 64 * (d1 mod 4)] err.
Proof.
  intros H0 H1. unfold dq_finish. cbv zeta. cbn [nth].
  change (2 =? 4) with false. change (2 =? 3) with false. change (2 =? 2) with true. cbv iota.
  rewrite dq0_closed, dq1_closed, dq2_closed by (assumption || lia).
  change (0 mod 16) with 0. change (0 / 16 + 4 * 0) with 0. change (0 =? 0) with true.
  replace (d1 / 4 + 16 * 0) with (d1 / 4) by lia. cbn [negb]. rewrite orb_false_r. reflexivity.
Qed.

(* ---------- stripping newlines vs. the scanner ---------- *)
Lemma strip_nl_cons_nl c r : is_newline c = true -> strip_nl (c :: r) = strip_nl r.
Proof. intros H. unfold strip_nl. cbn [filter]. rewrite H. reflexivity. Qed.
Lemma strip_nl_cons c r : is_newline c = false -> strip_nl (c :: r) = c :: strip_nl r.
Proof. intros H. unfold strip_nl. cbn [filter]. rewrite H. reflexivity. Qed.
Lemma strip_nl_app a b : strip_nl (a ++ b) = strip_nl a ++ strip_nl b.
Proof. unfold strip_nl. apply filter_app. Qed.
Lemma strip_nl_newlines nls : forallb is_newline nls = true -> strip_nl nls = [].
Proof.
  induction nls as [|c r IH]; [reflexivity|]. cbn [forallb]. intros H. apply andb_true_iff in H.
  destruct H as [H1 H2]. rewrite strip_nl_cons_nl by exact H1. auto.
Qed.
Lemma strip_nl_nil_inv r : strip_nl r = [] -> forallb is_newline r = true.
Proof.
  induction r as [|c r IH]; [reflexivity|]. intros H. destruct (is_newline c) eqn:En.
  - rewrite strip_nl_cons_nl in H by exact En. cbn [forallb]. rewrite En. auto.
  - rewrite strip_nl_cons in H by exact En. discriminate.
Qed.

Section Scan.
Variable e : encoding.
Hypothesis Hok : enc_ok e = true.

Lemma sym_char_not_nl x : dmap e x <> 255 -> is_newline x = false.
Proof. intros H. destruct (is_newline x) eqn:E; [|reflexivity]. apply (dmap_newline e Hok) in E. contradiction. Qed.

Lemma strip_first rest : forall x more, strip_nl rest = x :: more ->
  exists nls r', rest = nls ++ x :: r' /\ strip_nl r' = more /\ forallb is_newline nls = true /\ is_newline x = false.
Proof.
  induction rest as [|c r IH]; intros x more H; [discriminate|].
  destruct (is_newline c) eqn:En.
  - rewrite strip_nl_cons_nl in H by exact En. destruct (IH _ _ H) as (nls & r' & E1 & E2 & E3 & E4).
    exists (c :: nls), r'. subst r. cbn [forallb app]. rewrite En, E3. auto.
  - rewrite strip_nl_cons in H by exact En. inversion H; subst. exists [], r. auto.
Qed.

Lemma nxt_newlines nls : forall r si, forallb is_newline nls = true ->
  nxt e (nls ++ r) si = nxt e r (si + lenZ nls).
Proof.
  induction nls as [|c nls IH]; intros r si H.
  - rewrite lenZ_nil. cbn [app]. f_equal. lia.
  - cbn [forallb] in H. apply andb_true_iff in H. destruct H as [H1 H2].
    cbn [app nxt]. rewrite (dmap_newline e Hok c H1). change (255 =? 255) with true. cbn [negb]. rewrite H1.
    rewrite IH by exact H2. rewrite lenZ_cons. f_equal. lia.
Qed.

Lemma skip_newlines nls : forall r si, forallb is_newline nls = true ->
  skip_nl (nls ++ r) si = skip_nl r (si + lenZ nls).
Proof.
  induction nls as [|c nls IH]; intros r si H.
  - rewrite lenZ_nil. cbn [app]. f_equal. lia.
  - cbn [forallb] in H. apply andb_true_iff in H. destruct H as [H1 H2].
    cbn [app skip_nl]. rewrite H1. rewrite IH by exact H2. rewrite lenZ_cons. f_equal. lia.
Qed.

Lemma nxt_strip_sym rest si x more : strip_nl rest = x :: more -> dmap e x <> 255 ->
  exists nls r', rest = nls ++ x :: r' /\ strip_nl r' = more /\
                 nxt e rest si = NSym (dmap e x) x r' (si + lenZ nls + 1).
Proof.
  intros H Hx. destruct (strip_first rest x more H) as (nls & r' & E1 & E2 & E3 & E4).
  exists nls, r'. split; [exact E1|]. split; [exact E2|]. subst rest.
  rewrite nxt_newlines by exact E3. cbn [nxt]. apply Z.eqb_neq in Hx. rewrite Hx. reflexivity.
Qed.

Lemma nxt_strip_pad rest si x more : strip_nl rest = x :: more -> is_pad e x = true ->
  exists nls r', rest = nls ++ x :: r' /\ strip_nl r' = more /\
                 nxt e rest si = NPad r' (si + lenZ nls + 1).
Proof.
  intros H Hx. destruct (strip_first rest x more H) as (nls & r' & E1 & E2 & E3 & E4).
  exists nls, r'. split; [exact E1|]. split; [exact E2|]. subst rest.
  rewrite nxt_newlines by exact E3. cbn [nxt]. rewrite (dmap_pad e Hok x Hx). change (255 =? 255) with true.
  cbn [negb]. rewrite E4, Hx. reflexivity.
Qed.

Lemma nxt_strip_end rest si : strip_nl rest = [] -> nxt e rest si = NEnd (si + lenZ rest).
Proof.
  intros H. apply strip_nl_nil_inv in H. rewrite <- (app_nil_r rest) at 1.
  rewrite nxt_newlines by exact H. reflexivity.
Qed.

Lemma skip_strip_cons rest si x more : strip_nl rest = x :: more ->
  exists nls r', rest = nls ++ x :: r' /\ strip_nl r' = more /\ skip_nl rest si = (x :: r', si + lenZ nls).
Proof.
  intros H. destruct (strip_first rest x more H) as (nls & r' & E1 & E2 & E3 & E4).
  exists nls, r'. split; [exact E1|]. split; [exact E2|]. subst rest.
  rewrite skip_newlines by exact E3. cbn [skip_nl]. rewrite E4. reflexivity.
Qed.

Lemma skip_strip_nil rest si : strip_nl rest = [] -> skip_nl rest si = ([], si + lenZ rest).
Proof.
  intros H. apply strip_nl_nil_inv in H. rewrite <- (app_nil_r rest) at 1.
  rewrite skip_newlines by exact H. reflexivity.
Qed.

Lemma dq_sym_step room srclen rest si j dbuf x more :
  Nat.eqb j 4 = false -> strip_nl rest = x :: more -> dmap e x <> 255 ->
  exists nls r', rest = nls ++ x :: r' /\ strip_nl r' = more /\
    dq_loop e room srclen rest si j dbuf = dq_loop e room srclen r' (si + lenZ nls + 1) (S j) (dbuf ++ [dmap e x]).
Proof.
  intros Hj H Hx. destruct (nxt_strip_sym rest si x more H Hx) as (nls & r' & E1 & E2 & E3).
  exists nls, r'. split; [exact E1|]. split; [exact E2|].
  rewrite dq_loop_step by exact Hj. rewrite E3. reflexivity.
Qed.
End Scan.

Lemma skipn_consumed1 (src : bytes) si nls x r' :
  0 <= si -> skipn (Z.to_nat si) src = nls ++ x :: r' ->
  skipn (Z.to_nat (si + lenZ nls + 1)) src = r'.
Proof.
  intros Hsi H. replace (nls ++ x :: r') with ((nls ++ [x]) ++ r') in H by (rewrite <- app_assoc; reflexivity).
  apply skipn_consumed in H; [|exact Hsi]. rewrite lenZ_app in H.
  replace (si + lenZ nls + 1) with (si + (lenZ nls + lenZ [x])) by (unfold lenZ; cbn [length]; lia). exact H.
Qed.
