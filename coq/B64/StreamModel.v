(* Model of the streaming side of hash/base64le: encoder.Write/Close against a writer script, and
   decoder.Read + newlineFilteringReader against a reader script.  Definitions only. *)
Require Import GC.Base.Bytes GC.B64.B64Model.

(* errors are opaque tokens; EOF and ErrUnexpectedEOF are distinguished *)
Inductive ioerr := EOF | UnexpectedEOF | ErrTok (n : nat) | Corrupt (off : Z).

(* ---------------- encoder ---------------- *)
(* one underlying w.Write call: accept everything, or take the first k bytes and fail *)
Inductive wresp := WOk | WFail (k : nat) (e : ioerr).

Record enc_st := { es_buf : bytes;            (* e.buf[:e.nbuf] *)
                   es_err : option ioerr;
                   es_script : list wresp;     (* responses of the calls still to come (none left = accept) *)
                   es_written : bytes }.       (* what reached the underlying writer so far *)

(* _, e.err = e.w.Write(data) *)
Definition w_write (s : enc_st) (data : bytes) : enc_st :=
  match es_script s with
  | [] | WOk :: _ =>
    {| es_buf := es_buf s; es_err := None; es_script := tl (es_script s); es_written := es_written s ++ data |}
  | WFail k e :: r =>
    {| es_buf := es_buf s; es_err := Some e; es_script := r; es_written := es_written s ++ firstn k data |}
  end.

Definition set_buf (s : enc_st) (b : bytes) : enc_st :=
  {| es_buf := b; es_err := es_err s; es_script := es_script s; es_written := es_written s |}.

(* the loop "for len(p) >= 3": chunks of at most 768 bytes (a multiple of 3); fuel = len(p) *)
Fixpoint write_bulk (fuel : nat) (e : encoding) (s : enc_st) (p : bytes) (n : nat) : enc_st * nat * option ioerr :=
  match fuel with
  | O => (s, n, None)
  | S f =>
    if Nat.ltb (length p) 3%nat then (set_buf s p, n + length p, None)%nat
    else
      let nn := if Nat.ltb (length p) 768%nat then (length p - Nat.modulo (length p) 3%nat)%nat else 768%nat in
      let s1 := w_write s (encode e (firstn nn p)) in
      match es_err s1 with
      | Some err => (s1, n, Some err)
      | None => write_bulk f e s1 (skipn nn p) (n + nn)
      end
  end.

(* Write(p): returns the new state, n, err *)
Definition enc_write (e : encoding) (s : enc_st) (p : bytes) : enc_st * nat * option ioerr :=
  match es_err s with
  | Some err => (s, O, Some err)
  | None =>
    match es_buf s with
    | [] => write_bulk (S (length p)) e s p O
    | b =>
      let take := Nat.min (length p) (3%nat - length b)%nat in
      let b' := b ++ firstn take p in
      let p' := skipn take p in
      if Nat.ltb (length b') 3%nat then (set_buf s b', take, None)
      else
        let s1 := w_write s (encode e b') in
        match es_err s1 with
        | Some err => (s1, take, Some err)
        | None => write_bulk (S (length p')) e (set_buf s1 []) p' take
        end
    end
  end.

Definition enc_close (e : encoding) (s : enc_st) : enc_st * option ioerr :=
  match es_err s, es_buf s with
  | None, (_ :: _) as b => let s1 := set_buf (w_write s (encode e b)) [] in (s1, es_err s1)
  | _, _ => (s, es_err s)
  end.

Definition enc_init (script : list wresp) : enc_st :=
  {| es_buf := []; es_err := None; es_script := script; es_written := [] |}.

(* a whole session: Write every chunk, then Close; returns the state and the error results of the calls *)
Fixpoint enc_run (e : encoding) (s : enc_st) (chunks : list bytes) (acc : list (option ioerr)) : enc_st * list (option ioerr) :=
  match chunks with
  | [] => let '(s1, r) := enc_close e s in (s1, acc ++ [r])
  | c :: r => let '(s1, _, err) := enc_write e s c in enc_run e s1 r (acc ++ [err])
  end.

(* ---------------- reader side ---------------- *)
(* one event of the wrapped reader: some data, possibly together with an error; data longer than the
   caller's buffer is delivered over several reads, the error with the last piece; an exhausted script
   answers (0, EOF) *)
Definition revent := (bytes * option ioerr)%type.

Definition r_read (script : list revent) (m : nat) : bytes * option ioerr * list revent :=
  match script with
  | [] => ([], Some EOF, [])
  | (d, err) :: r =>
    if Nat.leb (length d) m then (d, err, r)
    else (firstn m d, None, (skipn m d, err) :: r)
  end.

(* newlineFilteringReader.Read(p) with len(p) = m; fuel bounds the re-reads after all-newline chunks *)
Fixpoint nl_read (fuel : nat) (script : list revent) (m : nat) : bytes * option ioerr * list revent :=
  let '(d, err, r) := r_read script m in
  match fuel with
  | O => (filter (fun c => negb (is_newline c)) d, err, r)
  | S f =>
    match d with
    | [] => ([], err, r)
    | _ =>
      let kept := filter (fun c => negb (is_newline c)) d in
      match err, kept with
      | None, [] => nl_read f r m                      (* entirely whitespace, no error: read again *)
      | _, _ => (kept, err, r)
      end
    end
  end.

Definition script_size (script : list revent) : nat :=
  fold_right (fun ev a => (S (length (fst ev)) + a)%nat) O script.

(* ---------------- decoder ---------------- *)
Record dec_st := { ds_buf : bytes;             (* d.buf[:d.nbuf] *)
                   ds_out : bytes;             (* leftover decoded output *)
                   ds_err : option ioerr;
                   ds_rerr : option ioerr;     (* d.readErr *)
                   ds_script : list revent }.

Definition dec_init (script : list revent) : dec_st :=
  {| ds_buf := []; ds_out := []; ds_err := None; ds_rerr := None; ds_script := script |}.

Definition derr_of (r : dres) : bytes * option ioerr :=
  match r with
  | DOk out None => (out, None)
  | DOk out (Some k) => (out, Some (Corrupt k))
  | _ => ([], Some (ErrTok 999))
  end.

(* the refill loop: for d.nbuf < 4 && d.readErr == nil *)
Fixpoint refill (fuel : nat) (plen : nat) (s : dec_st) : dec_st :=
  match fuel with
  | O => s
  | S f =>
    if Nat.ltb (length (ds_buf s)) 4%nat && (match ds_rerr s with None => true | _ => false end) then
      let nn0 := (plen / 3 * 4)%nat in
      let nn := if Nat.ltb nn0 4%nat then 4%nat else if Nat.ltb 1024%nat nn0 then 1024%nat else nn0 in
      let '(d, err, script') := nl_read (script_size (ds_script s)) (ds_script s) (nn - length (ds_buf s)) in
      refill f plen {| ds_buf := ds_buf s ++ d; ds_out := ds_out s; ds_err := ds_err s; ds_rerr := err;
                       ds_script := script' |}
    else s
  end.

(* Read(p) with len(p) = plen: delivered bytes, error, new state *)
Definition dec_read (e : encoding) (s : dec_st) (plen : nat) : bytes * option ioerr * dec_st :=
  match ds_out s with
  | _ :: _ =>
    (firstn plen (ds_out s), None,
     {| ds_buf := ds_buf s; ds_out := skipn plen (ds_out s); ds_err := ds_err s; ds_rerr := ds_rerr s; ds_script := ds_script s |})
  | [] =>
    match ds_err s with
    | Some err => ([], Some err, s)
    | None =>
      let s1 := refill (S (script_size (ds_script s))) plen s in
      let nbuf := length (ds_buf s1) in
      if Nat.ltb nbuf 4%nat then
        let tail_done (s2 : dec_st) (buf_left : nat) : bytes * option ioerr * dec_st :=
          let err := match ds_rerr s2 with
                     | Some EOF => if Nat.ltb 0%nat buf_left then Some UnexpectedEOF else Some EOF
                     | x => x
                     end in
          ([], err, {| ds_buf := ds_buf s2; ds_out := ds_out s2; ds_err := err; ds_rerr := ds_rerr s2; ds_script := ds_script s2 |}) in
        match e_pad e, ds_buf s1 with
        | None, (_ :: _) as b =>
          let '(out, derr) := derr_of (decode_raw e 768 b) in
          let give := firstn plen out in
          let s2 := {| ds_buf := []; ds_out := skipn plen out; ds_err := derr; ds_rerr := ds_rerr s1; ds_script := ds_script s1 |} in
          if Nat.ltb 0%nat (length give) || (Nat.eqb plen 0%nat && Nat.ltb 0%nat (length (ds_out s2))) then (give, None, s2)
          else match derr with
               | Some x => ([], Some x, s2)
               | None => tail_done s2 0%nat
               end
        | _, _ => tail_done s1 nbuf
        end
      else
        let nr := (nbuf / 4 * 4)%nat in
        let nw := (nbuf / 4 * 3)%nat in
        let '(out, derr) :=
          if Nat.ltb plen nw then derr_of (decode_raw e 768 (firstn nr (ds_buf s1)))
          else derr_of (decode_raw e (Z.of_nat plen) (firstn nr (ds_buf s1))) in
        if Nat.ltb plen nw then
          (firstn plen out, derr,
           {| ds_buf := skipn nr (ds_buf s1); ds_out := skipn plen out; ds_err := derr; ds_rerr := ds_rerr s1; ds_script := ds_script s1 |})
        else
          (out, derr,
           {| ds_buf := skipn nr (ds_buf s1); ds_out := []; ds_err := derr; ds_rerr := ds_rerr s1; ds_script := ds_script s1 |})
    end
  end.

(* a whole session: Read with the given buffer sizes until an error is returned or the sizes run out *)
Fixpoint dec_run (e : encoding) (s : dec_st) (sizes : list nat) (acc : bytes) : bytes * option ioerr :=
  match sizes with
  | [] => (acc, None)
  | m :: r =>
    let '(d, err, s1) := dec_read e s m in
    match err with
    | Some x => (acc ++ d, Some x)
    | None => dec_run e s1 r (acc ++ d)
    end
  end.
