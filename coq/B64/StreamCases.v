Require Import GC.Base.Bytes GC.Base.CaseLib GC.B64.B64Model GC.B64.B64Cases GC.B64.StreamModel.

Definition ioerr_eqb (a b : ioerr) : bool :=
  match a, b with
  | EOF, EOF | UnexpectedEOF, UnexpectedEOF => true
  | ErrTok x, ErrTok y => Nat.eqb x y
  | Corrupt x, Corrupt y => x =? y
  | _, _ => false
  end.

(* encoder case: encoding, writer script, chunks; observed: bytes that reached the writer and the error
   returned by every Write and by Close *)
Definition ok_stream_enc (alphas : list bytes)
  (c : (nat * option Z * bool) * list wresp * list bytes * (bytes * list (option ioerr))) : bool :=
  let '((a, p, st), script, chunks, (w, errs)) := c in
  let '(s, r) := enc_run (mk_enc (nth a alphas []) p st) (enc_init script) chunks [] in
  bytes_eqb (es_written s) w && list_eqb (opt_eqb ioerr_eqb) r errs.

(* decoder case: encoding, reader script, caller buffer sizes; observed: all bytes delivered and the error
   that ended the session (None if the sizes ran out first) *)
Definition ok_stream_dec (alphas : list bytes)
  (c : (nat * option Z * bool) * list revent * list Z * (bytes * option ioerr)) : bool :=
  let '((a, p, st), script, sizes, (out, err)) := c in
  let '(o, e) := dec_run (mk_enc (nth a alphas []) p st) (dec_init script) (map Z.to_nat sizes) [] in
  bytes_eqb o out && opt_eqb ioerr_eqb e err.
