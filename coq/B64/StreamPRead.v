(* Reader side of the streaming decoder: r_read, nl_read (newlineFilteringReader) and the refill loop,
   for scripts that carry at most one error, on their last event. *)
Require Import GC.Base.Bytes GC.B64.B64Model GC.B64.B64Spec GC.B64.StreamModel.
Require Import GC.B64.B64Roundtrip.

Arguments Nat.div : simpl never. Arguments Nat.modulo : simpl never.
Local Open Scope nat_scope.

(* the stripped text still to come from a script *)
Definition stext (script : list revent) : bytes := strip_nl (concat (map fst script)).

(* [sends script x]: no event carries an error except possibly the last one, which then carries x;
   a script without any error ends with the (0, EOF) answers of an exhausted script, so x = EOF *)
Fixpoint sends (script : list revent) (x : ioerr) : Prop :=
  match script with
  | [] => x = EOF
  | (d, None) :: r => sends r x
  | (d, Some y) :: r => r = [] /\ y = x
  end.

Lemma stext_nil : stext [] = [].
Proof. reflexivity. Qed.

Lemma stext_cons d err r : stext ((d, err) :: r) = strip_nl d ++ stext r.
Proof. unfold stext. cbn [map fst concat]. apply strip_nl_app. Qed.

Lemma strip_nl_length t : length (strip_nl t) <= length t.
Proof.
  induction t as [|c t IH]; [reflexivity|]. unfold strip_nl in *. cbn [filter].
  destruct (negb (is_newline c)); cbn [length]; lia.
Qed.

Lemma script_size_cons d err r : script_size ((d, err) :: r) = S (length d + script_size r).
Proof. reflexivity. Qed.

Lemma script_size_0 script : script_size script = 0 -> script = [].
Proof. destruct script as [|[d err] r]; [reflexivity|]. rewrite script_size_cons. lia. Qed.

(* ---------------- one read of the wrapped reader ---------------- *)
Lemma r_read_spec script m x d err script' : sends script x -> 1 <= m ->
  r_read script m = (d, err, script') ->
  strip_nl d ++ stext script' = stext script /\ length d <= m /\
  ((err = None /\ sends script' x) \/ (err = Some x /\ script' = [])) /\
  script_size script' <= script_size script /\
  (script <> [] -> script_size script' < script_size script) /\
  (script = [] -> d = [] /\ err = Some x).
Proof.
  intros Hs Hm H. unfold r_read in H. destruct script as [|[d0 e0] r].
  - inversion H; subst d err script'. cbn [sends] in Hs. subst x.
    split; [reflexivity|]. split; [cbn [length]; lia|]. split; [right; auto|].
    split; [lia|]. split; [intros C; contradiction|auto].
  - destruct (Nat.leb (length d0) m) eqn:El.
    + apply Nat.leb_le in El. inversion H; subst d err script'. rewrite stext_cons.
      split; [reflexivity|]. split; [exact El|]. rewrite script_size_cons. split.
      * destruct e0 as [y|]; cbn [sends] in Hs.
        -- destruct Hs as [-> ->]. right. auto.
        -- left. auto.
      * split; [lia|]. split; [intros _; lia|discriminate].
    + apply Nat.leb_gt in El. inversion H; subst d err script'. rewrite !stext_cons.
      split.
      * rewrite app_assoc, <- strip_nl_app, firstn_skipn. reflexivity.
      * split; [rewrite firstn_length; lia|]. split.
        -- left. split; [reflexivity|]. destruct e0; exact Hs.
        -- rewrite !script_size_cons, skipn_length. split; [lia|]. split; [intros _; lia|discriminate].
Qed.

(* ---------------- newlineFilteringReader.Read ---------------- *)
Lemma nl_read_spec x m : 1 <= m -> forall fuel script d err script',
  script_size script <= fuel -> sends script x ->
  nl_read fuel script m = (d, err, script') ->
  d ++ stext script' = stext script /\ length d <= m /\
  ((err = None /\ sends script' x) \/ (err = Some x /\ script' = [])) /\
  script_size script' <= script_size script /\
  (script <> [] -> script_size script' < script_size script) /\
  (script = [] -> err = Some x).
Proof.
  intros Hm. induction fuel as [|f IH]; intros script d err script' Hf Hs H.
  - assert (script = []) by (apply script_size_0; lia). subst script.
    cbn [nl_read r_read] in H. cbn [filter] in H. inversion H; subst d err script'.
    cbn [sends] in Hs. subst x. split; [reflexivity|]. split; [cbn [length]; lia|].
    split; [right; auto|]. split; [lia|]. split; [intros C; contradiction|auto].
  - cbn [nl_read] in H. destruct (r_read script m) as [[d0 e0] r0] eqn:Er.
    destruct (r_read_spec script m x d0 e0 r0 Hs Hm Er) as (R1 & R2 & R3 & R4 & R5 & R6).
    destruct d0 as [|c0 d0'].
    + inversion H; subst d err script'. split; [exact R1|]. split; [cbn [length]; lia|].
      split; [exact R3|]. split; [exact R4|]. split; [exact R5|].
      intros E. apply R6. exact E.
    + assert (Hne : script <> []).
      { intros E. destruct (R6 E) as [C _]. discriminate. }
      clear R6. remember (c0 :: d0') as d0 eqn:Ed0.
      change (filter (fun c : Z => negb (is_newline c)) d0) with (strip_nl d0) in H.
      specialize (R5 Hne).
      assert (Hdirect : (strip_nl d0, e0, r0) = (d, err, script') ->
        d ++ stext script' = stext script /\ length d <= m /\
        ((err = None /\ sends script' x) \/ (err = Some x /\ script' = [])) /\
        script_size script' <= script_size script /\
        (script <> [] -> script_size script' < script_size script) /\
        (script = [] -> err = Some x)).
      { intros H'. inversion H'; subst d err script'. split; [exact R1|].
        split; [pose proof (strip_nl_length d0); lia|]. split; [exact R3|]. split; [exact R4|].
        split; [auto|]. intros E. contradiction. }
      destruct e0 as [y|]; [apply Hdirect; exact H|].
      destruct (strip_nl d0) as [|k0 kr] eqn:Ek; [|apply Hdirect; exact H].
      destruct R3 as [[_ Hs0]|[C _]]; [|discriminate].
      destruct (IH r0 d err script' ltac:(lia) Hs0 H) as (I1 & I2 & I3 & I4 & I5 & I6).
      split; [rewrite I1; exact R1|]. split; [exact I2|]. split; [exact I3|].
      split; [lia|]. split; [intros _; lia|]. intros E. contradiction.
Qed.

(* ---------------- the refill loop ---------------- *)
Definition nnof (plen : nat) : nat :=
  let nn0 := (plen / 3 * 4)%nat in
  if Nat.ltb nn0 4%nat then 4%nat else if Nat.ltb 1024%nat nn0 then 1024%nat else nn0.

Lemma nnof_range plen : 4 <= nnof plen <= 1024.
Proof.
  unfold nnof. cbv zeta. destruct (Nat.ltb (plen / 3 * 4) 4) eqn:E1; [lia|].
  apply Nat.ltb_ge in E1. destruct (Nat.ltb 1024 (plen / 3 * 4)) eqn:E2; [lia|].
  apply Nat.ltb_ge in E2. lia.
Qed.

Lemma refill_S f plen s :
  refill (S f) plen s =
  if Nat.ltb (length (ds_buf s)) 4%nat && (match ds_rerr s with None => true | _ => false end) then
    let '(d, err, script') := nl_read (script_size (ds_script s)) (ds_script s) (nnof plen - length (ds_buf s)) in
    refill f plen {| ds_buf := ds_buf s ++ d; ds_out := ds_out s; ds_err := ds_err s; ds_rerr := err;
                     ds_script := script' |}
  else s.
Proof. reflexivity. Qed.

Definition rinv (x : ioerr) (s : dec_st) : Prop :=
  (ds_rerr s = None /\ sends (ds_script s) x) \/ (ds_rerr s = Some x /\ ds_script s = []).

Lemma refill_spec x plen : forall fuel s,
  rinv x s -> (script_size (ds_script s) < fuel \/ ds_rerr s <> None) ->
  rinv x (refill fuel plen s) /\
  ds_out (refill fuel plen s) = ds_out s /\ ds_err (refill fuel plen s) = ds_err s /\
  ds_buf (refill fuel plen s) ++ stext (ds_script (refill fuel plen s)) = ds_buf s ++ stext (ds_script s) /\
  (4 <= length (ds_buf (refill fuel plen s)) \/ ds_rerr (refill fuel plen s) <> None) /\
  length (ds_buf (refill fuel plen s)) <= Nat.max (length (ds_buf s)) (nnof plen).
Proof.
  pose proof (nnof_range plen) as Hnn.
  induction fuel as [|f IH]; intros s Hr Hf.
  - cbn [refill]. destruct Hf as [Hf|Hf]; [lia|].
    split; [exact Hr|]. split; [reflexivity|]. split; [reflexivity|]. split; [reflexivity|].
    split; [right; exact Hf|lia].
  - rewrite refill_S.
    destruct (Nat.ltb (length (ds_buf s)) 4) eqn:El; cbn [andb].
    2:{ apply Nat.ltb_ge in El. split; [exact Hr|]. split; [reflexivity|]. split; [reflexivity|].
        split; [reflexivity|]. split; [left; exact El|lia]. }
    apply Nat.ltb_lt in El.
    destruct (ds_rerr s) as [y|] eqn:Ey.
    { split; [exact Hr|]. split; [reflexivity|]. split; [reflexivity|]. split; [reflexivity|].
      split; [right; rewrite Ey; discriminate|lia]. }
    destruct Hr as [[_ Hs]|[C _]]; [|congruence].
    destruct (nl_read (script_size (ds_script s)) (ds_script s) (nnof plen - length (ds_buf s)))
      as [[d err] script'] eqn:En.
    destruct (nl_read_spec x (nnof plen - length (ds_buf s)) ltac:(lia) _ _ d err script' (le_n _) Hs En)
      as (N1 & N2 & N3 & N4 & N5 & N6).
    set (s' := {| ds_buf := ds_buf s ++ d; ds_out := ds_out s; ds_err := ds_err s; ds_rerr := err;
                  ds_script := script' |}).
    assert (Hr' : rinv x s').
    { unfold rinv, s'; cbn [ds_rerr ds_script]. exact N3. }
    assert (Hf' : script_size (ds_script s') < f \/ ds_rerr s' <> None).
    { unfold s'; cbn [ds_rerr ds_script]. destruct err as [z|]; [right; discriminate|]. left.
      assert (Hne : ds_script s <> []). { intros E. specialize (N6 E). discriminate. }
      specialize (N5 Hne). destruct Hf as [Hf|Hf]; [lia|congruence]. }
    destruct (IH s' Hr' Hf') as (I1 & I2 & I3 & I4 & I5 & I6).
    split; [exact I1|]. split; [exact I2|]. split; [exact I3|].
    split.
    + rewrite I4. unfold s'; cbn [ds_buf ds_script]. rewrite <- app_assoc, N1. reflexivity.
    + split; [exact I5|]. change (length (ds_buf s')) with (length (ds_buf s ++ d)) in I6. rewrite app_length in I6. lia.
Qed.
