Require Import GC.Base.Bytes GC.Base.CaseLib GC.B64.B64Model.

(* observed: 0 = ok (out, no error), 1 = (out, corrupt offset) , 2 = panic *)
Definition dres_eqb (a : dres) (b : bytes * option Z) : bool :=
  match a with
  | DOk out err => bytes_eqb out (fst b) && opt_eqb Z.eqb err (snd b)
  | _ => false
  end.
Definition mk_enc (alpha : bytes) (pad : option Z) (strict : bool) : encoding :=
  {| e_alpha := alpha; e_pad := pad; e_strict := strict |}.
(* case: (alphabet id, pad, strict), src, observed encoding *)
Definition ok_encode (alphas : list bytes) (c : (nat * option Z * bool) * bytes * bytes) : bool :=
  let '((a, p, st), src, obs) := c in
  bytes_eqb (encode (mk_enc (nth a alphas []) p st) src) obs.
Definition ok_decode (alphas : list bytes) (c : (nat * option Z * bool) * bytes * (bytes * option Z)) : bool :=
  let '((a, p, st), src, obs) := c in
  dres_eqb (decode (mk_enc (nth a alphas []) p st) src) obs.
Definition ok_lens (c : (option Z) * Z * (Z * Z)) : bool :=
  let '(p, n, (el, dl)) := c in
  let e := mk_enc [] p false in (EncodedLen e n =? el) && (DecodedLen e n =? dl).

Require Import GC.B64.B64Spec.
(* computational tests of the C16 statements on one (encoding, text) *)
Definition test_fast_slow (e : encoding) (t : bytes) : bool :=
  match decode e t, decode_slow e t with
  | DOk a x, DOk b y => bytes_eqb a b && opt_eqb Z.eqb x y
  | _, _ => false
  end.
Definition test_accept (e : encoding) (t : bytes) : bool :=
  match decode e t with
  | DOk out None => accepted_ok e t out && wf_bytes out
  | DOk out (Some k) => (0 <=? k) && (k <=? Z.of_nat (length t))
  | _ => false
  end.
Definition test_roundtrip (e : encoding) (x : bytes) : bool :=
  match decode e (encode e x) with DOk out None => bytes_eqb out x | _ => false end
  && bytes_eqb (encode e x) (spec_encode e x)
  && (Z.of_nat (length (encode e x)) =? EncodedLen e (Z.of_nat (length x))).
