(* Model of hash/parse (lex.go, parse.go, node.go) — definitions only.
   Two lexers: [run_lexer] mirrors the Go state machine literally (positions, emit, fuel);
   [lex] is structurally recursive.  ParseProofs shows they agree with fuel (length s + 3),
   which is the termination argument of the Go loop. *)
Require Import GC.Base.Bytes.

Definition delims : bytes := [dollar; comma].
Definition is_delim (c : Z) : bool := (c =? dollar) || (c =? comma).

Inductive ttype := TError | TPrefix | TDollar | TComma | TValue | TEOF.
Record token := { t_type : ttype; t_pos : nat; t_val : bytes }.
(* for TError, t_val is the message: [0] "missing prefix identifier", [1] "missing prefix end" *)
Definition msg_no_ident : bytes := [0].
Definition msg_no_end : bytes := [1].

Definition ttype_eqb (a b : ttype) : bool :=
  match a, b with
  | TError, TError | TPrefix, TPrefix | TDollar, TDollar | TComma, TComma | TValue, TValue | TEOF, TEOF => true
  | _, _ => false
  end.

(* ------------------------------------------------------------------ *)
(* 1. literal mirror of lex.go                                         *)
(* ------------------------------------------------------------------ *)
Record lx := { l_pos : nat; l_start : nat; l_out : list token (* newest first: the channel's history *) }.

Definition emit (s : bytes) (ty : ttype) (l : lx) : lx :=
  {| l_pos := l_pos l; l_start := l_pos l;
     l_out := {| t_type := ty; t_pos := l_start l; t_val := slice s (l_start l) (l_pos l) |} :: l_out l |}.
Definition errorf (msg : bytes) (l : lx) : lx :=
  {| l_pos := l_pos l; l_start := l_start l;
     l_out := {| t_type := TError; t_pos := l_pos l; t_val := msg |} :: l_out l |}.
Definition set_pos (p : nat) (l : lx) : lx := {| l_pos := p; l_start := l_start l; l_out := l_out l |}.

Inductive lstate := SPrefix | SFragment | SStop.

Definition lexPrefix (s : bytes) (l : lx) : lstate * lx :=
  if has_prefix [dollar] (skipn (l_pos l) s) then
    let l1 := set_pos (l_pos l + 1) l in
    match index_any delims (skipn (l_pos l1) s) with
    | Some i =>
      if Nat.eqb i 0 then (SStop, errorf msg_no_ident l1)
      else (SFragment, emit s TPrefix (set_pos (l_pos l1 + (i + 1)) l1))
    | None => (SStop, errorf msg_no_end (set_pos (length s) l1))
    end
  else if has_prefix [underscore] (skipn (l_pos l) s) then
    (SFragment, emit s TPrefix (set_pos (l_pos l + 1) l))
  else (SFragment, l).

Definition lexFragment (s : bytes) (l : lx) : lstate * lx :=
  match index_any delims (skipn (l_pos l) s) with
  | Some i =>
    let l1 := emit s TValue (set_pos (l_pos l + i) l) in
    let c := nth (l_pos l1) s 0 in              (* l.Next() *)
    let l2 := set_pos (l_pos l1 + 1) l1 in
    let l3 := if c =? dollar then emit s TDollar l2
              else if c =? comma then emit s TComma l2 else l2 in
    (SFragment, l3)
  | None =>
    let l1 := set_pos (length s) l in
    let l2 := if Nat.ltb (l_start l1) (l_pos l1) then emit s TValue l1 else l1 in
    (SStop, emit s TEOF l2)
  end.

(* run(): iterate the state functions; None = fuel exhausted (the Go loop would not have ended) *)
Fixpoint run_lexer (fuel : nat) (s : bytes) (st : lstate) (l : lx) : option (list token) :=
  match st with
  | SStop => Some (rev (l_out l))
  | _ =>
    match fuel with
    | O => None
    | S f =>
      let '(st', l') := match st with SPrefix => lexPrefix s l | _ => lexFragment s l end in
      run_lexer f s st' l'
    end
  end.

Definition lex_go (s : bytes) : option (list token) :=
  run_lexer (length s + 3) s SPrefix {| l_pos := 0; l_start := 0; l_out := [] |}.

(* ------------------------------------------------------------------ *)
(* 2. structural lexer                                                 *)
(* ------------------------------------------------------------------ *)
Definition tok (ty : ttype) (p : nat) (v : bytes) : token := {| t_type := ty; t_pos := p; t_val := v |}.

(* cur: the current value reversed; start: where it began; pos: position of the next unread byte *)
Fixpoint lex_frag (cur : bytes) (start pos : nat) (r : bytes) : list token :=
  match r with
  | [] => (match cur with [] => [] | _ => [tok TValue start (rev cur)] end) ++ [tok TEOF pos []]
  | c :: r' =>
    if is_delim c
    then tok TValue start (rev cur)
         :: (if c =? dollar then tok TDollar pos [dollar] else tok TComma pos [comma])
         :: lex_frag [] (S pos) (S pos) r'
    else lex_frag (c :: cur) start (S pos) r'
  end.

(* split at the first delimiter: (before, Some (delimiter, after)) *)
Fixpoint break_delim (r : bytes) : bytes * option (Z * bytes) :=
  match r with
  | [] => ([], None)
  | c :: r' => if is_delim c then ([], Some (c, r'))
               else let '(a, b) := break_delim r' in (c :: a, b)
  end.

Definition lex (s : bytes) : list token :=
  match s with
  | c :: r =>
    if c =? dollar then
      match break_delim r with
      | (_, None) => [tok TError (length s) msg_no_end]
      | ([], Some _) => [tok TError 1 msg_no_ident]
      | (id, Some (d, rest)) =>
        let p := dollar :: id ++ [d] in
        tok TPrefix 0 p :: lex_frag [] (length p) (length p) rest
      end
    else if c =? underscore then tok TPrefix 0 [underscore] :: lex_frag [] 1 1 r
    else lex_frag [] 0 0 s
  | [] => lex_frag [] 0 0 s
  end.

(* ------------------------------------------------------------------ *)
(* 3. parse.go                                                         *)
(* ------------------------------------------------------------------ *)
(* a value node is (pos, text); its end is pos + len(text) as parse.go computes it *)
Definition vnode := (nat * bytes)%type.
Definition v_pos (v : vnode) : nat := fst v.
Definition v_text (v : vnode) : bytes := snd v.
Definition v_end (v : vnode) : nat := fst v + length (snd v).

Inductive frag := FV (v : vnode) | FG (vs : list vnode).
Record tree := { prefix : option bytes; frags : list frag }.
Definition prefix_end (p : bytes) : nat := length p.

Record pst := { p_prefix : option bytes; p_frags : list frag (* reversed *);
                p_group : option (list vnode) (* reversed *); p_value : option vnode }.

(* the tokenDollar/tokenEOF case of Parse *)
Definition flush (st : pst) : pst :=
  match p_value st with
  | Some v =>
    match p_group st with
    | Some g => {| p_prefix := p_prefix st; p_frags := FG (rev (v :: g)) :: p_frags st; p_group := None; p_value := None |}
    | None => {| p_prefix := p_prefix st; p_frags := FV v :: p_frags st; p_group := None; p_value := None |}
    end
  | None =>
    match p_group st with
    | Some g => {| p_prefix := p_prefix st; p_frags := FG (rev g) :: p_frags st; p_group := None; p_value := None |}
    | None => st
    end
  end.

(* PStuck: the token channel was closed without EOF/error (Go would spin on zero tokens),
   or a nil value would be appended to a group (Go would store a nil pointer). *)
Inductive pres := POk (t : tree) | PErr (pos : nat) (msg : bytes) | PStuck.

(* returns the result and the number of tokens consumed from the channel *)
Fixpoint parse_loop (toks : list token) (st : pst) (n : nat) : pres * nat :=
  match toks with
  | [] => (PStuck, n)
  | t :: ts =>
    match t_type t with
    | TError => (PErr (t_pos t) (t_val t), S n)
    | TPrefix => parse_loop ts {| p_prefix := Some (t_val t); p_frags := p_frags st; p_group := p_group st; p_value := p_value st |} (S n)
    | TDollar => parse_loop ts (flush st) (S n)
    | TEOF => let st' := flush st in (POk {| prefix := p_prefix st'; frags := rev (p_frags st') |}, S n)
    | TComma =>
      match p_value st with
      | Some v => parse_loop ts {| p_prefix := p_prefix st; p_frags := p_frags st;
                                   p_group := Some (v :: match p_group st with Some g => g | None => [] end);
                                   p_value := None |} (S n)
      | None => (PStuck, S n)
      end
    | TValue => parse_loop ts {| p_prefix := p_prefix st; p_frags := p_frags st; p_group := p_group st;
                                 p_value := Some (t_pos t, t_val t) |} (S n)
    end
  end.

Definition st0 : pst := {| p_prefix := None; p_frags := []; p_group := None; p_value := None |}.

(* Parse through the structural lexer *)
Definition parse_run (s : bytes) : pres * nat := parse_loop (lex s) st0 0.
Definition parse (s : bytes) : pres := fst (parse_run s).

(* Parse through the literal Go lexer; None = lexer out of fuel *)
Definition parse_go (s : bytes) : option (pres * nat) :=
  match lex_go s with Some toks => Some (parse_loop toks st0 0) | None => None end.

(* ------------------------------------------------------------------ *)
(* 4. rendering (the property's reconstruction)                        *)
(* ------------------------------------------------------------------ *)
Definition render_frag (f : frag) : bytes :=
  match f with FV v => snd v | FG vs => join comma (map snd vs) end.
Definition render (t : tree) : bytes :=
  (match prefix t with Some p => p | None => [] end) ++ join dollar (map render_frag (frags t)).

Definition values_of (f : frag) : list vnode := match f with FV v => [v] | FG vs => vs end.
Definition nodes (t : tree) : list vnode := flat_map values_of (frags t).
