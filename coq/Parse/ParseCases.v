(* Boolean comparisons used by generated case files and by computational tests of the statements. *)
Require Import GC.Base.Bytes GC.Base.CaseLib GC.Parse.ParseModel GC.Parse.ParseSpec.

Definition vnode_eqb (a b : vnode) : bool := Nat.eqb (fst a) (fst b) && bytes_eqb (snd a) (snd b).
Definition frag_eqb (a b : frag) : bool :=
  match a, b with
  | FV x, FV y => vnode_eqb x y
  | FG x, FG y => list_eqb vnode_eqb x y
  | _, _ => false
  end.
Definition tree_eqb (a b : tree) : bool :=
  opt_eqb bytes_eqb (prefix a) (prefix b) && list_eqb frag_eqb (frags a) (frags b).
Definition pres_eqb (a b : pres) : bool :=
  match a, b with
  | POk x, POk y => tree_eqb x y
  | PErr p m, PErr q n => Nat.eqb p q && bytes_eqb m n
  | PStuck, PStuck => true
  | _, _ => false
  end.
Definition token_eqb (a b : token) : bool :=
  ttype_eqb (t_type a) (t_type b) && Nat.eqb (t_pos a) (t_pos b) && bytes_eqb (t_val a) (t_val b).

(* model-level tests of the C11 statements on one string *)
Definition test_lex_go (s : bytes) : bool := opt_eqb (list_eqb token_eqb) (lex_go s) (Some (lex s)).
Definition test_spec (s : bytes) : bool := pres_eqb (parse s) (pres_of_spec (spec_parse s)).
Definition test_lossless (s : bytes) : bool :=
  match parse s with
  | POk t => let r := render t in
             bytes_eqb r s || bytes_eqb (r ++ [dollar]) s || bytes_eqb (r ++ [comma]) s
  | PErr _ _ => true
  | PStuck => false
  end.
Definition test_spans (s : bytes) : bool :=
  match parse s with
  | POk t => match prefix t with Some p => bytes_eqb (firstn (length p) s) p | None => true end
             && forallb (fun v => bytes_eqb (slice s (v_pos v) (v_end v)) (v_text v)) (nodes t)
  | _ => true
  end.
Definition is_terminal_b (t : token) : bool := match t_type t with TEOF | TError => true | _ => false end.
Definition test_drained (s : bytes) : bool :=
  Nat.eqb (snd (parse_run s)) (length (lex s)) &&
  match rev (lex s) with
  | last :: init => is_terminal_b last && forallb (fun t => negb (is_terminal_b t)) init
  | [] => false
  end.
Definition test_all (s : bytes) : bool :=
  test_lex_go s && test_spec s && test_lossless s && test_spans s && test_drained s.

(* all strings of length <= n over an alphabet *)
Fixpoint all_strings (alpha : bytes) (n : nat) : list bytes :=
  match n with
  | O => [[]]
  | S k => let r := all_strings alpha k in
           [] :: flat_map (fun c => map (fun t => c :: t) (filter (fun t => Nat.eqb (length t) k) r)) alpha
                 ++ filter (fun t => negb (is_nil t)) r
  end.

(* case file comparisons *)
(* tokens observed from the Go lexer, tree observed from Parse *)
Definition ok_lex (c : bytes * list token) : bool := list_eqb token_eqb (lex (fst c)) (snd c).
Definition ok_parse (c : bytes * pres) : bool := pres_eqb (parse (fst c)) (snd c).

Definition nth_is_comma (s : bytes) (n : nat) : bool :=
  match nth_error s n with Some c => c =? comma | None => false end.
Definition test_groups (s : bytes) : bool :=
  match parse s with
  | POk t => forallb (fun f => match f with
                               | FV v => forallb (fun c => negb (is_delim c)) (v_text v) && negb (nth_is_comma s (v_end v))
                               | FG vs => negb (is_nil vs) && forallb (fun v => forallb (fun c => negb (is_delim c)) (v_text v)) vs
                               end) (frags t)
  | _ => true
  end.
