(* The literal Go lexer state machine (run_lexer) agrees with the structural lexer (lex). *)
Require Import GC.Base.Bytes GC.Parse.ParseModel GC.Parse.ParseSpec.
Local Open Scope nat_scope.

(* ------------------------------------------------------------------ *)
(* delimiters                                                          *)
(* ------------------------------------------------------------------ *)
Lemma mem_delims c : mem c delims = is_delim c.
Proof.
  unfold delims, is_delim. cbn [mem]. rewrite orb_false_r.
  rewrite (Z.eqb_sym dollar c), (Z.eqb_sym comma c). reflexivity.
Qed.

Lemma no_delim_nil : no_delim [].
Proof. reflexivity. Qed.

Lemma no_delim_cons c a : no_delim (c :: a) <-> is_delim c = false /\ no_delim a.
Proof.
  unfold no_delim. cbn [forallb]. rewrite andb_true_iff, negb_true_iff. tauto.
Qed.

Lemma no_delim_app a b : no_delim (a ++ b) <-> no_delim a /\ no_delim b.
Proof. unfold no_delim. rewrite forallb_app, andb_true_iff. tauto. Qed.

Lemma no_delim_rev a : no_delim a -> no_delim (rev a).
Proof.
  induction a as [|c a IH]; intros H. exact H.
  apply no_delim_cons in H. destruct H as [Hc Ha]. cbn [rev].
  apply no_delim_app. split; [auto|]. apply no_delim_cons. split; [exact Hc|exact no_delim_nil].
Qed.

Lemma no_delim_mem a : no_delim a -> forallb (fun c => negb (mem c delims)) a = true.
Proof.
  induction a as [|c a IH]; intros H. reflexivity.
  apply no_delim_cons in H. destruct H as [Hc Ha].
  cbn [forallb]. rewrite mem_delims, Hc, (IH Ha). reflexivity.
Qed.

Lemma mem_no_delim a : forallb (fun c => negb (mem c delims)) a = true -> no_delim a.
Proof.
  induction a as [|c a IH]; intros H. reflexivity.
  cbn [forallb] in H. apply andb_true_iff in H. destruct H as [Hc Ha].
  apply no_delim_cons. split; [|auto]. rewrite mem_delims in Hc. apply negb_true_iff in Hc. exact Hc.
Qed.

Lemma is_delim_cases d : is_delim d = true -> d = dollar \/ d = comma.
Proof.
  unfold is_delim. intros H. apply orb_true_iff in H. destruct H as [H|H]; apply Z.eqb_eq in H; auto.
Qed.

(* ------------------------------------------------------------------ *)
(* break_delim                                                         *)
(* ------------------------------------------------------------------ *)
Lemma break_delim_some r : forall a d b, break_delim r = (a, Some (d, b)) ->
  r = a ++ d :: b /\ no_delim a /\ is_delim d = true.
Proof.
  induction r as [|c r IH]; intros a d b H; cbn [break_delim] in H. discriminate.
  destruct (is_delim c) eqn:Ec.
  - inversion H; subst. split; [reflexivity|]. split; [exact no_delim_nil|exact Ec].
  - destruct (break_delim r) as [a' o] eqn:E. inversion H; subst.
    destruct (IH a' d b eq_refl) as (Hr & Ha & Hd).
    split; [cbn [app]; f_equal; exact Hr|]. split; [|exact Hd].
    apply no_delim_cons. split; assumption.
Qed.

Lemma break_delim_none r : forall a, break_delim r = (a, None) -> a = r /\ no_delim r.
Proof.
  induction r as [|c r IH]; intros a H; cbn [break_delim] in H.
  - inversion H; subst. split; [reflexivity|exact no_delim_nil].
  - destruct (is_delim c) eqn:Ec. discriminate.
    destruct (break_delim r) as [a' o] eqn:E. inversion H; subst.
    destruct (IH a' eq_refl) as (Hr & Ha). subst a'.
    split; [reflexivity|]. apply no_delim_cons. split; assumption.
Qed.

Lemma break_delim_app a d b : no_delim a -> is_delim d = true ->
  break_delim (a ++ d :: b) = (a, Some (d, b)).
Proof.
  intros Ha Hd. induction a as [|c a IH]; cbn [app break_delim].
  - rewrite Hd. reflexivity.
  - apply no_delim_cons in Ha. destruct Ha as [Hc Ha]. rewrite Hc, (IH Ha). reflexivity.
Qed.

Lemma break_delim_no_delim r : no_delim r -> break_delim r = (r, None).
Proof.
  induction r as [|c r IH]; intros H; cbn [break_delim]. reflexivity.
  apply no_delim_cons in H. destruct H as [Hc Hr]. rewrite Hc, (IH Hr). reflexivity.
Qed.

Lemma index_any_break_some r a d b : break_delim r = (a, Some (d, b)) ->
  index_any delims r = Some (length a).
Proof.
  intros H. apply break_delim_some in H. destruct H as (-> & Ha & Hd).
  apply index_any_app_found. apply no_delim_mem; exact Ha. rewrite mem_delims; exact Hd.
Qed.

Lemma index_any_break_none r a : break_delim r = (a, None) -> index_any delims r = None.
Proof.
  intros H. apply break_delim_none in H. destruct H as (_ & Hr).
  apply index_any_none. apply no_delim_mem. exact Hr.
Qed.

(* ------------------------------------------------------------------ *)
(* lex_frag over a delimiter-free stretch                              *)
(* ------------------------------------------------------------------ *)
Lemma lex_frag_no_delim a : forall cur start pos r, no_delim a ->
  lex_frag cur start pos (a ++ r) = lex_frag (rev a ++ cur) start (pos + length a) r.
Proof.
  induction a as [|c a IH]; intros cur start pos r H.
  - cbn [app rev length]. rewrite Nat.add_0_r. reflexivity.
  - apply no_delim_cons in H. destruct H as [Hc Ha].
    cbn [app lex_frag]. rewrite Hc. rewrite (IH _ _ _ _ Ha).
    cbn [rev length]. rewrite <- app_assoc. cbn [app].
    replace (S pos + length a) with (pos + S (length a)) by lia. reflexivity.
Qed.

(* ------------------------------------------------------------------ *)
(* slices                                                              *)
(* ------------------------------------------------------------------ *)
Lemma slice_mid (done a r : bytes) :
  slice (done ++ a ++ r) (length done) (length done + length a) = a.
Proof.
  unfold slice. replace (length done + length a - length done) with (length a) by lia.
  rewrite skipn_app_exact. apply firstn_app_exact.
Qed.

Lemma slice_one (done a : bytes) d b :
  slice (done ++ a ++ d :: b) (length done + length a) (length done + length a + 1) = [d].
Proof.
  rewrite app_assoc, <- app_length.
  pose proof (slice_mid (done ++ a) [d] b) as H. cbn [app length] in H. exact H.
Qed.

Lemma slice_tail (done r : bytes) :
  slice (done ++ r) (length done) (length (done ++ r)) = r.
Proof.
  pose proof (slice_mid done r []) as H. rewrite app_nil_r in H.
  rewrite app_length. exact H.
Qed.

Lemma slice_empty (s : bytes) n : slice s n n = [].
Proof. unfold slice. rewrite Nat.sub_diag. reflexivity. Qed.

Lemma nth_mid (done a : bytes) d b :
  nth (length done + length a) (done ++ a ++ d :: b) 0%Z = d.
Proof. rewrite app_assoc, <- app_length. apply nth_middle. Qed.

(* ------------------------------------------------------------------ *)
(* the fragment loop                                                   *)
(* ------------------------------------------------------------------ *)
Lemma run_stop f s l : run_lexer f s SStop l = Some (rev (l_out l)).
Proof. destruct f; reflexivity. Qed.

Lemma run_fragment : forall fuel rest done out,
  length rest < fuel ->
  run_lexer fuel (done ++ rest) SFragment
            {| l_pos := length done; l_start := length done; l_out := out |}
  = Some (rev out ++ lex_frag [] (length done) (length done) rest).
Proof.
  induction fuel as [|f IH]; intros rest done out Hf. lia.
  cbn [run_lexer]. unfold lexFragment. cbn [l_pos].
  rewrite skipn_app_exact.
  destruct (break_delim rest) as [a [[d b]|]] eqn:E.
  - rewrite (index_any_break_some _ _ _ _ E).
    apply break_delim_some in E. destruct E as (-> & Ha & Hd).
    unfold emit, set_pos; cbn [l_pos l_start l_out].
    rewrite nth_mid, slice_mid, slice_one.
    rewrite (lex_frag_no_delim a _ _ _ _ Ha). rewrite app_nil_r.
    cbn [lex_frag]. rewrite Hd. rewrite rev_involutive.
    assert (Hs : done ++ a ++ d :: b = (done ++ a ++ [d]) ++ b).
    { rewrite <- !app_assoc. reflexivity. }
    assert (Hl : length done + length a + 1 = length (done ++ a ++ [d])).
    { rewrite !app_length. cbn [length]. lia. }
    assert (Hl' : S (length done + length a) = length (done ++ a ++ [d])) by lia.
    assert (Hb : length b < f).
    { rewrite app_length in Hf. cbn [length] in Hf. lia. }
    destruct (is_delim_cases d Hd) as [-> | ->].
    + change (dollar =? dollar)%Z with true. cbn iota.
      unfold emit, set_pos; cbn [l_pos l_start l_out].
      rewrite Hs, Hl, Hl'. rewrite (IH b _ _ Hb).
      cbn [rev]. rewrite <- !app_assoc. reflexivity.
    + change (comma =? dollar)%Z with false. change (comma =? comma)%Z with true. cbn iota.
      unfold emit, set_pos; cbn [l_pos l_start l_out].
      rewrite Hs, Hl, Hl'. rewrite (IH b _ _ Hb).
      cbn [rev]. rewrite <- !app_assoc. reflexivity.
  - rewrite (index_any_break_none _ _ E).
    apply break_delim_none in E. destruct E as (_ & Hr).
    unfold emit, set_pos; cbn [l_pos l_start l_out].
    destruct rest as [|c r].
    + rewrite app_nil_r. rewrite Nat.ltb_irrefl.
      unfold emit, set_pos; cbn [l_pos l_start l_out]. rewrite run_stop. cbn [l_out rev lex_frag app].
      rewrite slice_empty. reflexivity.
    + assert (Hlt : (length done <? length (done ++ c :: r)) = true).
      { apply Nat.ltb_lt. rewrite app_length. cbn [length]. lia. }
      rewrite Hlt. unfold emit, set_pos; cbn [l_pos l_start l_out]. rewrite run_stop. cbn [l_out rev].
      rewrite slice_tail, slice_empty.
      pose proof (lex_frag_no_delim (c :: r) [] (length done) (length done) [] Hr) as Hx.
      rewrite !app_nil_r in Hx. rewrite Hx. cbn [lex_frag].
      destruct (rev (c :: r)) as [|x y] eqn:Er.
      { apply (f_equal (@length Z)) in Er. rewrite rev_length in Er. discriminate. }
      rewrite <- Er, rev_involutive. rewrite app_length. rewrite <- app_assoc. reflexivity.
Qed.

(* ------------------------------------------------------------------ *)
(* the whole lexer                                                     *)
(* ------------------------------------------------------------------ *)
Theorem lex_go_eq : forall s, lex_go s = Some (lex s).
Proof.
  intros s. unfold lex_go.
  replace (length s + 3) with (S (length s + 2)) by lia.
  cbn [run_lexer]. unfold lexPrefix. unfold set_pos; cbn [l_pos skipn l_start l_out].
  destruct s as [|c r].
  - cbn [has_prefix lex].
    apply (run_fragment (length (@nil Z) + 2) [] [] []). cbn [length]. lia.
  - cbn [has_prefix lex]. rewrite !andb_true_r.
    rewrite (Z.eqb_sym dollar c), (Z.eqb_sym underscore c).
    destruct (c =? dollar)%Z eqn:Ed.
    + apply Z.eqb_eq in Ed. subst c.
      change (skipn (0 + 1) (dollar :: r)) with r.
      destruct (break_delim r) as [a [[d b]|]] eqn:E.
      * rewrite (index_any_break_some _ _ _ _ E).
        apply break_delim_some in E. destruct E as (-> & Ha & Hd).
        destruct a as [|i0 a].
        { cbn [length Nat.eqb]. rewrite run_stop. reflexivity. }
        { cbn [length Nat.eqb]. unfold emit, set_pos; cbn [l_pos l_start l_out].
          set (p := dollar :: (i0 :: a) ++ [d]).
          assert (Hs : dollar :: (i0 :: a) ++ d :: b = p ++ b).
          { unfold p. cbn [app]. rewrite <- app_assoc. reflexivity. }
          assert (Hl : 0 + 1 + (S (length a) + 1) = length p).
          { unfold p. cbn [length app]. rewrite app_length. cbn [length]. lia. }
          assert (Hp : slice (dollar :: (i0 :: a) ++ d :: b) 0 (length p) = p).
          { rewrite Hs. pose proof (slice_mid [] p b) as Hx. cbn [app length] in Hx. exact Hx. }
          rewrite Hl, Hp, Hs.
          assert (Hb : length b < S (length ((i0 :: a) ++ d :: b)) + 2).
          { rewrite app_length. cbn [length]. lia. }
          rewrite (run_fragment _ b p _ Hb). reflexivity. }
      * rewrite (index_any_break_none _ _ E). rewrite run_stop. destruct a; reflexivity.
    + destruct (c =? underscore)%Z eqn:Eu.
      * apply Z.eqb_eq in Eu. subst c.
        unfold emit, set_pos; cbn [l_pos l_start l_out].
        assert (Hb : length r < length (underscore :: r) + 2) by (cbn [length]; lia).
        pose proof (run_fragment _ r [underscore] [tok TPrefix 0 [underscore]] Hb) as Hx.
        cbn [length app rev] in Hx. cbn [length]. exact Hx.
      * assert (Hb : length (c :: r) < length (c :: r) + 2) by lia.
        exact (run_fragment _ (c :: r) [] [] Hb).
Qed.
