(* Proofs of the C11 statements about the hash-string lexer and parser model. *)
Require Import GC.Base.Bytes GC.Parse.ParseModel GC.Parse.ParseSpec.
Require Export GC.Parse.ParseLexProofs.
Local Open Scope nat_scope.

(* ================================================================== *)
(* 1. parse_go                                                         *)
(* ================================================================== *)
Theorem parse_go_eq : forall s, parse_go s = Some (parse_run s).
Proof. intros s. unfold parse_go. rewrite lex_go_eq. reflexivity. Qed.

(* ================================================================== *)
(* 2. fused lexer+parser on the body                                   *)
(* ================================================================== *)
Definition close (g : option (list vnode)) (v : vnode) : frag :=
  match g with Some l => FG (rev (v :: l)) | None => FV v end.
Definition gl (g : option (list vnode)) : list vnode :=
  match g with Some l => l | None => [] end.
Definition gne (g : option (list vnode)) : Prop := g <> Some [].

(* cur/start/pos as in lex_frag; g is the pending group (reversed) *)
Fixpoint sc (cur : bytes) (start pos : nat) (r : bytes) (g : option (list vnode)) : list frag :=
  match r with
  | [] => match cur with
          | [] => match g with Some l => [FG (rev l)] | None => [] end
          | _ => [close g (start, rev cur)]
          end
  | c :: r' =>
    if (c =? dollar)%Z then close g (start, rev cur) :: sc [] (S pos) (S pos) r' None
    else if (c =? comma)%Z then sc [] (S pos) (S pos) r' (Some ((start, rev cur) :: gl g))
    else sc (c :: cur) start (S pos) r' g
  end.

Lemma loop_sc : forall r cur start pos pf fs g n,
  parse_loop (lex_frag cur start pos r)
             {| p_prefix := pf; p_frags := fs; p_group := g; p_value := None |} n =
  (POk {| prefix := pf; frags := rev fs ++ sc cur start pos r g |},
   n + length (lex_frag cur start pos r)).
Proof.
  induction r as [|c r IH]; intros cur start pos pf fs g n.
  - destruct cur as [|c0 cur'].
    + cbn [lex_frag sc app]. unfold tok. cbn [parse_loop t_type length].
      unfold flush. cbn [p_value p_group p_frags p_prefix].
      destruct g as [l|]; cbn [p_value p_group p_frags p_prefix rev].
      * f_equal. lia.
      * rewrite app_nil_r. f_equal. lia.
    + cbn [lex_frag sc app]. unfold tok. cbn [parse_loop t_type t_pos t_val length].
      unfold flush. cbn [p_value p_group p_frags p_prefix].
      destruct g as [l|]; cbn [p_value p_group p_frags p_prefix close]; cbn [rev]; (f_equal; lia).
  - cbn [lex_frag sc]. unfold is_delim.
    destruct (c =? dollar)%Z eqn:Ed; [|destruct (c =? comma)%Z eqn:Ec]; cbn [orb].
    + unfold tok. cbn [parse_loop t_type t_pos t_val p_value p_prefix p_frags p_group length].
      unfold flush. cbn [p_value p_group p_frags p_prefix].
      destruct g as [l|]; rewrite IH; cbn [close]; cbn [rev]; rewrite <- app_assoc; cbn [app];
        (f_equal; lia).
    + unfold tok. cbn [parse_loop t_type t_pos t_val p_value p_prefix p_frags p_group length].
      rewrite IH. f_equal. lia.
    + apply IH.
Qed.

Definition optb (po : option bytes) : bytes := match po with Some p => p | None => [] end.
Definition body_tree (po : option bytes) (off : nat) (r : bytes) : tree :=
  {| prefix := po; frags := sc [] off off r None |}.

Lemma loop_body off r n :
  parse_loop (lex_frag [] off off r) st0 n =
  (POk (body_tree None off r), n + length (lex_frag [] off off r)).
Proof. unfold st0. rewrite loop_sc. reflexivity. Qed.

Lemma loop_body_prefix p off r :
  parse_loop (tok TPrefix 0 p :: lex_frag [] off off r) st0 0 =
  (POk (body_tree (Some p) off r), length (tok TPrefix 0 p :: lex_frag [] off off r)).
Proof.
  unfold tok, st0. cbn [parse_loop t_type t_val p_frags p_group p_value length].
  rewrite loop_sc. reflexivity.
Qed.

(* the parser as a function of the input *)
Definition parse_fn (s : bytes) : pres :=
  match s with
  | c :: r =>
    if (c =? dollar)%Z then
      match break_delim r with
      | (_, None) => PErr (length s) msg_no_end
      | ([], Some _) => PErr 1 msg_no_ident
      | (id, Some (d, rest)) =>
        let p := dollar :: id ++ [d] in POk (body_tree (Some p) (length p) rest)
      end
    else if (c =? underscore)%Z then POk (body_tree (Some [underscore]) 1 r)
    else POk (body_tree None 0 s)
  | [] => POk (body_tree None 0 [])
  end.

Lemma parse_run_eq s : parse_run s = (parse_fn s, length (lex s)).
Proof.
  unfold parse_run, lex, parse_fn. destruct s as [|c r].
  - apply loop_body.
  - destruct (c =? dollar)%Z.
    + destruct (break_delim r) as [a [[d b]|]].
      * destruct a as [|i0 a]. reflexivity. apply loop_body_prefix.
      * destruct a; reflexivity.
    + destruct (c =? underscore)%Z. apply loop_body_prefix. apply loop_body.
Qed.

Lemma parse_eq s : parse s = parse_fn s.
Proof. unfold parse. rewrite parse_run_eq. reflexivity. Qed.

(* a successful parse: the input is prefix ++ body and the tree is that of the body *)
Lemma parse_ok_shape s t : parse s = POk t ->
  exists po rest, s = optb po ++ rest /\ t = body_tree po (length (optb po)) rest.
Proof.
  rewrite parse_eq. unfold parse_fn. destruct s as [|c r].
  - intros H. inversion H. exists None, []. split; reflexivity.
  - destruct (c =? dollar)%Z eqn:Ed.
    + apply Z.eqb_eq in Ed. subst c.
      destruct (break_delim r) as [a [[d b]|]] eqn:E.
      * destruct a as [|i0 a]. discriminate.
        intros H. inversion H.
        apply break_delim_some in E. destruct E as (-> & _ & _).
        exists (Some (dollar :: (i0 :: a) ++ [d])), b. split; [|reflexivity].
        cbn [optb app]. rewrite <- app_assoc. reflexivity.
      * destruct a; discriminate.
    + destruct (c =? underscore)%Z eqn:Eu.
      * apply Z.eqb_eq in Eu. subst c. intros H. inversion H.
        exists (Some [underscore]), r. split; reflexivity.
      * intros H. inversion H. exists None, (c :: r). split; reflexivity.
Qed.

(* ================================================================== *)
(* 3. totality, errors, token discipline                               *)
(* ================================================================== *)
Theorem parse_total : forall s, parse s <> PStuck.
Proof.
  intros s. rewrite parse_eq. unfold parse_fn. destruct s as [|c r]. discriminate.
  destruct (c =? dollar)%Z.
  - destruct (break_delim r) as [a [[d b]|]]; destruct a; discriminate.
  - destruct (c =? underscore)%Z; discriminate.
Qed.

Theorem parse_error_iff : forall s p m, parse s = PErr p m <-> parse_error_spec s p m.
Proof.
  intros s p m. rewrite parse_eq. split.
  - unfold parse_fn. destruct s as [|c r]. discriminate.
    destruct (c =? dollar)%Z eqn:Ed.
    + apply Z.eqb_eq in Ed. subst c.
      destruct (break_delim r) as [a [[d b]|]] eqn:E.
      * destruct a as [|i0 a]; [|discriminate].
        intros H. inversion H; subst p m.
        apply break_delim_some in E. destruct E as (-> & _ & Hd).
        exact (PE_ident _ d b eq_refl Hd).
      * intros H. assert (H' : PErr (length (dollar :: r)) msg_no_end = PErr p m) by (destruct a; exact H).
        inversion H'; subst m.
        apply break_delim_none in E. destruct E as (_ & Hr).
        exact (PE_end _ r eq_refl Hr).
    + destruct (c =? underscore)%Z; discriminate.
  - intros H. destruct H as [d r Hs Hd | r Hs Hr]; subst s; unfold parse_fn.
    + change (dollar =? dollar)%Z with true. cbn iota. cbn [break_delim]. rewrite Hd. reflexivity.
    + change (dollar =? dollar)%Z with true. cbn iota. rewrite (break_delim_no_delim r Hr). destruct r; reflexivity.
Qed.

Lemma lex_frag_terminal : forall r cur start pos,
  exists init p, lex_frag cur start pos r = init ++ [tok TEOF p []] /\
                 forallb (fun t => negb (is_terminal t)) init = true.
Proof.
  induction r as [|c r IH]; intros cur start pos.
  - cbn [lex_frag]. destruct cur as [|c0 cur'].
    + exists [], pos. split; reflexivity.
    + exists [tok TValue start (rev (c0 :: cur'))], pos. split; reflexivity.
  - cbn [lex_frag]. destruct (is_delim c).
    + destruct (IH [] (S pos) (S pos)) as (init & p & Hl & Hi). rewrite Hl.
      exists (tok TValue start (rev cur)
              :: (if (c =? dollar)%Z then tok TDollar pos [dollar] else tok TComma pos [comma]) :: init), p.
      split. reflexivity.
      cbn [forallb]. rewrite Hi. destruct (c =? dollar)%Z; reflexivity.
    + apply IH.
Qed.

Theorem parse_drained : forall s, drained s.
Proof.
  intros s. unfold drained. split. rewrite parse_run_eq. reflexivity.
  unfold lex. destruct s as [|c r].
  - destruct (lex_frag_terminal [] [] 0 0) as (init & p & Hl & Hi).
    exists init, (tok TEOF p []). split; [exact Hl|]. split; [reflexivity|exact Hi].
  - destruct (c =? dollar)%Z.
    + destruct (break_delim r) as [a [[d b]|]].
      * destruct a as [|i0 a].
        { exists [], (tok TError 1 msg_no_ident). split; [reflexivity|]. split; reflexivity. }
        { cbv zeta.
          destruct (lex_frag_terminal b [] (length (dollar :: (i0 :: a) ++ [d])) (length (dollar :: (i0 :: a) ++ [d])))
            as (init & p & Hl & Hi).
          rewrite Hl.
          exists (tok TPrefix 0 (dollar :: (i0 :: a) ++ [d]) :: init), (tok TEOF p []).
          split; [reflexivity|]. split; [reflexivity|]. cbn [forallb]. rewrite Hi. reflexivity. }
      * exists [], (tok TError (length (c :: r)) msg_no_end).
        split; [destruct a; reflexivity|]. split; reflexivity.
    + destruct (c =? underscore)%Z.
      * destruct (lex_frag_terminal r [] 1 1) as (init & p & Hl & Hi). rewrite Hl.
        exists (tok TPrefix 0 [underscore] :: init), (tok TEOF p []).
        split; [reflexivity|]. split; [reflexivity|]. cbn [forallb]. rewrite Hi. reflexivity.
      * destruct (lex_frag_terminal (c :: r) [] 0 0) as (init & p & Hl & Hi). rewrite Hl.
        exists init, (tok TEOF p []). split; [reflexivity|]. split; [reflexivity|exact Hi].
Qed.

(* ================================================================== *)
(* 4. losslessness                                                     *)
(* ================================================================== *)
(* terminated concatenation *)
Definition tcat (sep : Z) (l : list bytes) : bytes := concat (map (fun x => x ++ [sep]) l).

Lemma join_cons sep x r : r <> [] -> join sep (x :: r) = x ++ sep :: join sep r.
Proof. destruct r; [congruence|reflexivity]. Qed.

Lemma join_snoc sep l x : join sep (l ++ [x]) = tcat sep l ++ x.
Proof.
  induction l as [|a l IH]. reflexivity.
  change ((a :: l) ++ [x]) with (a :: (l ++ [x])).
  rewrite join_cons by (destruct l; discriminate).
  rewrite IH. unfold tcat. cbn [map concat]. rewrite <- !app_assoc. reflexivity.
Qed.

Lemma tcat_snoc sep l x : tcat sep (l ++ [x]) = tcat sep l ++ x ++ [sep].
Proof. unfold tcat. rewrite map_app, concat_app. cbn [map concat]. rewrite app_nil_r. reflexivity. Qed.

Lemma join_tail sep l : l <> [] -> join sep l ++ [sep] = tcat sep l.
Proof.
  intros H. destruct (exists_last H) as [l' [x ->]]. rewrite join_snoc, tcat_snoc.
  rewrite <- app_assoc. reflexivity.
Qed.

Definition gtext (g : option (list vnode)) : bytes := tcat comma (map snd (rev (gl g))).

Lemma render_close g v : render_frag (close g v) = gtext g ++ snd v.
Proof.
  destruct g as [l|]; unfold gtext; cbn [close render_frag gl].
  - cbn [rev]. rewrite map_app. cbn [map]. apply join_snoc.
  - reflexivity.
Qed.

Lemma sc_nil : forall r cur start pos g, sc cur start pos r g = [] -> r = [] /\ cur = [] /\ g = None.
Proof.
  induction r as [|c r IH]; intros cur start pos g H.
  - cbn [sc] in H. destruct cur; [|discriminate]. destruct g; [discriminate|]. auto.
  - cbn [sc] in H. destruct (c =? dollar)%Z. discriminate.
    destruct (c =? comma)%Z.
    + apply IH in H. destruct H as (_ & _ & H). discriminate.
    + apply IH in H. destruct H as (_ & H & _). discriminate.
Qed.

Lemma snoc_nonnil {A} (l : list A) x : l ++ [x] <> [].
Proof. destruct l; discriminate. Qed.

Definition tails : list bytes := [[]; [dollar]; [comma]].

Lemma sc_lossless : forall r cur start pos g, gne g ->
  exists tail, In tail tails /\
    join dollar (map render_frag (sc cur start pos r g)) ++ tail = gtext g ++ rev cur ++ r.
Proof.
  induction r as [|c r IH]; intros cur start pos g Hg.
  - cbn [sc]. destruct cur as [|c0 cur'].
    + destruct g as [l|].
      * exists [comma]. split; [cbn; auto|].
        cbn [map join render_frag rev app]. rewrite app_nil_r. unfold gtext. cbn [gl].
        apply join_tail. destruct l as [|a l]; [exfalso; apply Hg; reflexivity|].
        cbn [rev]. rewrite map_app. cbn [map]. apply snoc_nonnil.
      * exists []. split; [cbn; auto|]. reflexivity.
    + exists []. split; [cbn; auto|].
      cbn [map join]. rewrite render_close. cbn [snd]. rewrite !app_nil_r. reflexivity.
  - cbn [sc]. destruct (c =? dollar)%Z eqn:Ed; [|destruct (c =? comma)%Z eqn:Ec].
    + apply Z.eqb_eq in Ed. subst c.
      destruct (sc [] (S pos) (S pos) r None) as [|f fs] eqn:Es.
      * apply sc_nil in Es. destruct Es as (-> & _ & _).
        exists [dollar]. split; [cbn; auto|].
        cbn [map join]. rewrite render_close. cbn [snd]. rewrite <- app_assoc. reflexivity.
      * destruct (IH [] (S pos) (S pos) None) as (tail & Hin & Heq). discriminate.
        rewrite Es in Heq. exists tail. split; [exact Hin|].
        cbn [map]. rewrite join_cons by discriminate. rewrite render_close. cbn [snd].
        cbn [map] in Heq. rewrite <- !app_assoc. cbn [app]. rewrite Heq. reflexivity.
    + apply Z.eqb_eq in Ec. subst c.
      destruct (IH [] (S pos) (S pos) (Some ((start, rev cur) :: gl g))) as (tail & Hin & Heq). discriminate.
      exists tail. split; [exact Hin|]. rewrite Heq.
      unfold gtext. cbn [gl rev]. rewrite map_app. cbn [map snd]. rewrite tcat_snoc.
      cbn [app]. rewrite <- !app_assoc. reflexivity.
    + destruct (IH (c :: cur) start (S pos) g Hg) as (tail & Hin & Heq).
      exists tail. split; [exact Hin|]. rewrite Heq. cbn [rev]. rewrite <- !app_assoc. reflexivity.
Qed.

Theorem parse_lossless : forall s t, parse s = POk t ->
  exists tail, In tail [[]; [dollar]; [comma]] /\ render t ++ tail = s.
Proof.
  intros s t H. apply parse_ok_shape in H. destruct H as (po & rest & -> & ->).
  destruct (sc_lossless rest [] (length (optb po)) (length (optb po)) None) as (tail & Hin & Heq).
  discriminate.
  exists tail. split; [exact Hin|].
  unfold render, body_tree. cbn [prefix frags]. fold (optb po).
  rewrite <- app_assoc. rewrite Heq. reflexivity.
Qed.

(* ================================================================== *)
(* 5. spans and grouping                                               *)
(* ================================================================== *)
Definition vgood (s : bytes) (v : vnode) : Prop := span_ok s v /\ no_delim (v_text v).
Definition good (s : bytes) (f : frag) : Prop := frag_ok s f /\ Forall (span_ok s) (values_of f).

Lemma Forall_vgood_span s l : Forall (vgood s) l -> Forall (span_ok s) l.
Proof. apply Forall_impl. intros v [H _]. exact H. Qed.
Lemma Forall_vgood_nd s l : Forall (vgood s) l -> Forall (fun v => no_delim (v_text v)) l.
Proof. apply Forall_impl. intros v [_ H]. exact H. Qed.

Lemma close_good s g v :
  vgood s v -> (g = None -> nth_error s (v_end v) <> Some comma) -> Forall (vgood s) (gl g) ->
  good s (close g v).
Proof.
  intros Hv Hn Hl. destruct g as [l|]; cbn [close gl] in *.
  - assert (Ha : Forall (vgood s) (rev (v :: l))).
    { apply Forall_rev. constructor; assumption. }
    split.
    + cbn [frag_ok]. split.
      * cbn [rev]. destruct (rev l); discriminate.
      * apply (Forall_vgood_nd s). exact Ha.
    + cbn [values_of]. apply (Forall_vgood_span s). exact Ha.
  - destruct Hv as [Hs Hd]. split.
    + cbn [frag_ok]. split; [exact Hd|]. apply Hn. reflexivity.
    + cbn [values_of]. constructor; [exact Hs|constructor].
Qed.

Lemma span_ok_mid (done a r : bytes) : span_ok (done ++ a ++ r) (length done, a).
Proof. unfold span_ok, v_pos, v_end, v_text. cbn [fst snd]. apply slice_mid. Qed.

Lemma nth_error_mid (done a : bytes) d r :
  nth_error (done ++ a ++ d :: r) (length done + length a) = Some d.
Proof.
  rewrite app_assoc, <- app_length. rewrite nth_error_app2 by lia.
  rewrite Nat.sub_diag. reflexivity.
Qed.

Lemma sc_good s : forall r cur start pos g done,
  s = done ++ rev cur ++ r -> start = length done -> pos = start + length cur ->
  no_delim cur -> gne g -> Forall (vgood s) (gl g) ->
  Forall (good s) (sc cur start pos r g).
Proof.
  induction r as [|c r IH]; intros cur start pos g done Hs Hst Hpos Hcur Hg Hl.
  - cbn [sc]. destruct cur as [|c0 cur'].
    + destruct g as [l|]; [|constructor]. cbn [gl] in Hl.
      constructor; [|constructor]. split.
      * cbn [frag_ok]. split.
        { destruct l as [|a l]; [exfalso; apply Hg; reflexivity|]. cbn [rev]. destruct (rev l); discriminate. }
        { apply (Forall_vgood_nd s). apply Forall_rev. exact Hl. }
      * cbn [values_of]. apply (Forall_vgood_span s). apply Forall_rev. exact Hl.
    + constructor; [|constructor]. apply close_good.
      * split. { subst s start. apply span_ok_mid. }
        unfold v_text. cbn [snd]. apply no_delim_rev. exact Hcur.
      * intros _. unfold v_end. cbn [fst snd].
        assert (Hn : nth_error s (start + length (rev (c0 :: cur'))) = None).
        { apply nth_error_None. subst s start. rewrite !app_length. cbn [length]. lia. }
        rewrite Hn. discriminate.
      * exact Hl.
  - assert (Hv : vgood s (start, rev cur)).
    { split. subst s start. apply span_ok_mid.
      unfold v_text. cbn [snd]. apply no_delim_rev. exact Hcur. }
    assert (Hnth : nth_error s (v_end (start, rev cur)) = Some c).
    { unfold v_end. cbn [fst snd]. subst s start. apply nth_error_mid. }
    assert (Hs' : s = (done ++ rev cur ++ [c]) ++ rev [] ++ r).
    { rewrite Hs. cbn [rev app]. rewrite <- !app_assoc. reflexivity. }
    assert (Hst' : S pos = length (done ++ rev cur ++ [c])).
    { rewrite !app_length, rev_length. cbn [length]. lia. }
    cbn [sc]. destruct (c =? dollar)%Z eqn:Ed; [|destruct (c =? comma)%Z eqn:Ec].
    + apply Z.eqb_eq in Ed. subst c. constructor.
      * apply close_good; [exact Hv| |exact Hl]. intros _. rewrite Hnth. discriminate.
      * apply (IH [] (S pos) (S pos) None _ Hs' Hst').
        { cbn [length]. lia. } { exact no_delim_nil. } { discriminate. } { constructor. }
    + apply (IH [] (S pos) (S pos) _ _ Hs' Hst').
      { cbn [length]. lia. } { exact no_delim_nil. } { discriminate. }
      { cbn [gl]. constructor; assumption. }
    + apply (IH (c :: cur) start (S pos) g done).
      * rewrite Hs. cbn [rev]. rewrite <- !app_assoc. reflexivity.
      * exact Hst.
      * cbn [length]. lia.
      * apply no_delim_cons. split; [|exact Hcur]. unfold is_delim. rewrite Ed, Ec. reflexivity.
      * exact Hg.
      * exact Hl.
Qed.

Lemma body_good po rest :
  Forall (good (optb po ++ rest)) (sc [] (length (optb po)) (length (optb po)) rest None).
Proof.
  apply (sc_good _ rest [] _ _ None (optb po)).
  - reflexivity.
  - reflexivity.
  - cbn [length]. lia.
  - exact no_delim_nil.
  - discriminate.
  - constructor.
Qed.

Theorem parse_groups : forall s t, parse s = POk t -> groups_ok s t.
Proof.
  intros s t H. apply parse_ok_shape in H. destruct H as (po & rest & -> & ->).
  unfold groups_ok, body_tree. cbn [frags].
  eapply Forall_impl; [|apply body_good]. intros f [Hf _]. exact Hf.
Qed.

Lemma Forall_flat_map {A B} (P : B -> Prop) (f : A -> list B) l :
  Forall (fun x => Forall P (f x)) l -> Forall P (flat_map f l).
Proof.
  induction 1 as [|x l Hx Hl IH]; cbn [flat_map]. constructor.
  apply Forall_app. split; assumption.
Qed.

Theorem parse_spans : forall s t, parse s = POk t -> spans_ok s t.
Proof.
  intros s t H. apply parse_ok_shape in H. destruct H as (po & rest & -> & ->).
  unfold spans_ok, body_tree, nodes. cbn [prefix frags]. split.
  - intros p Hp. subst po. cbn [optb]. apply firstn_app_exact.
  - apply Forall_flat_map. eapply Forall_impl; [|apply body_good]. intros f [_ Hf]. exact Hf.
Qed.

(* ================================================================== *)
(* 6. agreement with the reference parser                              *)
(* ================================================================== *)
Definition seg_frag_gen (is_last : bool) (vals : list vnode) : list frag :=
  let vals' := if is_last && is_nil (snd (last vals (0, []))) then removelast vals else vals in
  match vals' with
  | [] => []
  | [v] => if Nat.eqb (length vals) 1 then [FV v] else [FG [v]]
  | _ => [FG vals']
  end.

Lemma seg_frag_eq b seg :
  seg_frag b seg = seg_frag_gen b (split_pos is_comma [] (fst seg) (fst seg) (snd seg)).
Proof. reflexivity. Qed.

Definition no_dollar (a : bytes) : Prop := forallb (fun c => negb (is_dollar c)) a = true.

Lemma no_dollar_cons c a : no_dollar (c :: a) <-> (c =? dollar)%Z = false /\ no_dollar a.
Proof.
  unfold no_dollar, is_dollar. cbn [forallb]. rewrite andb_true_iff, negb_true_iff. tauto.
Qed.

Lemma rev_nonnil {A} (l : list A) : l <> [] -> exists x y, rev l = x :: y.
Proof.
  intros H. destruct (rev l) as [|x y] eqn:E.
  - exfalso. apply H. apply (f_equal (@rev A)) in E. rewrite rev_involutive in E. exact E.
  - eauto.
Qed.

(* a segment whose last value counts *)
Lemma seg_close b g v : gne g -> b = false \/ snd v <> [] ->
  seg_frag_gen b (rev (gl g) ++ [v]) = [close g v].
Proof.
  intros Hg Hb. unfold seg_frag_gen. rewrite last_last.
  assert (Hc : b && is_nil (@snd nat bytes v) = false).
  { destruct Hb as [-> | Hv]. reflexivity. destruct v as [p t]. cbn [snd] in *.
    destruct t; [congruence|]. apply andb_false_r. }
  rewrite Hc. destruct g as [l|]; cbn [gl close].
  - destruct (rev_nonnil l) as (x & y & E). { intros ->. apply Hg. reflexivity. }
    cbn [rev]. rewrite E. destruct y; reflexivity.
  - reflexivity.
Qed.

(* a final segment ending in an empty value *)
Lemma seg_open g start : gne g ->
  seg_frag_gen true (rev (gl g) ++ [(start, [])]) =
  match g with Some l => [FG (rev l)] | None => [] end.
Proof.
  intros Hg. unfold seg_frag_gen. rewrite last_last. cbn [snd is_nil andb].
  rewrite removelast_last. destruct g as [l|]; cbn [gl].
  - destruct (rev_nonnil l) as (x & y & E). { intros ->. apply Hg. reflexivity. }
    rewrite E. destruct y as [|z w].
    + cbn [app length Nat.eqb]. reflexivity.
    + reflexivity.
  - reflexivity.
Qed.

Lemma sc_seg_mid : forall a cur start pos g r', no_dollar a -> gne g ->
  sc cur start pos (a ++ dollar :: r') g =
  seg_frag_gen false (rev (gl g) ++ split_pos is_comma cur start pos a)
  ++ sc [] (S (pos + length a)) (S (pos + length a)) r' None.
Proof.
  induction a as [|c a IH]; intros cur start pos g r' Ha Hg.
  - cbn [app sc split_pos length]. change (dollar =? dollar)%Z with true. cbn iota.
    rewrite seg_close by auto. rewrite Nat.add_0_r. reflexivity.
  - apply no_dollar_cons in Ha. destruct Ha as [Hc Ha].
    cbn [app sc split_pos length]. rewrite Hc. unfold is_comma.
    replace (pos + S (length a)) with (S pos + length a) by lia.
    destruct (c =? comma)%Z eqn:Ec.
    + rewrite IH by (auto; discriminate). cbn [gl rev]. rewrite <- app_assoc. reflexivity.
    + apply IH; assumption.
Qed.

Lemma sc_seg_last : forall a cur start pos g, no_dollar a -> gne g ->
  sc cur start pos a g = seg_frag_gen true (rev (gl g) ++ split_pos is_comma cur start pos a).
Proof.
  induction a as [|c a IH]; intros cur start pos g Ha Hg.
  - cbn [sc split_pos]. destruct cur as [|c0 cur'].
    + cbn [rev]. rewrite seg_open by assumption. reflexivity.
    + rewrite seg_close. reflexivity. assumption.
      right. cbn [snd rev]. destruct (rev cur'); discriminate.
  - apply no_dollar_cons in Ha. destruct Ha as [Hc Ha].
    cbn [sc split_pos]. rewrite Hc. unfold is_comma.
    destruct (c =? comma)%Z eqn:Ec.
    + rewrite IH by (auto; discriminate). cbn [gl rev]. rewrite <- app_assoc. reflexivity.
    + apply IH; assumption.
Qed.

Lemma split_dollar_mid : forall a cur start pos r', no_dollar a ->
  split_pos is_dollar cur start pos (a ++ dollar :: r') =
  (start, rev cur ++ a) :: split_pos is_dollar [] (S (pos + length a)) (S (pos + length a)) r'.
Proof.
  induction a as [|c a IH]; intros cur start pos r' Ha.
  - cbn [app split_pos length]. unfold is_dollar. change (dollar =? dollar)%Z with true. cbn iota.
    rewrite app_nil_r, Nat.add_0_r. reflexivity.
  - apply no_dollar_cons in Ha. destruct Ha as [Hc Ha].
    cbn [app split_pos length]. unfold is_dollar at 1. rewrite Hc.
    rewrite IH by assumption. cbn [rev]. rewrite <- app_assoc. cbn [app].
    replace (pos + S (length a)) with (S pos + length a) by lia. reflexivity.
Qed.

Lemma split_dollar_last : forall a cur start pos, no_dollar a ->
  split_pos is_dollar cur start pos a = [(start, rev cur ++ a)].
Proof.
  induction a as [|c a IH]; intros cur start pos Ha.
  - cbn [split_pos]. rewrite app_nil_r. reflexivity.
  - apply no_dollar_cons in Ha. destruct Ha as [Hc Ha].
    cbn [split_pos]. unfold is_dollar at 1. rewrite Hc.
    rewrite IH by assumption. cbn [rev]. rewrite <- app_assoc. reflexivity.
Qed.

Lemma split_pos_nonnil sep : forall r cur start pos, split_pos sep cur start pos r <> [].
Proof.
  induction r as [|c r IH]; intros cur start pos; cbn [split_pos]. discriminate.
  destruct (sep c). discriminate. apply IH.
Qed.

Lemma segs_frags_cons x l : l <> [] -> segs_frags (x :: l) = seg_frag false x ++ segs_frags l.
Proof. destruct l; [congruence|reflexivity]. Qed.

Lemma dollar_decomp : forall r, exists a, no_dollar a /\ (r = a \/ exists r', r = a ++ dollar :: r').
Proof.
  induction r as [|c r IH].
  - exists []. split; [reflexivity|left; reflexivity].
  - destruct (c =? dollar)%Z eqn:Ed.
    + apply Z.eqb_eq in Ed. subst c. exists []. split; [reflexivity|]. right. exists r. reflexivity.
    + destruct IH as (a & Ha & Hr). exists (c :: a). split.
      * apply no_dollar_cons. split; assumption.
      * destruct Hr as [-> | (r' & ->)]; [left|right; exists r']; reflexivity.
Qed.

Lemma sc_spec : forall n r off, length r <= n -> sc [] off off r None = spec_frags off r.
Proof.
  induction n as [|n IH]; intros r off Hn;
    destruct (dollar_decomp r) as (a & Ha & [-> | (r' & ->)]).
  - unfold spec_frags. rewrite split_dollar_last by assumption.
    rewrite sc_seg_last by (auto; discriminate). reflexivity.
  - rewrite app_length in Hn. cbn [length] in Hn. lia.
  - unfold spec_frags. rewrite split_dollar_last by assumption.
    rewrite sc_seg_last by (auto; discriminate). reflexivity.
  - unfold spec_frags. rewrite split_dollar_mid by assumption.
    rewrite sc_seg_mid by (auto; discriminate).
    rewrite segs_frags_cons by apply split_pos_nonnil.
    rewrite IH. reflexivity.
    rewrite app_length in Hn. cbn [length] in Hn. lia.
Qed.

Lemma body_spec po off r :
  body_tree po off r = {| prefix := po; frags := spec_frags off r |}.
Proof. unfold body_tree. rewrite (sc_spec (length r)) by lia. reflexivity. Qed.

Theorem parse_spec_eq : forall s, parse s = pres_of_spec (spec_parse s).
Proof.
  intros s. rewrite parse_eq. unfold parse_fn, spec_parse. destruct s as [|c r].
  - reflexivity.
  - destruct (c =? dollar)%Z eqn:Ed.
    + apply Z.eqb_eq in Ed. subst c.
      destruct (break_delim r) as [a [[d b]|]] eqn:E.
      * rewrite (index_any_break_some _ _ _ _ E).
        apply break_delim_some in E. destruct E as (-> & _ & _).
        destruct a as [|i0 a]. reflexivity.
        cbv zeta. cbn [length pres_of_spec]. rewrite body_spec.
        set (p := dollar :: (i0 :: a) ++ [d]).
        assert (Hs : dollar :: (i0 :: a) ++ d :: b = p ++ b).
        { unfold p. cbn [app]. rewrite <- app_assoc. reflexivity. }
        assert (Hl : S (length a) + 2 = length p).
        { unfold p. cbn [length app]. rewrite app_length. cbn [length]. lia. }
        change (S (length ((i0 :: a) ++ [d]))) with (length p).
        rewrite Hs, Hl, firstn_app_exact, skipn_app_exact. reflexivity.
      * rewrite (index_any_break_none _ _ E). destruct a; reflexivity.
    + destruct (c =? underscore)%Z; cbn [pres_of_spec]; rewrite body_spec; reflexivity.
Qed.

Print Assumptions lex_go_eq.
Print Assumptions parse_go_eq.
Print Assumptions parse_total.
Print Assumptions parse_error_iff.
Print Assumptions parse_spec_eq.
Print Assumptions parse_lossless.
Print Assumptions parse_spans.
Print Assumptions parse_groups.
Print Assumptions parse_drained.
