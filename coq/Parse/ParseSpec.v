(* Statements of C11 as predicates, with boolean mirrors used to test them by computation. *)
Require Import GC.Base.Bytes GC.Parse.ParseModel.

Definition no_delim (s : bytes) : Prop := forallb (fun c => negb (is_delim c)) s = true.

(* when Parse fails: exactly for "$" followed by an empty or unterminated identifier *)
Inductive parse_error_spec (s : bytes) : nat -> bytes -> Prop :=
| PE_ident d r : s = dollar :: d :: r -> is_delim d = true -> parse_error_spec s 1 msg_no_ident
| PE_end r : s = dollar :: r -> no_delim r -> parse_error_spec s (length s) msg_no_end.

(* spans *)
Definition span_ok (s : bytes) (v : vnode) : Prop := slice s (v_pos v) (v_end v) = v_text v.
Definition spans_ok (s : bytes) (t : tree) : Prop :=
  (forall p, prefix t = Some p -> firstn (length p) s = p) /\ Forall (span_ok s) (nodes t).

(* ---- independent reference parser: split on '$', then on ',' ---- *)
Definition is_dollar (c : Z) : bool := c =? dollar.
Definition is_comma (c : Z) : bool := c =? comma.

(* split r at every separator, recording where each piece starts *)
Fixpoint split_pos (sep : Z -> bool) (cur : bytes) (start pos : nat) (r : bytes) : list vnode :=
  match r with
  | [] => [(start, rev cur)]
  | c :: r' => if sep c then (start, rev cur) :: split_pos sep [] (S pos) (S pos) r'
               else split_pos sep (c :: cur) start (S pos) r'
  end.

Definition is_nil {A} (l : list A) : bool := match l with [] => true | _ => false end.

(* one '$'-separated segment becomes one fragment: a lone value, or a group when it contains a comma.
   In the final segment an empty final value is not a value (a trailing delimiter), and a segment left
   without values is not a fragment. *)
Definition seg_frag (is_last : bool) (seg : vnode) : list frag :=
  let vals := split_pos is_comma [] (fst seg) (fst seg) (snd seg) in
  let vals' := if is_last && is_nil (snd (last vals (0%nat, []))) then removelast vals else vals in
  match vals' with
  | [] => []
  | [v] => if Nat.eqb (length vals) 1 then [FV v] else [FG [v]]
  | _ => [FG vals']
  end.

Fixpoint segs_frags (segs : list vnode) : list frag :=
  match segs with
  | [] => []
  | [x] => seg_frag true x
  | x :: r => seg_frag false x ++ segs_frags r
  end.

Definition spec_frags (off : nat) (body : bytes) : list frag :=
  segs_frags (split_pos is_dollar [] off off body).

Inductive spec_res := SErr (pos : nat) (msg : bytes) | SOk (t : tree).

(* the prefix: "$" through the next delimiter inclusive, or a leading "_" *)
Definition spec_parse (s : bytes) : spec_res :=
  match s with
  | c :: r =>
    if c =? dollar then
      match index_any delims r with
      | None => SErr (length s) msg_no_end
      | Some O => SErr 1 msg_no_ident
      | Some i => let n := (i + 2)%nat in
                  SOk {| prefix := Some (firstn n s); frags := spec_frags n (skipn n s) |}
      end
    else if c =? underscore then SOk {| prefix := Some [underscore]; frags := spec_frags 1 r |}
    else SOk {| prefix := None; frags := spec_frags 0 s |}
  | [] => SOk {| prefix := None; frags := [] |}
  end.

Definition pres_of_spec (r : spec_res) : pres := match r with SErr p m => PErr p m | SOk t => POk t end.

(* grouping, stated locally on the source text *)
Definition frag_ok (s : bytes) (f : frag) : Prop :=
  match f with
  | FV v => no_delim (v_text v) /\ nth_error s (v_end v) <> Some comma
  | FG vs => vs <> [] /\ Forall (fun v => no_delim (v_text v)) vs
  end.
Definition groups_ok (s : bytes) (t : tree) : Prop := Forall (frag_ok s) (frags t).

(* token discipline: every token sent is received, and exactly one terminal token is sent, last *)
Definition is_terminal (t : token) : bool := match t_type t with TEOF | TError => true | _ => false end.
Definition drained (s : bytes) : Prop :=
  snd (parse_run s) = length (lex s) /\
  exists init last, lex s = init ++ [last] /\ is_terminal last = true /\ forallb (fun t => negb (is_terminal t)) init = true.
