(* The ten scheme packages, as identifiers. *)
Inductive scheme_id :=
| S_argon2 | S_bcrypt | S_des | S_desext | S_md5 | S_nthash | S_sha1 | S_sha256 | S_sha512 | S_sunmd5
| S_unknown.

Definition scheme_eqb (a b : scheme_id) : bool :=
  match a, b with
  | S_argon2, S_argon2 | S_bcrypt, S_bcrypt | S_des, S_des | S_desext, S_desext | S_md5, S_md5
  | S_nthash, S_nthash | S_sha1, S_sha1 | S_sha256, S_sha256 | S_sha512, S_sha512 | S_sunmd5, S_sunmd5
  | S_unknown, S_unknown => true
  | _, _ => false
  end.
