Require Import GC.Base.Bytes GC.Dispatch.Dispatch.

Lemma is_delim_cases c : is_delim c = true <-> c = dollar \/ c = comma.
Proof.
  unfold is_delim, delims, mem. rewrite !orb_true_iff, !Z.eqb_eq. intuition congruence.
Qed.

Lemma prefix_of_sound h : prefix_spec h (prefix_of h).
Proof.
  unfold prefix_of. destruct h as [|c r].
  - simpl. constructor.
  - cbn [has_prefix]. rewrite andb_true_r.
    destruct (dollar =? c) eqn:Ed.
    + apply Z.eqb_eq in Ed. subst c. cbn [skipn].
      destruct (index_any delims r) as [i|] eqn:Ei.
      * destruct (index_any_some _ _ _ Ei) as (a & d & b & -> & Hl & Hd & Ha).
        destruct i as [|i].
        -- destruct a; [|discriminate]. simpl. constructor. exact Hd.
        -- cbn [Nat.eqb].
           assert (Hu : (underscore =? dollar) = false) by reflexivity. rewrite Hu.
           replace (firstn (S i + 2) (dollar :: a ++ d :: b)) with (dollar :: a ++ [d]).
           { constructor; auto. destruct a; [discriminate|congruence]. }
           replace (S i + 2)%nat with (S (length (a ++ [d]))) by (rewrite app_length; simpl; lia).
           cbn [firstn]. f_equal.
           replace (a ++ d :: b) with ((a ++ [d]) ++ b) by (rewrite <- app_assoc; reflexivity).
           rewrite firstn_app_exact. reflexivity.
      * apply PS_unterminated. apply index_any_none. exact Ei.
    + destruct (underscore =? c) eqn:Eu.
      * apply Z.eqb_eq in Eu. subst c. constructor.
      * apply Z.eqb_neq in Ed. apply Z.eqb_neq in Eu. constructor; congruence.
Qed.

Lemma prefix_of_complete h p : prefix_spec h p -> prefix_of h = p.
Proof.
  intros Hs. destruct Hs as [id d rest Hid Hnd Hd | d rest Hd | r Hnd | r | c r Hc1 Hc2 | ]; unfold prefix_of.
  - cbn [has_prefix]. rewrite Z.eqb_refl. cbn [andb skipn].
    rewrite (index_any_app_found delims id d rest Hnd Hd).
    destruct id as [|x id]; [congruence|]. cbn [length Nat.eqb].
    assert (Hu : (underscore =? dollar) = false) by reflexivity. rewrite Hu. cbn [andb].
    f_equal.
    replace (S (length id) + 2)%nat with (S (length ((x :: id) ++ [d]))) by (rewrite app_length; simpl; lia).
    cbn [firstn]. f_equal.
    replace ((x :: id) ++ d :: rest) with (((x :: id) ++ [d]) ++ rest) by (rewrite <- app_assoc; reflexivity).
    apply firstn_app_exact.
  - cbn [has_prefix]. rewrite Z.eqb_refl. cbn [andb skipn index_any].
    unfold is_delim in Hd. rewrite Hd. reflexivity.
  - cbn [has_prefix]. rewrite Z.eqb_refl. cbn [andb skipn].
    apply index_any_none in Hnd. rewrite Hnd. reflexivity.
  - reflexivity.
  - cbn [has_prefix]. rewrite !andb_true_r.
    assert (E1 : (dollar =? c) = false) by (apply Z.eqb_neq; congruence).
    assert (E2 : (underscore =? c) = false) by (apply Z.eqb_neq; congruence).
    rewrite E1, E2. reflexivity.
  - reflexivity.
Qed.

Theorem prefix_of_iff h p : prefix_spec h p <-> prefix_of h = p.
Proof.
  split.
  - apply prefix_of_complete.
  - intros <-. apply prefix_of_sound.
Qed.

Section R.
  Variable H V : Type.
  Variable run : H -> bytes -> bytes -> V.

  Lemma lookup_fold hist : forall r p,
    lookup H (fold_left (register H) hist r) p =
    match last_registered H hist p with Some f => Some f | None => lookup H r p end.
  Proof.
    induction hist as [|[q f] rest IH]; intros r p; simpl. reflexivity.
    rewrite IH. destruct (last_registered H rest p); auto.
    unfold register. simpl. destruct (bytes_eqb q p); reflexivity.
  Qed.

  Theorem route hist h pw :
    check H V run (fold_left (register H) hist []) h pw =
    match prefix_of h with
    | None => (ErrHash, [])
    | Some p => match last_registered H hist p with
                | None => (ErrHash, [])
                | Some f => (Ret (run f h pw), [(f, h, pw)])
                end
    end.
  Proof.
    unfold check. destruct (prefix_of h) as [p|]; auto.
    rewrite lookup_fold. simpl. destruct (last_registered H hist p); reflexivity.
  Qed.

  Theorem register_independent r p q f : p <> q -> lookup H (register H r (p, f)) q = lookup H r q.
  Proof.
    intros Hne. unfold register. simpl. apply bytes_eqb_neq in Hne. rewrite Hne. reflexivity.
  Qed.

  Theorem register_latest r p f : lookup H (register H r (p, f)) p = Some f.
  Proof. unfold register. simpl. rewrite bytes_eqb_refl. reflexivity. Qed.

  (* ErrHash is returned with zero handler calls exactly when the prefix is undefined or unregistered *)
  Theorem errhash_iff r h pw :
    fst (check H V run r h pw) = ErrHash <->
    (prefix_of h = None \/ exists p, prefix_of h = Some p /\ lookup H r p = None).
  Proof.
    unfold check. destruct (prefix_of h) as [p|] eqn:Ep.
    - destruct (lookup H r p) eqn:El; simpl.
      + split; [discriminate|]. intros [X|[p' [X Y]]]; [discriminate|]. inversion X; subst. congruence.
      + split; auto. intros _. right. eauto.
    - simpl. tauto.
  Qed.

  Theorem errhash_no_calls r h pw :
    fst (check H V run r h pw) = ErrHash -> snd (check H V run r h pw) = [].
  Proof.
    unfold check. destruct (prefix_of h) as [p|]; auto. destruct (lookup H r p); simpl; auto. discriminate.
  Qed.

  Theorem at_most_one_call r h pw : (length (snd (check H V run r h pw)) <= 1)%nat.
  Proof.
    unfold check. destruct (prefix_of h) as [p|]; simpl; auto. destruct (lookup H r p); simpl; auto.
  Qed.
End R.
