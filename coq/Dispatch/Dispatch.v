(* Model of crypt.go: RegisterHash / Check.  Definitions only. *)
Require Import GC.Base.Bytes.

Definition delims : bytes := [dollar; comma].

(* The prefix computation of crypt.Check, line by line.
   None  = the function returns ErrHash before consulting the registry. *)
Definition prefix_of (h : bytes) : option bytes :=
  let p1 : option bytes :=
    if has_prefix [dollar] h then
      match index_any delims (skipn 1 h) with
      | Some i => if Nat.eqb i 0 then None else Some (firstn (i + 2) h)
      | None => None
      end
    else Some [] in
  match p1 with
  | None => None
  | Some p => if has_prefix [underscore] h then Some [underscore] else Some p
  end.

Section Registry.
  Variable H : Type.                      (* handler identities *)
  Variable V : Type.                      (* what a handler returns *)
  Variable run : H -> bytes -> bytes -> V.

  (* sync.Map with Store: newest binding first *)
  Definition registry := list (bytes * H).
  Definition register (r : registry) (ph : bytes * H) : registry := ph :: r.
  Fixpoint lookup (r : registry) (p : bytes) : option H :=
    match r with
    | [] => None
    | (q, f) :: r' => if bytes_eqb q p then Some f else lookup r' p
    end.

  Inductive verdict := ErrHash | Ret (v : V).

  (* result and the list of handler invocations (handler, hash, password) *)
  Definition check (r : registry) (h pw : bytes) : verdict * list (H * bytes * bytes) :=
    match prefix_of h with
    | None => (ErrHash, [])
    | Some p => match lookup r p with
                | Some f => (Ret (run f h pw), [(f, h, pw)])
                | None => (ErrHash, [])
                end
    end.

  (* the handler most recently registered for p in a history (oldest first) *)
  Fixpoint last_registered (hist : list (bytes * H)) (p : bytes) : option H :=
    match hist with
    | [] => None
    | (q, f) :: rest =>
      match last_registered rest p with
      | Some g => Some g
      | None => if bytes_eqb q p then Some f else None
      end
    end.
End Registry.

Arguments ErrHash {V}.
Arguments Ret {V} v.

(* Declarative description of the prefix (the property text):
   "the text from a leading '$' through the next '$' or ',' inclusive,
    "_" for a leading underscore, the empty prefix otherwise";
   undefined when the '$' identifier is empty or unterminated. *)
Definition is_delim (c : Z) : bool := mem c delims.
Definition no_delim (s : bytes) : Prop := forallb (fun c => negb (is_delim c)) s = true.

Inductive prefix_spec : bytes -> option bytes -> Prop :=
| PS_id id d rest :
    id <> [] -> no_delim id -> is_delim d = true ->
    prefix_spec (dollar :: id ++ d :: rest) (Some (dollar :: id ++ [d]))
| PS_empty_id d rest :
    is_delim d = true -> prefix_spec (dollar :: d :: rest) None
| PS_unterminated r :
    no_delim r -> prefix_spec (dollar :: r) None
| PS_underscore r :
    prefix_spec (underscore :: r) (Some [underscore])
| PS_plain c r :
    c <> dollar -> c <> underscore -> prefix_spec (c :: r) (Some [])
| PS_nil :
    prefix_spec [] (Some []).
