(* The documented registrations have pairwise distinct prefixes, so membership determines what the registry
   returns, in whatever order the init functions ran. *)
Require Import GC.Base.Bytes GC.Dispatch.Dispatch GC.Dispatch.Schemes GC.Dispatch.Builtin.

Lemma documented_lookup : forall p s, In (p, s) documented_registrations ->
  lookup scheme_id documented_registrations p = Some s /\ lookup scheme_id (rev documented_registrations) p = Some s.
Proof.
  intros p s H. unfold documented_registrations in H. simpl in H.
  repeat (destruct H as [H|H]; [inversion H; subst; split; reflexivity|]). contradiction.
Qed.
