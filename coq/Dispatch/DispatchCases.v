(* Comparison functions used by the generated case files of C07. *)
Require Import GC.Base.Bytes GC.Base.CaseLib GC.Dispatch.Dispatch.

Definition ok_prefix (c : bytes * option bytes) : bool :=
  opt_eqb bytes_eqb (prefix_of (fst c)) (snd c).

Definition call_eqb (a b : nat * bytes * bytes) : bool :=
  Nat.eqb (fst (fst a)) (fst (fst b)) && bytes_eqb (snd (fst a)) (snd (fst b)) && bytes_eqb (snd a) (snd b).

Definition ok_hist (c : (list (bytes * nat) * bytes * bytes) * (option nat * list (nat * bytes * bytes))) : bool :=
  let '((hist, h, pw), (v, calls)) := c in
  let '(mv, mcalls) := check nat nat (fun f _ _ => f) (fold_left (register nat) hist []) h pw in
  opt_eqb Nat.eqb (match mv with ErrHash => None | Ret x => Some x end) v
  && list_eqb call_eqb mcalls calls.
