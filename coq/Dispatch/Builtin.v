(* The documented built-in registrations (committed copy; Tie_regs proves the generated copy equal). *)
Require Import GC.Base.Bytes GC.Dispatch.Schemes.

Definition documented_registrations : list (bytes * scheme_id) := [
  ([], S_des);
  ([36;49;36], S_md5);                                  (* $1$ *)
  ([36;50;36], S_bcrypt);                               (* $2$ *)
  ([36;50;97;36], S_bcrypt);                            (* $2a$ *)
  ([36;50;98;36], S_bcrypt);                            (* $2b$ *)
  ([36;51;36], S_nthash);                               (* $3$ *)
  ([36;53;36], S_sha256);                               (* $5$ *)
  ([36;54;36], S_sha512);                               (* $6$ *)
  ([36;97;114;103;111;110;50;100;36], S_argon2);        (* $argon2d$ *)
  ([36;97;114;103;111;110;50;105;36], S_argon2);        (* $argon2i$ *)
  ([36;97;114;103;111;110;50;105;100;36], S_argon2);    (* $argon2id$ *)
  ([36;109;100;53;36], S_sunmd5);                       (* $md5$ *)
  ([36;109;100;53;44], S_sunmd5);                       (* $md5, *)
  ([36;115;104;97;49;36], S_sha1);                      (* $sha1$ *)
  ([95], S_desext)                                      (* _ *)
].
