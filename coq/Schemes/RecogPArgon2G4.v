(* argon2, fragment shape [v=N; group; salt; digest] *)
Require Import GC.Schemes.RecogPBase GC.Schemes.RecogPPlain GC.Schemes.RecogPStr GC.Schemes.RecogPGroups GC.Schemes.RecogPArgon2.

Lemma argon2_good4 L kdf pre n body pw :
  parse (pre ++ body) = POk (body_tree (Some pre) n body) ->
  In pre [p_argon2d; p_argon2i; p_argon2id] ->
  good4 (sc [] n n body None) -> argon2_stmt L kdf pre body pw.
Proof.
  intros HP Hin ([p1 t1] & g & [p3 t3] & [p4 t4] & El).
  argon2_open HP Hin n body pre. rewrite El. intros HR HL.
  pieces_facts HR HL body. argon2_rhs pre Hin.
  unfold k_v, argon2_version. rewrite ?in_alpha_fi.
  destruct (has_prefix [118; 61] t1) eqn:Hv; cbn [andb].
  2:{ solve [crunchA; reflexivity]. }
  destruct (first_invalid EncHash (skipn 2 t1)) eqn:Ha.
  { solve [crunchA; reflexivity]. }
  destruct (ParseUint (skipn 2 t1) 10 8) as [ver|pe] eqn:Hp.
  2:{ solve [crunchA; reflexivity]. }
  split_group.
  all: try match goal with |- _ = 2%nat => solve [crunchA; reflexivity] end.
  kinds; try kinds; try kinds; rewrite ?in_alpha_fi; unfold member_by.
  all: crunchA. all: try reflexivity. all: try apply argon2_finish.
Qed.
