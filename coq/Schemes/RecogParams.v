(* The Params / Salt side of C06: the parameters the scheme packages report for a hash are the ones the
   independent recogniser extracts, and they are reported exactly for the recognised hashes. *)
Require Import GC.Schemes.RecogPBase GC.Schemes.RecogPPlain GC.Schemes.RecogPStr.
Require Import GC.Schemes.RecogPBcrypt GC.Schemes.RecogPSunmd5 GC.Schemes.RecogPDes.

Definition pview (p : pres) : option (bytes * list Z * bytes * bool) :=
  match p with POkP s n pf fl => Some (s, n, pf, fl) | _ => None end.
Definition rparams (nums : rfields -> list Z) (withprefix : bool) (r : rfields) : bytes * list Z * bytes * bool :=
  (r_salt r, nums r, if withprefix then r_prefix r else [], r_flag r).

Lemma foreign_prefix_um st ti fi id wl h :
  type_info st = Ok ti -> ti_prefix ti = Some fi ->
  o_omit (fi_opts fi) = false -> o_param (fi_opts fi) = [] -> o_haslen (fi_opts fi) = false ->
  o_enc (fi_opts fi) = EncNone -> t_utext (fi_type fi) = Some id -> prefix_whitelist id = Some wl ->
  (forall q, In q wl -> has_prefix q h = false) ->
  forall k, pview (params_of st h k) = None.
Proof.
  intros Hti Hpre Homit Hparam Hlen Henc Hut Hwl Hno k.
  unfold params_of, unmarshal_top. destruct (parse h) as [t|off m|] eqn:EP; [|reflexivity|reflexivity].
  rewrite Hti. cbn [bind]. apply parse_ok_shape in EP. destruct EP as (po & rest & Eh & Et). subst t.
  unfold unmarshal_tree, body_tree. cbn [prefix frags]. rewrite Hpre.
  destruct po as [p|]; cbn [optb] in Eh.
  - unfold assign. rewrite Hparam, Hlen. cbn [bind]. unfold convert. rewrite Henc, first_invalid_encnone, Hut.
    unfold std_cb at 1. cbn [cb_unmarshal]. rewrite Hwl.
    destruct (existsb (bytes_eqb p) wl) eqn:Ex.
    + exfalso. destruct (existsb_eq_prefix p wl rest Ex) as (q & Hq & Hp). rewrite <- Eh in Hp.
      rewrite (Hno q Hq) in Hp. discriminate.
    + reflexivity.
  - rewrite Homit. reflexivity.
Qed.

(* ---------------------------------------------------------------- md5 *)
Theorem salt_md5_recognised : forall h,
  pview (salt_md5 h) = option_map (rparams (fun _ => []) false) (recog_md5 h).
Proof.
  intros h. destruct (has_prefix p_md5 h) eqn:HP.
  - apply has_prefix_spec in HP. destruct HP as [body ->].
    unfold salt_md5, params_of, unmarshal_top. rewrite parse_md5, ti_md5. unfold TI_md5.
    cbn [bind]. unfold body_tree.
    unfold recog_md5. rewrite has_prefix_app. change (skipn 3 (p_md5 ++ body)) with body. cbv zeta.
    pose proof (sc_plain body [] 3 3) as HF. unfold plain_frags.
    destruct (sc [] 3 3 body None) as [|[[p1 t1]|g1] [|[[p2 t2]|g2] [|[[p3 t3]|g3] r]]];
      split_frags HF body; eval_prefix.
    all: unfold salt_sum_ok, slen, rparams; rewrite ?in_alpha_fi.
    all: crunch. all: try reflexivity.
  - unfold recog_md5. rewrite HP. unfold salt_md5.
    eapply foreign_prefix_um with (id := 12%nat); try exact ti_md5; try reflexivity.
    intros q [<-|[]]. exact HP.
Qed.

Corollary salt_md5_iff h s :
  salt_md5 h = POkP s [] [] false <-> exists r, recog_md5 h = Some r /\ r_salt r = s.
Proof.
  pose proof (salt_md5_recognised h) as H. split.
  - intros E. rewrite E in H. cbn [pview] in H. destruct (recog_md5 h) as [r|]; [|discriminate H].
    exists r. split. reflexivity. cbn [option_map] in H. unfold rparams in H. congruence.
  - intros (r & Er & Es). rewrite Er in H. cbn [option_map] in H. unfold rparams in H.
    destruct (salt_md5 h); cbn [pview] in H; try discriminate H.
    assert (r_flag r = false) as Hf.
    { unfold recog_md5 in Er. repeat match type of Er with
        | (if ?b then _ else _) = _ => destruct b; try discriminate Er
        | match ?x with _ => _ end = _ => destruct x; try discriminate Er
        end. inversion Er. reflexivity. }
    rewrite Hf in H. inversion H; subst. reflexivity.
Qed.

(* ---------------------------------------------------------------- sha256 / sha512 / sha1 *)
Theorem params_sha256_recognised : forall h,
  pview (params_sha256 h) = option_map (rparams (fun r => [num0 r]) false) (recog_sha256 h).
Proof.
  intros h. destruct (has_prefix p_sha256 h) eqn:HP.
  - apply has_prefix_spec in HP. destruct HP as [body ->].
    unfold params_sha256, params_of, unmarshal_top. rewrite parse_sha256, ti_sha256. unfold TI_sha256.
    cbn [bind]. unfold body_tree.
    unfold recog_sha256, recog_sha2. rewrite has_prefix_app. change (skipn 3 (p_sha256 ++ body)) with body. cbv zeta.
    pose proof (sc_plain body [] 3 3) as HF. unfold plain_frags.
    destruct (sc [] 3 3 body None) as [|[[p1 t1]|g1] [|[[p2 t2]|g2] [|[[p3 t3]|g3] [|[[p4 t4]|g4] r]]]];
      split_frags HF body; eval_prefix.
    all: unfold salt_sum_ok, slen, k_rounds, num0, sha2_rounds, rparams; rewrite ?in_alpha_fi.
    all: crunch. all: try reflexivity. all: try uint_alpha.
  - unfold recog_sha256, recog_sha2. rewrite HP. unfold params_sha256.
    eapply foreign_prefix_um with (id := 15%nat); try exact ti_sha256; try reflexivity.
    intros q [<-|[]]. exact HP.
Qed.

Theorem params_sha512_recognised : forall h,
  pview (params_sha512 h) = option_map (rparams (fun r => [num0 r]) false) (recog_sha512 h).
Proof.
  intros h. destruct (has_prefix p_sha512 h) eqn:HP.
  - apply has_prefix_spec in HP. destruct HP as [body ->].
    unfold params_sha512, params_of, unmarshal_top. rewrite parse_sha512, ti_sha512. unfold TI_sha512.
    cbn [bind]. unfold body_tree.
    unfold recog_sha512, recog_sha2. rewrite has_prefix_app. change (skipn 3 (p_sha512 ++ body)) with body. cbv zeta.
    pose proof (sc_plain body [] 3 3) as HF. unfold plain_frags.
    destruct (sc [] 3 3 body None) as [|[[p1 t1]|g1] [|[[p2 t2]|g2] [|[[p3 t3]|g3] [|[[p4 t4]|g4] r]]]];
      split_frags HF body; eval_prefix.
    all: unfold salt_sum_ok, slen, k_rounds, num0, sha2_rounds, rparams; rewrite ?in_alpha_fi.
    all: crunch. all: try reflexivity. all: try uint_alpha.
  - unfold recog_sha512, recog_sha2. rewrite HP. unfold params_sha512.
    eapply foreign_prefix_um with (id := 16%nat); try exact ti_sha512; try reflexivity.
    intros q [<-|[]]. exact HP.
Qed.

Theorem params_sha1_recognised : forall h,
  pview (params_sha1 h) = option_map (rparams (fun r => [num0 r]) false) (recog_sha1 h).
Proof.
  intros h. destruct (has_prefix p_sha1 h) eqn:HP.
  - apply has_prefix_spec in HP. destruct HP as [body ->].
    unfold params_sha1, params_of, unmarshal_top. rewrite parse_sha1, ti_sha1. unfold TI_sha1.
    cbn [bind]. unfold body_tree.
    unfold recog_sha1. rewrite has_prefix_app. change (skipn 6 (p_sha1 ++ body)) with body. cbv zeta.
    pose proof (sc_plain body [] 6 6) as HF. unfold plain_frags.
    destruct (sc [] 6 6 body None) as [|[[p1 t1]|g1] [|[[p2 t2]|g2] [|[[p3 t3]|g3] [|[[p4 t4]|g4] r]]]];
      split_frags HF body; eval_prefix.
    all: unfold salt_sum_ok, slen, num0, rparams; rewrite ?in_alpha_fi.
    all: crunch. all: try reflexivity. all: try uint_alpha.
  - unfold recog_sha1. rewrite HP. unfold params_sha1.
    eapply foreign_prefix_um with (id := 14%nat); try exact ti_sha1; try reflexivity.
    intros q [<-|[]]. exact HP.
Qed.

(* ---------------------------------------------------------------- bcrypt *)
Lemma params_bcrypt_body pre n body :
  parse (pre ++ body) = POk (body_tree (Some pre) n body) ->
  In pre [p_bcrypt_2; p_bcrypt_2a; p_bcrypt_2b] ->
  pview (params_bcrypt (pre ++ body)) =
  option_map (rparams (fun r => [num0 r]) true) (recog_bcrypt_body pre (pre ++ body)).
Proof.
  intros HP Hin.
  unfold params_bcrypt, params_of, unmarshal_top. rewrite HP, ti_bcrypt. unfold TI_bcrypt.
  cbn [bind]. unfold body_tree.
  unfold recog_bcrypt_body. rewrite skipn_app_exact. cbv zeta.
  pose proof (sc_plain body [] n n) as HF. unfold plain_frags.
  destruct (sc [] n n body None) as [|[[p1 t1]|g1] [|[[p2 t2]|g2] [|[[p3 t3]|g3] r]]];
    split_frags HF body.
  all: destruct Hin as [<-|[<-|[<-|[]]]]; eval_prefix.
  all: unfold slen, num0, rparams; try rewrite (in_alpha_split 22 EncHash t2); rewrite ?in_alpha_fi.
  all: crunch. all: try reflexivity. all: try digits_alpha.
Qed.

Theorem params_bcrypt_recognised : forall h,
  pview (params_bcrypt h) = option_map (rparams (fun r => [num0 r]) true) (recog_bcrypt h).
Proof.
  intros h. unfold recog_bcrypt.
  destruct (has_prefix p_bcrypt_2b h) eqn:H2b.
  { apply has_prefix_spec in H2b. destruct H2b as [body ->].
    apply (params_bcrypt_body p_bcrypt_2b 4 body (parse_bcrypt_2b body)). cbn; auto. }
  destruct (has_prefix p_bcrypt_2a h) eqn:H2a.
  { apply has_prefix_spec in H2a. destruct H2a as [body ->].
    apply (params_bcrypt_body p_bcrypt_2a 4 body (parse_bcrypt_2a body)). cbn; auto. }
  destruct (has_prefix p_bcrypt_2 h) eqn:H2.
  { apply has_prefix_spec in H2. destruct H2 as [body ->].
    apply (params_bcrypt_body p_bcrypt_2 3 body (parse_bcrypt_2 body)). cbn; auto. }
  unfold params_bcrypt.
  eapply foreign_prefix_um with (id := 17%nat); try exact ti_bcrypt; try reflexivity.
  intros q [<-|[<-|[<-|[]]]]; assumption.
Qed.

(* ---------------------------------------------------------------- sunmd5 *)
Lemma params_sunmd5_body pre body :
  parse (pre ++ body) = POk (body_tree (Some pre) 5 body) ->
  In pre [p_sunmd5_c; p_sunmd5_d] ->
  pview (params_sunmd5 (pre ++ body)) =
  option_map (rparams (fun r => [num0 r]) true) (recog_sunmd5_body pre (pre ++ body)).
Proof.
  intros HP Hin.
  unfold params_sunmd5, params_of, unmarshal_top. rewrite HP, ti_sunmd5. unfold TI_sunmd5.
  cbn [bind]. unfold body_tree.
  unfold recog_sunmd5_body.
  replace (skipn 5 (pre ++ body)) with body by (destruct Hin as [<-|[<-|[]]]; reflexivity). cbv zeta.
  pose proof (sc_plain body [] 5 5) as HF. unfold plain_frags.
  destruct (sc [] 5 5 body None) as [|[[p1 t1]|g1] [|[[p2 t2]|g2] [|[[p3 t3]|g3] [|[[p4 t4]|g4] [|[[p5 t5]|g5] r]]]]];
    split_frags HF body.
  all: destruct Hin as [<-|[<-|[]]]; eval_prefix.
  all: unfold salt_sum_ok, slen, num0, k_rounds, rparams; rewrite ?in_alpha_fi.
  all: try match goal with HF : [_; _; ?x; _] = _ |- _ => destruct x end.
  all: crunch. all: try reflexivity. all: try uint_alpha.
Qed.

Theorem params_sunmd5_recognised : forall h,
  pview (params_sunmd5 h) = option_map (rparams (fun r => [num0 r]) true) (recog_sunmd5 h).
Proof.
  intros h. unfold recog_sunmd5.
  destruct (has_prefix p_sunmd5_c h) eqn:Hc.
  { apply has_prefix_spec in Hc. destruct Hc as [body ->].
    apply (params_sunmd5_body p_sunmd5_c body (parse_sunmd5_c body)). cbn; auto. }
  destruct (has_prefix p_sunmd5_d h) eqn:Hd.
  { apply has_prefix_spec in Hd. destruct Hd as [body ->].
    apply (params_sunmd5_body p_sunmd5_d body (parse_sunmd5_d body)). cbn; auto. }
  unfold params_sunmd5.
  eapply foreign_prefix_um with (id := 19%nat); try exact ti_sunmd5; try reflexivity.
  intros q [<-|[<-|[]]]; assumption.
Qed.

(* ---------------------------------------------------------------- des / desext *)
Theorem salt_des_recognised : forall h,
  pview (salt_des h) = option_map (rparams (fun _ => []) false) (recog_des h).
Proof.
  intros h. unfold salt_des, params_of, unmarshal_top. rewrite parse_eq, ti_des. unfold parse_fn.
  destruct h as [|c r].
  - reflexivity.
  - destruct (c =? dollar) eqn:Ed.
    { apply Z.eqb_eq in Ed. subst c.
      assert (recog_des (dollar :: r) = None) as ->.
      { unfold recog_des. cbv zeta. rewrite bad_first_char by (reflexivity || lia). reflexivity. }
      destruct (break_delim r) as [a [[d b]|]]; destruct a; try reflexivity.
      cbn [bind]. unfold body_tree.
      destruct (des_prefix_reject dollar ((z :: a) ++ [d]) (length (dollar :: r)) (sc [] (length (dollar :: (z :: a) ++ [d])) (length (dollar :: (z :: a) ++ [d])) b None)) as [e ->].
      reflexivity. }
    destruct (c =? underscore) eqn:Eu.
    { apply Z.eqb_eq in Eu. subst c.
      assert (recog_des (underscore :: r) = None) as ->.
      { unfold recog_des. cbv zeta. rewrite bad_first_char by (reflexivity || lia). reflexivity. }
      cbn [bind]. unfold body_tree.
      destruct (des_prefix_reject underscore [] (length (underscore :: r)) (sc [] 1 1 r None)) as [e ->].
      reflexivity. }
    cbn [bind]. unfold body_tree, TI_des.
    set (h := c :: r).
    pose proof (sc_plain h [] 0 0) as HF.
    unfold recog_des. cbv zeta.
    destruct (in_alpha EncHash (strip_dollar h)) eqn:EA.
    + destruct (alpha_strip_pieces h EA) as [Hc Hp]. rewrite Hc in HF.
      remember (strip_dollar h) as t eqn:Et.
      destruct Hp as [Hp|Hp]; rewrite Hp in HF.
      * apply pieces_nil in Hp. discriminate Hp.
      * destruct (sc [] 0 0 h None) as [|[[p1 t1]|g1] [|f2 fr]]; cbn [fv_texts snd] in HF; try discriminate HF.
        2:{ destruct f2 as [[? ?]|?]; [destruct (fv_texts fr)|]; discriminate HF. }
        injection HF as HF. subst t1.
        unfold unmarshal_tree; cbn [ti_prefix prefix ti_fields ti_numreq frags bind].
        rewrite (in_alpha_split 2 EncHash t) in EA. apply andb_true_iff in EA. destruct EA as [EA1 EA2].
        apply first_invalid_none in EA1. apply first_invalid_none in EA2.
        unfold slen, rparams.
        crunch. all: try reflexivity.
    + rewrite andb_false_r.
      destruct (sc [] 0 0 h None) as [|[[p1 t1]|g1] [|[[p2 t2]|g2] fr]];
        cbn [fv_texts snd] in HF; try (destruct (fv_texts fr)); destruct (has_comma h); try discriminate HF.
      all: unfold unmarshal_tree; cbn [ti_prefix prefix ti_fields ti_numreq frags bind].
      all: crunch. all: try reflexivity.
      exfalso. assert (pieces dollar [] h = [t1]) as HF' by congruence.
      apply pieces_single_strip in HF'. rewrite HF' in EA.
      rewrite (in_alpha_split 2 EncHash t1), !in_alpha_fi in EA.
      match goal with H1 : first_invalid _ (firstn 2 t1) = None, H2 : first_invalid _ (skipn 2 t1) = None |- _ =>
        rewrite H1, H2 in EA end.
      discriminate EA.
Qed.

Theorem params_desext_recognised : forall h,
  pview (params_desext h) = option_map (rparams (fun r => [num0 r]) false) (recog_desext h).
Proof.
  intros h.
  assert (has_prefix [underscore] h = false -> pview (params_desext h) = None) as Hforeign.
  { intros HP. unfold params_desext.
    eapply foreign_prefix_um with (id := 11%nat); try exact ti_desext; try reflexivity.
    intros q [<-|[]]. exact HP. }
  destruct h as [|c t0].
  { rewrite Hforeign by reflexivity. reflexivity. }
  unfold recog_desext.
  destruct (c =? underscore) eqn:Eu.
  2:{ apply Hforeign. unfold has_prefix. rewrite Z.eqb_sym, Eu. reflexivity. }
  apply Z.eqb_eq in Eu. subst c. cbv zeta.
  unfold params_desext, params_of, unmarshal_top. rewrite parse_desext, ti_desext. unfold TI_desext.
  cbn [bind]. unfold body_tree.
  pose proof (sc_plain t0 [] 1 1) as HF.
  destruct (in_alpha EncHash (strip_dollar t0)) eqn:EA.
  - destruct (alpha_strip_pieces t0 EA) as [Hc Hp]. rewrite Hc in HF.
    remember (strip_dollar t0) as t eqn:Et.
    destruct Hp as [Hp|Hp]; rewrite Hp in HF.
    + apply pieces_nil in Hp. subst t0. cbn in Et. subst t. reflexivity.
    + destruct (sc [] 1 1 t0 None) as [|[[p1 t1]|g1] [|f2 fr]]; cbn [fv_texts snd] in HF; try discriminate HF.
      2:{ destruct f2 as [[? ?]|?]; [destruct (fv_texts fr)|]; discriminate HF. }
      injection HF as HF. subst t1.
      eval_prefix.
      pose proof EA as EA0.
      rewrite (in_alpha_split 4 EncHash t), (in_alpha_split 4 EncHash (skipn 4 t)), skipn_skipn' in EA.
      cbn [Nat.add] in EA.
      apply andb_true_iff in EA. destruct EA as [EA1 EA]. apply andb_true_iff in EA. destruct EA as [EA2 EA3].
      pose proof EA1 as EA1'.
      apply first_invalid_none in EA1. apply first_invalid_none in EA2. apply first_invalid_none in EA3.
      unfold slen, num0, rparams.
      crunch. all: try reflexivity.
      rewrite (decode_bridge (firstn 4 t)) by (try rewrite firstn_length; try assumption; lia).
      reflexivity.
  - rewrite andb_false_r.
    destruct (sc [] 1 1 t0 None) as [|[[p1 t1]|g1] [|[[p2 t2]|g2] fr]];
      cbn [fv_texts snd] in HF; try (destruct (fv_texts fr)); destruct (has_comma t0); try discriminate HF.
    all: eval_prefix.
    all: crunch. all: try reflexivity.
    exfalso. assert (pieces dollar [] t0 = [t1]) as HF' by congruence.
    apply pieces_single_strip in HF'. rewrite HF' in EA.
    rewrite (in_alpha_split 4 EncHash t1), (in_alpha_split 4 EncHash (skipn 4 t1)), skipn_skipn', !in_alpha_fi in EA.
    cbn [Nat.add] in EA.
    repeat match goal with H1 : first_invalid _ _ = None |- _ => rewrite H1 in EA; clear H1 end.
    discriminate EA.
Qed.

Print Assumptions salt_md5_recognised.
Print Assumptions params_sha256_recognised.
Print Assumptions params_sha512_recognised.
Print Assumptions params_sha1_recognised.
Print Assumptions params_bcrypt_recognised.
Print Assumptions params_sunmd5_recognised.
Print Assumptions salt_des_recognised.
Print Assumptions params_desext_recognised.
