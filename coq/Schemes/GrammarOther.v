(* The recognisers of Schemes/Recognisers.v characterised by the documented layouts written as explicit
   concatenations: bcrypt, sunmd5.  Reading aids: see GrammarPlain.v / GrammarBase.v. *)
Require Import GC.Schemes.GrammarBase.

Ltac alpha_clean :=
  repeat match goal with
         | H : in_alpha EncHash ?s = true |- _ =>
           lazymatch goal with
           | _ : no_dollar s |- _ => fail
           | _ => pose proof (valid_no_dollar s H); pose proof (valid_no_comma s H)
           end
         | H : ParseUint ?s 10 ?b = inl ?v |- _ =>
           lazymatch goal with
           | _ : no_dollar s |- _ => fail
           | _ => destruct (ParseUint10_no_delims s b v H)
           end
         end.
Ltac comma_free Ht :=
  rewrite !has_comma_app, (opt_dollar_no_comma _ Ht);
  repeat match goal with H : has_comma _ = false |- _ => rewrite H end;
  cbn [has_comma existsb orb]; change (dollar =? comma) with false; cbn [orb].

(* ------------------------------------------------------------------ *)
(* bcrypt: ("$2b$" | "$2a$" | "$2$") digit digit "$" salt22 sum31 ["$"]  *)
(* ------------------------------------------------------------------ *)
Lemma two_digits d1 d2 : is_digit d1 = true -> is_digit d2 = true ->
  ParseUint [d1; d2] 10 8 = inl (10 * (d1 - 48) + (d2 - 48)).
Proof.
  intros H1 H2. apply ParseUint10_iff. lia. split. discriminate. split. cbn [is_digits forallb]. rewrite H1, H2. reflexivity.
  apply is_digit_range in H1. apply is_digit_range in H2. unfold dec_value. cbn [fold_left].
  change (2 ^ 8) with 256. lia.
Qed.

Lemma grammar_bcrypt_body pre body r : recog_bcrypt_body pre (pre ++ body) = Some r <->
  exists d1 d2 salt sum tail,
    body = [d1; d2] ++ [dollar] ++ salt ++ sum ++ tail /\ opt_dollar tail /\
    is_digit d1 = true /\ is_digit d2 = true /\
    length salt = 22%nat /\ in_alpha EncHash salt = true /\ length sum = 31%nat /\ in_alpha EncHash sum = true /\
    r = mk_r salt [10 * (d1 - 48) + (d2 - 48)] pre false sum.
Proof.
  unfold recog_bcrypt_body. rewrite skipn_app_len. split.
  - destruct (has_comma body); [discriminate|].
    destruct (plain_frags body) as [|cost [|rest [|x l]]] eqn:F; try discriminate.
    destruct (slen cost =? 2) eqn:S1; [|discriminate]. cbn [andb].
    destruct (is_digits cost) eqn:D; [|discriminate]. cbn [andb].
    destruct (slen rest =? 53) eqn:S2; [|discriminate]. cbn [andb].
    destruct (in_alpha EncHash rest) eqn:A; [|discriminate].
    change 2 with (Z.of_nat 2) in S1. apply slen_eqb in S1. change 53 with (Z.of_nat 53) in S2. apply slen_eqb in S2.
    destruct cost as [|d1 [|d2 [|]]]; try discriminate S1.
    cbn [is_digits forallb] in D. apply andb_true_iff in D. destruct D as [D1 D2]. rewrite andb_true_r in D2.
    rewrite (two_digits d1 d2 D1 D2). intros [= <-].
    apply pieces_two_iff in F. destruct F as (tail & -> & _ & _ & Ht).
    rewrite (in_alpha_split 22) in A. apply andb_true_iff in A. destruct A as [A1 A2].
    exists d1, d2, (firstn 22 rest), (skipn 22 rest), tail.
    split. rewrite (app_assoc (firstn 22 rest)), firstn_skipn. reflexivity.
    split. eapply last_tail_opt; eauto. split. exact D1. split. exact D2.
    split. rewrite firstn_length. lia. split. exact A1. split. rewrite skipn_length. lia. auto.
  - intros (d1 & d2 & salt & sum & tail & -> & Ht & D1 & D2 & L1 & A1 & L2 & A2 & ->).
    pose proof (two_digits d1 d2 D1 D2) as U. alpha_clean.
    rewrite (app_assoc salt). comma_free Ht.
    assert (in_alpha EncHash (salt ++ sum) = true) as A by (rewrite in_alpha_app, A1, A2; reflexivity).
    assert (plain_frags ([d1; d2] ++ [dollar] ++ (salt ++ sum) ++ tail) = [[d1; d2]; salt ++ sum]) as ->.
    { apply pieces_two_iff. exists tail. split. reflexivity. split. assumption. split. apply valid_no_dollar. exact A.
      apply (last_tail_fixed _ _ 52); [rewrite app_length; lia | exact Ht]. }
    change 2 with (Z.of_nat 2). change 53 with (Z.of_nat 53).
    rewrite (proj2 (slen_eqb [d1; d2] 2)) by reflexivity.
    rewrite (proj2 (slen_eqb (salt ++ sum) 53)) by (rewrite app_length; lia).
    cbn [is_digits forallb]. rewrite D1, D2, A, U. cbn [andb].
    rewrite (firstn_app_len salt sum 22 L1), (skipn_app_len' salt sum 22 L1). reflexivity.
Qed.

Theorem grammar_bcrypt h r : recog_bcrypt h = Some r <->
  exists pre d1 d2 salt sum tail,
    h = pre ++ [d1; d2] ++ [dollar] ++ salt ++ sum ++ tail /\ opt_dollar tail /\
    (pre = p_bcrypt_2b \/ pre = p_bcrypt_2a \/ pre = p_bcrypt_2) /\
    is_digit d1 = true /\ is_digit d2 = true /\
    length salt = 22%nat /\ in_alpha EncHash salt = true /\ length sum = 31%nat /\ in_alpha EncHash sum = true /\
    r = mk_r salt [10 * (d1 - 48) + (d2 - 48)] pre false sum.
Proof.
  split.
  - unfold recog_bcrypt.
    destruct (has_prefix p_bcrypt_2b h) eqn:P1; [|destruct (has_prefix p_bcrypt_2a h) eqn:P2;
      [|destruct (has_prefix p_bcrypt_2 h) eqn:P3; [|discriminate]]];
    match goal with P : has_prefix ?p h = true |- _ => apply has_prefix_spec in P; destruct P as [body ->] end;
    intros H; apply grammar_bcrypt_body in H;
    destruct H as (d1 & d2 & salt & sum & tail & -> & Ht & D1 & D2 & L1 & A1 & L2 & A2 & ->);
    match goal with |- context [?p ++ [d1; d2] ++ _] => exists p end;
    exists d1, d2, salt, sum, tail; auto 12.
  - intros (pre & d1 & d2 & salt & sum & tail & -> & Ht & Hp & R).
    assert (recog_bcrypt_body pre (pre ++ [d1; d2] ++ [dollar] ++ salt ++ sum ++ tail) = Some r) as B.
    { apply grammar_bcrypt_body. exists d1, d2, salt, sum, tail. auto. }
    unfold recog_bcrypt. destruct Hp as [-> |[-> | ->]].
    + rewrite has_prefix_app. exact B.
    + change (has_prefix p_bcrypt_2b (p_bcrypt_2a ++ ?x)) with false. cbv iota. rewrite has_prefix_app. exact B.
    + change (has_prefix p_bcrypt_2b (p_bcrypt_2 ++ [d1; d2] ++ ?x)) with false.
      change (has_prefix p_bcrypt_2a (p_bcrypt_2 ++ [d1; d2] ++ ?x)) with false. cbv iota.
      rewrite has_prefix_app. exact B.
Qed.
Print Assumptions grammar_bcrypt.

(* ------------------------------------------------------------------ *)
(* sunmd5: ("$md5," | "$md5$") "rounds=" digits "$" (sum22 | salt "$" sum22 | salt "$$" sum22) ["$"]       *)
(* ------------------------------------------------------------------ *)
Lemma grammar_sunmd5_body pre a b c d e body r : recog_sunmd5_body pre ([a; b; c; d; e] ++ body) = Some r <->
  exists digits v salt sum tail,
    opt_dollar tail /\ ParseUint digits 10 32 = inl v /\
    in_alpha EncHash salt = true /\ length sum = 22%nat /\ in_alpha EncHash sum = true /\
    ((body = k_rounds ++ digits ++ [dollar] ++ sum ++ tail /\ salt = [] /\ r = mk_r [] [v] pre true sum) \/
     (body = k_rounds ++ digits ++ [dollar] ++ salt ++ [dollar] ++ sum ++ tail /\ r = mk_r salt [v] pre true sum) \/
     (body = k_rounds ++ digits ++ [dollar] ++ salt ++ [dollar; dollar] ++ sum ++ tail /\ r = mk_r salt [v] pre false sum)).
Proof.
  unfold recog_sunmd5_body. change (skipn 5 ([a; b; c; d; e] ++ body)) with body. cbv zeta. split.
  - destruct (has_comma body); [discriminate|].
    destruct (plain_frags body) as [|ro rest] eqn:F; [discriminate|].
    destruct (has_prefix k_rounds ro) eqn:P; [|discriminate]. cbn [andb].
    apply has_prefix_spec in P. destruct P as [ds ->]. change (skipn 7 (k_rounds ++ ds)) with ds.
    destruct (in_alpha EncHash ds); [|discriminate].
    destruct (ParseUint ds 10 32) as [v|] eqn:U; [|discriminate].
    destruct rest as [|x1 [|x2 [|x3 [|x l]]]]; try discriminate.
    + destruct (salt_sum_ok [] x1 22) eqn:S; [|discriminate]. intros [= <-].
      change 22 with (Z.of_nat 22) in S. apply salt_sum_ok_iff in S. destruct S as (A & B & C).
      apply pieces_two_iff in F. destruct F as (tail & -> & _ & _ & Ht).
      exists ds, v, [], x1, tail. split. eapply last_tail_opt; eauto. split. exact U. split. exact A. split. exact B.
      split. exact C. left. rewrite <- !app_assoc. auto.
    + destruct (salt_sum_ok x1 x2 22) eqn:S; [|discriminate]. intros [= <-].
      change 22 with (Z.of_nat 22) in S. apply salt_sum_ok_iff in S. destruct S as (A & B & C).
      apply pieces_three_iff in F. destruct F as (tail & -> & _ & _ & _ & Ht).
      exists ds, v, x1, x2, tail. split. eapply last_tail_opt; eauto. split. exact U. split. exact A. split. exact B.
      split. exact C. right. left. rewrite <- !app_assoc. auto.
    + destruct x2; cbn [nil_b]; [|discriminate].
      destruct (salt_sum_ok x1 x3 22) eqn:S; [|discriminate]. intros [= <-].
      change 22 with (Z.of_nat 22) in S. apply salt_sum_ok_iff in S. destruct S as (A & B & C).
      apply pieces_four_iff in F. destruct F as (tail & -> & _ & _ & _ & _ & Ht).
      exists ds, v, x1, x3, tail. split. eapply last_tail_opt; eauto. split. exact U. split. exact A. split. exact B.
      split. exact C. right. right. rewrite <- !app_assoc. auto.
  - intros (ds & v & salt & sum & tail & Ht & U & A & B & C & [(-> & -> & ->)|[(-> & ->)|(-> & ->)]]); alpha_clean;
      comma_free Ht.
    + assert (plain_frags (k_rounds ++ ds ++ [dollar] ++ sum ++ tail) = [k_rounds ++ ds; sum]) as ->.
      { apply pieces_two_iff. exists tail. split. rewrite <- !app_assoc. reflexivity.
        split. apply no_dollar_app. split. reflexivity. assumption. split. assumption.
        eapply last_tail_fixed; eauto. }
      rewrite has_prefix_app. change (skipn 7 (k_rounds ++ ds)) with ds.
      rewrite (is_digits_alpha ds (ParseUint10_digits ds 32 v U)), U. cbn [andb].
      change 22 with (Z.of_nat 22). rewrite (proj2 (salt_sum_ok_iff [] sum 22)) by auto. reflexivity.
    + assert (plain_frags (k_rounds ++ ds ++ [dollar] ++ salt ++ [dollar] ++ sum ++ tail) = [k_rounds ++ ds; salt; sum]) as ->.
      { apply pieces_three_iff. exists tail. split. rewrite <- !app_assoc. reflexivity.
        split. apply no_dollar_app. split. reflexivity. assumption. split. assumption. split. assumption.
        eapply last_tail_fixed; eauto. }
      rewrite has_prefix_app. change (skipn 7 (k_rounds ++ ds)) with ds.
      rewrite (is_digits_alpha ds (ParseUint10_digits ds 32 v U)), U. cbn [andb].
      change 22 with (Z.of_nat 22). rewrite (proj2 (salt_sum_ok_iff salt sum 22)) by auto. reflexivity.
    + assert (plain_frags (k_rounds ++ ds ++ [dollar] ++ salt ++ [dollar; dollar] ++ sum ++ tail) = [k_rounds ++ ds; salt; []; sum]) as ->.
      { apply pieces_four_iff. exists tail. split. rewrite <- !app_assoc. reflexivity.
        split. apply no_dollar_app. split. reflexivity. assumption. split. assumption. split. reflexivity. split. assumption.
        eapply last_tail_fixed; eauto. }
      rewrite has_prefix_app. change (skipn 7 (k_rounds ++ ds)) with ds.
      rewrite (is_digits_alpha ds (ParseUint10_digits ds 32 v U)), U. cbn [andb nil_b].
      change 22 with (Z.of_nat 22). rewrite (proj2 (salt_sum_ok_iff salt sum 22)) by auto. reflexivity.
Qed.

Theorem grammar_sunmd5 h r : recog_sunmd5 h = Some r <->
  exists pre digits v salt sum tail,
    (pre = p_sunmd5_c \/ pre = p_sunmd5_d) /\ opt_dollar tail /\ ParseUint digits 10 32 = inl v /\
    in_alpha EncHash salt = true /\ length sum = 22%nat /\ in_alpha EncHash sum = true /\
    ((h = pre ++ k_rounds ++ digits ++ [dollar] ++ sum ++ tail /\ salt = [] /\ r = mk_r [] [v] pre true sum) \/
     (h = pre ++ k_rounds ++ digits ++ [dollar] ++ salt ++ [dollar] ++ sum ++ tail /\ r = mk_r salt [v] pre true sum) \/
     (h = pre ++ k_rounds ++ digits ++ [dollar] ++ salt ++ [dollar; dollar] ++ sum ++ tail /\ r = mk_r salt [v] pre false sum)).
Proof.
  split.
  - unfold recog_sunmd5.
    destruct (has_prefix p_sunmd5_c h) eqn:P1; [|destruct (has_prefix p_sunmd5_d h) eqn:P2; [|discriminate]];
    match goal with P : has_prefix ?p h = true |- _ => apply has_prefix_spec in P; destruct P as [body ->] end;
    intros H; match type of H with recog_sunmd5_body ?p _ = _ =>
      apply grammar_sunmd5_body in H; destruct H as (ds & v & salt & sum & tail & Ht & U & A & B & C & H); exists p end;
    exists ds, v, salt, sum, tail;
    (split; [auto|]); (split; [exact Ht|]); (split; [exact U|]); (split; [exact A|]); (split; [exact B|]); (split; [exact C|]);
    destruct H as [(-> & -> & ->)|[(-> & ->)|(-> & ->)]]; auto.
  - intros (pre & ds & v & salt & sum & tail & Hp & Ht & U & A & B & C & H).
    assert (exists body, recog_sunmd5_body pre (pre ++ body) = Some r /\ h = pre ++ body) as (body & Hb & ->).
    { destruct H as [(-> & -> & ->)|[(-> & ->)|(-> & ->)]]; eexists; (split; [|reflexivity]);
        destruct Hp as [-> | ->]; apply grammar_sunmd5_body; exists ds, v; [exists [] | exists [] | exists salt | exists salt | exists salt | exists salt];
        exists sum, tail; auto 12. }
    unfold recog_sunmd5. destruct Hp as [-> | ->].
    + rewrite has_prefix_app. exact Hb.
    + change (has_prefix p_sunmd5_c (p_sunmd5_d ++ body)) with false. cbv iota. rewrite has_prefix_app. exact Hb.
Qed.
Print Assumptions grammar_sunmd5.
