(* C02, second sentence, "any change to a digest character": the digest text replaced by ANY byte string of the same
   length (characters outside the digest alphabet, '$', ',' included).  Per scheme X:
     X_recog_any          the recogniser accepts canon_X .. salt sum' (sum' of the digest length) only if sum' is of the
                          field's alphabet
     X_digest_any         X_digest_tamper (TamperPlain.v / TamperOther.v) without the alphabet hypothesis
     X_digest_change_fresh  the fresh hash of pw with its digest replaced by any other byte string of the same length
                          never verifies
   The length hypothesis is necessary: canon_X .. salt (d ++ "$") verifies (one bare trailing '$' is tolerated by the
   parser for every scheme). *)
Require Import GC.Schemes.FreshBase GC.Schemes.FreshPlain GC.Schemes.FreshOther.
Require Import GC.Schemes.TamperPlain GC.Schemes.TamperOther.
Require Import GC.Schemes.RandProofs GC.Schemes.NoPanic GC.Schemes.DomainProofs.

Local Notation salt_ok s := (in_alpha EncHash s = true).
Local Notation benc := (be64_encode bcrypt_std_alphabet).
Local Notation aenc := (be64_encode base64_std_alphabet).

(* ------------------------------------------------------------------ *)
(* alphabets, back from the codec's tables                             *)
(* ------------------------------------------------------------------ *)
Lemma valid_over_crypt s : in_alpha EncHash s = true -> over crypt_alphabet s.
Proof.
  unfold in_alpha, over. rewrite forallb_forall, Forall_forall. intros H c Hc. specialize (H c Hc).
  apply hash_alphabet_exact. apply valid_range. exact H. exact H.
Qed.

Lemma valid64_range c : valid_char EncBase64 c = true -> 0 <= c < 256.
Proof.
  unfold valid_char. intros H. apply negb_true_iff in H. apply Z.eqb_neq in H.
  destruct (Z_lt_dec c 0) as [Hn|Hn].
  - exfalso. apply H. destruct c; try lia. reflexivity.
  - split. lia. destruct (Z_lt_dec c 256) as [Hl|Hl]. exact Hl.
    exfalso. apply H. apply nth_overflow. change (length m_hashutil_base64_decode) with 256%nat. lia.
Qed.

Lemma valid_over_std s : in_alpha EncBase64 s = true -> over base64_std_alphabet s.
Proof.
  unfold in_alpha, over. rewrite forallb_forall, Forall_forall. intros H c Hc. specialize (H c Hc).
  apply base64_alphabet_exact. apply valid64_range. exact H. exact H.
Qed.

(* the bcrypt alphabet is the crypt alphabet in another order *)
Lemma crypt_in_bcrypt c : In c crypt_alphabet -> In c bcrypt_std_alphabet.
Proof.
  intros H. apply mem_In.
  assert (forallb (fun c => mem c bcrypt_std_alphabet) crypt_alphabet = true) as S by (vm_compute; reflexivity).
  rewrite forallb_forall in S. apply S. exact H.
Qed.

Lemma valid_over_bcrypt s : in_alpha EncHash s = true -> over bcrypt_std_alphabet s.
Proof.
  intros H. apply valid_over_crypt in H. unfold over in *. rewrite Forall_forall in *.
  intros c Hc. apply crypt_in_bcrypt, H, Hc.
Qed.

(* ------------------------------------------------------------------ *)
(* the pieces of an arbitrary text                                     *)
(* ------------------------------------------------------------------ *)
Lemma single_piece_len x s : pieces dollar [] x = [s] -> length s = length x -> s = x.
Proof.
  intros H Hl. destruct (pieces_single x [] s H) as [[_ E]|(t & _ & Ex & Es)]; cbn [rev app] in *.
  - exact E.
  - subst x s. rewrite app_length in Hl. cbn [length] in Hl. lia.
Qed.

Lemma salt_sum_ok_inv salt sum n :
  salt_sum_ok salt sum n = true -> Z.of_nat (length sum) = n /\ in_alpha EncHash sum = true.
Proof.
  unfold salt_sum_ok, slen. intros H. apply andb_true_iff in H. destruct H as [H H3].
  apply andb_true_iff in H. destruct H as [_ H2]. apply Z.eqb_eq in H2. auto.
Qed.

(* a verifying hash is one the recogniser accepts *)
Lemma spec_match_some (o : option rfields) (f : rfields -> nat) :
  match o with None => 2%nat | Some r => f r end = 0%nat -> o <> None.
Proof. destruct o. discriminate. discriminate. Qed.

(* ================================================================== md5 *)
Lemma md5_recog_any salt sum' :
  salt_ok salt -> length sum' = 22%nat -> recog_md5 (canon_md5 salt sum') <> None -> salt_ok sum'.
Proof.
  intros Hs Hl. unfold recog_md5, canon_md5. rewrite has_prefix_app.
  change (skipn 3 (m_md5_Prefix ++ salt ++ dollar :: sum')) with (salt ++ dollar :: sum'). cbv zeta.
  destruct (has_comma (salt ++ dollar :: sum')). congruence.
  unfold plain_frags. rewrite pieces_step0 by (apply valid_no_dollar; exact Hs).
  destruct (pieces dollar [] sum') as [|s [|s2 ps]] eqn:E; try congruence.
  destruct (salt_sum_ok salt s 22) eqn:Ok; [|congruence]. intros _.
  apply salt_sum_ok_inv in Ok. destruct Ok as [Hn Ha].
  rewrite <- (single_piece_len sum' s E) by lia. exact Ha.
Qed.

Theorem md5_digest_any : forall kdf pw salt sum',
  (forall bs ns k, kdf T_md5 bs ns = Some k -> length k = 16%nat) ->
  over crypt_alphabet salt -> length sum' = 22%nat ->
  check_md5 L0 kdf (canon_md5 salt sum') pw = VMatch ->
  over crypt_alphabet sum' /\ exists key, key_md5 L0 kdf pw salt = KOk key /\ le64 key = sum'.
Proof.
  intros kdf pw salt sum' Hk Hs Hl Hv.
  assert (over crypt_alphabet sum') as Ho.
  { apply valid_over_crypt, (md5_recog_any salt); auto using crypt_valid.
    apply class_of_0 in Hv. rewrite (md5_classified L0 kdf _ pw Hk) in Hv. exact (spec_match_some _ _ Hv). }
  split. exact Ho. apply md5_digest_tamper; assumption.
Qed.

Theorem md5_digest_change_fresh : forall kdf stream pw, kdf_ok kdf T_md5 16 -> good_stream stream 8 ->
  forall h, newhash_md5 L0 kdf stream pw = NOk h ->
  exists key, key_md5 L0 kdf pw (salt_hash 8 stream) = KOk key /\ h = canon_md5 (salt_hash 8 stream) (le64 key) /\
  forall sum', length sum' = 22%nat -> sum' <> le64 key ->
    check_md5 L0 kdf (canon_md5 (salt_hash 8 stream) sum') pw <> VMatch.
Proof.
  intros kdf stream pw Hk Hs h Eh.
  destruct (md5_digest_tamper_fresh kdf stream pw Hk Hs h Eh) as (key & Ek & Eh' & _).
  exists key. split. exact Ek. split. exact Eh'. intros sum' Hl Hne Hv.
  destruct (md5_digest_any kdf pw (salt_hash 8 stream) sum' (kdf_ok_len _ _ _ Hk) (salt_hash_over 8 stream Hs) Hl Hv)
    as (_ & key' & Ek' & Es). rewrite Ek in Ek'. injection Ek' as <-. apply Hne. symmetry. exact Es.
Qed.

(* ================================================================== sha256 / sha512 *)
Lemma sha2_recog_any pre sumlen impl n rounds salt sum' :
  length pre = 3%nat -> 0 < rounds < 2 ^ 32 -> salt_ok salt -> length sum' = S n -> Z.of_nat (S n) = sumlen ->
  recog_sha2 pre sumlen impl (canon_sha2 pre rounds salt sum') <> None -> salt_ok sum'.
Proof.
  intros Hp Hr Hs Hl Hn. unfold recog_sha2, canon_sha2. rewrite has_prefix_app.
  rewrite (skipn_len_app _ _ _ Hp). cbv zeta.
  pose proof (FormatUint10_alpha rounds ltac:(lia)) as Hf.
  rewrite (app_assoc k_rounds).
  destruct (has_comma _). congruence.
  unfold plain_frags.
  rewrite pieces_step0.
  2:{ apply no_dollar_app. split. reflexivity. apply valid_no_dollar, Hf. }
  rewrite pieces_step0 by (apply valid_no_dollar; exact Hs).
  destruct (pieces dollar [] sum') as [|s [|s2 ps]] eqn:E.
  - apply pieces_nil in E. subst sum'. discriminate Hl.
  - rewrite has_prefix_app. destruct (ParseUint _ 10 32); [|congruence].
    destruct (salt_sum_ok salt s sumlen) eqn:Ok; [|congruence]. intros _.
    apply salt_sum_ok_inv in Ok. destruct Ok as [Hn' Ha].
    rewrite <- (single_piece_len sum' s E) by lia. exact Ha.
  - congruence.
Qed.

Theorem sha256_digest_any : forall kdf pw rounds salt sum',
  (forall bs ns k, kdf T_sha256 bs ns = Some k -> length k = 32%nat) ->
  0 < rounds < 2 ^ 32 -> over crypt_alphabet salt -> length sum' = 43%nat ->
  check_sha256 L0 kdf (canon_sha256 rounds salt sum') pw = VMatch ->
  over crypt_alphabet sum' /\ exists key, key_sha256 L0 kdf pw salt rounds = KOk key /\ le64 key = sum'.
Proof.
  intros kdf pw rounds salt sum' Hk Hr Hs Hl Hv.
  assert (over crypt_alphabet sum') as Ho.
  { apply valid_over_crypt, (sha2_recog_any p_sha256 43 5000 42 rounds salt); auto using crypt_valid.
    apply class_of_0 in Hv. rewrite (sha256_classified L0 kdf _ pw Hk) in Hv. exact (spec_match_some _ _ Hv). }
  split. exact Ho. apply sha256_digest_tamper; assumption.
Qed.

Theorem sha512_digest_any : forall kdf pw rounds salt sum',
  (forall bs ns k, kdf T_sha512 bs ns = Some k -> length k = 64%nat) ->
  0 < rounds < 2 ^ 32 -> over crypt_alphabet salt -> length sum' = 86%nat ->
  check_sha512 L0 kdf (canon_sha512 rounds salt sum') pw = VMatch ->
  over crypt_alphabet sum' /\ exists key, key_sha512 L0 kdf pw salt rounds = KOk key /\ le64 key = sum'.
Proof.
  intros kdf pw rounds salt sum' Hk Hr Hs Hl Hv.
  assert (over crypt_alphabet sum') as Ho.
  { apply valid_over_crypt, (sha2_recog_any p_sha512 86 5000 85 rounds salt); auto using crypt_valid.
    apply class_of_0 in Hv. rewrite (sha512_classified L0 kdf _ pw Hk) in Hv. exact (spec_match_some _ _ Hv). }
  split. exact Ho. apply sha512_digest_tamper; assumption.
Qed.

Theorem sha256_digest_change_fresh : forall kdf stream pw rounds, kdf_ok kdf T_sha256 32 -> good_stream stream 16 ->
  L_sha256_MinRounds L0 <= rounds <= L_sha256_MaxRounds L0 ->
  forall h, newhash_sha256 L0 kdf stream pw rounds = NOk h ->
  exists key, key_sha256 L0 kdf pw (salt_hash 16 stream) rounds = KOk key /\
  h = canon_sha256 rounds (salt_hash 16 stream) (le64 key) /\
  forall sum', length sum' = 43%nat -> sum' <> le64 key ->
    check_sha256 L0 kdf (canon_sha256 rounds (salt_hash 16 stream) sum') pw <> VMatch.
Proof.
  intros kdf stream pw rounds Hk Hs Hr h Eh.
  destruct (sha256_digest_tamper_fresh kdf stream pw rounds Hk Hs Hr h Eh) as (key & Ek & Eh' & _).
  exists key. split. exact Ek. split. exact Eh'. intros sum' Hl Hne Hv.
  destruct (sha256_digest_any kdf pw rounds (salt_hash 16 stream) sum' (kdf_ok_len _ _ _ Hk) (sha256_rounds32 rounds Hr)
              (salt_hash_over 16 stream Hs) Hl Hv) as (_ & key' & Ek' & Es).
  rewrite Ek in Ek'. injection Ek' as <-. apply Hne. symmetry. exact Es.
Qed.

Theorem sha512_digest_change_fresh : forall kdf stream pw rounds, kdf_ok kdf T_sha512 64 -> good_stream stream 16 ->
  L_sha512_MinRounds L0 <= rounds <= L_sha512_MaxRounds L0 ->
  forall h, newhash_sha512 L0 kdf stream pw rounds = NOk h ->
  exists key, key_sha512 L0 kdf pw (salt_hash 16 stream) rounds = KOk key /\
  h = canon_sha512 rounds (salt_hash 16 stream) (le64 key) /\
  forall sum', length sum' = 86%nat -> sum' <> le64 key ->
    check_sha512 L0 kdf (canon_sha512 rounds (salt_hash 16 stream) sum') pw <> VMatch.
Proof.
  intros kdf stream pw rounds Hk Hs Hr h Eh.
  destruct (sha512_digest_tamper_fresh kdf stream pw rounds Hk Hs Hr h Eh) as (key & Ek & Eh' & _).
  exists key. split. exact Ek. split. exact Eh'. intros sum' Hl Hne Hv.
  destruct (sha512_digest_any kdf pw rounds (salt_hash 16 stream) sum' (kdf_ok_len _ _ _ Hk) (sha512_rounds32 rounds Hr)
              (salt_hash_over 16 stream Hs) Hl Hv) as (_ & key' & Ek' & Es).
  rewrite Ek in Ek'. injection Ek' as <-. apply Hne. symmetry. exact Es.
Qed.

(* ================================================================== sha1 *)
Lemma sha1_recog_any rounds salt sum' :
  0 <= rounds < 2 ^ 32 -> salt_ok salt -> length sum' = 28%nat ->
  recog_sha1 (canon_sha1 rounds salt sum') <> None -> salt_ok sum'.
Proof.
  intros Hr Hs Hl. unfold recog_sha1, canon_sha1. rewrite has_prefix_app.
  rewrite (skipn_len_app m_sha1_Prefix _ 6 eq_refl). cbv zeta.
  pose proof (FormatUint10_alpha rounds ltac:(lia)) as Hf.
  destruct (has_comma _). congruence.
  unfold plain_frags.
  rewrite pieces_step0 by (apply valid_no_dollar; exact Hf).
  rewrite pieces_step0 by (apply valid_no_dollar; exact Hs).
  destruct (pieces dollar [] sum') as [|s [|s2 ps]] eqn:E; try congruence.
  destruct (in_alpha EncHash (FormatUint rounds 10)); [|congruence].
  destruct (ParseUint _ 10 32); [|congruence].
  destruct (salt_sum_ok salt s 28) eqn:Ok; [|congruence]. intros _.
  apply salt_sum_ok_inv in Ok. destruct Ok as [Hn' Ha].
  rewrite <- (single_piece_len sum' s E) by lia. exact Ha.
Qed.

Theorem sha1_digest_any : forall kdf rr pw rounds salt sum',
  (forall bs ns k, kdf T_sha1 bs ns = Some k -> length k = 21%nat) ->
  0 <= rounds < 2 ^ 32 -> over crypt_alphabet salt -> length sum' = 28%nat ->
  check_sha1 L0 kdf rr (canon_sha1 rounds salt sum') pw = VMatch ->
  over crypt_alphabet sum' /\ exists key, key_sha1 L0 kdf rr pw salt rounds = KOk key /\ le64 key = sum'.
Proof.
  intros kdf rr pw rounds salt sum' Hk Hr Hs Hl Hv.
  assert (over crypt_alphabet sum') as Ho.
  { apply valid_over_crypt, (sha1_recog_any rounds salt); auto using crypt_valid.
    apply class_of_0 in Hv. rewrite (sha1_classified L0 kdf rr _ pw Hk) in Hv. exact (spec_match_some _ _ Hv). }
  split. exact Ho. apply sha1_digest_tamper; assumption.
Qed.

Theorem sha1_digest_change_fresh : forall kdf stream pw rounds, kdf_ok kdf T_sha1 21 -> good_stream stream 8 ->
  L_sha1_MinRounds L0 <= rounds < 2 ^ 32 -> rounds <> L_sha1_RandomRounds L0 ->
  forall h, newhash_sha1 L0 kdf stream pw rounds = NOk h ->
  exists key, (forall rr, key_sha1 L0 kdf rr pw (salt_hash 8 stream) rounds = KOk key) /\
  h = canon_sha1 rounds (salt_hash 8 stream) (le64 key) /\
  forall rr sum', length sum' = 28%nat -> sum' <> le64 key ->
    check_sha1 L0 kdf rr (canon_sha1 rounds (salt_hash 8 stream) sum') pw <> VMatch.
Proof.
  intros kdf stream pw rounds Hk Hs Hr Hne h Eh.
  destruct (sha1_digest_tamper_fresh kdf stream pw rounds Hk Hs Hr Hne h Eh) as (key & Ek & Eh' & _).
  exists key. split. exact Ek. split. exact Eh'. intros rr sum' Hl Hn Hv.
  destruct (sha1_digest_any kdf rr pw rounds (salt_hash 8 stream) sum' (kdf_ok_len _ _ _ Hk) (sha1_rounds32 rounds Hr)
              (salt_hash_over 8 stream Hs) Hl Hv) as (_ & key' & Ek' & Es).
  rewrite (Ek rr) in Ek'. injection Ek' as <-. apply Hn. symmetry. exact Es.
Qed.

Theorem sha1_random_digest_change_fresh : forall kdf stream pw, kdf_ok kdf T_sha1 21 -> good_stream stream 12 ->
  forall h, newhash_sha1 L0 kdf stream pw (L_sha1_RandomRounds L0) = NOk h ->
  let drawn := fst (rand_rounds m_sha1_randomHint stream) in
  let rest := snd (rand_rounds m_sha1_randomHint stream) in
  exists key, (forall rr, key_sha1 L0 kdf rr pw (salt_hash 8 rest) drawn = KOk key) /\
  h = canon_sha1 drawn (salt_hash 8 rest) (le64 key) /\
  forall rr sum', length sum' = 28%nat -> sum' <> le64 key ->
    check_sha1 L0 kdf rr (canon_sha1 drawn (salt_hash 8 rest) sum') pw <> VMatch.
Proof.
  intros kdf stream pw Hk Hs h Eh drawn rest.
  destruct (sha1_random_digest_tamper_fresh kdf stream pw Hk Hs h Eh) as (key & Ek & Eh' & _).
  fold drawn rest in Ek, Eh'.
  destruct (sha1_random_side stream Hs) as (A & B & C). fold drawn rest in A, B, C.
  exists key. split. exact Ek. split. exact Eh'. intros rr sum' Hl Hn Hv.
  destruct (sha1_digest_any kdf rr pw drawn (salt_hash 8 rest) sum' (kdf_ok_len _ _ _ Hk) (sha1_rounds32 drawn B)
              (salt_hash_over 8 rest A) Hl Hv) as (_ & key' & Ek' & Es).
  rewrite (Ek rr) in Ek'. injection Ek' as <-. apply Hn. symmetry. exact Es.
Qed.

(* ================================================================== nthash *)
(* the recogniser (and the codec) accept any 32 characters of the crypt alphabet in the digest field; a character
   outside 0-9a-f then fails the comparison *)
Lemma nthash_recog_any sum' :
  length sum' = 32%nat -> recog_nthash (canon_nthash sum') <> None -> salt_ok sum'.
Proof.
  intros Hl. unfold recog_nthash, canon_nthash. rewrite has_prefix_app.
  rewrite (skipn_len_app m_nthash_Prefix _ 3 eq_refl). cbv zeta.
  destruct (has_comma _). congruence.
  unfold plain_frags. change (pieces dollar [] (dollar :: sum')) with ([] :: pieces dollar [] sum').
  destruct (pieces dollar [] sum') as [|s [|s2 ps]] eqn:E; try congruence.
  cbn [nil_b andb]. destruct (slen s =? 32) eqn:E1; [|cbn [andb]; congruence].
  destruct (in_alpha EncHash s) eqn:E2; [|cbn [andb]; congruence]. intros _.
  apply Z.eqb_eq in E1. unfold slen in E1.
  rewrite <- (single_piece_len sum' s E) by lia. exact E2.
Qed.

Lemma nthash_canon_class_a L kdf nt pw sum :
  (forall bs ns k, kdf T_nthash bs ns = Some k -> length k = 16%nat) ->
  salt_ok sum -> length sum = 32%nat ->
  class_of (check_nthash L kdf nt (canon_nthash sum) pw) = class_key hex_encode (key_nthash L kdf (nt pw)) sum.
Proof.
  intros Hk Hd Hl. rewrite (nthash_classified L kdf nt _ pw Hk). unfold spec_nthash.
  rewrite recog_nthash_canon by assumption. reflexivity.
Qed.

Theorem nthash_digest_any : forall kdf nt pw sum',
  (forall bs ns k, kdf T_nthash bs ns = Some k -> length k = 16%nat) ->
  length sum' = 32%nat ->
  check_nthash L0 kdf nt (canon_nthash sum') pw = VMatch ->
  exists key, key_nthash L0 kdf (nt pw) = KOk key /\ hex_encode key = sum'.
Proof.
  intros kdf nt pw sum' Hk Hl Hv.
  assert (salt_ok sum') as Ho.
  { apply nthash_recog_any. exact Hl.
    apply class_of_0 in Hv. rewrite (nthash_classified L0 kdf nt _ pw Hk) in Hv. exact (spec_match_some _ _ Hv). }
  revert Hv. apply tamper_match, nthash_canon_class_a; assumption.
Qed.

Theorem nthash_digest_change_fresh : forall kdf nt pw, kdf_ok kdf T_nthash 16 ->
  len (nt pw) mod 2 = 0 -> len (nt pw) <= L_nthash_MaxPw L0 ->
  forall h, newhash_nthash L0 kdf nt pw = NOk h ->
  exists key, key_nthash L0 kdf (nt pw) = KOk key /\ h = canon_nthash (hex_encode key) /\
  forall sum', length sum' = 32%nat -> sum' <> hex_encode key ->
    check_nthash L0 kdf nt (canon_nthash sum') pw <> VMatch.
Proof.
  intros kdf nt pw Hk He Hm h Eh.
  destruct (nthash_digest_tamper_fresh kdf nt pw Hk He Hm h Eh) as (key & Ek & Eh' & _).
  exists key. split. exact Ek. split. exact Eh'. intros sum' Hl Hne Hv.
  destruct (nthash_digest_any kdf nt pw sum' (kdf_ok_len _ _ _ Hk) Hl Hv) as (key' & Ek' & Es).
  rewrite Ek in Ek'. injection Ek' as <-. apply Hne. symmetry. exact Es.
Qed.

(* ================================================================== des *)
Lemma strip_same_len h : length (strip_dollar h) = length h -> strip_dollar h = h.
Proof.
  intros H. destruct (strip_dollar_cases h) as [E|E]. symmetry. exact E.
  rewrite E in H at 2. rewrite app_length in H. cbn [length] in H. lia.
Qed.

Lemma des_recog_any salt sum' :
  length salt = 2%nat -> length sum' = 11%nat -> recog_des (canon_des salt sum') <> None -> salt_ok sum'.
Proof.
  intros Hls Hl. unfold recog_des, canon_des. cbv zeta.
  destruct (slen (strip_dollar (salt ++ sum')) =? 13) eqn:E1; [|cbn [andb]; congruence].
  destruct (in_alpha EncHash (strip_dollar (salt ++ sum'))) eqn:E2; [|cbn [andb]; congruence]. intros _.
  apply Z.eqb_eq in E1. unfold slen in E1.
  rewrite strip_same_len in E2 by (rewrite app_length; lia).
  rewrite in_alpha_app in E2. apply andb_true_iff in E2. tauto.
Qed.

Theorem des_digest_any : forall kdf pw salt sum',
  (forall bs ns k, kdf T_des bs ns = Some k -> length k = 8%nat) ->
  length salt = 2%nat -> over crypt_alphabet salt -> length sum' = 11%nat ->
  check_des L0 kdf (canon_des salt sum') pw = VMatch ->
  over crypt_alphabet sum' /\ exists key, key_des L0 kdf pw salt = KOk key /\ be64 key = sum'.
Proof.
  intros kdf pw salt sum' Hk Hls Hs Hl Hv.
  assert (over crypt_alphabet sum') as Ho.
  { apply valid_over_crypt, (des_recog_any salt); auto.
    apply class_of_0 in Hv. rewrite (des_classified L0 kdf _ pw Hk) in Hv. exact (spec_match_some _ _ Hv). }
  split. exact Ho. apply des_digest_tamper; assumption.
Qed.

Theorem des_digest_change_fresh : forall kdf stream pw, kdf_ok kdf T_des 8 -> good_stream stream 2 ->
  len pw <= L_des_MaxPw L0 ->
  forall h, newhash_des L0 kdf stream pw = NOk h ->
  exists key, key_des L0 kdf pw (salt_hash 2 stream) = KOk key /\ h = canon_des (salt_hash 2 stream) (be64 key) /\
  forall sum', length sum' = 11%nat -> sum' <> be64 key ->
    check_des L0 kdf (canon_des (salt_hash 2 stream) sum') pw <> VMatch.
Proof.
  intros kdf stream pw Hk Hs Hpw h Eh.
  destruct (des_digest_tamper_fresh kdf stream pw Hk Hs Hpw h Eh) as (key & Ek & Eh' & _).
  exists key. split. exact Ek. split. exact Eh'. intros sum' Hl Hne Hv.
  destruct (des_digest_any kdf pw (salt_hash 2 stream) sum' (kdf_ok_len _ _ _ Hk) (salt_hash_length 2 stream Hs)
              (salt_hash_over 2 stream Hs) Hl Hv) as (_ & key' & Ek' & Es).
  rewrite Ek in Ek'. injection Ek' as <-. apply Hne. symmetry. exact Es.
Qed.

(* ================================================================== desext *)
Lemma desext_recog_any rounds salt sum' :
  length salt = 4%nat -> length sum' = 11%nat -> recog_desext (canon_desext rounds salt sum') <> None -> salt_ok sum'.
Proof.
  intros Hls Hl. unfold recog_desext, canon_desext, m_desext_Prefix. cbn [app].
  change (95 =? underscore) with true. cbv iota zeta.
  set (t := EncodeInt rounds ++ salt ++ sum').
  assert (length t = 19%nat) as Ht by (unfold t; rewrite !app_length, EncodeInt_length; lia).
  destruct (slen (strip_dollar t) =? 19) eqn:E1; [|cbn [andb]; congruence].
  destruct (in_alpha EncHash (strip_dollar t)) eqn:E2; [|cbn [andb]; congruence]. intros _.
  apply Z.eqb_eq in E1. unfold slen in E1.
  rewrite strip_same_len in E2 by lia.
  unfold t in E2. rewrite !in_alpha_app in E2. apply andb_true_iff in E2. destruct E2 as [_ E2].
  apply andb_true_iff in E2. tauto.
Qed.

Theorem desext_digest_any : forall kdf pw rounds salt sum',
  (forall bs ns k, kdf T_desext bs ns = Some k -> length k = 8%nat) ->
  0 <= rounds < 2 ^ 24 -> length salt = 4%nat -> over crypt_alphabet salt -> length sum' = 11%nat ->
  check_desext L0 kdf (canon_desext rounds salt sum') pw = VMatch ->
  over crypt_alphabet sum' /\ exists key, key_desext L0 kdf pw salt rounds = KOk key /\ be64 key = sum'.
Proof.
  intros kdf pw rounds salt sum' Hk Hr Hls Hs Hl Hv.
  assert (over crypt_alphabet sum') as Ho.
  { apply valid_over_crypt, (desext_recog_any rounds salt); auto.
    apply class_of_0 in Hv. rewrite (desext_classified L0 kdf _ pw Hk) in Hv. exact (spec_match_some _ _ Hv). }
  split. exact Ho. apply desext_digest_tamper; assumption.
Qed.

Theorem desext_digest_change_fresh : forall kdf stream pw rounds, kdf_ok kdf T_desext 8 -> good_stream stream 4 ->
  L_desext_MinRounds L0 <= rounds <= L_desext_MaxRounds L0 ->
  forall h, newhash_desext L0 kdf stream pw rounds = NOk h ->
  exists key, key_desext L0 kdf pw (salt_hash 4 stream) rounds = KOk key /\
  h = canon_desext rounds (salt_hash 4 stream) (be64 key) /\
  forall sum', length sum' = 11%nat -> sum' <> be64 key ->
    check_desext L0 kdf (canon_desext rounds (salt_hash 4 stream) sum') pw <> VMatch.
Proof.
  intros kdf stream pw rounds Hk Hs Hr h Eh.
  destruct (desext_digest_tamper_fresh kdf stream pw rounds Hk Hs Hr h Eh) as (key & Ek & Eh' & _).
  exists key. split. exact Ek. split. exact Eh'. intros sum' Hl Hne Hv.
  destruct (desext_digest_any kdf pw rounds (salt_hash 4 stream) sum' (kdf_ok_len _ _ _ Hk) (desext_rounds24 rounds Hr)
              (salt_hash_length 4 stream Hs) (salt_hash_over 4 stream Hs) Hl Hv) as (_ & key' & Ek' & Es).
  rewrite Ek in Ek'. injection Ek' as <-. apply Hne. symmetry. exact Es.
Qed.

(* ================================================================== bcrypt *)
Lemma bcrypt_recog_any cost salt sum' :
  4 <= cost <= 31 -> length salt = 22%nat -> length sum' = 31%nat ->
  recog_bcrypt (canon_bcrypt cost salt sum') <> None -> salt_ok sum'.
Proof.
  intros Hc Hls Hl. unfold recog_bcrypt, canon_bcrypt.
  change p_bcrypt_2b with m_bcrypt_Prefix2b. rewrite has_prefix_app.
  unfold recog_bcrypt_body. rewrite skipn_app_exact. cbv zeta.
  destruct (cost_text_facts cost Hc) as (Hcl & Hcd & Hcp).
  pose proof (is_digits_alpha _ Hcd) as Hca.
  destruct (has_comma _). congruence.
  unfold plain_frags.
  rewrite pieces_step0 by (apply valid_no_dollar; exact Hca).
  destruct (pieces dollar [] (salt ++ sum')) as [|s [|s2 ps]] eqn:E; try congruence.
  destruct (slen (cost_text cost) =? 2); [|cbn [andb]; congruence].
  destruct (is_digits (cost_text cost)); [|cbn [andb]; congruence].
  destruct (slen s =? 53) eqn:E1; [|cbn [andb]; congruence].
  destruct (in_alpha EncHash s) eqn:E2; [|cbn [andb]; congruence]. intros _.
  apply Z.eqb_eq in E1. unfold slen in E1.
  rewrite (single_piece_len (salt ++ sum') s E) in E2 by (rewrite app_length; lia).
  rewrite in_alpha_app in E2. apply andb_true_iff in E2. tauto.
Qed.

Theorem bcrypt_digest_any : forall kdf pw cost salt sum',
  (forall bs ns k, kdf T_bcrypt bs ns = Some k -> length k = 23%nat) ->
  4 <= cost <= 31 -> length salt = 22%nat -> over bcrypt_std_alphabet salt -> length sum' = 31%nat ->
  check_bcrypt L0 kdf (canon_bcrypt cost salt sum') pw = VMatch ->
  over bcrypt_std_alphabet sum' /\
  exists key, key_bcrypt L0 kdf pw salt cost (Some m_bcrypt_Prefix2b) = KOk key /\ benc key = sum'.
Proof.
  intros kdf pw cost salt sum' Hk Hc Hls Hs Hl Hv.
  assert (over bcrypt_std_alphabet sum') as Ho.
  { apply valid_over_bcrypt, (bcrypt_recog_any cost salt); auto.
    apply class_of_0 in Hv. rewrite (bcrypt_classified L0 kdf _ pw Hk) in Hv. exact (spec_match_some _ _ Hv). }
  split. exact Ho. apply bcrypt_digest_tamper; assumption.
Qed.

Theorem bcrypt_digest_change_fresh : forall kdf stream pw cost, kdf_ok kdf T_bcrypt 23 -> good_stream stream 16 ->
  L_bcrypt_MinCost L0 <= cost <= L_bcrypt_MaxCost L0 ->
  forall h, newhash_bcrypt L0 kdf stream pw cost = NOk h ->
  exists key, key_bcrypt L0 kdf pw (benc (firstn 16 stream)) cost (Some m_bcrypt_Prefix2b) = KOk key /\
  h = canon_bcrypt cost (benc (firstn 16 stream)) (benc key) /\
  forall sum', length sum' = 31%nat -> sum' <> benc key ->
    check_bcrypt L0 kdf (canon_bcrypt cost (benc (firstn 16 stream)) sum') pw <> VMatch.
Proof.
  intros kdf stream pw cost Hk Hs Hc h Eh.
  destruct (bcrypt_digest_tamper_fresh kdf stream pw cost Hk Hs Hc h Eh) as (key & Ek & Eh' & _).
  exists key. split. exact Ek. split. exact Eh'. intros sum' Hl Hne Hv.
  destruct (bcrypt_digest_any kdf pw cost (benc (firstn 16 stream)) sum' (kdf_ok_len _ _ _ Hk) (bcrypt_cost_range cost Hc)
              (bcrypt_salt_length stream Hs) (bcrypt_salt_over stream Hs) Hl Hv) as (_ & key' & Ek' & Es).
  rewrite Ek in Ek'. injection Ek' as <-. apply Hne. symmetry. exact Es.
Qed.

(* ================================================================== sunmd5 *)
(* total size of the pieces, one separator each *)
Fixpoint pieces_size (ps : list bytes) : nat :=
  match ps with [] => 0%nat | p :: r => (S (length p) + pieces_size r)%nat end.

Lemma pieces_size_le : forall x cur, (pieces_size (pieces dollar cur x) <= S (length cur + length x))%nat.
Proof.
  induction x as [|c r IH]; intros cur; cbn [pieces].
  - destruct cur as [|a cur]. cbn. lia. cbn [pieces_size]. rewrite rev_length. cbn [length]. lia.
  - destruct (c =? dollar).
    + cbn [pieces_size]. rewrite rev_length. specialize (IH []). cbn [length] in *. lia.
    + specialize (IH (c :: cur)). cbn [length] in *. lia.
Qed.

Lemma second_piece_short x a b ps : pieces dollar [] x = a :: b :: ps -> (length b < length x)%nat.
Proof.
  intros E. pose proof (pieces_size_le x []) as H. rewrite E in H. cbn [pieces_size length] in H. lia.
Qed.

Lemma sunmd5_recog_any rounds salt sum' :
  0 <= rounds < 2 ^ 32 -> salt_ok salt -> length sum' = 22%nat ->
  recog_sunmd5 (canon_sunmd5 rounds salt sum') <> None -> salt_ok sum'.
Proof.
  intros Hr Hs Hl. unfold recog_sunmd5, canon_sunmd5, sunmd5_prefix_for.
  pose proof (FormatUint10_alpha rounds ltac:(lia)) as Hf.
  assert (no_dollar (k_rounds ++ FormatUint rounds 10)) as Hnd.
  { apply no_dollar_app. split. reflexivity. apply valid_no_dollar, Hf. }
  destruct (rounds =? 0) eqn:E0.
  - change (has_prefix p_sunmd5_c (m_sunmd5_PrefixZeroRounds ++ ?x)) with false. cbv iota.
    change p_sunmd5_d with m_sunmd5_PrefixZeroRounds. rewrite has_prefix_app.
    unfold recog_sunmd5_body. rewrite (skipn_len_app m_sunmd5_PrefixZeroRounds _ 5 eq_refl). cbv zeta.
    rewrite (app_assoc k_rounds).
    destruct (has_comma _). congruence.
    unfold plain_frags. rewrite pieces_step0 by exact Hnd.
    cbn [app]. rewrite pieces_step0 by (apply valid_no_dollar; exact Hs).
    rewrite has_prefix_app. change 7%nat with (length k_rounds). rewrite skipn_app_exact.
    rewrite Hf. cbn [andb]. destruct (ParseUint (FormatUint rounds 10) 10 32) as [v|]; [|congruence].
    destruct (pieces dollar [] sum') as [|s [|s2 [|s3 ps]]] eqn:E.
    + apply pieces_nil in E. subst sum'. discriminate Hl.
    + destruct (salt_sum_ok salt s 22) eqn:Ok; [|congruence]. intros _.
      apply salt_sum_ok_inv in Ok. destruct Ok as [Hn' Ha].
      rewrite <- (single_piece_len sum' s E) by lia. exact Ha.
    + destruct (nil_b s); [|congruence].
      destruct (salt_sum_ok salt s2 22) eqn:Ok; [|congruence]. intros _. exfalso.
      apply salt_sum_ok_inv in Ok. destruct Ok as [Hn' _].
      pose proof (second_piece_short sum' s s2 [] E). lia.
    + congruence.
  - change p_sunmd5_c with m_sunmd5_PrefixNonZeroRounds. rewrite has_prefix_app.
    unfold recog_sunmd5_body. rewrite (skipn_len_app m_sunmd5_PrefixNonZeroRounds _ 5 eq_refl). cbv zeta.
    rewrite (app_assoc k_rounds).
    destruct (has_comma _). congruence.
    unfold plain_frags. rewrite pieces_step0 by exact Hnd.
    cbn [app]. rewrite pieces_step0 by (apply valid_no_dollar; exact Hs).
    change (pieces dollar [] (dollar :: sum')) with ([] :: pieces dollar [] sum').
    rewrite has_prefix_app. change 7%nat with (length k_rounds). rewrite skipn_app_exact.
    rewrite Hf. cbn [andb]. destruct (ParseUint (FormatUint rounds 10) 10 32) as [v|]; [|congruence].
    destruct (pieces dollar [] sum') as [|s [|s2 ps]] eqn:E.
    + apply pieces_nil in E. subst sum'. discriminate Hl.
    + cbn [nil_b]. destruct (salt_sum_ok salt s 22) eqn:Ok; [|congruence]. intros _.
      apply salt_sum_ok_inv in Ok. destruct Ok as [Hn' Ha].
      rewrite <- (single_piece_len sum' s E) by lia. exact Ha.
    + congruence.
Qed.

Theorem sunmd5_digest_any : forall kdf pw rounds salt sum',
  (forall bs ns k, kdf T_sunmd5 bs ns = Some k -> length k = 16%nat) ->
  0 <= rounds < 2 ^ 32 -> over crypt_alphabet salt -> length sum' = 22%nat ->
  check_sunmd5 L0 kdf (canon_sunmd5 rounds salt sum') pw = VMatch ->
  over crypt_alphabet sum' /\
  exists key, key_sunmd5 L0 kdf pw salt rounds (Some (sunmd5_prefix_for rounds, rounds =? 0)) = KOk key /\ le64 key = sum'.
Proof.
  intros kdf pw rounds salt sum' Hk Hr Hs Hl Hv.
  assert (over crypt_alphabet sum') as Ho.
  { apply valid_over_crypt, (sunmd5_recog_any rounds salt); auto using crypt_valid.
    apply class_of_0 in Hv. rewrite (sunmd5_classified L0 kdf _ pw Hk) in Hv. exact (spec_match_some _ _ Hv). }
  split. exact Ho. apply sunmd5_digest_tamper; assumption.
Qed.

Theorem sunmd5_digest_change_fresh : forall kdf stream pw rounds, kdf_ok kdf T_sunmd5 16 -> good_stream stream 8 ->
  len pw <= L_sunmd5_MaxPw L0 -> 0 <= rounds <= L_sunmd5_MaxRounds L0 ->
  forall h, newhash_sunmd5 L0 kdf stream pw rounds = NOk h ->
  exists key, key_sunmd5 L0 kdf pw (salt_hash 8 stream) rounds (Some (sunmd5_prefix_for rounds, rounds =? 0)) = KOk key /\
  h = canon_sunmd5 rounds (salt_hash 8 stream) (le64 key) /\
  forall sum', length sum' = 22%nat -> sum' <> le64 key ->
    check_sunmd5 L0 kdf (canon_sunmd5 rounds (salt_hash 8 stream) sum') pw <> VMatch.
Proof.
  intros kdf stream pw rounds Hk Hs Hpw Hr h Eh.
  destruct (sunmd5_digest_tamper_fresh kdf stream pw rounds Hk Hs Hpw Hr h Eh) as (key & Ek & Eh' & _).
  exists key. split. exact Ek. split. exact Eh'. intros sum' Hl Hne Hv.
  destruct (sunmd5_digest_any kdf pw rounds (salt_hash 8 stream) sum' (kdf_ok_len _ _ _ Hk) (sunmd5_rounds32 rounds Hr)
              (salt_hash_over 8 stream Hs) Hl Hv) as (_ & key' & Ek' & Es).
  rewrite Ek in Ek'. injection Ek' as <-. apply Hne. symmetry. exact Es.
Qed.

(* ================================================================== argon2 *)
(* the recogniser does not fix the digest length (Check compares with a slice of whatever length), so the digest
   length comes from the derivation: 32-byte keys encode to 43 characters *)
Local Notation aopts := (Some (m_argon2_Prefix2id, m_argon2_Version13)).

Lemma argon2_rest_inv pre v params salt s r :
  recog_argon2_rest pre v params salt s = Some r -> r_sum r = s /\ in_alpha EncBase64 s = true.
Proof.
  unfold recog_argon2_rest.
  destruct (split_on comma [] params) as [|a [|b [|c [|d l]]]]; try discriminate.
  destruct (member_num a) as [[ka va]|]; [|discriminate].
  destruct (member_num b) as [[kb vb]|]; [|discriminate].
  destruct (member_num c) as [[kc vc]|]; [|discriminate].
  match goal with |- (if ?c then _ else _) = _ -> _ => destruct c eqn:C end; [|discriminate].
  destruct (lookup_key 109 _); [|discriminate].
  destruct (lookup_key 116 _); [|discriminate].
  destruct (lookup_key 112 _); [|discriminate].
  intros H. injection H as <-. cbn [mk_r r_sum]. split. reflexivity.
  apply andb_true_iff in C. tauto.
Qed.

Lemma argon2_recog_any memory time salt sum' r :
  0 <= memory -> 0 <= time -> over base64_std_alphabet salt ->
  recog_argon2 (canon_argon2 memory time salt sum') = Some r ->
  exists s, pieces dollar [] sum' = [s] /\ r_sum r = s /\ in_alpha EncBase64 s = true.
Proof.
  intros Hm Ht Hs. unfold recog_argon2, canon_argon2.
  change p_argon2id with m_argon2_Prefix2id. rewrite has_prefix_app.
  unfold recog_argon2_body. rewrite skipn_app_exact.
  change m_argon2_Version13 with 19. change m_argon2_DefaultThreads with 1.
  pose proof (FormatUint10_alpha memory Hm) as Hfm.
  pose proof (FormatUint10_alpha time Ht) as Hft.
  destruct (std_no_delims _ Hs) as [Hsd Hsc].
  rewrite (app_assoc k_v).
  rewrite pieces_step0 by reflexivity.
  replace (k_m ++ FormatUint memory 10 ++ comma :: k_t ++ FormatUint time 10 ++ comma :: k_p ++ FormatUint 1 10 ++
           dollar :: salt ++ dollar :: sum')
    with ((k_m ++ FormatUint memory 10 ++ comma :: k_t ++ FormatUint time 10 ++ comma :: k_p ++ FormatUint 1 10) ++
           dollar :: salt ++ dollar :: sum')
    by (rewrite <- !app_assoc; cbn [app]; rewrite <- !app_assoc; cbn [app]; rewrite <- !app_assoc; reflexivity).
  rewrite pieces_step0 by (apply no_dollar_params; apply valid_no_dollar; assumption).
  rewrite pieces_step0 by exact Hsd.
  destruct (pieces dollar [] sum') as [|s [|s2 ps]] eqn:E.
  - unfold recog_argon2_rest.
    change (split_on comma [] (k_v ++ FormatUint 19 10)) with [k_v ++ FormatUint 19 10]. discriminate.
  - change (has_prefix k_v (k_v ++ FormatUint 19 10) && negb (has_comma (k_v ++ FormatUint 19 10)) &&
            in_alpha EncHash (skipn 2 (k_v ++ FormatUint 19 10))) with true. cbv iota.
    change (ParseUint (skipn 2 (k_v ++ FormatUint 19 10)) 10 8) with (@inl Z perr 19). cbv iota.
    intros H. exists s. split. reflexivity. eapply argon2_rest_inv. exact H.
  - discriminate.
Qed.

Lemma key_argon2_kdf L kdf pw salt memory time threads opts key :
  key_argon2 L kdf pw salt memory time threads opts = KOk key -> exists bs ns, kdf T_argon2 bs ns = Some key.
Proof.
  unfold key_argon2. destruct (match opts with Some o => o | None => _ end) as [prefix version].
  destruct (negb _); [discriminate|]. destruct (negb _); [discriminate|].
  destruct (_ <? _); [discriminate|]. destruct (first_bad_b64 salt); [discriminate|].
  destruct (_ <? _); [discriminate|]. destruct (_ <? _); [discriminate|]. destruct (_ <? _); [discriminate|].
  unfold run_kdf. destruct (kdf T_argon2 _ _) as [k|] eqn:E; [|discriminate].
  intros H. injection H as <-. eauto.
Qed.

Theorem argon2_digest_any : forall kdf pw memory time salt sum',
  (forall bs ns k, kdf T_argon2 bs ns = Some k -> length k = 32%nat) ->
  0 <= memory < 2 ^ 32 -> 0 <= time < 2 ^ 32 -> over base64_std_alphabet salt -> length sum' = 43%nat ->
  check_argon2 L0 kdf (canon_argon2 memory time salt sum') pw = VMatch ->
  over base64_std_alphabet sum' /\
  exists key, key_argon2 L0 kdf pw salt memory time m_argon2_DefaultThreads aopts = KOk key /\ aenc key = sum'.
Proof.
  intros kdf pw memory time salt sum' Hk Hm Ht Hs Hl Hv.
  assert (over base64_std_alphabet sum') as Ho.
  { pose proof Hv as Hc. apply class_of_0 in Hc. rewrite (argon2_classified L0 kdf _ pw) in Hc. unfold spec_argon2 in Hc.
    destruct (recog_argon2 (canon_argon2 memory time salt sum')) as [r|] eqn:Er; [|discriminate Hc].
    apply class_key_0 in Hc. destruct Hc as (key & Ek & Es).
    destruct (key_argon2_kdf _ _ _ _ _ _ _ _ _ Ek) as (bs & ns & Ekdf). pose proof (Hk _ _ _ Ekdf) as Hlk.
    destruct (argon2_recog_any memory time salt sum' r ltac:(lia) ltac:(lia) Hs Er) as (s & Ep & Ers & Ha).
    assert (length s = 43%nat) as Hls by (rewrite <- Ers, <- Es, be64_length, Hlk; reflexivity).
    rewrite (single_piece_len sum' s Ep) in Ha by lia. apply valid_over_std. exact Ha. }
  split. exact Ho. apply argon2_digest_tamper; try assumption. intros ->. discriminate Hl.
Qed.

Theorem argon2_digest_change_fresh : forall kdf stream pw memory time, kdf_ok kdf T_argon2 32 -> good_stream stream 8 ->
  L_argon2_MinMemory L0 <= memory < 2 ^ 32 -> L_argon2_MinTime L0 <= time < 2 ^ 32 ->
  forall h, newhash_argon2 L0 kdf stream pw memory time = NOk h ->
  exists key, key_argon2 L0 kdf pw (aenc (firstn 8 stream)) memory time m_argon2_DefaultThreads aopts = KOk key /\
  h = canon_argon2 memory time (aenc (firstn 8 stream)) (aenc key) /\ length (aenc key) = 43%nat /\
  forall sum', length sum' = 43%nat -> sum' <> aenc key ->
    check_argon2 L0 kdf (canon_argon2 memory time (aenc (firstn 8 stream)) sum') pw <> VMatch.
Proof.
  intros kdf stream pw memory time Hk Hs Hm Ht h Eh.
  destruct (argon2_digest_tamper_fresh kdf stream pw memory time Hk Hs Hm Ht h Eh) as (key & Ek & Eh' & _).
  exists key. split. exact Ek. split. exact Eh'.
  split.
  { destruct (key_argon2_kdf _ _ _ _ _ _ _ _ _ Ek) as (bs & ns & Ekdf).
    rewrite be64_length, (kdf_ok_len _ _ _ Hk _ _ _ Ekdf). reflexivity. }
  intros sum' Hl Hne Hv.
  destruct (argon2_digest_any kdf pw memory time (aenc (firstn 8 stream)) sum' (kdf_ok_len _ _ _ Hk)
              (argon2_mem32 memory Hm) (argon2_time32 time Ht) (argon2_salt_over stream Hs) Hl Hv) as (_ & key' & Ek' & Es).
  rewrite Ek in Ek'. injection Ek' as <-. apply Hne. symmetry. exact Es.
Qed.

Print Assumptions md5_digest_any.
Print Assumptions md5_digest_change_fresh.
Print Assumptions sha256_digest_any.
Print Assumptions sha512_digest_any.
Print Assumptions sha256_digest_change_fresh.
Print Assumptions sha512_digest_change_fresh.
Print Assumptions sha1_digest_any.
Print Assumptions sha1_digest_change_fresh.
Print Assumptions sha1_random_digest_change_fresh.
Print Assumptions nthash_digest_any.
Print Assumptions nthash_digest_change_fresh.
Print Assumptions des_digest_any.
Print Assumptions des_digest_change_fresh.
Print Assumptions desext_digest_any.
Print Assumptions desext_digest_change_fresh.
Print Assumptions bcrypt_digest_any.
Print Assumptions bcrypt_digest_change_fresh.
Print Assumptions sunmd5_digest_any.
Print Assumptions sunmd5_digest_change_fresh.
Print Assumptions argon2_digest_any.
Print Assumptions argon2_digest_change_fresh.
